/-
  Helper lemmas of wave 16 (d), C17 clause 11: writing with label decoration (`gf`, `gf_separator`, `brackets_emptyroot`) is
  writing the relabelled tree `carryBrackets o true t` without options; the specification grammar of bracket files on a
  group whose root label is not printed (`spOK_rootEmpty`) and on a file of such lines (`specBrackets_fileQ`).
-/
import TT.Lemmas.More8
import TT.Lemmas.Run
import TT.Lemmas.OwnRT
import TT.Lemmas.More12i
namespace TT.Lemmas.More16d
open TT TT.Tree TT.Spec TT.Lemmas.Run TT.Lemmas.More8 TT.Lemmas.WF TT.Lemmas.Write TT.Lemmas.Read TT.Lemmas.OwnRT TT.Lemmas.Nav

theorem noMarks_empty : NoMarks {} := ⟨rfl, rfl, rfl⟩

theorem bracketsKids_map2 (o o' : OutOpts) (g : Tree → Tree) (hl : ∀ k, leftmost (g k) = leftmost k) : ∀ ks : List Tree,
    (∀ k ∈ ks, bracketsSub o' false (g k) = bracketsSub o false k) → bracketsKids o' (ks.map g) = bracketsKids o ks
  | [], _ => rfl
  | k :: ks, h => by
    simp only [List.map_cons, bracketsKids, hl, h k List.mem_cons_self,
      bracketsKids_map2 o o' g hl ks (fun c hc => h c (List.mem_cons_of_mem _ hc))]

/-- writing with decoration = writing the relabelled tree plainly (`r` = "is the root") -/
theorem bracketsSub_plain_carry (o : OutOpts) (hm : NoMarks o) (t : Tree) : ∀ r : Bool,
    (∀ n f, leaf n f ∈ subtrees t →
      replaceParens (printedLabel o (leaf n (replaceParensFields f))) = printedLabel o (leaf n (replaceParensFields f)) ∧
      ∀ w, f.word = some w → ParenStable w) →
    (∀ f, node f [] ∉ subtrees t) →
    bracketsSub o (r && o.emptyRoot) t = bracketsSub {} false (carryBrackets o r t) := by
  induction t using tree_ind with
  | hl n f =>
    intro r h1 _
    obtain ⟨hlab, hword⟩ := h1 n f (by simp [subtrees])
    rw [carryBrackets, bracketsSub_leaf_nm {} noMarks_empty, bracketsSub_leaf_nm o hm, printedLabel_no_edge {} noMarks_empty _ rfl]
    simp only [fields, replaceParensFields]
    simp only [replaceParensFields] at hlab
    rw [hlab]
    cases hw : f.word with
    | none => rfl
    | some w => simp only [Option.map_some, Option.getD_some]; rw [hword w hw]
  | hn f ks ih =>
    intro r h1 h2
    cases ks with
    | nil => exact absurd (self_mem_subtrees _) (h2 f)
    | cons k ks' =>
      rw [carryBrackets, carryBracketsL_eq]
      simp only [List.map_cons]
      rw [bracketsSub_node_nm o hm, bracketsSub_node_nm {} noMarks_empty, ← List.map_cons,
        bracketsKids_map2 o {} (carryBrackets o false) (leftmost_carryBrackets o false) (k :: ks')]
      · rw [printedLabel_no_edge {} noMarks_empty _ rfl]
        cases (r && o.emptyRoot) <;> rfl
      · intro c hc
        have := ih c hc false
          (fun n f0 hm' => h1 n f0 ((mem_subtrees_node f (k :: ks') _).2 (Or.inr ⟨c, hc, hm'⟩)))
          (fun f0 hm' => h2 f0 ((mem_subtrees_node f (k :: ks') _).2 (Or.inr ⟨c, hc, hm'⟩)))
        simpa using this.symm


/-! ### the relabelled tree: shape facts -/

theorem noEmpty_carryBrackets (o : OutOpts) (t : Tree) : ∀ r : Bool, (carryBrackets o r t).noEmpty = t.noEmpty := by
  induction t using tree_ind with
  | hl n f => intro r; rw [carryBrackets]; rfl
  | hn f ks ih =>
    intro r
    rw [carryBrackets, carryBracketsL_eq]
    have h1 := noEmpty_node_iff f ks
    have h2 := noEmpty_node_iff ({ label := (if r && o.emptyRoot then [] else printedLabel o (node f ks)) } : Fields)
      (ks.map (carryBrackets o false))
    rw [Bool.eq_iff_iff, h1, h2]
    simp only [ne_eq, List.map_eq_nil_iff, List.mem_map, forall_exists_index, and_imp, forall_apply_eq_imp_iff₂]
    constructor
    · rintro ⟨a, b⟩; exact ⟨a, fun k hk => by rw [← ih k hk false]; exact b k hk⟩
    · rintro ⟨a, b⟩; exact ⟨a, fun k hk => by rw [ih k hk false]; exact b k hk⟩

theorem carry_leaf_mem (o : OutOpts) (n : Nat) (f : Fields) (t : Tree) : ∀ r : Bool, leaf n f ∈ subtrees t →
    leaf n { label := printedLabel o (leaf n (replaceParensFields f)), word := f.word.map replaceParens } ∈
      subtrees (carryBrackets o r t) := by
  induction t using tree_ind with
  | hl m g =>
    intro r h
    simp only [subtrees, List.mem_singleton] at h
    cases h
    rw [carryBrackets]; simp [subtrees]
  | hn g ks ih =>
    intro r h
    rcases (mem_subtrees_node g ks _).1 h with h | ⟨k, hk, hs⟩
    · cases h
    · rw [carryBrackets, carryBracketsL_eq]
      exact (mem_subtrees_node _ _ _).2 (Or.inr ⟨_, List.mem_map_of_mem hk, ih k hk false hs⟩)

theorem no_empty_node (t : Tree) (hne : t.noEmpty = true) (f : Fields) : node f [] ∉ subtrees t := by
  intro h
  have := noEmpty_of_mem_subtrees t hne _ h
  simp [noEmpty] at this

/-- the hypotheses of `bracketsSub_plain_carry` from facts about the relabelled tree alone -/
theorem bracketsSub_plain_carry' (o : OutOpts) (hm : NoMarks o) (t : Tree) (r : Bool)
    (hne : (carryBrackets o r t).noEmpty = true)
    (hp : ∀ x ∈ subtrees (carryBrackets o r t),
      replaceParens x.fields.label = x.fields.label ∧ (x.fields.word.map replaceParens) = x.fields.word) :
    bracketsSub o (r && o.emptyRoot) t = bracketsSub {} false (carryBrackets o r t) := by
  refine bracketsSub_plain_carry o hm t r ?_ (no_empty_node t (by rw [← noEmpty_carryBrackets o t r]; exact hne))
  intro n f hmem
  obtain ⟨h1, h2⟩ := hp _ (carry_leaf_mem o n f t r hmem)
  refine ⟨h1, ?_⟩
  intro w hw
  simp only [fields, hw, Option.map_some, Option.some.injEq] at h2
  exact h2

/-- the bracket writer with decoration options on a tree = without options on the relabelled tree -/
theorem writeBrackets_plain_carry (o : OutOpts) (hm : NoMarks o) (t : Tree)
    (hne : (carryBrackets o true t).noEmpty = true) (hc : gapDegree (carryBrackets o true t) = 0)
    (hp : ∀ x ∈ subtrees (carryBrackets o true t),
      replaceParens x.fields.label = x.fields.label ∧ (x.fields.word.map replaceParens) = x.fields.word) :
    writeBrackets o t = writeBrackets {} (carryBrackets o true t) := by
  have hb := bracketsSub_plain_carry' o hm t true hne hp
  simp only [Bool.true_and] at hb
  have hc' := (gapDegree_zero_carryBrackets o true t).1 hc
  unfold writeBrackets
  simp only [hc, hc', Nat.lt_irrefl, if_false, gt_iff_lt, hb]

theorem bodyText_congr (fmt fmt' : DestFmt) (o o' : OutOpts) (h : Tree → Tree) : ∀ g : List (Nat × Tree),
    (∀ p ∈ g, writeOne fmt o p.1 p.2 = writeOne fmt' o' p.1 (h p.2)) →
    bodyText fmt o g = bodyText fmt' o' (g.map fun p => (p.1, h p.2))
  | [], _ => rfl
  | p :: g, hh => by
    have ih := bodyText_congr fmt fmt' o o' h g (fun q hq => hh q (List.mem_cons_of_mem _ hq))
    have e1 : bodyText fmt o (p :: g) = (do let x ← bodyText fmt o [p]; let y ← bodyText fmt o g; pure (x ++ y)) :=
      bodyText_append fmt o [p] g
    have e2 : bodyText fmt' o' ((p :: g).map fun p => (p.1, h p.2)) =
        (do let x ← bodyText fmt' o' [(p.1, h p.2)]; let y ← bodyText fmt' o' (g.map fun p => (p.1, h p.2)); pure (x ++ y)) :=
      bodyText_append fmt' o' [(p.1, h p.2)] _
    rw [e1, e2, ih]
    have : bodyText fmt o [p] = bodyText fmt' o' [(p.1, h p.2)] := by
      simp only [bodyText, List.mapM_cons, List.mapM_nil, hh p List.mem_cons_self]
    rw [this]

/-- a group written in bracket format with decoration options is the group of relabelled trees written without options -/
theorem bodyText_brackets_carry (o : OutOpts) (hm : NoMarks o) (g : List (Nat × Tree))
    (hg : ∀ p ∈ g, (carryBrackets o true p.2).noEmpty = true ∧ gapDegree (carryBrackets o true p.2) = 0 ∧
      ∀ x ∈ subtrees (carryBrackets o true p.2),
        replaceParens x.fields.label = x.fields.label ∧ (x.fields.word.map replaceParens) = x.fields.word) :
    bodyText .brackets o g = bodyText .brackets {} (g.map fun p => (p.1, carryBrackets o true p.2)) := by
  apply bodyText_congr
  intro p hp
  obtain ⟨h1, h2, h3⟩ := hg p hp
  simp only [writeOne, writeBrackets_plain_carry o hm p.2 h1 h2 h3]

/-! ### `brackets_emptyroot`: the specification grammar on a group whose root label is not printed -/

theorem spNode_rootEmpty (fuel : Nat) (r2 : Str) (cnt : Nat) (ks : List Tree) (r' : Str) (cnt' : Nat)
    (hne : ks ≠ []) (h : spKids false fuel ('(' :: r2) cnt [] = some (ks, r', cnt')) :
    spNode false true (fuel + 1) ('(' :: '(' :: r2) cnt = some (node { label := DEFAULT_ROOT } ks, r', cnt') := by
  have hkne : ks.isEmpty = false := by simpa using hne
  rw [spNode]
  simp [skipWs_cons_not '(' r2 (by decide), h, hkne, isTokC]

/-- a constituent whose label is empty, written without options (`((A a)(B b))`), parsed as a group of the grammar: the root gets
    the default label, the children are read as usual -/
theorem spOK_rootEmpty (f : Fields) (ks : List Tree) (hf : f.label = [])
    (hne : (node f ks).noEmpty = true) (hnd : (node f ks).leafNums.Nodup)
    (hgap : ∀ y ∈ subtrees (node f ks), gapDegreeNode y = 0) (hlab : ∀ k ∈ ks, ∀ y ∈ subtrees k, PlainOK y) :
    ∀ s, bracketsSub {} false (node f ks) = .ok s → (∃ s', s = '(' :: s') ∧ ∀ (fuel : Nat), s.length ≤ fuel → ∀ rest, ∃ d,
      spNode false true fuel (s ++ rest) (leftmost (node f ks)) =
        some (d, rest, leftmost (node f ks) + (node f ks).leafNums.length) ∧
      sortKids d = sortKids (node { label := DEFAULT_ROOT } (ks.map asReadBrackets)) := by
  obtain ⟨hks, hkne'⟩ := (noEmpty_node_iff f ks).1 hne
  have hsubk : ∀ k ∈ ks, ∀ y ∈ subtrees k, y ∈ subtrees (node f ks) :=
    fun k hk y hy => (mem_subtrees_node f ks y).2 (Or.inr ⟨k, hk, hy⟩)
  have hndk : ∀ k ∈ ks, k.leafNums.Nodup := fun k hk => (leafNums_sublist_of_mem f ks k hk).nodup hnd
  have ih : ∀ k ∈ ks, SpOK k := fun k hk =>
    spOK k (hkne' k hk) (hndk k hk) (fun y hy => hgap y (hsubk k hk y hy)) (hlab k hk)
  have hkne : ∀ k ∈ ks, k.leafNums ≠ [] := fun k hk => noEmpty_leafNums_ne_nil k (hkne' k hk)
  have hcx : Cont (node f ks) := cont_of_gap _ hnd (hgap _ (self_mem_subtrees _))
  have hck : ∀ k ∈ ks, Cont k := fun k hk => cont_of_gap _ (hndk k hk) (hgap k (hsubk k hk k (self_mem_subtrees k)))
  intro s hs
  obtain ⟨l, parts, hl, hp, rfl⟩ := bracketsSub_node_ok {} f ks s hks hs
  obtain ⟨hparts, hsub⟩ := bracketsKids_ok {} ks parts hp
  refine ⟨⟨_, rfl⟩, ?_⟩
  intro fuel hfu rest
  rw [TT.Props.C20.getLabel_plain] at hl
  cases hl
  have hT : ((sortBy (·.1) parts).map (·.2)).flatten = (((sortBy leftmost ks).map (strOf {})).flatten) := by
    rw [hparts, sortBy_map_keyed]
  rw [hT] at hfu ⊢
  have hmem : ∀ k, k ∈ sortBy leftmost ks ↔ k ∈ ks := fun k => mem_sortBy leftmost ks k
  have hperm : ((sortBy leftmost ks).flatMap leafNums).Perm (node f ks).leafNums := by
    rw [leafNums_node]; exact List.Perm.flatMap_right _ (sortBy_perm leftmost ks)
  have htight : Tight (leftmost (node f ks)) (sortBy leftmost ks) := by
    refine tight_of_perm _ _ (sortBy_sorted leftmost ks) (fun k hk => ⟨hck k ((hmem k).1 hk), hkne k ((hmem k).1 hk)⟩) ?_
    rw [hperm.length_eq, ← hcx]
    exact hperm.trans (yield_perm _).symm
  obtain ⟨g, rfl⟩ : ∃ g, fuel = g + 1 := ⟨fuel - 1, by simp at hfu; omega⟩
  obtain ⟨ds, hds, hsds, hlen⟩ := spKidsRun (sortBy leftmost ks) (leftmost (node f ks)) [] g rest
    (fun k hk => ⟨ih k ((hmem k).1 hk), hsub k ((hmem k).1 hk)⟩) htight
    (by simp only [List.length_cons, List.length_append, List.length_nil] at hfu; omega)
  simp only [List.reverse_nil, List.nil_append] at hds
  have hdne : ds ≠ [] := by
    intro e
    rw [e, sortBy_length] at hlen
    exact hks (List.eq_nil_of_length_eq_zero hlen.symm)
  have hstart : ∃ r2, ((sortBy leftmost ks).map (strOf {})).flatten ++ ')' :: rest = '(' :: r2 := by
    cases hL : sortBy leftmost ks with
    | nil =>
      have := sortBy_length leftmost ks
      rw [hL] at this
      exact absurd (List.eq_nil_of_length_eq_zero this.symm) hks
    | cons k0 L0 =>
      have hk0 : k0 ∈ ks := (hmem k0).1 (by rw [hL]; simp)
      obtain ⟨s0, hs0⟩ := hsub k0 hk0
      obtain ⟨⟨s0', hs0'⟩, _⟩ := ih k0 hk0 s0 hs0
      exact ⟨s0' ++ ((L0.map (strOf {})).flatten ++ ')' :: rest), by simp [strOf_ok {} k0 s0 hs0, hs0']⟩
  obtain ⟨r2, hr2⟩ := hstart
  refine ⟨node { label := DEFAULT_ROOT } ds, ?_, ?_⟩
  · have e : '(' :: ((node f ks).fields.label ++ (((sortBy leftmost ks).map (strOf {})).flatten ++ [')'])) ++ rest =
        '(' :: '(' :: r2 := by simp [Tree.fields, hf, ← hr2]
    rw [hr2] at hds
    rw [e, spNode_rootEmpty g r2 _ ds rest _ hdne hds, hperm.length_eq]
  · have hkey : ∀ a : Tree, leftmost ((fun k => sortKids (asReadBrackets k)) a) = leftmost a :=
      fun a => leftmost_sortKids_asRead a
    rw [sortKids, sortKidsL_eq, hsds, sortBy_map leftmost leftmost _ hkey,
      sortBy_of_sorted leftmost _ (sortBy_sorted leftmost ks)]
    rw [sortKids, sortKidsL_eq, List.map_map]
    rw [show (sortKids ∘ asReadBrackets) = (fun k => sortKids (asReadBrackets k)) from rfl,
      sortBy_map leftmost leftmost _ hkey]


/-! ### a file of lines, each a group of the grammar (any property of the tree read) -/

/-- the line `s` is one group of the grammar; the tree read has the property `Q` -/
def LineOK (Q : Tree → Prop) (s : Str) : Prop :=
  (∃ s', s = '(' :: s') ∧ ∃ c, ∀ (fuel : Nat), s.length ≤ fuel → ∀ rest, ∃ d,
    spNode false true fuel (s ++ rest) 1 = some (d, rest, c) ∧ Q d

theorem spGroups_lineQ (fuel : Nat) (s rest : Str) (acc : List Tree) (Q : Tree → Prop) (h : LineOK Q s) :
    ∃ d, spGroups false (fuel + 2) (s ++ '\n' :: rest) acc = spGroups false fuel rest (d :: acc) ∧ Q d := by
  obtain ⟨⟨s', rfl⟩, c, h⟩ := h
  obtain ⟨d, h1, hP⟩ := h (2 * (s' ++ '\n' :: rest).length + 4) (by simp; omega) ('\n' :: rest)
  refine ⟨d, ?_, hP⟩
  rw [List.cons_append, spGroups]
  rw [List.cons_append] at h1
  simp only [h1]
  exact spGroups_skip_nl fuel rest (d :: acc)

theorem spGroups_fileQ (Q : Tree → Tree → Prop) : ∀ (ts : List Tree) (lines : List Str) (acc : List Tree) (fuel : Nat),
    lines.length = ts.length →
    (∀ i, i < ts.length → ∃ t s, ts[i]? = some t ∧ lines[i]? = some s ∧ LineOK (Q t) s) → 2 * ts.length + 1 ≤ fuel →
    ∃ rs, spGroups false fuel ((lines.map (· ++ ['\n'])).flatten) acc = some (acc.reverse ++ rs) ∧ rs.length = ts.length ∧
      ∀ i, i < ts.length → ∃ t r, ts[i]? = some t ∧ rs[i]? = some r ∧ Q t r
  | [], lines, acc, fuel, hl, _, hf => by
    have : lines = [] := List.eq_nil_of_length_eq_zero hl
    subst this
    obtain ⟨g, rfl⟩ : ∃ g, fuel = g + 1 := ⟨fuel - 1, by omega⟩
    exact ⟨[], by simp [spGroups_nil], rfl, by simp⟩
  | t :: ts, [], acc, fuel, hl, _, _ => by simp at hl
  | t :: ts, s :: lines, acc, fuel, hl, h, hf => by
    obtain ⟨g, rfl⟩ : ∃ g, fuel = g + 2 := ⟨fuel - 2, by simp at hf; omega⟩
    have h0 : LineOK (Q t) s := by
      obtain ⟨t', s', ht, hs, hg⟩ := h 0 (by simp)
      simp at ht hs; subst ht; subst hs; exact hg
    obtain ⟨d, hd, hsd⟩ := spGroups_lineQ g s ((lines.map (· ++ ['\n'])).flatten) acc _ h0
    obtain ⟨rs, hrs, hlen, hall⟩ := spGroups_fileQ Q ts lines (d :: acc) g (by simpa using hl)
      (fun i hi => by
        obtain ⟨t', s', ht, hs, hg⟩ := h (i + 1) (by simp; omega)
        exact ⟨t', s', by simpa using ht, by simpa using hs, hg⟩)
      (by simp at hf; omega)
    refine ⟨d :: rs, ?_, by simp [hlen], ?_⟩
    · simp only [List.map_cons, List.flatten_cons, List.append_assoc, List.cons_append, List.nil_append]
      rw [hd, hrs]; simp
    · intro i hi
      cases i with
      | zero => exact ⟨t, d, by simp, by simp, hsd⟩
      | succ i =>
        obtain ⟨t', r, ht, hr, hst⟩ := hall i (by simp at hi; omega)
        exact ⟨t', r, by simpa using ht, by simpa using hr, hst⟩

/-- the file-level form: the lines of a file, each a group, are read by the specification grammar one tree per line -/
theorem specBrackets_fileQ (Q : Tree → Tree → Prop) (ts : List Tree) (lines : List Str) (hl : lines.length = ts.length)
    (h : ∀ i, i < ts.length → ∃ t s, ts[i]? = some t ∧ lines[i]? = some s ∧ LineOK (Q t) s) :
    ∃ rs, specBrackets false ((lines.map (· ++ ['\n'])).flatten) = some rs ∧ rs.length = ts.length ∧
      ∀ i, i < ts.length → ∃ t r, ts[i]? = some t ∧ rs[i]? = some r ∧ Q t r := by
  have hlen := length_le_flatten_lines lines
  obtain ⟨rs, hrs, hrl, hall⟩ := spGroups_fileQ Q ts lines [] (2 * ((lines.map (· ++ ['\n'])).flatten).length + 2) hl h (by omega)
  refine ⟨rs, ?_, hrl, hall⟩
  unfold specBrackets
  simpa using hrs

/-! ### discobrackets with decoration options -/

/-- the discontinuous-bracket writer with decoration options on a tree = without options on the relabelled tree; the words must
    be free of parentheses to replace (the sentence after the TAB is printed unreplaced) -/
theorem writeDisco_plain_carry (o : OutOpts) (hm : NoMarks o) (t : Tree)
    (hne : (carryBrackets o true t).noEmpty = true)
    (hlab : ∀ x ∈ subtrees (carryBrackets o true t), replaceParens x.fields.label = x.fields.label)
    (hwd : ∀ n f, leaf n f ∈ subtrees t → f.word.map replaceParens = f.word) :
    writeDisco o t = writeDisco {} (carryBrackets o true t) := by
  have hsub : ∀ s, s ∈ subtrees (wordsToNums t) → ∃ s0 ∈ subtrees t, wordsToNums s0 = s := by
    intro s hs
    rw [subtrees_wordsToNums] at hs
    exact List.mem_map.1 hs
  have hne' : t.noEmpty = true := by rw [← noEmpty_carryBrackets o t true]; exact hne
  have hb := bracketsSub_plain_carry o hm (wordsToNums t) true
    (by
      intro n f hm'
      obtain ⟨s0, hs0, he⟩ := hsub _ hm'
      cases s0 with
      | leaf n0 f0 =>
        simp only [wordsToNums, leaf.injEq] at he
        obtain ⟨rfl, rfl⟩ := he
        refine ⟨?_, ?_⟩
        · rw [printedLabel_congr o (leaf n0 (replaceParensFields f0))
            (leaf n0 (replaceParensFields { f0 with word := some (natToStr n0) })) rfl rfl rfl rfl rfl rfl]
          have h := hlab _ (carry_leaf_mem o n0 f0 t true hs0)
          simp only [fields] at h
          exact h
        · intro w hw
          simp only [Option.some.injEq] at hw
          subst hw
          exact parenStable_of_fixed _ (replaceParens_natToStr n0)
      | node f0 ks0 => simp [wordsToNums] at he)
    (no_empty_node _ (TT.Lemmas.More12i.noEmpty_wordsToNums t hne'))
  simp only [Bool.true_and] at hb
  unfold writeDisco
  rw [wordsToNums_carryBrackets o t true, hb, terminals_carryBrackets, List.map_map]
  have hsent : (terminals t).map ((fun l => l.fields.word.getD "None".toList) ∘ carryBrackets o false) =
      (terminals t).map (fun l => l.fields.word.getD "None".toList) := by
    apply List.map_congr_left
    intro l hl
    obtain ⟨⟨n, f0, rfl⟩, hsub'⟩ := mem_leaves_leaf _ l ((mem_sortBy num _ l).1 hl)
    simp only [Function.comp_apply, carryBrackets, fields]
    rw [hwd n f0 hsub']
  rw [hsent]

theorem bodyText_disco_carry (o : OutOpts) (hm : NoMarks o) (g : List (Nat × Tree))
    (hg : ∀ p ∈ g, (carryBrackets o true p.2).noEmpty = true ∧
      (∀ x ∈ subtrees (carryBrackets o true p.2), replaceParens x.fields.label = x.fields.label) ∧
      ∀ n f, leaf n f ∈ subtrees p.2 → f.word.map replaceParens = f.word) :
    bodyText .discobrackets o g = bodyText .discobrackets {} (g.map fun p => (p.1, carryBrackets o true p.2)) := by
  apply bodyText_congr
  intro p hp
  obtain ⟨h1, h2, h3⟩ := hg p hp
  simp only [writeOne, writeDisco_plain_carry o hm p.2 h1 h2 h3]

section export5
open TT.Lemmas.ExportRT TT.Lemmas.GramOut

/-! ### export, five columns, any writer options (label decoration allowed) -/

/-- the reader parses the line of the node at `p` written in the five-column layout under any writer options -/
theorem parse_lineAt5 (o : OutOpts) (ho4 : o.exportFour = false) (t : Tree) (p : Path) (hwf : WF t = true)
    (hok : ExportOK o t = true) (hp : p ∈ paths t) (hp0 : p ≠ [])
    (h : decExpLine false (lineAt o t p) = some (entry o t p)) :
    exportParseLine {} (lineAt o t p) = .ok (rentryO o t p) := by
  obtain ⟨pp, hs, hpp⟩ := splitWs_of_decExpLine_v3 _ _ h
  have hc := isCons_dropLast t p hp hp0
  have hr : (entry o t p).parent = 0 ∨ (500 ≤ (entry o t p).parent ∧ (entry o t p).parent < 1000) := by
    have e : (entry o t p).parent = numOf t p.dropLast := rfl
    rw [e]
    by_cases h0 : p.dropLast = []
    · left; rw [h0, numOf_root t (WF_root t hwf).1]
    · right
      have hm : p.dropLast ∈ consPaths t := by
        have hp' := mem_paths_of_isCons t _ hc
        rw [isCons_eq t _ hp'] at hc
        exact (mem_consPaths t _).2 ⟨hp', h0, by simpa using hc⟩
      exact numOf_cons_bounds o t _ hwf hok hm
  rw [exportParseLine_of_split {} rfl _ _ _ _ _ _ _ hs hpp hr]
  simp only [rentryO, ho4, Bool.false_eq_true, if_false]
  rfl

end export5

end TT.Lemmas.More16d
