/-
  Helper lemmas for C12 (root_attach).  Core only (no Mathlib).
-/
import TT.Spec.Transform
import TT.Transform.RootAttach
import TT.Lemmas.Sort
import TT.Lemmas.Nav
import TT.Lemmas.WF
namespace TT.Lemmas.RootAttach
open TT TT.Tree TT.Spec

/-! ### "additive" tree measures: lists collected node by node

`leaves`, `consLabels`, the list of node signatures, ... all have the shape
`P (node f ks) = hd f ++ PL ks`, `PL (t :: ts) = P t ++ PL ts`.  Everything `attachLowest` and
`rootAttachStep` do is invisible to such a measure up to a permutation. -/

structure Additive {β} (P : Tree → List β) (PL : List Tree → List β) (hd : Fields → List β) : Prop where
  node : ∀ f ks, P (Tree.node f ks) = hd f ++ PL ks
  nil : PL [] = []
  cons : ∀ t ts, PL (t :: ts) = P t ++ PL ts

namespace Additive
variable {β : Type} {P : Tree → List β} {PL : List Tree → List β} {hd : Fields → List β}

theorem eq_flatMap (A : Additive P PL hd) : ∀ ks, PL ks = ks.flatMap P
  | [] => by simp [A.nil]
  | t :: ts => by simp [A.cons, A.eq_flatMap ts]

theorem append (A : Additive P PL hd) (as bs : List Tree) : PL (as ++ bs) = PL as ++ PL bs := by
  simp [A.eq_flatMap]

theorem perm (A : Additive P PL hd) {as bs : List Tree} (h : as.Perm bs) : (PL as).Perm (PL bs) := by
  rw [A.eq_flatMap, A.eq_flatMap]; exact h.flatMap_right P

end Additive

theorem additive_leaves : Additive leaves leavesL (fun _ => []) :=
  ⟨fun _ _ => by simp [leaves], by simp [leavesL], fun _ _ => by simp [leavesL]⟩

theorem additive_consLabels : Additive consLabels consLabelsL (fun f => [f.label]) :=
  ⟨fun _ _ => by simp [consLabels], by simp [consLabelsL], fun _ _ => by simp [consLabelsL]⟩

/-- what `contentKept` looks at: the data, the kind and the number of a node -/
def sig (s : Tree) : Fields × Bool × Nat := (s.fields, s.isLeaf, s.num)

theorem additive_sigs : Additive (fun t => (subtrees t).map sig) (fun ts => (subtreesL ts).map sig)
    (fun f => [(f, false, 0)]) :=
  ⟨fun _ _ => by simp [subtrees, sig, fields, isLeaf, num], by simp [subtreesL],
   fun _ _ => by simp [subtreesL]⟩

/-! ### hasLeaf -/

theorem hasLeaf_leaf (n : Nat) (f : Fields) (k : Nat) : (leaf n f).hasLeaf k = decide (k = n) := by
  simp [hasLeaf, leafNums, leaves, num]

theorem not_both_leaf (n : Nat) (f : Fields) (tl tr : Nat) (h : tl ≠ tr) :
    ((leaf n f).hasLeaf tl && (leaf n f).hasLeaf tr) = false := by
  simp only [hasLeaf_leaf, Bool.and_eq_false_iff, decide_eq_false_iff_not]
  omega

theorem isLeaf_false_of_both (t : Tree) (tl tr : Nat) (h : tl ≠ tr)
    (hb : (t.hasLeaf tl && t.hasLeaf tr) = true) : t.isLeaf = false := by
  cases t with
  | leaf n f => rw [not_both_leaf n f tl tr h] at hb; cases hb
  | node f ks => rfl

/-! ### attachLowest and additive measures -/

mutual
theorem attachLowest_additive {β : Type} {P : Tree → List β} {PL : List Tree → List β} {hd : Fields → List β}
    (A : Additive P PL hd) (c : Tree) (tl tr : Nat) (h : tl ≠ tr) :
    (t : Tree) → t.isLeaf = false → (P (attachLowest c tl tr t)).Perm (P t ++ P c)
  | .leaf n f, hl => by simp [isLeaf] at hl
  | .node f ks, _ => by
    rw [attachLowest]
    split
    · rename_i ha
      rw [A.node, A.node, List.append_assoc]
      exact (attachLowestL_additive A c tl tr h ks ha).append_left _
    · rw [A.node, A.node, A.append, A.cons, A.nil, List.append_nil, List.append_assoc]
theorem attachLowestL_additive {β : Type} {P : Tree → List β} {PL : List Tree → List β} {hd : Fields → List β}
    (A : Additive P PL hd) (c : Tree) (tl tr : Nat) (h : tl ≠ tr) :
    (ts : List Tree) → ts.any (fun k => k.hasLeaf tl && k.hasLeaf tr) = true →
    (PL (attachLowestL c tl tr ts)).Perm (PL ts ++ P c)
  | [], ha => by simp at ha
  | t :: ts, ha => by
    rw [attachLowestL]
    split
    · rename_i hb
      rw [A.cons, A.cons]
      have h1 := attachLowest_additive A c tl tr h t (isLeaf_false_of_both t tl tr h hb)
      refine (h1.append_right _).trans ?_
      rw [List.append_assoc, List.append_assoc]
      exact List.perm_append_comm.append_left _
    · rename_i hb
      have ha' : ts.any (fun k => k.hasLeaf tl && k.hasLeaf tr) = true := by
        rw [List.any_cons] at ha
        simpa [hb] using ha
      rw [A.cons, A.cons, List.append_assoc]
      exact (attachLowestL_additive A c tl tr h ts ha').append_left _
end

/-! ### attachLowest: noEmpty, fields, kind -/

theorem noEmptyL_append : ∀ (as bs : List Tree), noEmptyL (as ++ bs) = (noEmptyL as && noEmptyL bs)
  | [], bs => by simp [noEmptyL]
  | a :: as, bs => by simp [noEmptyL, noEmptyL_append as bs, Bool.and_assoc]

theorem attachLowestL_isEmpty (c : Tree) (tl tr : Nat) (ts : List Tree) :
    (attachLowestL c tl tr ts).isEmpty = ts.isEmpty := by
  cases ts with
  | nil => simp [attachLowestL]
  | cons t ts => rw [attachLowestL]; split <;> rfl

mutual
theorem attachLowest_noEmpty (c : Tree) (tl tr : Nat) (hc : c.noEmpty = true) :
    (t : Tree) → t.noEmpty = true → (attachLowest c tl tr t).noEmpty = true
  | .leaf n f, _ => by simp [attachLowest, noEmpty]
  | .node f ks, h => by
    simp only [noEmpty, Bool.and_eq_true] at h
    rw [attachLowest]
    split
    · simp only [noEmpty, Bool.and_eq_true, attachLowestL_isEmpty]
      exact ⟨h.1, attachLowestL_noEmptyL c tl tr hc ks h.2⟩
    · simp [noEmpty, noEmptyL_append, noEmptyL, h.2, hc]
theorem attachLowestL_noEmptyL (c : Tree) (tl tr : Nat) (hc : c.noEmpty = true) :
    (ts : List Tree) → noEmptyL ts = true → noEmptyL (attachLowestL c tl tr ts) = true
  | [], _ => by simp [attachLowestL, noEmptyL]
  | t :: ts, h => by
    simp only [noEmptyL, Bool.and_eq_true] at h
    rw [attachLowestL]
    split
    · simp only [noEmptyL, Bool.and_eq_true]
      exact ⟨attachLowest_noEmpty c tl tr hc t h.1, h.2⟩
    · simp only [noEmptyL, Bool.and_eq_true]
      exact ⟨h.1, attachLowestL_noEmptyL c tl tr hc ts h.2⟩
end

/-- at the top the child list may have become empty (the only child was taken out) -/
theorem attachLowest_node_noEmpty (c : Tree) (tl tr : Nat) (hc : c.noEmpty = true) (f : Fields)
    (ks : List Tree) (h : noEmptyL ks = true) : (attachLowest c tl tr (node f ks)).noEmpty = true := by
  rw [attachLowest]
  split
  · rename_i ha
    simp only [noEmpty, Bool.and_eq_true, attachLowestL_isEmpty]
    refine ⟨?_, attachLowestL_noEmptyL c tl tr hc ks h⟩
    cases ks with
    | nil => simp at ha
    | cons k ks => rfl
  · simp [noEmpty, noEmptyL_append, noEmptyL, h, hc]

theorem attachLowest_fields (c : Tree) (tl tr : Nat) (t : Tree) :
    (attachLowest c tl tr t).fields = t.fields := by
  cases t with
  | leaf n f => simp [attachLowest]
  | node f ks => rw [attachLowest]; split <;> rfl

theorem attachLowest_isLeaf (c : Tree) (tl tr : Nat) (t : Tree) :
    (attachLowest c tl tr t).isLeaf = t.isLeaf := by
  cases t with
  | leaf n f => simp [attachLowest]
  | node f ks => rw [attachLowest]; split <;> rfl

/-! ### leftmost ≤ rightmost, skipRight -/

theorem head_le_getLast (l : List Nat) (h : l.Pairwise (· ≤ ·)) :
    l.head?.getD 0 ≤ l.getLast?.getD 0 := by
  cases l with
  | nil => simp
  | cons a r =>
    have hm : (a :: r).getLast (by simp) ∈ a :: r := List.getLast_mem _
    rw [List.getLast?_eq_some_getLast (by simp)]
    simp only [List.head?_cons, Option.getD_some]
    rcases List.mem_cons.1 hm with h1 | h1
    · omega
    · exact (List.pairwise_cons.1 h).1 _ h1

theorem leftmost_le_rightmost (t : Tree) : leftmost t ≤ rightmost t := by
  unfold leftmost rightmost
  apply head_le_getLast
  rw [TT.Lemmas.Nav.yield_eq]
  exact sortBy_sorted id _

/-- the right end only moves right -/
theorem skipRight_ge : ∀ (l : List Tree) (fm : Nat), fm + 1 ≤ skipRight fm (fm + 1) l
  | [], fm => by simp [skipRight]
  | s :: rest, fm => by
    rw [skipRight]
    split
    · exact skipRight_ge rest fm
    · split
      · exact Nat.le_refl _
      · have := skipRight_ge rest (rightmost s)
        have := leftmost_le_rightmost s
        omega

/-! ### eraseFirst -/

theorem perm_eraseFirst {α} (p : α → Bool) : ∀ (l : List α) (c : α), l.find? p = some c →
    l.Perm (c :: eraseFirst p l)
  | [], _, h => by simp at h
  | x :: xs, c, h => by
    rw [List.find?_cons] at h
    rw [eraseFirst]
    split at h
    · rename_i hp
      cases h
      simp [hp]
    · rename_i hp
      simp only [hp, Bool.false_eq_true, if_false]
      exact ((perm_eraseFirst p xs c h).cons x).trans (List.Perm.swap c x _)

/-! ### the step -/

/-- either nothing happens, or one root child `c` is taken out and re-attached with `tl < tr` -/
theorem rootAttachStep_cases (tmin tmax : Nat) (cur : Tree) (key : Nat) :
    rootAttachStep tmin tmax cur key = cur ∨
    ∃ f ks c tl tr, cur = node f ks ∧ ks.find? (fun k => leftmost k == key) = some c ∧ tl < tr ∧
      rootAttachStep tmin tmax cur key =
        attachLowest c tl tr (node f (eraseFirst (fun k => leftmost k == key) ks)) := by
  cases cur with
  | leaf n f => left; rfl
  | node f ks =>
    simp only [rootAttachStep]
    split
    · left; rfl
    · rename_i c hfind
      split
      · left; rfl
      · right
        refine ⟨f, ks, c, _, _, rfl, hfind, ?_, rfl⟩
        have h1 := skipRight_ge ((List.dropWhile (fun k => leftmost k != key) (sortBy leftmost ks)).drop 1)
          (rightmost c)
        have h2 := leftmost_le_rightmost c
        omega

theorem rootAttachStep_additive {β : Type} {P : Tree → List β} {PL : List Tree → List β} {hd : Fields → List β}
    (A : Additive P PL hd) (tmin tmax : Nat) (cur : Tree) (key : Nat) :
    (P (rootAttachStep tmin tmax cur key)).Perm (P cur) := by
  rcases rootAttachStep_cases tmin tmax cur key with h | ⟨f, ks, c, tl, tr, rfl, hfind, hlt, h⟩
  · rw [h]
  · rw [h]
    refine (attachLowest_additive A c tl tr (by omega) _ rfl).trans ?_
    rw [A.node, A.node, List.append_assoc]
    refine List.Perm.append_left _ ?_
    have hp := A.perm (perm_eraseFirst _ ks c hfind)
    rw [A.cons] at hp
    exact List.perm_append_comm.trans hp.symm

theorem rootAttachStep_fields (tmin tmax : Nat) (cur : Tree) (key : Nat) :
    (rootAttachStep tmin tmax cur key).fields = cur.fields := by
  rcases rootAttachStep_cases tmin tmax cur key with h | ⟨f, ks, c, tl, tr, rfl, _, _, h⟩
  · rw [h]
  · rw [h, attachLowest_fields]; rfl

theorem rootAttachStep_isLeaf (tmin tmax : Nat) (cur : Tree) (key : Nat) :
    (rootAttachStep tmin tmax cur key).isLeaf = cur.isLeaf := by
  rcases rootAttachStep_cases tmin tmax cur key with h | ⟨f, ks, c, tl, tr, rfl, _, _, h⟩
  · rw [h]
  · rw [h, attachLowest_isLeaf]; rfl

theorem noEmptyL_of_perm {as bs : List Tree} (h : as.Perm bs) : noEmptyL as = noEmptyL bs := by
  induction h with
  | nil => rfl
  | cons x _ ih => simp [noEmptyL, ih]
  | swap x y l => simp only [noEmptyL]; rw [← Bool.and_assoc, ← Bool.and_assoc, Bool.and_comm (noEmpty y)]
  | trans _ _ ih1 ih2 => rw [ih1, ih2]

theorem rootAttachStep_noEmpty (tmin tmax : Nat) (cur : Tree) (key : Nat) (hne : cur.noEmpty = true) :
    (rootAttachStep tmin tmax cur key).noEmpty = true := by
  rcases rootAttachStep_cases tmin tmax cur key with h | ⟨f, ks, c, tl, tr, rfl, hfind, _, h⟩
  · rw [h]; exact hne
  · rw [h]
    simp only [noEmpty, Bool.and_eq_true] at hne
    have hp := noEmptyL_of_perm (perm_eraseFirst _ ks c hfind)
    rw [hne.2, noEmptyL] at hp
    have hp' := hp.symm
    simp only [Bool.and_eq_true] at hp'
    exact attachLowest_node_noEmpty c tl tr hp'.1 f _ hp'.2

/-! ### the fold -/

theorem foldl_invariant {α β} (I : β → Prop) (g : β → α → β) (hstep : ∀ b a, I b → I (g b a)) :
    ∀ (l : List α) (b : β), I b → I (l.foldl g b)
  | [], _, h => h
  | a :: l, b, h => foldl_invariant I g hstep l (g b a) (hstep b a h)

theorem rootAttach_additive {β : Type} {P : Tree → List β} {PL : List Tree → List β} {hd : Fields → List β}
    (A : Additive P PL hd) (t : Tree) : (P (rootAttach t)).Perm (P t) := by
  unfold rootAttach
  exact foldl_invariant (fun cur => (P cur).Perm (P t)) _
    (fun b a hb => (rootAttachStep_additive A _ _ b a).trans hb) _ t (List.Perm.refl _)

theorem rootAttach_fields (t : Tree) : (rootAttach t).fields = t.fields := by
  unfold rootAttach
  exact foldl_invariant (fun cur => cur.fields = t.fields) _
    (fun b a hb => (rootAttachStep_fields _ _ b a).trans hb) _ t rfl

theorem rootAttach_isLeaf (t : Tree) : (rootAttach t).isLeaf = t.isLeaf := by
  unfold rootAttach
  exact foldl_invariant (fun cur => cur.isLeaf = t.isLeaf) _
    (fun b a hb => (rootAttachStep_isLeaf _ _ b a).trans hb) _ t rfl

theorem rootAttach_noEmpty (t : Tree) (h : t.noEmpty = true) : (rootAttach t).noEmpty = true := by
  unfold rootAttach
  exact foldl_invariant (fun cur => cur.noEmpty = true) _
    (fun b a hb => rootAttachStep_noEmpty _ _ b a hb) _ t h

/-! ### node contents (uid based) -/

theorem eq_of_filterMap_nodup {α β} (g : α → Option β) : ∀ (l : List α), (l.filterMap g).Nodup →
    ∀ a ∈ l, ∀ b ∈ l, ∀ u, g a = some u → g b = some u → a = b
  | [], _, _, ha, _, _, _, _, _ => by simp at ha
  | x :: xs, hn, a, ha, b, hb, u, hga, hgb => by
    have hmem : ∀ y ∈ xs, g y = some u → u ∈ xs.filterMap g :=
      fun y hy hgy => List.mem_filterMap.2 ⟨y, hy, hgy⟩
    rcases List.mem_cons.1 ha with rfl | ha' <;> rcases List.mem_cons.1 hb with rfl | hb'
    · rfl
    · rw [List.filterMap_cons, hga, List.nodup_cons] at hn
      exact absurd (hmem b hb' hgb) hn.1
    · rw [List.filterMap_cons, hgb, List.nodup_cons] at hn
      exact absurd (hmem a ha' hga) hn.1
    · have hn' : (xs.filterMap g).Nodup := by
        rw [List.filterMap_cons] at hn
        split at hn
        · exact hn
        · exact (List.nodup_cons.1 hn).2
      exact eq_of_filterMap_nodup g xs hn' a ha' b hb' u hga hgb

theorem uids_eq_sigs (t : Tree) :
    (subtrees t).filterMap (·.fields.uid) = ((subtrees t).map sig).filterMap (·.1.uid) := by
  rw [List.filterMap_map]; rfl

theorem uidsOK_nodup (t : Tree) (hu : uidsOK t = true) : ((subtrees t).filterMap (·.fields.uid)).Nodup := by
  simp only [uidsOK, Bool.and_eq_true] at hu
  exact (TT.Lemmas.WF.nodupB_iff _).1 hu.2

/-- if the node signatures of `b` are those of `a` (as a multiset) and uids identify nodes in `a`, node contents are kept -/
theorem contentKept_of_sigs_perm (a b : Tree) (hu : uidsOK a = true)
    (hp : ((subtrees b).map sig).Perm ((subtrees a).map sig)) : contentKept a b = true := by
  have hnd := uidsOK_nodup a hu
  unfold contentKept
  rw [List.all_eq_true]
  intro s hs
  split
  · rfl
  · rename_i u hsu
    have h1 : sig s ∈ (subtrees b).map sig := hp.mem_iff.2 (List.mem_map_of_mem hs)
    obtain ⟨s0, hs0, hs0eq⟩ := List.mem_map.1 h1
    have hs0u : s0.fields.uid = some u := by
      have := congrArg (·.1.uid) hs0eq
      simpa [sig, hsu] using this
    unfold findUid
    cases hf : (subtrees b).find? (fun s => s.fields.uid == some u) with
    | none =>
      have := List.find?_eq_none.1 hf s0 hs0
      simp [hs0u] at this
    | some s' =>
      have hs'u : s'.fields.uid = some u := by simpa using List.find?_some hf
      have hs'm : s' ∈ subtrees b := List.mem_of_find?_eq_some hf
      have h2 : sig s' ∈ (subtrees a).map sig := hp.mem_iff.1 (List.mem_map_of_mem hs'm)
      obtain ⟨s2, hs2, hs2eq⟩ := List.mem_map.1 h2
      have hs2u : s2.fields.uid = some u := by
        have := congrArg (·.1.uid) hs2eq
        simpa [sig, hs'u] using this
      have : s2 = s := eq_of_filterMap_nodup (·.fields.uid) _ hnd s2 hs2 s hs u hs2u hsu
      subst this
      simp only [sig, Prod.mk.injEq] at hs2eq
      obtain ⟨e1, e2, e3⟩ := hs2eq
      simp [e1, e2, e3]

theorem rootAttach_contentKept (t : Tree) (hu : uidsOK t = true) : contentKept t (rootAttach t) = true :=
  contentKept_of_sigs_perm t (rootAttach t) hu (rootAttach_additive additive_sigs t)

/-! ### parents (uid based) -/

/-- the entry of the node itself -/
def headEntry (u : Option Nat) (par : Option Nat) : List (Nat × Option Nat) :=
  match u with
  | some u => [(u, par)]
  | none => []

/-- the entries of everything strictly below: they do not depend on the parent of the node -/
def tailMap : Tree → List (Nat × Option Nat)
  | .leaf _ _ => []
  | .node f ks => parentMapL f.uid ks

theorem parentMap_eq (par : Option Nat) (t : Tree) :
    parentMap par t = headEntry t.fields.uid par ++ tailMap t := by
  cases t with
  | leaf n f => simp only [parentMap, headEntry, tailMap, fields, List.append_nil]; cases f.uid <;> rfl
  | node f ks => simp only [parentMap, headEntry, tailMap, fields]; cases f.uid <;> rfl

theorem mem_headEntry {u par : Option Nat} {e : Nat × Option Nat} (h : e ∈ headEntry u par) : e.2 = par := by
  cases u with
  | none => simp [headEntry] at h
  | some v => simp [headEntry] at h; rw [h]

theorem parentMapL_eq (par : Option Nat) : ∀ ks, parentMapL par ks = ks.flatMap (parentMap par)
  | [] => by simp [parentMapL]
  | t :: ts => by simp [parentMapL, parentMapL_eq par ts]

theorem parentMapL_append (par : Option Nat) (as bs : List Tree) :
    parentMapL par (as ++ bs) = parentMapL par as ++ parentMapL par bs := by
  simp [parentMapL_eq]

theorem parentMapL_perm (par : Option Nat) {as bs : List Tree} (h : as.Perm bs) :
    (parentMapL par as).Perm (parentMapL par bs) := by
  rw [parentMapL_eq, parentMapL_eq]; exact h.flatMap_right _

mutual
/-- `attachLowest` adds the entries of `c` (with some new parent `q`) and changes nothing else -/
theorem attachLowest_parentMap (c : Tree) (tl tr : Nat) (h : tl ≠ tr) :
    (t : Tree) → t.isLeaf = false → (par : Option Nat) →
    ∃ q, (parentMap par (attachLowest c tl tr t)).Perm (parentMap par t ++ parentMap q c)
  | .leaf n f, hl, _ => by simp [isLeaf] at hl
  | .node f ks, _, par => by
    rw [attachLowest]
    split
    · rename_i ha
      obtain ⟨q, hq⟩ := attachLowestL_parentMap c tl tr h ks ha f.uid
      refine ⟨q, ?_⟩
      simp only [parentMap]
      rw [List.append_assoc]
      exact hq.append_left _
    · refine ⟨f.uid, ?_⟩
      simp only [parentMap]
      rw [parentMapL_append, parentMapL, parentMapL, List.append_nil, List.append_assoc]
theorem attachLowestL_parentMap (c : Tree) (tl tr : Nat) (h : tl ≠ tr) :
    (ts : List Tree) → ts.any (fun k => k.hasLeaf tl && k.hasLeaf tr) = true → (par : Option Nat) →
    ∃ q, (parentMapL par (attachLowestL c tl tr ts)).Perm (parentMapL par ts ++ parentMap q c)
  | [], ha, _ => by simp at ha
  | t :: ts, ha, par => by
    rw [attachLowestL]
    split
    · rename_i hb
      obtain ⟨q, hq⟩ := attachLowest_parentMap c tl tr h t (isLeaf_false_of_both t tl tr h hb) par
      refine ⟨q, ?_⟩
      simp only [parentMapL]
      refine (hq.append_right _).trans ?_
      rw [List.append_assoc, List.append_assoc]
      exact List.perm_append_comm.append_left _
    · rename_i hb
      have ha' : ts.any (fun k => k.hasLeaf tl && k.hasLeaf tr) = true := by
        rw [List.any_cons] at ha
        simpa [hb] using ha
      obtain ⟨q, hq⟩ := attachLowestL_parentMap c tl tr h ts ha' par
      refine ⟨q, ?_⟩
      simp only [parentMapL]
      rw [List.append_assoc]
      exact hq.append_left _
end

/-- one step: the parent entries of all nodes that are not children of the root survive -/
theorem rootAttachStep_parentMap (tmin tmax : Nat) (cur : Tree) (key : Nat) :
    ∀ e ∈ parentMap none cur, e.2 ≠ cur.fields.uid →
      e ∈ parentMap none (rootAttachStep tmin tmax cur key) := by
  intro e he hne
  rcases rootAttachStep_cases tmin tmax cur key with h | ⟨f, ks, c, tl, tr, rfl, hfind, hlt, h⟩
  · rw [h]; exact he
  · rw [h]
    obtain ⟨q, hq⟩ := attachLowest_parentMap c tl tr (by omega)
      (node f (eraseFirst (fun k => leftmost k == key) ks)) rfl none
    rw [hq.mem_iff]
    have hp := parentMapL_perm f.uid (perm_eraseFirst _ ks c hfind)
    simp only [parentMap, List.mem_append] at he ⊢
    rcases he with he | he
    · exact Or.inl (Or.inl he)
    · rw [hp.mem_iff, parentMapL, List.mem_append, parentMap_eq, List.mem_append] at he
      rcases he with (he | he) | he
      · exact absurd (mem_headEntry he) hne
      · right
        rw [parentMap_eq]
        exact List.mem_append_right _ he
      · exact Or.inl (Or.inr he)

theorem rootAttach_parentMap (t : Tree) :
    ∀ e ∈ parentMap none t, e.2 ≠ t.fields.uid → e ∈ parentMap none (rootAttach t) := by
  intro e he hne
  have := foldl_invariant (fun cur => cur.fields = t.fields ∧ e ∈ parentMap none cur)
    (rootAttachStep t.leftmost t.rightmost)
    (fun b a hb => ⟨(rootAttachStep_fields _ _ b a).trans hb.1,
      rootAttachStep_parentMap _ _ b a e hb.2 (by rw [hb.1]; exact hne)⟩)
    ((children t).map leftmost) t ⟨rfl, he⟩
  exact this.2

mutual
theorem parentMap_keys (par : Option Nat) : (t : Tree) →
    (parentMap par t).map (·.1) = (subtrees t).filterMap (·.fields.uid)
  | .leaf n f => by
    have e : (Tree.leaf n f).fields = f := rfl
    cases hfu : f.uid <;> simp [parentMap, subtrees, e, hfu]
  | .node f ks => by
    have ih := parentMapL_keys f.uid ks
    have e : (Tree.node f ks).fields = f := rfl
    cases hfu : f.uid <;> simp [parentMap, subtrees, e, hfu] <;> rw [← hfu, ih]
theorem parentMapL_keys (par : Option Nat) : (ts : List Tree) →
    (parentMapL par ts).map (·.1) = (subtreesL ts).filterMap (·.fields.uid)
  | [] => by simp [parentMapL, subtreesL]
  | t :: ts => by
    simp only [parentMapL, subtreesL, List.map_append, List.filterMap_append, parentMap_keys par t,
      parentMapL_keys par ts]
end

theorem find?_of_mem_nodup_keys {γ} : ∀ (l : List (Nat × γ)), (l.map (·.1)).Nodup → ∀ u p, (u, p) ∈ l →
    l.find? (·.1 == u) = some (u, p)
  | [], _, _, _, h => by simp at h
  | x :: xs, hn, u, p, h => by
    rw [List.map_cons, List.nodup_cons] at hn
    rcases List.mem_cons.1 h with rfl | h'
    · simp
    · have hx : x.1 ≠ u := by
        intro hxu
        apply hn.1
        rw [hxu]
        exact List.mem_map.2 ⟨(u, p), h', rfl⟩
      have hx' : (x.1 == u) = false := by simpa using hx
      rw [List.find?_cons, hx']
      exact find?_of_mem_nodup_keys xs hn.2 u p h'

theorem parentOfUid_of_mem (t : Tree) (hn : ((subtrees t).filterMap (·.fields.uid)).Nodup) (u : Nat)
    (p : Option Nat) (h : (u, p) ∈ parentMap none t) : parentOfUid t u = some p := by
  unfold parentOfUid
  rw [find?_of_mem_nodup_keys _ (by rw [parentMap_keys]; exact hn) u p h]
  rfl

theorem rootAttach_uids_nodup (t : Tree) (hu : uidsOK t = true) :
    ((subtrees (rootAttach t)).filterMap (·.fields.uid)).Nodup := by
  have hp := (rootAttach_additive additive_sigs t).filterMap (·.1.uid)
  rw [uids_eq_sigs]
  refine hp.symm.nodup ?_
  rw [← uids_eq_sigs]
  exact uidsOK_nodup t hu

theorem rootAttach_parentsKept (t : Tree) (hu : uidsOK t = true) :
    parentsKept t (rootAttach t) (fun s => parentOfUid t (s.fields.uid.getD 0) == some t.fields.uid) = true := by
  unfold parentsKept
  rw [List.all_eq_true]
  rintro ⟨u, p⟩ he
  dsimp only
  split
  · rename_i s hs
    have hsu : s.fields.uid = some u := by
      unfold findUid at hs
      simpa using List.find?_some hs
    by_cases hp : p = t.fields.uid
    · have := parentOfUid_of_mem t (uidsOK_nodup t hu) u p he
      simp [hsu, this, hp]
    · have hm := rootAttach_parentMap t (u, p) he hp
      have := parentOfUid_of_mem (rootAttach t) (rootAttach_uids_nodup t hu) u p hm
      simp [this]
  · rfl

end TT.Lemmas.RootAttach
