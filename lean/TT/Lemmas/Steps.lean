/-
  Helper lemmas for C04: ONE invariant (`StepInv`) kept by every structural transformation step,
  its stronger form (`StepInvS`, also POS tags and "stays a constituent") kept by every step that
  does not collapse/uncollapse, and the per-step proofs (mostly corollaries of C05, C12-C15).
-/
import TT.Spec.Steps
import TT.Lemmas.WF
import TT.Lemmas.Heads
import TT.Lemmas.Boyd
import TT.Lemmas.Binarize
import TT.Lemmas.Collapse
import TT.Lemmas.Punct
import TT.Props.C05
import TT.Props.C12
import TT.Props.C13
import TT.Props.C14
import TT.Props.C15
namespace TT.Lemmas.Steps
open TT TT.Tree TT.Spec TT.Lemmas.WF

/-! ### tokens -/

/-- (number, word) of a token: what every step keeps -/
def wtok (l : Tree) : Nat × Option Str := (l.num, l.fields.word)
/-- (number, word, POS) of a token: what every non-collapsing step keeps -/
def tok (l : Tree) : Nat × Option Str × Str := (l.num, l.fields.word, l.fields.label)

theorem wtok_eq_collapse : wtok = Lemmas.Collapse.tok := rfl
theorem tok_eq_boyd : tok = Lemmas.Boyd.tok := rfl

theorem map_wtok_of_tok (l : List Tree) : l.map wtok = (l.map tok).map (fun x => (x.1, x.2.1)) := by
  simp [wtok, tok, Function.comp_def]

theorem map_fst_tok (l : List Tree) : (l.map tok).map (·.1) = l.map num := by
  simp [tok, Function.comp_def]

theorem map_fst_wtok (l : List Tree) : (l.map wtok).map (·.1) = l.map num := by
  simp [wtok, Function.comp_def]

/-- the keyed tokens in sentence order = the keyed tokens sorted by key -/
theorem terminals_map_keyed {β} (g : Tree → β) (t : Tree) :
    t.terminals.map (fun l => (l.num, g l)) =
      sortBy (fun (x : Nat × β) => x.1) (t.leaves.map fun l => (l.num, g l)) :=
  (sortBy_map num (fun (x : Nat × β) => x.1) (fun l => (l.num, g l)) (fun _ => rfl) _).symm

/-- with distinct token numbers, the keyed tokens in sentence order only depend on their multiset -/
theorem terminals_map_of_perm {β} (g : Tree → β) (t t' : Tree)
    (hp : (t'.leaves.map fun l => (l.num, g l)).Perm (t.leaves.map fun l => (l.num, g l)))
    (hn : t.leafNums.Nodup) :
    t'.terminals.map (fun l => (l.num, g l)) = t.terminals.map (fun l => (l.num, g l)) := by
  rw [terminals_map_keyed, terminals_map_keyed]
  refine sortBy_perm_eq _ _ _ hp ?_
  have h1 : ∀ l : List Tree, (l.map fun l => (l.num, g l)).map (fun (x : Nat × β) => x.1) = l.map num := by
    intro l; simp [Function.comp_def]
  have h2 := hp.map (fun (x : Nat × β) => x.1)
  rw [h1, h1] at h2
  rw [h1]
  exact h2.symm.nodup hn

theorem wordsOf_eq (t : Tree) : wordsOf t = t.terminals.map wtok := rfl

theorem sentence_eq (t : Tree) : sentence t = (t.terminals.map tok).map (·.2) := by
  simp [sentence, tok, Function.comp_def]

/-- `wordsOf` when the tokens in storage order are the same (no hypothesis on the numbers) -/
theorem wordsOf_of_leaves_eq (t t' : Tree) (h : t'.leaves.map wtok = t.leaves.map wtok) :
    wordsOf t' = wordsOf t := by
  rw [wordsOf_eq, wordsOf_eq]
  have key : ∀ t : Tree, t.terminals.map wtok =
      sortBy (fun (x : Nat × Option Str) => x.1) (t.leaves.map wtok) :=
    terminals_map_keyed (fun l => l.fields.word)
  rw [key, key, h]

/-! ### `WFc` without the case split -/

theorem WFc_iff (t : Tree) : WFc t = true ↔
    t.noEmpty = true ∧ sortBy id t.leafNums = List.range' 1 t.leafNums.length ∧ t.leafNums ≠ [] := by
  cases t with
  | leaf n f => simp [WFc, noEmpty, leafNums_leaf, sortBy, insertBy]
  | node f ks => simp [WFc, WF_iff, isLeaf]

theorem WFc_of_WF (t : Tree) (h : WF t = true) : WFc t = true := by
  obtain ⟨_, h2, h3, h4⟩ := (WF_iff t).1 h
  exact (WFc_iff t).2 ⟨h2, h3, h4⟩

theorem WFc_cases (t : Tree) (h : WFc t = true) : WF t = true ∨ ∃ f, t = leaf 1 f := by
  cases t with
  | leaf n f => right; simp [WFc] at h; exact ⟨f, by rw [h]⟩
  | node f ks => left; exact h

theorem WF_of_WFc (t : Tree) (h : WFc t = true) (hn : t.isLeaf = false) : WF t = true := by
  rcases WFc_cases t h with h | ⟨f, rfl⟩
  · exact h
  · simp [isLeaf] at hn

theorem WFc_noEmpty (t : Tree) (h : WFc t = true) : t.noEmpty = true := ((WFc_iff t).1 h).1

theorem WFc_nodup (t : Tree) (h : WFc t = true) : t.leafNums.Nodup := by
  obtain ⟨_, h3, _⟩ := (WFc_iff t).1 h
  have hp := sortBy_perm id t.leafNums
  rw [h3] at hp
  exact hp.nodup List.nodup_range'

theorem WFc_of_perm (t t' : Tree) (h : WFc t = true) (hp : t'.leafNums.Perm t.leafNums)
    (hne : t'.noEmpty = true) : WFc t' = true := by
  obtain ⟨_, h3, h4⟩ := (WFc_iff t).1 h
  refine (WFc_iff t').2 ⟨hne, ?_, ?_⟩
  · rw [Lemmas.Binarize.sortBy_id_perm _ _ hp, h3, hp.length_eq]
  · intro h'
    rw [h'] at hp
    exact h4 hp.symm.eq_nil

/-! ### the invariants -/

/-- ONE invariant for every step: the tokens keep number and word (so the token numbers are
    permuted), and no childless constituent appears -/
structure StepInv (t t' : Tree) : Prop where
  words : (t'.leaves.map wtok).Perm (t.leaves.map wtok)
  noEmpty : t.noEmpty = true → t'.noEmpty = true

/-- the stronger invariant of the steps that do not collapse: POS tags are kept too, and a
    constituent stays a constituent -/
structure StepInvS (t t' : Tree) : Prop where
  toks : (t'.leaves.map tok).Perm (t.leaves.map tok)
  noEmpty : t.noEmpty = true → t'.noEmpty = true
  isNode : t.isLeaf = false → t'.isLeaf = false

theorem StepInv.refl (t : Tree) : StepInv t t := ⟨List.Perm.refl _, id⟩

theorem StepInv.trans {a b c : Tree} (h1 : StepInv a b) (h2 : StepInv b c) : StepInv a c :=
  ⟨h2.words.trans h1.words, fun h => h2.noEmpty (h1.noEmpty h)⟩

theorem StepInv.leafNums {t t' : Tree} (h : StepInv t t') : t'.leafNums.Perm t.leafNums := by
  have := h.words.map (·.1)
  rwa [map_fst_wtok, map_fst_wtok] at this

theorem StepInv.wfc {t t' : Tree} (h : StepInv t t') (hw : WFc t = true) : WFc t' = true :=
  WFc_of_perm t t' hw h.leafNums (h.noEmpty (WFc_noEmpty t hw))

theorem StepInv.wordsEq {t t' : Tree} (h : StepInv t t') (hn : t.leafNums.Nodup) :
    wordsOf t' = wordsOf t :=
  terminals_map_of_perm (fun l => l.fields.word) t t' h.words hn

theorem StepInvS.refl (t : Tree) : StepInvS t t := ⟨List.Perm.refl _, id, id⟩

theorem StepInvS.trans {a b c : Tree} (h1 : StepInvS a b) (h2 : StepInvS b c) : StepInvS a c :=
  ⟨h2.toks.trans h1.toks, fun h => h2.noEmpty (h1.noEmpty h), fun h => h2.isNode (h1.isNode h)⟩

theorem StepInvS.weak {t t' : Tree} (h : StepInvS t t') : StepInv t t' := by
  refine ⟨?_, h.noEmpty⟩
  rw [map_wtok_of_tok, map_wtok_of_tok]
  exact h.toks.map _

theorem StepInvS.leafNums {t t' : Tree} (h : StepInvS t t') : t'.leafNums.Perm t.leafNums :=
  h.weak.leafNums

theorem StepInvS.wf {t t' : Tree} (h : StepInvS t t') (hw : WF t = true) : WF t' = true :=
  WF_of_perm t t' hw h.leafNums (h.noEmpty (WF_noEmpty t hw)) (h.isNode ((WF_iff t).1 hw).1)

theorem StepInvS.sent {t t' : Tree} (h : StepInvS t t') (hn : t.leafNums.Nodup) :
    sentence t' = sentence t := by
  rw [sentence_eq, sentence_eq]
  have := terminals_map_of_perm (fun l => (l.fields.word, l.fields.label)) t t' h.toks hn
  exact congrArg (List.map (·.2)) this

/-- what the property theorems state for one step on a well-formed tree -/
theorem StepInvS.both {t t' : Tree} (h : StepInvS t t') (hw : WF t = true) :
    WF t' = true ∧ sentence t' = sentence t :=
  ⟨h.wf hw, h.sent (WF_nodup t hw)⟩

theorem StepInvS.of_leaves_perm {t t' : Tree} (hp : t'.leaves.Perm t.leaves)
    (hne : t.noEmpty = true → t'.noEmpty = true) (hnode : t.isLeaf = false → t'.isLeaf = false) :
    StepInvS t t' := ⟨hp.map tok, hne, hnode⟩

/-! ### root_attach -/

theorem rootAttach_inv (t : Tree) : StepInvS t (rootAttach t) :=
  .of_leaves_perm (Props.C12.rootAttach_leaves t) (Props.C12.rootAttach_noEmpty t)
    (Props.C12.rootAttach_isNode t)

/-! ### head marking -/

open TT.Lemmas.Heads in
theorem tok_setHead (b : Bool) (t : Tree) : (setHead b t).leaves.map tok = t.leaves.map tok := by
  cases t with
  | leaf n f => simp [setHead_leaf, leaves, tok, num, fields]
  | node f ks => simp [setHead_node, leaves]

open TT.Lemmas.Heads in
theorem noEmpty_setHead (b : Bool) (t : Tree) : (setHead b t).noEmpty = t.noEmpty := by
  cases t with
  | leaf n f => simp [setHead_leaf, noEmpty]
  | node f ks => simp [setHead_node, noEmpty]

open TT.Lemmas.Heads in
theorem isLeaf_setHead (b : Bool) (t : Tree) : (setHead b t).isLeaf = t.isLeaf := by
  cases t <;> rfl

open TT.Lemmas.Heads in
mutual
theorem tok_markG (idx : Fields → List Tree → Nat) : (t : Tree) →
    (markG idx t).leaves.map tok = t.leaves.map tok
  | .leaf n f => by simp [markG]
  | .node f ks => by
    simp only [markG, leaves]
    exact tok_markGL idx _ ks
theorem tok_markGL (idx : Fields → List Tree → Nat) (key : Option Nat) : (ks : List Tree) →
    (leavesL (markGL idx key ks)).map tok = (leavesL ks).map tok
  | [] => by simp [markGL]
  | t :: ts => by
    simp only [markGL, leavesL, List.map_append, tok_setHead, tok_markG idx t, tok_markGL idx key ts]
end

open TT.Lemmas.Heads in
mutual
theorem noEmpty_markG (idx : Fields → List Tree → Nat) : (t : Tree) →
    (markG idx t).noEmpty = t.noEmpty
  | .leaf n f => by simp [markG]
  | .node f ks => by
    have h1 : ∀ key, (markGL idx key ks).isEmpty = ks.isEmpty := by
      intro key; cases ks <;> simp [markGL]
    simp only [markG, noEmpty, noEmpty_markGL idx _ ks, h1]
theorem noEmpty_markGL (idx : Fields → List Tree → Nat) (key : Option Nat) : (ks : List Tree) →
    noEmptyL (markGL idx key ks) = noEmptyL ks
  | [] => by simp [markGL]
  | t :: ts => by
    simp only [markGL, noEmptyL, noEmpty_setHead, noEmpty_markG idx t, noEmpty_markGL idx key ts]
end

open TT.Lemmas.Heads in
theorem isLeaf_markG (idx : Fields → List Tree → Nat) (t : Tree) : (markG idx t).isLeaf = t.isLeaf := by
  cases t <;> simp [markG, isLeaf]

open TT.Lemmas.Heads in
theorem mark_inv (idx : Fields → List Tree → Nat) (t : Tree) : StepInvS t (setHead false (markG idx t)) := by
  refine ⟨?_, ?_, ?_⟩
  · rw [tok_setHead, tok_markG]
  · rw [noEmpty_setHead, noEmpty_markG]; exact id
  · rw [isLeaf_setHead, isLeaf_markG]; exact id

theorem negra_inv (t : Tree) : StepInvS t (negraMarkHeads t) := by
  rw [negraMarkHeads, Lemmas.Heads.negraMarkAux_eq]
  exact mark_inv _ t

theorem rules_inv (p : Preset) (t t' : Tree) (hr : markHeadsByRules (some p) none t = .ok t') :
    StepInvS t t' := by
  cases p with
  | negra =>
    simp only [markHeadsByRules, Except.ok.injEq] at hr
    subst hr
    rw [Lemmas.Heads.rulesMarkAux_eq]; exact mark_inv _ t
  | ptb =>
    simp only [markHeadsByRules, Except.ok.injEq] at hr
    subst hr
    rw [Lemmas.Heads.rulesMarkAux_eq]; exact mark_inv _ t
  | other => simp [markHeadsByRules] at hr

/-! ### add_topnode -/

theorem topnode_leaves (t : Tree) : (addTopnode t).leaves = t.leaves := by
  simp [addTopnode, leaves, leavesL]

theorem topnode_inv (t : Tree) : StepInvS t (addTopnode t) := by
  refine ⟨by rw [topnode_leaves], ?_, fun _ => rfl⟩
  intro h
  simp [addTopnode, noEmpty, noEmptyL, h]

/-! ### boyd_split, raising -/

theorem boydSplit_isNode (t t' : Tree) (h : boydSplit t = .ok t') (hn : t.isLeaf = false) :
    t'.isLeaf = false := by
  cases t with
  | leaf n f => simp [isLeaf] at hn
  | node f ks =>
    have h1 := Props.C05.boydSplit_ok _ _ h
    rw [Lemmas.Boyd.boydNode_node] at h1
    cases hk : boydKids ks with
    | error e => simp [hk] at h1
    | ok ks' =>
      simp only [hk, Lemmas.Boyd.boydStep] at h1
      split at h1
      · simp only [Except.ok.injEq, List.cons.injEq, and_true] at h1
        subst h1; rfl
      · split at h1
        · cases h1
        · simp only [Except.ok.injEq] at h1
          have hm : t' ∈ numberBlocks f 0 (groupAdjacent (sortBy leftmost ks')) := by
            rw [h1]; exact List.mem_cons_self
          obtain ⟨g, _, f', rfl, _⟩ := Lemmas.Boyd.mem_numberBlocks f 0 _ t' hm
          rfl

/-- (the no-childless-constituent part needs distinct token numbers in the input) -/
theorem boyd_inv (t t' : Tree) (h : boydSplit t = .ok t') (hn : t.leafNums.Nodup) : StepInvS t t' := by
  refine ⟨?_, ?_, boydSplit_isNode t t' h⟩
  · exact Props.C05.boydSplit_words t t' h
  · intro hne
    exact (Lemmas.Boyd.boydNode_good t [t'] (Props.C05.boydSplit_ok t t' h) hne hn t'
      List.mem_cons_self).2

theorem raising_noEmpty (t : Tree) (h : t.noEmpty = true) : (raising t).noEmpty = true := by
  cases t with
  | leaf n f => rfl
  | node f ks =>
    have hk := (Lemmas.Boyd.noEmpty_node f ks).1 h
    simp only [raising]
    refine (Lemmas.Boyd.noEmpty_node _ _).2 ⟨?_, Lemmas.Boyd.raiseKids_noEmpty ks hk.2⟩
    intro h0
    have h1 := Lemmas.Boyd.raiseKids_leaves ks
    rw [h0] at h1
    exact Lemmas.Boyd.leavesL_ne_nil ks ((Lemmas.Boyd.noEmptyL_iff ks).2 hk.2) hk.1 h1.symm

theorem raising_isLeaf (t : Tree) : (raising t).isLeaf = t.isLeaf := by
  cases t <;> rfl

theorem raising_inv (t : Tree) : StepInvS t (raising t) :=
  .of_leaves_perm (by rw [Props.C05.raising_leaves]) (raising_noEmpty t)
    (by rw [raising_isLeaf]; exact id)

/-! ### punctuation: on a well-formed tree (C13), or on a bare token (nothing happens) -/

theorem inv_of_punct {t cur : Tree} (h : Lemmas.Punct.Inv t cur) : StepInvS t cur :=
  .of_leaves_perm h.perm (fun _ => h.ne) (fun _ => h.isNode)

theorem verylow_leaf (n : Nat) (f : Fields) : punctuationVerylow (leaf n f) = leaf n f := by
  simp [punctuationVerylow, terminals, leaves, sortBy, insertBy]

theorem rootStep_leaf (n : Nat) (f : Fields) (i : Nat) : rootStep (leaf n f) i = leaf n f := by
  simp [rootStep, parentArity, parentOfLeaf]

theorem root_leaf (n : Nat) (f : Fields) : punctuationRoot (leaf n f) = leaf n f := by
  unfold punctuationRoot
  exact Lemmas.Punct.foldl_inv (fun c => c = leaf n f) rootStep _ _
    (fun c i _ hc => by rw [hc, rootStep_leaf]) rfl

theorem symPull_leaf (first last : Nat) (s : SymState) (i : Nat) (left : Bool) (n : Nat) (f : Fields)
    (hs : s.cur = leaf n f) : symPull first last s i left = s := by
  simp [symPull, hs, parentOfLeaf]

theorem symStep_leaf (first last : Nat) (s : SymState) (i : Nat) (n : Nat) (f : Fields)
    (hs : s.cur = leaf n f) : symStep first last s i = s := by
  unfold symStep
  split
  · rfl
  · simp only [symPull_leaf first last s i _ n f hs]
    split <;> rfl

theorem sym_leaf (relc : Option Str) (n : Nat) (f : Fields) :
    punctuationSymetrify relc (leaf n f) = leaf n f := by
  unfold punctuationSymetrify
  simp only
  exact Lemmas.Punct.foldl_inv (fun (s : SymState) => s.cur = leaf n f) _ _ _
    (fun s i _ hs => by rw [symStep_leaf _ _ s i n f hs]; exact hs) rfl

theorem verylow_inv (t : Tree) (h : WFc t = true) : StepInvS t (punctuationVerylow t) := by
  rcases WFc_cases t h with h | ⟨f, rfl⟩
  · exact inv_of_punct (Lemmas.Punct.verylow_inv t h)
  · rw [verylow_leaf]; exact .refl _

theorem proot_inv (t : Tree) (h : WFc t = true) : StepInvS t (punctuationRoot t) := by
  rcases WFc_cases t h with h | ⟨f, rfl⟩
  · exact inv_of_punct (Lemmas.Punct.root_inv t h)
  · rw [root_leaf]; exact .refl _

theorem sym_inv (relc : Option Str) (t : Tree) (h : WFc t = true) :
    StepInvS t (punctuationSymetrify relc t) := by
  rcases WFc_cases t h with h | ⟨f, rfl⟩
  · exact inv_of_punct (Lemmas.Punct.sym_inv relc t h)
  · rw [sym_leaf]; exact .refl _

/-! ### binarize -/

open TT.Lemmas.Binarize in
theorem binarize_leaves_perm (bare : Bool) : ∀ (t t' : Tree), binarizeAux bare t = .ok t' →
    t'.leaves.Perm t.leaves := by
  refine binarize_induct bare (fun t t' => t'.leaves.Perm t.leaves) ?_ ?_ ?_
  · intro n f; exact List.Perm.refl _
  · intro f ks _ hP _
    rw [leaves_node, leaves_node, List.flatMap_map]
    exact Nav.perm_flatMap_of_forall _ _ ks hP
  · intro f ks two _ hP _ hout
    rw [leaves_node, leaves_node]
    refine (hout.flatMap_perm leaves (fun inner => leaves_node _ inner)).trans ?_
    refine (List.Perm.flatMap_right _ (sortBy_perm leftmost _)).trans ?_
    rw [List.flatMap_map]
    exact Nav.perm_flatMap_of_forall _ _ ks hP

theorem binarize_isLeaf (bare : Bool) (t t' : Tree) (h : binarizeAux bare t = .ok t') :
    t'.isLeaf = t.isLeaf := by
  cases t with
  | leaf n f => simp only [binarizeAux] at h; cases h; rfl
  | node f ks =>
    rcases (Lemmas.Binarize.binarizeAux_node_ok bare f ks t' h).2 with ⟨_, rfl⟩ | ⟨_, two, _, rfl⟩ <;> rfl

open TT.Lemmas.Binarize in
/-- the chain built over at least one child, all without childless constituents, has none either -/
theorem binChain_noEmpty (bf : Fields) : ∀ (fuel : Nat) (right : Bool) (rem out : List Tree),
    binChain bf right rem fuel = .ok out → rem ≠ [] → (∀ k ∈ rem, k.noEmpty = true) →
    out ≠ [] ∧ ∀ k ∈ out, k.noEmpty = true
  | 0, right, rem, out, h, hne, hall => by
    simp only [binChain, Except.ok.injEq] at h
    subst h; exact ⟨hne, hall⟩
  | fuel + 1, right, rem, out, h, hne, hall => by
    by_cases hs : rem.length ≤ 2
    · rw [binChain_short bf right rem hs] at h
      cases h
      exact ⟨hne, hall⟩
    · cases rem with
      | nil => simp at hs
      | cons r0 rest =>
        rw [binChain_cons bf right r0 rest fuel (by omega)] at h
        split at h
        · cases h
        · split at h
          · cases h
          · rename_i inner hin
            cases h
            have hperm := stepChild_perm right r0 rest
            have hlen := stepRem_length right r0 rest
            have hne' : stepRem right r0 rest ≠ [] := by
              intro h0
              rw [h0] at hlen
              simp only [List.length_cons, List.length_nil] at hs hlen
              omega
            have hall' : ∀ k ∈ stepRem right r0 rest, k.noEmpty = true := fun k hk =>
              hall k (hperm.subset (List.mem_cons_of_mem _ hk))
            obtain ⟨hi1, hi2⟩ := binChain_noEmpty bf fuel _ _ inner hin hne' hall'
            refine ⟨by simp, ?_⟩
            intro k hk
            simp only [List.mem_cons, List.not_mem_nil, or_false] at hk
            rcases hk with rfl | rfl
            · exact (Lemmas.Boyd.noEmpty_node _ _).2 ⟨hi1, hi2⟩
            · exact hall _ (hperm.subset List.mem_cons_self)

open TT.Lemmas.Binarize in
theorem binarize_noEmpty (bare : Bool) (t : Tree) : ∀ t', binarizeAux bare t = .ok t' →
    t.noEmpty = true → t'.noEmpty = true := by
  induction t using tree_ind with
  | hl n f => intro t' h _; simp only [binarizeAux] at h; cases h; rfl
  | hn f ks ih =>
    intro t' h hne
    obtain ⟨hk1, hk2⟩ := (Lemmas.Boyd.noEmpty_node f ks).1 hne
    rw [binarizeAux] at h
    cases h1 : binarizeAuxL bare ks with
    | error e => simp [h1] at h
    | ok ks' =>
      obtain ⟨rfl, hall⟩ := binarizeAuxL_ok bare ks ks' h1
      have hks' : ∀ k ∈ ks.map (binOk bare), k.noEmpty = true := by
        intro k hk
        obtain ⟨k0, hk0, rfl⟩ := List.mem_map.1 hk
        exact ih k0 hk0 _ (hall k0 hk0) (hk2 k0 hk0)
      have hne' : ks.map (binOk bare) ≠ [] := by simpa using hk1
      simp only [h1] at h
      by_cases hl : (ks.map (binOk bare)).length ≤ 2
      · simp only [hl, if_true] at h
        cases h
        exact (Lemmas.Boyd.noEmpty_node _ _).2 ⟨hne', hks'⟩
      · simp only [hl, if_false] at h
        split at h
        · cases h
        · split at h
          · cases h
          · rename_i two htwo
            cases h
            have hs_ne : sortBy leftmost (ks.map (binOk bare)) ≠ [] := by
              intro h0
              have := sortBy_length leftmost (ks.map (binOk bare))
              rw [h0] at this
              exact hne' (List.eq_nil_of_length_eq_zero this.symm)
            have hs_all : ∀ k ∈ sortBy leftmost (ks.map (binOk bare)), k.noEmpty = true :=
              fun k hk => hks' k ((mem_sortBy leftmost _ k).1 hk)
            obtain ⟨r1, r2⟩ := binChain_noEmpty _ _ _ _ two htwo hs_ne hs_all
            exact (Lemmas.Boyd.noEmpty_node _ _).2 ⟨r1, r2⟩

theorem binarize_inv (bare : Bool) (t t' : Tree) (h : Tree.binarize bare t = .ok t') : StepInvS t t' :=
  .of_leaves_perm (binarize_leaves_perm bare t t' h) (binarize_noEmpty bare t t' h)
    (by rw [binarize_isLeaf bare t t' h]; exact id)

/-! ### collapse / uncollapse -/

open TT.Lemmas.Collapse in
mutual
theorem noEmpty_collapse : (t : Tree) → t.noEmpty = true → (collapse t).noEmpty = true
  | .leaf n f, _ => by simp [collapse, noEmpty]
  | .node f [], h => by simp [noEmpty] at h
  | .node f [k], h => by
    rw [collapse]
    refine noEmpty_collapseInto f k ?_
    simpa [noEmpty, noEmptyL] using h
  | .node f (k1 :: k2 :: ks), h => by
    rw [collapse.eq_3 _ _ (not_singleton_of_two k1 k2 ks)]
    simp only [noEmpty, Bool.and_eq_true] at h ⊢
    refine ⟨by simp [collapseL], noEmptyL_collapseL _ h.2⟩
theorem noEmpty_collapseInto (f : Fields) : (t : Tree) → t.noEmpty = true →
    (collapseInto f t).noEmpty = true
  | .leaf n g, _ => by simp [collapseInto, noEmpty]
  | .node g [], h => by simp [noEmpty] at h
  | .node g [k], h => by
    rw [collapseInto]
    refine noEmpty_collapseInto _ k ?_
    simpa [noEmpty, noEmptyL] using h
  | .node g (k1 :: k2 :: ks), h => by
    rw [collapseInto.eq_3 _ _ _ (not_singleton_of_two k1 k2 ks)]
    simp only [noEmpty, Bool.and_eq_true] at h ⊢
    refine ⟨by simp [collapseL], noEmptyL_collapseL _ h.2⟩
theorem noEmptyL_collapseL : (ts : List Tree) → noEmptyL ts = true → noEmptyL (collapseL ts) = true
  | [], _ => by simp [collapseL, noEmptyL]
  | t :: ts, h => by
    simp only [noEmptyL, Bool.and_eq_true] at h
    simp only [collapseL, noEmptyL, Bool.and_eq_true]
    exact ⟨noEmpty_collapse t h.1, noEmptyL_collapseL ts h.2⟩
end

theorem collapse_inv (t : Tree) : StepInv t (collapse t) :=
  ⟨by rw [wtok_eq_collapse, Lemmas.Collapse.leaves_collapse], noEmpty_collapse t⟩

theorem leaves_wrapChain (f : Fields) : ∀ (ps : List Str) (inner : Tree),
    (wrapChain f ps inner).leaves = inner.leaves
  | [], _ => rfl
  | p :: ps, inner => by simp [wrapChain, leaves, leavesL, leaves_wrapChain f ps inner]

theorem noEmpty_wrapChain (f : Fields) : ∀ (ps : List Str) (inner : Tree),
    (wrapChain f ps inner).noEmpty = inner.noEmpty
  | [], _ => rfl
  | p :: ps, inner => by simp [wrapChain, noEmpty, noEmptyL, noEmpty_wrapChain f ps inner]

mutual
theorem leaves_uncollapse : (t : Tree) → (uncollapse t).leaves.map wtok = t.leaves.map wtok
  | .leaf n f => by simp [uncollapse, leaves_wrapChain, leaves, wtok, num, fields]
  | .node f ks => by
    simp only [uncollapse, leaves_wrapChain, leaves]
    exact leavesL_uncollapseL ks
theorem leavesL_uncollapseL : (ts : List Tree) →
    (leavesL (uncollapseL ts)).map wtok = (leavesL ts).map wtok
  | [] => by simp [uncollapseL]
  | t :: ts => by
    simp only [uncollapseL, leavesL, List.map_append, leaves_uncollapse t, leavesL_uncollapseL ts]
end

mutual
theorem noEmpty_uncollapse : (t : Tree) → (uncollapse t).noEmpty = t.noEmpty
  | .leaf n f => by simp [uncollapse, noEmpty_wrapChain, noEmpty]
  | .node f ks => by
    have h1 : (uncollapseL ks).isEmpty = ks.isEmpty := by cases ks <;> simp [uncollapseL]
    simp only [uncollapse, noEmpty_wrapChain, noEmpty, noEmptyL_uncollapseL ks, h1]
theorem noEmptyL_uncollapseL : (ts : List Tree) → noEmptyL (uncollapseL ts) = noEmptyL ts
  | [] => by simp [uncollapseL]
  | t :: ts => by
    simp only [uncollapseL, noEmptyL, noEmpty_uncollapse t, noEmptyL_uncollapseL ts]
end

theorem uncollapse_inv (t : Tree) : StepInv t (uncollapse t) :=
  ⟨by rw [leaves_uncollapse], by rw [noEmpty_uncollapse]; exact id⟩

theorem uncollapse_leafNums (t : Tree) : (uncollapse t).leafNums = t.leafNums := by
  have := congrArg (List.map (·.1)) (leaves_uncollapse t)
  rwa [map_fst_wtok, map_fst_wtok] at this

/-! ### every step -/

/-- a step that does not collapse keeps the strong invariant (on a well-formed tree or a bare token) -/
theorem step_strong (s : TStep) (t t' : Tree) (h : WFc t = true) (hnc : s.isCollapse = false)
    (hs : s.apply t = .ok t') : StepInvS t t' := by
  cases s with
  | rootAttach => simp only [TStep.apply, Except.ok.injEq] at hs; subst hs; exact rootAttach_inv t
  | negra => simp only [TStep.apply, Except.ok.injEq] at hs; subst hs; exact negra_inv t
  | rules p => exact rules_inv p t t' hs
  | boyd => exact boyd_inv t t' hs (WFc_nodup t h)
  | raising => simp only [TStep.apply, Except.ok.injEq] at hs; subst hs; exact raising_inv t
  | topnode => simp only [TStep.apply, Except.ok.injEq] at hs; subst hs; exact topnode_inv t
  | verylow => simp only [TStep.apply, Except.ok.injEq] at hs; subst hs; exact verylow_inv t h
  | proot => simp only [TStep.apply, Except.ok.injEq] at hs; subst hs; exact proot_inv t h
  | sym r => simp only [TStep.apply, Except.ok.injEq] at hs; subst hs; exact sym_inv r t h
  | binarize b => exact binarize_inv b t t' hs
  | collapse => simp [TStep.isCollapse] at hnc
  | uncollapse => simp [TStep.isCollapse] at hnc

/-- every step keeps the invariant -/
theorem step_inv (s : TStep) (t t' : Tree) (h : WFc t = true) (hs : s.apply t = .ok t') :
    StepInv t t' := by
  by_cases hc : s.isCollapse = false
  · exact (step_strong s t t' h hc hs).weak
  · cases s with
    | collapse => simp only [TStep.apply, Except.ok.injEq] at hs; subst hs; exact collapse_inv t
    | uncollapse => simp only [TStep.apply, Except.ok.injEq] at hs; subst hs; exact uncollapse_inv t
    | _ => simp [TStep.isCollapse] at hc

/-! ### sequences -/

theorem applySteps_cons (s : TStep) (ss : List TStep) (t t' : Tree)
    (h : applySteps (s :: ss) t = .ok t') : ∃ t1, s.apply t = .ok t1 ∧ applySteps ss t1 = .ok t' := by
  rw [applySteps] at h
  cases h1 : s.apply t with
  | error e => simp [h1] at h
  | ok t1 => simp only [h1] at h; exact ⟨t1, rfl, h⟩

theorem seq_strong : ∀ (steps : List TStep) (t t' : Tree), WF t = true →
    (∀ s ∈ steps, s.isCollapse = false) → applySteps steps t = .ok t' → StepInvS t t'
  | [], t, t', _, _, hs => by
    simp only [applySteps, Except.ok.injEq] at hs; subst hs; exact .refl _
  | s :: ss, t, t', h, hnc, hs => by
    obtain ⟨t1, h1, h2⟩ := applySteps_cons s ss t t' hs
    have i1 := step_strong s t t1 (WFc_of_WF t h) (hnc s List.mem_cons_self) h1
    exact i1.trans (seq_strong ss t1 t' (i1.wf h) (fun s' hs' => hnc s' (List.mem_cons_of_mem _ hs')) h2)

theorem seq_inv : ∀ (steps : List TStep) (t t' : Tree), WFc t = true →
    applySteps steps t = .ok t' → StepInv t t'
  | [], t, t', _, hs => by
    simp only [applySteps, Except.ok.injEq] at hs; subst hs; exact .refl _
  | s :: ss, t, t', h, hs => by
    obtain ⟨t1, h1, h2⟩ := applySteps_cons s ss t t' hs
    have i1 := step_inv s t t1 h h1
    exact i1.trans (seq_inv ss t1 t' (i1.wfc h) h2)

end TT.Lemmas.Steps
