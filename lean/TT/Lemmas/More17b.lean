/-
  Wave 17 (w17b): the optimal reordering of identity linearizations, EVERY rank (removes the rank bound of
  `More16b.binarizeGrammar_cf_optimal_bounded`).
  * `linsubArg_nosrc`, `linsubArg_split`: the number of pieces `linsub` makes of an argument with no / with one split point;
  * `cost_eq`: what `pickWinner` counts for position `p` of `idLin n` (1 for the first and the last position, 2 between);
  * `pickWinner_stable`, `pickWinner_last`, `pickWinner_first`, `pickOrder_const`, `pickOrder_idLin`: the greedy order on
    `idLin n` is `1, n, 2, …, n-1`;
  * `optLin_shape`: the reordered linearization is the one argument `0 2 3 … n-1 1`; `optPos_peel`: element 0 stands at an
    end of it `n - 2` times in a row; `optLin_all`, `binarizeGrammar_cf_optimal_all`.
-/
import TT.Lemmas.More16b
namespace TT.Lemmas.More17b
open TT TT.Spec TT.Tree TT.Lemmas.GramBin TT.Lemmas.More12c TT.Lemmas.WF
open TT.Lemmas.More12b TT.Lemmas.More15b TT.Lemmas.More16b


/-- no source element: one piece (none when nothing at all) -/
theorem linsubArg_nosrc (src : Int → Bool) (dest : Int → Dest) (r : Bool) :
    ∀ (l cur : List (Int × Nat)) (c : Cnt), (∀ x ∈ l, src x.1 = false) →
      (linsubArg src dest r l cur c).1.length = if cur.isEmpty && l.isEmpty then 0 else 1
  | [], cur, c, _ => by
    unfold linsubArg
    cases cur <;> simp
  | (p, j) :: rest, cur, c, h => by
    unfold linsubArg
    have hp : src p = false := h (p, j) (by simp)
    simp only [hp, Bool.false_eq_true, if_false]
    rw [linsubArg_nosrc src dest r rest _ _ (fun x hx => h x (by simp [hx]))]
    simp

/-- one source element, sent to `split`: a piece before it (unless nothing stands before), a piece after it (unless
    nothing stands after) -/
theorem linsubArg_split (src : Int → Bool) (dest : Int → Dest) (r : Bool) (q : Int) (j : Nat) (R : List (Int × Nat))
    (hq : src q = true) (hd : dest q = .split) (hR : ∀ x ∈ R, src x.1 = false) :
    ∀ (L cur : List (Int × Nat)) (c : Cnt), (∀ x ∈ L, src x.1 = false) →
      (linsubArg src dest r (L ++ (q, j) :: R) cur c).1.length =
        (if cur.isEmpty && L.isEmpty then 0 else 1) + (if R.isEmpty then 0 else 1)
  | [], cur, c, _ => by
    rw [List.nil_append]
    unfold linsubArg
    simp only [hq, if_true, hd]
    have := linsubArg_nosrc src dest r R [] c hR
    cases cur <;> simp_all <;> omega
  | (p, k) :: rest, cur, c, h => by
    rw [List.cons_append]
    unfold linsubArg
    have hp : src p = false := h (p, k) (by simp)
    simp only [hp, Bool.false_eq_true, if_false]
    rw [linsubArg_split src dest r q j R hq hd hR rest _ _ (fun x hx => h x (by simp [hx]))]
    simp
theorem range_split (i k : Nat) : List.range (i + (k + 1)) = List.range' 0 i ++ i :: List.range' (i + 1) k := by
  rw [List.range_eq_range', ← List.range'_append_1, List.range'_succ]; simp

/-- the number of pieces `pickWinner` counts for position `p` of `idLin n` -/
def cost (n p : Nat) : Nat := (linsub (idLin n) (fun x => x == (p : Int) - 1) (fun _ => .split) false).length

theorem cost_eq (n i : Nat) (hi : i < n) : cost n (i + 1) = (if i = 0 then 0 else 1) + (if i + 1 = n then 0 else 1) := by
  obtain ⟨k, rfl⟩ : ∃ k, n = i + (k + 1) := ⟨n - i - 1, by omega⟩
  unfold cost linsub idLin
  simp only [linsubArgs, List.append_nil]
  rw [range_split, List.map_append, List.map_cons]
  rw [linsubArg_split _ _ _ _ _ _ (by simp) rfl]
  · cases i <;> cases k <;> simp <;> omega
  · intro x hx
    obtain ⟨y, hy, rfl⟩ := List.mem_map.1 hx
    have := List.mem_range'_1.1 hy
    simp; omega
  · intro x hx
    obtain ⟨y, hy, rfl⟩ := List.mem_map.1 hx
    have := List.mem_range'_1.1 hy
    simp; omega

theorem pickWinner_eq (n : Nat) : ∀ (ps : List Nat) (fmin w : Nat),
    pickWinner (idLin n) (p :: ps) fmin w =
      if cost n p < fmin then pickWinner (idLin n) ps (cost n p) p else pickWinner (idLin n) ps fmin w := by
  intros; rfl

/-- nobody beats the current minimum: the winner stays -/
theorem pickWinner_stable (n : Nat) : ∀ (ps : List Nat) (fmin w : Nat), (∀ p ∈ ps, fmin ≤ cost n p) →
    pickWinner (idLin n) ps fmin w = w
  | [], _, _, _ => rfl
  | p :: ps, fmin, w, h => by
    rw [pickWinner_eq, if_neg (by have := h p (by simp); omega)]
    exact pickWinner_stable n ps fmin w (fun q hq => h q (by simp [hq]))

/-- a last position of cost 1 after positions of cost 2 wins -/
theorem pickWinner_last (n z : Nat) (hz : cost n z = 1) : ∀ (ps : List Nat) (fmin w : Nat), (∀ p ∈ ps, cost n p = 2) →
    2 ≤ fmin → pickWinner (idLin n) (ps ++ [z]) fmin w = z
  | [], fmin, w, _, hf => by
    rw [List.nil_append, pickWinner_eq, if_pos (by omega)]; rfl
  | p :: ps, fmin, w, h, hf => by
    rw [List.cons_append, pickWinner_eq]
    have hp := h p (by simp)
    split
    · exact pickWinner_last n z hz ps _ _ (fun q hq => h q (by simp [hq])) (by omega)
    · exact pickWinner_last n z hz ps _ _ (fun q hq => h q (by simp [hq])) hf

/-- the first of equally expensive positions wins -/
theorem pickWinner_first (n c p0 : Nat) (hc : c < 100000) (ps : List Nat) (h : ∀ p ∈ p0 :: ps, cost n p = c) :
    pickWinner (idLin n) (p0 :: ps) 100000 p0 = p0 := by
  rw [pickWinner_eq, if_pos (by rw [h p0 (by simp)]; exact hc)]
  exact pickWinner_stable n ps _ _ (fun q hq => by rw [h p0 (by simp), h q (by simp [hq])]; exact Nat.le_refl _)

/-- equally expensive positions are taken in their order -/
theorem pickOrder_const (n c : Nat) (hc : c < 100000) : ∀ (ps : List Nat) (fuel : Nat), ps.Nodup → ps.length ≤ fuel →
    (∀ p ∈ ps, cost n p = c) → pickOrder (idLin n) ps fuel = ps
  | [], 0, _, _, _ => rfl
  | [], _ + 1, _, _, _ => rfl
  | p0 :: ps, fuel + 1, hn, hl, h => by
    unfold pickOrder
    simp only
    rw [pickWinner_first n c p0 hc ps h]
    have hf : (p0 :: ps).filter (· != p0) = ps := by
      rw [List.filter_cons]
      simp only [bne_self_eq_false, Bool.false_eq_true, if_false]
      rw [List.filter_eq_self]
      intro a ha
      have := (List.nodup_cons.1 hn).1
      simp; intro e; subst e; exact this ha
    rw [hf, pickOrder_const n c hc ps fuel (List.nodup_cons.1 hn).2 (by simpa using hl) (fun q hq => h q (by simp [hq]))]


theorem cost_first (n : Nat) (h : 2 ≤ n) : cost n 1 = 1 := by
  rw [show (1 : Nat) = 0 + 1 from rfl, cost_eq n 0 (by omega)]; simp; omega

theorem cost_last (n : Nat) (h : 2 ≤ n) : cost n n = 1 := by
  obtain ⟨i, rfl⟩ : ∃ i, n = i + 1 := ⟨n - 1, by omega⟩
  rw [cost_eq (i + 1) i (by omega)]; simp; omega

theorem cost_mid (n p : Nat) (h1 : 2 ≤ p) (h2 : p < n) : cost n p = 2 := by
  obtain ⟨i, rfl⟩ : ∃ i, p = i + 1 := ⟨p - 1, by omega⟩
  rw [cost_eq n i (by omega), if_neg (by omega), if_neg (by omega)]

theorem pickOrder_cons (lin : Lin) (p0 : Nat) (ps : List Nat) (fuel : Nat) :
    pickOrder lin (p0 :: ps) (fuel + 1) =
      pickWinner lin (p0 :: ps) 100000 p0 ::
        pickOrder lin ((p0 :: ps).filter (· != pickWinner lin (p0 :: ps) 100000 p0)) fuel := rfl

theorem filter_ne_of_not_mem (w : Nat) (l : List Nat) (h : w ∉ l) : l.filter (· != w) = l := by
  rw [List.filter_eq_self]
  intro a ha
  simp; intro e; subst e; exact h ha

/-- the greedy order on the identity linearization of rank `m + 3`: first, last, then the middle from left to right -/
theorem pickOrder_idLin (m : Nat) :
    pickOrder (idLin (m + 3)) ((List.range (m + 3)).map (· + 1)) (m + 3) = 1 :: (m + 3) :: List.range' 2 (m + 1) := by
  have hpos : (List.range (m + 3)).map (· + 1) = 1 :: (List.range' 2 (m + 1) ++ [m + 3]) := by
    rw [List.range_eq_range', ← List.range'_succ_left, List.range'_succ, List.range'_1_concat]
    simp only [Nat.zero_add, List.cons.injEq, true_and]
    congr 2; omega
  rw [hpos, pickOrder_cons]
  have w1 : pickWinner (idLin (m + 3)) (1 :: (List.range' 2 (m + 1) ++ [m + 3])) 100000 1 = 1 := by
    rw [pickWinner_eq, if_pos (by rw [cost_first _ (by omega)]; omega), cost_first _ (by omega)]
    apply pickWinner_stable
    intro p hp
    rcases List.mem_append.1 hp with hp | hp
    · have := List.mem_range'_1.1 hp
      rw [cost_mid _ _ (by omega) (by omega)]; omega
    · simp only [List.mem_singleton] at hp
      subst hp
      rw [cost_last _ (by omega)]; omega
  rw [w1]
  have f1 : (1 :: (List.range' 2 (m + 1) ++ [m + 3])).filter (· != 1) = List.range' 2 (m + 1) ++ [m + 3] := by
    rw [List.filter_cons]
    simp only [bne_self_eq_false, Bool.false_eq_true, if_false]
    apply filter_ne_of_not_mem
    intro h
    rcases List.mem_append.1 h with h | h
    · have := List.mem_range'_1.1 h; omega
    · simp at h
  rw [f1]
  congr 1
  have hr : List.range' 2 (m + 1) = 2 :: List.range' 3 m := List.range'_succ
  have hshape : List.range' 2 (m + 1) ++ [m + 3] = 2 :: (List.range' 3 m ++ [m + 3]) := by rw [hr]; rfl
  have w2 : pickWinner (idLin (m + 3)) (List.range' 2 (m + 1) ++ [m + 3]) 100000 2 = m + 3 := by
    apply pickWinner_last _ _ (cost_last _ (by omega))
    · intro p hp
      have := List.mem_range'_1.1 hp
      exact cost_mid _ _ (by omega) (by omega)
    · omega
  rw [hshape, pickOrder_cons, ← hshape, w2]
  congr 1
  have f2 : (List.range' 2 (m + 1) ++ [m + 3]).filter (· != m + 3) = List.range' 2 (m + 1) := by
    rw [List.filter_append, filter_ne_of_not_mem]
    · simp
    · intro h
      have := List.mem_range'_1.1 h; omega
  rw [f2]
  apply pickOrder_const _ 2 (by omega) _ _ (List.nodup_range' 1) (by simp)
  intro p hp
  have := List.mem_range'_1.1 hp
  exact cost_mid _ _ (by omega) (by omega)

theorem idxOf?_range' (s k x : Nat) (h1 : s ≤ x) (h2 : x < s + k) : (List.range' s k).idxOf? x = some (x - s) := by
  rw [List.idxOf?_eq_some_iff]
  refine ⟨by simp; omega, by simp [List.getElem_range']; omega, ?_⟩
  intro j hj
  simp [List.getElem_range']; omega

/-- the positions of the reordered identity linearization of rank `m + 3`: `0, 2, 3, …, m + 2, 1` -/
def optPos (m : Nat) : List Int := 0 :: ((List.range' 1 (m + 1)).map (fun i => ((i + 1 : Nat) : Int)) ++ [1])

/-- the optimal reordering of the identity linearization, every rank from 3 on: one argument `0 2 3 … n-1 1` -/
theorem optLin_shape (m : Nat) : optLin (m + 3) = [(optPos m).map fun x => (x, 0)] := by
  unfold optLin
  rw [TT.Lemmas.More12c.reorderingOptimal_snd]
  simp only [List.length_replicate, Nat.add_sub_cancel]
  rw [pickOrder_idLin]
  have hr : List.range (m + 3) = 0 :: (List.range' 1 (m + 1) ++ [m + 2]) := by
    rw [List.range_eq_range', List.range'_succ, List.range'_1_concat]
    simp only [Nat.zero_add, List.cons.injEq, true_and]
    congr 2; omega
  have hto : ∀ i : Nat, ((i : Int) + 1).toNat = i + 1 := by intro i; omega
  unfold TT.Lemmas.Unbin.relabel idLin optPos
  rw [hr]
  simp only [List.map_cons, List.map_nil, List.map_map, List.map_append, Function.comp_def]
  congr 2
  · congr 1
    · apply List.map_congr_left
      intro i hi
      have := List.mem_range'_1.1 hi
      rw [hto, List.idxOf?_cons, if_neg (by simp; omega), List.idxOf?_cons, if_neg (by simp; omega),
        idxOf?_range' 2 (m + 1) (i + 1) (by omega) (by omega)]
      simp; omega
    · rw [hto, List.idxOf?_cons, if_neg (by simp), List.idxOf?_cons, if_pos (by simp)]
      simp

theorem optPos_peel (m : Nat) : Peel (m + 2) (optPos (m + 1)) := by
  unfold optPos
  refine ⟨_, by simp, Or.inl rfl, ?_, ?_⟩
  · intro x hx
    rcases List.mem_append.1 hx with hx | hx
    · obtain ⟨i, _, rfl⟩ := List.mem_map.1 hx; omega
    · simp at hx; omega
  have e1 : ((List.range' 1 (m + 1 + 1)).map (fun i => ((i + 1 : Nat) : Int)) ++ [1]).map (· - 1) =
      (List.range' 1 (m + 2)).map (fun i => ((i : Nat) : Int)) ++ [0] := by
    rw [List.map_append, List.map_map]
    congr 1
    apply List.map_congr_left
    intro i _
    simp only [Function.comp_def]; omega
  rw [e1]
  refine ⟨_, by simp, Or.inr rfl, ?_, ?_⟩
  · intro x hx
    obtain ⟨i, hi, rfl⟩ := List.mem_map.1 hx
    have := List.mem_range'_1.1 hi; omega
  have e2 : ((List.range' 1 (m + 2)).map (fun i => ((i : Nat) : Int))).map (· - 1) = idPos (m + 2) := by
    unfold idPos
    have h01 : List.range' 1 (m + 2) = (List.range' 0 (m + 2)).map (· + 1) := List.range'_succ_left (s := 0)
    rw [List.range_eq_range', h01, List.map_map, List.map_map]
    apply List.map_congr_left
    intro i _
    simp only [Function.comp_def]; omega
  rw [e2]
  exact Peel_id m (m + 2) (by omega)

/-- every rank: the reordered identity linearization and all linearizations of its left-to-right chain have one
    argument (ranks up to 24 from the table, the others from the shape `0 2 3 … n-1 1`) -/
theorem optLin_all (n : Nat) (hw : WF' (optLin n)) :
    (optLin n).length ≤ 1 ∧ ∀ x ∈ chainLins (optLin n) (n - 2), x.length ≤ 1 := by
  by_cases hn : n ≤ optBound
  · exact optLin_table n hn
  · obtain ⟨m, rfl⟩ : ∃ m, n = m + 1 + 3 := ⟨n - 4, by unfold optBound at hn; omega⟩
    rw [optLin_shape] at hw ⊢
    refine ⟨by simp, ?_⟩
    apply chainLins_cf _ _ hw
    rw [List.map_map]
    have : ((fun x : Int × Nat => x.1) ∘ fun x : Int => (x, 0)) = id := rfl
    rw [this, List.map_id]
    exact optPos_peel m

/-- context-freeness is kept by the binarization with the OPTIMAL reordering of a grammar whose rules all have the
    identity linearization - every rank -/
theorem binarizeGrammar_cf_optimal_all (mo : Option MarkovOpts) (g : Grammar)
    (hp : AllPairs Proper g) (hid : AllPairs (fun f l => l = idLin (f.length - 1)) g) :
    isContextFree (binarizeGrammar .optimal mo g) = true := by
  rw [isContextFree_iff]
  apply binarizeGrammar_allPairs
  intro j hj st x hx
  obtain ⟨f, l, ⟨hP, hI⟩, h1, h2⟩ := jobs_pair (fun f l => Proper f l ∧ l = idLin (f.length - 1))
    .optimal mo g (fun e he le hle => ⟨hp e he le hle, hid e he le hle⟩) j hj
  have hne : f ≠ [] := by intro e0; have := hP.1; rw [e0] at this; simp at this
  have hlen : j.1.length = f.length := by rw [h1]; exact TT.Lemmas.Unbin.reorder_length .optimal f l hne
  have hl : j.2.1 = optLin (f.length - 1) := by
    rw [h2, hI]
    show (reorderingOptimal f _).2 = _
    unfold optLin
    apply reorderingOptimal_snd_len
    have := hP.1
    rw [List.length_replicate]; omega
  have hw : WF' (optLin (f.length - 1)) := by
    rw [← hl, h2]
    exact WF'_of_wfLin _ _ (Proper_reorder .optimal f l hP).2.1
  obtain ⟨t1, t2⟩ := optLin_all (f.length - 1) hw
  unfold jobAdds at hx
  split at hx
  · simp only [List.mem_singleton] at hx
    subst hx
    show j.2.1.length ≤ 1
    rw [hl]; exact t1
  · obtain ⟨y, hy, rfl⟩ := List.mem_map.1 hx
    have hmem : y.2 ∈ chainLins j.2.1 (j.1.length - 3) := by
      rw [← chainG_lins j.1 (labelOf mo st j.1 j.2.2.2 (fanOut j.2.1)) (j.1.length - 3) 0 (j.1[0]?.getD []) j.2.1]
      exact List.mem_map.2 ⟨y, hy, rfl⟩
    show y.2.length ≤ 1
    rw [hl, hlen, show f.length - 3 = f.length - 1 - 2 by omega] at hmem
    exact t2 _ hmem
end TT.Lemmas.More17b
