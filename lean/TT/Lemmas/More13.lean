/-
  Helper lemmas, wave 13: the discobracket reader after the repair of its sentence part (D21).
  * `squeezeWs`: every maximal whitespace run of a text replaced by one character ("\n" if the run contains a line break,
    else " "); the lexer's output on the squeezed text is the output on the text with the whitespace tokens normalised
    (`lex_squeeze`), hence the bracket readers read both texts alike (`readBrackets_squeeze`);
  * `interleave`, the sentence part `w1 s1 w2 s2 … wn` with arbitrary separators, and what the lexer and the sentence
    collector make of it (`discoSentence_interleave`);
  * the squeezed form of a discobracket line with free layout is that of the line in the writer's layout.
  No Mathlib.
-/
import TT.Spec.More12f
import TT.Lemmas.More12f
namespace TT.Lemmas.More13
open TT TT.Spec TT.Lemmas.Read TT.Lemmas.More4 TT.Lemmas.Disco12

/-! ## definitions used in the statements of TT/Props/C01Disco.lean -/

/-- the character a whitespace run is squeezed to: "\n" when the run contains a line break, else " " -/
def wsMark (b : Bool) : Char := if b then '\n' else ' '

/-- what is put out when a whitespace run ends (`none`: there was no run) -/
def wsFlush : Option Bool → Str
  | none => []
  | some b => [wsMark b]

/-- the state after one more whitespace character `c` (`none`: outside a run; `some b`: inside, `b` = line break seen) -/
def wsStep (st : Option Bool) (c : Char) : Option Bool := some (st.getD false || c == '\n')

/-- every maximal run of whitespace replaced by one character -/
def squeezeAux : Str → Option Bool → Str
  | [], st => wsFlush st
  | c :: cs, st =>
    if pyIsSpace c then squeezeAux cs (wsStep st c)
    else wsFlush st ++ c :: squeezeAux cs none

/-- the text with every maximal whitespace run replaced by "\n" (if the run contains a line break) or " " (if not) -/
def squeezeWs (s : Str) : Str := squeezeAux s none

/-- `w1 s1 w2 s2 … wn`: the words with the given separators between them -/
def interleave : List Str → List Str → Str
  | [], _ => []
  | [w], _ => w
  | w :: v :: ws, [] => w ++ interleave (v :: ws) []
  | w :: v :: ws, s :: seps => w ++ s ++ interleave (v :: ws) seps

/-- whitespace without a line break (blanks, TABs, …); may be empty -/
def Gap (s : Str) : Prop := ∀ c ∈ s, pyIsSpace c = true ∧ c ≠ '\n'

/-- whitespace with a line break -/
def Break (s : Str) : Prop := (∀ c ∈ s, pyIsSpace c = true) ∧ '\n' ∈ s

/-- non-empty and free of whitespace -/
def Word (w : Str) : Prop := w ≠ [] ∧ ∀ c ∈ w, pyIsSpace c = false

instance (s : Str) : Decidable (Gap s) := inferInstanceAs (Decidable (∀ c ∈ s, pyIsSpace c = true ∧ c ≠ '\n'))
instance (s : Str) : Decidable (Break s) := inferInstanceAs (Decidable ((∀ c ∈ s, pyIsSpace c = true) ∧ '\n' ∈ s))
instance (w : Str) : Decidable (Word w) := inferInstanceAs (Decidable (w ≠ [] ∧ ∀ c ∈ w, pyIsSpace c = false))

/-- the layout of the sentence part of one discobracket line: whitespace behind the TAB, the separators between the
    words, the whitespace that ends the line -/
structure Layout where
  lead : Str := []
  seps : List Str
  trail : Str := ['\n']

/-- a layout for `n` words: `lead` whitespace without a line break (may be empty), `n - 1` separators, each non-empty
    whitespace without a line break, `trail` whitespace with a line break (e.g. " \n", "\n\n", "\t\n  \n") -/
def Layout.OK (n : Nat) (l : Layout) : Prop :=
  Gap l.lead ∧ l.seps.length = n - 1 ∧ (∀ s ∈ l.seps, s ≠ [] ∧ Gap s) ∧ Break l.trail

instance (n : Nat) (l : Layout) : Decidable (l.OK n) :=
  inferInstanceAs (Decidable (Gap l.lead ∧ l.seps.length = n - 1 ∧ (∀ s ∈ l.seps, s ≠ [] ∧ Gap s) ∧ Break l.trail))

/-- the line `tree TAB sentence` as the discobracket writer writes it (without the line break) -/
def writerLine (tr : Str) (ws : List Str) : Str := tr ++ '\t' :: joinWith [' '] ws

/-- the line with its line end in the layout `l` -/
def discoLine (tr : Str) (ws : List Str) (l : Layout) : Str :=
  tr ++ ('\t' :: l.lead) ++ interleave ws l.seps ++ l.trail

/-- the writer's layout: nothing behind the TAB, single blanks, "\n" -/
def Layout.plain (n : Nat) : Layout := { seps := List.replicate (n - 1) [' '] }

/-! ## the lexer on the squeezed text -/

theorem wsMark_space (b : Bool) : pyIsSpace (wsMark b) = true := by cases b <;> decide

theorem normTok_wsTok (w : Str) : normTok (w, LexClass.ws) = ([wsMark (w.contains '\n')], LexClass.ws) := by
  rw [normTok_ws]
  cases w.contains '\n' <;> rfl

theorem normTok_of_ne_ws (tc : Str × LexClass) (h : tc.2 ≠ LexClass.ws) : normTok tc = tc := by
  obtain ⟨t, c⟩ := tc
  cases c
  · rfl
  · exact absurd rfl h
  · rfl
  · rfl

/-- the (possibly empty) token flushed from the token buffer -/
def tokPart (tok : Str) : List (Str × LexClass) := if tok.isEmpty then [] else [(tok.reverse, LexClass.token)]

theorem map_normTok_tokPart (tok : Str) : (tokPart tok).map normTok = tokPart tok := by
  unfold tokPart
  split
  · rfl
  · rfl

theorem lex_squeeze_aux : ∀ (s : Str),
    (∀ tok : Str, lexAux (squeezeAux s none) tok [] = (lexAux s tok []).map normTok) ∧
    (∀ (tok w : Str), w ≠ [] →
      lexAux (squeezeAux s (some (w.contains '\n'))) tok [] = tokPart tok ++ (lexAux s [] w).map normTok) := by
  intro s
  induction s with
  | nil =>
    refine ⟨fun tok => by simp [squeezeAux, wsFlush, lexAux], fun tok w _ => ?_⟩
    simp only [squeezeAux, wsFlush]
    rw [lexAux_space _ _ _ _ (wsMark_space _)]
    simp [lexAux, tokPart]
  | cons c cs ih =>
    obtain ⟨ih1, ih2⟩ := ih
    rcases char_cases c with rfl | rfl | hc | hc
    · -- "("
      have hp : pyIsSpace '(' = false := by decide
      constructor
      · intro tok
        simp only [squeezeAux, hp, Bool.false_eq_true, if_false, wsFlush, List.nil_append]
        rw [lexAux_lrb, lexAux_lrb, ih1]
        simp only [List.isEmpty_nil, if_true, List.append_nil, List.map_append, List.map_cons, List.map_nil]
        congr 1
        congr 1
        split <;> rfl
      · intro tok w hw
        have hwe : w.isEmpty = false := by cases w <;> simp_all
        simp only [squeezeAux, hp, Bool.false_eq_true, if_false, wsFlush, List.singleton_append]
        rw [lexAux_space _ _ _ _ (wsMark_space _), lexAux_lrb, lexAux_lrb, ih1]
        simp only [List.isEmpty_nil, if_true, List.nil_append, hwe, Bool.false_eq_true, if_false, List.map_append,
          List.map_cons, List.map_nil, List.isEmpty_cons, List.reverse_singleton, tokPart]
        rw [normTok_wsTok, List.contains_reverse]
        rfl
    · -- ")"
      have hp : pyIsSpace ')' = false := by decide
      constructor
      · intro tok
        simp only [squeezeAux, hp, Bool.false_eq_true, if_false, wsFlush, List.nil_append]
        rw [lexAux_rrb, lexAux_rrb, ih1]
        simp only [List.isEmpty_nil, if_true, List.append_nil, List.map_append, List.map_cons, List.map_nil]
        congr 1
        congr 1
        split <;> rfl
      · intro tok w hw
        have hwe : w.isEmpty = false := by cases w <;> simp_all
        simp only [squeezeAux, hp, Bool.false_eq_true, if_false, wsFlush, List.singleton_append]
        rw [lexAux_space _ _ _ _ (wsMark_space _), lexAux_rrb, lexAux_rrb, ih1]
        simp only [List.isEmpty_nil, if_true, List.nil_append, hwe, Bool.false_eq_true, if_false, List.map_append,
          List.map_cons, List.map_nil, List.isEmpty_cons, List.reverse_singleton, tokPart]
        rw [normTok_wsTok, List.contains_reverse]
        rfl
    · -- whitespace
      have hc' : pyIsSpace c = true := hc
      constructor
      · intro tok
        simp only [squeezeAux, hc', if_true, wsStep, Option.getD_none, Bool.false_or]
        have := ih2 tok [c] (by simp)
        rw [show ([c] : Str).contains '\n' = (c == '\n') from by
          rw [List.contains_cons, List.contains_nil, Bool.or_false, BEq.comm]] at this
        rw [this, lexAux_space c cs tok [] hc']
        simp only [List.map_append]
        congr 1
        exact (map_normTok_tokPart tok).symm
      · intro tok w hw
        simp only [squeezeAux, hc', if_true, wsStep, Option.getD_some]
        have := ih2 tok (c :: w) (by simp)
        rw [show (c :: w).contains '\n' = (w.contains '\n' || c == '\n') from by
          rw [List.contains_cons, Bool.or_comm, BEq.comm]] at this
        rw [this, lexAux_space c cs [] w hc']
        simp
    · -- token character
      obtain ⟨h0, h1, h2⟩ := (isTokC_iff c).1 hc
      constructor
      · intro tok
        simp only [squeezeAux, h0, Bool.false_eq_true, if_false, wsFlush, List.nil_append]
        rw [lexAux_tokc c _ tok [] hc, lexAux_tokc c cs tok [] hc, ih1]
        simp
      · intro tok w hw
        have hwe : w.isEmpty = false := by cases w <;> simp_all
        simp only [squeezeAux, h0, Bool.false_eq_true, if_false, wsFlush, List.singleton_append]
        rw [lexAux_space _ _ _ _ (wsMark_space _), lexAux_tokc c _ [] _ hc, lexAux_tokc c cs [] w hc, ih1]
        simp only [hwe, Bool.false_eq_true, if_false, List.map_append, List.map_cons, List.map_nil, List.isEmpty_cons,
          List.reverse_singleton, tokPart]
        rw [normTok_wsTok, List.contains_reverse]

/-- the lexer's tokens of the squeezed text: those of the text with every whitespace token normalised -/
theorem lex_squeeze (s : Str) : bracketLex (squeezeWs s) = (bracketLex s).map normTok :=
  (lex_squeeze_aux s).1 []

/-- THE READER SEES ONLY THE SQUEEZED TEXT: every maximal whitespace run may be replaced by a single "\n" (if it contains
    a line break) or a single blank (if not) -/
theorem readBrackets_squeeze (o : InOpts) (s : Str) : readBrackets o (squeezeWs s) = readBrackets o s := by
  unfold readBrackets
  simp only [lex_squeeze, List.length_map]
  exact brLoop_norm o _ _ _

/-! ## the squeezed form of a concatenation -/

/-- the state of `squeezeAux` after `s` -/
def sqSt : Str → Option Bool → Option Bool
  | [], st => st
  | c :: cs, st => if pyIsSpace c then sqSt cs (wsStep st c) else sqSt cs none

/-- what `squeezeAux` has put out after `s` (a whitespace run at the end of `s` is still pending) -/
def sqOut : Str → Option Bool → Str
  | [], _ => []
  | c :: cs, st => if pyIsSpace c then sqOut cs (wsStep st c) else wsFlush st ++ c :: sqOut cs none

theorem squeezeAux_append (a b : Str) : ∀ st, squeezeAux (a ++ b) st = sqOut a st ++ squeezeAux b (sqSt a st) := by
  induction a with
  | nil => intro st; rfl
  | cons c cs ih =>
    intro st
    simp only [List.cons_append, squeezeAux, sqOut, sqSt]
    split
    · exact ih _
    · rw [ih]; simp

theorem sqOut_append (a b : Str) : ∀ st, sqOut (a ++ b) st = sqOut a st ++ sqOut b (sqSt a st) := by
  induction a with
  | nil => intro st; rfl
  | cons c cs ih =>
    intro st
    simp only [List.cons_append, sqOut, sqSt]
    split
    · exact ih _
    · rw [ih]; simp

theorem sqSt_append (a b : Str) : ∀ st, sqSt (a ++ b) st = sqSt b (sqSt a st) := by
  induction a with
  | nil => intro st; rfl
  | cons c cs ih =>
    intro st
    simp only [List.cons_append, sqSt]
    split
    · exact ih _
    · exact ih _

theorem squeezeAux_eq (a : Str) (st : Option Bool) : squeezeAux a st = sqOut a st ++ wsFlush (sqSt a st) := by
  have := squeezeAux_append a [] st
  rw [List.append_nil] at this
  rw [this]; rfl

/-- `a` and `b` are squeezed alike, from every state -/
def SqEq (a b : Str) : Prop := ∀ st, sqOut a st = sqOut b st ∧ sqSt a st = sqSt b st

theorem SqEq.refl (a : Str) : SqEq a a := fun _ => ⟨rfl, rfl⟩

theorem SqEq.append {a b c d : Str} (h1 : SqEq a b) (h2 : SqEq c d) : SqEq (a ++ c) (b ++ d) := by
  intro st
  rw [sqOut_append, sqOut_append, sqSt_append, sqSt_append, (h1 st).1, (h1 st).2, (h2 _).1, (h2 _).2]
  exact ⟨rfl, rfl⟩

theorem SqEq.squeeze {a b : Str} (h : SqEq a b) : squeezeWs a = squeezeWs b := by
  unfold squeezeWs
  rw [squeezeAux_eq, squeezeAux_eq, (h none).1, (h none).2]

theorem SqEq.flatten : ∀ (as bs : List Str), as.length = bs.length → (∀ p ∈ as.zip bs, SqEq p.1 p.2) →
    SqEq as.flatten bs.flatten
  | [], [], _, _ => SqEq.refl _
  | [], _ :: _, h, _ => by simp at h
  | _ :: _, [], h, _ => by simp at h
  | a :: as, b :: bs, h, hp => by
    rw [List.flatten_cons, List.flatten_cons]
    exact SqEq.append (hp (a, b) (by simp)) (SqEq.flatten as bs (by simpa using h) (fun p hm => hp p (by simp [hm])))

/-- a run of whitespace -/
theorem sq_wsrun (w : Str) (hw : ∀ c ∈ w, pyIsSpace c = true) : ∀ st,
    sqOut w st = [] ∧ sqSt w st = if w = [] then st else some (st.getD false || w.contains '\n') := by
  induction w with
  | nil => intro st; exact ⟨rfl, rfl⟩
  | cons c cs ih =>
    intro st
    have hc := hw c (by simp)
    obtain ⟨i1, i2⟩ := ih (fun d hd => hw d (by simp [hd])) (wsStep st c)
    simp only [sqOut, sqSt, hc, if_true]
    refine ⟨i1, ?_⟩
    rw [i2]
    simp only [wsStep, Option.getD_some, reduceCtorEq, if_false]
    by_cases he : cs = []
    · subst he
      have e : ([c] : Str).contains '\n' = (c == '\n') := by
        rw [List.contains_cons, List.contains_nil, Bool.or_false, BEq.comm]
      rw [e, if_pos rfl]
    · simp only [he, if_false]
      rw [List.contains_cons, Bool.or_assoc, BEq.comm]

theorem sq_gap (g : Str) (hg : Gap g) (st : Option Bool) :
    sqOut g st = [] ∧ sqSt g st = if g = [] then st else some (st.getD false) := by
  obtain ⟨h1, h2⟩ := sq_wsrun g (fun c hc => (hg c hc).1) st
  refine ⟨h1, ?_⟩
  rw [h2]
  have : g.contains '\n' = false := by
    cases h : g.contains '\n' with
    | false => rfl
    | true => exact absurd rfl ((hg '\n' (by simpa using h)).2)
  rw [this, Bool.or_false]

theorem sq_break (b : Str) (hb : Break b) (st : Option Bool) : sqOut b st = [] ∧ sqSt b st = some true := by
  obtain ⟨h1, h2⟩ := sq_wsrun b hb.1 st
  refine ⟨h1, ?_⟩
  have hne : b ≠ [] := by rintro rfl; exact absurd hb.2 (by simp)
  have : b.contains '\n' = true := by simpa using hb.2
  rw [h2, if_neg hne, this, Bool.or_true]

theorem sq_word0 (w : Str) (hw : ∀ c ∈ w, pyIsSpace c = false) : sqOut w none = w ∧ sqSt w none = none := by
  induction w with
  | nil => exact ⟨rfl, rfl⟩
  | cons c cs ih =>
    have hc := hw c (by simp)
    obtain ⟨i1, i2⟩ := ih (fun d hd => hw d (by simp [hd]))
    simp only [sqOut, sqSt, hc, Bool.false_eq_true, if_false, wsFlush, List.nil_append]
    exact ⟨by rw [i1], i2⟩

theorem sq_word (w : Str) (hw : Word w) (st : Option Bool) : sqOut w st = wsFlush st ++ w ∧ sqSt w st = none := by
  obtain ⟨hne, hw⟩ := hw
  cases w with
  | nil => exact absurd rfl hne
  | cons c cs =>
    have hc := hw c (by simp)
    obtain ⟨i1, i2⟩ := sq_word0 cs (fun d hd => hw d (by simp [hd]))
    simp only [sqOut, sqSt, hc, Bool.false_eq_true, if_false]
    exact ⟨by rw [i1], i2⟩

/-- two non-empty runs of whitespace without a line break are squeezed alike -/
theorem sqEq_gap (g g' : Str) (hg : Gap g) (hg' : Gap g') (hne : g ≠ []) (hne' : g' ≠ []) : SqEq g g' := by
  intro st
  rw [(sq_gap g hg st).1, (sq_gap g' hg' st).1, (sq_gap g hg st).2, (sq_gap g' hg' st).2, if_neg hne, if_neg hne']
  exact ⟨rfl, rfl⟩

/-- two runs of whitespace with a line break are squeezed alike -/
theorem sqEq_break (b b' : Str) (hb : Break b) (hb' : Break b') : SqEq b b' := by
  intro st
  rw [(sq_break b hb st).1, (sq_break b' hb' st).1, (sq_break b hb st).2, (sq_break b' hb' st).2]
  exact ⟨rfl, rfl⟩

/-- words with arbitrary gaps between them are squeezed like the words with single blanks between them -/
theorem sqEq_interleave : ∀ (ws seps : List Str), (∀ w ∈ ws, Word w) → seps.length = ws.length - 1 →
    (∀ s ∈ seps, s ≠ [] ∧ Gap s) → SqEq (interleave ws seps) (joinWith [' '] ws)
  | [], _, _, _, _ => SqEq.refl _
  | [w], _, _, _, _ => SqEq.refl _
  | _ :: _ :: _, [], _, hl, _ => by simp at hl
  | w :: v :: r, s :: seps, hw, hl, hs => by
    have ih := sqEq_interleave (v :: r) seps (fun x hx => hw x (by simp [hx])) (by simp at hl ⊢; omega)
      (fun x hx => hs x (by simp [hx]))
    have h1 := hs s (by simp)
    simp only [interleave, joinWith]
    exact SqEq.append (SqEq.append (SqEq.refl w) (sqEq_gap s [' '] h1.2 (by intro c hc; simp at hc; subst hc; decide) h1.1 (by simp))) ih

theorem interleave_cons_head (w : Str) (r seps : List Str) : ∃ x, interleave (w :: r) seps = w ++ x := by
  cases r with
  | nil => exact ⟨[], by simp [interleave]⟩
  | cons v r =>
    cases seps with
    | nil => exact ⟨_, rfl⟩
    | cons s seps => exact ⟨s ++ interleave (v :: r) seps, by simp [interleave]⟩

/-! ## the sentence part of a discobracket line with free layout: lexer and sentence collector -/

theorem ds_tok (w : Str) (X : List (Str × LexClass)) (pos : Nat) (acc : List (Nat × Str)) :
    discoSentence ((w, LexClass.token) :: X) pos acc = discoSentence X (pos + 1) ((pos, w) :: acc) := by
  simp [discoSentence]

theorem ds_gap (s : Str) (hs : Gap s) (X : List (Str × LexClass)) (pos : Nat) (acc : List (Nat × Str)) :
    discoSentence ((s, LexClass.ws) :: X) pos acc = discoSentence X pos acc := by
  have : ¬ '\n' ∈ s := fun h => (hs '\n' h).2 rfl
  simp [discoSentence, this]

theorem ds_break (s : Str) (hs : Break s) (X : List (Str × LexClass)) (pos : Nat) (acc : List (Nat × Str)) :
    discoSentence ((s, LexClass.ws) :: X) pos acc = (acc.reverse, X) := by
  simp [discoSentence, hs.2]

/-- what may follow a line: nothing, or a text that starts with a character other than whitespace -/
def MoreOK (more : Str) : Prop := more = [] ∨ ∃ d m, more = d :: m ∧ pyIsSpace d = false

theorem moreOK_nil : MoreOK [] := .inl rfl
theorem moreOK_cons (d : Char) (m : Str) (h : pyIsSpace d = false) : MoreOK (d :: m) := .inr ⟨d, m, rfl, h⟩

/-- the whitespace run with the line break ends the sentence; exactly the tokens of what follows are left -/
theorem ds_end (trail more : Str) (ht : Break trail) (hm : MoreOK more) (pos : Nat) (acc : List (Nat × Str)) :
    discoSentence (bracketLex (trail ++ more)) pos acc = (acc.reverse, bracketLex more) := by
  rcases hm with rfl | ⟨d, m, rfl, hd⟩
  · rw [List.append_nil]
    have : bracketLex trail = [] := (lex_spaces trail ht.1 []).1
    rw [this]; rfl
  · have hne : trail ≠ [] := by rintro rfl; exact absurd ht.2 (by simp)
    rw [lex_wsrun_append trail d m hne ht.1 hd, ds_break trail ht]

theorem word_head (w : Str) (h : w ≠ [] ∧ ∀ c ∈ w, isTokC c = true) : ∃ d ds, w = d :: ds ∧ isTokC d = true := by
  cases w with
  | nil => exact absurd rfl h.1
  | cons d ds => exact ⟨d, ds, rfl, h.2 d (by simp)⟩

theorem gap_head (s : Str) (hne : s ≠ []) (hs : ∀ c ∈ s, pyIsSpace c = true) : ∃ d ds, s = d :: ds ∧ isTokC d = false := by
  cases s with
  | nil => exact absurd rfl hne
  | cons d ds =>
    refine ⟨d, ds, rfl, ?_⟩
    have := hs d (by simp)
    simp [isTokC, this]

theorem ds_words (trail more : Str) (ht : Break trail) (hm : MoreOK more) : ∀ (r : List Str) (w : Str) (seps : List Str),
    (∀ x ∈ w :: r, x ≠ [] ∧ ∀ c ∈ x, isTokC c = true) → seps.length = r.length → (∀ s ∈ seps, s ≠ [] ∧ Gap s) →
    ∀ (pos : Nat) (acc : List (Nat × Str)),
    discoSentence (bracketLex (interleave (w :: r) seps ++ (trail ++ more))) pos acc =
      (acc.reverse ++ (List.range' pos (r.length + 1)).zip (w :: r), bracketLex more)
  | [], w, _, hw, _, _, pos, acc => by
    have hw1 := hw w (by simp)
    have hne : trail ≠ [] := by rintro rfl; exact absurd ht.2 (by simp)
    obtain ⟨d, ds, hd, hdt⟩ := gap_head trail hne ht.1
    simp only [interleave]
    rw [hd, List.cons_append, lex_tokrun_append w d _ hw1.1 hw1.2 hdt, ds_tok, ← List.cons_append, ← hd, ds_end trail more ht hm]
    simp [List.range'_succ]
  | v :: r, w, [], _, hl, _, _, _ => by simp at hl
  | v :: r, w, s :: seps, hw, hl, hs, pos, acc => by
    have hw1 := hw w (by simp)
    have hs1 := hs s (by simp)
    obtain ⟨d, ds, hd, hdt⟩ := gap_head s hs1.1 (fun c hc => (hs1.2 c hc).1)
    obtain ⟨e, es, he, het⟩ := word_head v (hw v (by simp))
    obtain ⟨x, hx⟩ := interleave_cons_head v r seps
    have ih := ds_words trail more ht hm r v seps (fun x hx => hw x (by simp [hx])) (by simpa using hl)
      (fun x hx => hs x (by simp [hx])) (pos + 1) ((pos, w) :: acc)
    have e1 : interleave (w :: v :: r) (s :: seps) ++ (trail ++ more) =
        w ++ d :: (ds ++ (interleave (v :: r) seps ++ (trail ++ more))) := by
      simp [interleave, hd]
    have e2 : d :: (ds ++ (interleave (v :: r) seps ++ (trail ++ more))) = s ++ e :: (es ++ x ++ (trail ++ more)) := by
      rw [hx, he, hd]; simp
    have e3 : e :: (es ++ x ++ (trail ++ more)) = interleave (v :: r) seps ++ (trail ++ more) := by
      rw [hx, he]; simp
    rw [e1, lex_tokrun_append w d _ hw1.1 hw1.2 hdt, ds_tok, e2,
      lex_wsrun_append s e _ hs1.1 (fun c hc => (hs1.2 c hc).1) (isTokC_not_ws e het), ds_gap s hs1.2, e3, ih]
    simp [List.range'_succ]

/-- THE TOKEN MAP DOES NOT DEPEND ON THE LAYOUT OF THE SENTENCE PART.  Words `ws` (at least one; each non-empty, free of
    whitespace and parentheses), ANY separators `seps` between them (non-empty whitespace without a line break), optional
    leading whitespace `lead` without a line break, ANY whitespace run `trail` that contains a line break, and then either
    the end of the text or a text starting with a non-white character: the sentence collector returns the words numbered
    `pos, pos+1, …` and leaves exactly the tokens of the text behind that whitespace run. -/
theorem discoSentence_interleave (ws seps : List Str) (lead trail more : Str) (hne : ws ≠ [])
    (hw : ∀ w ∈ ws, w ≠ [] ∧ ∀ c ∈ w, isTokC c = true) (hl : seps.length = ws.length - 1) (hs : ∀ s ∈ seps, s ≠ [] ∧ Gap s)
    (hlead : Gap lead) (ht : Break trail) (hm : MoreOK more) (pos : Nat) (acc : List (Nat × Str)) :
    discoSentence (bracketLex (lead ++ (interleave ws seps ++ (trail ++ more)))) pos acc =
      (acc.reverse ++ (List.range' pos ws.length).zip ws, bracketLex more) := by
  cases ws with
  | nil => exact absurd rfl hne
  | cons w r =>
    have hmain := ds_words trail more ht hm r w seps hw (by simpa using hl) hs pos acc
    by_cases hle : lead = []
    · subst hle
      rw [List.nil_append]
      exact hmain
    · obtain ⟨e, es, he, het⟩ := word_head w (hw w (by simp))
      obtain ⟨x, hx⟩ := interleave_cons_head w r seps
      have e1 : interleave (w :: r) seps ++ (trail ++ more) = e :: (es ++ x ++ (trail ++ more)) := by
        rw [hx, he]; simp
      rw [e1, lex_wsrun_append lead e _ hle (fun c hc => (hlead c hc).1) (isTokC_not_ws e het), ds_gap lead hlead, ← e1]
      exact hmain

/-! ## a discobracket line with free layout is squeezed like the writer's line -/

theorem gap_tab_lead (lead : Str) (h : Gap lead) : Gap ('\t' :: lead) := by
  intro c hc
  rcases List.mem_cons.1 hc with rfl | hc
  · decide
  · exact h c hc

theorem sqEq_line (tr : Str) (ws : List Str) (l : Layout) (hw : ∀ w ∈ ws, Word w) (hl : l.OK ws.length) :
    SqEq (discoLine tr ws l) (writerLine tr ws ++ ['\n']) := by
  obtain ⟨h1, h2, h3, h4⟩ := hl
  have e : writerLine tr ws ++ ['\n'] = tr ++ ['\t'] ++ joinWith [' '] ws ++ ['\n'] := by simp [writerLine]
  rw [e]
  unfold discoLine
  exact SqEq.append (SqEq.append (SqEq.append (SqEq.refl tr)
    (sqEq_gap _ _ (gap_tab_lead _ h1) (gap_tab_lead [] (by intro c hc; cases hc)) (by simp) (by simp)))
    (sqEq_interleave ws l.seps hw h2 h3)) (sqEq_break _ _ h4 ⟨by intro c hc; simp at hc; subst hc; decide, by simp⟩)

theorem sqEq_file : ∀ (items : List (Str × List Str × Layout)),
    (∀ p ∈ items, (∀ w ∈ p.2.1, Word w) ∧ p.2.2.OK p.2.1.length) →
    SqEq (items.map fun p => discoLine p.1 p.2.1 p.2.2).flatten (items.map fun p => writerLine p.1 p.2.1 ++ ['\n']).flatten
  | [], _ => SqEq.refl _
  | p :: items, h => by
    rw [List.map_cons, List.map_cons, List.flatten_cons, List.flatten_cons]
    exact SqEq.append (sqEq_line p.1 p.2.1 p.2.2 (h p (by simp)).1 (h p (by simp)).2)
      (sqEq_file items (fun q hq => h q (by simp [hq])))

theorem layout_plain_ok (n : Nat) : (Layout.plain n).OK n := by
  unfold Layout.OK Layout.plain
  refine ⟨?_, ?_, ?_, ?_, ?_⟩
  · intro c hc; cases hc
  · simp
  · intro s hs
    have := List.eq_of_mem_replicate hs
    subst this
    exact ⟨by simp, by intro c hc; simp at hc; subst hc; decide⟩
  · intro c hc; simp at hc; subst hc; decide
  · simp

theorem interleave_replicate : ∀ (ws : List Str), interleave ws (List.replicate (ws.length - 1) [' ']) = joinWith [' '] ws
  | [] => rfl
  | [w] => rfl
  | w :: v :: r => by
    have ih := interleave_replicate (v :: r)
    simp only [List.length_cons, Nat.add_sub_cancel] at ih ⊢
    rw [List.replicate_succ]
    simp only [interleave, joinWith, ih]

/-- the line in the writer's layout is the writer's line -/
theorem discoLine_plain (tr : Str) (ws : List Str) : discoLine tr ws (Layout.plain ws.length) = writerLine tr ws ++ ['\n'] := by
  simp [discoLine, Layout.plain, interleave_replicate, writerLine]

end TT.Lemmas.More13
