/-
  Helper lemmas of wave 12 (C02-C05): the empty root of the bracket formats, decoding the tree part of a
  discobracket line, the characters the bracket writer emits, replacing the words of tokens.
-/
import TT.Spec.Formats
import TT.Lemmas.Write
import TT.Lemmas.Punct
import TT.Props.C19
import TT.Lemmas.OwnRT
import TT.Lemmas.RcgRT
namespace TT.Lemmas.More12i
open TT TT.Tree TT.Spec TT.Lemmas.Write TT.Lemmas.WF TT.Lemmas.GramOut

/-! ### the empty root of the bracket formats -/

/-- fields of a constituent whose decorated label is empty under every option record -/
def silentFields : Fields := { label := [], edge := some ['-'], head := some false, split := some false }

theorem getLabel_silent (o : OutOpts) (ks : List Tree) : getLabel o (node silentFields ks) = .ok [] := by
  unfold getLabel silentFields
  cases o.gf <;> cases o.markHeads <;> cases o.splitMarking <;> cases o.splitNumbering <;> rfl

theorem printedLabel_silent (o : OutOpts) (ks : List Tree) : printedLabel o (node silentFields ks) = [] :=
  printedLabel_eq_of_ok o _ _ (getLabel_silent o ks)

/-- with `emptyRoot` the root is written as a constituent whose label is empty -/
theorem bracketsSub_emptyRoot (o : OutOpts) (f : Fields) (ks : List Tree) (hne : ks ≠ []) :
    bracketsSub o true (node f ks) = bracketsSub o false (node silentFields ks) := by
  have : ks.isEmpty = false := by simpa using hne
  rw [bracketsSub, bracketsSub]
  simp only [this, Bool.false_eq_true, if_false, if_true, getLabel_silent]


/-! ### discobrackets: decoding the tree part, whatever the token order -/

theorem digits_no_key (s : Str) (hd : ∀ c ∈ s, c.isDigit = true) : ∀ kv ∈ Gen.BRACKETS, ¬ kv.1 <:+: s := by
  intro kv hkv hi
  have hsub : ∀ c ∈ kv.1, c.isDigit = true := fun c hc => hd c (hi.subset hc)
  rcases brackets_keys_shape kv hkv with ⟨_, hm⟩ | hm
  · have := hsub _ hm; revert this; decide
  · simp only [List.mem_cons, List.not_mem_nil, or_false] at hm
    rcases hm with e | e | e | e | e | e <;> (have := hsub _ (by rw [e]; exact List.mem_singleton.2 rfl); revert this; decide)

theorem replaceParens_natToStr (n : Nat) : replaceParens (natToStr n) = natToStr n := by
  rw [replaceParens_eq]; exact replFold_id _ _ (digits_no_key _ (natToStr_isDigit n))

/-- every token carries its own number as the word (`wordsToNums`) -/
def NumWords (x : Tree) : Prop := ∀ n f, leaf n f ∈ subtrees x → f.word = some (natToStr n)

/-- decoding the text of `x` from ANY counter and renumbering by the words gives `x` back -/
def DecOKd (o : OutOpts) (x : Tree) : Prop :=
  ∀ s, bracketsSub o false x = .ok s → (∃ s', s = '(' :: s') ∧ ∀ fuel, s.length ≤ fuel → ∀ rest cnt, ∃ d d',
    decBrNode fuel (s ++ rest) cnt = some (d, rest, cnt + x.leafNums.length) ∧
    renumberByWord d = some d' ∧ sortKids d' = sortKids (carryBrackets o false x)

/-- side condition on a token: the printed label is free of the structural characters -/
def LabOKd (o : OutOpts) : Tree → Prop
  | leaf n f => goodLabel (printedLabel o (leaf n (replaceParensFields f)))
  | node f ks => goodLabel (printedLabel o (node f ks))

theorem decOKd_leaf (o : OutOpts) (n : Nat) (f : Fields) (hw : f.word = some (natToStr n)) (h : LabOKd o (leaf n f)) :
    DecOKd o (leaf n f) := by
  intro s hs
  obtain ⟨l, hl, rfl⟩ := bracketsSub_leaf_ok o false n f s hs
  refine ⟨⟨_, rfl⟩, ?_⟩
  intro fuel hf rest cnt
  obtain ⟨g, rfl⟩ : ∃ g, fuel = g + 1 := ⟨fuel - 1, by simp at hf; omega⟩
  have hg : goodLabel l := by
    have h' : goodLabel (printedLabel o (leaf n (replaceParensFields f))) := h
    rwa [printedLabel_eq_of_ok o _ l hl] at h'
  have hword : (replaceParensFields f).word.getD ['N', 'o', 'n', 'e'] = natToStr n := by
    simp [replaceParensFields, hw, replaceParens_natToStr]
  refine ⟨leaf cnt { label := l, word := some (natToStr n) }, leaf n { label := l, word := some (natToStr n) }, ?_, ?_, ?_⟩
  · rw [hword, leafNums_leaf]
    have := decBrNode_leaf g l (natToStr n) rest cnt hg (fun c hc => by
      have := natToStr_isDigit n c hc; intro e; subst e; revert this; decide)
    simpa using this
  · simp [renumberByWord, strToNat_natToStr]
  · simp [sortKids, carryBrackets, printedLabel_eq_of_ok o _ l hl, hw, replaceParens_natToStr]

theorem decKidsd (o : OutOpts) : ∀ (L : List Tree) (cnt : Nat) (acc : List Tree) (fuel : Nat) (rest : Str),
    (∀ k ∈ L, DecOKd o k ∧ ∃ s, bracketsSub o false k = .ok s) →
    ((L.map (strOf o)).flatten).length + 1 ≤ fuel →
    ∃ ds ds', decBrKids fuel ((L.map (strOf o)).flatten ++ ')' :: rest) cnt acc =
        some (acc.reverse ++ ds, rest, cnt + (L.flatMap leafNums).length) ∧
      renumberByWordL ds = some ds' ∧
      ds'.map sortKids = L.map (fun k => sortKids (carryBrackets o false k))
  | [], cnt, acc, fuel, rest, _, hf => by
    obtain ⟨g, rfl⟩ : ∃ g, fuel = g + 1 := ⟨fuel - 1, by omega⟩
    exact ⟨[], [], by simp [decBrKids_close], rfl, rfl⟩
  | k :: L, cnt, acc, fuel, rest, hk, hf => by
    obtain ⟨hdk, s, hs⟩ := hk k (by simp)
    obtain ⟨⟨s', hs'⟩, hdec⟩ := hdk s hs
    obtain ⟨g, rfl⟩ : ∃ g, fuel = g + 1 := ⟨fuel - 1, by omega⟩
    simp only [List.map_cons, List.flatten_cons, List.length_append, strOf_ok o k s hs] at hf ⊢
    have hslen : 0 < s.length := by rw [hs']; simp
    obtain ⟨d, d', hd, hr, hsd⟩ := hdec g (by omega) ((L.map (strOf o)).flatten ++ ')' :: rest) cnt
    obtain ⟨ds, ds', hds, hrs, hsds⟩ := decKidsd o L (cnt + k.leafNums.length) (d :: acc) g rest
      (fun k' hk' => hk k' (by simp [hk'])) (by omega)
    refine ⟨d :: ds, d' :: ds', ?_, ?_, by simp [hsd, hsds]⟩
    · have e : s ++ (L.map (strOf o)).flatten ++ ')' :: rest = '(' :: (s' ++ ((L.map (strOf o)).flatten ++ ')' :: rest)) := by
        rw [hs']; simp
      rw [e, decBrKids_open g _ cnt acc d _ _ (by rw [← List.cons_append, ← hs']; exact hd), hds]
      simp [Nat.add_assoc]
    · rw [renumberByWordL, hr, hrs]

theorem decOKd_node (o : OutOpts) (f : Fields) (ks : List Tree) (ih : ∀ k ∈ ks, DecOKd o k)
    (hne : ks ≠ []) (hlab : LabOKd o (node f ks)) : DecOKd o (node f ks) := by
  intro s hs
  obtain ⟨l, parts, hl, hp, rfl⟩ := bracketsSub_node_ok o f ks s hne hs
  obtain ⟨hparts, hsub⟩ := bracketsKids_ok o ks parts hp
  refine ⟨⟨_, rfl⟩, ?_⟩
  intro fuel hf rest cnt
  have hpl := printedLabel_eq_of_ok o _ l hl
  have hgl : goodLabel l := by rw [← hpl]; exact hlab
  have hT : ((sortBy (·.1) parts).map (·.2)).flatten = (((sortBy leftmost ks).map (strOf o)).flatten) := by
    rw [hparts, sortBy_map_keyed]
  rw [hT] at hf ⊢
  have hmem : ∀ k, k ∈ sortBy leftmost ks ↔ k ∈ ks := fun k => mem_sortBy leftmost ks k
  have hperm : ((sortBy leftmost ks).flatMap leafNums).Perm (node f ks).leafNums := by
    rw [leafNums_node]; exact List.Perm.flatMap_right _ (sortBy_perm leftmost ks)
  obtain ⟨g, rfl⟩ : ∃ g, fuel = g + 1 := ⟨fuel - 1, by simp at hf; omega⟩
  obtain ⟨ds, ds', hds, hrs, hsds⟩ := decKidsd o (sortBy leftmost ks) cnt [] g rest
    (fun k hk => ⟨ih k ((hmem k).1 hk), hsub k ((hmem k).1 hk)⟩)
    (by simp only [List.length_cons, List.length_append, List.length_nil] at hf; omega)
  have hstart : ∃ r2, ((sortBy leftmost ks).map (strOf o)).flatten ++ ')' :: rest = '(' :: r2 := by
    cases hL : sortBy leftmost ks with
    | nil =>
      have := sortBy_length leftmost ks
      rw [hL] at this
      exact absurd (List.eq_nil_of_length_eq_zero this.symm) hne
    | cons k0 L0 =>
      have hk0 : k0 ∈ ks := (hmem k0).1 (by rw [hL]; simp)
      obtain ⟨s0, hs0⟩ := hsub k0 hk0
      obtain ⟨⟨s0', hs0'⟩, _⟩ := ih k0 hk0 s0 hs0
      exact ⟨s0' ++ ((L0.map (strOf o)).flatten ++ ')' :: rest), by simp [strOf_ok o k0 s0 hs0, hs0']⟩
  refine ⟨node { label := l } ds, node { label := l } ds', ?_, ?_, ?_⟩
  · have e : '(' :: (l ++ (((sortBy leftmost ks).map (strOf o)).flatten ++ [')'])) ++ rest =
        '(' :: (l ++ (((sortBy leftmost ks).map (strOf o)).flatten ++ ')' :: rest)) := by simp
    rw [e, decBrNode_node' g l _ _ hgl ds rest _ hstart hds, hperm.length_eq]
  · rw [renumberByWord, hrs]; rfl
  · have hkey : ∀ a : Tree, leftmost ((fun k => sortKids (carryBrackets o false k)) a) = leftmost a :=
      fun a => leftmost_sortKids_carry o a
    rw [sortKids, sortKidsL_eq, hsds, sortBy_map leftmost leftmost _ hkey,
      sortBy_of_sorted leftmost _ (sortBy_sorted leftmost ks)]
    rw [carryBrackets, sortKids, sortKidsL_eq, carryBracketsL_eq, List.map_map]
    rw [show (sortKids ∘ carryBrackets o false) = (fun k => sortKids (carryBrackets o false k)) from rfl,
      sortBy_map leftmost leftmost _ hkey]
    simp [hpl]

theorem decOKd (o : OutOpts) (x : Tree) : x.noEmpty = true → NumWords x →
    (∀ y ∈ subtrees x, LabOKd o y) → DecOKd o x := by
  induction x using tree_ind with
  | hl n f => intro _ hw hlab; exact decOKd_leaf o n f (hw n f (self_mem_subtrees _)) (hlab _ (self_mem_subtrees _))
  | hn f ks ih =>
    intro hne hw hlab
    obtain ⟨hks, hkne⟩ := (noEmpty_node_iff f ks).1 hne
    have hsubk : ∀ k ∈ ks, ∀ y ∈ subtrees k, y ∈ subtrees (node f ks) :=
      fun k hk y hy => (mem_subtrees_node f ks y).2 (Or.inr ⟨k, hk, hy⟩)
    refine decOKd_node o f ks ?_ hks (hlab _ (self_mem_subtrees _))
    intro k hk
    exact ih k hk (hkne k hk) (fun n g hy => hw n g (hsubk k hk _ hy)) (fun y hy => hlab y (hsubk k hk y hy))


/-! ### sizes -/

theorem sizeL_eq : ∀ ks : List Tree, sizeL ks = (ks.map size).sum
  | [] => rfl
  | t :: ts => by simp [sizeL, sizeL_eq ts]

theorem size_lt_of_mem_kids (f : Fields) (ks : List Tree) (k : Tree) (hk : k ∈ ks) : k.size < (node f ks).size := by
  have : ∀ ks : List Tree, k ∈ ks → k.size ≤ sizeL ks := by
    intro ks
    induction ks with
    | nil => intro h; cases h
    | cons a r ih =>
      intro h
      rw [sizeL]
      rcases List.mem_cons.1 h with rfl | h
      · omega
      · have := ih h; omega
  have := this ks hk
  rw [size]; omega

theorem size_le_of_mem_subtrees (x y : Tree) (h : y ∈ subtrees x) : y.size ≤ x.size := by
  induction x using tree_ind with
  | hl n f => simp only [subtrees, List.mem_singleton] at h; rw [h]; exact Nat.le_refl _
  | hn f ks ih =>
    rcases (mem_subtrees_node f ks y).1 h with rfl | ⟨k, hk, hy⟩
    · exact Nat.le_refl _
    · exact Nat.le_trans (ih k hk hy) (Nat.le_of_lt (size_lt_of_mem_kids f ks k hk))

/-- a node is not a proper subtree of itself -/
theorem not_mem_subtrees_kids (f : Fields) (ks : List Tree) (k : Tree) (hk : k ∈ ks) : node f ks ∉ subtrees k := by
  intro h
  have h1 := size_le_of_mem_subtrees k _ h
  have h2 := size_lt_of_mem_kids f ks k hk
  omega

/-! ### `wordsToNums` -/

theorem wordsToNumsL_eq : ∀ ks : List Tree, wordsToNumsL ks = ks.map wordsToNums
  | [] => rfl
  | t :: ts => by simp [wordsToNumsL, wordsToNumsL_eq ts]

theorem wordsToNums_node (f : Fields) (ks : List Tree) : wordsToNums (node f ks) = node f (ks.map wordsToNums) := by
  rw [wordsToNums, wordsToNumsL_eq]

theorem leafNums_wordsToNums (x : Tree) : (wordsToNums x).leafNums = x.leafNums := by
  induction x using tree_ind with
  | hl n f => simp [wordsToNums, leafNums_leaf]
  | hn f ks ih =>
    rw [wordsToNums_node, leafNums_node, leafNums_node, List.flatMap_map]
    exact flatMap_congr' _ _ ks ih

theorem noEmpty_wordsToNums (x : Tree) (h : x.noEmpty = true) : (wordsToNums x).noEmpty = true := by
  induction x using tree_ind with
  | hl n f => rfl
  | hn f ks ih =>
    obtain ⟨hks, hk⟩ := (noEmpty_node_iff f ks).1 h
    rw [wordsToNums_node]
    refine (noEmpty_node_iff _ _).2 ⟨by simpa using hks, ?_⟩
    intro k hk'
    obtain ⟨k0, hk0, rfl⟩ := List.mem_map.1 hk'
    exact ih k0 hk0 (hk k0 hk0)

theorem mem_subtrees_wordsToNums (x y' : Tree) (h : y' ∈ subtrees (wordsToNums x)) :
    ∃ y ∈ subtrees x, y' = wordsToNums y := by
  induction x using tree_ind with
  | hl n f =>
    simp only [wordsToNums, subtrees, List.mem_singleton] at h
    exact ⟨leaf n f, self_mem_subtrees _, by rw [h]; rfl⟩
  | hn f ks ih =>
    rw [wordsToNums_node, mem_subtrees_node] at h
    rcases h with rfl | ⟨k', hk', hy⟩
    · exact ⟨node f ks, self_mem_subtrees _, (wordsToNums_node f ks).symm⟩
    · obtain ⟨k, hk, rfl⟩ := List.mem_map.1 hk'
      obtain ⟨y, hy1, hy2⟩ := ih k hk hy
      exact ⟨y, (mem_subtrees_node f ks y).2 (Or.inr ⟨k, hk, hy1⟩), hy2⟩

theorem numWords_wordsToNums (x : Tree) : NumWords (wordsToNums x) := by
  intro n f h
  obtain ⟨y, _, hy⟩ := mem_subtrees_wordsToNums x _ h
  cases y with
  | leaf m g => simp only [wordsToNums, leaf.injEq] at hy; obtain ⟨rfl, rfl⟩ := hy; rfl
  | node g ks => rw [wordsToNums_node] at hy; cases hy

/-- the label the bracket writer prints for a node (tokens: after the parenthesis mapping) -/
def shown (o : OutOpts) : Tree → Str
  | leaf n f => printedLabel o (leaf n (replaceParensFields f))
  | node f ks => printedLabel o (node f ks)

theorem labOKd_iff (o : OutOpts) (y : Tree) : LabOKd o y ↔ goodLabel (shown o y) := by
  cases y <;> exact Iff.rfl

theorem printedLabel_node_congr (o : OutOpts) (f : Fields) (ks ks' : List Tree) (h : ks.isEmpty = ks'.isEmpty) :
    printedLabel o (node f ks) = printedLabel o (node f ks') := by
  cases ks <;> cases ks' <;> first | rfl | simp at h

theorem shown_wordsToNums (o : OutOpts) (y : Tree) : shown o (wordsToNums y) = shown o y := by
  cases y with
  | leaf n f => rfl
  | node f ks =>
    rw [wordsToNums_node]
    exact printedLabel_node_congr o f _ _ (by cases ks <;> rfl)

/-! ### which characters the bracket writer emits -/

theorem bracket_text_chars (o : OutOpts) (c : Char) (hc : c ≠ '(' ∧ c ≠ ')' ∧ c ≠ ' ') (x : Tree) :
    x.noEmpty = true → (∀ y ∈ subtrees x, c ∉ shown o y) →
    (∀ n f, leaf n f ∈ subtrees x → c ∉ (replaceParensFields f).word.getD ['N', 'o', 'n', 'e']) →
    ∀ s, bracketsSub o false x = .ok s → c ∉ s := by
  induction x using tree_ind with
  | hl n f =>
    intro _ hlab hw s hs
    obtain ⟨l, hl, rfl⟩ := bracketsSub_leaf_ok o false n f s hs
    have h1 := hlab _ (self_mem_subtrees _)
    have h2 := hw n f (self_mem_subtrees _)
    simp only [shown, printedLabel_eq_of_ok o _ l hl] at h1
    simp only [List.mem_cons, List.mem_append, List.not_mem_nil, or_false, not_or]
    exact ⟨hc.1, h1, hc.2.2, h2, hc.2.1⟩
  | hn f ks ih =>
    intro hne hlab hw s hs
    obtain ⟨hks, hkne⟩ := (noEmpty_node_iff f ks).1 hne
    obtain ⟨l, parts, hl, hp, rfl⟩ := bracketsSub_node_ok o f ks s hks hs
    obtain ⟨hparts, hsub⟩ := bracketsKids_ok o ks parts hp
    have hT : ((sortBy (·.1) parts).map (·.2)).flatten = (((sortBy leftmost ks).map (strOf o)).flatten) := by
      rw [hparts, sortBy_map_keyed]
    have h1 := hlab _ (self_mem_subtrees _)
    simp only [shown, printedLabel_eq_of_ok o _ l hl] at h1
    rw [hT]
    simp only [List.mem_cons, List.mem_append, List.not_mem_nil, or_false, not_or]
    refine ⟨hc.1, h1, ?_, hc.2.1⟩
    intro hmem
    obtain ⟨sk, hsk, hcs⟩ := List.mem_flatten.1 hmem
    obtain ⟨k, hk, rfl⟩ := List.mem_map.1 hsk
    have hk' : k ∈ ks := (mem_sortBy leftmost ks k).1 hk
    obtain ⟨s0, hs0⟩ := hsub k hk'
    rw [strOf_ok o k s0 hs0] at hcs
    have hsubk : ∀ y ∈ subtrees k, y ∈ subtrees (node f ks) :=
      fun y hy => (mem_subtrees_node f ks y).2 (Or.inr ⟨k, hk', hy⟩)
    exact ih k hk' (hkne k hk') (fun y hy => hlab y (hsubk y hy)) (fun n g hy => hw n g (hsubk _ hy)) s0 hs0 hcs

/-! ### replacing the words of the tokens -/

/-- give every token the word `W num` -/
def setWords (W : Nat → Option Str) (x : Tree) : Tree :=
  Tree.mapFields (fun s f => match s with
    | leaf n _ => { f with word := W n }
    | _ => f) x

theorem setWords_leaf (W : Nat → Option Str) (n : Nat) (f : Fields) : setWords W (leaf n f) = leaf n { f with word := W n } := rfl

theorem setWords_node (W : Nat → Option Str) (f : Fields) (ks : List Tree) :
    setWords W (node f ks) = node f (ks.map (setWords W)) := by
  unfold setWords
  rw [mapFields, OwnRT.mapFieldsL_eq]

theorem leafNums_setWords (W : Nat → Option Str) (x : Tree) : (setWords W x).leafNums = x.leafNums := by
  induction x using tree_ind with
  | hl n f => simp [setWords_leaf, leafNums_leaf]
  | hn f ks ih =>
    rw [setWords_node, leafNums_node, leafNums_node, List.flatMap_map]
    exact flatMap_congr' _ _ ks ih

theorem leftmost_setWords (W : Nat → Option Str) (x : Tree) : leftmost (setWords W x) = leftmost x :=
  leftmost_of_perm _ _ (by rw [leafNums_setWords])

theorem sortKids_setWords (W : Nat → Option Str) (x : Tree) : sortKids (setWords W x) = setWords W (sortKids x) := by
  induction x using tree_ind with
  | hl n f => rfl
  | hn f ks ih =>
    rw [setWords_node, sortKids, sortKids, sortKidsL_eq, sortKidsL_eq, setWords_node, List.map_map]
    have : ks.map (sortKids ∘ setWords W) = (ks.map sortKids).map (setWords W) := by
      rw [List.map_map]; exact List.map_congr_left (fun k hk => ih k hk)
    rw [this, sortBy_map leftmost leftmost (setWords W) (leftmost_setWords W)]

theorem setWords_congr (W W' : Nat → Option Str) (x : Tree) (h : ∀ n ∈ x.leafNums, W n = W' n) :
    setWords W x = setWords W' x := by
  induction x using tree_ind with
  | hl n f => rw [setWords_leaf, setWords_leaf, h n (by simp [leafNums_leaf])]
  | hn f ks ih =>
    rw [setWords_node, setWords_node]
    congr 1
    refine List.map_congr_left (fun k hk => ih k hk (fun n hn => h n ?_))
    rw [leafNums_node]; exact List.mem_flatMap.2 ⟨k, hk, hn⟩

/-- the carried content of the index tree differs from that of the tree in the words only -/
theorem setWords_carry_wordsToNums (o : OutOpts) (W : Nat → Option Str) (r : Bool) (x : Tree) :
    setWords W (carryBrackets o r (wordsToNums x)) = setWords W (carryBrackets o r x) := by
  revert r
  induction x using tree_ind with
  | hl n f => intro r; rfl
  | hn f ks ih =>
    intro r
    rw [wordsToNums_node, carryBrackets, carryBrackets, carryBracketsL_eq, carryBracketsL_eq, setWords_node, setWords_node,
      printedLabel_node_congr o f (ks.map wordsToNums) ks (by cases ks <;> rfl)]
    congr 1
    rw [List.map_map, List.map_map, List.map_map]
    exact List.map_congr_left (fun k hk => ih k hk false)

end TT.Lemmas.More12i
