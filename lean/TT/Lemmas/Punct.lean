/-
  Helper lemmas for C13 (punctuation re-attachment): how `removeLeaf`, `appendBeside`,
  `appendToRoot`, `moveLeafBeside` act on the tokens, the constituent labels, `noEmpty`,
  the parent of a token and the uid parent map.  Core only (no Mathlib).
-/
import TT.Spec.Transform
import TT.Lemmas.Sort
import TT.Lemmas.Nav
import TT.Lemmas.WF
namespace TT.Lemmas.Punct
open TT TT.Tree TT.Spec TT.Lemmas.WF

/-- `ks` directly contains the token numbered `j` -/
abbrev hasKid (j : Nat) (ks : List Tree) : Bool := ks.any (fun k => k.isLeaf && k.num == j)

@[simp] theorem num_leaf (n : Nat) (f : Fields) : (leaf n f).num = n := rfl
@[simp] theorem num_node (f : Fields) (ks : List Tree) : (node f ks).num = 0 := rfl
@[simp] theorem isLeaf_leaf (n : Nat) (f : Fields) : (leaf n f).isLeaf = true := rfl
@[simp] theorem isLeaf_node (f : Fields) (ks : List Tree) : (node f ks).isLeaf = false := rfl
@[simp] theorem kids_leaf (n : Nat) (f : Fields) : (leaf n f).kids = [] := rfl
@[simp] theorem kids_node (f : Fields) (ks : List Tree) : (node f ks).kids = ks := rfl
@[simp] theorem fields_leaf (n : Nat) (f : Fields) : (leaf n f).fields = f := rfl
@[simp] theorem fields_node (f : Fields) (ks : List Tree) : (node f ks).fields = f := rfl

/-! ### generic list facts -/

theorem find?_of_nodup_key {α} (key : α → Nat) (k : Nat) :
    ∀ (l : List α) (x : α), (l.map key).Nodup → x ∈ l → key x = k →
      l.find? (fun a => key a == k) = some x
  | [], _, _, h, _ => by simp at h
  | y :: ys, x, hn, hx, hk => by
    simp only [List.map_cons, List.nodup_cons, List.mem_map, not_exists, not_and] at hn
    rcases List.mem_cons.1 hx with rfl | hx
    · simp [hk]
    · have : key y ≠ k := fun h => hn.1 x hx (by omega)
      rw [List.find?_cons_of_neg (by simpa using this)]
      exact find?_of_nodup_key key k ys x hn.2 hx hk

theorem perm_cons_filter_of_find {α} (key : α → Nat) (k : Nat) :
    ∀ (l : List α) (x : α), (l.map key).Nodup → l.find? (fun a => key a == k) = some x →
      (x :: l.filter (fun a => key a != k)).Perm l
  | [], _, _, h => by simp at h
  | y :: ys, x, hn, hf => by
    simp only [List.map_cons, List.nodup_cons, List.mem_map, not_exists, not_and] at hn
    by_cases hy : key y = k
    · have hx : x = y := by simpa [List.find?_cons, hy] using hf.symm
      subst hx
      have hall : ∀ a ∈ ys, (key a != k) = true := by
        intro a ha
        simp only [bne_iff_ne, ne_eq]
        intro h; exact hn.1 a ha (by omega)
      simp [hy, List.filter_eq_self.2 hall]
    · have hf' : ys.find? (fun a => key a == k) = some x := by
        simpa [List.find?_cons, hy] using hf
      have ih := perm_cons_filter_of_find key k ys x hn.2 hf'
      have : (key y != k) = true := by simpa using hy
      simp only [List.filter_cons, this, ↓reduceIte]
      exact (List.Perm.swap y x _).trans (List.Perm.cons y ih)

/-! ### leaves -/

theorem leavesL_append (a b : List Tree) : leavesL (a ++ b) = leavesL a ++ leavesL b := by
  simp [leavesL_eq]

theorem mem_leaves_isLeaf (t : Tree) : ∀ l ∈ leaves t, ∃ n f, l = leaf n f := by
  induction t using tree_ind with
  | hl n f => intro l hl; simp [leaves] at hl; exact ⟨n, f, hl⟩
  | hn f ks ih =>
    intro l hl
    rw [leaves_node, List.mem_flatMap] at hl
    obtain ⟨k, hk, hl⟩ := hl
    exact ih k hk l hl

theorem mem_leavesL_isLeaf (ks : List Tree) : ∀ l ∈ leavesL ks, ∃ n f, l = leaf n f := by
  intro l hl
  rw [leavesL_eq, List.mem_flatMap] at hl
  obtain ⟨k, _, hl⟩ := hl
  exact mem_leaves_isLeaf k l hl

theorem findLeaf_mem (t : Tree) (k : Nat) (l : Tree) (h : t.findLeaf k = some l) :
    l ∈ t.leaves ∧ l.num = k := by
  unfold findLeaf at h
  exact ⟨List.mem_of_find?_eq_some h, by simpa using List.find?_some h⟩

theorem findLeaf_isLeaf (t : Tree) (k : Nat) (l : Tree) (h : t.findLeaf k = some l) :
    ∃ f, l = leaf k f := by
  obtain ⟨hm, hk⟩ := findLeaf_mem t k l h
  obtain ⟨n, f, rfl⟩ := mem_leaves_isLeaf t l hm
  exact ⟨f, by simpa [num] using hk⟩

theorem findLeaf_some_of_mem (t : Tree) (k : Nat) (h : k ∈ t.leafNums) :
    ∃ l, t.findLeaf k = some l := by
  unfold leafNums at h
  obtain ⟨l, hl, hk⟩ := List.mem_map.1 h
  cases hf : t.findLeaf k with
  | some l' => exact ⟨l', rfl⟩
  | none =>
    unfold findLeaf at hf
    have := List.find?_eq_none.1 hf l hl
    simp [hk] at this

theorem findLeaf_of_mem_nodup (t : Tree) (l : Tree) (hn : t.leafNums.Nodup) (hl : l ∈ t.leaves) :
    t.findLeaf l.num = some l :=
  find?_of_nodup_key num l.num t.leaves l hn hl rfl

/-- with distinct token numbers `findLeaf` only depends on the multiset of tokens -/
theorem findLeaf_of_leaves_perm (t t' : Tree) (hp : t'.leaves.Perm t.leaves) (hn : t.leafNums.Nodup)
    (k : Nat) : t'.findLeaf k = t.findLeaf k := by
  have hn' : t'.leafNums.Nodup := (hp.map num).symm.nodup hn
  cases hf : t.findLeaf k with
  | some l =>
    obtain ⟨hm, hk⟩ := findLeaf_mem t k l hf
    rw [← hk]
    exact findLeaf_of_mem_nodup t' l hn' (hp.symm.subset hm)
  | none =>
    cases hf' : t'.findLeaf k with
    | none => rfl
    | some l' =>
      obtain ⟨hm, hk⟩ := findLeaf_mem t' k l' hf'
      have := findLeaf_of_mem_nodup t l' hn (hp.subset hm)
      rw [hk, hf] at this
      cases this

/-! ### removeLeaf -/

mutual
theorem removeLeafL_leaves_eq (k : Nat) : (ks : List Tree) → ((leavesL ks).map num).Nodup →
    leavesL (removeLeafL k ks) = (leavesL ks).filter (fun l => l.num != k)
  | [], _ => by simp [removeLeafL, leavesL]
  | .leaf n f :: ts, hn => by
    simp only [leavesL, leaves, List.singleton_append, List.map_cons, List.nodup_cons, num_leaf,
      List.mem_map, not_exists, not_and] at hn
    by_cases hnk : n = k
    · subst hnk
      have hall : ∀ a ∈ leavesL ts, (a.num != n) = true := by
        intro a ha
        simp only [bne_iff_ne, ne_eq]
        intro h; exact hn.1 a ha h
      simp [removeLeafL, leavesL, leaves, List.filter_eq_self.2 hall]
    · have ih := removeLeafL_leaves_eq k ts hn.2
      simp [removeLeafL, leavesL, leaves, hnk, ih, List.filter_cons]
  | .node f ks :: ts, hn => by
    simp only [leavesL, leaves, List.map_append, List.nodup_append] at hn
    have ih1 := removeLeafL_leaves_eq k ks hn.1
    have ih2 := removeLeafL_leaves_eq k ts hn.2.1
    simp [removeLeafL, leavesL, leaves, ih1, ih2]
end

theorem removeLeaf_leaves_eq (k : Nat) (t : Tree) (ht : t.isLeaf = false) (hn : t.leafNums.Nodup) :
    (removeLeaf k t).leaves = t.leaves.filter (fun l => l.num != k) := by
  cases t with
  | leaf n f => simp [isLeaf] at ht
  | node f ks =>
    simp only [removeLeaf, leaves]
    exact removeLeafL_leaves_eq k ks hn

theorem removeLeaf_isLeaf (k : Nat) (t : Tree) : (removeLeaf k t).isLeaf = t.isLeaf := by
  cases t <;> simp [removeLeaf, isLeaf]

theorem removeLeaf_leafNums (k : Nat) (t : Tree) (ht : t.isLeaf = false) (hn : t.leafNums.Nodup) :
    (removeLeaf k t).leafNums = t.leafNums.filter (· != k) := by
  unfold leafNums
  rw [removeLeaf_leaves_eq k t ht hn, List.filter_map]
  rfl

theorem removeLeafL_of_not_mem (k : Nat) : (ks : List Tree) → k ∉ (leavesL ks).map num →
    removeLeafL k ks = ks
  | [], _ => by simp [removeLeafL]
  | .leaf n f :: ts, h => by
    simp only [leavesL, leaves, List.singleton_append, List.map_cons, num_leaf, List.mem_cons,
      not_or] at h
    have hnk : ¬ n = k := fun e => h.1 e.symm
    simp [removeLeafL, hnk, removeLeafL_of_not_mem k ts h.2]
  | .node f ks :: ts, h => by
    simp only [leavesL, leaves, List.map_append, List.mem_append, not_or] at h
    simp [removeLeafL, removeLeafL_of_not_mem k ks h.1, removeLeafL_of_not_mem k ts h.2]

theorem removeLeaf_of_not_mem (k : Nat) (t : Tree) (h : k ∉ t.leafNums) : removeLeaf k t = t := by
  cases t with
  | leaf n f => simp [removeLeaf]
  | node f ks => simp only [removeLeaf]; rw [removeLeafL_of_not_mem k ks h]

/-! ### appendBeside -/

theorem hasKid_mem_leafNumsL (j : Nat) (ks : List Tree) (h : hasKid j ks = true) :
    j ∈ (leavesL ks).map num := by
  simp only [hasKid, List.any_eq_true, Bool.and_eq_true, beq_iff_eq] at h
  obtain ⟨k, hk, hl, hj⟩ := h
  cases k with
  | node f ks' => simp at hl
  | leaf n f =>
    simp only [num_leaf] at hj
    subst hj
    rw [leavesL_eq]
    exact List.mem_map.2 ⟨leaf n f, List.mem_flatMap.2 ⟨_, hk, by simp [leaves]⟩, rfl⟩

mutual
theorem appendBeside_of_not_mem (j : Nat) (x : Tree) : (t : Tree) → j ∉ t.leafNums →
    appendBeside j x t = t
  | .leaf n f, _ => by simp [appendBeside]
  | .node f ks, h => by
    have hk : hasKid j ks = false := by
      cases hh : hasKid j ks with
      | false => rfl
      | true => exact absurd (hasKid_mem_leafNumsL j ks hh) h
    simp only [hasKid] at hk
    simp only [appendBeside, hk, Bool.false_eq_true, ↓reduceIte]
    rw [appendBesideL_of_not_mem j x ks h]
theorem appendBesideL_of_not_mem (j : Nat) (x : Tree) : (ks : List Tree) → j ∉ (leavesL ks).map num →
    appendBesideL j x ks = ks
  | [], _ => by simp [appendBesideL]
  | t :: ts, h => by
    simp only [leavesL, List.map_append, List.mem_append, not_or] at h
    simp only [appendBesideL]
    rw [appendBeside_of_not_mem j x t h.1, appendBesideL_of_not_mem j x ts h.2]
end

mutual
theorem appendBeside_leaves_perm (j : Nat) (x : Tree) : (t : Tree) → t.leafNums.Nodup →
    j ∈ t.leafNums → t.isLeaf = false → (appendBeside j x t).leaves.Perm (t.leaves ++ x.leaves)
  | .leaf n f, _, _, ht => by simp at ht
  | .node f ks, hn, hj, _ => by
    simp only [appendBeside]
    split
    · simp only [leaves, leavesL_append, leavesL, List.append_nil]
      exact List.Perm.refl _
    · rename_i hk
      simp only [leaves]
      exact appendBesideL_leaves_perm j x ks hn hj (by simpa using hk)
theorem appendBesideL_leaves_perm (j : Nat) (x : Tree) : (ks : List Tree) →
    ((leavesL ks).map num).Nodup → j ∈ (leavesL ks).map num → hasKid j ks = false →
    (leavesL (appendBesideL j x ks)).Perm (leavesL ks ++ x.leaves)
  | [], _, hj, _ => by simp [leavesL] at hj
  | t :: ts, hn, hj, hk => by
    simp only [hasKid, List.any_cons, Bool.or_eq_false_iff] at hk
    simp only [leavesL, List.map_append, List.nodup_append] at hn
    simp only [leavesL, List.map_append, List.mem_append] at hj
    simp only [appendBesideL, leavesL]
    by_cases hjt : j ∈ (leaves t).map num
    · have hjts : j ∉ (leavesL ts).map num := fun h => hn.2.2 j hjt j h rfl
      rw [appendBesideL_of_not_mem j x ts hjts]
      have htl : t.isLeaf = false := by
        cases t with
        | node f ks => rfl
        | leaf n f =>
          simp only [leaves, List.map_cons, num_leaf, List.map_nil, List.mem_singleton] at hjt
          simp [hjt] at hk
      have ih := appendBeside_leaves_perm j x t hn.1 hjt htl
      refine (ih.append_right _).trans ?_
      rw [List.append_assoc, List.append_assoc]
      exact List.Perm.append_left _ List.perm_append_comm
    · have hjts : j ∈ (leavesL ts).map num := by
        rcases hj with h | h
        · exact absurd h hjt
        · exact h
      rw [appendBeside_of_not_mem j x t hjt]
      have ih := appendBesideL_leaves_perm j x ts hn.2.1 hjts hk.2
      rw [List.append_assoc]
      exact List.Perm.append_left _ ih
end

theorem appendBeside_isLeaf (j : Nat) (x t : Tree) : (appendBeside j x t).isLeaf = t.isLeaf := by
  cases t with
  | leaf n f => simp [appendBeside]
  | node f ks => simp only [appendBeside]; split <;> rfl

/-! ### consLabels -/

theorem consLabelsL_eq : ∀ ks : List Tree, consLabelsL ks = ks.flatMap consLabels
  | [] => by simp [consLabelsL]
  | t :: ts => by simp [consLabelsL, consLabelsL_eq ts]

theorem consLabelsL_append (a b : List Tree) : consLabelsL (a ++ b) = consLabelsL a ++ consLabelsL b := by
  simp [consLabelsL_eq]

mutual
theorem removeLeaf_consLabels (k : Nat) : (t : Tree) → consLabels (removeLeaf k t) = consLabels t
  | .leaf n f => by simp [removeLeaf]
  | .node f ks => by simp [removeLeaf, consLabels, removeLeafL_consLabels k ks]
theorem removeLeafL_consLabels (k : Nat) : (ks : List Tree) →
    consLabelsL (removeLeafL k ks) = consLabelsL ks
  | [] => by simp [removeLeafL]
  | .leaf n f :: ts => by
    by_cases h : n = k
    · simp [removeLeafL, h, consLabelsL, consLabels]
    · simp [removeLeafL, h, consLabelsL, consLabels, removeLeafL_consLabels k ts]
  | .node f ks :: ts => by
    simp [removeLeafL, consLabelsL, consLabels, removeLeafL_consLabels k ks,
      removeLeafL_consLabels k ts]
end

mutual
theorem appendBeside_consLabels (j : Nat) (x : Tree) (hx : consLabels x = []) :
    (t : Tree) → consLabels (appendBeside j x t) = consLabels t
  | .leaf n f => by simp [appendBeside]
  | .node f ks => by
    simp only [appendBeside]
    split
    · simp [consLabels, consLabelsL_append, consLabelsL, hx]
    · simp [consLabels, appendBesideL_consLabels j x hx ks]
theorem appendBesideL_consLabels (j : Nat) (x : Tree) (hx : consLabels x = []) :
    (ks : List Tree) → consLabelsL (appendBesideL j x ks) = consLabelsL ks
  | [] => by simp [appendBesideL]
  | t :: ts => by
    simp [appendBesideL, consLabelsL, appendBeside_consLabels j x hx t,
      appendBesideL_consLabels j x hx ts]
end

theorem appendToRoot_consLabels (t x : Tree) (hx : consLabels x = []) :
    consLabels (appendToRoot t x) = consLabels t := by
  cases t with
  | leaf n f => simp [appendToRoot]
  | node f ks => simp [appendToRoot, consLabels, consLabelsL_append, consLabelsL, hx]

theorem appendToRoot_leaves (f : Fields) (ks : List Tree) (x : Tree) :
    (appendToRoot (node f ks) x).leaves = (node f ks).leaves ++ x.leaves := by
  simp [appendToRoot, leaves, leavesL_append, leavesL]

theorem appendToRoot_isLeaf (t x : Tree) : (appendToRoot t x).isLeaf = t.isLeaf := by
  cases t <;> simp [appendToRoot]

/-! ### moveLeafBeside -/

theorem consLabels_of_findLeaf (t : Tree) (k : Nat) (l : Tree) (h : t.findLeaf k = some l) :
    consLabels l = [] := by
  obtain ⟨f, rfl⟩ := findLeaf_isLeaf t k l h
  simp [consLabels]

theorem moveLeafBeside_leaves_perm (t : Tree) (i j : Nat) (hn : t.leafNums.Nodup)
    (hi : i ∈ t.leafNums) (hj : j ∈ t.leafNums) (hij : i ≠ j) (ht : t.isLeaf = false) :
    (moveLeafBeside t i j).leaves.Perm t.leaves := by
  obtain ⟨l, hl⟩ := findLeaf_some_of_mem t i hi
  obtain ⟨f, rfl⟩ := findLeaf_isLeaf t i l hl
  have hrem := removeLeaf_leafNums i t ht hn
  have hn' : (removeLeaf i t).leafNums.Nodup := by
    rw [hrem]; exact hn.sublist List.filter_sublist
  have hj' : j ∈ (removeLeaf i t).leafNums := by
    rw [hrem]; exact List.mem_filter.2 ⟨hj, by simpa using fun h => hij h.symm⟩
  have ht' : (removeLeaf i t).isLeaf = false := by rw [removeLeaf_isLeaf]; exact ht
  simp only [moveLeafBeside, hl]
  refine (appendBeside_leaves_perm j (leaf i f) _ hn' hj' ht').trans ?_
  simp only [leaves]
  refine List.perm_append_comm.trans ?_
  rw [removeLeaf_leaves_eq i t ht hn]
  exact perm_cons_filter_of_find num i t.leaves (leaf i f) hn hl

theorem moveLeafBeside_consLabels_eq (t : Tree) (i j : Nat) :
    consLabels (moveLeafBeside t i j) = consLabels t := by
  unfold moveLeafBeside
  split
  · rename_i l hl
    rw [appendBeside_consLabels j l (consLabels_of_findLeaf t i l hl), removeLeaf_consLabels]
  · rfl

theorem moveLeafBeside_isLeaf (t : Tree) (i j : Nat) : (moveLeafBeside t i j).isLeaf = t.isLeaf := by
  unfold moveLeafBeside
  split
  · rw [appendBeside_isLeaf, removeLeaf_isLeaf]
  · rfl

/-! ### the parent of a token -/

theorem parentOfLeafL_eq_some (j : Nat) : ∀ (ks : List Tree) (p : Tree), parentOfLeafL j ks = some p →
    ∃ k ∈ ks, parentOfLeaf j k = some p
  | [], p, h => by simp [parentOfLeafL] at h
  | t :: ts, p, h => by
    simp only [parentOfLeafL] at h
    split at h
    · rename_i q hq
      cases h
      exact ⟨t, List.mem_cons_self, hq⟩
    · obtain ⟨k, hk, hp⟩ := parentOfLeafL_eq_some j ts p h
      exact ⟨k, List.mem_cons_of_mem _ hk, hp⟩

/-- the parent found is a constituent of the tree that directly contains the token -/
theorem parentOfLeaf_spec (j : Nat) (t : Tree) : ∀ p, parentOfLeaf j t = some p →
    p ∈ subtrees t ∧ ∃ f ks, p = node f ks ∧ hasKid j ks = true := by
  induction t using tree_ind with
  | hl n f => intro p h; simp [parentOfLeaf] at h
  | hn f ks ih =>
    intro p h
    simp only [parentOfLeaf] at h
    split at h
    · rename_i hk
      cases h
      exact ⟨self_mem_subtrees _, f, ks, rfl, hk⟩
    · obtain ⟨k, hk, hp⟩ := parentOfLeafL_eq_some j ks p h
      obtain ⟨h1, h2⟩ := ih k hk p hp
      exact ⟨(mem_subtrees_node f ks p).2 (Or.inr ⟨k, hk, h1⟩), h2⟩

theorem hasKid_iff (j : Nat) (ks : List Tree) : hasKid j ks = true ↔ ∃ f, leaf j f ∈ ks := by
  simp only [hasKid, List.any_eq_true, Bool.and_eq_true, beq_iff_eq]
  constructor
  · rintro ⟨k, hk, hl, hj⟩
    cases k with
    | node f ks' => simp at hl
    | leaf n f => simp only [num_leaf] at hj; subst hj; exact ⟨f, hk⟩
  · rintro ⟨f, hf⟩
    exact ⟨_, hf, rfl, rfl⟩

theorem leaves_subset_of_mem_subtrees (t : Tree) : ∀ s ∈ subtrees t, ∀ l ∈ leaves s, l ∈ leaves t := by
  induction t using tree_ind with
  | hl n f => intro s hs; simp [subtrees] at hs; subst hs; exact fun l h => h
  | hn f ks ih =>
    intro s hs l hl
    rcases (mem_subtrees_node f ks s).1 hs with rfl | ⟨k, hk, hsk⟩
    · exact hl
    · rw [leaves_node, List.mem_flatMap]
      exact ⟨k, hk, ih k hk s hsk l hl⟩

/-- the token found below the parent is a token of the tree -/
theorem parentOfLeaf_kid_mem_leaves (j : Nat) (t p : Tree) (h : parentOfLeaf j t = some p) :
    ∃ f, leaf j f ∈ p.kids ∧ leaf j f ∈ t.leaves := by
  obtain ⟨hs, f, ks, rfl, hk⟩ := parentOfLeaf_spec j t p h
  obtain ⟨g, hg⟩ := (hasKid_iff j ks).1 hk
  refine ⟨g, hg, leaves_subset_of_mem_subtrees t _ hs _ ?_⟩
  rw [leaves_node, List.mem_flatMap]
  exact ⟨_, hg, by simp [leaves]⟩

theorem parentOfLeaf_mem_leafNums (j : Nat) (t p : Tree) (h : parentOfLeaf j t = some p) :
    j ∈ t.leafNums ∧ j ∈ p.leafNums := by
  obtain ⟨f, hk, hl⟩ := parentOfLeaf_kid_mem_leaves j t p h
  refine ⟨List.mem_map.2 ⟨_, hl, rfl⟩, ?_⟩
  obtain ⟨_, f', ks, rfl, _⟩ := parentOfLeaf_spec j t p h
  rw [leafNums_node, List.mem_flatMap]
  exact ⟨_, hk, by simp [leafNums_leaf]⟩

mutual
theorem parentOfLeaf_isSome (j : Nat) : (t : Tree) → t.isLeaf = false → j ∈ t.leafNums →
    ∃ p, parentOfLeaf j t = some p
  | .leaf n f, ht, _ => by simp at ht
  | .node f ks, _, hj => by
    simp only [parentOfLeaf]
    split
    · exact ⟨_, rfl⟩
    · rename_i hk
      exact parentOfLeafL_isSome j ks (by simpa using hk) hj
theorem parentOfLeafL_isSome (j : Nat) : (ks : List Tree) → hasKid j ks = false →
    j ∈ (leavesL ks).map num → ∃ p, parentOfLeafL j ks = some p
  | [], _, hj => by simp [leavesL] at hj
  | t :: ts, hk, hj => by
    simp only [hasKid, List.any_cons, Bool.or_eq_false_iff] at hk
    simp only [leavesL, List.map_append, List.mem_append] at hj
    simp only [parentOfLeafL]
    cases hp : parentOfLeaf j t with
    | some p => exact ⟨p, rfl⟩
    | none =>
      simp only
      rcases hj with hj | hj
      · have htl : t.isLeaf = false := by
          cases t with
          | node f ks => rfl
          | leaf n f =>
            simp only [leaves, List.map_cons, num_leaf, List.map_nil, List.mem_singleton] at hj
            simp [hj] at hk
        obtain ⟨p, hp'⟩ := parentOfLeaf_isSome j t htl hj
        rw [hp] at hp'; cases hp'
      · exact parentOfLeafL_isSome j ts hk.2 hj
end

/-! ### noEmpty -/

theorem noEmptyL_append (a b : List Tree) : noEmptyL (a ++ b) = (noEmptyL a && noEmptyL b) := by
  induction a with
  | nil => simp [noEmptyL]
  | cons x xs ih => simp [noEmptyL, ih, Bool.and_assoc]

/-- with distinct numbers, removing a token that is directly in `ks` removes exactly that entry -/
theorem removeLeafL_split (i : Nat) : (ks : List Tree) → ((leavesL ks).map num).Nodup →
    hasKid i ks = true → ∃ a b f, ks = a ++ leaf i f :: b ∧ removeLeafL i ks = a ++ b
  | [], _, hk => by simp at hk
  | .leaf n f :: ts, hn, hk => by
    by_cases hni : n = i
    · subst hni
      exact ⟨[], ts, f, rfl, by simp [removeLeafL]⟩
    · simp only [leavesL, leaves, List.singleton_append, List.map_cons, List.nodup_cons] at hn
      have hk' : hasKid i ts = true := by simpa [hasKid, hni] using hk
      obtain ⟨a, b, g, h1, h2⟩ := removeLeafL_split i ts hn.2 hk'
      exact ⟨leaf n f :: a, b, g, by simp [h1], by simp [removeLeafL, hni, h2]⟩
  | .node f ks :: ts, hn, hk => by
    simp only [leavesL, leaves, List.map_append, List.nodup_append] at hn
    have hk' : hasKid i ts = true := by simpa [hasKid] using hk
    have hi : i ∉ (leavesL ks).map num := fun h =>
      hn.2.2 i h i (hasKid_mem_leafNumsL i ts hk') rfl
    obtain ⟨a, b, g, h1, h2⟩ := removeLeafL_split i ts hn.2.1 hk'
    exact ⟨node f ks :: a, b, g, by simp [h1],
      by simp [removeLeafL, removeLeafL_of_not_mem i ks hi, h2]⟩

theorem removeLeafL_length (i : Nat) : (ks : List Tree) → hasKid i ks = false →
    (removeLeafL i ks).length = ks.length
  | [], _ => by simp [removeLeafL]
  | .leaf n f :: ts, hk => by
    simp only [hasKid, List.any_cons, Bool.or_eq_false_iff, isLeaf_leaf, num_leaf, Bool.true_and,
      beq_eq_false_iff_ne, ne_eq] at hk
    simp [removeLeafL, hk.1, removeLeafL_length i ts hk.2]
  | .node f ks :: ts, hk => by
    simp only [hasKid, List.any_cons, Bool.or_eq_false_iff] at hk
    simp [removeLeafL, removeLeafL_length i ts hk.2]

mutual
/-- removing a token whose parent has another child leaves no constituent childless -/
theorem removeLeaf_noEmpty (i : Nat) : (t : Tree) → t.noEmpty = true → t.leafNums.Nodup →
    (∀ p, parentOfLeaf i t = some p → 2 ≤ p.kids.length) → (removeLeaf i t).noEmpty = true
  | .leaf n f, _, _, _ => by simp [removeLeaf, noEmpty]
  | .node f ks, hne, hn, hp => by
    simp only [noEmpty, Bool.and_eq_true, Bool.not_eq_true', List.isEmpty_eq_false_iff] at hne
    simp only [removeLeaf, noEmpty, Bool.and_eq_true, Bool.not_eq_true', List.isEmpty_eq_false_iff]
    cases hk : hasKid i ks with
    | true =>
      have h2 := hp (node f ks) (by simp only [parentOfLeaf]; rw [if_pos hk])
      simp only [kids_node] at h2
      obtain ⟨a, b, g, h1, h3⟩ := removeLeafL_split i ks hn hk
      rw [h3]
      rw [h1, noEmptyL_append] at hne
      simp only [noEmptyL, noEmpty, Bool.true_and, Bool.and_eq_true] at hne
      rw [h1] at h2
      refine ⟨?_, ?_⟩
      · intro h
        simp only [List.append_eq_nil_iff] at h
        simp [h.1, h.2] at h2
      · rw [noEmptyL_append, hne.2.1, hne.2.2]; rfl
    | false =>
      have hp' : ∀ p, parentOfLeafL i ks = some p → 2 ≤ p.kids.length := by
        intro p h
        refine hp p ?_
        simp only [parentOfLeaf]
        rw [if_neg (by simpa using hk)]
        exact h
      refine ⟨?_, removeLeafL_noEmpty i ks hne.2 hn hk hp'⟩
      intro h
      have := removeLeafL_length i ks hk
      rw [h] at this
      exact hne.1 (List.eq_nil_of_length_eq_zero this.symm)
theorem removeLeafL_noEmpty (i : Nat) : (ks : List Tree) → noEmptyL ks = true →
    ((leavesL ks).map num).Nodup → hasKid i ks = false →
    (∀ p, parentOfLeafL i ks = some p → 2 ≤ p.kids.length) → noEmptyL (removeLeafL i ks) = true
  | [], _, _, _, _ => by simp [removeLeafL, noEmptyL]
  | .leaf n f :: ts, hne, hn, hk, hp => by
    simp only [hasKid, List.any_cons, Bool.or_eq_false_iff, isLeaf_leaf, num_leaf, Bool.true_and,
      beq_eq_false_iff_ne, ne_eq] at hk
    simp only [leavesL, leaves, List.singleton_append, List.map_cons, List.nodup_cons] at hn
    simp only [noEmptyL, noEmpty, Bool.true_and] at hne
    have hp' : ∀ p, parentOfLeafL i ts = some p → 2 ≤ p.kids.length := by
      intro p h
      exact hp p (by simp only [parentOfLeafL, parentOfLeaf]; exact h)
    simp [removeLeafL, hk.1, noEmptyL, noEmpty, removeLeafL_noEmpty i ts hne hn.2 hk.2 hp']
  | .node f ks :: ts, hne, hn, hk, hp => by
    simp only [hasKid, List.any_cons, Bool.or_eq_false_iff] at hk
    simp only [leavesL, leaves, List.map_append, List.nodup_append] at hn
    simp only [noEmptyL, Bool.and_eq_true] at hne
    simp only [removeLeafL, noEmptyL, Bool.and_eq_true]
    cases hq : parentOfLeaf i (node f ks) with
    | some q =>
      have hi := (parentOfLeaf_mem_leafNums i _ q hq).1
      have hi' : i ∉ (leavesL ts).map num := fun h => hn.2.2 i hi i h rfl
      rw [removeLeafL_of_not_mem i ts hi']
      refine ⟨?_, hne.2⟩
      have := removeLeaf_noEmpty i (node f ks) hne.1 hn.1 (by
        intro p h
        refine hp p ?_
        simp only [parentOfLeafL]
        rw [h])
      simpa [removeLeaf] using this
    | none =>
      refine ⟨?_, ?_⟩
      · have := removeLeaf_noEmpty i (node f ks) hne.1 hn.1 (by
          intro p h; rw [hq] at h; cases h)
        simpa [removeLeaf] using this
      · refine removeLeafL_noEmpty i ts hne.2 hn.2.1 hk.2 ?_
        intro p h
        refine hp p ?_
        simp only [parentOfLeafL]
        rw [hq]
        exact h
end

mutual
theorem appendBeside_noEmpty (j : Nat) (x : Tree) (hx : x.noEmpty = true) : (t : Tree) →
    t.noEmpty = true → (appendBeside j x t).noEmpty = true
  | .leaf n f, _ => by simp [appendBeside, noEmpty]
  | .node f ks, h => by
    simp only [noEmpty, Bool.and_eq_true, Bool.not_eq_true', List.isEmpty_eq_false_iff] at h
    simp only [appendBeside]
    split
    · simp [noEmpty, noEmptyL_append, noEmptyL, h.2, hx]
    · simp only [noEmpty, Bool.and_eq_true, Bool.not_eq_true', List.isEmpty_eq_false_iff]
      refine ⟨?_, appendBesideL_noEmpty j x hx ks h.2⟩
      cases ks with
      | nil => exact absurd rfl h.1
      | cons k ks => simp [appendBesideL]
theorem appendBesideL_noEmpty (j : Nat) (x : Tree) (hx : x.noEmpty = true) : (ks : List Tree) →
    noEmptyL ks = true → noEmptyL (appendBesideL j x ks) = true
  | [], _ => by simp [appendBesideL, noEmptyL]
  | t :: ts, h => by
    simp only [noEmptyL, Bool.and_eq_true] at h
    simp [appendBesideL, noEmptyL, appendBeside_noEmpty j x hx t h.1,
      appendBesideL_noEmpty j x hx ts h.2]
end

theorem appendToRoot_noEmpty (t x : Tree) (hx : x.noEmpty = true) (h : t.noEmpty = true) :
    (appendToRoot t x).noEmpty = true := by
  cases t with
  | leaf n f => simp [appendToRoot, noEmpty]
  | node f ks =>
    simp only [noEmpty, Bool.and_eq_true] at h
    simp [appendToRoot, noEmpty, noEmptyL_append, noEmptyL, h.2, hx]

/-! ### token numbers of a well-formed tree -/

theorem WF_yield (t : Tree) (h : WF t = true) : yield t = List.range' 1 t.leafNums.length := by
  rw [Nav.yield_eq]; exact ((WF_iff t).1 h).2.2.1

theorem WF_mem_leafNums (t : Tree) (h : WF t = true) (i : Nat) :
    i ∈ t.leafNums ↔ 1 ≤ i ∧ i ≤ t.leafNums.length := by
  rw [← mem_yield, WF_yield t h, List.mem_range'_1]; omega

theorem foldl_inv {α β} (P : β → Prop) (f : β → α → β) :
    ∀ (l : List α) (b : β), (∀ b a, a ∈ l → P b → P (f b a)) → P b → P (l.foldl f b)
  | [], b, _, hb => hb
  | a :: l, b, h, hb => by
    simp only [List.foldl_cons]
    exact foldl_inv P f l (f b a) (fun b' a' ha' => h b' a' (List.mem_cons_of_mem _ ha'))
      (h b a List.mem_cons_self hb)

/-- state invariant of the punctuation folds, relative to the input `t` -/
structure Inv (t cur : Tree) : Prop where
  perm : cur.leaves.Perm t.leaves
  isNode : cur.isLeaf = false
  ne : cur.noEmpty = true

theorem Inv.refl (t : Tree) (h : WF t = true) : Inv t t :=
  ⟨List.Perm.refl _, ((WF_iff t).1 h).1, WF_noEmpty t h⟩

theorem Inv.permNums {t cur : Tree} (h : Inv t cur) : cur.leafNums.Perm t.leafNums := h.perm.map num

theorem Inv.nodup {t cur : Tree} (h : Inv t cur) (hn : t.leafNums.Nodup) : cur.leafNums.Nodup :=
  h.permNums.symm.nodup hn

theorem Inv.mem {t cur : Tree} (h : Inv t cur) (i : Nat) : i ∈ cur.leafNums ↔ i ∈ t.leafNums :=
  h.permNums.mem_iff

theorem Inv.findLeaf {t cur : Tree} (h : Inv t cur) (hn : t.leafNums.Nodup) (k : Nat) :
    cur.findLeaf k = t.findLeaf k := findLeaf_of_leaves_perm t cur h.perm hn k

theorem Inv.WF {t cur : Tree} (h : Inv t cur) (hw : WF t = true) : WF cur = true :=
  WF_of_perm t cur hw h.permNums h.ne h.isNode

theorem moveLeafBeside_noEmpty (t : Tree) (i j : Nat) (hne : t.noEmpty = true) (hn : t.leafNums.Nodup)
    (hp : ∀ p, parentOfLeaf i t = some p → 2 ≤ p.kids.length) :
    (moveLeafBeside t i j).noEmpty = true := by
  unfold moveLeafBeside
  split
  · rename_i l hl
    obtain ⟨f, rfl⟩ := findLeaf_isLeaf t i l hl
    exact appendBeside_noEmpty j _ (by simp [noEmpty]) _ (removeLeaf_noEmpty i t hne hn hp)
  · exact hne

theorem moveLeafBeside_inv {t cur : Tree} (h : Inv t cur) (hn : t.leafNums.Nodup) (i j : Nat)
    (hi : i ∈ t.leafNums) (hj : j ∈ t.leafNums) (hij : i ≠ j)
    (hp : ∀ p, parentOfLeaf i cur = some p → 2 ≤ p.kids.length) : Inv t (moveLeafBeside cur i j) :=
  ⟨(moveLeafBeside_leaves_perm cur i j (h.nodup hn) ((h.mem i).2 hi) ((h.mem j).2 hj) hij
      h.isNode).trans h.perm,
    by rw [moveLeafBeside_isLeaf]; exact h.isNode,
    moveLeafBeside_noEmpty cur i j h.ne (h.nodup hn) hp⟩

theorem two_le_length_of_mem_ne {α} (l : List α) (a b : α) (ha : a ∈ l) (hb : b ∈ l) (hab : a ≠ b) :
    2 ≤ l.length := by
  match l, ha, hb with
  | [], ha, _ => simp at ha
  | [x], ha, hb =>
    simp only [List.mem_singleton] at ha hb
    exact absurd (ha.trans hb.symm) hab
  | _ :: _ :: _, _, _ => simp

/-- the parent of a punctuation token that is not all punctuation has another child -/
theorem two_le_of_not_allPunct (cur : Tree) (i : Nat) (hn : cur.leafNums.Nodup) (l : Tree)
    (hl : cur.findLeaf i = some l) (hpl : isPunctWord l = true) (hap : parentAllPunct cur i = false) :
    ∀ p, parentOfLeaf i cur = some p → 2 ≤ p.kids.length := by
  intro p hp
  simp only [parentAllPunct, hp, List.all_eq_false] at hap
  obtain ⟨k, hk, hkp⟩ := hap
  obtain ⟨g, hg, hgl⟩ := parentOfLeaf_kid_mem_leaves i cur p hp
  have := findLeaf_of_mem_nodup cur _ hn hgl
  simp only [num_leaf] at this
  rw [hl] at this
  cases this
  refine two_le_length_of_mem_ne _ _ _ hk hg ?_
  rintro rfl
  exact hkp hpl

theorem verylowStep_inv {t cur : Tree} (h : Inv t cur) (hn : t.leafNums.Nodup) (i : Nat)
    (hi : i ∈ t.leafNums) (hj : i - 1 ∈ t.leafNums) (h2 : 2 ≤ i)
    (hl : ∃ l, t.findLeaf i = some l ∧ isPunctWord l = true) : Inv t (verylowStep cur i) := by
  unfold verylowStep
  split
  · exact h
  · rename_i hap
    split
    · exact h
    · obtain ⟨l, hl, hpl⟩ := hl
      refine moveLeafBeside_inv h hn i (i - 1) hi hj (by omega) ?_
      exact two_le_of_not_allPunct cur i (h.nodup hn) l (by rw [h.findLeaf hn]; exact hl) hpl
        (by simpa using hap)

/-- candidates of `punctuationVerylow` on a well-formed tree -/
def verylowCands (t : Tree) : List Nat := ((t.terminals.drop 1).filter isPunctWord).map num

theorem mem_terminals (t : Tree) (l : Tree) : l ∈ t.terminals ↔ l ∈ t.leaves := mem_sortBy num _ l

theorem verylowCands_spec (t : Tree) (h : WF t = true) :
    (verylowCands t).Pairwise (· < ·) ∧
    ∀ i ∈ verylowCands t, 2 ≤ i ∧ i ∈ t.leafNums ∧ i - 1 ∈ t.leafNums ∧
      ∃ l, t.findLeaf i = some l ∧ isPunctWord l = true := by
  have hy := WF_yield t h
  have hnd := WF_nodup t h
  constructor
  · have hs : (verylowCands t).Sublist (yield t) := by
      unfold verylowCands yield
      exact (List.filter_sublist.trans (List.drop_sublist 1 _)).map num
    rw [hy] at hs
    exact List.Pairwise.sublist hs List.pairwise_lt_range'
  · intro i hi
    unfold verylowCands at hi
    obtain ⟨l, hl, rfl⟩ := List.mem_map.1 hi
    obtain ⟨hl1, hlp⟩ := List.mem_filter.1 hl
    have hmem : l.num ∈ (yield t).drop 1 := by
      unfold yield
      rw [← List.map_drop]
      exact List.mem_map_of_mem hl1
    rw [hy, List.drop_range', List.mem_range'_1] at hmem
    have hl2 : l ∈ t.leaves := (mem_terminals t l).1 (List.mem_of_mem_drop hl1)
    refine ⟨by omega, (WF_mem_leafNums t h _).2 (by omega), (WF_mem_leafNums t h _).2 (by omega),
      l, findLeaf_of_mem_nodup t l hnd hl2, hlp⟩

theorem verylow_inv (t : Tree) (h : WF t = true) : Inv t (punctuationVerylow t) := by
  have hc := (verylowCands_spec t h).2
  have hnd := WF_nodup t h
  show Inv t ((verylowCands t).foldl verylowStep t)
  refine foldl_inv (Inv t) verylowStep _ t ?_ (Inv.refl t h)
  intro cur i hi hcur
  obtain ⟨h2, hi1, hi2, hl⟩ := hc i hi
  exact verylowStep_inv hcur hnd i hi1 hi2 h2 hl

/-! ### root -/

theorem rootStep_inv {t cur : Tree} (h : Inv t cur) (hn : t.leafNums.Nodup) (i : Nat) :
    Inv t (rootStep cur i) := by
  unfold rootStep
  split
  · rename_i har
    split
    · rename_i l hl
      obtain ⟨f, rfl⟩ := findLeaf_isLeaf cur i _ hl
      have hcn := h.nodup hn
      have hne : (removeLeaf i cur).noEmpty = true := by
        refine removeLeaf_noEmpty i cur h.ne hcn ?_
        intro p hp
        simp only [parentArity, hp] at har
        omega
      refine ⟨?_, by rw [appendToRoot_isLeaf, removeLeaf_isLeaf]; exact h.isNode,
        appendToRoot_noEmpty _ _ (by simp [noEmpty]) hne⟩
      refine List.Perm.trans ?_ h.perm
      have hnode := h.isNode
      cases hc : cur with
      | leaf n f => rw [hc] at hnode; simp at hnode
      | node g ks =>
        rw [hc] at hl hcn
        simp only [removeLeaf]
        rw [appendToRoot_leaves]
        refine List.perm_append_comm.trans ?_
        have := removeLeaf_leaves_eq i (node g ks) rfl hcn
        simp only [removeLeaf] at this
        rw [this]
        exact perm_cons_filter_of_find num i _ _ hcn hl
    · exact h
  · exact h

theorem root_inv (t : Tree) (h : WF t = true) : Inv t (punctuationRoot t) := by
  have hnd := WF_nodup t h
  unfold punctuationRoot
  refine foldl_inv (Inv t) rootStep _ t ?_ (Inv.refl t h)
  intro cur i _ hcur
  exact rootStep_inv hcur hnd i

/-! ### symetrify -/

/-- the two outcomes of `symPull` -/
theorem symPull_cases (first last : Nat) (s : SymState) (i : Nat) (left : Bool) :
    symPull first last s i left = s ∨
    ∃ p cand, parentOfLeaf i s.cur = some p ∧
      cand = (if left then leftmost p - 1 else rightmost p + 1) ∧
      wordIsPair s.cur cand = true ∧ s.done.contains cand = false ∧ parentArity s.cur cand > 1 ∧
      symPull first last s i left =
        { cur := moveLeafBeside s.cur cand i, done := s.done ++ [cand, i] } := by
  unfold symPull
  cases hp : parentOfLeaf i s.cur with
  | none => exact Or.inl rfl
  | some p =>
    simp only
    by_cases h1 : ((left && (if left then leftmost p else rightmost p) == first) ||
        (!left && (if left then leftmost p else rightmost p) == last)) = true
    · rw [if_pos h1]; exact Or.inl rfl
    · rw [if_neg h1]
      by_cases h2 : (wordIsPair s.cur (if left then (if left then leftmost p else rightmost p) - 1
            else (if left then leftmost p else rightmost p) + 1) &&
          !s.done.contains (if left then (if left then leftmost p else rightmost p) - 1
            else (if left then leftmost p else rightmost p) + 1) &&
          decide (parentArity s.cur (if left then (if left then leftmost p else rightmost p) - 1
            else (if left then leftmost p else rightmost p) + 1) > 1)) = true
      · rw [if_pos h2]
        refine Or.inr ⟨p, _, rfl, ?_, ?_, ?_, ?_, rfl⟩
        · cases left <;> simp
        all_goals
          simp only [Bool.and_eq_true, Bool.not_eq_true', decide_eq_true_eq] at h2
        · exact h2.1.1
        · exact h2.1.2
        · exact h2.2
      · rw [if_neg h2]; exact Or.inl rfl

theorem symPull_inv {t : Tree} (hw : WF t = true) (first last : Nat) (s : SymState) (i : Nat)
    (left : Bool) (h : Inv t s.cur) : Inv t (symPull first last s i left).cur := by
  have hnd := WF_nodup t hw
  rcases symPull_cases first last s i left with he | ⟨p, cand, hp, hcd, hpair, _, har, he⟩
  · rw [he]; exact h
  · rw [he]
    simp only
    have hcand : cand ∈ t.leafNums := by
      unfold wordIsPair at hpair
      split at hpair
      · rename_i l hl
        obtain ⟨hm, hk⟩ := findLeaf_mem s.cur cand l hl
        exact (h.mem cand).1 (List.mem_map.2 ⟨l, hm, hk⟩)
      · cases hpair
    obtain ⟨hic, hip⟩ := parentOfLeaf_mem_leafNums i s.cur p hp
    have hps : ∀ n ∈ p.leafNums, n ∈ t.leafNums := by
      intro n hn
      obtain ⟨l, hl, rfl⟩ := List.mem_map.1 hn
      refine (h.mem _).1 (List.mem_map.2 ⟨l, ?_, rfl⟩)
      exact leaves_subset_of_mem_subtrees s.cur p (parentOfLeaf_spec i s.cur p hp).1 l hl
    have hpne : p.leafNums ≠ [] := List.ne_nil_of_mem hip
    refine moveLeafBeside_inv h hnd _ i hcand ((h.mem i).1 hic) ?_ ?_
    · cases left with
      | true =>
        simp only [↓reduceIte] at hcd
        have h1 := leftmost_le p i hip
        have h2 := (WF_mem_leafNums t hw _).1 (hps _ (leftmost_mem p hpne))
        omega
      | false =>
        simp only [Bool.false_eq_true, ↓reduceIte] at hcd
        have h1 := le_rightmost p i hip
        omega
    · intro q hq
      simp only [parentArity, hq] at har
      omega

theorem symStep_inv {t : Tree} (hw : WF t = true) (first last : Nat) (s : SymState) (i : Nat)
    (h : Inv t s.cur) : Inv t (symStep first last s i).cur := by
  unfold symStep
  split
  · exact h
  · simp only
    split
    · exact symPull_inv hw first last s i true h
    · exact symPull_inv hw first last _ i false (symPull_inv hw first last s i true h)

theorem sym_inv (relc : Option Str) (t : Tree) (h : WF t = true) :
    Inv t (punctuationSymetrify relc t) := by
  unfold punctuationSymetrify
  simp only
  refine foldl_inv (fun (s : SymState) => Inv t s.cur) _ _ _ ?_ (Inv.refl t h)
  intro s i _ hs
  exact symStep_inv h _ _ s i hs

/-! ### consLabels of the three transformations -/

theorem verylowStep_consLabels (cur : Tree) (i : Nat) :
    consLabels (verylowStep cur i) = consLabels cur := by
  unfold verylowStep
  split
  · rfl
  · split
    · rfl
    · exact moveLeafBeside_consLabels_eq cur i (i - 1)

theorem rootStep_consLabels (cur : Tree) (i : Nat) :
    consLabels (rootStep cur i) = consLabels cur := by
  unfold rootStep
  split
  · split
    · rename_i l hl
      rw [appendToRoot_consLabels _ _ (consLabels_of_findLeaf cur i l hl), removeLeaf_consLabels]
    · rfl
  · rfl

theorem symPull_consLabels (first last : Nat) (s : SymState) (i : Nat) (left : Bool) :
    consLabels (symPull first last s i left).cur = consLabels s.cur := by
  rcases symPull_cases first last s i left with he | ⟨p, cand, _, _, _, _, _, he⟩
  · rw [he]
  · rw [he]; exact moveLeafBeside_consLabels_eq _ _ _

theorem symStep_consLabels (first last : Nat) (s : SymState) (i : Nat) :
    consLabels (symStep first last s i).cur = consLabels s.cur := by
  unfold symStep
  split
  · rfl
  · simp only
    split
    · exact symPull_consLabels first last s i true
    · rw [symPull_consLabels, symPull_consLabels]

/-! ### how the parent of a token changes when another token is moved -/

theorem eq_of_nodup_flatMap {α β} (f : α → List β) : ∀ (l : List α), (l.flatMap f).Nodup →
    ∀ a ∈ l, ∀ b ∈ l, ∀ x, x ∈ f a → x ∈ f b → a = b
  | [], _, a, ha, _, _, _, _, _ => by simp at ha
  | y :: ys, hn, a, ha, b, hb, x, hxa, hxb => by
    simp only [List.flatMap_cons, List.nodup_append] at hn
    rcases List.mem_cons.1 ha with rfl | ha' <;> rcases List.mem_cons.1 hb with rfl | hb'
    · rfl
    · exact absurd rfl (hn.2.2 x hxa x (List.mem_flatMap.2 ⟨b, hb', hxb⟩))
    · exact absurd rfl (hn.2.2 x hxb x (List.mem_flatMap.2 ⟨a, ha', hxa⟩))
    · exact eq_of_nodup_flatMap f ys hn.2.1 a ha' b hb' x hxa hxb

theorem hasKid_removeLeafL (a c : Nat) (h : a ≠ c) : (ks : List Tree) →
    hasKid a (removeLeafL c ks) = hasKid a ks
  | [] => by simp [removeLeafL]
  | .leaf n f :: ts => by
    by_cases hn : n = c
    · subst hn
      have : (n == a) = false := by simpa using fun e => h e.symm
      simp [removeLeafL, hasKid, this]
    · have ih := hasKid_removeLeafL a c h ts
      simp only [hasKid] at ih
      simp [removeLeafL, hn, hasKid, ih]
  | .node f ks :: ts => by
    have ih := hasKid_removeLeafL a c h ts
    simp only [hasKid] at ih
    simp [removeLeafL, hasKid, ih]

theorem appendBeside_num (j : Nat) (x t : Tree) : (appendBeside j x t).num = t.num := by
  cases t with
  | leaf n f => simp [appendBeside]
  | node f ks => simp only [appendBeside]; split <;> rfl

theorem appendBeside_fields (j : Nat) (x t : Tree) : (appendBeside j x t).fields = t.fields := by
  cases t with
  | leaf n f => simp [appendBeside]
  | node f ks => simp only [appendBeside]; split <;> rfl

theorem appendBesideL_eq_map (j : Nat) (x : Tree) : ∀ ks : List Tree,
    appendBesideL j x ks = ks.map (appendBeside j x)
  | [] => by simp [appendBesideL]
  | t :: ts => by simp [appendBesideL, appendBesideL_eq_map j x ts]

theorem hasKid_appendBesideL (a j : Nat) (x : Tree) (ks : List Tree) :
    hasKid a (appendBesideL j x ks) = hasKid a ks := by
  simp [hasKid, appendBesideL_eq_map, List.any_map, Function.comp_def, appendBeside_isLeaf,
    appendBeside_num]

theorem hasKid_append_leaf (a m : Nat) (g : Fields) (ks : List Tree) :
    hasKid a (ks ++ [leaf m g]) = (hasKid a ks || m == a) := by
  simp [hasKid]

theorem parentOfLeafL_append_leaf (a m : Nat) (g : Fields) : (ks : List Tree) →
    parentOfLeafL a (ks ++ [leaf m g]) = parentOfLeafL a ks
  | [] => by simp [parentOfLeafL, parentOfLeaf]
  | t :: ts => by
    simp only [List.cons_append, parentOfLeafL, parentOfLeafL_append_leaf a m g ts]

/-- the parent found below `ks` only contains tokens of `ks` -/
theorem parentOfLeafL_leafNums_subset (a : Nat) (ks : List Tree) (p : Tree)
    (h : parentOfLeafL a ks = some p) : ∃ k ∈ ks, k.isLeaf = false ∧ ∀ n ∈ p.leafNums, n ∈ k.leafNums := by
  obtain ⟨k, hk, hp⟩ := parentOfLeafL_eq_some a ks p h
  refine ⟨k, hk, ?_, ?_⟩
  · cases k with
    | leaf n f => simp [parentOfLeaf] at hp
    | node f ks => rfl
  · intro n hn
    obtain ⟨l, hl, rfl⟩ := List.mem_map.1 hn
    exact List.mem_map.2 ⟨l, leaves_subset_of_mem_subtrees k p (parentOfLeaf_spec a k p hp).1 l hl, rfl⟩

theorem leafNumsL_eq (ks : List Tree) : (leavesL ks).map num = ks.flatMap leafNums := by
  rw [leavesL_eq, List.map_flatMap]; rfl

mutual
theorem parentOfLeaf_removeLeaf (a c : Nat) (hac : a ≠ c) : (t : Tree) → t.leafNums.Nodup →
    parentOfLeaf a (removeLeaf c t) = (parentOfLeaf a t).map (removeLeaf c)
  | .leaf n f, _ => by simp [removeLeaf, parentOfLeaf]
  | .node f ks, hn => by
    have hk := hasKid_removeLeafL a c hac ks
    simp only [hasKid] at hk
    simp only [removeLeaf, parentOfLeaf, hk]
    split
    · simp [removeLeaf]
    · exact parentOfLeafL_removeLeafL a c hac ks hn
theorem parentOfLeafL_removeLeafL (a c : Nat) (hac : a ≠ c) : (ks : List Tree) →
    ((leavesL ks).map num).Nodup →
    parentOfLeafL a (removeLeafL c ks) = (parentOfLeafL a ks).map (removeLeaf c)
  | [], _ => by simp [removeLeafL, parentOfLeafL]
  | .leaf n f :: ts, hn => by
    simp only [leavesL, leaves, List.singleton_append, List.map_cons, List.nodup_cons, num_leaf] at hn
    by_cases hnc : n = c
    · subst hnc
      simp only [removeLeafL, ↓reduceIte, parentOfLeafL, parentOfLeaf]
      cases hp : parentOfLeafL a ts with
      | none => rfl
      | some p =>
        obtain ⟨k, hk, _, hsub⟩ := parentOfLeafL_leafNums_subset a ts p hp
        have : n ∉ p.leafNums := by
          intro h
          refine hn.1 ?_
          rw [leafNumsL_eq]
          exact List.mem_flatMap.2 ⟨k, hk, hsub n h⟩
        simp [removeLeaf_of_not_mem n p this]
    · simp only [removeLeafL, hnc, ↓reduceIte, parentOfLeafL, parentOfLeaf]
      exact parentOfLeafL_removeLeafL a c hac ts hn.2
  | .node f ks :: ts, hn => by
    simp only [leavesL, leaves, List.map_append, List.nodup_append] at hn
    have h1 := parentOfLeaf_removeLeaf a c hac (node f ks) hn.1
    have h2 := parentOfLeafL_removeLeafL a c hac ts hn.2.1
    simp only [removeLeaf] at h1
    simp only [removeLeafL, parentOfLeafL, h1]
    cases parentOfLeaf a (node f ks) with
    | some p => rfl
    | none => exact h2
end

mutual
theorem parentOfLeaf_appendBeside (a j m : Nat) (g : Fields) (hma : m ≠ a) : (t : Tree) →
    t.leafNums.Nodup →
    parentOfLeaf a (appendBeside j (leaf m g) t) = (parentOfLeaf a t).map (appendBeside j (leaf m g))
  | .leaf n f, _ => by simp [appendBeside, parentOfLeaf]
  | .node f ks, hn => by
    cases hj : hasKid j ks with
    | true =>
      have e : appendBeside j (leaf m g) (node f ks) = node f (ks ++ [leaf m g]) := by
        simp only [appendBeside]; rw [if_pos hj]
      rw [e]
      have hk := hasKid_append_leaf a m g ks
      have hma' : (m == a) = false := by simpa using hma
      rw [hma', Bool.or_false] at hk
      simp only [hasKid] at hk
      simp only [parentOfLeaf, hk]
      split
      · simp [e]
      · rw [parentOfLeafL_append_leaf]
        cases hp : parentOfLeafL a ks with
        | none => rfl
        | some p =>
          obtain ⟨k, hk, hkl, hsub⟩ := parentOfLeafL_leafNums_subset a ks p hp
          obtain ⟨g', hg'⟩ := (hasKid_iff j ks).1 hj
          have : j ∉ p.leafNums := by
            intro h
            rw [leafNums_node] at hn
            have := eq_of_nodup_flatMap leafNums ks hn k hk _ hg' j (hsub j h) (by simp [leafNums_leaf])
            rw [this] at hkl
            simp at hkl
          simp [appendBeside_of_not_mem j _ p this]
    | false =>
      have e : appendBeside j (leaf m g) (node f ks) = node f (appendBesideL j (leaf m g) ks) := by
        simp only [appendBeside]; rw [if_neg (by simpa using hj)]
      rw [e]
      have hk := hasKid_appendBesideL a j (leaf m g) ks
      simp only [hasKid] at hk
      simp only [parentOfLeaf, hk]
      split
      · simp [e]
      · exact parentOfLeafL_appendBesideL a j m g hma ks hn
theorem parentOfLeafL_appendBesideL (a j m : Nat) (g : Fields) (hma : m ≠ a) : (ks : List Tree) →
    ((leavesL ks).map num).Nodup →
    parentOfLeafL a (appendBesideL j (leaf m g) ks) =
      (parentOfLeafL a ks).map (appendBeside j (leaf m g))
  | [], _ => by simp [appendBesideL, parentOfLeafL]
  | t :: ts, hn => by
    simp only [leavesL, List.map_append, List.nodup_append] at hn
    have h1 := parentOfLeaf_appendBeside a j m g hma t hn.1
    have h2 := parentOfLeafL_appendBesideL a j m g hma ts hn.2.1
    simp only [appendBesideL, parentOfLeafL, h1]
    cases parentOfLeaf a t with
    | some p => rfl
    | none => exact h2
end

/-- after the move, the token `m` sits below the parent of `j` -/
theorem parentOfLeaf_appendBeside_self (j m : Nat) (g : Fields) (hmj : m ≠ j) (t p : Tree)
    (hn : t.leafNums.Nodup) (hp : parentOfLeaf j t = some p) :
    ∃ f ks, p = node f ks ∧
      parentOfLeaf j (appendBeside j (leaf m g) t) = some (node f (ks ++ [leaf m g])) := by
  obtain ⟨_, f, ks, rfl, hk⟩ := parentOfLeaf_spec j t p hp
  refine ⟨f, ks, rfl, ?_⟩
  rw [parentOfLeaf_appendBeside j j m g hmj t hn, hp]
  simp only [Option.map_some, appendBeside]
  rw [if_pos hk]

theorem parentOfLeaf_appendToRoot (a m : Nat) (g : Fields) (hma : m ≠ a) (f : Fields) (ks : List Tree) :
    parentOfLeaf a (appendToRoot (node f ks) (leaf m g)) =
      if hasKid a ks then some (node f (ks ++ [leaf m g])) else parentOfLeafL a ks := by
  have hk := hasKid_append_leaf a m g ks
  have hma' : (m == a) = false := by simpa using hma
  rw [hma', Bool.or_false] at hk
  simp only [hasKid] at hk
  simp only [appendToRoot, parentOfLeaf, hk, parentOfLeafL_append_leaf]

/-! ### `sameParent` / parent paths -/

theorem parentPathOfLeafL_ne_nil (j : Nat) : ∀ (ks : List Tree) (n : Nat) (q : Path),
    parentPathOfLeafL j ks n = some q → ∃ m r, q = m :: r ∧ n ≤ m
  | [], _, _, h => by simp [parentPathOfLeafL] at h
  | t :: ts, n, q, h => by
    simp only [parentPathOfLeafL] at h
    split at h
    · cases h; exact ⟨n, _, rfl, Nat.le_refl _⟩
    · obtain ⟨m, r, hq, hm⟩ := parentPathOfLeafL_ne_nil j ts (n + 1) q h
      exact ⟨m, r, hq, by omega⟩

/-- the parent is the root iff the root directly contains the token -/
theorem parentPath_eq_nil_iff (j : Nat) (f : Fields) (ks : List Tree) :
    (parentPathOfLeaf j (node f ks) == some []) = hasKid j ks := by
  simp only [parentPathOfLeaf]
  split
  · rename_i h; simp [hasKid, h]
  · rename_i h
    have hk : hasKid j ks = false := by simpa using h
    rw [hk]
    cases hq : parentPathOfLeafL j ks 0 with
    | none => rfl
    | some q =>
      obtain ⟨m, r, rfl, _⟩ := parentPathOfLeafL_ne_nil j ks 0 q hq
      simp

mutual
theorem parentPath_isSome_iff (j : Nat) : (t : Tree) →
    (parentPathOfLeaf j t).isSome = (parentOfLeaf j t).isSome
  | .leaf n f => by simp [parentPathOfLeaf, parentOfLeaf]
  | .node f ks => by
    simp only [parentPathOfLeaf, parentOfLeaf]
    split
    · rfl
    · exact parentPathL_isSome_iff j ks 0
theorem parentPathL_isSome_iff (j : Nat) : (ks : List Tree) → (n : Nat) →
    (parentPathOfLeafL j ks n).isSome = (parentOfLeafL j ks).isSome
  | [], _ => by simp [parentPathOfLeafL, parentOfLeafL]
  | t :: ts, n => by
    have h1 := parentPath_isSome_iff j t
    have h2 := parentPathL_isSome_iff j ts (n + 1)
    simp only [parentPathOfLeafL, parentOfLeafL]
    cases hq : parentPathOfLeaf j t with
    | some q =>
      rw [hq] at h1
      cases hp : parentOfLeaf j t with
      | some p => rfl
      | none => rw [hp] at h1; simp at h1
    | none =>
      rw [hq] at h1
      cases hp : parentOfLeaf j t with
      | some p => rw [hp] at h1; simp at h1
      | none => exact h2
end

theorem hasKid_false_of_not_mem (b : Nat) (p : Tree) (h : b ∉ p.leafNums) : hasKid b p.kids = false := by
  cases hh : hasKid b p.kids with
  | false => rfl
  | true =>
    exfalso
    cases p with
    | leaf n f => simp at hh
    | node f ks => exact h (hasKid_mem_leafNumsL b ks hh)

mutual
/-- two tokens have the same parent path iff the parent of the first directly contains the second -/
theorem sameParent_iff (a b : Nat) : (t : Tree) → t.leafNums.Nodup → ∀ p, parentOfLeaf a t = some p →
    (parentPathOfLeaf a t == parentPathOfLeaf b t) = hasKid b p.kids
  | .leaf n f, _, p, hp => by simp [parentOfLeaf] at hp
  | .node f ks, hn, p, hp => by
    simp only [parentOfLeaf] at hp
    simp only [parentPathOfLeaf]
    split at hp
    · rename_i ha
      cases hp
      rw [if_pos ha]
      simp only [kids_node]
      cases hb : hasKid b ks with
      | true => rw [if_pos hb]; simp
      | false =>
        rw [if_neg (by simpa using hb)]
        cases hq : parentPathOfLeafL b ks 0 with
        | none => rfl
        | some q =>
          obtain ⟨m, r, rfl, _⟩ := parentPathOfLeafL_ne_nil b ks 0 q hq
          simp
    · rename_i ha
      rw [if_neg ha]
      cases hb : hasKid b ks with
      | true =>
        rw [if_pos hb]
        obtain ⟨k, hk, hkl, hsub⟩ := parentOfLeafL_leafNums_subset a ks p hp
        obtain ⟨g', hg'⟩ := (hasKid_iff b ks).1 hb
        have hbp : b ∉ p.leafNums := by
          intro h
          rw [leafNums_node] at hn
          have := eq_of_nodup_flatMap leafNums ks hn k hk _ hg' b (hsub b h) (by simp [leafNums_leaf])
          rw [this] at hkl
          simp at hkl
        rw [hasKid_false_of_not_mem b p hbp]
        cases hq : parentPathOfLeafL a ks 0 with
        | none => rfl
        | some q =>
          obtain ⟨m, r, rfl, _⟩ := parentPathOfLeafL_ne_nil a ks 0 q hq
          simp
      | false =>
        rw [if_neg (by simpa using hb)]
        exact sameParentL_iff a b ks 0 hn p hp
theorem sameParentL_iff (a b : Nat) : (ks : List Tree) → (n : Nat) → ((leavesL ks).map num).Nodup →
    ∀ p, parentOfLeafL a ks = some p →
    (parentPathOfLeafL a ks n == parentPathOfLeafL b ks n) = hasKid b p.kids
  | [], _, _, p, hp => by simp [parentOfLeafL] at hp
  | t :: ts, n, hn, p, hp => by
    simp only [leavesL, List.map_append, List.nodup_append] at hn
    simp only [parentOfLeafL] at hp
    simp only [parentPathOfLeafL]
    have hsome := parentPath_isSome_iff a t
    cases hpa : parentOfLeaf a t with
    | some p' =>
      rw [hpa] at hp hsome
      cases hp
      have ih := sameParent_iff a b t hn.1 p hpa
      cases hqa : parentPathOfLeaf a t with
      | none => rw [hqa] at hsome; simp at hsome
      | some qa =>
        rw [hqa] at ih
        simp only
        cases hqb : parentPathOfLeaf b t with
        | some qb =>
          rw [hqb] at ih
          simp only
          rw [← ih]
          simp
        | none =>
          rw [hqb] at ih
          simp only
          rw [← ih]
          cases hq : parentPathOfLeafL b ts (n + 1) with
          | none => rfl
          | some q =>
            obtain ⟨m, r, rfl, hm⟩ := parentPathOfLeafL_ne_nil b ts (n + 1) q hq
            have : ¬ n = m := by omega
            simp [this]
    | none =>
      rw [hpa] at hp hsome
      simp only at hp
      cases hqa : parentPathOfLeaf a t with
      | some qa => rw [hqa] at hsome; simp at hsome
      | none =>
        simp only
        cases hqb : parentPathOfLeaf b t with
        | some qb =>
          simp only
          -- `b` lies below `t`, the parent of `a` below `ts`
          have hbt : b ∈ t.leafNums := by
            have h1 := parentPath_isSome_iff b t
            rw [hqb] at h1
            cases hpb : parentOfLeaf b t with
            | none => rw [hpb] at h1; simp at h1
            | some pb => exact (parentOfLeaf_mem_leafNums b t pb hpb).1
          obtain ⟨k, hk, _, hsub⟩ := parentOfLeafL_leafNums_subset a ts p hp
          have hbp : b ∉ p.leafNums := by
            intro h
            refine hn.2.2 b hbt b ?_ rfl
            rw [leafNumsL_eq]
            exact List.mem_flatMap.2 ⟨k, hk, hsub b h⟩
          rw [hasKid_false_of_not_mem b p hbp]
          cases hq : parentPathOfLeafL a ts (n + 1) with
          | none => rfl
          | some q =>
            obtain ⟨m, r, rfl, hm⟩ := parentPathOfLeafL_ne_nil a ts (n + 1) q hq
            have : ¬ m = n := by omega
            simp [this]
        | none =>
          simp only
          exact sameParentL_iff a b ts (n + 1) hn.2.1 p hp
end

theorem sameParent_eq (t : Tree) (a b : Nat) (hn : t.leafNums.Nodup) (p : Tree)
    (hp : parentOfLeaf a t = some p) : sameParent t a b = hasKid b p.kids :=
  sameParent_iff a b t hn p hp

theorem sameParent_comm (t : Tree) (a b : Nat) : sameParent t a b = sameParent t b a := by
  unfold sameParent
  rw [Bool.eq_iff_iff]
  simp only [beq_iff_eq]
  exact eq_comm

/-! ### post-condition of `punctuationVerylow` -/

theorem isPunctWord_node (f : Fields) (ks ks' : List Tree) :
    isPunctWord (node f ks) = isPunctWord (node f ks') := rfl

theorem allPunct_removeLeafL (c : Nat) : (ks : List Tree) → ks.all isPunctWord = true →
    (removeLeafL c ks).all isPunctWord = true
  | [], _ => by simp [removeLeafL]
  | .leaf n f :: ts, h => by
    simp only [List.all_cons, Bool.and_eq_true] at h
    by_cases hn : n = c
    · simp [removeLeafL, hn, h.2]
    · simp [removeLeafL, hn, h.1, allPunct_removeLeafL c ts h.2]
  | .node f ks :: ts, h => by
    simp only [List.all_cons, Bool.and_eq_true] at h
    simp only [removeLeafL, List.all_cons, Bool.and_eq_true]
    exact ⟨(isPunctWord_node f _ ks).trans h.1, allPunct_removeLeafL c ts h.2⟩

theorem isPunctWord_appendBeside (j : Nat) (x t : Tree) :
    isPunctWord (appendBeside j x t) = isPunctWord t := by
  unfold isPunctWord
  rw [appendBeside_fields]

theorem allPunct_appendBesideL (j : Nat) (x : Tree) (ks : List Tree) :
    (appendBesideL j x ks).all isPunctWord = ks.all isPunctWord := by
  simp [appendBesideL_eq_map, List.all_map, Function.comp_def, isPunctWord_appendBeside]

/-- the parent of another token after a move -/
theorem parentOfLeaf_moveLeafBeside (cur : Tree) (hn : cur.leafNums.Nodup) (hnode : cur.isLeaf = false)
    (k i j : Nat) (hki : k ≠ i) (g : Fields) (hl : cur.findLeaf i = some (leaf i g)) (p : Tree)
    (hp : parentOfLeaf k cur = some p) :
    parentOfLeaf k (moveLeafBeside cur i j) = some (appendBeside j (leaf i g) (removeLeaf i p)) := by
  have hn' : (removeLeaf i cur).leafNums.Nodup := by
    rw [removeLeaf_leafNums i cur hnode hn]; exact hn.sublist List.filter_sublist
  simp only [moveLeafBeside, hl]
  rw [parentOfLeaf_appendBeside k j i g (fun e => hki e.symm) _ hn',
    parentOfLeaf_removeLeaf k i hki cur hn, hp]
  rfl

/-- the children of a constituent after a move: direct tokens other than the moved one stay, and
    an all-punctuation constituent stays all punctuation when the moved token is punctuation -/
theorem kids_after_move (i j : Nat) (g : Fields) (f : Fields) (ks : List Tree) :
    ∃ ks', appendBeside j (leaf i g) (removeLeaf i (node f ks)) = node f ks' ∧
      (∀ b, b ≠ i → hasKid b ks = true → hasKid b ks' = true) ∧
      (isPunctWord (leaf i g) = true → ks.all isPunctWord = true → ks'.all isPunctWord = true) := by
  simp only [removeLeaf, appendBeside]
  split
  · refine ⟨_, rfl, ?_, ?_⟩
    · intro b hb h
      rw [hasKid_append_leaf, hasKid_removeLeafL b i hb, h]; rfl
    · intro h1 h2
      rw [List.all_append, allPunct_removeLeafL i ks h2]
      simp [h1]
  · refine ⟨_, rfl, ?_, ?_⟩
    · intro b hb h
      rw [hasKid_appendBesideL, hasKid_removeLeafL b i hb, h]
    · intro _ h2
      rw [allPunct_appendBesideL, allPunct_removeLeafL i ks h2]

/-- post-condition of `punctuationVerylow` for the token `k` -/
def vPost (cur : Tree) (k : Nat) : Prop := (sameParent cur k (k - 1) || parentAllPunct cur k) = true

/-- what is known about a candidate of `punctuationVerylow` -/
structure VCand (t : Tree) (i : Nat) : Prop where
  two : 2 ≤ i
  mem : i ∈ t.leafNums
  memPred : i - 1 ∈ t.leafNums
  punct : ∃ l, t.findLeaf i = some l ∧ isPunctWord l = true

theorem verylowStep_inv' {t cur : Tree} (h : Inv t cur) (hn : t.leafNums.Nodup) (i : Nat)
    (hc : VCand t i) : Inv t (verylowStep cur i) :=
  verylowStep_inv h hn i hc.mem hc.memPred hc.two hc.punct

theorem verylowStep_post_preserved {t cur : Tree} (h : Inv t cur) (hn : t.leafNums.Nodup) (i : Nat)
    (hc : VCand t i) (k : Nat) (hk : k ∈ t.leafNums) (hki : k ≠ i) (hki' : k - 1 ≠ i)
    (hpost : vPost cur k) : vPost (verylowStep cur i) k := by
  have hinv := verylowStep_inv' h hn i hc
  unfold verylowStep at hinv ⊢
  split
  · exact hpost
  · rename_i h1
    rw [if_neg h1] at hinv
    split
    · exact hpost
    · rename_i h2
      rw [if_neg h2] at hinv
      obtain ⟨l, hl, hpl⟩ := hc.punct
      obtain ⟨g, rfl⟩ := findLeaf_isLeaf t i l hl
      have hcl : cur.findLeaf i = some (leaf i g) := by rw [h.findLeaf hn]; exact hl
      obtain ⟨p, hp⟩ := parentOfLeaf_isSome k cur h.isNode ((h.mem k).2 hk)
      obtain ⟨_, f, ks, rfl, _⟩ := parentOfLeaf_spec k cur p hp
      have hp' := parentOfLeaf_moveLeafBeside cur (h.nodup hn) h.isNode k i (i - 1) hki g hcl _ hp
      obtain ⟨ks', e, hk1, hk2⟩ := kids_after_move i (i - 1) g f ks
      rw [e] at hp'
      unfold vPost at hpost ⊢
      rw [sameParent_eq cur k (k - 1) (h.nodup hn) _ hp] at hpost
      rw [sameParent_eq _ k (k - 1) (hinv.nodup hn) _ hp']
      simp only [parentAllPunct, hp, kids_node] at hpost
      simp only [parentAllPunct, hp', kids_node]
      rw [Bool.or_eq_true] at hpost ⊢
      rcases hpost with hs | ha
      · exact Or.inl (hk1 _ hki' hs)
      · exact Or.inr (hk2 hpl ha)

theorem verylowStep_post_self {t cur : Tree} (h : Inv t cur) (hn : t.leafNums.Nodup) (i : Nat)
    (hc : VCand t i) : vPost (verylowStep cur i) i := by
  have hinv := verylowStep_inv' h hn i hc
  unfold verylowStep at hinv ⊢
  split
  · rename_i h1; unfold vPost; rw [h1, Bool.or_true]
  · rename_i h1
    rw [if_neg h1] at hinv
    split
    · rename_i h2; unfold vPost; rw [h2, Bool.true_or]
    · rename_i h2
      rw [if_neg h2] at hinv
      obtain ⟨l, hl, hpl⟩ := hc.punct
      obtain ⟨g, rfl⟩ := findLeaf_isLeaf t i l hl
      have hcl : cur.findLeaf i = some (leaf i g) := by rw [h.findLeaf hn]; exact hl
      have hij : i ≠ i - 1 := by have := hc.two; omega
      obtain ⟨p, hp⟩ := parentOfLeaf_isSome (i - 1) cur h.isNode ((h.mem _).2 hc.memPred)
      have hcn := h.nodup hn
      have hn' : (removeLeaf i cur).leafNums.Nodup := by
        rw [removeLeaf_leafNums i cur h.isNode hcn]; exact hcn.sublist List.filter_sublist
      have hp1 : parentOfLeaf (i - 1) (removeLeaf i cur) = some (removeLeaf i p) := by
        rw [parentOfLeaf_removeLeaf (i - 1) i (fun e => hij e.symm) cur hcn, hp]; rfl
      obtain ⟨f, ks1, _, hp2⟩ :=
        parentOfLeaf_appendBeside_self (i - 1) i g hij _ _ hn' hp1
      have hmv : moveLeafBeside cur i (i - 1) = appendBeside (i - 1) (leaf i g) (removeLeaf i cur) := by
        simp only [moveLeafBeside, hcl]
      unfold vPost
      rw [sameParent_comm, sameParent_eq _ (i - 1) i (hinv.nodup hn) _ (by rw [hmv]; exact hp2)]
      simp [hasKid]

theorem verylow_fold_post {t : Tree} (hn : t.leafNums.Nodup) : ∀ (todo : List Nat) (cur : Tree),
    Inv t cur → todo.Pairwise (· < ·) → (∀ i ∈ todo, VCand t i) →
    (∀ k, k ∈ t.leafNums → (∀ i ∈ todo, k < i) → vPost cur k → vPost (todo.foldl verylowStep cur) k) ∧
    (∀ i ∈ todo, vPost (todo.foldl verylowStep cur) i)
  | [], cur, _, _, _ => ⟨fun _ _ _ h => h, fun i hi => by simp at hi⟩
  | i :: rest, cur, hinv, hpw, hc => by
    rw [List.pairwise_cons] at hpw
    have hci := hc i List.mem_cons_self
    have hinv1 := verylowStep_inv' hinv hn i hci
    obtain ⟨ih1, ih2⟩ := verylow_fold_post hn rest (verylowStep cur i) hinv1 hpw.2
      (fun j hj => hc j (List.mem_cons_of_mem _ hj))
    simp only [List.foldl_cons]
    refine ⟨?_, ?_⟩
    · intro k hk hlt hpost
      have hki := hlt i List.mem_cons_self
      refine ih1 k hk (fun j hj => hlt j (List.mem_cons_of_mem _ hj)) ?_
      exact verylowStep_post_preserved hinv hn i hci k hk (by omega) (by omega) hpost
    · intro j hj
      rcases List.mem_cons.1 hj with rfl | hj
      · exact ih1 j hci.mem hpw.1 (verylowStep_post_self hinv hn j hci)
      · exact ih2 j hj

theorem verylow_post_all (t : Tree) (h : WF t = true) :
    ∀ i ∈ verylowCands t, vPost (punctuationVerylow t) i := by
  obtain ⟨hpw, hc⟩ := verylowCands_spec t h
  exact (verylow_fold_post (WF_nodup t h) (verylowCands t) t (Inv.refl t h) hpw
    (fun i hi => by obtain ⟨a, b, c, d⟩ := hc i hi; exact ⟨a, b, c, d⟩)).2

/-! ### post-condition of `punctuationRoot` -/

/-- post-condition of `punctuationRoot` for the token `k` -/
def rPost (cur : Tree) (k : Nat) : Prop :=
  (parentPathOfLeaf k cur == some [] || parentArity cur k == 1) = true

def rootCands (t : Tree) : List Nat := (t.terminals.filter isPunctWord).map num

theorem rootCands_spec (t : Tree) (h : WF t = true) :
    (rootCands t).Nodup ∧ ∀ i ∈ rootCands t, i ∈ t.leafNums := by
  have hs : (rootCands t).Sublist (yield t) := by
    unfold rootCands yield
    exact List.filter_sublist.map num
  refine ⟨hs.nodup ?_, fun i hi => (mem_yield t i).1 (hs.subset hi)⟩
  rw [WF_yield t h]
  exact List.nodup_range'

theorem rootStep_move_eq (f : Fields) (ks : List Tree) (i : Nat) (g : Fields) :
    appendToRoot (removeLeaf i (node f ks)) (leaf i g) = node f (removeLeafL i ks ++ [leaf i g]) := by
  simp [removeLeaf, appendToRoot]

theorem singleton_kid (k : Nat) (ks : List Tree) (hk : hasKid k ks = true) (hlen : ks.length = 1) :
    ∃ g, ks = [leaf k g] := by
  obtain ⟨g, hg⟩ := (hasKid_iff k ks).1 hk
  match ks, hlen, hg with
  | [x], _, hg => exact ⟨g, by simpa using (List.mem_singleton.1 hg).symm⟩

theorem rootStep_post_preserved {t cur : Tree} (h : Inv t cur) (hn : t.leafNums.Nodup) (i k : Nat)
    (hki : k ≠ i) (hpost : rPost cur k) : rPost (rootStep cur i) k := by
  unfold rootStep
  split
  · split
    · rename_i l hl
      obtain ⟨g, rfl⟩ := findLeaf_isLeaf cur i _ hl
      have hcn := h.nodup hn
      have hnode := h.isNode
      cases hc : cur with
      | leaf n f => rw [hc] at hnode; simp at hnode
      | node f ks =>
        rw [hc] at hpost hcn
        rw [rootStep_move_eq]
        unfold rPost at hpost ⊢
        rw [parentPath_eq_nil_iff, Bool.or_eq_true] at hpost ⊢
        have hik : (i == k) = false := by simpa using fun e => hki e.symm
        have hkid : hasKid k (removeLeafL i ks ++ [leaf i g]) = hasKid k ks := by
          rw [hasKid_append_leaf, hasKid_removeLeafL k i hki, hik, Bool.or_false]
        rw [hkid]
        cases hk : hasKid k ks with
        | true => exact Or.inl rfl
        | false =>
          right
          rw [hk] at hpost
          rcases hpost with hpost | hpost
          · cases hpost
          · unfold parentArity at hpost ⊢
            cases hp : parentOfLeaf k (node f ks) with
            | none => rw [hp] at hpost; simp at hpost
            | some p =>
              rw [hp] at hpost
              simp only [beq_iff_eq] at hpost
              obtain ⟨_, f', ks', rfl, hk'⟩ := parentOfLeaf_spec k _ p hp
              obtain ⟨g', rfl⟩ := singleton_kid k ks' hk' hpost
              have h1 := parentOfLeaf_removeLeaf k i hki (node f ks) hcn
              rw [hp] at h1
              have h2 := parentOfLeaf_appendToRoot k i g (fun e => hki e.symm) f (removeLeafL i ks)
              rw [hasKid_removeLeafL k i hki, hk] at h2
              simp only [Bool.false_eq_true, ↓reduceIte] at h2
              have h3 : parentOfLeaf k (removeLeaf i (node f ks)) = parentOfLeafL k (removeLeafL i ks) := by
                simp only [removeLeaf, parentOfLeaf]
                rw [if_neg]
                have := hasKid_removeLeafL k i hki ks
                rw [hk] at this
                simpa [hasKid] using this
              simp only [appendToRoot] at h2
              rw [h2, ← h3, h1]
              simp [removeLeaf, removeLeafL, hki]
    · exact hpost
  · exact hpost

theorem rootStep_post_self {t cur : Tree} (h : Inv t cur) (i : Nat)
    (hi : i ∈ t.leafNums) : rPost (rootStep cur i) i := by
  have hic := (h.mem i).2 hi
  unfold rootStep
  split
  · split
    · rename_i l hl
      obtain ⟨g, rfl⟩ := findLeaf_isLeaf cur i _ hl
      have hnode := h.isNode
      cases hc : cur with
      | leaf n f => rw [hc] at hnode; simp at hnode
      | node f ks =>
        rw [rootStep_move_eq]
        unfold rPost
        rw [parentPath_eq_nil_iff, hasKid_append_leaf]
        simp
    · rename_i hnone
      obtain ⟨l, hl⟩ := findLeaf_some_of_mem cur i hic
      rw [hnone] at hl; cases hl
  · rename_i har
    obtain ⟨p, hp⟩ := parentOfLeaf_isSome i cur h.isNode hic
    obtain ⟨g, hg, _⟩ := parentOfLeaf_kid_mem_leaves i cur p hp
    have : 1 ≤ p.kids.length := List.length_pos_of_mem hg
    unfold rPost
    simp only [parentArity, hp] at har ⊢
    rw [Bool.or_eq_true]
    right
    simp only [beq_iff_eq]
    omega

theorem root_fold_post {t : Tree} (hn : t.leafNums.Nodup) : ∀ (todo : List Nat) (cur : Tree),
    Inv t cur → todo.Nodup → (∀ i ∈ todo, i ∈ t.leafNums) →
    (∀ k, k ∉ todo → rPost cur k → rPost (todo.foldl rootStep cur) k) ∧
    (∀ i ∈ todo, rPost (todo.foldl rootStep cur) i)
  | [], cur, _, _, _ => ⟨fun _ _ h => h, fun i hi => by simp at hi⟩
  | i :: rest, cur, hinv, hnd, hc => by
    rw [List.nodup_cons] at hnd
    have hinv1 := rootStep_inv hinv hn i
    obtain ⟨ih1, ih2⟩ := root_fold_post hn rest (rootStep cur i) hinv1 hnd.2
      (fun j hj => hc j (List.mem_cons_of_mem _ hj))
    simp only [List.foldl_cons]
    refine ⟨?_, ?_⟩
    · intro k hk hpost
      simp only [List.mem_cons, not_or] at hk
      exact ih1 k hk.2 (rootStep_post_preserved hinv hn i k hk.1 hpost)
    · intro j hj
      rcases List.mem_cons.1 hj with rfl | hj
      · exact ih1 j hnd.1 (rootStep_post_self hinv j (hc j List.mem_cons_self))
      · exact ih2 j hj

theorem root_post_all (t : Tree) (h : WF t = true) :
    ∀ i ∈ rootCands t, rPost (punctuationRoot t) i := by
  obtain ⟨hnd, hc⟩ := rootCands_spec t h
  exact (root_fold_post (WF_nodup t h) (rootCands t) t (Inv.refl t h) hnd hc).2

/-! ### the uid parent map -/

theorem parentMapL_eq (par : Option Nat) : ∀ ks : List Tree,
    parentMapL par ks = ks.flatMap (parentMap par)
  | [] => by simp [parentMapL]
  | t :: ts => by simp [parentMapL, parentMapL_eq par ts]

theorem parentMapL_append (par : Option Nat) (a b : List Tree) :
    parentMapL par (a ++ b) = parentMapL par a ++ parentMapL par b := by
  simp [parentMapL_eq]

/-- own entry of a node in the parent map -/
def ownEntry (par : Option Nat) (f : Fields) : List (Nat × Option Nat) :=
  match f.uid with | some u => [(u, par)] | none => []

theorem parentMap_leaf (par : Option Nat) (n : Nat) (f : Fields) :
    parentMap par (leaf n f) = ownEntry par f := by
  cases hf : f.uid <;> simp [parentMap, ownEntry, hf]

theorem parentMap_node (par : Option Nat) (f : Fields) (ks : List Tree) :
    parentMap par (node f ks) = ownEntry par f ++ parentMapL f.uid ks := by
  cases hf : f.uid <;> simp [parentMap, ownEntry, hf]

theorem ownEntry_filter_ne (par : Option Nat) (f : Fields) (u : Nat) (h : f.uid ≠ some u) :
    (ownEntry par f).filter (fun e => e.1 == u) = [] := by
  unfold ownEntry
  cases hf : f.uid with
  | none => rfl
  | some v =>
    have : ¬ v = u := fun e => h (by rw [hf, e])
    simp [this]

mutual
theorem parentMap_removeLeaf (c u : Nat) : (par : Option Nat) → (t : Tree) →
    (∀ l ∈ leaves t, l.num = c → l.fields.uid ≠ some u) →
    (parentMap par (removeLeaf c t)).filter (fun e => e.1 == u) =
      (parentMap par t).filter (fun e => e.1 == u)
  | _, .leaf n f, _ => by simp [removeLeaf]
  | par, .node f ks, h => by
    simp only [removeLeaf, parentMap_node, List.filter_append]
    rw [parentMapL_removeLeafL c u f.uid ks h]
theorem parentMapL_removeLeafL (c u : Nat) : (par : Option Nat) → (ks : List Tree) →
    (∀ l ∈ leavesL ks, l.num = c → l.fields.uid ≠ some u) →
    (parentMapL par (removeLeafL c ks)).filter (fun e => e.1 == u) =
      (parentMapL par ks).filter (fun e => e.1 == u)
  | _, [], _ => by simp [removeLeafL]
  | par, .leaf n f :: ts, h => by
    by_cases hn : n = c
    · subst hn
      have : f.uid ≠ some u := h (leaf n f) (by simp [leavesL, leaves]) rfl
      simp only [removeLeafL, ↓reduceIte, parentMapL, parentMap_leaf, List.filter_append,
        ownEntry_filter_ne par f u this, List.nil_append]
    · have ih := parentMapL_removeLeafL c u par ts
        (fun l hl => h l (by simp only [leavesL, List.mem_append]; exact Or.inr hl))
      simp only [removeLeafL, hn, ↓reduceIte, parentMapL, List.filter_append, ih]
  | par, .node f ks :: ts, h => by
    have ih1 := parentMap_removeLeaf c u par (node f ks)
      (fun l hl => h l (by simp only [leavesL, List.mem_append]; exact Or.inl hl))
    have ih2 := parentMapL_removeLeafL c u par ts
      (fun l hl => h l (by simp only [leavesL, List.mem_append]; exact Or.inr hl))
    simp only [removeLeaf] at ih1
    simp only [removeLeafL, parentMapL, List.filter_append, ih1, ih2]
end

mutual
theorem parentMap_appendBeside (j m u : Nat) (g : Fields) (hg : g.uid ≠ some u) :
    (par : Option Nat) → (t : Tree) →
    (parentMap par (appendBeside j (leaf m g) t)).filter (fun e => e.1 == u) =
      (parentMap par t).filter (fun e => e.1 == u)
  | _, .leaf n f => by simp [appendBeside]
  | par, .node f ks => by
    simp only [appendBeside]
    split
    · simp only [parentMap_node, parentMapL_append, List.filter_append, parentMapL, parentMap_leaf,
        ownEntry_filter_ne f.uid g u hg, List.append_nil]
    · simp only [parentMap_node, List.filter_append]
      rw [parentMapL_appendBesideL j m u g hg f.uid ks]
theorem parentMapL_appendBesideL (j m u : Nat) (g : Fields) (hg : g.uid ≠ some u) :
    (par : Option Nat) → (ks : List Tree) →
    (parentMapL par (appendBesideL j (leaf m g) ks)).filter (fun e => e.1 == u) =
      (parentMapL par ks).filter (fun e => e.1 == u)
  | _, [] => by simp [appendBesideL]
  | par, t :: ts => by
    simp only [appendBesideL, parentMapL, List.filter_append,
      parentMap_appendBeside j m u g hg par t, parentMapL_appendBesideL j m u g hg par ts]
end

theorem parentMap_appendToRoot (m u : Nat) (g : Fields) (hg : g.uid ≠ some u) (par : Option Nat)
    (t : Tree) :
    (parentMap par (appendToRoot t (leaf m g))).filter (fun e => e.1 == u) =
      (parentMap par t).filter (fun e => e.1 == u) := by
  cases t with
  | leaf n f => simp [appendToRoot]
  | node f ks =>
    simp only [appendToRoot, parentMap_node, parentMapL_append, List.filter_append, parentMapL,
      parentMap_leaf, ownEntry_filter_ne f.uid g u hg, List.append_nil]

theorem parentOfUid_eq_of_filter (a b : Tree) (u : Nat)
    (h : (parentMap none a).filter (fun e => e.1 == u) = (parentMap none b).filter (fun e => e.1 == u)) :
    parentOfUid a u = parentOfUid b u := by
  unfold parentOfUid
  rw [← List.head?_filter, ← List.head?_filter, h]

/-- moving a token does not change the parent of any other node -/
theorem moveLeafBeside_parentOfUid (cur : Tree) (i j u : Nat) (hn : cur.leafNums.Nodup)
    (h : ∀ l, cur.findLeaf i = some l → l.fields.uid ≠ some u) :
    parentOfUid (moveLeafBeside cur i j) u = parentOfUid cur u := by
  unfold moveLeafBeside
  split
  · rename_i l hl
    obtain ⟨g, rfl⟩ := findLeaf_isLeaf cur i l hl
    have hg := h _ hl
    simp only [fields_leaf] at hg
    refine parentOfUid_eq_of_filter _ _ u ?_
    rw [parentMap_appendBeside j i u g hg none, parentMap_removeLeaf i u none cur]
    intro l' hl' hnum
    have := findLeaf_of_mem_nodup cur l' hn hl'
    rw [hnum, hl] at this
    cases this
    exact hg
  · rfl

theorem rootMove_parentOfUid (cur : Tree) (i u : Nat) (hn : cur.leafNums.Nodup) (g : Fields)
    (hl : cur.findLeaf i = some (leaf i g)) (hg : g.uid ≠ some u) :
    parentOfUid (appendToRoot (removeLeaf i cur) (leaf i g)) u = parentOfUid cur u := by
  refine parentOfUid_eq_of_filter _ _ u ?_
  rw [parentMap_appendToRoot i u g hg none, parentMap_removeLeaf i u none cur]
  intro l' hl' hnum
  have := findLeaf_of_mem_nodup cur l' hn hl'
  rw [hnum, hl] at this
  cases this
  exact hg

mutual
theorem parentMap_keys (par : Option Nat) : (t : Tree) →
    (parentMap par t).map (·.1) = (subtrees t).filterMap (·.fields.uid)
  | .leaf n f => by
    simp only [parentMap_leaf, ownEntry, subtrees]
    cases h : f.uid <;> simp [h]
  | .node f ks => by
    simp only [parentMap_node, ownEntry, subtrees, List.map_append, parentMapL_keys f.uid ks]
    cases h : f.uid <;> simp [h]
theorem parentMapL_keys (par : Option Nat) : (ks : List Tree) →
    (parentMapL par ks).map (·.1) = (subtreesL ks).filterMap (·.fields.uid)
  | [] => by simp [parentMapL, subtreesL]
  | t :: ts => by
    simp only [parentMapL, subtreesL, List.map_append, List.filterMap_append, parentMap_keys par t,
      parentMapL_keys par ts]
end

theorem leaves_subset_subtrees (t : Tree) : ∀ l ∈ leaves t, l ∈ subtrees t := by
  induction t using tree_ind with
  | hl n f => intro l hl; simpa [leaves, subtrees] using hl
  | hn f ks ih =>
    intro l hl
    rw [leaves_node, List.mem_flatMap] at hl
    obtain ⟨k, hk, hl⟩ := hl
    exact (mem_subtrees_node f ks l).2 (Or.inr ⟨k, hk, ih k hk l hl⟩)

theorem eq_of_filterMap_nodup {α β} (f : α → Option β) : ∀ (l : List α), (l.filterMap f).Nodup →
    ∀ a ∈ l, ∀ b ∈ l, ∀ u, f a = some u → f b = some u → a = b
  | [], _, a, ha, _, _, _, _, _ => by simp at ha
  | y :: ys, hn, a, ha, b, hb, u, hfa, hfb => by
    have hmem : ∀ z ∈ ys, f z = some u → u ∈ ys.filterMap f := fun z hz hfz =>
      List.mem_filterMap.2 ⟨z, hz, hfz⟩
    rcases List.mem_cons.1 ha with rfl | ha' <;> rcases List.mem_cons.1 hb with rfl | hb'
    · rfl
    · rw [List.filterMap_cons, hfa, List.nodup_cons] at hn
      exact absurd (hmem b hb' hfb) hn.1
    · rw [List.filterMap_cons, hfb, List.nodup_cons] at hn
      exact absurd (hmem a ha' hfa) hn.1
    · have hn' : (ys.filterMap f).Nodup := by
        rw [List.filterMap_cons] at hn
        cases hfy : f y with
        | none => rw [hfy] at hn; exact hn
        | some v => rw [hfy] at hn; exact (List.nodup_cons.1 hn).2
      exact eq_of_filterMap_nodup f ys hn' a ha' b hb' u hfa hfb

theorem find?_of_nodup_fst {α} (l : List (Nat × α)) (hn : (l.map (·.1)).Nodup) (u : Nat) (p : α)
    (h : (u, p) ∈ l) : l.find? (fun e => e.1 == u) = some (u, p) := by
  have := find?_of_nodup_key (fun (e : Nat × α) => e.1) u l (u, p) hn h rfl
  exact this

/-- generic closing argument: nodes that are not `free` tokens keep their parent when the
    parent of every uid not carried by a `free` token is unchanged -/
theorem parentsKept_of_inv (t r : Tree) (free : Tree → Bool) (hu : uidsOK t = true)
    (hinv : ∀ u, (∀ l ∈ t.leaves, free l = true → l.fields.uid ≠ some u) →
      parentOfUid r u = parentOfUid t u) :
    parentsKept t r free = true := by
  unfold parentsKept
  rw [List.all_eq_true]
  rintro ⟨u, p⟩ hup
  simp only
  cases hs : findUid t u with
  | none => rfl
  | some s =>
    simp only [Bool.or_eq_true, beq_iff_eq]
    cases hf : free s with
    | true => exact Or.inl rfl
    | false =>
      right
      simp only [uidsOK, Bool.and_eq_true] at hu
      have hnd : ((parentMap none t).map (·.1)).Nodup := by
        rw [parentMap_keys]; exact (nodupB_iff _).1 hu.2
      have hnd' : ((subtrees t).filterMap (·.fields.uid)).Nodup := (nodupB_iff _).1 hu.2
      have hs1 : s ∈ subtrees t := List.mem_of_find?_eq_some hs
      have hs2 : s.fields.uid = some u := by
        have := List.find?_some hs
        simpa using this
      rw [hinv u]
      · unfold parentOfUid
        rw [find?_of_nodup_fst _ hnd u p hup]
        rfl
      · intro l hl hfl' huid
        have := eq_of_filterMap_nodup (·.fields.uid) _ hnd' s hs1 l (leaves_subset_subtrees t l hl) u
          hs2 huid
        rw [this, hfl'] at hf
        cases hf

/-! ### nothing else moves -/

/-- the parent of every uid not carried by a `free` token of `t` is as in `t` -/
def PK (t : Tree) (free : Tree → Bool) (cur : Tree) : Prop :=
  ∀ u, (∀ l ∈ t.leaves, free l = true → l.fields.uid ≠ some u) → parentOfUid cur u = parentOfUid t u

theorem moveLeafBeside_PK {t cur : Tree} (h : Inv t cur) (hn : t.leafNums.Nodup) (free : Tree → Bool)
    (i j : Nat) (hfree : ∀ l, cur.findLeaf i = some l → free l = true) (hpk : PK t free cur) :
    PK t free (moveLeafBeside cur i j) := by
  intro u hu
  rw [← hpk u hu]
  exact moveLeafBeside_parentOfUid cur i j u (h.nodup hn)
    (fun l hl => hu l (h.perm.subset (findLeaf_mem cur i l hl).1) (hfree l hl))

def freePunct (s : Tree) : Bool := s.isLeaf && isPunctWord s
def freePair (s : Tree) : Bool := s.isLeaf && isPairPunctWord s

theorem freePunct_of_findLeaf {t cur : Tree} (h : Inv t cur) (hn : t.leafNums.Nodup) (i : Nat)
    (hp : ∃ l, t.findLeaf i = some l ∧ isPunctWord l = true) :
    ∀ l, cur.findLeaf i = some l → freePunct l = true := by
  intro l hl
  obtain ⟨l', hl', hpl⟩ := hp
  rw [h.findLeaf hn, hl'] at hl
  cases hl
  obtain ⟨g, rfl⟩ := findLeaf_isLeaf t i _ hl'
  simp [freePunct, hpl]

theorem verylowStep_PK {t cur : Tree} (h : Inv t cur) (hn : t.leafNums.Nodup) (i : Nat)
    (hc : VCand t i) (hpk : PK t freePunct cur) : PK t freePunct (verylowStep cur i) := by
  unfold verylowStep
  split
  · exact hpk
  · split
    · exact hpk
    · exact moveLeafBeside_PK h hn freePunct i (i - 1) (freePunct_of_findLeaf h hn i hc.punct) hpk

theorem verylow_PK (t : Tree) (h : WF t = true) : PK t freePunct (punctuationVerylow t) := by
  have hc := (verylowCands_spec t h).2
  have hnd := WF_nodup t h
  have : Inv t (punctuationVerylow t) ∧ PK t freePunct (punctuationVerylow t) := by
    show (fun c => Inv t c ∧ PK t freePunct c) ((verylowCands t).foldl verylowStep t)
    refine foldl_inv (fun c => Inv t c ∧ PK t freePunct c) verylowStep _ t ?_
      ⟨Inv.refl t h, fun _ _ => rfl⟩
    intro cur i hi hcur
    obtain ⟨a, b, c, d⟩ := hc i hi
    exact ⟨verylowStep_inv' hcur.1 hnd i ⟨a, b, c, d⟩, verylowStep_PK hcur.1 hnd i ⟨a, b, c, d⟩ hcur.2⟩
  exact this.2

theorem rootCands_punct (t : Tree) (h : WF t = true) :
    ∀ i ∈ rootCands t, ∃ l, t.findLeaf i = some l ∧ isPunctWord l = true := by
  intro i hi
  unfold rootCands at hi
  obtain ⟨l, hl, rfl⟩ := List.mem_map.1 hi
  obtain ⟨hl1, hlp⟩ := List.mem_filter.1 hl
  exact ⟨l, findLeaf_of_mem_nodup t l (WF_nodup t h) ((mem_terminals t l).1 hl1), hlp⟩

theorem rootStep_PK {t cur : Tree} (h : Inv t cur) (hn : t.leafNums.Nodup) (i : Nat)
    (hp : ∃ l, t.findLeaf i = some l ∧ isPunctWord l = true) (hpk : PK t freePunct cur) :
    PK t freePunct (rootStep cur i) := by
  unfold rootStep
  split
  · split
    · rename_i l hl
      intro u hu
      rw [← hpk u hu]
      have hfr := freePunct_of_findLeaf h hn i hp l hl
      have hm := h.perm.subset (findLeaf_mem cur i l hl).1
      obtain ⟨g, rfl⟩ := findLeaf_isLeaf cur i l hl
      exact rootMove_parentOfUid cur i u (h.nodup hn) g hl (hu _ hm hfr)
    · exact hpk
  · exact hpk

theorem root_PK (t : Tree) (h : WF t = true) : PK t freePunct (punctuationRoot t) := by
  have hc := rootCands_punct t h
  have hnd := WF_nodup t h
  have : Inv t (punctuationRoot t) ∧ PK t freePunct (punctuationRoot t) := by
    show (fun c => Inv t c ∧ PK t freePunct c) ((rootCands t).foldl rootStep t)
    refine foldl_inv (fun c => Inv t c ∧ PK t freePunct c) rootStep _ t ?_
      ⟨Inv.refl t h, fun _ _ => rfl⟩
    intro cur i hi hcur
    exact ⟨rootStep_inv hcur.1 hnd i, rootStep_PK hcur.1 hnd i (hc i hi) hcur.2⟩
  exact this.2

theorem symPull_PK {t : Tree} (hw : WF t = true) (first last : Nat) (s : SymState) (i : Nat)
    (left : Bool) (h : Inv t s.cur) (hpk : PK t freePair s.cur) :
    PK t freePair (symPull first last s i left).cur := by
  rcases symPull_cases first last s i left with he | ⟨p, cand, _, _, hpair, _, _, he⟩
  · rw [he]; exact hpk
  · rw [he]
    refine moveLeafBeside_PK h (WF_nodup t hw) freePair cand i ?_ hpk
    intro l hl
    unfold wordIsPair at hpair
    rw [hl] at hpair
    obtain ⟨g, rfl⟩ := findLeaf_isLeaf s.cur cand l hl
    simp only at hpair
    simp [freePair, hpair]

theorem symStep_PK {t : Tree} (hw : WF t = true) (first last : Nat) (s : SymState) (i : Nat)
    (h : Inv t s.cur) (hpk : PK t freePair s.cur) : PK t freePair (symStep first last s i).cur := by
  unfold symStep
  split
  · exact hpk
  · simp only
    split
    · exact symPull_PK hw first last s i true h hpk
    · exact symPull_PK hw first last _ i false (symPull_inv hw first last s i true h)
        (symPull_PK hw first last s i true h hpk)

theorem sym_PK (relc : Option Str) (t : Tree) (h : WF t = true) :
    PK t freePair (punctuationSymetrify relc t) := by
  unfold punctuationSymetrify
  simp only
  have := foldl_inv (fun (s : SymState) => Inv t s.cur ∧ PK t freePair s.cur)
    (symStep ((t.terminals.head?.map num).getD 0) ((t.terminals.getLast?.map num).getD 0))
    (match relc with
      | none => (t.terminals.filter isPairPunctWord).map num
      | some r => relcCands r t.terminals)
    { cur := t, done := [] }
    (fun s i _ hs => ⟨symStep_inv h _ _ s i hs.1, symStep_PK h _ _ s i hs.1 hs.2⟩)
    ⟨Inv.refl t h, fun _ _ => rfl⟩
  exact this.2

/-! ### `symetrifyOK` -/

mutual
/-- with distinct numbers, the constituent that directly contains `b` is the parent of `b` -/
theorem parentOfLeaf_of_hasKid (a b : Nat) : (t : Tree) → t.leafNums.Nodup → ∀ p,
    parentOfLeaf a t = some p → hasKid b p.kids = true → parentOfLeaf b t = some p
  | .leaf n f, _, p, hp, _ => by simp [parentOfLeaf] at hp
  | .node f ks, hn, p, hp, hb => by
    simp only [parentOfLeaf] at hp ⊢
    split at hp
    · cases hp
      simp only [kids_node] at hb
      rw [if_pos hb]
    · have hbk : hasKid b ks = false := by
        cases hbk : hasKid b ks with
        | false => rfl
        | true =>
          exfalso
          obtain ⟨k, hk, hkl, hsub⟩ := parentOfLeafL_leafNums_subset a ks p hp
          obtain ⟨g', hg'⟩ := (hasKid_iff b ks).1 hbk
          have hbp : b ∈ p.leafNums := by
            cases hh : p with
            | leaf n f => rw [hh] at hb; simp at hb
            | node f' ks' => rw [hh] at hb; exact hasKid_mem_leafNumsL b ks' hb
          rw [leafNums_node] at hn
          have := eq_of_nodup_flatMap leafNums ks hn k hk _ hg' b (hsub b hbp) (by simp [leafNums_leaf])
          rw [this] at hkl
          simp at hkl
      rw [if_neg (by simpa using hbk)]
      exact parentOfLeafL_of_hasKid a b ks hn p hp hb
theorem parentOfLeafL_of_hasKid (a b : Nat) : (ks : List Tree) → ((leavesL ks).map num).Nodup →
    ∀ p, parentOfLeafL a ks = some p → hasKid b p.kids = true → parentOfLeafL b ks = some p
  | [], _, p, hp, _ => by simp [parentOfLeafL] at hp
  | t :: ts, hn, p, hp, hb => by
    simp only [leavesL, List.map_append, List.nodup_append] at hn
    simp only [parentOfLeafL] at hp ⊢
    cases hpa : parentOfLeaf a t with
    | some p' =>
      rw [hpa] at hp
      cases hp
      rw [parentOfLeaf_of_hasKid a b t hn.1 p hpa hb]
    | none =>
      rw [hpa] at hp
      simp only at hp
      cases hpb : parentOfLeaf b t with
      | none => exact parentOfLeafL_of_hasKid a b ts hn.2.1 p hp hb
      | some q =>
        exfalso
        have hbt := (parentOfLeaf_mem_leafNums b t q hpb).1
        obtain ⟨k, hk, _, hsub⟩ := parentOfLeafL_leafNums_subset a ts p hp
        have hbp : b ∈ p.leafNums := by
          cases hh : p with
          | leaf n f => rw [hh] at hb; simp at hb
          | node f' ks' => rw [hh] at hb; exact hasKid_mem_leafNumsL b ks' hb
        refine hn.2.2 b hbt b ?_ rfl
        rw [leafNumsL_eq]
        exact List.mem_flatMap.2 ⟨k, hk, hsub b hbp⟩
end

theorem leaf_uid_unique (t : Tree) (hu : uidsOK t = true) : ∀ a ∈ t.leaves, ∀ b ∈ t.leaves, ∀ u,
    a.fields.uid = some u → b.fields.uid = some u → a = b := by
  simp only [uidsOK, Bool.and_eq_true] at hu
  intro a ha b hb u hau hbu
  exact eq_of_filterMap_nodup (·.fields.uid) _ ((nodupB_iff _).1 hu.2) a
    (leaves_subset_subtrees t a ha) b (leaves_subset_subtrees t b hb) u hau hbu

/-- the anchor token `j` is paired punctuation, or (with `relc`) is followed by a token tagged `relc` -/
def AnchorOK (relc : Option Str) (t : Tree) (j : Nat) : Prop :=
  ∃ k, t.findLeaf j = some k ∧ (isPairPunctWord k = true ∨
    ∃ r, relc = some r ∧ ∃ nx, t.findLeaf (j + 1) = some nx ∧ (nx.fields.label == r) = true)

/-- the moved token `l` sits beside an anchor, and neither will move again -/
def Good (relc : Option Str) (t : Tree) (s : SymState) (l : Tree) : Prop :=
  isPairPunctWord l = true ∧ l.num ∈ s.done ∧
  ∃ j p, j ∈ s.done ∧ j ≠ l.num ∧ AnchorOK relc t j ∧ parentOfLeaf j s.cur = some p ∧
    hasKid l.num p.kids = true

def SI (relc : Option Str) (t : Tree) (s : SymState) : Prop :=
  Inv t s.cur ∧ ∀ l ∈ t.leaves, ∀ u, l.fields.uid = some u →
    parentOfUid s.cur u = parentOfUid t u ∨ Good relc t s l

theorem symPull_cand_ne {t : Tree} (hw : WF t = true) (s : SymState) (h : Inv t s.cur) (i : Nat)
    (p : Tree) (hp : parentOfLeaf i s.cur = some p) (left : Bool) (cand : Nat)
    (hcd : cand = if left then leftmost p - 1 else rightmost p + 1) : cand ≠ i := by
  obtain ⟨_, hip⟩ := parentOfLeaf_mem_leafNums i s.cur p hp
  have hps : ∀ n ∈ p.leafNums, n ∈ t.leafNums := by
    intro n hn
    obtain ⟨l, hl, rfl⟩ := List.mem_map.1 hn
    refine (h.mem _).1 (List.mem_map.2 ⟨l, ?_, rfl⟩)
    exact leaves_subset_of_mem_subtrees s.cur p (parentOfLeaf_spec i s.cur p hp).1 l hl
  have hpne : p.leafNums ≠ [] := List.ne_nil_of_mem hip
  cases left with
  | true =>
    simp only [↓reduceIte] at hcd
    have h1 := leftmost_le p i hip
    have h2 := (WF_mem_leafNums t hw _).1 (hps _ (leftmost_mem p hpne))
    omega
  | false =>
    simp only [Bool.false_eq_true, ↓reduceIte] at hcd
    have h1 := le_rightmost p i hip
    omega

theorem symPull_SI {relc : Option Str} {t : Tree} (hw : WF t = true) (hu : uidsOK t = true)
    (first last : Nat) (s : SymState) (i : Nat) (left : Bool) (hA : AnchorOK relc t i)
    (h : SI relc t s) : SI relc t (symPull first last s i left) := by
  have hnd := WF_nodup t hw
  have hinv' := symPull_inv hw first last s i left h.1
  rcases symPull_cases first last s i left with he | ⟨p, cand, hp, hcd, hpair, hdone, _, he⟩
  · rw [he]; exact h
  · rw [he] at hinv' ⊢
    simp only at hinv'
    refine ⟨hinv', ?_⟩
    intro l hl u hlu
    have hcn := h.1.nodup hnd
    have hne : cand ≠ i := symPull_cand_ne hw s h.1 i p hp left cand hcd
    have hdone' : cand ∉ s.done := by simpa using hdone
    unfold wordIsPair at hpair
    cases hfc : s.cur.findLeaf cand with
    | none => rw [hfc] at hpair; cases hpair
    | some lc =>
      rw [hfc] at hpair
      simp only at hpair
      obtain ⟨g, rfl⟩ := findLeaf_isLeaf s.cur cand lc hfc
      have hlct : leaf cand g ∈ t.leaves := h.1.perm.subset (findLeaf_mem s.cur cand _ hfc).1
      by_cases hlc : l.num = cand
      · right
        have hll : l = leaf cand g := by
          have := findLeaf_of_mem_nodup s.cur l hcn (h.1.perm.symm.subset hl)
          rw [hlc, hfc] at this
          cases this; rfl
        subst hll
        have hn' : (removeLeaf cand s.cur).leafNums.Nodup := by
          rw [removeLeaf_leafNums cand s.cur h.1.isNode hcn]; exact hcn.sublist List.filter_sublist
        have hp1 : parentOfLeaf i (removeLeaf cand s.cur) = some (removeLeaf cand p) := by
          rw [parentOfLeaf_removeLeaf i cand (fun e => hne e.symm) s.cur hcn, hp]; rfl
        obtain ⟨f, ks1, _, hp2⟩ := parentOfLeaf_appendBeside_self i cand g hne _ _ hn' hp1
        have hmv : moveLeafBeside s.cur cand i =
            appendBeside i (leaf cand g) (removeLeaf cand s.cur) := by
          simp only [moveLeafBeside, hfc]
        refine ⟨hpair, by simp, i, node f (ks1 ++ [leaf cand g]), by simp, fun e => hne e.symm, hA, ?_, ?_⟩
        · simp only [hmv]; exact hp2
        · simp [hasKid]
      · have hpu : parentOfUid (moveLeafBeside s.cur cand i) u = parentOfUid s.cur u := by
          refine moveLeafBeside_parentOfUid s.cur cand i u hcn ?_
          intro l' hl' huid
          rw [hfc] at hl'
          cases hl'
          have := leaf_uid_unique t hu _ hlct l hl u huid hlu
          rw [← this] at hlc
          exact hlc rfl
        rcases h.2 l hl u hlu with heq | hgood
        · left; simp only; rw [hpu, heq]
        · right
          obtain ⟨hp1, hd1, j, pj, hjd, hjl, hAj, hpj, hkj⟩ := hgood
          have hjc : j ≠ cand := fun e => hdone' (e ▸ hjd)
          obtain ⟨_, f, ks, rfl, _⟩ := parentOfLeaf_spec j s.cur pj hpj
          have hpj' := parentOfLeaf_moveLeafBeside s.cur hcn h.1.isNode j cand i hjc g hfc _ hpj
          obtain ⟨ks', e, hk1, _⟩ := kids_after_move cand i g f ks
          rw [e] at hpj'
          refine ⟨hp1, by simp [hd1], j, node f ks', by simp [hjd], hjl, hAj, hpj', ?_⟩
          exact hk1 _ hlc hkj

theorem symStep_SI {relc : Option Str} {t : Tree} (hw : WF t = true) (hu : uidsOK t = true)
    (first last : Nat) (s : SymState) (i : Nat) (hA : AnchorOK relc t i)
    (h : SI relc t s) : SI relc t (symStep first last s i) := by
  unfold symStep
  split
  · exact h
  · simp only
    split
    · exact symPull_SI hw hu first last s i true hA h
    · exact symPull_SI hw hu first last _ i false hA (symPull_SI hw hu first last s i true hA h)

theorem sym_fold_SI {relc : Option Str} {t : Tree} (hw : WF t = true) (hu : uidsOK t = true)
    (first last : Nat) (todo : List Nat) (hA : ∀ i ∈ todo, AnchorOK relc t i) :
    SI relc t (todo.foldl (symStep first last) { cur := t, done := [] }) := by
  refine foldl_inv (SI relc t) (symStep first last) todo _ ?_ ⟨Inv.refl t hw, fun _ _ _ _ => Or.inl rfl⟩
  intro s i hi hs
  exact symStep_SI hw hu first last s i (hA i hi) hs

/-- candidates with `relc`: paired punctuation, or the next token is tagged `r` -/
theorem relcCands_spec (r : Str) : ∀ (terms : List Tree) (s : Nat),
    terms.map num = List.range' s terms.length → ∀ i ∈ relcCands r terms,
    ∃ x ∈ terms, x.num = i ∧ (isPairPunctWord x = true ∨
      ∃ y ∈ terms, y.num = i + 1 ∧ (y.fields.label == r) = true)
  | [], _, _, i, hi => by simp [relcCands] at hi
  | [x], _, _, i, hi => by
    simp only [relcCands] at hi
    split at hi
    · rename_i hx
      simp only [List.mem_singleton] at hi
      exact ⟨x, by simp, hi.symm, Or.inl hx⟩
    · simp at hi
  | x :: y :: rest, s, hr, i, hi => by
    simp only [List.map_cons, List.length_cons, List.range'_succ, List.cons.injEq] at hr
    have hr' : (y :: rest).map num = List.range' (s + 1) (y :: rest).length := by
      simp only [List.map_cons, List.length_cons, List.range'_succ, List.cons.injEq]
      exact hr.2
    simp only [relcCands, List.mem_append] at hi
    rcases hi with hi | hi
    · split at hi
      · rename_i hc
        simp only [List.mem_singleton] at hi
        simp only [Bool.or_eq_true] at hc
        refine ⟨x, by simp, hi.symm, ?_⟩
        rcases hc with hc | hc
        · exact Or.inl hc
        · exact Or.inr ⟨y, by simp, by omega, hc⟩
      · simp at hi
    · obtain ⟨x', hx', h1, h2⟩ := relcCands_spec r (y :: rest) (s + 1) hr' i hi
      refine ⟨x', List.mem_cons_of_mem _ hx', h1, ?_⟩
      rcases h2 with h2 | ⟨y', hy', h3, h4⟩
      · exact Or.inl h2
      · exact Or.inr ⟨y', List.mem_cons_of_mem _ hy', h3, h4⟩

theorem sym_cands_anchor (relc : Option Str) (t : Tree) (hw : WF t = true) :
    ∀ i ∈ (match relc with
      | none => (t.terminals.filter isPairPunctWord).map num
      | some r => relcCands r t.terminals), AnchorOK relc t i := by
  have hnd := WF_nodup t hw
  have hfind : ∀ x ∈ t.terminals, t.findLeaf x.num = some x := fun x hx =>
    findLeaf_of_mem_nodup t x hnd ((mem_terminals t x).1 hx)
  cases relc with
  | none =>
    intro i hi
    simp only at hi
    obtain ⟨l, hl, rfl⟩ := List.mem_map.1 hi
    obtain ⟨hl1, hlp⟩ := List.mem_filter.1 hl
    exact ⟨l, hfind l hl1, Or.inl hlp⟩
  | some r =>
    intro i hi
    simp only at hi
    have hy : t.terminals.map num = List.range' 1 t.terminals.length := by
      have := WF_yield t hw
      unfold yield at this
      rw [this]
      congr 1
      unfold terminals leafNums
      rw [sortBy_length, List.length_map]
    obtain ⟨x, hx, rfl, h2⟩ := relcCands_spec r t.terminals 1 hy i hi
    refine ⟨x, hfind x hx, ?_⟩
    rcases h2 with h2 | ⟨y, hy', h3, h4⟩
    · exact Or.inl h2
    · refine Or.inr ⟨r, rfl, y, ?_, h4⟩
      rw [← h3]; exact hfind y hy'

theorem sym_SI (relc : Option Str) (t : Tree) (hw : WF t = true) (hu : uidsOK t = true) :
    ∃ s : SymState, s.cur = punctuationSymetrify relc t ∧ SI relc t s := by
  unfold punctuationSymetrify
  simp only
  exact ⟨_, rfl, sym_fold_SI hw hu _ _ _ (sym_cands_anchor relc t hw)⟩

theorem sym_ok_of_SI (relc : Option Str) (t : Tree) (hw : WF t = true) (s : SymState)
    (h : SI relc t s) : symetrifyOK relc t s.cur = true := by
  have hnd := WF_nodup t hw
  unfold symetrifyOK
  rw [List.all_eq_true]
  intro l hl
  unfold movedTokens at hl
  obtain ⟨hl1, hl2⟩ := List.mem_filter.1 hl
  have hlt : l ∈ t.leaves := (mem_terminals t l).1 hl1
  cases hlu : l.fields.uid with
  | none => rw [hlu] at hl2; cases hl2
  | some u =>
    rw [hlu] at hl2
    simp only [bne_iff_ne, ne_eq] at hl2
    rcases h.2 l hlt u hlu with heq | ⟨hpair, _, j, p, _, hjl, ⟨k, hk, hA⟩, hpj, hkid⟩
    · exact absurd heq.symm hl2
    · have hcn := h.1.nodup hnd
      rw [hpair, Bool.true_and, parentOfLeaf_of_hasKid j l.num s.cur hcn p hpj hkid]
      simp only
      obtain ⟨g, hg1, hg2⟩ := parentOfLeaf_kid_mem_leaves j s.cur p hpj
      rw [List.any_eq_true]
      refine ⟨leaf j g, hg1, ?_⟩
      have hkk : k = leaf j g := by
        have := findLeaf_of_mem_nodup t _ hnd (h.1.perm.subset hg2)
        simp only [num_leaf] at this
        rw [hk] at this
        cases this; rfl
      subst hkk
      simp only [isLeaf_leaf, num_leaf, Bool.true_and, Bool.and_eq_true, bne_iff_ne, ne_eq,
        Bool.or_eq_true]
      refine ⟨hjl, ?_⟩
      rcases hA with hA | ⟨r, rfl, nx, hnx, hlab⟩
      · exact Or.inl hA
      · right
        simp only
        rw [h.1.findLeaf hnd, hnx]
        exact hlab

end TT.Lemmas.Punct
