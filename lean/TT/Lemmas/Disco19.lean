/-
  Wave 19, C01: the discobracket reader with options.
  A. `replace_parens` never touches a string of digits (`strToNat?_replaceParens`)
  B. the post-pass `discoApply` commutes with field maps that leave the index alone (`discoApply_mapFields`)
  C. the reader loop WITH the post-pass under `gf_split` / `replace_parens` = the loop without them, post-processed (`readBrackets_discoSim`)
-/
import TT.Lemmas.More12h
import TT.Lemmas.More12f
import TT.Lemmas.More14
import TT.Lemmas.Write
import TT.Spec.More19p
namespace TT.Lemmas.Disco19
open TT TT.Tree TT.Spec TT.Lemmas.Read TT.Lemmas.More4 TT.Lemmas.More12h TT.Lemmas.Disco12 TT.Lemmas.WF TT.Lemmas.Write

/-! ## A. digits and `replace_parens` -/

theorem replaceAllAux_all (p : Char → Bool) (old new : Str) (hnew : ∃ c ∈ new, p c = false) :
    ∀ (n : Nat) (s : Str), (replaceAllAux old new n s).all p = true → replaceAllAux old new n s = s
  | 0, s, _ => by simp [replaceAllAux]
  | n + 1, [], _ => by simp [replaceAllAux]
  | n + 1, x :: xs, h => by
    by_cases hc : (old.isPrefixOf (x :: xs) && !old.isEmpty) = true
    · exfalso
      simp only [replaceAllAux, hc, if_true] at h
      obtain ⟨c, hc1, hc2⟩ := hnew
      have := (List.all_eq_true.1 h) c (by simp [hc1])
      rw [hc2] at this; cases this
    · simp only [replaceAllAux, hc, Bool.false_eq_true, if_false, List.all_cons, Bool.and_eq_true] at h ⊢
      rw [replaceAllAux_all p old new hnew n xs h.2]

theorem replFold_all (p : Char → Bool) : ∀ (L : List (Str × Str)) (s : Str), (∀ kv ∈ L, ∃ c ∈ kv.2, p c = false) →
    (replFold L s).all p = true → replFold L s = s := by
  intro L
  induction L with
  | nil => intro s _ _; rfl
  | cons kv L ih =>
    intro s hL h
    have e : replFold (kv :: L) s = replFold L (replaceAll kv.1 kv.2 s) := rfl
    rw [e] at h ⊢
    have h1 := ih _ (fun kv' hk => hL kv' (by simp [hk])) h
    rw [h1] at h ⊢
    exact replaceAllAux_all p kv.1 kv.2 (hL kv (by simp)) _ s h

theorem brackets_values_nondigit : ∀ kv ∈ Gen.BRACKETS, ∃ c ∈ kv.2, Char.isDigit c = false := by decide +kernel

theorem brackets_keys_nondigit : ∀ kv ∈ Gen.BRACKETS, ∃ c ∈ kv.1, Char.isDigit c = false := by decide +kernel

theorem replaceParens_of_digits (w : Str) (h : w.all Char.isDigit = true) : replaceParens w = w := by
  rw [replaceParens_eq]
  apply replFold_id
  intro kv hkv hi
  obtain ⟨c, hc, hd⟩ := brackets_keys_nondigit kv hkv
  have := List.all_eq_true.1 h c (hi.subset hc)
  rw [hd] at this; cases this

theorem pyIsDigit_replaceParens (w : Str) : pyIsDigit (replaceParens w) = pyIsDigit w := by
  cases h1 : pyIsDigit (replaceParens w) with
  | true =>
    have ha : (replaceParens w).all Char.isDigit = true := by
      simp only [pyIsDigit, Bool.and_eq_true] at h1; exact h1.2
    have e : replaceParens w = w := by
      rw [replaceParens_eq] at ha ⊢
      exact replFold_all _ _ _ brackets_values_nondigit ha
    rw [e] at h1; exact h1.symm
  | false =>
    cases h2 : pyIsDigit w with
    | false => rfl
    | true =>
      have ha : w.all Char.isDigit = true := by
        simp only [pyIsDigit, Bool.and_eq_true] at h2; exact h2.2
      rw [replaceParens_of_digits w ha, h2] at h1; cases h1

/-- `replace_parens` changes neither whether a word is an index nor the index -/
theorem strToNat?_replaceParens (w : Str) : strToNat? (replaceParens w) = strToNat? w := by
  unfold strToNat?
  rw [pyIsDigit_replaceParens]
  split
  · rename_i h
    have ha : w.all Char.isDigit = true := by
      simp only [pyIsDigit, Bool.and_eq_true] at h; exact h.2
    rw [replaceParens_of_digits w ha]
  · rfl

theorem replaceParens_of_index (w : Str) (k : Nat) (h : strToNat? w = some k) : replaceParens w = w := by
  unfold strToNat? at h
  split at h
  · rename_i hd
    simp only [pyIsDigit, Bool.and_eq_true] at hd
    exact replaceParens_of_digits w hd.2
  · cases h

/-! ## B. the post-pass and field maps -/

/-- `φ` on constituents, `ψ` on tokens -/
def mapLN (φ ψ : Fields → Fields) (t : Tree) : Tree :=
  mapFields (fun s f => match s with
    | leaf _ _ => ψ f
    | node _ _ => φ f) t

theorem mapLN_leaf (φ ψ : Fields → Fields) (n : Nat) (f : Fields) : mapLN φ ψ (leaf n f) = leaf n (ψ f) := by
  simp [mapLN, mapFields]

theorem mapLN_node (φ ψ : Fields → Fields) (f : Fields) (ks : List Tree) :
    mapLN φ ψ (node f ks) = node (φ f) (ks.map (mapLN φ ψ)) := by
  simp only [mapLN, mapFields, TT.Lemmas.OwnRT.mapFieldsL_eq]
  rfl

theorem mapFields_const_leaf (φ : Fields → Fields) (n : Nat) (f : Fields) :
    mapFields (fun _ f => φ f) (leaf n f) = leaf n (φ f) := by simp [mapFields]

theorem mapFields_const_node (φ : Fields → Fields) (f : Fields) (ks : List Tree) :
    mapFields (fun _ f => φ f) (node f ks) = node (φ f) (ks.map (mapFields fun _ f => φ f)) := by
  simp only [mapFields, TT.Lemmas.OwnRT.mapFieldsL_eq]

theorem mapLN_same (φ : Fields → Fields) (t : Tree) : mapLN φ φ t = mapFields (fun _ f => φ f) t := by
  induction t using tree_ind with
  | hl n f => rw [mapLN_leaf, mapFields_const_leaf]
  | hn f ks ih => rw [mapLN_node, mapFields_const_node]; congr 1; exact List.map_congr_left ih

theorem discoApplyL_map (b : Bool) (tm : List (Nat × Str)) (g h : Tree → Tree) : ∀ (ks : List Tree),
    (∀ k ∈ ks, discoApply b tm (g k) = (discoApply b tm k).map h) →
    discoApplyL b tm (ks.map g) = (discoApplyL b tm ks).map (List.map h)
  | [], _ => rfl
  | k :: ks, hk => by
    simp only [List.map_cons, discoApplyL]
    rw [hk k (by simp), discoApplyL_map b tm g h ks (fun x hx => hk x (by simp [hx]))]
    cases discoApply b tm k <;> cases discoApplyL b tm ks <;> rfl

/-- a field map `φ` that keeps the index of a token (`H1`, `H2`) and whose effect apart from the word is `ψ` (`H3`)
    can be applied before or after the discobracket post-pass -/
theorem discoApply_mapFields (b : Bool) (tm : List (Nat × Str)) (φ ψ : Fields → Fields)
    (H1 : ∀ f, (φ f).word.bind strToNat? = f.word.bind strToNat?)
    (H2 : ∀ f k, f.word.bind strToNat? = some k → (φ f).word = f.word)
    (H3 : ∀ f w, { φ f with word := w } = ψ { f with word := w }) (t : Tree) :
    discoApply b tm (mapFields (fun _ f => φ f) t) = (discoApply b tm t).map (mapLN φ ψ) := by
  induction t using tree_ind with
  | hl n f =>
    rw [mapFields_const_leaf]
    simp only [discoApply, H1 f]
    cases hk : f.word.bind strToNat? with
    | none => rfl
    | some k =>
      simp only [H2 f k hk]
      cases b
      · simp only [Bool.false_eq_true, if_false, Option.map_some, mapLN_leaf, H3]
      · simp only [if_true, Option.map_some, mapLN_leaf, H3]
  | hn f ks ih =>
    rw [mapFields_const_node, discoApply_node, discoApply_node, discoApplyL_map b tm _ (mapLN φ ψ) ks ih]
    cases discoApplyL b tm ks with
    | none => rfl
    | some ks' => simp only [Option.map_some, mapLN_node]

/-! ### the two maps of the reader -/

theorem gT_eq_mapFields (o : InOpts) (t : Tree) : gT o t = mapFields (fun _ f => fF o f) t := by
  induction t using tree_ind with
  | hl n f => rw [mapFields_const_leaf]; rfl
  | hn f ks ih =>
    rw [mapFields_const_node]
    simp only [gT, gTL_eq]
    congr 1
    exact List.map_congr_left ih

theorem replaceParensTree_eq_mapFields (t : Tree) : replaceParensTree t = mapFields (fun _ f => replaceParensFields f) t := by
  induction t using tree_ind with
  | hl n f => rw [mapFields_const_leaf]; rfl
  | hn f ks ih =>
    rw [mapFields_const_node]
    simp only [replaceParensTree, replaceParensTreeL_eq]
    congr 1
    exact List.map_congr_left ih

theorem fF_word_eq (o : InOpts) (f : Fields) : (fF o f).word = f.word := by
  unfold fF; split <;> rfl

/-- the fields of a token under `replace_parens`, its word set aside -/
def rpKeep (f : Fields) : Fields := { replaceParensFields f with word := f.word }

theorem discoApply_gT (o : InOpts) (b : Bool) (tm : List (Nat × Str)) (t : Tree) :
    discoApply b tm (gT o t) = (discoApply b tm t).map (gT o) := by
  rw [gT_eq_mapFields, discoApply_mapFields b tm (fF o) (fF o) (fun f => by rw [fF_word_eq])
    (fun f k _ => fF_word_eq o f) (fun f w => (fF_word o f w).symm)]
  congr 1
  funext x
  rw [mapLN_same, gT_eq_mapFields]

theorem discoApply_rp (b : Bool) (tm : List (Nat × Str)) (t : Tree) :
    discoApply b tm (replaceParensTree t) = (discoApply b tm t).map replaceParensKeepWord := by
  rw [replaceParensTree_eq_mapFields, discoApply_mapFields b tm replaceParensFields rpKeep]
  · rfl
  · intro f
    show (f.word.map replaceParens).bind strToNat? = _
    cases f.word with
    | none => rfl
    | some w => exact strToNat?_replaceParens w
  · intro f k hk
    show f.word.map replaceParens = f.word
    cases hw : f.word with
    | none => rfl
    | some w =>
      rw [hw] at hk
      simp only [Option.map_some, Option.some.injEq]
      exact replaceParens_of_index w k hk
  · intro f w; rfl

/-- the post-processing of the lemmas (`gT` = `gf_split` where there is an edge label) -/
def dT (o : InOpts) (t : Tree) : Tree := if o.replaceParens then replaceParensKeepWord (gT o t) else gT o t

theorem discoApply_pT (o : InOpts) (b : Bool) (tm : List (Nat × Str)) (t : Tree) :
    discoApply b tm (pT o t) = (discoApply b tm t).map (dT o) := by
  unfold pT dT
  cases o.replaceParens with
  | false => simp only [Bool.false_eq_true, if_false]; exact discoApply_gT o b tm t
  | true =>
    simp only [if_true]
    rw [discoApply_rp, discoApply_gT]
    cases discoApply b tm t <;> rfl

theorem gT_eq_spec (o : InOpts) (t : Tree) :
    gT o t = if o.gfSplit then gfSplitLabelled (o.gfSeparator.getD DEFAULT_GF_SEP) t else t := by
  cases hg : o.gfSplit with
  | false =>
    simp only [Bool.false_eq_true, if_false]
    induction t using tree_ind with
    | hl n f => simp [gT, fF_id o hg]
    | hn f ks ih =>
      simp only [gT, gTL_eq, fF_id o hg]
      congr 1
      conv => rhs; rw [← List.map_id ks]
      exact List.map_congr_left ih
  | true =>
    simp only [if_true]
    rw [gT_eq_mapFields]
    unfold gfSplitLabelled
    congr 1
    funext _ f
    simp [fF, hg, sepOf]

theorem dT_eq_discoPost (o : InOpts) (t : Tree) : dT o t = discoPost o t := by
  unfold dT discoPost
  rw [gT_eq_spec]

/-! ## C. the loop with the post-pass -/

/-- a simulation of the automaton step between two option records: `S` on the automaton state (its `out` component is
    irrelevant), `T` on the tree a step yields, `D` on the tree after the post-pass -/
structure StepSim (o1 o0 : InOpts) (S : BrState → BrState) (T D : Tree → Tree) (Inv : BrState → Prop) : Prop where
  disco1 : o1.disco = true
  disco0 : o0.disco = true
  reord : o1.discoReordered = o0.discoReordered
  step : ∀ st tok, Inv st → brStep o1 (S st) tok =
    match brStep o0 st tok with
    | .error e => .error e
    | .ok (s, r) => .ok (S s, r.map T)
  inv : ∀ st st' tok r, brStep o0 st tok = .ok (st', r) → Inv st → Inv st'
  invOut : ∀ st X, Inv st → Inv { st with out := X }
  outIrrel : ∀ (st : BrState) (X Y : List (Nat × Tree)), ({ S { st with out := X } with out := Y } : BrState) = { S st with out := Y }
  cnt : ∀ st, (S st).cnt = st.cnt
  level : ∀ st, (S st).level = st.level
  apply : ∀ b tm t, discoApply b tm (T t) = (discoApply b tm t).map D

section
variable {o1 o0 : InOpts} {S : BrState → BrState} {T D : Tree → Tree} {Inv : BrState → Prop}

/-- the state of the run with options, seen from the run without -/
def simSt (S : BrState → BrState) (D : Tree → Tree) (st : BrState) : BrState :=
  { S st with out := st.out.map fun x => (x.1, D x.2) }

theorem dStep_sim (H : StepSim o1 o0 S T D Inv) (st : BrState) (tok : Str × LexClass)
    (rest : List (Str × LexClass)) (hI : Inv st) :
    dStep o1 (simSt S D st) tok rest =
      match dStep o0 st tok rest with
      | .error e => .error e
      | .ok (s, r) => .ok (simSt S D s, r) := by
  unfold dStep
  have e0 : simSt S D st = { S st with out := st.out.map fun x => (x.1, D x.2) } := rfl
  rw [e0, brStep_out_irrel, H.step st tok hI]
  cases hs : brStep o0 st tok with
  | error e => rfl
  | ok x =>
    obtain ⟨st', r⟩ := x
    have hout := (brStep_cnt_out _ _ _ _ _ hs).1
    cases r with
    | none =>
      simp only [Option.map_none]
      congr 2
      simp only [simSt, hout]
    | some t =>
      simp only [Option.map_some]
      unfold dPost
      simp only [H.disco1, H.disco0, if_true, H.reord]
      cases rest with
      | nil => rfl
      | cons first rest1 =>
        simp only
        rw [H.apply]
        cases discoApply o0.discoReordered
          (if (first.2 == LexClass.ws && first.1.contains '\n') = true then (([] : List (Nat × Str)), rest1)
            else discoSentence rest1 1 []).1 t with
        | none => rfl
        | some t' =>
          simp only [Option.map_some]
          have e1 : simSt S D { st' with out := (st.cnt, t') :: st'.out } =
              { S st' with out := (st.cnt, D t') :: st'.out.map fun x => (x.1, D x.2) } := by
            unfold simSt; rw [H.outIrrel]; rfl
          rw [e1]
          simp only [hout, H.cnt]

theorem inv_dStep (H : StepSim o1 o0 S T D Inv) (st s : BrState) (tok : Str × LexClass) (rest r : List (Str × LexClass))
    (h : dStep o0 st tok rest = .ok (s, r)) (hI : Inv st) : Inv s := by
  unfold dStep at h
  cases hs : brStep o0 st tok with
  | error e => rw [hs] at h; cases h
  | ok x =>
    obtain ⟨st', rr⟩ := x
    have h9 := H.inv _ _ _ _ hs hI
    rw [hs] at h
    cases rr with
    | none =>
      simp only [Except.ok.injEq, Prod.mk.injEq] at h
      rw [← h.1]; exact h9
    | some t =>
      simp only at h
      unfold dPost at h
      split at h
      · split at h
        · cases h
        · simp only at h
          split at h
          · simp only [Except.ok.injEq, Prod.mk.injEq] at h
            rw [← h.1]; exact H.invOut _ _ h9
          · cases h
      · simp only [Except.ok.injEq, Prod.mk.injEq] at h
        rw [← h.1]; exact H.invOut _ _ h9

theorem brLoop_sim (H : StepSim o1 o0 S T D Inv) : ∀ (fuel : Nat) (st : BrState)
    (toks : List (Str × LexClass)), Inv st →
    brLoop o1 fuel (simSt S D st) toks = (brLoop o0 fuel st toks).map (List.map fun x => (x.1, D x.2)) := by
  intro fuel
  induction fuel with
  | zero => intro st toks _; simp [brLoop, Except.map]
  | succ fuel ih =>
    intro st toks hI
    cases toks with
    | nil =>
      rw [brLoop_nil, brLoop_nil]
      simp only [brEnd]
      have : (simSt S D st).level = st.level := H.level st
      rw [this]
      split
      · rfl
      · simp [Except.map, simSt]
    | cons tok rest =>
      rw [brLoop_cons, brLoop_cons, dStep_sim H st tok rest hI]
      cases hs : dStep o0 st tok rest with
      | error e => rfl
      | ok x =>
        obtain ⟨s, r⟩ := x
        exact ih s r (inv_dStep H _ _ _ _ _ hs hI)
end

/-- `gf_split` and `replace_parens` together (needs `EmptyOK`) -/
theorem stepSim_opts (o : InOpts) (hd : o.disco = true) (ho : EmptyOK o) :
    StepSim o (baseOpts o) (gS o) (pT o) (dT o) Fresh9 where
  disco1 := hd
  disco0 := hd
  reord := rfl
  step := fun st tok hI => by
    rw [step_sim o ho st tok hI]
    cases brStep (baseOpts o) st tok with
    | error e => rfl
    | ok x => rfl
  inv := fun st st' tok r h hI => fresh9_step _ _ _ _ _ h hI
  invOut := fun st X hI => hI
  outIrrel := fun st X Y => rfl
  cnt := fun st => rfl
  level := fun st => rfl
  apply := fun b tm t => discoApply_pT o b tm t

open TT.Lemmas.More14 in
/-- `replace_parens` alone, every option record -/
theorem stepSim_rp (o : InOpts) (hd : o.disco = true) :
    StepSim { o with replaceParens := true } { o with replaceParens := false } rpS replaceParensTree replaceParensKeepWord
      (fun _ => True) where
  disco1 := hd
  disco0 := hd
  reord := rfl
  step := fun st tok _ => by
    rw [step_rp o st tok]
    cases brStep { o with replaceParens := false } st tok with
    | error e => rfl
    | ok x => rfl
  inv := fun _ _ _ _ _ _ => trivial
  invOut := fun _ _ _ => trivial
  outIrrel := fun st X Y => rfl
  cnt := fun st => rfl
  level := fun st => rfl
  apply := fun b tm t => discoApply_rp b tm t

/-- the discobracket reader with label-rewriting options = the reader without them, post-processed by `discoPost` -/
theorem readBrackets_discoSim (o : InOpts) (hd : o.disco = true) (ho : EmptyOK o) (text : Str) :
    readBrackets o text = (readBrackets (baseOpts o) text).map (List.map fun x => (x.1, discoPost o x.2)) := by
  unfold readBrackets
  have e : ({ cnt := o.firstId.getD 1 } : BrState) = simSt (gS o) (dT o) { cnt := (baseOpts o).firstId.getD 1 } := rfl
  rw [e, brLoop_sim (stepSim_opts o hd ho) _ _ _ (by intro h; cases h)]
  congr 1
  funext l
  exact List.map_congr_left (fun x _ => by rw [dT_eq_discoPost])

open TT.Lemmas.More14 in
/-- `replace_parens` in the discobracket reader, EVERY option record -/
theorem readBrackets_discoRp (o : InOpts) (hd : o.disco = true) (text : Str) :
    readBrackets { o with replaceParens := true } text =
      (readBrackets { o with replaceParens := false } text).map (List.map fun x => (x.1, replaceParensKeepWord x.2)) := by
  exact brLoop_sim (stepSim_rp o hd) _ { cnt := o.firstId.getD 1 } _ trivial

/-! ## D. `disco_reordered`, line by line against `decDiscoReordered` -/

open TT.Lemmas.Layout TT.Lemmas.OwnRT

/-- the hypotheses about one line, unpacked -/
structure LineFactsR (line : Str) (tD : Tree) : Prop where
  ex : ∃ (r sent : Str) (t0 : Tree) (c' : Nat), line = ('(' :: r) ++ '\t' :: sent ∧
    decBrNode (2 * ('(' :: r).length + 2) ('(' :: r) 1 = some (t0, [], c') ∧ TreeOK t0 ∧
    (∀ w ∈ splitOnChar ' ' sent, TokStr w) ∧
    (∀ l ∈ leaves t0, (∃ k, l.fields.word.bind strToNat? = some k) ∧ 1 ≤ l.num ∧ l.num ≤ (splitOnChar ' ' sent).length) ∧
    tD = mapFields (reorderedWord (splitOnChar ' ' sent)) t0

theorem lineFactsR_of (line : Str) (tD : Tree) (h : decDiscoReordered line = some tD) (hok : DiscoLineOK line = true)
    (hro : DiscoReorderedOK line = true) : LineFactsR line tD := by
  unfold decDiscoReordered at h
  unfold DiscoLineOK at hok
  unfold DiscoReorderedOK at hro
  split at h
  · rename_i tr sent hsp
    rw [hsp] at hok hro
    simp only at hro
    simp only [Bool.and_eq_true, List.all_eq_true] at hok
    obtain ⟨hwords, hrest⟩ := hok
    cases hd : decBrackets tr with
    | none => rw [hd] at hrest; cases hrest
    | some t0 =>
      rw [hd] at hrest h hro
      simp only [Bool.and_eq_true, List.all_eq_true] at hrest
      obtain ⟨hb, hleaves⟩ := hrest
      simp only [Option.map_some, Option.some.injEq] at h
      simp only [List.all_eq_true, Bool.and_eq_true, decide_eq_true_eq] at hro
      obtain ⟨r, c', rfl, hdec⟩ := decBrackets_some tr t0 hd
      refine ⟨⟨r, sent, t0, c', ?_, hdec, treeOK_of_bracketsOK t0 hb, ?_, ?_, h.symm⟩⟩
      · have := joinWith_splitOnChar '\t' line
        rw [hsp] at this
        simp only [joinWith] at this
        rw [← this]; simp
      · intro w hw
        have := hwords w hw
        exact tokStr_of_fieldOK w this.1 (by
          rw [List.all_eq_true]; intro c hc
          have := this.2 c hc
          simp only [Bool.and_eq_true]; exact this)
      · intro l hl
        refine ⟨?_, hro l hl⟩
        have := hleaves l hl
        cases hk : l.fields.word.bind strToNat? with
        | none => rw [hk] at this; cases this
        | some k => exact ⟨k, rfl⟩
  · cases h

/-- the post-pass with `disco_reordered` on the tree of the tree part -/
theorem discoApply_reordered (tm : List (Nat × Str)) (words : List Str)
    (hlook : ∀ k, 1 ≤ k → k ≤ words.length → (tm.find? (·.1 == k)).map (·.2) = words[k - 1]?) :
    ∀ t0 : Tree, (∀ l ∈ leaves t0, (∃ k, l.fields.word.bind strToNat? = some k) ∧ 1 ≤ l.num ∧ l.num ≤ words.length) →
      discoApply true tm (asReadBrackets t0) = some (asReadBrackets (mapFields (reorderedWord words) t0)) := by
  intro t0
  induction t0 using tree_ind with
  | hl n f =>
    intro h
    obtain ⟨⟨k, hk⟩, h1, h2⟩ := h (leaf n f) (by simp [leaves])
    have hk' : f.word.bind strToNat? = some k := hk
    have h1' : 1 ≤ n := h1
    have h2' : n ≤ words.length := h2
    rw [asRead_leaf, discoApply]
    simp only [hk', if_true]
    have hl := hlook n h1' h2'
    have hw : words[n - 1]? = some (words[n - 1]'(by omega)) := List.getElem?_eq_getElem (by omega)
    rw [hw] at hl
    simp only [mapFields, reorderedWord, asRead_leaf, hw, Option.getD_some]
    cases hf : tm.find? (·.1 == n) with
    | none => rw [hf] at hl; cases hl
    | some y =>
      rw [hf] at hl
      simp only [Option.map_some, Option.some.injEq] at hl
      simp only [Option.map_some, Option.getD_some, hl, List.append_assoc, List.singleton_append]
  | hn f ks ih =>
    intro h
    have hL : ∀ (L : List Tree), (∀ k ∈ L, k ∈ ks) →
        discoApplyL true tm (L.map asReadBrackets) = some (L.map fun t1 => asReadBrackets (mapFields (reorderedWord words) t1)) := by
      intro L
      induction L with
      | nil => intro _; rfl
      | cons k L ihL =>
        intro hsub
        have hk2 := ih k (hsub k (by simp)) (fun l hl => h l (by
          rw [leaves_node]; exact List.mem_flatMap.2 ⟨k, hsub k (by simp), hl⟩))
        have hL2 := ihL (fun x hx => hsub x (by simp [hx]))
        simp only [List.map_cons, discoApplyL, hk2, hL2]
    have hL2 := hL ks (fun k hk => hk)
    rw [asRead_node, discoApply_node, hL2]
    simp only [Option.map_some, mapFields, TT.Lemmas.OwnRT.mapFieldsL_eq, asRead_node, reorderedWord, List.map_map]
    rfl

theorem brD_lineR (o : InOpts) (hg : o.gfSplit = false) (hr : o.replaceParens = false) (hd : o.disco = true)
    (hdr : o.discoReordered = true) (line : Str) (tD : Tree) (hf : LineFactsR line tD) (more : Str) (hm : MoreOK more)
    (cnt0 : Nat) (out : List (Nat × Tree)) :
    brD o ⟨0, 0, [], 1, cnt0, out⟩ (bracketLex (line ++ '\n' :: more)) =
      brD o ⟨0, 0, [], 1, cnt0 + 1, (cnt0, asReadBrackets tD) :: out⟩ (bracketLex more) := by
  obtain ⟨r, sent, t0, c', rfl, hdec, hok, hwords, hrange, rfl⟩ := hf.ex
  have hsent : sent = joinWith [' '] (splitOnChar ' ' sent) := (joinWith_splitOnChar ' ' sent).symm
  generalize hW : splitOnChar ' ' sent = words at hwords hrange hsent
  have hWne : words ≠ [] := by rw [← hW]; exact TT.Lemmas.ExportRT.splitOnChar_ne_nil ' ' sent
  have htext : (('(' :: r) ++ '\t' :: sent) ++ '\n' :: more = '(' :: (r ++ ('\t' :: (joinWith [' '] words ++ '\n' :: more))) := by
    rw [hsent]; simp
  rw [htext]
  have hdec' := (decBr_append _).1 _ _ _ _ _ ('\t' :: (joinWith [' '] words ++ '\n' :: more)) hdec
  simp only [List.nil_append, List.cons_append] at hdec'
  rw [lex_lrb, brD_none o _ _ _ _ (step_lrb_0 o ⟨0, 0, [], 1, cnt0, out⟩ _ rfl)]
  obtain ⟨x, s', hx, hs', hrun⟩ := (dsim_all o hg _).1 true _ 1 t0 _ c' hdec' hok ⟨9, 1, [] ++ [({} : QNode)], 1, cnt0, out⟩ [] 0 rfl rfl rfl rfl
  rw [hrun]
  obtain ⟨w1, wrest, hw1⟩ : ∃ w1 wrest, words = w1 :: wrest := by
    cases words with
    | nil => exact absurd rfl hWne
    | cons a b => exact ⟨a, b, rfl⟩
  obtain ⟨d, ds, hd1, hdt⟩ := tokStr_head w1 (hwords w1 (by rw [hw1]; simp))
  obtain ⟨y, hy⟩ : ∃ y, joinWith [' '] words ++ '\n' :: more = d :: y := by
    rw [hw1]
    cases wrest with
    | nil => exact ⟨ds ++ '\n' :: more, by simp [joinWith, hd1]⟩
    | cons z zs => exact ⟨ds ++ [' '] ++ joinWith [' '] (z :: zs) ++ '\n' :: more, by simp [joinWith, hd1]⟩
  have e1 : '\t' :: (joinWith [' '] words ++ '\n' :: more) = ['\t'] ++ d :: y := by rw [hy]; rfl
  rw [lex_rrb, e1, lex_wsrun_append ['\t'] d y (by simp) (by decide) (isTokC_not_ws d hdt)]
  rw [brD_yield o hd _ _ _ _ _ _ (step_rrb_yield o _ _ hs' x rfl rfl hr)]
  have hfirst' : ((LexClass.ws == LexClass.ws) && (['\t'] : Str).contains '\n') = false := by decide
  simp only [hfirst', Bool.false_eq_true, if_false, hdr]
  rw [← hy, discoSentence_words words 1 [] more hWne hwords hm, hx]
  have hlook : ∀ (k : Nat), 1 ≤ k → k ≤ words.length →
      ((numbered 1 words).find? (·.1 == k)).map (·.2) = words[k - 1]? :=
    fun k h1 h2 => by simpa using find_numbered words 1 k [] h1 (by omega)
  simp only [List.reverse_nil, List.nil_append]
  rw [discoApply_reordered (numbered 1 words) words hlook t0 hrange]

theorem moreOK_linesR (ls : List Str) (ts : List Tree) (h : ls.mapM decDiscoReordered = some ts)
    (hok : ∀ l ∈ ls, DiscoLineOK l = true ∧ DiscoReorderedOK l = true) :
    MoreOK ((ls.map (· ++ ['\n'])).flatten) := by
  cases ls with
  | nil => exact Or.inl rfl
  | cons l ls =>
    right
    obtain ⟨b, _, hb⟩ := mapM_mem _ _ _ h l (by simp)
    obtain ⟨r, sent, _, _, hl, _⟩ := (lineFactsR_of l b hb (hok l (by simp)).1 (hok l (by simp)).2).ex
    exact ⟨'(', r ++ '\t' :: (sent ++ '\n' :: (ls.map (· ++ ['\n'])).flatten), by rw [hl]; simp, by decide⟩

theorem brD_linesR (o : InOpts) (hg : o.gfSplit = false) (hr : o.replaceParens = false) (hd : o.disco = true)
    (hdr : o.discoReordered = true) : ∀ (ls : List Str) (ts : List Tree), ls.mapM decDiscoReordered = some ts →
    (∀ l ∈ ls, DiscoLineOK l = true ∧ DiscoReorderedOK l = true) → ∀ (cnt0 : Nat) (out : List (Nat × Tree)),
    brD o ⟨0, 0, [], 1, cnt0, out⟩ (bracketLex ((ls.map (· ++ ['\n'])).flatten)) =
      .ok (out.reverse ++ (List.range' cnt0 ts.length).zip (ts.map asReadBrackets))
  | [], ts, h, _, cnt0, out => by
    simp only [List.mapM_nil, pure, Option.some.injEq] at h
    subst h
    simp [lex_nil, brD_nil]
  | l :: ls, ts, h, hok, cnt0, out => by
    rw [List.mapM_cons] at h
    cases h1 : decDiscoReordered l with
    | none => simp [h1] at h
    | some tD =>
      cases h2 : ls.mapM decDiscoReordered with
      | none => simp [h1, h2] at h
      | some ts' =>
        simp only [h1, h2, Option.bind_eq_bind, Option.bind_some, pure, Option.some.injEq] at h
        subst h
        have hm := moreOK_linesR ls ts' h2 (fun x hx => hok x (by simp [hx]))
        have e : ((l :: ls).map (· ++ ['\n'])).flatten = l ++ '\n' :: (ls.map (· ++ ['\n'])).flatten := by simp
        rw [e, brD_lineR o hg hr hd hdr l tD (lineFactsR_of l tD h1 (hok l (by simp)).1 (hok l (by simp)).2) _ hm,
          brD_linesR o hg hr hd hdr ls ts' h2 (fun x hx => hok x (by simp [hx]))]
        simp [List.range'_succ]

/-- the discobracket reader with `disco_reordered` against the decoder `decDiscoReordered`, line by line -/
theorem readBrackets_discoReordered (o : InOpts) (hg : o.gfSplit = false) (hr : o.replaceParens = false) (hd : o.disco = true)
    (hdr : o.discoReordered = true) (ls : List Str) (ts : List Tree) (h : ls.mapM decDiscoReordered = some ts)
    (hok : ∀ l ∈ ls, DiscoLineOK l = true ∧ DiscoReorderedOK l = true) :
    readBrackets o ((ls.map (· ++ ['\n'])).flatten) =
      .ok ((List.range' (o.firstId.getD 1) ts.length).zip (ts.map asReadBrackets)) := by
  have := brD_linesR o hg hr hd hdr ls ts h hok (o.firstId.getD 1) []
  simp only [List.reverse_nil, List.nil_append] at this
  exact this

/-! ## E. whitespace inserted into the tree part of a discobracket line -/

theorem brD_cons (o : InOpts) (st : BrState) (tok : Str × LexClass) (rest : List (Str × LexClass)) :
    brD o st (tok :: rest) =
      match dStep o st tok rest with
      | .error e => .error e
      | .ok (s, r) => brD o s r := by
  unfold brD
  rw [List.length_cons, brLoop_cons]
  cases hs : dStep o st tok rest with
  | error e => rfl
  | ok x =>
    obtain ⟨s, r⟩ := x
    have hl := (dStep_suffix o st s tok rest r hs).length_le
    exact TT.Lemmas.Disco12.brLoop_fuel o _ _ s r (by omega) (by omega)

theorem brD_err (o : InOpts) (st : BrState) (tok : Str × LexClass) (rest : List (Str × LexClass)) (e : Err)
    (h : brStep o st tok = .error e) : brD o st (tok :: rest) = .error e := by
  rw [brD_cons]; simp [dStep, h]

/-- no tree is completed while the automaton reads `pre` (the run may stop with an error) -/
def noYield (o : InOpts) : BrState → List (Str × LexClass) → Bool
  | _, [] => true
  | st, tok :: rest =>
    match brStep o st tok with
    | .error _ => true
    | .ok (st', none) => noYield o st' rest
    | .ok (_, some _) => false

theorem noYield_append_left (o : InOpts) (p q : List (Str × LexClass)) : ∀ (st : BrState),
    noYield o st (p ++ q) = true → noYield o st p = true := by
  induction p with
  | nil => intro st _; rfl
  | cons tok p ih =>
    intro st h
    simp only [List.cons_append, noYield] at h ⊢
    cases hs : brStep o st tok with
    | error e => rfl
    | ok x =>
      obtain ⟨st', r⟩ := x
      rw [hs] at h
      cases r with
      | none => exact ih st' h
      | some t => cases h

/-- two continuations that agree from the state reached through `pre`, inside one tree -/
theorem brD_prefix_congr (o : InOpts) (pre X Y : List (Str × LexClass)) : ∀ (st : BrState),
    noYield o st pre = true → (∀ st', brAfter o st pre = .ok st' → brD o st' X = brD o st' Y) →
    brD o st (pre ++ X) = brD o st (pre ++ Y) := by
  induction pre with
  | nil => intro st _ h; exact h st rfl
  | cons tok pre ih =>
    intro st hny h
    simp only [List.cons_append]
    cases hs : brStep o st tok with
    | error e => rw [brD_err o st tok _ e hs, brD_err o st tok _ e hs]
    | ok x =>
      obtain ⟨st', r⟩ := x
      simp only [noYield, hs] at hny
      cases r with
      | none =>
        rw [brD_none o st st' tok _ hs, brD_none o st st' tok _ hs]
        exact ih st' hny (fun st'' h'' => h st'' (by simp [brAfter, hs, h'']))
      | some t => cases hny

theorem dRun_ws_neutral (o : InOpts) (st : BrState) (w : Str) (rest : List (Str × LexClass)) (hs : st.state ≠ 2) :
    brD o st ((w, .ws) :: rest) = brD o st rest :=
  brD_none o st st _ rest (step_ws_other o st w hs)

theorem dRun_ws_text (o : InOpts) (st : BrState) (w1 w2 : Str) (rest : List (Str × LexClass)) :
    brD o st ((w1, .ws) :: rest) = brD o st ((w2, .ws) :: rest) := by
  by_cases h : st.state = 2
  · rw [brD_none o st _ _ _ (step_ws_2 o st w1 h), brD_none o st _ _ _ (step_ws_2 o st w2 h)]
  · rw [dRun_ws_neutral o st w1 rest h, dRun_ws_neutral o st w2 rest h]

theorem dRun_ws_lrb (o : InOpts) (st : BrState) (w p : Str) (rest : List (Str × LexClass)) :
    brD o st ((w, .ws) :: (p, .lrb) :: rest) = brD o st ((p, .lrb) :: rest) := by
  by_cases h : st.state = 2
  · rw [brD_none o st _ _ _ (step_ws_2 o st w h)]
    exact brD_congr o _ st _ _ (by simp [brStep, h]) rfl
  · exact dRun_ws_neutral o st w _ h

theorem dRun_ws_rrb (o : InOpts) (st : BrState) (w p : Str) (rest : List (Str × LexClass))
    (h : o.emptyPos = false ∨ st.state ≠ 2) :
    brD o st ((w, .ws) :: (p, .rrb) :: rest) = brD o st ((p, .rrb) :: rest) := by
  by_cases h2 : st.state = 2
  · rcases h with he | h
    · rw [brD_none o st _ _ _ (step_ws_2 o st w h2),
        brD_err o _ _ _ _ (step_rrb_139 o { st with state := 3 } p (.inr (.inl rfl))),
        brD_err o _ _ _ _ (step_rrb_2_noEmpty o st p h2 he)]
    · exact absurd h2 h
  · exact dRun_ws_neutral o st w _ h2

theorem dRun_skipWs (o : InOpts) (st : BrState) (hs : st.state ≠ 2) (s : Str) (h : skipWs s ≠ []) :
    brD o st (bracketLex s) = brD o st (bracketLex (skipWs s)) := by
  cases s with
  | nil => exact absurd rfl h
  | cons c cs =>
    by_cases hc : isWsC c = true
    · rw [(lex_ws c cs hc).2 h, dRun_ws_neutral o st _ _ hs]
    · rw [skipWs_cons_not c cs (by simpa using hc)]

theorem dRun_ws_prefix (o : InOpts) (st : BrState) (hs : st.state ≠ 2) (w s : Str) (hw : ∀ c ∈ w, pyIsSpace c = true) :
    brD o st (bracketLex (w ++ s)) = brD o st (bracketLex s) := by
  by_cases h : skipWs s = []
  · rw [lex_of_skipWs_nil s h, lex_of_skipWs_nil (w ++ s) (by rw [skipWs_wsrun w s hw]; exact h)]
  · rw [dRun_skipWs o st hs (w ++ s) (by rw [skipWs_wsrun w s hw]; exact h), skipWs_wsrun w s hw, ← dRun_skipWs o st hs s h]

theorem readBrackets_eq_brD (o : InOpts) (text : Str) :
    readBrackets o text = brD o { cnt := o.firstId.getD 1 } (bracketLex text) := rfl

/-- in front of a parenthesis of the tree part -/
theorem dRun_insert_before_paren (o : InOpts) (st0 : BrState) (a w rest : Str) (d : Char) (hd : d = '(' ∨ d = ')')
    (hw : ∀ c ∈ w, pyIsSpace c = true) (hny : noYield o st0 (lexFlushed a) = true)
    (h : d = ')' → o.emptyPos = false ∨ ∀ st', brAfter o st0 (lexFlushed a) = .ok st' → st'.state ≠ 2) :
    brD o st0 (bracketLex (a ++ (w ++ d :: rest))) = brD o st0 (bracketLex (a ++ d :: rest)) := by
  by_cases hne : w = []
  · subst hne; rfl
  have hwb : (w.reverse ++ (Layout.lexBuf a [] []).2.2) ≠ [] := by
    cases w with
    | nil => exact absurd rfl hne
    | cons c cs => simp
  have hL : bracketLex (a ++ (w ++ d :: rest)) = ((Layout.lexBuf a [] []).1 ++ flushT (Layout.lexBuf a [] []).2.1) ++
      ((w.reverse ++ (Layout.lexBuf a [] []).2.2).reverse, LexClass.ws) :: ([d], if d = '(' then LexClass.lrb else LexClass.rrb) :: bracketLex rest := by
    simp only [bracketLex]
    rw [Layout.lexAux_append a (w ++ d :: rest), lexAux_wsrun_buf' _ w _ _ hw hne, lexAux_paren d hd, flushW_ne _ hwb]
    simp only [flushT_nil, List.nil_append, List.append_assoc, List.cons_append]
    rfl
  have hR : bracketLex (a ++ d :: rest) = ((Layout.lexBuf a [] []).1 ++ flushT (Layout.lexBuf a [] []).2.1) ++
      (flushW (Layout.lexBuf a [] []).2.2 ++ ([d], if d = '(' then LexClass.lrb else LexClass.rrb) :: bracketLex rest) := by
    simp only [bracketLex]
    rw [Layout.lexAux_append a (d :: rest), lexAux_paren d hd]
    simp only [List.append_assoc]
    rfl
  rw [hL, hR]
  refine brD_prefix_congr o _ _ _ st0 (noYield_append_left o _ (flushW (Layout.lexBuf a [] []).2.2) st0 hny) ?_
  intro st' hs'
  by_cases hb : (Layout.lexBuf a [] []).2.2 = []
  · have hfl : lexFlushed a = (Layout.lexBuf a [] []).1 ++ flushT (Layout.lexBuf a [] []).2.1 := by simp [lexFlushed, hb, flushW]
    simp only [hb, flushW, List.isEmpty_nil, if_true, List.nil_append]
    rcases hd with rfl | rfl
    · exact dRun_ws_lrb o st' _ _ _
    · refine dRun_ws_rrb o st' _ _ _ ?_
      rcases h rfl with he | hst
      · exact .inl he
      · exact .inr (hst st' (by rw [hfl]; exact hs'))
  · rw [flushW_ne _ hb]
    exact dRun_ws_text o st' _ _ _

/-- directly after a parenthesis that does not complete the tree -/
theorem dRun_insert_after_paren (o : InOpts) (st0 : BrState) (a w rest : Str) (d : Char) (hd : d = '(' ∨ d = ')')
    (hw : ∀ c ∈ w, pyIsSpace c = true)
    (hny : noYield o st0 (lexFlushed a ++ [([d], if d = '(' then LexClass.lrb else LexClass.rrb)]) = true) :
    brD o st0 (bracketLex (a ++ d :: (w ++ rest))) = brD o st0 (bracketLex (a ++ d :: rest)) := by
  have e1 : ∀ x, bracketLex (a ++ d :: x) =
      (lexFlushed a ++ [([d], if d = '(' then LexClass.lrb else LexClass.rrb)]) ++ bracketLex x := by
    intro x
    simp only [bracketLex]
    rw [Layout.lexAux_append a (d :: x), lexAux_paren d hd]
    simp only [lexFlushed, List.append_assoc, List.cons_append, List.nil_append]
    rfl
  rw [e1, e1]
  refine brD_prefix_congr o _ _ _ st0 hny ?_
  intro st' hs'
  -- the state behind a parenthesis is never 2
  have h2 : st'.state ≠ 2 := by
    have key : ∀ (pre : List (Str × LexClass)) (st : BrState) (tok : Str × LexClass), (tok.2 = .lrb ∨ tok.2 = .rrb) →
        ∀ st', brAfter o st (pre ++ [tok]) = .ok st' → st'.state ≠ 2 := by
      intro pre
      induction pre with
      | nil =>
        intro st tok hc st' h
        simp only [List.nil_append, brAfter] at h
        cases hs : brStep o st tok with
        | error e => rw [hs] at h; cases h
        | ok x =>
          obtain ⟨s2, r⟩ := x
          rw [hs] at h
          have := brStep_paren_state o st s2 tok r hc hs
          cases r with
          | none => simp only [Except.ok.injEq] at h; rw [← h]; exact this
          | some t => simp only [Except.ok.injEq] at h; rw [← h]; exact this
      | cons t0 pre ih =>
        intro st tok hc st' h
        simp only [List.cons_append, brAfter] at h
        cases hs : brStep o st t0 with
        | error e => rw [hs] at h; cases h
        | ok x =>
          obtain ⟨s2, r⟩ := x
          rw [hs] at h
          cases r with
          | none => exact ih _ tok hc st' h
          | some t => exact ih _ tok hc st' h
    exact key _ st0 _ (by rcases hd with rfl | rfl <;> simp) st' hs'
  exact dRun_ws_prefix o st' h2 w rest hw

theorem brStep_firstId (o : InOpts) (x : Option Nat) (st : BrState) (tok : Str × LexClass) :
    brStep { o with firstId := x } st tok = brStep o st tok := by
  unfold brStep; rfl

theorem noYield_firstId (o : InOpts) (x : Option Nat) (toks : List (Str × LexClass)) : ∀ (st : BrState),
    noYield { o with firstId := x } st toks = noYield o st toks := by
  induction toks with
  | nil => intro st; rfl
  | cons tok toks ih =>
    intro st
    simp only [noYield, brStep_firstId]
    cases brStep o st tok with
    | error e => rfl
    | ok y =>
      obtain ⟨st', r⟩ := y
      cases r with
      | none => exact ih st'
      | some t => rfl

end TT.Lemmas.Disco19
