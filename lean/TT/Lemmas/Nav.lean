/-
  Tree-specific helper lemmas for C19 (navigation).  Core only (no Mathlib).
-/
import TT.Spec.Nav
import TT.Lemmas.Sort
namespace TT.Lemmas.Nav
open TT TT.Tree TT.Spec

/-! ### generic list facts -/

/-- in a duplicate-free list, a two-element sublist gives the order of first occurrences -/
theorem idxOf_lt_of_sublist {α} [BEq α] [LawfulBEq α] (p q : α) :
    ∀ (l : List α), l.Nodup → [p, q].Sublist l → l.idxOf p < l.idxOf q
  | [], _, h => by simp at h
  | x :: xs, hn, h => by
    rw [List.nodup_cons] at hn
    cases h with
    | cons _ h' =>
      have hp : p ∈ xs := h'.subset (by simp)
      have hq : q ∈ xs := h'.subset (by simp)
      have hxp : (x == p) = false := by
        simp only [beq_eq_false_iff_ne, ne_eq]; rintro rfl; exact hn.1 hp
      have hxq : (x == q) = false := by
        simp only [beq_eq_false_iff_ne, ne_eq]; rintro rfl; exact hn.1 hq
      have := idxOf_lt_of_sublist p q xs hn.2 h'
      simp only [List.idxOf_cons, hxp, hxq, cond_false]
      omega
    | cons_cons _ h' =>
      have hq : q ∈ xs := h'.subset (by simp)
      have hxq : (p == q) = false := by
        simp only [beq_eq_false_iff_ne, ne_eq]; rintro rfl; exact hn.1 hq
      simp [List.idxOf_cons, hxq]

theorem perm_flatMap_of_forall {α β} (f g : α → List β) :
    ∀ (l : List α), (∀ a ∈ l, (f a).Perm (g a)) → (l.flatMap f).Perm (l.flatMap g)
  | [], _ => by simp
  | a :: l, h => by
    simp only [List.flatMap_cons]
    exact (h a List.mem_cons_self).append
      (perm_flatMap_of_forall f g l (fun b hb => h b (List.mem_cons_of_mem _ hb)))

/-- `flattenSorted` only reorders the blocks -/
theorem flattenSorted_perm {α} (l : List (Nat × List α)) :
    (flattenSorted l).Perm ((l.map (·.2)).flatten) :=
  ((sortBy_perm _ l).map _).flatten

theorem sublist_flattenSorted {α} (l : List (Nat × List α)) (b : Nat × List α) (h : b ∈ l) :
    b.2.Sublist (flattenSorted l) :=
  List.sublist_flatten_of_mem (List.mem_map_of_mem ((mem_sortBy _ l b).2 h))

theorem mem_flattenSorted {α} (l : List (Nat × List α)) (x : α) :
    x ∈ flattenSorted l ↔ ∃ b ∈ l, x ∈ b.2 := by
  rw [(flattenSorted_perm l).mem_iff]
  simp only [List.mem_flatten, List.mem_map]
  constructor
  · rintro ⟨_, ⟨b, hb, rfl⟩, hx⟩; exact ⟨b, hb, hx⟩
  · rintro ⟨b, hb, hx⟩; exact ⟨_, ⟨b, hb, rfl⟩, hx⟩

/-! ### children / terminals -/

theorem yield_eq (t : Tree) : yield t = sortBy id t.leafNums := by
  simp only [yield, terminals, leafNums]
  exact sortBy_map_key num t.leaves

/-! ### preorder / postorder on trees -/

theorem preorderK_eq : ∀ ks : List Tree, preorderK ks = ks.map fun t => (leftmost t, preorder t)
  | [] => by simp [preorderK]
  | t :: ts => by simp [preorderK, preorderK_eq ts]

theorem postorderK_eq : ∀ ks : List Tree, postorderK ks = ks.map fun t => (leftmost t, postorder t)
  | [] => by simp [postorderK]
  | t :: ts => by simp [postorderK, postorderK_eq ts]

theorem preorder_unfold (f : Fields) (ks : List Tree) :
    preorder (node f ks) = node f ks :: (children (node f ks)).flatMap preorder := by
  simp only [preorder, preorderK_eq, children, kids, List.flatMap]
  rw [sortBy_map_keyed leftmost preorder ks]

theorem postorder_unfold (f : Fields) (ks : List Tree) :
    postorder (node f ks) = (children (node f ks)).flatMap postorder ++ [node f ks] := by
  simp only [postorder, postorderK_eq, children, kids, List.flatMap]
  rw [sortBy_map_keyed leftmost postorder ks]

theorem subtreesL_eq : ∀ ks : List Tree, subtreesL ks = ks.flatMap subtrees
  | [] => by simp [subtreesL]
  | t :: ts => by simp [subtreesL, subtreesL_eq ts]

mutual
theorem preorder_perm_subtrees : (t : Tree) → (preorder t).Perm (subtrees t)
  | .leaf n f => by simp [preorder, subtrees]
  | .node f ks => by
    rw [preorder_unfold]
    simp only [subtrees]
    refine List.Perm.cons _ ?_
    exact ((sortBy_perm leftmost ks).flatMap_right preorder).trans (preorder_perm_subtreesL ks)
theorem preorder_perm_subtreesL : (ts : List Tree) → (ts.flatMap preorder).Perm (subtreesL ts)
  | [] => by simp [subtreesL]
  | t :: ts => by
    simp only [List.flatMap_cons, subtreesL]
    exact (preorder_perm_subtrees t).append (preorder_perm_subtreesL ts)
end

mutual
theorem postorder_perm_subtrees : (t : Tree) → (postorder t).Perm (subtrees t)
  | .leaf n f => by simp [postorder, subtrees]
  | .node f ks => by
    rw [postorder_unfold]
    simp only [subtrees]
    refine List.perm_append_comm.trans (List.Perm.cons _ ?_)
    exact ((sortBy_perm leftmost ks).flatMap_right postorder).trans (postorder_perm_subtreesL ks)
theorem postorder_perm_subtreesL : (ts : List Tree) → (ts.flatMap postorder).Perm (subtreesL ts)
  | [] => by simp [subtreesL]
  | t :: ts => by
    simp only [List.flatMap_cons, subtreesL]
    exact (postorder_perm_subtrees t).append (postorder_perm_subtreesL ts)
end

/-! ### paths -/

mutual
theorem paths_nodup : (t : Tree) → (paths t).Nodup
  | .leaf _ _ => by simp [paths]
  | .node _ ks => by
    simp only [paths, List.nodup_cons]
    refine ⟨?_, (pathsL_nodup ks 0).1⟩
    intro h
    obtain ⟨j, r, h, _⟩ := (pathsL_nodup ks 0).2 _ h
    cases h
theorem pathsL_nodup : (ts : List Tree) → (i : Nat) →
    (pathsL ts i).Nodup ∧ ∀ p ∈ pathsL ts i, ∃ j r, p = j :: r ∧ i ≤ j
  | [], _ => by simp [pathsL]
  | t :: ts, i => by
    have ih := pathsL_nodup ts (i + 1)
    have iht := paths_nodup t
    simp only [pathsL]
    refine ⟨?_, ?_⟩
    · rw [List.nodup_append]
      refine ⟨?_, ih.1, ?_⟩
      · exact (List.pairwise_map.2 (iht.imp (by intro a b hab h; exact hab (List.cons.inj h).2)))
      · intro a ha b hb hab
        subst hab
        obtain ⟨j, r, rfl, hj⟩ := ih.2 _ hb
        simp only [List.mem_map] at ha
        obtain ⟨_, _, h⟩ := ha
        have := (List.cons.inj h).1
        omega
    · intro p hp
      rcases List.mem_append.1 hp with hp | hp
      · simp only [List.mem_map] at hp
        obtain ⟨r, _, rfl⟩ := hp
        exact ⟨i, r, rfl, Nat.le_refl _⟩
      · obtain ⟨j, r, rfl, hj⟩ := ih.2 _ hp
        exact ⟨j, r, rfl, by omega⟩
end

mutual
theorem preorderP_perm_paths : (t : Tree) → (preorderP t).Perm (paths t)
  | .leaf _ _ => by simp [preorderP, paths]
  | .node _ ks => by
    simp only [preorderP, paths]
    exact List.Perm.cons _ ((flattenSorted_perm _).trans (preorderPK_perm ks 0))
theorem preorderPK_perm : (ts : List Tree) → (i : Nat) →
    (((preorderPK ts i).map (·.2)).flatten).Perm (pathsL ts i)
  | [], _ => by simp [preorderPK, pathsL]
  | t :: ts, i => by
    simp only [preorderPK, pathsL, List.map_cons, List.flatten_cons]
    exact ((preorderP_perm_paths t).map _).append (preorderPK_perm ts (i + 1))
end

mutual
theorem postorderP_perm_paths : (t : Tree) → (postorderP t).Perm (paths t)
  | .leaf _ _ => by simp [postorderP, paths]
  | .node _ ks => by
    simp only [postorderP, paths]
    exact List.perm_append_comm.trans
      (List.Perm.cons _ ((flattenSorted_perm _).trans (postorderPK_perm ks 0)))
theorem postorderPK_perm : (ts : List Tree) → (i : Nat) →
    (((postorderPK ts i).map (·.2)).flatten).Perm (pathsL ts i)
  | [], _ => by simp [postorderPK, pathsL]
  | t :: ts, i => by
    simp only [postorderPK, pathsL, List.map_cons, List.flatten_cons]
    exact ((postorderP_perm_paths t).map _).append (postorderPK_perm ts (i + 1))
end

theorem preorderP_nodup (t : Tree) : (preorderP t).Nodup :=
  (preorderP_perm_paths t).symm.nodup (paths_nodup t)

theorem postorderP_nodup (t : Tree) : (postorderP t).Nodup :=
  (postorderP_perm_paths t).symm.nodup (paths_nodup t)

/-! ### ancestors come first (preorder) / last (postorder) -/

theorem properPrefix_nil_right (p : Path) : properPrefix p [] = false := by
  cases p <;> simp [properPrefix, isPrefix]

theorem properPrefix_cons_cons (i j : Nat) (p q : Path) :
    properPrefix (i :: p) (j :: q) = true ↔ i = j ∧ properPrefix p q = true := by
  simp [properPrefix, isPrefix, and_assoc]

mutual
theorem preorderP_sublist : (t : Tree) → (p q : Path) → q ∈ preorderP t →
    properPrefix p q = true → [p, q].Sublist (preorderP t)
  | .leaf _ _, p, q, hq, h => by
    simp only [preorderP, List.mem_singleton] at hq
    subst hq
    simp [properPrefix_nil_right] at h
  | .node _ ks, [], q, hq, h => by
    simp only [preorderP] at hq ⊢
    have hq0 : q ≠ [] := by rintro rfl; simp [properPrefix_nil_right] at h
    have hq' : q ∈ flattenSorted (preorderPK ks 0) := by
      rcases List.mem_cons.1 hq with h | h
      · exact absurd h hq0
      · exact h
    exact List.Sublist.cons_cons _ (List.singleton_sublist.2 hq')
  | .node _ ks, i :: p, q, hq, h => by
    simp only [preorderP] at hq ⊢
    have hq0 : q ≠ [] := by rintro rfl; simp [properPrefix_nil_right] at h
    have hq' : q ∈ flattenSorted (preorderPK ks 0) := by
      rcases List.mem_cons.1 hq with h | h
      · exact absurd h hq0
      · exact h
    obtain ⟨b, hb, hqb⟩ := (mem_flattenSorted _ _).1 hq'
    exact List.Sublist.cons _ ((preorderPK_sublist ks 0 b hb (i :: p) q hqb h (by simp)).trans
      (sublist_flattenSorted _ b hb))
theorem preorderPK_sublist : (ts : List Tree) → (n : Nat) → ∀ b ∈ preorderPK ts n,
    ∀ (p q : Path), q ∈ b.2 → properPrefix p q = true → p ≠ [] → [p, q].Sublist b.2
  | [], _, b, hb, _, _, _, _, _ => by simp [preorderPK] at hb
  | t :: ts, n, b, hb, p, q, hq, h, hp => by
    simp only [preorderPK, List.mem_cons] at hb
    rcases hb with rfl | hb
    · simp only [List.mem_map] at hq
      obtain ⟨q', hq', rfl⟩ := hq
      cases p with
      | nil => exact absurd rfl hp
      | cons j p' =>
        obtain ⟨rfl, h'⟩ := (properPrefix_cons_cons _ _ _ _).1 h
        exact (preorderP_sublist t p' q' hq' h').map (j :: ·)
    · exact preorderPK_sublist ts (n + 1) b hb p q hq h hp
end

mutual
theorem postorderP_sublist : (t : Tree) → (p q : Path) → q ∈ postorderP t →
    properPrefix p q = true → [q, p].Sublist (postorderP t)
  | .leaf _ _, p, q, hq, h => by
    simp only [postorderP, List.mem_singleton] at hq
    subst hq
    simp [properPrefix_nil_right] at h
  | .node _ ks, [], q, hq, h => by
    simp only [postorderP] at hq ⊢
    have hq0 : q ≠ [] := by rintro rfl; simp [properPrefix_nil_right] at h
    have hq' : q ∈ flattenSorted (postorderPK ks 0) := by
      rcases List.mem_append.1 hq with h | h
      · exact h
      · exact absurd (List.mem_singleton.1 h) hq0
    exact List.Sublist.append (List.singleton_sublist.2 hq') (List.Sublist.refl [[]])
  | .node _ ks, i :: p, q, hq, h => by
    simp only [postorderP] at hq ⊢
    have hq0 : q ≠ [] := by rintro rfl; simp [properPrefix_nil_right] at h
    have hq' : q ∈ flattenSorted (postorderPK ks 0) := by
      rcases List.mem_append.1 hq with h | h
      · exact h
      · exact absurd (List.mem_singleton.1 h) hq0
    obtain ⟨b, hb, hqb⟩ := (mem_flattenSorted _ _).1 hq'
    exact ((postorderPK_sublist ks 0 b hb (i :: p) q hqb h (by simp)).trans
      (sublist_flattenSorted _ b hb)).trans (List.sublist_append_left _ _)
theorem postorderPK_sublist : (ts : List Tree) → (n : Nat) → ∀ b ∈ postorderPK ts n,
    ∀ (p q : Path), q ∈ b.2 → properPrefix p q = true → p ≠ [] → [q, p].Sublist b.2
  | [], _, b, hb, _, _, _, _, _ => by simp [postorderPK] at hb
  | t :: ts, n, b, hb, p, q, hq, h, hp => by
    simp only [postorderPK, List.mem_cons] at hb
    rcases hb with rfl | hb
    · simp only [List.mem_map] at hq
      obtain ⟨q', hq', rfl⟩ := hq
      cases p with
      | nil => exact absurd rfl hp
      | cons j p' =>
        obtain ⟨rfl, h'⟩ := (properPrefix_cons_cons _ _ _ _).1 h
        exact (postorderP_sublist t p' q' hq' h').map (j :: ·)
    · exact postorderPK_sublist ts (n + 1) b hb p q hq h hp
end

/-! ### dominance -/

theorem dominancePaths_length (p : Path) : (dominancePaths p).length = p.length + 1 := by
  simp [dominancePaths]

theorem dominancePaths_getElem? (p : Path) (i : Nat) (h : i ≤ p.length) :
    (dominancePaths p)[i]? = some (p.take (p.length - i)) := by
  simp only [dominancePaths, List.getElem?_map]
  rw [List.getElem?_reverse (by simp; omega)]
  simp only [List.length_range]
  rw [List.getElem?_range (by omega)]
  simp

/-! ### lca -/

theorem commonPrefix_comm : ∀ p q : Path, commonPrefix p q = commonPrefix q p
  | [], [] => rfl
  | [], _ :: _ => by simp [commonPrefix]
  | _ :: _, [] => by simp [commonPrefix]
  | a :: as, b :: bs => by
    simp only [commonPrefix]
    by_cases h : a = b
    · subst h; simp [commonPrefix_comm as bs]
    · have : ¬ b = a := fun h' => h h'.symm
      simp [h, this]

theorem isPrefix_commonPrefix_left : ∀ p q : Path, isPrefix (commonPrefix p q) p = true
  | [], [] => by simp [commonPrefix, isPrefix]
  | [], _ :: _ => by simp [commonPrefix, isPrefix]
  | _ :: _, [] => by simp [commonPrefix, isPrefix]
  | a :: as, b :: bs => by
    simp only [commonPrefix]
    split
    · simp [isPrefix, isPrefix_commonPrefix_left as bs]
    · simp [isPrefix]

theorem isPrefix_commonPrefix_right (p q : Path) : isPrefix (commonPrefix p q) q = true := by
  rw [commonPrefix_comm]; exact isPrefix_commonPrefix_left q p

theorem commonPrefix_length_left : ∀ p q : Path,
    (commonPrefix p q).length = p.length ↔ isPrefix p q = true
  | [], [] => by simp [commonPrefix, isPrefix]
  | [], _ :: _ => by simp [commonPrefix, isPrefix]
  | _ :: _, [] => by simp [commonPrefix, isPrefix]
  | a :: as, b :: bs => by
    simp only [commonPrefix]
    by_cases h : a = b
    · subst h; simp [isPrefix, commonPrefix_length_left as bs]
    · simp [h, isPrefix]

theorem commonPrefix_length_right (p q : Path) :
    (commonPrefix p q).length = q.length ↔ isPrefix q p = true := by
  rw [commonPrefix_comm]; exact commonPrefix_length_left q p

theorem commonPrefix_next_ne : ∀ p q : Path, isPrefix p q = false → isPrefix q p = false →
    p[(commonPrefix p q).length]? ≠ q[(commonPrefix p q).length]?
  | [], _, h, _ => by simp [isPrefix] at h
  | _ :: _, [], _, h => by simp [isPrefix] at h
  | a :: as, b :: bs, h1, h2 => by
    simp only [commonPrefix]
    by_cases h : a = b
    · subst h
      simp only [isPrefix, beq_self_eq_true, Bool.true_and] at h1 h2
      simpa using commonPrefix_next_ne as bs h1 h2
    · simp [h]

/-! ### height -/

theorem maxNat_append (a b : List Nat) : maxNat (a ++ b) = max (maxNat a) (maxNat b) := by
  induction a with
  | nil => simp [maxNat]
  | cons x xs ih => simp only [List.cons_append, maxNat, ih]; omega

mutual
theorem maxNat_depthsAux : (t : Tree) → (d : Nat) → t.noEmpty = true →
    maxNat (depthsAux t d) = d + height t
  | .leaf _ _, d, _ => by simp [depthsAux, maxNat, height]
  | .node _ ks, d, h => by
    simp only [noEmpty, Bool.and_eq_true, Bool.not_eq_true', List.isEmpty_eq_false_iff] at h
    simp only [depthsAux, height]
    rw [maxNat_depthsAuxL ks (d + 1) h.2, if_neg h.1]
    omega
theorem maxNat_depthsAuxL : (ts : List Tree) → (d : Nat) → noEmptyL ts = true →
    maxNat (depthsAuxL ts d) = if ts = [] then 0 else d + heightL ts
  | [], _, _ => by simp [depthsAuxL, maxNat]
  | t :: ts, d, h => by
    simp only [noEmptyL, Bool.and_eq_true] at h
    simp only [depthsAuxL, maxNat_append, maxNat_depthsAux t d h.1, maxNat_depthsAuxL ts d h.2,
      heightL, reduceCtorEq, if_false]
    split
    · subst_vars; simp [heightL]
    · omega
end

/-! ### siblings -/

theorem orderedIdx_perm (ks : List Tree) : (orderedIdx ks).Perm (List.range ks.length) := by
  have h := ((sortBy_perm (fun (p : Nat × Tree) => p.2.leftmost) ((List.range ks.length).zip ks)).map (·.1))
  have h2 : ((List.range ks.length).zip ks).map (·.1) = List.range ks.length :=
    List.map_fst_zip (by simp)
  rw [h2] at h
  exact h

theorem orderedIdx_nodup (ks : List Tree) : (orderedIdx ks).Nodup :=
  (orderedIdx_perm ks).symm.nodup List.nodup_range

theorem idxOf?_getElem_of_nodup {l : List Nat} (hn : l.Nodup) {k : Nat} {j : Nat}
    (h : l[k]? = some j) : l.idxOf? j = some k := by
  obtain ⟨hk, hj⟩ := List.getElem?_eq_some_iff.1 h
  rw [List.idxOf?_eq_some_iff]
  refine ⟨hk, hj, ?_⟩
  intro m hm hmj
  have := (List.getElem_inj (h₀ := by omega) (h₁ := hk) hn).1 (hmj.trans hj.symm)
  omega

theorem getElem?_of_idxOf? {l : List Nat} {k i : Nat} (h : l.idxOf? i = some k) : l[k]? = some i := by
  obtain ⟨hk, hi, _⟩ := List.idxOf?_eq_some_iff.1 h
  exact List.getElem?_eq_some_iff.2 ⟨hk, hi⟩

theorem dropLast_append_of_getLast? {p : Path} {i : Nat} (h : p.getLast? = some i) :
    p.dropLast ++ [i] = p := by
  have hne : p ≠ [] := by rintro rfl; simp at h
  have := List.dropLast_concat_getLast hne
  rw [List.getLast?_eq_some_getLast hne] at h
  rw [← Option.some.inj h]; exact this

/-! ### height / noEmpty / leftmost along paths -/

theorem height_le_heightL : ∀ (ks : List Tree) (k : Tree), k ∈ ks → height k ≤ heightL ks
  | [], _, h => by simp at h
  | t :: ts, k, h => by
    simp only [heightL]
    rcases List.mem_cons.1 h with rfl | h
    · omega
    · have := height_le_heightL ts k h; omega

theorem height_get?_le : ∀ (p : Path) (t s : Tree), get? t p = some s →
    height s + p.length ≤ height t
  | [], t, s, h => by
    simp only [get?, Option.some.injEq] at h; subst h; simp
  | i :: p, .leaf _ _, s, h => by simp [get?] at h
  | i :: p, .node f ks, s, h => by
    simp only [get?] at h
    cases hk : ks[i]? with
    | none => simp [hk] at h
    | some k =>
      simp only [hk] at h
      have h1 := height_get?_le p k s h
      have h2 := height_le_heightL ks k (List.mem_of_getElem? hk)
      simp only [height, List.length_cons]; omega

theorem get?_append : ∀ (p r : Path) (t : Tree),
    get? t (p ++ r) = (get? t p).bind (fun s => get? s r)
  | [], r, t => by simp [get?]
  | i :: p, r, .leaf _ _ => by simp [get?]
  | i :: p, r, .node f ks => by
    simp only [List.cons_append, get?]
    cases hk : ks[i]? with
    | none => simp
    | some k => simp [get?_append p r k]

theorem isPrefix_exists : ∀ p q : Path, isPrefix p q = true → ∃ r, q = p ++ r
  | [], q, _ => ⟨q, rfl⟩
  | _ :: _, [], h => by simp [isPrefix] at h
  | a :: as, b :: bs, h => by
    simp only [isPrefix, Bool.and_eq_true, beq_iff_eq] at h
    obtain ⟨r, hr⟩ := isPrefix_exists as bs h.2
    exact ⟨r, by simp [h.1, hr]⟩

theorem properPrefix_exists (p q : Path) (h : properPrefix p q = true) :
    ∃ r, q = p ++ r ∧ 0 < r.length := by
  simp only [properPrefix, Bool.and_eq_true, decide_eq_true_eq] at h
  obtain ⟨r, rfl⟩ := isPrefix_exists p q h.1
  refine ⟨r, rfl, ?_⟩
  have := h.2; simp at this; exact this

/-- the subtree at a proper descendant is strictly lower -/
theorem height_lt_of_properPrefix (t : Tree) (p q : Path) (s s' : Tree)
    (hp : get? t p = some s) (hq : get? t q = some s') (h : properPrefix p q = true) :
    height s' < height s := by
  obtain ⟨r, rfl, hr⟩ := properPrefix_exists p q h
  rw [get?_append, hp] at hq
  have := height_get?_le r s s' hq
  omega

theorem noEmpty_of_mem : ∀ (ks : List Tree) (k : Tree), noEmptyL ks = true → k ∈ ks →
    noEmpty k = true
  | [], _, _, h => by simp at h
  | t :: ts, k, hne, h => by
    simp only [noEmptyL, Bool.and_eq_true] at hne
    rcases List.mem_cons.1 h with rfl | h
    · exact hne.1
    · exact noEmpty_of_mem ts k hne.2 h

theorem noEmpty_get? : ∀ (p : Path) (t s : Tree), noEmpty t = true → get? t p = some s →
    noEmpty s = true
  | [], t, s, hne, h => by
    simp only [get?, Option.some.injEq] at h; subst h; exact hne
  | i :: p, .leaf _ _, s, _, h => by simp [get?] at h
  | i :: p, .node f ks, s, hne, h => by
    simp only [get?] at h
    simp only [noEmpty, Bool.and_eq_true] at hne
    cases hk : ks[i]? with
    | none => simp [hk] at h
    | some k =>
      simp only [hk] at h
      exact noEmpty_get? p k s (noEmpty_of_mem ks k hne.2 (List.mem_of_getElem? hk)) h

theorem head_sortBy_id : ∀ l : List Nat, ((sortBy id l).head?).getD 0 = minNat l
  | [] => rfl
  | [a] => rfl
  | a :: b :: r => by
    have ih := head_sortBy_id (b :: r)
    have hlen := sortBy_length id (b :: r)
    simp only [minNat]
    rw [← ih, show sortBy id (a :: b :: r) = insertBy id a (sortBy id (b :: r)) from rfl]
    cases hs : sortBy id (b :: r) with
    | nil => rw [hs] at hlen; simp at hlen
    | cons c cs =>
      simp only [insertBy, id]
      split <;> simp <;> omega

/-- the sorted-first token number is the minimum of the token numbers -/
theorem leftmost_eq_minLeaf (t : Tree) : leftmost t = minLeaf t := by
  simp only [leftmost, minLeaf, yield_eq]; exact head_sortBy_id _

/-! ### export numbering -/

/-- the path addresses a constituent with at least one child -/
def isCons (t : Tree) (p : Path) : Bool :=
  match t.get? p with
  | some (node _ (_ :: _)) => true
  | _ => false

/-- the constituents in numbering order: by level, then by leftmost token, then preorder -/
def sortedCons (t : Tree) : List (Path × Nat × Nat) :=
  sortBy (fun x => x.2.1) (sortBy (fun x => x.2.2) (constituentsPre t))

/-- what a numbering entry records -/
def EntryOK (t : Tree) (x : Path × Nat × Nat) : Prop :=
  ∃ s, get? t x.1 = some s ∧ isCons t x.1 = true ∧ x.2.1 = height s ∧ x.2.2 = leftmost s

theorem exportNumbering_eq (t : Tree) :
    exportNumbering t = (sortedCons t).zipIdx.map
      (fun xi => (xi.1.1, if xi.1.1 = [] then 0 else 500 + xi.2)) := by
  unfold exportNumbering sortedCons
  simp only [List.map_map]
  apply List.map_congr_left
  rintro ⟨x, i⟩ _
  simp only [Function.comp_apply]
  split <;> simp_all

theorem exportNumbering_length (t : Tree) : (exportNumbering t).length = (sortedCons t).length := by
  simp [exportNumbering_eq]

theorem exportNumbering_map_fst (t : Tree) :
    (exportNumbering t).map (·.1) = (sortedCons t).map (·.1) := by
  rw [exportNumbering_eq, List.map_map]
  conv => rhs; rw [← List.zipIdx_map_fst 0 (sortedCons t), List.map_map]
  rfl

theorem mem_exportNumbering (t : Tree) (pn : Path × Nat) :
    pn ∈ exportNumbering t ↔ ∃ x i, (sortedCons t)[i]? = some x ∧
      pn = (x.1, if x.1 = [] then 0 else 500 + i) := by
  rw [exportNumbering_eq, List.mem_map]
  constructor
  · rintro ⟨⟨x, i⟩, hm, rfl⟩
    exact ⟨x, i, List.mem_zipIdx_iff_getElem?.1 hm, rfl⟩
  · rintro ⟨x, i, hm, rfl⟩
    exact ⟨(x, i), List.mem_zipIdx_iff_getElem?.2 hm, rfl⟩

theorem constituentsPre_entry (t : Tree) (x : Path × Nat × Nat) (h : x ∈ constituentsPre t) :
    EntryOK t x := by
  simp only [constituentsPre, List.mem_filterMap] at h
  obtain ⟨p, _, hx⟩ := h
  cases hg : t.get? p with
  | none => simp [hg] at hx
  | some s =>
    cases s with
    | leaf n f => simp [hg] at hx
    | node f ks =>
      cases ks with
      | nil => simp [hg] at hx
      | cons k ks =>
        simp only [hg, Option.some.injEq] at hx
        subst hx
        exact ⟨_, hg, by simp [isCons, hg], rfl, rfl⟩

theorem sortedCons_entry (t : Tree) (x : Path × Nat × Nat) (h : x ∈ sortedCons t) : EntryOK t x :=
  constituentsPre_entry t x ((mem_sortBy _ _ _).1 ((mem_sortBy _ _ _).1 h))

theorem filterMap_cons_map_fst (t : Tree) : ∀ l : List Path,
    (l.filterMap fun p =>
      match t.get? p with
      | some (node f (k :: ks)) => some (p, height (node f (k :: ks)), leftmost (node f (k :: ks)))
      | _ => none).map (·.1) = l.filter (isCons t)
  | [] => rfl
  | p :: l => by
    have ih := filterMap_cons_map_fst t l
    rcases hg : t.get? p with _ | (⟨n, f⟩ | ⟨f, _ | ⟨k, ks⟩⟩)
    all_goals simp only [List.filterMap_cons, List.filter_cons, isCons, hg]
    all_goals simpa using ih

theorem constituentsPre_map_fst (t : Tree) :
    (constituentsPre t).map (·.1) = (preorderP t).filter (isCons t) :=
  filterMap_cons_map_fst t _

theorem sortedCons_map_fst_perm (t : Tree) :
    ((sortedCons t).map (·.1)).Perm ((paths t).filter (isCons t)) := by
  have h1 : (sortedCons t).Perm (constituentsPre t) := (sortBy_perm _ _).trans (sortBy_perm _ _)
  have h2 := h1.map (·.1)
  rw [constituentsPre_map_fst] at h2
  exact h2.trans ((preorderP_perm_paths t).filter _)

theorem sortedCons_nodup (t : Tree) : ((sortedCons t).map (·.1)).Nodup :=
  (sortedCons_map_fst_perm t).symm.nodup ((paths_nodup t).filter _)

/-- numbering order is lexicographic in (level, leftmost token) -/
theorem sortedCons_pairwise (t : Tree) :
    (sortedCons t).Pairwise (fun a b => a.2.1 < b.2.1 ∨ (a.2.1 = b.2.1 ∧ a.2.2 ≤ b.2.2)) :=
  sortBy_stable (fun (x : Path × Nat × Nat) => x.2.1) (fun a b => a.2.2 ≤ b.2.2) _
    (sortBy_sorted (fun (x : Path × Nat × Nat) => x.2.2) _)

theorem pairwise_getElem? {α} {R : α → α → Prop} {l : List α} (h : l.Pairwise R) {i j : Nat}
    {x y : α} (hi : l[i]? = some x) (hj : l[j]? = some y) (hij : i < j) : R x y := by
  obtain ⟨hi', rfl⟩ := List.getElem?_eq_some_iff.1 hi
  obtain ⟨hj', rfl⟩ := List.getElem?_eq_some_iff.1 hj
  exact List.pairwise_iff_getElem.1 h i j hi' hj' hij

/-- an entry with a strictly smaller (level, leftmost) pair sits at a smaller index -/
theorem sortedCons_idx_lt (t : Tree) {i j : Nat} {x y : Path × Nat × Nat}
    (hi : (sortedCons t)[i]? = some x) (hj : (sortedCons t)[j]? = some y)
    (h : x.2.1 < y.2.1 ∨ (x.2.1 = y.2.1 ∧ x.2.2 < y.2.2)) : i < j := by
  rcases Nat.lt_trichotomy i j with hlt | heq | hgt
  · exact hlt
  · subst heq
    rw [hi] at hj
    cases hj
    omega
  · have := pairwise_getElem? (sortedCons_pairwise t) hj hi hgt
    omega

theorem nil_mem_paths (t : Tree) : [] ∈ paths t := by
  cases t <;> simp [paths]

theorem WF_root (t : Tree) (h : WF t = true) : isCons t [] = true ∧ noEmpty t = true := by
  simp only [WF, Bool.and_eq_true] at h
  obtain ⟨⟨⟨h1, h2⟩, _⟩, _⟩ := h
  refine ⟨?_, h2⟩
  cases t with
  | leaf n f => simp [isLeaf] at h1
  | node f ks =>
    cases ks with
    | nil => simp [noEmpty] at h2
    | cons k ks => simp [isCons, get?]

/-- the root, being strictly the highest constituent, is numbered last -/
theorem sortedCons_root_last (t : Tree) (hc : isCons t [] = true) :
    ∃ S' r, sortedCons t = S' ++ [r] ∧ r.1 = [] ∧ ∀ x ∈ S', x.1 ≠ [] := by
  have hmem : [] ∈ (sortedCons t).map (·.1) :=
    (sortedCons_map_fst_perm t).symm.subset (List.mem_filter.2 ⟨nil_mem_paths t, hc⟩)
  obtain ⟨x0, hx0, hx0nil⟩ := List.mem_map.1 hmem
  have hne : sortedCons t ≠ [] := List.ne_nil_of_mem hx0
  have hS := (List.dropLast_concat_getLast hne).symm
  generalize (sortedCons t).dropLast = S' at hS
  generalize (sortedCons t).getLast hne = r at hS
  have hpw := sortedCons_pairwise t
  have hnd := sortedCons_nodup t
  have hent : ∀ x ∈ S' ++ [r], EntryOK t x := fun x hx => sortedCons_entry t x (hS ▸ hx)
  rw [hS] at hpw hnd hx0
  rw [List.pairwise_append] at hpw
  simp only [List.map_append, List.map_cons, List.map_nil, List.nodup_append, List.mem_map,
    List.mem_singleton] at hnd
  have hdiff : ∀ x ∈ S', x.1 ≠ r.1 := fun x hx => hnd.2.2 x.1 ⟨x, hx, rfl⟩ r.1 rfl
  have hr : r.1 = [] := by
    rcases List.mem_append.1 hx0 with h | h
    · -- the root would sit strictly before a constituent that is at least as high
      exfalso
      have hle := hpw.2.2 x0 h r (List.mem_singleton.2 rfl)
      obtain ⟨s0, hg0, _, hh0, _⟩ := hent x0 (List.mem_append_left _ h)
      obtain ⟨s, hg, _, hh, _⟩ := hent r (List.mem_append_right _ (List.mem_singleton.2 rfl))
      rw [hx0nil] at hg0
      simp only [get?, Option.some.injEq] at hg0
      subst hg0
      have hrne : r.1 ≠ [] := fun h' => hdiff x0 h (hx0nil.trans h'.symm)
      have := height_get?_le r.1 t s hg
      have : 0 < r.1.length := List.length_pos_iff.2 hrne
      omega
    · rw [List.mem_singleton.1 h] at hx0nil; exact hx0nil
  exact ⟨S', r, hS, hr, fun x hx hxnil => hdiff x hx (hxnil.trans hr.symm)⟩

theorem numbers_of_nonroot : ∀ (S' : List (Path × Nat × Nat)) (k : Nat), (∀ x ∈ S', x.1 ≠ []) →
    (S'.zipIdx k).map (fun xi => if xi.1.1 = [] then 0 else 500 + xi.2)
      = List.range' (500 + k) S'.length
  | [], _, _ => rfl
  | x :: xs, k, h => by
    have hx : x.1 ≠ [] := h x List.mem_cons_self
    have ih := numbers_of_nonroot xs (k + 1) (fun y hy => h y (List.mem_cons_of_mem _ hy))
    simp only [List.zipIdx_cons, List.map_cons, hx, if_false, List.length_cons, List.range'_succ, ih]
    rfl

theorem exportNumbering_map_snd (t : Tree) :
    (exportNumbering t).map (·.2) =
      (sortedCons t).zipIdx.map (fun xi => if xi.1.1 = [] then 0 else 500 + xi.2) := by
  rw [exportNumbering_eq, List.map_map]; rfl

theorem sortBy_range'_zero (m : Nat) :
    sortBy id (List.range' 500 m ++ [0]) = 0 :: List.range' 500 m := by
  refine sortBy_eq_of_perm_sorted id _ _ List.perm_append_comm ?_ ?_
  · simp only [List.map_id_fun, id_eq, List.nodup_append, List.nodup_cons, List.not_mem_nil,
      not_false_eq_true, List.nodup_nil, and_self, true_and, List.mem_singleton]
    refine ⟨List.nodup_range', ?_⟩
    intro a ha b hb
    rw [List.mem_range'_1] at ha
    omega
  · refine List.pairwise_cons.2 ⟨fun b _ => Nat.zero_le _, ?_⟩
    exact List.pairwise_le_range'

end TT.Lemmas.Nav
