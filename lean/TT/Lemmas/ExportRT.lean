/-
  Helper lemmas for the export whole-file round trips (C02/C03, `TT.Props.C02Export`):
  paths and the subtree at a path, the shape of what `writeExport` writes, the numbering facts
  in the form the decoders need, line-level decoding, and the recursive rebuild of the tree by the
  specification decoder (`buildExp`) and by the tool's own reader (`exportBuild`).
-/
import TT.Spec.Formats
import TT.IO.Read
import TT.Lemmas.Write
import TT.Lemmas.GramOut
import TT.Lemmas.WF
import TT.Lemmas.Sort
import TT.Lemmas.Nav
import TT.Props.C19
import TT.Props.C02
namespace TT.Lemmas.ExportRT
open TT TT.Tree TT.Spec
open TT.Lemmas.Write TT.Lemmas.GramOut TT.Lemmas.WF TT.Lemmas.Nav

/-! ### the subtree at a path -/

/-- the subtree at `p` (a dummy token when `p` is not a path of `t`) -/
def subAt (t : Tree) (p : Path) : Tree := (t.get? p).getD (leaf 0 {})

theorem subAt_nil (t : Tree) : subAt t [] = t := by simp [subAt, get?]

theorem subAt_of_get? {t : Tree} {p : Path} {s : Tree} (h : t.get? p = some s) : subAt t p = s := by
  simp [subAt, h]

theorem get?_of_mem_paths (t : Tree) (p : Path) (h : p ∈ paths t) : t.get? p = some (subAt t p) := by
  have := get?_isSome_of_mem_paths t p h
  obtain ⟨s, hs⟩ := Option.isSome_iff_exists.1 this
  rw [hs, subAt_of_get? hs]

theorem subAt_cons (f : Fields) (ks : List Tree) (i : Nat) (k : Tree) (q : Path) (hk : ks[i]? = some k) :
    subAt (node f ks) (i :: q) = subAt k q := by
  simp [subAt, get?, hk]

mutual
theorem paths_map_subAt : (t : Tree) → (paths t).map (subAt t) = subtrees t
  | .leaf n f => by simp [paths, subtrees, subAt_nil]
  | .node f ks => by
    simp only [paths, subtrees, List.map_cons, subAt_nil]
    rw [pathsL_map_subAt (subAt (node f ks)) ks 0 (fun j k hk q => by
      rw [Nat.zero_add]; exact subAt_cons f ks j k q hk)]
theorem pathsL_map_subAt (X : Path → Tree) : (ts : List Tree) → (i : Nat) →
    (∀ j k, ts[j]? = some k → ∀ q, X ((i + j) :: q) = subAt k q) → (pathsL ts i).map X = subtreesL ts
  | [], _, _ => rfl
  | t :: ts, i, h => by
    simp only [pathsL, subtreesL, List.map_append, List.map_map]
    rw [pathsL_map_subAt X ts (i + 1) (fun j k hk q => by
      have := h (j + 1) k (by simpa using hk) q
      rw [← this]; congr 2; omega), ← paths_map_subAt t]
    congr 1
    apply List.map_congr_left
    intro q _
    exact h 0 t rfl q
end

mutual
theorem mem_paths_of_get? : (t : Tree) → (p : Path) → (t.get? p).isSome = true → p ∈ paths t
  | t, [], _ => nil_mem_paths t
  | .leaf _ _, _ :: _, h => by simp [get?] at h
  | .node f ks, i :: q, h => by
    simp only [paths, List.mem_cons, reduceCtorEq, false_or]
    simp only [get?] at h
    cases hk : ks[i]? with
    | none => simp [hk] at h
    | some k =>
      simp only [hk] at h
      have := mem_pathsL_of ks 0 i k q hk (mem_paths_of_get? k q h)
      simpa using this
theorem mem_pathsL_of : (ts : List Tree) → (i j : Nat) → (k : Tree) → (q : Path) → ts[j]? = some k → q ∈ paths k →
    ((i + j) :: q) ∈ pathsL ts i
  | [], _, _, _, _, h, _ => by simp at h
  | t :: ts, i, 0, k, q, h, hq => by
    simp only [List.getElem?_cons_zero, Option.some.injEq] at h
    subst h
    simp only [pathsL, List.mem_append, List.mem_map]
    exact Or.inl ⟨q, hq, rfl⟩
  | t :: ts, i, j + 1, k, q, h, hq => by
    simp only [pathsL, List.mem_append]
    right
    have := mem_pathsL_of ts (i + 1) j k q (by simpa using h) hq
    have e : i + 1 + j = i + (j + 1) := by omega
    rwa [e] at this
end

theorem mem_paths_iff (t : Tree) (p : Path) : p ∈ paths t ↔ (t.get? p).isSome = true :=
  ⟨get?_isSome_of_mem_paths t p, mem_paths_of_get? t p⟩

theorem mem_subtrees_subAt (t : Tree) (p : Path) (h : p ∈ paths t) : subAt t p ∈ subtrees t := by
  rw [← paths_map_subAt]; exact List.mem_map_of_mem h

/-- the children of the node at `p` -/
theorem get?_concat' (t : Tree) (p : Path) (i : Nat) :
    t.get? (p ++ [i]) = (t.get? p).bind (fun s => s.kids[i]?) := by
  rw [get?_append]
  cases t.get? p with
  | none => rfl
  | some s =>
    cases s with
    | leaf n f => simp [get?, kids]
    | node f ks =>
      simp only [Option.bind_some, get?, kids]
      cases ks[i]? <;> rfl

theorem eq_nil_or_snoc (q : Path) : q = [] ∨ ∃ p i, q = p ++ [i] := by
  rcases List.eq_nil_or_concat q with h | ⟨p, i, h⟩
  · exact Or.inl h
  · exact Or.inr ⟨p, i, by rw [h, List.concat_eq_append]⟩

theorem dropLast_mem_paths (t : Tree) (q : Path) (h : q ∈ paths t) : q.dropLast ∈ paths t := by
  rcases eq_nil_or_snoc q with rfl | ⟨p, i, rfl⟩
  · simpa using h
  · rw [List.dropLast_concat]
    rw [mem_paths_iff, get?_concat'] at h
    rw [mem_paths_iff]
    cases hg : t.get? p with
    | none => simp [hg] at h
    | some s => rfl

/-- a non-root path is a child position of the node at its parent path -/
theorem child_of_mem_paths (t : Tree) (q : Path) (h : q ∈ paths t) (hq : q ≠ []) :
    ∃ p i f ks k, q = p ++ [i] ∧ p ∈ paths t ∧ subAt t p = node f ks ∧ ks[i]? = some k ∧ subAt t q = k := by
  rcases eq_nil_or_snoc q with rfl | ⟨p, i, rfl⟩
  · exact absurd rfl hq
  · have hp := dropLast_mem_paths t _ h
    rw [List.dropLast_concat] at hp
    have hgp := get?_of_mem_paths t p hp
    have hgq := get?_of_mem_paths t _ h
    rw [get?_concat', hgp, Option.bind_some] at hgq
    cases hs : subAt t p with
    | leaf n f => rw [hs] at hgq; simp [kids] at hgq
    | node f ks =>
      rw [hs] at hgq
      simp only [kids] at hgq
      exact ⟨p, i, f, ks, _, rfl, hp, hs, hgq, rfl⟩

theorem child_mem_paths (t : Tree) (p : Path) (f : Fields) (ks : List Tree) (i : Nat) (k : Tree)
    (hp : p ∈ paths t) (hs : subAt t p = node f ks) (hk : ks[i]? = some k) :
    p ++ [i] ∈ paths t ∧ subAt t (p ++ [i]) = k := by
  have hg : t.get? (p ++ [i]) = some k := by
    rw [get?_concat', get?_of_mem_paths t p hp, hs]; simpa [kids] using hk
  exact ⟨(mem_paths_iff _ _).2 (by simp [hg]), subAt_of_get? hg⟩

mutual
theorem filter_isLeaf_subtrees : (t : Tree) → (subtrees t).filter isLeaf = leaves t
  | .leaf n f => by simp [subtrees, leaves, isLeaf]
  | .node f ks => by
    simp only [subtrees, leaves, List.filter_cons, isLeaf, Bool.false_eq_true, if_false]
    exact filter_isLeaf_subtreesL ks
theorem filter_isLeaf_subtreesL : (ts : List Tree) → (subtreesL ts).filter isLeaf = leavesL ts
  | [] => rfl
  | t :: ts => by
    simp only [subtreesL, leavesL, List.filter_append, filter_isLeaf_subtrees t, filter_isLeaf_subtreesL ts]
end

mutual
theorem height_le_size : (t : Tree) → height t ≤ size t
  | .leaf _ _ => by simp [height, size]
  | .node _ ks => by
    have := heightL_le_sizeL ks
    simp only [height, size]; omega
theorem heightL_le_sizeL : (ts : List Tree) → heightL ts ≤ sizeL ts
  | [] => by simp [heightL, sizeL]
  | t :: ts => by
    have h1 := height_le_size t
    have h2 := heightL_le_sizeL ts
    simp only [heightL, sizeL]; omega
end

mutual
theorem length_subtrees : (t : Tree) → (subtrees t).length = size t
  | .leaf _ _ => by simp [subtrees, size]
  | .node _ ks => by
    simp only [subtrees, size, List.length_cons, length_subtreesL ks]; omega
theorem length_subtreesL : (ts : List Tree) → (subtreesL ts).length = sizeL ts
  | [] => rfl
  | t :: ts => by simp only [subtreesL, sizeL, List.length_append, length_subtrees t, length_subtreesL ts]
end

theorem length_paths (t : Tree) : (paths t).length = size t := by
  rw [← length_subtrees, ← paths_map_subAt, List.length_map]

/-! ### the shape of what `writeExport` writes -/

/-- the number written for the node at `p` -/
def numOf (t : Tree) (p : Path) : Nat := (exportNum t p).getD 0
/-- the paths of the nodes that get a line, in the order the writer visits them -/
def nonRoot (t : Tree) : List Path := t.preorderP.filter (· ≠ [])
def nodesOf (t : Tree) : List (Path × Tree) := (nonRoot t).filterMap fun p => (t.get? p).map fun s => (p, s)
def termF (o : OutOpts) (t : Tree) (x : Path × Tree) : Except Err (Nat × Str) :=
  (exportLine o x.2 (x.2.fields.word.getD []) (numOf t x.1.dropLast)) >>= fun l => pure (numOf t x.1, l)
def ntF (o : OutOpts) (t : Tree) (x : Path × Tree) : Except Err (Nat × Str) :=
  (exportLine o x.2 ('#' :: natToStr (numOf t x.1)) (numOf t x.1.dropLast)) >>= fun l => pure (numOf t x.1, l)

theorem writeExport_unfold (o : OutOpts) (sid : Nat) (t : Tree) :
    writeExport o sid t =
      (((nodesOf t).filter fun x => x.2.kids.isEmpty).mapM (termF o t) >>= fun terms =>
       ((nodesOf t).filter fun x => !x.2.kids.isEmpty).mapM (ntF o t) >>= fun nonterms =>
       pure (["#BOS ".toList ++ natToStr sid] ++ (sortBy (·.1) terms).map (·.2) ++ (sortBy (·.1) nonterms).map (·.2) ++
        ["#EOS ".toList ++ natToStr sid])) := rfl

/-- the line written by `exportLine` (`[]` when it fails) -/
def lineOf (o : OutOpts) (s : Tree) (w : Str) (pn : Nat) : Str :=
  match exportLine o s w pn with
  | .ok l => l
  | .error _ => []

theorem lineOf_ok {o : OutOpts} {s : Tree} {w : Str} {pn : Nat} {l : Str} (h : exportLine o s w pn = .ok l) :
    lineOf o s w pn = l := by unfold lineOf; rw [h]

/-- the word column of the node at `p` -/
def wordOf (t : Tree) (p : Path) : Str :=
  if (subAt t p).kids.isEmpty then (subAt t p).fields.word.getD [] else '#' :: natToStr (numOf t p)

/-- the line of the node at `p` -/
def lineAt (o : OutOpts) (t : Tree) (p : Path) : Str := lineOf o (subAt t p) (wordOf t p) (numOf t p.dropLast)

/-- token lines, in file order -/
def tokPaths (t : Tree) : List Path := sortBy (numOf t) ((nonRoot t).filter fun p => (subAt t p).kids.isEmpty)
/-- constituent lines, in file order -/
def consPaths (t : Tree) : List Path := sortBy (numOf t) ((nonRoot t).filter fun p => !(subAt t p).kids.isEmpty)

theorem mem_nonRoot (t : Tree) (p : Path) : p ∈ nonRoot t ↔ p ∈ paths t ∧ p ≠ [] := by
  simp [nonRoot, (preorderP_perm_paths t).mem_iff]

theorem nonRoot_perm (t : Tree) : (nonRoot t).Perm ((paths t).filter (· ≠ [])) :=
  (preorderP_perm_paths t).filter _

theorem nonRoot_nodup (t : Tree) : (nonRoot t).Nodup := (preorderP_nodup t).filter _

theorem nodesOf_eq (t : Tree) : nodesOf t = (nonRoot t).map fun p => (p, subAt t p) := by
  unfold nodesOf
  have : ∀ l : List Path, (∀ p ∈ l, p ∈ paths t) →
      (l.filterMap fun p => (t.get? p).map fun s => (p, s)) = l.map fun p => (p, subAt t p) := by
    intro l
    induction l with
    | nil => intro _; rfl
    | cons a l ih =>
      intro h
      rw [List.filterMap_cons, get?_of_mem_paths t a (h a (by simp))]
      simp only [Option.map_some, List.map_cons]
      rw [ih (fun p hp => h p (by simp [hp]))]
  exact this _ (fun p hp => ((mem_nonRoot t p).1 hp).1)

theorem mapM_ok_map {ε α β : Type} (f : α → Except ε β) (g : α → β) : ∀ (l : List α) (r : List β),
    l.mapM f = .ok r → (∀ a b, f a = .ok b → g a = b) → r = l.map g ∧ ∀ a ∈ l, ∃ b, f a = .ok b := by
  intro l
  induction l with
  | nil => intro r h _; simp [pure, Except.pure] at h; subst h; simp
  | cons a l ih =>
    intro r h hg
    rw [List.mapM_cons] at h
    obtain ⟨b, hb, h⟩ := bind_eq_ok _ _ _ h
    obtain ⟨bs, hbs, h⟩ := bind_eq_ok _ _ _ h
    simp only [pure, Except.pure, Except.ok.injEq] at h
    subst h
    obtain ⟨ih1, ih2⟩ := ih bs hbs hg
    refine ⟨by simp [hg a b hb, ih1], ?_⟩
    intro x hx
    rcases List.mem_cons.1 hx with rfl | hx
    · exact ⟨b, hb⟩
    · exact ih2 x hx

theorem writeExport_shape (o : OutOpts) (sid : Nat) (t : Tree) (ls : List Str) (h : writeExport o sid t = .ok ls) :
    ls = ["#BOS ".toList ++ natToStr sid] ++ (tokPaths t).map (lineAt o t) ++ (consPaths t).map (lineAt o t) ++
      ["#EOS ".toList ++ natToStr sid] ∧
    ∀ p ∈ nonRoot t, ∃ l, exportLine o (subAt t p) (wordOf t p) (numOf t p.dropLast) = .ok l := by
  rw [writeExport_unfold] at h
  obtain ⟨terms, ht, h⟩ := bind_eq_ok _ _ _ h
  obtain ⟨nts, hn, h⟩ := bind_eq_ok _ _ _ h
  simp only [pure, Except.pure, Except.ok.injEq] at h
  rw [nodesOf_eq, List.filter_map] at ht hn
  obtain ⟨ht1, ht2⟩ := mapM_ok_map (termF o t)
    (fun x => (numOf t x.1, lineOf o x.2 (x.2.fields.word.getD []) (numOf t x.1.dropLast))) _ _ ht (by
      intro a b hab
      obtain ⟨l, hl, hab⟩ := bind_eq_ok _ _ _ hab
      simp only [pure, Except.pure, Except.ok.injEq] at hab
      rw [← hab, lineOf_ok hl])
  obtain ⟨hn1, hn2⟩ := mapM_ok_map (ntF o t)
    (fun x => (numOf t x.1, lineOf o x.2 ('#' :: natToStr (numOf t x.1)) (numOf t x.1.dropLast))) _ _ hn (by
      intro a b hab
      obtain ⟨l, hl, hab⟩ := bind_eq_ok _ _ _ hab
      simp only [pure, Except.pure, Except.ok.injEq] at hab
      rw [← hab, lineOf_ok hl])
  constructor
  · rw [← h, ht1, hn1, List.map_map, List.map_map]
    have e1 : ∀ p ∈ (nonRoot t).filter ((fun x : Path × Tree => x.2.kids.isEmpty) ∘ fun p => (p, subAt t p)),
        lineOf o (subAt t p) ((subAt t p).fields.word.getD []) (numOf t p.dropLast) = lineAt o t p := by
      intro p hp
      have : (subAt t p).kids.isEmpty = true := by simpa using (List.mem_filter.1 hp).2
      simp [lineAt, wordOf, this]
    have e2 : ∀ p ∈ (nonRoot t).filter ((fun x : Path × Tree => !x.2.kids.isEmpty) ∘ fun p => (p, subAt t p)),
        lineOf o (subAt t p) ('#' :: natToStr (numOf t p)) (numOf t p.dropLast) = lineAt o t p := by
      intro p hp
      have : (subAt t p).kids.isEmpty = false := by simpa using (List.mem_filter.1 hp).2
      simp [lineAt, wordOf, this]
    have s1 := sortBy_map_keyed (numOf t) (fun p => lineOf o (subAt t p) ((subAt t p).fields.word.getD []) (numOf t p.dropLast))
      ((nonRoot t).filter ((fun x : Path × Tree => x.2.kids.isEmpty) ∘ fun p => (p, subAt t p)))
    have s2 := sortBy_map_keyed (numOf t) (fun p => lineOf o (subAt t p) ('#' :: natToStr (numOf t p)) (numOf t p.dropLast))
      ((nonRoot t).filter ((fun x : Path × Tree => !x.2.kids.isEmpty) ∘ fun p => (p, subAt t p)))
    simp only [Function.comp_def] at s1 s2 e1 e2 ⊢
    rw [s1, s2]
    have hT : (sortBy (numOf t) ((nonRoot t).filter fun p => (subAt t p).kids.isEmpty)).map
        (fun p => lineOf o (subAt t p) ((subAt t p).fields.word.getD []) (numOf t p.dropLast)) = (tokPaths t).map (lineAt o t) := by
      apply List.map_congr_left
      intro p hp
      exact e1 p ((mem_sortBy _ _ _).1 hp)
    have hC : (sortBy (numOf t) ((nonRoot t).filter fun p => !(subAt t p).kids.isEmpty)).map
        (fun p => lineOf o (subAt t p) ('#' :: natToStr (numOf t p)) (numOf t p.dropLast)) = (consPaths t).map (lineAt o t) := by
      apply List.map_congr_left
      intro p hp
      exact e2 p ((mem_sortBy _ _ _).1 hp)
    rw [hT, hC]
  · intro p hp
    by_cases hk : (subAt t p).kids.isEmpty = true
    · obtain ⟨b, hb⟩ := ht2 (p, subAt t p) (List.mem_map_of_mem (List.mem_filter.2 ⟨hp, by simpa using hk⟩))
      obtain ⟨l, hl, _⟩ := bind_eq_ok _ _ _ hb
      exact ⟨l, by simpa [wordOf, hk] using hl⟩
    · obtain ⟨b, hb⟩ := hn2 (p, subAt t p) (List.mem_map_of_mem (List.mem_filter.2 ⟨hp, by simpa using hk⟩))
      obtain ⟨l, hl, _⟩ := bind_eq_ok _ _ _ hb
      exact ⟨l, by simpa [wordOf, hk] using hl⟩

/-! ### numbering facts -/

theorem noEmpty_subAt (t : Tree) (p : Path) (hne : t.noEmpty = true) (hp : p ∈ paths t) : (subAt t p).noEmpty = true :=
  noEmpty_get? p t _ hne (get?_of_mem_paths t p hp)

theorem kids_isEmpty_eq_isLeaf (s : Tree) (h : s.noEmpty = true) : s.kids.isEmpty = s.isLeaf := by
  cases s with
  | leaf n f => rfl
  | node f ks =>
    cases ks with
    | nil => simp [noEmpty] at h
    | cons k ks => rfl

theorem isCons_eq (t : Tree) (p : Path) (hp : p ∈ paths t) : isCons t p = !(subAt t p).kids.isEmpty := by
  unfold isCons
  rw [get?_of_mem_paths t p hp]
  cases subAt t p with
  | leaf n f => rfl
  | node f ks => cases ks <;> rfl

theorem mem_paths_of_isCons (t : Tree) (p : Path) (h : isCons t p = true) : p ∈ paths t := by
  rw [mem_paths_iff]
  unfold isCons at h
  cases hg : t.get? p with
  | none => simp [hg] at h
  | some s => rfl

theorem numOf_leaf (t : Tree) (p : Path) (n : Nat) (f : Fields) (hp : p ∈ paths t) (hs : subAt t p = leaf n f) :
    numOf t p = n := by
  unfold numOf exportNum
  rw [get?_of_mem_paths t p hp, hs]; rfl

theorem find?_fst (l : List (Path × Nat)) (p : Path) (h : p ∈ l.map (·.1)) :
    ∃ n, l.find? (·.1 = p) = some (p, n) ∧ (p, n) ∈ l := by
  cases hf : l.find? (·.1 = p) with
  | none =>
    obtain ⟨x, hx, rfl⟩ := List.mem_map.1 h
    have := List.find?_eq_none.1 hf x hx
    simp at this
  | some x =>
    have h1 := List.find?_some hf
    have h2 := List.mem_of_find?_eq_some hf
    simp only [decide_eq_true_eq] at h1
    refine ⟨x.2, ?_, ?_⟩
    · rw [← h1]
    · rw [← h1]; exact h2

theorem numOf_mem (t : Tree) (p : Path) (hc : isCons t p = true) : (p, numOf t p) ∈ exportNumbering t := by
  have hp := mem_paths_of_isCons t p hc
  have hmem : p ∈ (exportNumbering t).map (·.1) :=
    (TT.Props.C19.numbering_paths_perm t).symm.subset (List.mem_filter.2 ⟨hp, hc⟩)
  obtain ⟨n, hf, hm⟩ := find?_fst _ p hmem
  have : numOf t p = n := by
    unfold numOf exportNum
    rw [get?_of_mem_paths t p hp]
    have hk := isCons_eq t p hp
    rw [hc] at hk
    cases hs : subAt t p with
    | leaf m f => rw [hs] at hk; simp [kids] at hk
    | node f ks => simp only [hf]; rfl
  rw [this]; exact hm

theorem snd_eq_numOf (t : Tree) (pn : Path × Nat) (h : pn ∈ exportNumbering t) : pn.2 = numOf t pn.1 := by
  have hc : isCons t pn.1 = true := by
    have : pn.1 ∈ TT.Props.C19.constituents t :=
      (TT.Props.C19.numbering_paths_perm t).subset (List.mem_map_of_mem h)
    exact (List.mem_filter.1 this).2
  have h2 := numOf_mem t pn.1 hc
  have hnd := TT.Props.C19.numbering_paths_nodup t
  -- two entries with the same path
  have key : ∀ (l : List (Path × Nat)), (l.map (·.1)).Nodup → ∀ a b : Path × Nat, a ∈ l → b ∈ l → a.1 = b.1 → a.2 = b.2 := by
    intro l
    induction l with
    | nil => intro _ a b ha; simp at ha
    | cons x l ih =>
      intro hnd a b ha hb hab
      simp only [List.map_cons, List.nodup_cons] at hnd
      rcases List.mem_cons.1 ha with ha' | ha' <;> rcases List.mem_cons.1 hb with hb' | hb'
      · rw [ha', hb']
      · exact absurd (by rw [← ha', hab]; exact List.mem_map_of_mem hb') hnd.1
      · exact absurd (by rw [← hb', ← hab]; exact List.mem_map_of_mem ha') hnd.1
      · exact ih hnd.2 a b ha' hb' hab
  exact key _ hnd pn (pn.1, numOf t pn.1) h h2 rfl

theorem numOf_root (t : Tree) (hc : isCons t [] = true) : numOf t [] = 0 :=
  (TT.Props.C19.numbering_root_zero t _ (numOf_mem t [] hc)).1 rfl

theorem numOf_cons_range (t : Tree) (p : Path) (hc : isCons t p = true) (hne : p ≠ []) :
    500 ≤ numOf t p ∧ numOf t p < 500 + (TT.Props.C19.constituents t).length := by
  obtain ⟨k, hk, hv⟩ := TT.Props.C19.numbering_values t
  have hm := numOf_mem t p hc
  have := hv (numOf t p) (List.mem_map.2 ⟨_, hm, rfl⟩)
  have h0 : numOf t p ≠ 0 := fun h0 => hne ((TT.Props.C19.numbering_root_zero t _ hm).2 h0)
  rw [← TT.Props.C19.numbering_length, hk]
  omega

theorem numOf_inj (t : Tree) (p q : Path) (hroot : isCons t [] = true) (hp : isCons t p = true) (hq : isCons t q = true)
    (h : numOf t p = numOf t q) : p = q := by
  have hnd := TT.Props.C19.numbering_values_nodup t hroot
  have := snd_inj_of_nodup _ hnd _ _ (numOf_mem t p hp) (numOf_mem t q hq) h
  exact congrArg Prod.fst this

theorem numOf_below (t : Tree) (p q : Path) (hp : isCons t p = true) (hq : isCons t q = true)
    (hpq : properPrefix p q = true) (hne : p ≠ []) : numOf t q < numOf t p :=
  TT.Props.C19.numbering_below t _ _ (numOf_mem t p hp) (numOf_mem t q hq) hpq hne

/-! ### the two blocks of lines -/

theorem WF_isLeaf (t : Tree) (h : WF t = true) : t.isLeaf = false := ((WF_iff t).1 h).1

theorem mem_tokPaths (t : Tree) (p : Path) :
    p ∈ tokPaths t ↔ p ∈ paths t ∧ p ≠ [] ∧ (subAt t p).kids.isEmpty = true := by
  simp [tokPaths, mem_sortBy, mem_nonRoot, and_assoc]

theorem mem_consPaths (t : Tree) (p : Path) :
    p ∈ consPaths t ↔ p ∈ paths t ∧ p ≠ [] ∧ (subAt t p).kids.isEmpty = false := by
  simp [consPaths, mem_sortBy, mem_nonRoot, and_assoc]

theorem tokPaths_nodup (t : Tree) : (tokPaths t).Nodup :=
  (sortBy_perm _ _).symm.nodup ((nonRoot_nodup t).filter _)

theorem consPaths_nodup (t : Tree) : (consPaths t).Nodup :=
  (sortBy_perm _ _).symm.nodup ((nonRoot_nodup t).filter _)

theorem isCons_of_mem_consPaths (t : Tree) (p : Path) (h : p ∈ consPaths t) : isCons t p = true := by
  obtain ⟨hp, _, hk⟩ := (mem_consPaths t p).1 h
  rw [isCons_eq t p hp, hk]; rfl

/-- token and constituent lines together are the non-root nodes -/
theorem tok_cons_perm (t : Tree) : (tokPaths t ++ consPaths t).Perm ((paths t).filter (· ≠ [])) := by
  have h1 : (tokPaths t).Perm ((nonRoot t).filter fun p => (subAt t p).kids.isEmpty) := sortBy_perm _ _
  have h2 : (consPaths t).Perm ((nonRoot t).filter fun p => !(subAt t p).kids.isEmpty) := sortBy_perm _ _
  exact ((h1.append h2).trans (List.filter_append_perm _ _)).trans (nonRoot_perm t)

/-- the token lines carry the token numbers `1..n` in order -/
theorem tokPaths_nums (t : Tree) (hwf : WF t = true) : (tokPaths t).map (numOf t) = List.range' 1 t.leafNums.length := by
  have hne := WF_noEmpty t hwf
  unfold tokPaths
  rw [sortBy_map_key]
  have hperm : (((nonRoot t).filter fun p => (subAt t p).kids.isEmpty).map (numOf t)).Perm t.leafNums := by
    have h1 : ((nonRoot t).filter fun p => (subAt t p).kids.isEmpty).Perm
        (((paths t).filter (· ≠ [])).filter fun p => (subAt t p).kids.isEmpty) := (nonRoot_perm t).filter _
    refine (h1.map _).trans ?_
    rw [List.filter_filter]
    have h2 : (paths t).filter (fun p => (subAt t p).kids.isEmpty && decide (p ≠ [])) =
        (paths t).filter (isLeaf ∘ subAt t) := by
      apply List.filter_congr
      intro p hp
      by_cases h0 : p = []
      · subst h0; simp [subAt_nil, WF_isLeaf t hwf]
      · simp [h0, kids_isEmpty_eq_isLeaf _ (noEmpty_subAt t p hne hp)]
    rw [h2]
    have h3 : ((paths t).filter (isLeaf ∘ subAt t)).map (numOf t) = ((paths t).filter (isLeaf ∘ subAt t)).map (num ∘ subAt t) := by
      apply List.map_congr_left
      intro p hp
      obtain ⟨hp1, hp2⟩ := List.mem_filter.1 hp
      simp only [Function.comp_apply] at hp2 ⊢
      cases hs : subAt t p with
      | leaf n f => exact numOf_leaf t p n f hp1 hs
      | node f ks => rw [hs] at hp2; simp [isLeaf] at hp2
    rw [h3, ← List.map_map, ← List.filter_map, paths_map_subAt, filter_isLeaf_subtrees]
    exact List.Perm.refl _
  rw [sortBy_id_perm _ _ hperm]
  exact ((WF_iff t).1 hwf).2.2.1

theorem tokPaths_length (t : Tree) (hwf : WF t = true) : (tokPaths t).length = t.leafNums.length := by
  have := congrArg List.length (tokPaths_nums t hwf)
  simpa using this

theorem root_consPaths_perm (t : Tree) (hwf : WF t = true) :
    ([] :: consPaths t).Perm (TT.Props.C19.constituents t) := by
  have hroot := (WF_root t hwf).1
  rw [List.perm_ext_iff_of_nodup]
  · intro p
    simp only [List.mem_cons, mem_consPaths, TT.Props.C19.constituents, List.mem_filter]
    constructor
    · rintro (rfl | ⟨hp, _, hk⟩)
      · exact ⟨nil_mem_paths t, hroot⟩
      · exact ⟨hp, by rw [isCons_eq t p hp, hk]; rfl⟩
    · rintro ⟨hp, hc⟩
      by_cases h0 : p = []
      · exact Or.inl h0
      · refine Or.inr ⟨hp, h0, ?_⟩
        rw [isCons_eq t p hp] at hc
        simpa using hc
  · exact List.nodup_cons.2 ⟨fun h => ((mem_consPaths t []).1 h).2.1 rfl, consPaths_nodup t⟩
  · exact (paths_nodup t).filter _

theorem consPaths_sorted (t : Tree) : ((consPaths t).map (numOf t)).Pairwise (· ≤ ·) :=
  List.pairwise_map.2 (sortBy_sorted _ _)

/-- the constituent lines carry the numbers `500, 501, …` in order -/
theorem consPaths_nums (t : Tree) (hwf : WF t = true) :
    (consPaths t).map (numOf t) = List.range' 500 (consPaths t).length := by
  have hroot := (WF_root t hwf).1
  have hsv := TT.Props.C19.numbering_sorted_values t hroot
  have e1 : (exportNumbering t).map (·.2) = ((exportNumbering t).map (·.1)).map (numOf t) := by
    rw [List.map_map]
    apply List.map_congr_left
    intro pn hpn
    exact snd_eq_numOf t pn hpn
  have hperm : ((exportNumbering t).map (·.2)).Perm (0 :: (consPaths t).map (numOf t)) := by
    rw [e1]
    have := ((TT.Props.C19.numbering_paths_perm t).trans (root_consPaths_perm t hwf).symm).map (numOf t)
    simpa [numOf_root t hroot] using this
  rw [sortBy_id_perm _ _ hperm] at hsv
  have hs : (0 :: (consPaths t).map (numOf t)).Pairwise (fun a b => id a ≤ id b) :=
    List.pairwise_cons.2 ⟨fun b _ => Nat.zero_le _, consPaths_sorted t⟩
  rw [sortBy_of_sorted id _ hs] at hsv
  have hl := hperm.length_eq
  simp only [List.length_map, List.length_cons] at hl
  simp only [List.cons.injEq, true_and] at hsv
  rw [hsv, hl]; simp

theorem consPaths_length (t : Tree) (hwf : WF t = true) :
    (consPaths t).length + 1 = (t.subtrees.filter fun s => !s.isLeaf).length := by
  have hne := WF_noEmpty t hwf
  have h1 := (root_consPaths_perm t hwf).length_eq
  simp only [List.length_cons] at h1
  rw [h1]
  unfold TT.Props.C19.constituents
  have h2 : (paths t).filter (isCons t) = (paths t).filter ((fun s => !s.isLeaf) ∘ subAt t) := by
    apply List.filter_congr
    intro p hp
    simp [isCons_eq t p hp, kids_isEmpty_eq_isLeaf _ (noEmpty_subAt t p hne hp)]
  rw [h2, ← List.length_map (f := subAt t), ← List.filter_map, paths_map_subAt]

theorem consPaths_length_lt (o : OutOpts) (t : Tree) (hwf : WF t = true) (hok : ExportOK o t = true) :
    (consPaths t).length + 1 < 500 := by
  rw [consPaths_length t hwf]
  unfold ExportOK at hok
  simp only [Bool.and_eq_true, decide_eq_true_eq] at hok
  exact hok.1.2

/-! ### line-level decoding -/

theorem fieldOK_iff (s : Str) : fieldOK s = true ↔ s ≠ [] ∧ ∀ c ∈ s, pyIsSpace c = false := by
  simp [fieldOK]

/-- what `ExportOK` says about one node -/
theorem ExportOK_sub (o : OutOpts) (t s : Tree) (hok : ExportOK o t = true) (hs : s ∈ subtrees t) :
    fieldOK (printedLabel o s) = true ∧ fieldOK (s.fields.morph.getD DEFAULT_MORPH) = true ∧
    fieldOK (s.fields.edge.getD DEFAULT_EDGE) = true ∧ fieldOK (s.fields.lemma.getD DEFAULT_LEMMA) = true ∧
    (s.isLeaf = true → fieldOK (s.fields.word.getD []) = true ∧ consNumber (s.fields.word.getD []) = none) := by
  unfold ExportOK at hok
  simp only [Bool.and_eq_true, List.all_eq_true] at hok
  have := hok.1.1 s hs
  simp only [Bool.and_eq_true, Bool.or_eq_true, Bool.not_eq_true', Option.isNone_iff_eq_none] at this
  obtain ⟨⟨⟨⟨h1, h2⟩, h3⟩, h4⟩, h5⟩ := this
  refine ⟨h1, h2, h3, h4, ?_⟩
  intro hl
  rcases h5 with h5 | h5
  · rw [hl] at h5; cases h5
  · exact h5

theorem length_natToStr_3 (n : Nat) (h1 : 100 ≤ n) (h2 : n < 1000) : (natToStr n).length = 3 := by
  rw [natToStr_eq]
  have a := (Nat.length_toDigits_le_iff (b := 10) (n := n) (k := 3) (by omega) (by omega)).2 (by omega)
  have b := (Nat.length_toDigits_le_iff (b := 10) (n := n) (k := 2) (by omega) (by omega))
  have : ¬ (Nat.toDigits 10 n).length ≤ 2 := fun h => by have := b.1 h; omega
  omega

theorem consNumber_hash (n : Nat) (h1 : 100 ≤ n) (h2 : n < 1000) : consNumber ('#' :: natToStr n) = some n := by
  simp [consNumber, length_natToStr_3 n h1 h2, strToNat_natToStr]

theorem hash_ok (n : Nat) : ('#' :: natToStr n) ≠ [] ∧ ∀ c ∈ ('#' :: natToStr n), pyIsSpace c = false := by
  refine ⟨by simp, ?_⟩
  intro c hc
  rcases List.mem_cons.1 hc with rfl | hc
  · decide
  · exact natToStr_noSpace n c hc

/-- the decoded fields of the line of the node at `p` -/
def entry (o : OutOpts) (t : Tree) (p : Path) : ExpNode :=
  { word := wordOf t p, lemma := (if o.exportFour then (subAt t p).fields.lemma.getD DEFAULT_LEMMA else DEFAULT_LEMMA), label := printedLabel o (subAt t p), morph := (subAt t p).fields.morph.getD DEFAULT_MORPH, edge := (subAt t p).fields.edge.getD DEFAULT_EDGE, parent := numOf t p.dropLast }

theorem wordOf_ok (o : OutOpts) (t : Tree) (p : Path) (hne : t.noEmpty = true) (hok : ExportOK o t = true) (hp : p ∈ paths t) :
    wordOf t p ≠ [] ∧ ∀ c ∈ wordOf t p, pyIsSpace c = false := by
  unfold wordOf
  split
  · rename_i hk
    rw [kids_isEmpty_eq_isLeaf _ (noEmpty_subAt t p hne hp)] at hk
    exact (fieldOK_iff _).1 ((ExportOK_sub o t _ hok (mem_subtrees_subAt t p hp)).2.2.2.2 hk).1
  · exact hash_ok _

/-- every line of the body decodes to the fields of its node -/
theorem decode_lineAt (o : OutOpts) (t : Tree) (p : Path) (l : Str) (hne : t.noEmpty = true) (hok : ExportOK o t = true)
    (hp : p ∈ paths t) (h : exportLine o (subAt t p) (wordOf t p) (numOf t p.dropLast) = .ok l) :
    decExpLine o.exportFour (lineAt o t p) = some (entry o t p) := by
  have hs := ExportOK_sub o t _ hok (mem_subtrees_subAt t p hp)
  unfold lineAt
  rw [lineOf_ok h]
  refine TT.Props.C02.decExpLine_exportLine o (subAt t p) (wordOf t p) _ l h (wordOf_ok o t p hne hok hp) ?_
  intro x hx
  simp only [List.mem_cons, List.not_mem_nil, or_false] at hx
  rcases hx with rfl | rfl | rfl | rfl
  · exact (fieldOK_iff _).1 hs.1
  · exact (fieldOK_iff _).1 hs.2.1
  · exact (fieldOK_iff _).1 hs.2.2.1
  · exact (fieldOK_iff _).1 hs.2.2.2.1

/-- the word column tells tokens and constituents apart -/
theorem consNumber_tok (o : OutOpts) (t : Tree) (p : Path) (hne : t.noEmpty = true) (hok : ExportOK o t = true)
    (hp : p ∈ tokPaths t) : consNumber (entry o t p).word = none := by
  obtain ⟨hp1, _, hk⟩ := (mem_tokPaths t p).1 hp
  show consNumber (wordOf t p) = none
  unfold wordOf
  rw [if_pos hk]
  rw [kids_isEmpty_eq_isLeaf _ (noEmpty_subAt t p hne hp1)] at hk
  exact ((ExportOK_sub o t _ hok (mem_subtrees_subAt t p hp1)).2.2.2.2 hk).2

theorem numOf_cons_bounds (o : OutOpts) (t : Tree) (p : Path) (hwf : WF t = true) (hok : ExportOK o t = true)
    (hp : p ∈ consPaths t) : 500 ≤ numOf t p ∧ numOf t p < 1000 := by
  have hc := isCons_of_mem_consPaths t p hp
  have := numOf_cons_range t p hc ((mem_consPaths t p).1 hp).2.1
  have h1 := (root_consPaths_perm t hwf).length_eq
  have h2 := consPaths_length_lt o t hwf hok
  simp only [List.length_cons] at h1
  omega

theorem consNumber_cons (o : OutOpts) (t : Tree) (p : Path) (hwf : WF t = true) (hok : ExportOK o t = true)
    (hp : p ∈ consPaths t) : consNumber (entry o t p).word = some (numOf t p) := by
  obtain ⟨hp1, _, hk⟩ := (mem_consPaths t p).1 hp
  have hb := numOf_cons_bounds o t p hwf hok hp
  show consNumber (wordOf t p) = some (numOf t p)
  unfold wordOf
  rw [if_neg (by simp [hk])]
  exact consNumber_hash _ (by omega) hb.2

/-! ### the lines below a node -/

/-- paths of the lines whose parent is the node at `p`, in file order -/
def kidPaths (t : Tree) (p : Path) : List Path := (tokPaths t ++ consPaths t).filter (fun q => q.dropLast == p)

theorem mem_tok_cons (t : Tree) (q : Path) : q ∈ tokPaths t ++ consPaths t ↔ q ∈ paths t ∧ q ≠ [] := by
  rw [(tok_cons_perm t).mem_iff]; simp

theorem tok_cons_nodup (t : Tree) : (tokPaths t ++ consPaths t).Nodup :=
  (tok_cons_perm t).symm.nodup ((paths_nodup t).filter _)

theorem isCons_dropLast (t : Tree) (q : Path) (hq : q ∈ paths t) (hne : q ≠ []) : isCons t q.dropLast = true := by
  obtain ⟨p, i, f, ks, k, rfl, hp, hs, hk, _⟩ := child_of_mem_paths t q hq hne
  rw [List.dropLast_concat, isCons_eq t p hp, hs]
  cases ks with
  | nil => simp at hk
  | cons a r => rfl

theorem kidPaths_perm (t : Tree) (p : Path) (f : Fields) (ks : List Tree) (hp : p ∈ paths t) (hs : subAt t p = node f ks) :
    (kidPaths t p).Perm ((List.range ks.length).map (p ++ [·])) := by
  rw [List.perm_ext_iff_of_nodup]
  · intro q
    simp only [kidPaths, List.mem_filter, mem_tok_cons, beq_iff_eq, List.mem_map, List.mem_range]
    constructor
    · rintro ⟨⟨hq, hne⟩, hd⟩
      obtain ⟨p', i, f', ks', k, rfl, hp', hs', hk, _⟩ := child_of_mem_paths t q hq hne
      rw [List.dropLast_concat] at hd
      subst hd
      rw [hs] at hs'
      cases hs'
      exact ⟨i, (List.getElem?_eq_some_iff.1 hk).1, rfl⟩
    · rintro ⟨i, hi, rfl⟩
      have := child_mem_paths t p f ks i ks[i] hp hs (List.getElem?_eq_getElem hi)
      exact ⟨⟨this.1, by simp⟩, by simp⟩
  · exact (tok_cons_nodup t).filter _
  · rw [List.Nodup, List.pairwise_map]
    exact (List.nodup_range (n := ks.length)).imp (fun {a b} hab h => hab (by simpa using h))

theorem map_range_kids (t : Tree) (p : Path) (f : Fields) (ks : List Tree) (hp : p ∈ paths t) (hs : subAt t p = node f ks)
    {β : Type} (G : Tree → β) : ((List.range ks.length).map (p ++ [·])).map (fun q => G (subAt t q)) = ks.map G := by
  apply List.ext_getElem?
  intro i
  simp only [List.map_map, List.getElem?_map]
  by_cases hi : i < ks.length
  · have := child_mem_paths t p f ks i ks[i] hp hs (List.getElem?_eq_getElem hi)
    simp [List.getElem?_range hi, List.getElem?_eq_getElem hi, this.2]
  · have h1 : ks[i]? = none := List.getElem?_eq_none (by omega)
    have h2 : (List.range ks.length)[i]? = none := List.getElem?_eq_none (by simp; omega)
    simp [h1, h2]

theorem sortBy_kids_eq (t : Tree) (p : Path) (f : Fields) (ks : List Tree) (hp : p ∈ paths t) (hs : subAt t p = node f ks)
    (L : List Path) (hL : L.Perm ((List.range ks.length).map (p ++ [·]))) (G : Tree → Tree)
    (hG : ∀ k, leftmost (G k) = leftmost k) (hnd : (ks.map leftmost).Nodup) :
    sortBy leftmost (L.map (fun q => G (subAt t q))) = sortBy leftmost (ks.map G) := by
  have h1 := hL.map (fun q => G (subAt t q))
  rw [map_range_kids t p f ks hp hs G] at h1
  refine (sortBy_perm_eq leftmost _ _ h1.symm ?_).symm
  rw [List.map_map]
  have : (leftmost ∘ G) = leftmost := funext hG
  rw [this]; exact hnd

theorem kids_leftmost_nodup (t : Tree) (p : Path) (f : Fields) (ks : List Tree) (hwf : WF t = true) (hp : p ∈ paths t)
    (hs : subAt t p = node f ks) : (ks.map leftmost).Nodup :=
  (sibDistinct_iff t).1 (WF_sibDistinct t hwf) _ (mem_subtrees_subAt t p hp) f ks hs

theorem height_kid_lt (t : Tree) (p : Path) (f : Fields) (ks : List Tree) (hp : p ∈ paths t) (hs : subAt t p = node f ks)
    (q : Path) (hq : q ∈ kidPaths t p) : q ∈ paths t ∧ q ≠ [] ∧ height (subAt t q) < height (subAt t p) := by
  have := (kidPaths_perm t p f ks hp hs).subset hq
  simp only [List.mem_map, List.mem_range] at this
  obtain ⟨i, hi, rfl⟩ := this
  have hc := child_mem_paths t p f ks i ks[i] hp hs (List.getElem?_eq_getElem hi)
  refine ⟨hc.1, by simp, ?_⟩
  rw [hc.2, hs]
  have := height_le_heightL ks ks[i] (List.getElem_mem hi)
  simp only [height]; omega

/-! ### `carryExport` -/

theorem carryExportL_eq (o : OutOpts) : ∀ ks : List Tree, carryExportL o ks = ks.map (carryExport o)
  | [] => rfl
  | t :: ts => by simp [carryExportL, carryExportL_eq o ts]

theorem leafNums_carryExport (o : OutOpts) (x : Tree) : (carryExport o x).leafNums = x.leafNums := by
  induction x using tree_ind with
  | hl n f => simp [carryExport, leafNums_leaf]
  | hn f ks ih =>
    rw [carryExport, leafNums_node, leafNums_node, carryExportL_eq, List.flatMap_map]
    exact flatMap_congr' _ _ ks ih

theorem leftmost_sortKids_carryExport (o : OutOpts) (k : Tree) : leftmost (sortKids (carryExport o k)) = leftmost k := by
  apply leftmost_of_perm
  have := leafNums_sortKids (carryExport o k)
  rwa [leafNums_carryExport] at this

theorem leftmost_sortKids (k : Tree) : leftmost (sortKids k) = leftmost k :=
  leftmost_of_perm _ _ (leafNums_sortKids k)

theorem sortKids_node (f : Fields) (ks : List Tree) : sortKids (node f ks) = node f (sortBy leftmost (ks.map sortKids)) := by
  rw [sortKids, sortKidsL_eq]

/-! ### small list lemmas -/

theorem find?_map_key {α β : Type} (key : α → Nat) (g : α → β) : ∀ (l : List α) (a : α), a ∈ l →
    (∀ b ∈ l, key b = key a → b = a) → (l.map fun x => (key x, g x)).find? (·.1 == key a) = some (key a, g a)
  | [], _, h, _ => by simp at h
  | x :: l, a, h, hinj => by
    simp only [List.map_cons, List.find?_cons]
    by_cases hx : key x = key a
    · have := hinj x (by simp) hx
      subst this
      simp
    · have hxa : (key x == key a) = false := by simpa using hx
      simp only [hxa]
      have ha : a ∈ l := by
        rcases List.mem_cons.1 h with rfl | h
        · exact absurd rfl hx
        · exact h
      exact find?_map_key key g l a ha (fun b hb => hinj b (by simp [hb]))

theorem find?_map_key_none {α β : Type} (key : α → Nat) (g : α → β) (l : List α) (n : Nat) (h : ∀ b ∈ l, key b ≠ n) :
    (l.map fun x => (key x, g x)).find? (·.1 == n) = none := by
  rw [List.find?_eq_none]
  intro x hx
  obtain ⟨b, hb, rfl⟩ := List.mem_map.1 hx
  simpa using h b hb

theorem mapM_option_some {α β γ : Type} (f : α → Option β) (G : β → γ) (T : α → γ) : ∀ (l : List α),
    (∀ a ∈ l, ∃ b, f a = some b ∧ G b = T a) → ∃ bs, l.mapM f = some bs ∧ bs.map G = l.map T
  | [], _ => ⟨[], rfl, rfl⟩
  | a :: l, h => by
    obtain ⟨b, hb, hG⟩ := h a (by simp)
    obtain ⟨bs, hbs, hGs⟩ := mapM_option_some f G T l (fun x hx => h x (by simp [hx]))
    refine ⟨b :: bs, ?_, by simp [hG, hGs]⟩
    rw [List.mapM_cons, hb, hbs]; rfl

/-! ### the specification decoder rebuilds the tree -/

/-- the token table of the decoder -/
def toksT (o : OutOpts) (t : Tree) : List (Nat × ExpNode) := (tokPaths t).map fun p => (numOf t p, entry o t p)
/-- the constituent table of the decoder -/
def consT (o : OutOpts) (t : Tree) : List (Nat × ExpNode) := (consPaths t).map fun p => (numOf t p, entry o t p)

theorem buildExp_tok (toks cons : List (Nat × ExpNode)) (fuel num : Nat) (h1 : num < 500) (h0 : num ≠ 0) :
    buildExp toks cons (fuel + 1) num = (toks.find? (·.1 == num)).map fun x =>
      leaf num { label := x.2.label, word := some x.2.word, lemma := some x.2.lemma, morph := some x.2.morph, edge := some x.2.edge } := by
  rw [buildExp]
  have : (decide (num < 500) && num != 0) = true := by simp [h1, h0]
  rw [if_pos this]

theorem buildExp_cons (toks cons : List (Nat × ExpNode)) (fuel num : Nat) (h1 : 500 ≤ num) (ds : List Tree)
    (h : ((toks.filter (·.2.parent == num)).map (·.1) ++ (cons.filter (·.2.parent == num)).map (·.1)).mapM
      (buildExp toks cons fuel) = some ds) :
    buildExp toks cons (fuel + 1) num = (cons.find? (·.1 == num)).map fun x =>
      node { label := x.2.label, lemma := some x.2.lemma, morph := some x.2.morph, edge := some x.2.edge } ds := by
  rw [buildExp]
  have : (decide (num < 500) && num != 0) = false := by simp; omega
  rw [if_neg (by simp [this])]
  simp only [h]
  have h0 : (num == 0) = false := by simp; omega
  simp only [h0, Bool.false_eq_true, if_false]

theorem buildExp_root (toks cons : List (Nat × ExpNode)) (fuel : Nat) (ds : List Tree)
    (h : ((toks.filter (·.2.parent == 0)).map (·.1) ++ (cons.filter (·.2.parent == 0)).map (·.1)).mapM
      (buildExp toks cons fuel) = some ds) :
    buildExp toks cons (fuel + 1) 0 = some (node { label := DEFAULT_ROOT, edge := some DEFAULT_EDGE } ds) := by
  rw [buildExp]
  simp only [h]
  rfl

theorem numOf_tok_bounds (t : Tree) (p : Path) (hwf : WF t = true) (hp : p ∈ tokPaths t) :
    1 ≤ numOf t p ∧ numOf t p ≤ t.leafNums.length := by
  have : numOf t p ∈ (tokPaths t).map (numOf t) := List.mem_map_of_mem hp
  rw [tokPaths_nums t hwf, List.mem_range'_1] at this
  omega

theorem numOf_tok_inj (t : Tree) (hwf : WF t = true) (p q : Path) (hp : p ∈ tokPaths t) (hq : q ∈ tokPaths t)
    (h : numOf t q = numOf t p) : q = p := by
  have hnd : ((tokPaths t).map (numOf t)).Nodup := by rw [tokPaths_nums t hwf]; exact List.nodup_range'
  rw [List.Nodup, List.pairwise_map] at hnd
  apply Classical.byContradiction
  intro hne
  obtain ⟨i, hi, rfl⟩ := List.getElem_of_mem hp
  obtain ⟨j, hj, rfl⟩ := List.getElem_of_mem hq
  have hij : i ≠ j := fun e => by subst e; exact hne rfl
  rcases Nat.lt_or_gt_of_ne hij with hlt | hlt
  · exact List.pairwise_iff_getElem.1 hnd i j hi hj hlt h.symm
  · exact List.pairwise_iff_getElem.1 hnd j i hj hi hlt h

theorem find_tok (o : OutOpts) (t : Tree) (hwf : WF t = true) (p : Path) (hp : p ∈ tokPaths t) :
    (toksT o t).find? (·.1 == numOf t p) = some (numOf t p, entry o t p) :=
  find?_map_key (numOf t) (entry o t) _ p hp (fun q hq h => numOf_tok_inj t hwf p q hp hq h)

theorem find_cons (o : OutOpts) (t : Tree) (hwf : WF t = true) (p : Path) (hp : p ∈ consPaths t) :
    (consT o t).find? (·.1 == numOf t p) = some (numOf t p, entry o t p) :=
  find?_map_key (numOf t) (entry o t) _ p hp (fun q hq h =>
    numOf_inj t q p (WF_root t hwf).1 (isCons_of_mem_consPaths t q hq) (isCons_of_mem_consPaths t p hp) h)

/-- the parent column selects the lines of the children -/
theorem parent_filter (o : OutOpts) (t : Tree) (hwf : WF t = true) (p : Path) (hc : isCons t p = true) (L : List Path)
    (hL : ∀ q ∈ L, q ∈ paths t ∧ q ≠ []) :
    ((L.map fun q => (numOf t q, entry o t q)).filter (·.2.parent == numOf t p)).map (·.1) =
      (L.filter (fun q => q.dropLast == p)).map (numOf t) := by
  rw [List.filter_map, List.map_map]
  have : L.filter ((fun x : Nat × ExpNode => x.2.parent == numOf t p) ∘ fun q => (numOf t q, entry o t q)) =
      L.filter (fun q => q.dropLast == p) := by
    apply List.filter_congr
    intro q hq
    obtain ⟨hq1, hq2⟩ := hL q hq
    have hcq := isCons_dropLast t q hq1 hq2
    show ((entry o t q).parent == numOf t p) = (q.dropLast == p)
    have e : (entry o t q).parent = numOf t q.dropLast := rfl
    rw [e]
    by_cases h : q.dropLast = p
    · rw [h, beq_self_eq_true, beq_self_eq_true]
    · have : numOf t q.dropLast ≠ numOf t p := fun e => h (numOf_inj t _ _ (WF_root t hwf).1 hcq hc e)
      rw [beq_eq_false_iff_ne.2 this, beq_eq_false_iff_ne.2 h]
  rw [this]
  apply List.map_congr_left
  intro q _
  rfl

theorem kidsNums_eq (o : OutOpts) (t : Tree) (hwf : WF t = true) (p : Path) (hc : isCons t p = true) :
    ((toksT o t).filter (·.2.parent == numOf t p)).map (·.1) ++ ((consT o t).filter (·.2.parent == numOf t p)).map (·.1) =
      (kidPaths t p).map (numOf t) := by
  unfold toksT consT kidPaths
  rw [parent_filter o t hwf p hc _ (fun q hq => (mem_tok_cons t q).1 (List.mem_append_left _ hq)),
    parent_filter o t hwf p hc _ (fun q hq => (mem_tok_cons t q).1 (List.mem_append_right _ hq)),
    List.filter_append, List.map_append]

theorem carryExport_leaf_eq (o : OutOpts) (t : Tree) (p : Path) (n : Nat) (f : Fields) (hs : subAt t p = leaf n f)
    (hw : f.word.isSome = true) :
    leaf n { label := (entry o t p).label, word := some (entry o t p).word, lemma := some (entry o t p).lemma, morph := some (entry o t p).morph, edge := some (entry o t p).edge } =
      carryExport o (leaf n f) := by
  obtain ⟨w, hw⟩ := Option.isSome_iff_exists.1 hw
  simp only [entry, wordOf, hs, carryExport, kids, fields, List.isEmpty_nil, if_true, hw, Option.getD_some]
  cases o.exportFour <;> rfl

theorem carryExport_node_eq (o : OutOpts) (t : Tree) (p : Path) (f : Fields) (ks : List Tree) (hs : subAt t p = node f ks)
    (ds : List Tree) :
    node { label := (entry o t p).label, lemma := some (entry o t p).lemma, morph := some (entry o t p).morph, edge := some (entry o t p).edge } ds =
      node (carryExport o (node f ks)).fields ds := by
  simp only [entry, hs, carryExport, fields]
  cases o.exportFour <;> rfl

theorem word_isSome_of_ok (o : OutOpts) (t : Tree) (p : Path) (n : Nat) (f : Fields) (hok : ExportOK o t = true)
    (hp : p ∈ paths t) (hs : subAt t p = leaf n f) : f.word.isSome = true := by
  have := (ExportOK_sub o t _ hok (mem_subtrees_subAt t p hp)).2.2.2.2 (by rw [hs]; rfl)
  rw [hs] at this
  have h1 := ((fieldOK_iff _).1 this.1).1
  cases hw : f.word with
  | none => simp [fields, hw] at h1
  | some w => rfl

/-- the children of a constituent are rebuilt (given that every lower node is) -/
theorem buildExp_kids (o : OutOpts) (t : Tree) (hwf : WF t = true) (fuel : Nat) (p : Path) (f : Fields) (ks : List Tree)
    (hp : p ∈ paths t) (hs : subAt t p = node f ks)
    (ih : ∀ q ∈ paths t, q ≠ [] → height (subAt t q) < fuel →
      ∃ d, buildExp (toksT o t) (consT o t) fuel (numOf t q) = some d ∧ sortKids d = sortKids (carryExport o (subAt t q)))
    (hh : height (subAt t p) ≤ fuel) :
    ∃ ds, (((toksT o t).filter (·.2.parent == numOf t p)).map (·.1) ++ ((consT o t).filter (·.2.parent == numOf t p)).map (·.1)).mapM
        (buildExp (toksT o t) (consT o t) fuel) = some ds ∧
      sortBy leftmost (ds.map sortKids) = sortBy leftmost ((carryExportL o ks).map sortKids) := by
  have hne := WF_noEmpty t hwf
  have hc : isCons t p = true := by
    rw [isCons_eq t p hp, kids_isEmpty_eq_isLeaf _ (noEmpty_subAt t p hne hp), hs]; rfl
  rw [kidsNums_eq o t hwf p hc, List.mapM_map]
  obtain ⟨ds, hds, hmap⟩ := mapM_option_some (buildExp (toksT o t) (consT o t) fuel ∘ numOf t) sortKids
    (fun q => sortKids (carryExport o (subAt t q))) (kidPaths t p) (by
      intro q hq
      obtain ⟨hq1, hq2, hq3⟩ := height_kid_lt t p f ks hp hs q hq
      exact ih q hq1 hq2 (by omega))
  refine ⟨ds, hds, ?_⟩
  rw [hmap, carryExportL_eq, List.map_map]
  exact sortBy_kids_eq t p f ks hp hs _ (kidPaths_perm t p f ks hp hs) (sortKids ∘ carryExport o)
    (fun k => leftmost_sortKids_carryExport o k) (kids_leftmost_nodup t p f ks hwf hp hs)

/-- every non-root node is rebuilt from its number -/
theorem buildExp_sub (o : OutOpts) (t : Tree) (hwf : WF t = true) (hok : ExportOK o t = true) (hN : t.leafNums.length < 500) :
    ∀ fuel, ∀ q ∈ paths t, q ≠ [] → height (subAt t q) < fuel →
      ∃ d, buildExp (toksT o t) (consT o t) fuel (numOf t q) = some d ∧ sortKids d = sortKids (carryExport o (subAt t q)) := by
  have hne := WF_noEmpty t hwf
  intro fuel
  induction fuel with
  | zero => intro q _ _ h; omega
  | succ fuel ih =>
    intro q hq hq0 hh
    cases hs : subAt t q with
    | leaf n f =>
      have hqt : q ∈ tokPaths t := (mem_tokPaths t q).2 ⟨hq, hq0, by rw [hs]; rfl⟩
      have hb := numOf_tok_bounds t q hwf hqt
      rw [buildExp_tok _ _ _ _ (by omega) (by omega), find_tok o t hwf q hqt]
      refine ⟨_, rfl, ?_⟩
      dsimp only
      rw [numOf_leaf t q n f hq hs, carryExport_leaf_eq o t q n f hs (word_isSome_of_ok o t q n f hok hq hs)]
    | node f ks =>
      have hk : (subAt t q).kids.isEmpty = false := by
        have := kids_isEmpty_eq_isLeaf _ (noEmpty_subAt t q hne hq)
        rw [this, hs]; rfl
      have hqc : q ∈ consPaths t := (mem_consPaths t q).2 ⟨hq, hq0, hk⟩
      have hb := numOf_cons_bounds o t q hwf hok hqc
      obtain ⟨ds, hds, hsort⟩ := buildExp_kids o t hwf fuel q f ks hq hs ih (by omega)
      rw [buildExp_cons _ _ _ _ hb.1 ds hds, find_cons o t hwf q hqc]
      refine ⟨_, rfl, ?_⟩
      dsimp only
      rw [carryExport_node_eq o t q f ks hs ds, sortKids_node, hsort, carryExport, sortKids_node]
      rfl

/-! ### the whole sentence through the specification decoder -/

theorem bos4_eq : "#BOS".toList = ['#','B','O','S'] := rfl
theorem eos4_eq : "#EOS".toList = ['#','E','O','S'] := rfl

theorem splitWs_bos (sid : Nat) : splitWs ("#BOS ".toList ++ natToStr sid) = ["#BOS".toList, natToStr sid] := by
  rw [bos_eq, bos4_eq]
  have : ['#','B','O','S',' '] ++ natToStr sid = ['#','B','O','S'] ++ (' ' :: natToStr sid) := rfl
  rw [this, splitWs_word_sep _ _ ' ' (by decide) ⟨by simp, by decide⟩, splitWs_word _ (OKw_natToStr sid)]

theorem splitWs_eos (sid : Nat) : splitWs ("#EOS ".toList ++ natToStr sid) = ["#EOS".toList, natToStr sid] := by
  rw [eos_eq, eos4_eq]
  have : ['#','E','O','S',' '] ++ natToStr sid = ['#','E','O','S'] ++ (' ' :: natToStr sid) := rfl
  rw [this, splitWs_word_sep _ _ ' ' (by decide) ⟨by simp, by decide⟩, splitWs_word _ (OKw_natToStr sid)]

/-- the decoder after the frame and the lines have been read -/
def decBody (sid : Nat) (body : List ExpNode) : Option ExpSentence :=
  let isCons := fun (e : ExpNode) => (consNumber e.word).isSome
  let toks := (body.filter (fun e => !isCons e)).zipIdx.map fun (e, i) => (i + 1, e)
  let cons := (body.filter isCons).filterMap fun e => (consNumber e.word).map fun n => (n, e)
  (buildExp toks cons (body.length + 2) 0).map fun tree =>
    { sid := sid, tree := tree,
      tokensFirst := (body.dropWhile (fun e => !isCons e)).all isCons,
      numbersFrom500 := cons.map (·.1) == List.range' 500 cons.length,
      parentsResolve := body.all (fun e => e.parent == 0 || (cons.any (·.1 == e.parent))),
      childBelowParent := cons.all (fun (n, e) => e.parent == 0 || n < e.parent) }

theorem decExport_frame (v4 : Bool) (sid : Nat) (mid : List Str) (body : List ExpNode)
    (h : mid.mapM (decExpLine v4) = some body) :
    decExport v4 (["#BOS ".toList ++ natToStr sid] ++ mid ++ ["#EOS ".toList ++ natToStr sid]) = decBody sid body := by
  unfold decExport decBody
  have h1 : (["#BOS ".toList ++ natToStr sid] ++ mid ++ ["#EOS ".toList ++ natToStr sid]).head? = some ("#BOS ".toList ++ natToStr sid) := by
    simp
  have h2 : (["#BOS ".toList ++ natToStr sid] ++ mid ++ ["#EOS ".toList ++ natToStr sid]).getLast? = some ("#EOS ".toList ++ natToStr sid) :=
    List.getLast?_concat
  have h3 : ((["#BOS ".toList ++ natToStr sid] ++ mid ++ ["#EOS ".toList ++ natToStr sid]).drop 1).dropLast = mid := by
    simp
  rw [h1, h2, h3, h]
  simp only [Option.bind_eq_bind, Option.bind_some, splitWs_bos, splitWs_eos, beq_self_eq_true, if_true, strToNat_natToStr,
    bne_self_eq_false, Bool.false_eq_true, if_false]
  cases buildExp _ _ (body.length + 2) 0 <;> rfl


theorem filter_append_left' {α : Type} (p : α → Bool) (A B : List α) (hA : ∀ a ∈ A, p a = true) (hB : ∀ b ∈ B, p b = false) :
    (A ++ B).filter p = A := by
  rw [List.filter_append, List.filter_eq_self.2 hA, List.filter_eq_nil_iff.2 (fun b hb => by simp [hB b hb]), List.append_nil]

theorem filter_append_right' {α : Type} (p : α → Bool) (A B : List α) (hA : ∀ a ∈ A, p a = false) (hB : ∀ b ∈ B, p b = true) :
    (A ++ B).filter p = B := by
  rw [List.filter_append, List.filter_eq_self.2 hB, List.filter_eq_nil_iff.2 (fun b hb => by simp [hA b hb]), List.nil_append]

theorem dropWhile_append_all {α : Type} (p : α → Bool) : ∀ (A B : List α), (∀ a ∈ A, p a = true) →
    (A ++ B).dropWhile p = B.dropWhile p
  | [], _, _ => rfl
  | a :: A, B, h => by
    rw [List.cons_append, List.dropWhile_cons, if_pos (h a (by simp))]
    exact dropWhile_append_all p A B (fun x hx => h x (by simp [hx]))

theorem zipIdx_map_key {α β : Type} (key : α → Nat) (g : α → β) : ∀ (l : List α) (k : Nat),
    l.map key = List.range' (k + 1) l.length →
    ((l.map g).zipIdx k).map (fun (x : β × Nat) => (x.2 + 1, x.1)) = l.map fun a => (key a, g a)
  | [], _, _ => rfl
  | a :: l, k, h => by
    simp only [List.map_cons, List.length_cons, List.range'_succ, List.cons.injEq] at h
    simp only [List.map_cons, List.zipIdx_cons, h.1]
    rw [zipIdx_map_key key g l (k + 1) h.2]

theorem isPrefix_append (p r : Path) : isPrefix p (p ++ r) = true := by
  induction p with
  | nil => rfl
  | cons a p ih => simp [isPrefix, ih]

theorem properPrefix_dropLast (q : Path) (h : q ≠ []) : properPrefix q.dropLast q = true := by
  rcases eq_nil_or_snoc q with rfl | ⟨p, i, rfl⟩
  · exact absurd rfl h
  · simp [properPrefix, isPrefix_append]

theorem length_le_filter_ne_succ : ∀ (l : List Path), l.Nodup → l.length ≤ (l.filter (· ≠ [])).length + 1
  | [], _ => by simp
  | x :: l, h => by
    obtain ⟨h1, h2⟩ := List.nodup_cons.1 h
    by_cases hx : x = []
    · subst hx
      have : l.filter (· ≠ []) = l := List.filter_eq_self.2 (fun a ha => by
        simp only [ne_eq, decide_eq_true_eq]; intro e; subst e; exact h1 ha)
      rw [List.filter_cons_of_neg (by simp), this]
      simp
    · have := length_le_filter_ne_succ l h2
      rw [List.filter_cons_of_pos (by simpa using hx)]
      simp only [List.length_cons]; omega

/-- the lines of the body, decoded -/
def bodyOf (o : OutOpts) (t : Tree) : List ExpNode := (tokPaths t).map (entry o t) ++ (consPaths t).map (entry o t)

theorem height_le_body (o : OutOpts) (t : Tree) : height t ≤ (bodyOf o t).length + 1 := by
  have h1 := height_le_size t
  have h2 := length_paths t
  have h4 := (tok_cons_perm t).length_eq
  have h3 : (paths t).length ≤ (tokPaths t ++ consPaths t).length + 1 := by
    rw [h4]; exact length_le_filter_ne_succ _ (paths_nodup t)
  rw [List.length_append] at h3
  unfold bodyOf
  rw [List.length_append, List.length_map, List.length_map]
  omega

theorem body_toks (o : OutOpts) (t : Tree) (hwf : WF t = true) (hok : ExportOK o t = true) :
    ((bodyOf o t).filter (fun e => !(consNumber e.word).isSome)).zipIdx.map (fun (e, i) => (i + 1, e)) = toksT o t := by
  have hne := WF_noEmpty t hwf
  unfold bodyOf
  rw [filter_append_left']
  · exact zipIdx_map_key (numOf t) (entry o t) (tokPaths t) 0 (by
      rw [tokPaths_nums t hwf, tokPaths_length t hwf])
  · intro e he
    obtain ⟨p, hp, rfl⟩ := List.mem_map.1 he
    simp [consNumber_tok o t p hne hok hp]
  · intro e he
    obtain ⟨p, hp, rfl⟩ := List.mem_map.1 he
    simp [consNumber_cons o t p hwf hok hp]

theorem body_cons (o : OutOpts) (t : Tree) (hwf : WF t = true) (hok : ExportOK o t = true) :
    ((bodyOf o t).filter (fun e => (consNumber e.word).isSome)).filterMap (fun e => (consNumber e.word).map fun n => (n, e)) =
      consT o t := by
  have hne := WF_noEmpty t hwf
  unfold bodyOf
  rw [filter_append_right']
  · unfold consT
    apply filterMap_map_eq_map
    intro p hp
    simp [consNumber_cons o t p hwf hok hp]
  · intro e he
    obtain ⟨p, hp, rfl⟩ := List.mem_map.1 he
    simp [consNumber_tok o t p hne hok hp]
  · intro e he
    obtain ⟨p, hp, rfl⟩ := List.mem_map.1 he
    simp [consNumber_cons o t p hwf hok hp]

theorem carryExportRoot_node (o : OutOpts) (f : Fields) (ks : List Tree) :
    carryExportRoot o (node f ks) = node { label := DEFAULT_ROOT, edge := some DEFAULT_EDGE } (carryExportL o ks) := by
  simp [carryExportRoot, carryExport]

/-- the root is rebuilt -/
theorem buildExp_rootTree (o : OutOpts) (t : Tree) (hwf : WF t = true) (hok : ExportOK o t = true) (hN : t.leafNums.length < 500)
    (fuel : Nat) (hf : height t ≤ fuel) :
    ∃ d, buildExp (toksT o t) (consT o t) (fuel + 1) 0 = some d ∧ sortKids d = sortKids (carryExportRoot o t) := by
  have hroot := (WF_root t hwf).1
  cases ht : t with
  | leaf n f => rw [ht] at hwf; simp [WF, isLeaf] at hwf
  | node f ks =>
    rw [← ht]
    have hs : subAt t [] = node f ks := by rw [subAt_nil, ht]
    obtain ⟨ds, hds, hsort⟩ := buildExp_kids o t hwf fuel [] f ks (nil_mem_paths t) hs
      (buildExp_sub o t hwf hok hN fuel) (by rw [subAt_nil]; exact hf)
    rw [numOf_root t hroot] at hds
    refine ⟨_, buildExp_root _ _ _ ds hds, ?_⟩
    rw [ht, carryExportRoot_node, sortKids_node, sortKids_node, hsort]

/-- the structural flags -/
theorem body_tokensFirst (o : OutOpts) (t : Tree) (hwf : WF t = true) (hok : ExportOK o t = true) :
    ((bodyOf o t).dropWhile (fun e => !(consNumber e.word).isSome)).all (fun e => (consNumber e.word).isSome) = true := by
  have hne := WF_noEmpty t hwf
  unfold bodyOf
  rw [dropWhile_append_all _ _ _ (by
    intro e he
    obtain ⟨p, hp, rfl⟩ := List.mem_map.1 he
    simp [consNumber_tok o t p hne hok hp])]
  rw [List.all_eq_true]
  intro e he
  have := (List.dropWhile_sublist _).subset he
  obtain ⟨p, hp, rfl⟩ := List.mem_map.1 this
  simp [consNumber_cons o t p hwf hok hp]

theorem consT_nums (o : OutOpts) (t : Tree) (hwf : WF t = true) :
    ((consT o t).map (·.1) == List.range' 500 (consT o t).length) = true := by
  rw [beq_iff_eq]
  unfold consT
  rw [List.map_map, List.length_map]
  exact consPaths_nums t hwf

theorem parent_resolves (o : OutOpts) (t : Tree) (hwf : WF t = true) (q : Path) (hq : q ∈ paths t) (hq0 : q ≠ []) :
    ((entry o t q).parent == 0 || (consT o t).any (·.1 == (entry o t q).parent)) = true := by
  have hc := isCons_dropLast t q hq hq0
  have e : (entry o t q).parent = numOf t q.dropLast := rfl
  rw [e]
  by_cases h0 : q.dropLast = []
  · rw [h0, numOf_root t (WF_root t hwf).1]; rfl
  · have hm : q.dropLast ∈ consPaths t := by
      have hp := mem_paths_of_isCons t _ hc
      rw [isCons_eq t _ hp] at hc
      exact (mem_consPaths t _).2 ⟨hp, h0, by simpa using hc⟩
    rw [Bool.or_eq_true]; right
    rw [List.any_eq_true]
    exact ⟨(numOf t q.dropLast, entry o t q.dropLast), List.mem_map_of_mem hm, by simp⟩

theorem body_parentsResolve (o : OutOpts) (t : Tree) (hwf : WF t = true) :
    (bodyOf o t).all (fun e => e.parent == 0 || ((consT o t).any (·.1 == e.parent))) = true := by
  rw [List.all_eq_true]
  intro e he
  unfold bodyOf at he
  rw [← List.map_append] at he
  obtain ⟨q, hq, rfl⟩ := List.mem_map.1 he
  obtain ⟨h1, h2⟩ := (mem_tok_cons t q).1 hq
  exact parent_resolves o t hwf q h1 h2

theorem consT_childBelowParent (o : OutOpts) (t : Tree) (hwf : WF t = true) :
    (consT o t).all (fun (n, e) => e.parent == 0 || n < e.parent) = true := by
  rw [List.all_eq_true]
  intro x hx
  obtain ⟨q, hq, rfl⟩ := List.mem_map.1 hx
  obtain ⟨h1, h2, _⟩ := (mem_consPaths t q).1 hq
  have hc := isCons_dropLast t q h1 h2
  show ((entry o t q).parent == 0 || decide (numOf t q < (entry o t q).parent)) = true
  have e : (entry o t q).parent = numOf t q.dropLast := rfl
  rw [e]
  by_cases h0 : q.dropLast = []
  · rw [h0, numOf_root t (WF_root t hwf).1]; rfl
  · have := numOf_below t q.dropLast q hc (isCons_of_mem_consPaths t q hq) (properPrefix_dropLast q h2) h0
    simp [this]

/-- MAIN (decoder side): the decoded body gives the tree back and the structural flags hold -/
theorem decBody_write (o : OutOpts) (sid : Nat) (t : Tree) (hwf : WF t = true) (hok : ExportOK o t = true)
    (hN : t.leafNums.length < 500) :
    ∃ s, decBody sid (bodyOf o t) = some s ∧ s.sid = sid ∧ sortKids s.tree = sortKids (carryExportRoot o t) ∧
      s.tokensFirst = true ∧ s.numbersFrom500 = true ∧ s.parentsResolve = true ∧ s.childBelowParent = true := by
  obtain ⟨d, hd, hsd⟩ := buildExp_rootTree o t hwf hok hN ((bodyOf o t).length + 1) (height_le_body o t)
  unfold decBody
  simp only [body_toks o t hwf hok, body_cons o t hwf hok, hd, Option.map_some]
  exact ⟨_, rfl, rfl, hsd, body_tokensFirst o t hwf hok, consT_nums o t hwf, body_parentsResolve o t hwf,
    consT_childBelowParent o t hwf⟩

/-! ### the tool's own reader rebuilds the tree -/

/-- the word slot of a constituent is not content -/
def stripW : Tree → Tree :=
  Tree.mapFields (fun s f => match s with | .node _ _ => { f with word := none } | _ => f)

theorem mapFieldsL_eq (g : Tree → Fields → Fields) : ∀ ks : List Tree, mapFieldsL g ks = ks.map (mapFields g)
  | [] => rfl
  | t :: ts => by simp [mapFieldsL, mapFieldsL_eq g ts]

theorem stripW_leaf (n : Nat) (f : Fields) : stripW (leaf n f) = leaf n f := by
  simp [stripW, mapFields]

theorem stripW_node (f : Fields) (ks : List Tree) : stripW (node f ks) = node { f with word := none } (ks.map stripW) := by
  simp only [stripW, mapFields, mapFieldsL_eq]

theorem leafNums_stripW (x : Tree) : (stripW x).leafNums = x.leafNums := by
  induction x using tree_ind with
  | hl n f => rw [stripW_leaf]
  | hn f ks ih =>
    rw [stripW_node, leafNums_node, leafNums_node, List.flatMap_map]
    exact flatMap_congr' _ _ ks ih

/-- normal form used to compare what the reader delivers -/
def nf (x : Tree) : Tree := sortKids (stripW x)

theorem leftmost_nf (x : Tree) : leftmost (nf x) = leftmost x := by
  unfold nf
  rw [leftmost_sortKids]
  exact leftmost_of_perm _ _ (by rw [leafNums_stripW])

theorem leftmost_nf_carry (k : Tree) : leftmost (nf (carryExport {} k)) = leftmost k := by
  rw [leftmost_nf]
  exact leftmost_of_perm _ _ (by rw [leafNums_carryExport])

theorem nf_node (f : Fields) (ks : List Tree) :
    nf (node f ks) = node { f with word := none } (sortBy leftmost (ks.map nf)) := by
  unfold nf
  rw [stripW_node, sortKids_node, List.map_map]
  rfl

/-- the fields the reader parses from the line of the node at `p` -/
def rentry (t : Tree) (p : Path) : ExpFields :=
  { word := wordOf t p, lemma := DEFAULT_LEMMA, label := printedLabel {} (subAt t p), morph := (subAt t p).fields.morph.getD DEFAULT_MORPH, edge := (subAt t p).fields.edge.getD DEFAULT_EDGE, parent := numOf t p.dropLast }

/-- the node table of the reader -/
def nodesT (t : Tree) : List (Nat × ExpFields) :=
  (tokPaths t).map (fun p => (numOf t p, rentry t p)) ++ (consPaths t).map (fun p => (numOf t p, rentry t p))

def fieldsOf (e : ExpFields) : Fields :=
  { label := e.label, word := some e.word, lemma := some e.lemma, morph := some e.morph, edge := some e.edge }

theorem exportBuild_succ (nodes : List (Nat × ExpFields)) (fuel num : Nat) :
    exportBuild nodes (fuel + 1) num =
      if ((nodes.filter fun x => x.2.parent == num).map (·.1)).isEmpty then
        some (.leaf num (match nodes.find? (·.1 == num) with
          | some x => fieldsOf x.2
          | none => { label := DEFAULT_ROOT, edge := some DEFAULT_EDGE }))
      else (((nodes.filter fun x => x.2.parent == num).map (·.1)).mapM (exportBuild nodes fuel)).map fun ks =>
        .node (match nodes.find? (·.1 == num) with
          | some x => fieldsOf x.2
          | none => { label := DEFAULT_ROOT, edge := some DEFAULT_EDGE }) (sortBy Tree.leftmost ks) := by
  rw [exportBuild]
  cases nodes.find? (·.1 == num) <;> rfl

/-- the parent column selects the lines of the children (any record with a parent column) -/
theorem parent_filter_gen {β : Type} (E : Path → β) (par : β → Nat) (t : Tree) (hpar : ∀ q, par (E q) = numOf t q.dropLast)
    (hwf : WF t = true) (p : Path) (hc : isCons t p = true) (L : List Path) (hL : ∀ q ∈ L, q ∈ paths t ∧ q ≠ []) :
    ((L.map fun q => (numOf t q, E q)).filter (fun x => par x.2 == numOf t p)).map (·.1) =
      (L.filter (fun q => q.dropLast == p)).map (numOf t) := by
  rw [List.filter_map, List.map_map]
  have : L.filter ((fun x : Nat × β => par x.2 == numOf t p) ∘ fun q => (numOf t q, E q)) =
      L.filter (fun q => q.dropLast == p) := by
    apply List.filter_congr
    intro q hq
    obtain ⟨hq1, hq2⟩ := hL q hq
    have hcq := isCons_dropLast t q hq1 hq2
    show (par (E q) == numOf t p) = (q.dropLast == p)
    rw [hpar]
    by_cases h : q.dropLast = p
    · rw [h, beq_self_eq_true, beq_self_eq_true]
    · have : numOf t q.dropLast ≠ numOf t p := fun e => h (numOf_inj t _ _ (WF_root t hwf).1 hcq hc e)
      rw [beq_eq_false_iff_ne.2 this, beq_eq_false_iff_ne.2 h]
  rw [this]
  apply List.map_congr_left
  intro q _
  rfl

theorem kidNums_cons (t : Tree) (hwf : WF t = true) (p : Path) (hc : isCons t p = true) :
    ((nodesT t).filter fun x => x.2.parent == numOf t p).map (·.1) = (kidPaths t p).map (numOf t) := by
  unfold nodesT kidPaths
  rw [List.filter_append, List.map_append,
    parent_filter_gen (rentry t) (·.parent) t (fun _ => rfl) hwf p hc _ (fun q hq => (mem_tok_cons t q).1 (List.mem_append_left _ hq)),
    parent_filter_gen (rentry t) (·.parent) t (fun _ => rfl) hwf p hc _ (fun q hq => (mem_tok_cons t q).1 (List.mem_append_right _ hq)),
    List.filter_append, List.map_append]

/-- no line names a token as its parent -/
theorem kidNums_tok (t : Tree) (hwf : WF t = true) (hN : t.leafNums.length < 500)
    (p : Path) (hp : p ∈ tokPaths t) :
    ((nodesT t).filter fun x => x.2.parent == numOf t p).map (·.1) = [] := by
  have hb := numOf_tok_bounds t p hwf hp
  rw [List.map_eq_nil_iff, List.filter_eq_nil_iff]
  intro x hx
  unfold nodesT at hx
  rw [← List.map_append] at hx
  obtain ⟨q, hq, rfl⟩ := List.mem_map.1 hx
  obtain ⟨hq1, hq2⟩ := (mem_tok_cons t q).1 hq
  have hcq := isCons_dropLast t q hq1 hq2
  show ¬ ((rentry t q).parent == numOf t p) = true
  have e : (rentry t q).parent = numOf t q.dropLast := rfl
  rw [e, beq_iff_eq]
  by_cases h0 : q.dropLast = []
  · rw [h0, numOf_root t (WF_root t hwf).1]; omega
  · have := numOf_cons_range t _ hcq h0
    omega

theorem find_node_tok (t : Tree) (hwf : WF t = true) (p : Path) (hp : p ∈ tokPaths t) :
    (nodesT t).find? (·.1 == numOf t p) = some (numOf t p, rentry t p) := by
  unfold nodesT
  rw [List.find?_append, find?_map_key (numOf t) (rentry t) _ p hp (fun q hq h => numOf_tok_inj t hwf p q hp hq h)]
  rfl

theorem find_node_cons (o : OutOpts) (t : Tree) (hwf : WF t = true) (hok : ExportOK o t = true) (hN : t.leafNums.length < 500)
    (p : Path) (hp : p ∈ consPaths t) :
    (nodesT t).find? (·.1 == numOf t p) = some (numOf t p, rentry t p) := by
  have hb := numOf_cons_bounds o t p hwf hok hp
  unfold nodesT
  rw [List.find?_append, find?_map_key_none (numOf t) (rentry t) _ _ (fun q hq => by
      have := numOf_tok_bounds t q hwf hq; omega),
    find?_map_key (numOf t) (rentry t) _ p hp (fun q hq h =>
      numOf_inj t q p (WF_root t hwf).1 (isCons_of_mem_consPaths t q hq) (isCons_of_mem_consPaths t p hp) h)]
  rfl

theorem find_node_root (o : OutOpts) (t : Tree) (hwf : WF t = true) (hok : ExportOK o t = true) :
    (nodesT t).find? (·.1 == 0) = none := by
  unfold nodesT
  rw [List.find?_append, find?_map_key_none (numOf t) (rentry t) _ _ (fun q hq => by
      have := numOf_tok_bounds t q hwf hq; omega),
    find?_map_key_none (numOf t) (rentry t) _ _ (fun q hq => by
      have := numOf_cons_bounds o t q hwf hok hq; omega)]
  rfl

theorem kidPaths_ne_nil (t : Tree) (hne : t.noEmpty = true) (p : Path) (f : Fields) (ks : List Tree) (hp : p ∈ paths t)
    (hs : subAt t p = node f ks) : ((kidPaths t p).map (numOf t)).isEmpty = false := by
  have hl := (kidPaths_perm t p f ks hp hs).length_eq
  have hks : ks ≠ [] := by
    have := noEmpty_subAt t p hne hp
    rw [hs] at this
    exact ((noEmpty_node_iff f ks).1 this).1
  have : 0 < ks.length := List.length_pos_iff.2 hks
  simp only [List.length_map, List.length_range] at hl
  cases h : (kidPaths t p).map (numOf t) with
  | nil => rw [List.map_eq_nil_iff] at h; rw [h] at hl; simp at hl; omega
  | cons a r => rfl

/-- the children of a constituent are rebuilt by the reader (given that every lower node is) -/
theorem exportBuild_kids (t : Tree) (hwf : WF t = true) (fuel : Nat) (p : Path) (f : Fields) (ks : List Tree)
    (hp : p ∈ paths t) (hs : subAt t p = node f ks)
    (ih : ∀ q ∈ paths t, q ≠ [] → height (subAt t q) < fuel →
      ∃ d, exportBuild (nodesT t) fuel (numOf t q) = some d ∧ nf d = nf (carryExport {} (subAt t q)))
    (hh : height (subAt t p) ≤ fuel) :
    ∃ ds, ((kidPaths t p).map (numOf t)).mapM (exportBuild (nodesT t) fuel) = some ds ∧
      sortBy leftmost ((sortBy leftmost ds).map nf) = sortBy leftmost ((carryExportL {} ks).map nf) := by
  rw [List.mapM_map]
  obtain ⟨ds, hds, hmap⟩ := mapM_option_some (exportBuild (nodesT t) fuel ∘ numOf t) nf
    (fun q => nf (carryExport {} (subAt t q))) (kidPaths t p) (by
      intro q hq
      obtain ⟨hq1, hq2, hq3⟩ := height_kid_lt t p f ks hp hs q hq
      exact ih q hq1 hq2 (by omega))
  refine ⟨ds, hds, ?_⟩
  have hkeys := kids_leftmost_nodup t p f ks hwf hp hs
  have h2 : sortBy leftmost (ds.map nf) = sortBy leftmost ((carryExportL {} ks).map nf) := by
    rw [hmap, carryExportL_eq, List.map_map]
    exact sortBy_kids_eq t p f ks hp hs _ (kidPaths_perm t p f ks hp hs) (nf ∘ carryExport {})
      (fun k => leftmost_nf_carry k) hkeys
  rw [← h2]
  refine (sortBy_perm_eq leftmost _ _ ((sortBy_perm leftmost ds).map nf).symm ?_).symm
  -- the keys of the rebuilt children are those of the stored children
  have h3 : ((ds.map nf).map leftmost).Perm ((carryExportL {} ks).map nf |>.map leftmost) := by
    have a := (sortBy_perm leftmost (ds.map nf)).map leftmost
    have b := (sortBy_perm leftmost ((carryExportL {} ks).map nf)).map leftmost
    rw [h2] at a
    exact a.symm.trans b
  refine h3.symm.nodup ?_
  rw [carryExportL_eq, List.map_map, List.map_map]
  have : ((leftmost ∘ nf) ∘ carryExport {}) = leftmost := funext (fun k => leftmost_nf_carry k)
  rw [this]; exact hkeys

theorem carry_leaf_eq (t : Tree) (p : Path) (n : Nat) (f : Fields) (hs : subAt t p = leaf n f) (hw : f.word.isSome = true) :
    leaf n (fieldsOf (rentry t p)) = carryExport {} (leaf n f) := by
  obtain ⟨w, hw⟩ := Option.isSome_iff_exists.1 hw
  simp only [fieldsOf, rentry, wordOf, hs, carryExport, kids, fields, List.isEmpty_nil, if_true, hw, Option.getD_some]
  rfl

theorem carry_node_eq (t : Tree) (p : Path) (f : Fields) (ks : List Tree) (hs : subAt t p = node f ks) :
    { fieldsOf (rentry t p) with word := none } = { (carryExport {} (node f ks)).fields with word := none } := by
  simp only [fieldsOf, rentry, hs, carryExport, fields]
  rfl

/-- every non-root node is rebuilt by the reader from its number -/
theorem exportBuild_sub (t : Tree) (hwf : WF t = true) (hok : ExportOK {} t = true) (hN : t.leafNums.length < 500) :
    ∀ fuel, ∀ q ∈ paths t, q ≠ [] → height (subAt t q) < fuel →
      ∃ d, exportBuild (nodesT t) fuel (numOf t q) = some d ∧ nf d = nf (carryExport {} (subAt t q)) := by
  have hne := WF_noEmpty t hwf
  intro fuel
  induction fuel with
  | zero => intro q _ _ h; omega
  | succ fuel ih =>
    intro q hq hq0 hh
    cases hs : subAt t q with
    | leaf n f =>
      have hqt : q ∈ tokPaths t := (mem_tokPaths t q).2 ⟨hq, hq0, by rw [hs]; rfl⟩
      rw [exportBuild_succ, kidNums_tok t hwf hN q hqt, find_node_tok t hwf q hqt]
      refine ⟨_, rfl, ?_⟩
      dsimp only
      rw [numOf_leaf t q n f hq hs, carry_leaf_eq t q n f hs (word_isSome_of_ok {} t q n f hok hq hs)]
    | node f ks =>
      have hk : (subAt t q).kids.isEmpty = false := by
        rw [kids_isEmpty_eq_isLeaf _ (noEmpty_subAt t q hne hq), hs]; rfl
      have hqc : q ∈ consPaths t := (mem_consPaths t q).2 ⟨hq, hq0, hk⟩
      have hc := isCons_of_mem_consPaths t q hqc
      obtain ⟨ds, hds, hsort⟩ := exportBuild_kids t hwf fuel q f ks hq hs ih (by omega)
      rw [exportBuild_succ, kidNums_cons t hwf q hc, find_node_cons {} t hwf hok hN q hqc, hds,
        if_neg (by rw [kidPaths_ne_nil t hne q f ks hq hs]; simp)]
      refine ⟨_, rfl, ?_⟩
      dsimp only
      rw [nf_node, hsort, carryExport, nf_node, carry_node_eq t q f ks hs]
      rfl

/-- the root is rebuilt by the reader -/
theorem exportBuild_rootTree (t : Tree) (hwf : WF t = true) (hok : ExportOK {} t = true) (hN : t.leafNums.length < 500)
    (fuel : Nat) (hf : height t ≤ fuel) :
    ∃ d, exportBuild (nodesT t) (fuel + 1) 0 = some d ∧ nf d = nf (carryExportRoot {} t) := by
  have hroot := (WF_root t hwf).1
  have hne := WF_noEmpty t hwf
  cases ht : t with
  | leaf n f => rw [ht] at hwf; simp [WF, isLeaf] at hwf
  | node f ks =>
    rw [← ht]
    have hs : subAt t [] = node f ks := by rw [subAt_nil, ht]
    obtain ⟨ds, hds, hsort⟩ := exportBuild_kids t hwf fuel [] f ks (nil_mem_paths t) hs
      (exportBuild_sub t hwf hok hN fuel) (by rw [subAt_nil]; exact hf)
    have hk := kidNums_cons t hwf [] hroot
    rw [numOf_root t hroot] at hk
    rw [exportBuild_succ, hk, find_node_root {} t hwf hok, hds,
      if_neg (by rw [kidPaths_ne_nil t hne [] f ks (nil_mem_paths t) hs]; simp)]
    refine ⟨_, rfl, ?_⟩
    dsimp only
    rw [ht, carryExportRoot_node, nf_node, nf_node, hsort]

/-! ### the reader on the lines of one sentence -/

theorem splitWs_of_decExpLine_v3 (line : Str) (e : ExpNode) (h : decExpLine false line = some e) :
    ∃ p, splitWs line = [e.word, e.label, e.morph, e.edge, p] ∧ strToNat? p = some e.parent := by
  unfold decExpLine at h
  split at h
  · rename_i w l m ed p hs _
    cases hp : strToNat? p with
    | none => simp [hp] at h
    | some pn =>
      simp only [hp, Option.map_some, Option.some.injEq] at h
      subst h
      exact ⟨p, hs, hp⟩
  · rename_i hf
    cases hf
  · cases h

theorem pyIsDigit_of_strToNat {s : Str} {n : Nat} (h : strToNat? s = some n) : pyIsDigit s = true := by
  unfold strToNat? at h
  split at h
  · assumption
  · cases h

theorem exportParseLine_of_split (o : InOpts) (hgf : o.gfSplit = false) (line w l m e p : Str) (pn : Nat)
    (hs : splitWs line = [w, l, m, e, p]) (hp : strToNat? p = some pn) (hr : pn = 0 ∨ (500 ≤ pn ∧ pn < 1000)) :
    exportParseLine o line = .ok { word := w, lemma := DEFAULT_LEMMA, label := l, morph := m, edge := e, parent := pn } := by
  have hrange : (!((decide (500 ≤ pn) && decide (pn < 1000)) || pn == 0)) = false := by
    rcases hr with rfl | ⟨h1, h2⟩ <;> simp [*]
  unfold exportParseLine
  simp only [hs]
  have h4 : [w, l, m, e, p][4]? = some p := rfl
  rw [h4]
  simp only [pyIsDigit_of_strToNat hp, if_true, List.take_succ_cons, List.take_zero, List.drop_succ_cons, List.drop_zero,
    List.cons_append, List.nil_append, hp, hrange, hgf, Bool.false_eq_true, if_false]

/-- the reader parses the line of the node at `p` -/
theorem parse_lineAt (t : Tree) (p : Path) (hwf : WF t = true) (hok : ExportOK {} t = true) (hp : p ∈ paths t) (hp0 : p ≠ [])
    (h : decExpLine false (lineAt {} t p) = some (entry {} t p)) :
    exportParseLine {} (lineAt {} t p) = .ok (rentry t p) := by
  obtain ⟨pp, hs, hpp⟩ := splitWs_of_decExpLine_v3 _ _ h
  have hc := isCons_dropLast t p hp hp0
  have hr : (entry {} t p).parent = 0 ∨ (500 ≤ (entry {} t p).parent ∧ (entry {} t p).parent < 1000) := by
    have e : (entry {} t p).parent = numOf t p.dropLast := rfl
    rw [e]
    by_cases h0 : p.dropLast = []
    · left; rw [h0, numOf_root t (WF_root t hwf).1]
    · right
      have hm : p.dropLast ∈ consPaths t := by
        have hp' := mem_paths_of_isCons t _ hc
        rw [isCons_eq t _ hp'] at hc
        exact (mem_consPaths t _).2 ⟨hp', h0, by simpa using hc⟩
      exact numOf_cons_bounds {} t _ hwf hok hm
  exact exportParseLine_of_split {} rfl _ _ _ _ _ _ _ hs hpp hr

/-- the test the reader uses to tell constituent lines from token lines -/
def rIsCons (w : Str) : Bool := w.length == 4 && w.head? == some '#' && pyIsDigit (w.drop 1)

theorem rIsCons_of_some (w : Str) (n : Nat) (h : consNumber w = some n) :
    rIsCons w = true ∧ (strToNat? (w.drop 1)).getD 0 = n := by
  unfold consNumber at h
  split at h
  · rename_i d
    split at h
    · rename_i hd
      simp only [beq_iff_eq] at hd
      simp [rIsCons, hd, h, pyIsDigit_of_strToNat h]
    · cases h
  · cases h

theorem rIsCons_of_none (w : Str) (h : consNumber w = none) : rIsCons w = false := by
  cases hr : rIsCons w with
  | false => rfl
  | true =>
    exfalso
    unfold rIsCons at hr
    simp only [Bool.and_eq_true, beq_iff_eq] at hr
    obtain ⟨⟨h1, h2⟩, h3⟩ := hr
    cases w with
    | nil => simp at h2
    | cons c d =>
      simp only [List.head?_cons, Option.some.injEq] at h2
      subst h2
      simp only [List.drop_succ_cons, List.drop_zero] at h3
      simp only [List.length_cons] at h1
      have hd : d.length = 3 := by omega
      simp [consNumber, hd, strToNat?, h3] at h

/-- one step of the reader's numbering pass -/
def rstep (acc : List (Nat × ExpFields) × Nat) (f : ExpFields) : List (Nat × ExpFields) × Nat :=
  let isCons := f.word.length == 4 && f.word.head? == some '#' && pyIsDigit (f.word.drop 1)
  let num := if isCons then (strToNat? (f.word.drop 1)).getD 0 else acc.2
  (acc.1 ++ [(num, f)], if isCons then acc.2 else acc.2 + 1)

theorem exportSentence_eq (o : InOpts) (lines : List Str) :
    exportSentence o lines = (lines.mapM (exportParseLine o) >>= fun fs =>
      if ((fs.foldl rstep ([], 1)).1).any (fun (n, _) => n > 999) then throw .valueError
      else match exportBuild (fs.foldl rstep ([], 1)).1 ((fs.foldl rstep ([], 1)).1.length + 2) 0 with
        | some t => pure t
        | none => throw .other) := rfl

theorem foldl_rstep_toks {ι : Type} (E : ι → ExpFields) (key : ι → Nat) : ∀ (A : List ι) (acc : List (Nat × ExpFields)) (k : Nat),
    (∀ q ∈ A, rIsCons (E q).word = false) → A.map key = List.range' k A.length →
    (A.map E).foldl rstep (acc, k) = (acc ++ A.map (fun q => (key q, E q)), k + A.length)
  | [], acc, k, _, _ => by simp
  | q :: A, acc, k, h, hk => by
    have hf : ((E q).word.length == 4 && (E q).word.head? == some '#' && pyIsDigit ((E q).word.drop 1)) = false := h q (by simp)
    simp only [List.map_cons, List.length_cons, List.range'_succ, List.cons.injEq] at hk
    rw [List.map_cons, List.foldl_cons]
    have : rstep (acc, k) (E q) = (acc ++ [(k, E q)], k + 1) := by
      simp only [rstep, hf, Bool.false_eq_true, if_false]
    rw [this, foldl_rstep_toks E key A _ (k + 1) (fun g hg => h g (by simp [hg])) hk.2]
    simp only [List.map_cons, hk.1, List.append_assoc, List.cons_append, List.nil_append, List.length_cons]
    congr 1; omega

theorem foldl_rstep_cons {ι : Type} (E : ι → ExpFields) (key : ι → Nat) : ∀ (B : List ι) (acc : List (Nat × ExpFields)) (k : Nat),
    (∀ q ∈ B, rIsCons (E q).word = true ∧ (strToNat? ((E q).word.drop 1)).getD 0 = key q) →
    (B.map E).foldl rstep (acc, k) = (acc ++ B.map (fun q => (key q, E q)), k)
  | [], acc, k, _ => by simp
  | q :: B, acc, k, h => by
    obtain ⟨h1, h2⟩ := h q (by simp)
    have hf : ((E q).word.length == 4 && (E q).word.head? == some '#' && pyIsDigit ((E q).word.drop 1)) = true := h1
    rw [List.map_cons, List.foldl_cons]
    have : rstep (acc, k) (E q) = (acc ++ [(key q, E q)], k) := by
      simp only [rstep, hf, if_true, h2]
    rw [this, foldl_rstep_cons E key B _ k (fun g hg => h g (by simp [hg]))]
    simp

/-- the numbering pass of the reader yields the node table -/
theorem foldl_rstep_nodes (t : Tree) (hwf : WF t = true) (hok : ExportOK {} t = true) :
    (((tokPaths t ++ consPaths t).map (rentry t)).foldl rstep ([], 1)).1 = nodesT t := by
  have hne := WF_noEmpty t hwf
  rw [List.map_append, List.foldl_append,
    foldl_rstep_toks (rentry t) (numOf t) (tokPaths t) [] 1 (fun q hq => rIsCons_of_none _ (consNumber_tok {} t q hne hok hq))
      (by rw [tokPaths_nums t hwf, tokPaths_length t hwf]),
    foldl_rstep_cons (rentry t) (numOf t) (consPaths t) _ _ (fun q hq => rIsCons_of_some _ _ (consNumber_cons {} t q hwf hok hq))]
  rfl

theorem nodesT_small (t : Tree) (hwf : WF t = true) (hok : ExportOK {} t = true) (hN : t.leafNums.length < 500) :
    (nodesT t).any (fun (n, _) => n > 999) = false := by
  rw [List.any_eq_false]
  intro x hx
  unfold nodesT at hx
  rcases List.mem_append.1 hx with hx | hx
  · obtain ⟨q, hq, rfl⟩ := List.mem_map.1 hx
    have := numOf_tok_bounds t q hwf hq
    simp; omega
  · obtain ⟨q, hq, rfl⟩ := List.mem_map.1 hx
    have := numOf_cons_bounds {} t q hwf hok hq
    simp; omega

theorem length_nodesT (t : Tree) : (nodesT t).length = (bodyOf {} t).length := by
  simp [nodesT, bodyOf]

/-- the reader on the body lines of a written sentence -/
theorem exportSentence_write (t : Tree) (hwf : WF t = true) (hok : ExportOK {} t = true) (hN : t.leafNums.length < 500)
    (hdec : ∀ p ∈ tokPaths t ++ consPaths t, decExpLine false (lineAt {} t p) = some (entry {} t p)) :
    ∃ r, exportSentence {} ((tokPaths t ++ consPaths t).map (lineAt {} t)) = .ok r ∧ nf r = nf (carryExportRoot {} t) := by
  have hparse : ((tokPaths t ++ consPaths t).map (lineAt {} t)).mapM (exportParseLine {}) =
      .ok ((tokPaths t ++ consPaths t).map (rentry t)) := by
    have : ∀ (L : List Path), (∀ p ∈ L, p ∈ tokPaths t ++ consPaths t) →
        (L.map (lineAt {} t)).mapM (exportParseLine {}) = .ok (L.map (rentry t)) := by
      intro L
      induction L with
      | nil => intro _; rfl
      | cons p L ih =>
        intro h
        obtain ⟨hp1, hp2⟩ := (mem_tok_cons t p).1 (h p (by simp))
        rw [List.map_cons, List.mapM_cons, parse_lineAt t p hwf hok hp1 hp2 (hdec p (h p (by simp))),
          ih (fun q hq => h q (by simp [hq]))]
        rfl
    exact this _ (fun p hp => hp)
  obtain ⟨d, hd, hnf⟩ := exportBuild_rootTree t hwf hok hN ((nodesT t).length + 1) (by
    rw [length_nodesT]; exact height_le_body {} t)
  refine ⟨d, ?_, hnf⟩
  rw [exportSentence_eq, hparse]
  show (if ((((tokPaths t ++ consPaths t).map (rentry t)).foldl rstep ([], 1)).1).any (fun (n, _) => n > 999) then throw Err.valueError
      else match exportBuild (((tokPaths t ++ consPaths t).map (rentry t)).foldl rstep ([], 1)).1
          ((((tokPaths t ++ consPaths t).map (rentry t)).foldl rstep ([], 1)).1.length + 2) 0 with
        | some t => pure t
        | none => throw Err.other) = Except.ok d
  rw [foldl_rstep_nodes t hwf hok, nodesT_small t hwf hok hN, hd]
  rfl

/-! ### the text of a sentence, split into lines again -/

theorem splitOnChar_ne_nil (c : Char) : ∀ s : Str, splitOnChar c s ≠ []
  | [] => by simp [splitOnChar]
  | x :: xs => by
    rw [splitOnChar]
    split
    · simp
    · split <;> simp

theorem splitOnChar_append (c : Char) : ∀ (a rest : Str), c ∉ a → splitOnChar c (a ++ c :: rest) = a :: splitOnChar c rest
  | [], rest, _ => by simp [splitOnChar]
  | x :: a, rest, h => by
    have hx : x ≠ c := fun e => h (by simp [e])
    have ih := splitOnChar_append c a rest (fun hc => h (by simp [hc]))
    rw [List.cons_append, splitOnChar, if_neg hx, ih]

theorem splitOnChar_lines : ∀ (ls : List Str), (∀ l ∈ ls, '\n' ∉ l) →
    splitOnChar '\n' ((ls.map (· ++ ['\n'])).flatten) = ls ++ [[]]
  | [], _ => by simp [splitOnChar]
  | l :: ls, h => by
    rw [List.map_cons, List.flatten_cons, List.append_assoc, List.singleton_append,
      splitOnChar_append '\n' l _ (h l (by simp)), splitOnChar_lines ls (fun x hx => h x (by simp [hx]))]
    rfl

/-! ### the reader's loop over the lines -/

/-- `line.strip()` -/
def strip (line : Str) : Str := ((line.dropWhile pyIsSpace).reverse.dropWhile pyIsSpace).reverse

theorem strip_id (l : Str) (c : Char) (r : Str) (c' : Char) (r' : Str) (h1 : l = c :: r) (hc : pyIsSpace c = false)
    (h2 : l = r' ++ [c']) (hc' : pyIsSpace c' = false) : strip l = l := by
  unfold strip
  have e1 : l.dropWhile pyIsSpace = l := by rw [h1, List.dropWhile_cons, if_neg (by simp [hc])]
  rw [e1]
  have e2 : l.reverse.dropWhile pyIsSpace = l.reverse := by
    rw [h2, List.reverse_append, List.reverse_singleton, List.singleton_append, List.dropWhile_cons, if_neg (by simp [hc'])]
  rw [e2, List.reverse_reverse]

theorem strip_nil : strip [] = [] := rfl

theorem exportLoop_nil (o : InOpts) (cur : Option (Nat × List Str)) (cnt : Nat) (acc : List (Nat × Tree)) :
    exportLoop o [] cur cnt acc = .ok acc.reverse := by
  rw [exportLoop]

theorem exportLoop_skip (o : InOpts) (line : Str) (rest : List Str) (cnt : Nat) (acc : List (Nat × Tree))
    (h : "#BOS".toList.isPrefixOf (strip line) = false) :
    exportLoop o (line :: rest) none cnt acc = exportLoop o rest none cnt acc := by
  rw [exportLoop]
  show (if "#BOS".toList.isPrefixOf (strip line) = true then _ else _) = _
  rw [if_neg (by rw [h]; exact Bool.false_ne_true)]

theorem exportLoop_bos (o : InOpts) (line : Str) (rest : List Str) (cnt : Nat) (acc : List (Nat × Tree)) (id : Nat)
    (h : "#BOS".toList.isPrefixOf (strip line) = true) (hid : (splitWs (strip line))[1]?.bind strToNat? = some id) :
    exportLoop o (line :: rest) none cnt acc = exportLoop o rest (some (id, [])) cnt acc := by
  rw [exportLoop]
  show (if "#BOS".toList.isPrefixOf (strip line) = true then
      (match (splitWs (strip line))[1]?.bind strToNat? with
        | some id => exportLoop o rest (some (id, [])) cnt acc
        | none => .error .valueError) else _) = _
  rw [if_pos h, hid]

theorem exportLoop_body (o : InOpts) (line : Str) (rest : List Str) (cnt : Nat) (acc : List (Nat × Tree)) (id : Nat)
    (body : List Str) (h : "#EOS".toList.isPrefixOf (strip line) = false) :
    exportLoop o (line :: rest) (some (id, body)) cnt acc = exportLoop o rest (some (id, strip line :: body)) cnt acc := by
  rw [exportLoop]
  show (if "#EOS".toList.isPrefixOf (strip line) = true then _ else _) = _
  rw [if_neg (by rw [h]; exact Bool.false_ne_true)]
  rfl

theorem exportLoop_eos (o : InOpts) (line : Str) (rest : List Str) (cnt : Nat) (acc : List (Nat × Tree)) (id : Nat)
    (body : List Str) (t : Tree) (h : "#EOS".toList.isPrefixOf (strip line) = true)
    (ht : exportSentence o body.reverse = .ok t) :
    exportLoop o (line :: rest) (some (id, body)) cnt acc =
      exportLoop o rest none (cnt + 1) ((if o.continuous then cnt else id, if o.replaceParens then replaceParensTree t else t) :: acc) := by
  rw [exportLoop]
  show (if "#EOS".toList.isPrefixOf (strip line) = true then
      (match exportSentence o body.reverse with
        | Except.error e => Except.error e
        | Except.ok t => exportLoop o rest none (cnt + 1) ((if o.continuous then cnt else id, if o.replaceParens then replaceParensTree t else t) :: acc))
      else _) = _
  rw [if_pos h, ht]

/-- the body lines are collected (in reverse) -/
theorem exportLoop_collect (o : InOpts) (cnt : Nat) (acc : List (Nat × Tree)) (id : Nat) : ∀ (lines rest body : List Str),
    (∀ l ∈ lines, strip l = l ∧ "#EOS".toList.isPrefixOf l = false) →
    exportLoop o (lines ++ rest) (some (id, body)) cnt acc = exportLoop o rest (some (id, lines.reverse ++ body)) cnt acc
  | [], rest, body, _ => rfl
  | l :: lines, rest, body, h => by
    obtain ⟨h1, h2⟩ := h l (by simp)
    rw [List.cons_append, exportLoop_body o l _ cnt acc id body (by rw [h1]; exact h2), h1,
      exportLoop_collect o cnt acc id lines rest (l :: body) (fun x hx => h x (by simp [hx]))]
    simp

/-! ### the characters of a line -/

theorem exportTabs_all (n : Nat) : ∀ c ∈ exportTabs n, c = '\t' := by
  unfold exportTabs
  split
  · simp
  split <;> simp

theorem exportTabs_eq_cons (n : Nat) : exportTabs n = '\t' :: (exportTabs n).tail := by
  unfold exportTabs
  split
  · rfl
  split <;> rfl

theorem mem_tail_tabs (n : Nat) (c : Char) (h : c ∈ (exportTabs n).tail) : c = '\t' :=
  exportTabs_all n c (List.mem_of_mem_tail h)

/-- a written line: the word, a tab, fields and tabs, the parent number -/
theorem exportLine_shape (o : OutOpts) (s : Tree) (w : Str) (pn : Nat) (l : Str) (h : exportLine o s w pn = .ok l) :
    ∃ mid, l = w ++ '\t' :: (mid ++ natToStr pn) ∧
      ∀ c ∈ mid, c = '\t' ∨ c ∈ printedLabel o s ∨ c ∈ s.fields.morph.getD DEFAULT_MORPH ∨
        c ∈ s.fields.edge.getD DEFAULT_EDGE ∨ c ∈ s.fields.lemma.getD DEFAULT_LEMMA := by
  unfold exportLine at h
  obtain ⟨label, hl, h⟩ := bind_eq_ok _ _ _ h
  rw [setFields_edge_eq] at hl
  have hpl := printedLabel_of_ok o s label hl
  cases h4 : o.exportFour with
  | false =>
    simp only [h4, Bool.not_false, if_true, pure, Except.pure, Except.ok.injEq] at h
    subst h
    refine ⟨(exportTabs w.length).tail ++ label ++ ['\t'] ++ s.fields.morph.getD DEFAULT_MORPH ++
      exportTabs ((s.fields.morph.getD DEFAULT_MORPH).length + 8) ++ s.fields.edge.getD DEFAULT_EDGE ++ ['\t'], ?_, ?_⟩
    · conv => lhs; rw [exportTabs_eq_cons w.length]
      simp only [List.append_assoc, List.cons_append, List.nil_append]
    · intro c hc
      simp only [List.mem_append, List.mem_singleton] at hc
      rcases hc with (((((hc | hc) | hc) | hc) | hc) | hc) | hc
      · exact Or.inl (mem_tail_tabs _ c hc)
      · exact Or.inr (Or.inl (hpl ▸ hc))
      · exact Or.inl hc
      · exact Or.inr (Or.inr (Or.inl hc))
      · exact Or.inl (exportTabs_all _ c hc)
      · exact Or.inr (Or.inr (Or.inr (Or.inl hc)))
      · exact Or.inl hc
  | true =>
    simp only [h4, Bool.not_true, Bool.false_eq_true, if_false, pure, Except.pure, Except.ok.injEq] at h
    subst h
    refine ⟨(exportTabs w.length).tail ++ s.fields.lemma.getD DEFAULT_LEMMA ++ exportTabs (s.fields.lemma.getD DEFAULT_LEMMA).length ++
      label ++ ['\t'] ++ s.fields.morph.getD DEFAULT_MORPH ++
      exportTabs ((s.fields.morph.getD DEFAULT_MORPH).length + 8) ++ s.fields.edge.getD DEFAULT_EDGE ++ ['\t'], ?_, ?_⟩
    · conv => lhs; rw [exportTabs_eq_cons w.length]
      simp only [List.append_assoc, List.cons_append, List.nil_append]
    · intro c hc
      simp only [List.mem_append, List.mem_singleton] at hc
      rcases hc with (((((((hc | hc) | hc) | hc) | hc) | hc) | hc) | hc) | hc
      · exact Or.inl (mem_tail_tabs _ c hc)
      · exact Or.inr (Or.inr (Or.inr (Or.inr hc)))
      · exact Or.inl (exportTabs_all _ c hc)
      · exact Or.inr (Or.inl (hpl ▸ hc))
      · exact Or.inl hc
      · exact Or.inr (Or.inr (Or.inl hc))
      · exact Or.inl (exportTabs_all _ c hc)
      · exact Or.inr (Or.inr (Or.inr (Or.inl hc)))
      · exact Or.inl hc

theorem natToStr_last (n : Nat) : ∃ r c, natToStr n = r ++ [c] ∧ pyIsSpace c = false := by
  have hne := natToStr_ne_nil n
  refine ⟨(natToStr n).dropLast, (natToStr n).getLast hne, (List.dropLast_concat_getLast hne).symm, ?_⟩
  exact natToStr_noSpace n _ (List.getLast_mem hne)

theorem isPrefixOf_before_tab : ∀ (k w rest : Str), '\t' ∉ k → k.isPrefixOf (w ++ '\t' :: rest) = true → k.isPrefixOf w = true
  | [], w, _, _, _ => by simp [List.isPrefixOf]
  | a :: k, [], rest, hk, h => by
    simp only [List.nil_append, List.isPrefixOf, Bool.and_eq_true, beq_iff_eq] at h
    exact absurd (by simp [h.1]) hk
  | a :: k, b :: w, rest, hk, h => by
    simp only [List.cons_append, List.isPrefixOf, Bool.and_eq_true] at h ⊢
    exact ⟨h.1, isPrefixOf_before_tab k w rest (fun hc => hk (by simp [hc])) h.2⟩

theorem eos_not_prefix_hash (n : Nat) : "#EOS".toList.isPrefixOf ('#' :: natToStr n) = false := by
  rw [eos4_eq]
  cases hd : natToStr n with
  | nil => exact absurd hd (natToStr_ne_nil n)
  | cons c r =>
    have : c.isDigit = true := natToStr_isDigit n c (by rw [hd]; simp)
    have hc : ('E' == c) = false := by
      rw [beq_eq_false_iff_ne]; intro e; subst e; revert this; decide
    simp [List.isPrefixOf, hc]

/-- what the reader's loop needs to know about a body line -/
theorem lineAt_loop_ok (t : Tree) (p : Path) (l : Str) (hne : t.noEmpty = true) (hok : ExportOK {} t = true)
    (hp : p ∈ paths t) (h : exportLine {} (subAt t p) (wordOf t p) (numOf t p.dropLast) = .ok l)
    (heos : "#EOS".toList.isPrefixOf (wordOf t p) = false) :
    '\n' ∉ lineAt {} t p ∧ strip (lineAt {} t p) = lineAt {} t p ∧ "#EOS".toList.isPrefixOf (lineAt {} t p) = false := by
  have hl : lineAt {} t p = l := lineOf_ok h
  rw [hl]
  obtain ⟨mid, rfl, hmid⟩ := exportLine_shape {} _ _ _ l h
  have hs := ExportOK_sub {} t _ hok (mem_subtrees_subAt t p hp)
  obtain ⟨hw1, hw2⟩ := wordOf_ok {} t p hne hok hp
  have hmid' : ∀ c ∈ mid, c = '\t' ∨ pyIsSpace c = false := by
    intro c hc
    rcases hmid c hc with h | h | h | h | h
    · exact Or.inl h
    · exact Or.inr (((fieldOK_iff _).1 hs.1).2 c h)
    · exact Or.inr (((fieldOK_iff _).1 hs.2.1).2 c h)
    · exact Or.inr (((fieldOK_iff _).1 hs.2.2.1).2 c h)
    · exact Or.inr (((fieldOK_iff _).1 hs.2.2.2.1).2 c h)
  refine ⟨?_, ?_, ?_⟩
  · intro hc
    simp only [List.mem_append, List.mem_cons] at hc
    rcases hc with hc | hc | hc | hc
    · have := hw2 _ hc; revert this; decide
    · revert hc; decide
    · rcases hmid' _ hc with h | h
      · revert h; decide
      · revert h; decide
    · have := natToStr_noSpace _ _ hc; revert this; decide
  · obtain ⟨r', c', hr', hc'⟩ := natToStr_last (numOf t p.dropLast)
    cases hw : wordOf t p with
    | nil => exact absurd hw hw1
    | cons c r =>
      refine strip_id _ c (r ++ '\t' :: (mid ++ natToStr (numOf t p.dropLast))) c' (c :: r ++ '\t' :: (mid ++ r')) (by simp)
        (hw2 c (by rw [hw]; simp)) (by rw [hr']; simp) hc'
  · cases hpre : "#EOS".toList.isPrefixOf (wordOf t p ++ '\t' :: (mid ++ natToStr (numOf t p.dropLast))) with
    | false => rfl
    | true =>
      have := isPrefixOf_before_tab _ _ _ (by rw [eos4_eq]; decide) hpre
      rw [heos] at this; cases this

/-! ### the reader on the text of one written sentence -/

theorem frame_line_ok (tag : Str) (sid : Nat) (htag : tag = ['#','B','O','S',' '] ∨ tag = ['#','E','O','S',' ']) :
    '\n' ∉ tag ++ natToStr sid ∧ strip (tag ++ natToStr sid) = tag ++ natToStr sid := by
  obtain ⟨r', c', hr', hc'⟩ := natToStr_last sid
  constructor
  · intro hc
    rcases List.mem_append.1 hc with hc | hc
    · rcases htag with rfl | rfl <;> revert hc <;> decide
    · have := natToStr_noSpace _ _ hc; revert this; decide
  · rcases htag with rfl | rfl
    · exact strip_id _ '#' (['B','O','S',' '] ++ natToStr sid) c' (['#','B','O','S',' '] ++ r') rfl (by decide)
        (by rw [hr']; simp) hc'
    · exact strip_id _ '#' (['E','O','S',' '] ++ natToStr sid) c' (['#','E','O','S',' '] ++ r') rfl (by decide)
        (by rw [hr']; simp) hc'

theorem bos_prefix (sid : Nat) : "#BOS".toList.isPrefixOf ("#BOS ".toList ++ natToStr sid) = true := by
  rw [bos_eq, bos4_eq]; simp [List.isPrefixOf]

theorem eos_prefix (sid : Nat) : "#EOS".toList.isPrefixOf ("#EOS ".toList ++ natToStr sid) = true := by
  rw [eos_eq, eos4_eq]; simp [List.isPrefixOf]

/-- the reader's loop on the text of one sentence whose body the sentence reader accepts -/
theorem readExport_frame (sid : Nat) (body : List Str) (r : Tree)
    (hbody : ∀ l ∈ body, '\n' ∉ l ∧ strip l = l ∧ "#EOS".toList.isPrefixOf l = false)
    (hsent : exportSentence {} body = .ok r) :
    readExport {} (((["#BOS ".toList ++ natToStr sid] ++ body ++ ["#EOS ".toList ++ natToStr sid]).map (· ++ ['\n'])).flatten) =
      .ok [(sid, r)] := by
  obtain ⟨hb1, hb2⟩ := frame_line_ok ("#BOS ".toList) sid (Or.inl bos_eq)
  obtain ⟨he1, he2⟩ := frame_line_ok ("#EOS ".toList) sid (Or.inr eos_eq)
  unfold readExport
  rw [splitOnChar_lines _ (by
    intro l hl
    simp only [List.mem_append, List.mem_singleton] at hl
    rcases hl with (rfl | hl) | rfl
    · exact hb1
    · exact (hbody l hl).1
    · exact he1)]
  rw [List.append_assoc, List.append_assoc, List.singleton_append,
    exportLoop_bos {} _ _ 1 [] sid (by rw [hb2]; exact bos_prefix sid) (by
      rw [hb2, splitWs_bos]
      show (some (natToStr sid)).bind strToNat? = some sid
      exact strToNat_natToStr sid),
    exportLoop_collect {} 1 [] sid body _ [] (fun l hl => (hbody l hl).2),
    List.singleton_append,
    exportLoop_eos {} _ _ 1 [] sid _ r (by rw [he2]; exact eos_prefix sid) (by
      rw [List.append_nil, List.reverse_reverse]; exact hsent),
    exportLoop_skip {} [] [] _ _ (by rw [strip_nil, bos4_eq]; rfl), exportLoop_nil]
  rfl

/-! ### the writer succeeds on representable trees; the decoder fails on 500 tokens -/

theorem mapM_ok_of_forall {ε α β : Type} (f : α → Except ε β) : ∀ (l : List α), (∀ a ∈ l, ∃ b, f a = .ok b) →
    ∃ r, l.mapM f = .ok r
  | [], _ => ⟨[], rfl⟩
  | a :: l, h => by
    obtain ⟨b, hb⟩ := h a (by simp)
    obtain ⟨bs, hbs⟩ := mapM_ok_of_forall f l (fun x hx => h x (by simp [hx]))
    exact ⟨b :: bs, by rw [List.mapM_cons, hb, hbs]; rfl⟩

theorem ExportOK_label (o : OutOpts) (t s : Tree) (hok : ExportOK o t = true) (hs : s ∈ subtrees t) :
    ∃ l, getLabel o (s.setFields fun f => { f with edge := some (f.edge.getD DEFAULT_EDGE) }) = .ok l := by
  unfold ExportOK at hok
  simp only [Bool.and_eq_true, List.all_eq_true] at hok
  have := hok.2 s hs
  split at this
  · rename_i l hl; exact ⟨l, hl⟩
  · cases this

theorem exportLine_ok_of_label (o : OutOpts) (s : Tree) (w : Str) (pn : Nat) (l : Str)
    (hl : getLabel o (s.setFields fun f => { f with edge := some (f.edge.getD DEFAULT_EDGE) }) = .ok l) :
    ∃ line, exportLine o s w pn = .ok line := by
  rw [← setFields_edge_eq] at hl
  unfold exportLine
  dsimp only
  rw [hl]
  cases o.exportFour <;> exact ⟨_, rfl⟩

/-- the export writer succeeds on every tree the format can represent -/
theorem writeExport_total (o : OutOpts) (sid : Nat) (t : Tree) (hok : ExportOK o t = true) :
    ∃ ls, writeExport o sid t = .ok ls := by
  rw [writeExport_unfold, nodesOf_eq]
  have hline : ∀ x ∈ (nonRoot t).map (fun p => (p, subAt t p)), ∀ w pn, ∃ line, exportLine o x.2 w pn = .ok line := by
    intro x hx w pn
    obtain ⟨p, hp, rfl⟩ := List.mem_map.1 hx
    obtain ⟨l, hl⟩ := ExportOK_label o t _ hok (mem_subtrees_subAt t p ((mem_nonRoot t p).1 hp).1)
    exact exportLine_ok_of_label o _ w pn l hl
  obtain ⟨terms, ht⟩ := mapM_ok_of_forall (termF o t) (((nonRoot t).map fun p => (p, subAt t p)).filter fun x => x.2.kids.isEmpty) (by
    intro x hx
    obtain ⟨line, hline⟩ := hline x (List.mem_filter.1 hx).1 (x.2.fields.word.getD []) (numOf t x.1.dropLast)
    exact ⟨_, by unfold termF; rw [hline]; rfl⟩)
  obtain ⟨nts, hn⟩ := mapM_ok_of_forall (ntF o t) (((nonRoot t).map fun p => (p, subAt t p)).filter fun x => !x.2.kids.isEmpty) (by
    intro x hx
    obtain ⟨line, hline⟩ := hline x (List.mem_filter.1 hx).1 ('#' :: natToStr (numOf t x.1)) (numOf t x.1.dropLast)
    exact ⟨_, by unfold ntF; rw [hline]; rfl⟩)
  rw [ht, hn]
  exact ⟨_, rfl⟩

theorem mapM_none_of_mem {α β : Type} (f : α → Option β) : ∀ (l : List α), (∃ a ∈ l, f a = none) → l.mapM f = none
  | [], h => by obtain ⟨a, ha, _⟩ := h; simp at ha
  | x :: l, h => by
    rw [List.mapM_cons]
    cases hx : f x with
    | none => rfl
    | some b =>
      obtain ⟨a, ha, hfa⟩ := h
      rcases List.mem_cons.1 ha with rfl | ha
      · rw [hx] at hfa; cases hfa
      · rw [mapM_none_of_mem f l ⟨a, ha, hfa⟩]; rfl

theorem buildExp_nocons (toks : List (Nat × ExpNode)) (fuel num : Nat) (h : 500 ≤ num) : buildExp toks [] fuel num = none := by
  cases fuel with
  | zero => rw [buildExp]
  | succ fuel =>
    rw [buildExp]
    have : (decide (num < 500) && num != 0) = false := by simp; omega
    rw [if_neg (by simp [this])]
    have h0 : (num == 0) = false := by simp; omega
    simp only [h0, Bool.false_eq_true, if_false, List.find?_nil, Option.map_none]
    split <;> rfl

theorem buildExp_root_none (toks cons : List (Nat × ExpNode)) (fuel : Nat)
    (h : ((toks.filter (·.2.parent == 0)).map (·.1) ++ (cons.filter (·.2.parent == 0)).map (·.1)).mapM
      (buildExp toks cons fuel) = none) :
    buildExp toks cons (fuel + 1) 0 = none := by
  rw [buildExp]
  simp only [h]
  rfl

/-- a sentence of 500 or more tokens directly below the root is written but not decoded -/
theorem decBody_fails_flat (o : OutOpts) (sid : Nat) (t : Tree) (hwf : WF t = true) (hok : ExportOK o t = true)
    (hflat : (t.subtrees.filter fun s => !s.isLeaf).length = 1) (hN : 500 ≤ t.leafNums.length) :
    decBody sid (bodyOf o t) = none := by
  have hroot := (WF_root t hwf).1
  have hc : consPaths t = [] := by
    have := consPaths_length t hwf
    rw [hflat] at this
    exact List.eq_nil_of_length_eq_zero (by omega)
  have hcT : consT o t = [] := by unfold consT; rw [hc]; rfl
  -- the token written with number 500
  have h500 : 500 ∈ (tokPaths t).map (numOf t) := by
    rw [tokPaths_nums t hwf, List.mem_range'_1]; omega
  obtain ⟨q, hq, hq500⟩ := List.mem_map.1 h500
  obtain ⟨hq1, hq2, _⟩ := (mem_tokPaths t q).1 hq
  have hpar : (entry o t q).parent = 0 := by
    show numOf t q.dropLast = 0
    have hcq := isCons_dropLast t q hq1 hq2
    by_cases h0 : q.dropLast = []
    · rw [h0, numOf_root t hroot]
    · exfalso
      have hp' := mem_paths_of_isCons t _ hcq
      rw [isCons_eq t _ hp'] at hcq
      have : q.dropLast ∈ consPaths t := (mem_consPaths t _).2 ⟨hp', h0, by simpa using hcq⟩
      rw [hc] at this; cases this
  unfold decBody
  simp only [body_toks o t hwf hok, body_cons o t hwf hok, hcT]
  rw [buildExp_root_none]
  · rfl
  · apply mapM_none_of_mem
    refine ⟨500, ?_, buildExp_nocons _ _ _ (Nat.le_refl _)⟩
    rw [List.mem_append]; left
    rw [List.mem_map]
    refine ⟨(numOf t q, entry o t q), ?_, hq500⟩
    rw [List.mem_filter]
    exact ⟨List.mem_map_of_mem hq, by rw [hpar]; rfl⟩

end TT.Lemmas.ExportRT
