/-
  Helper lemmas of wave 12 for C09 / C10: the tool's own lexicon reader on the written lines, rebuilding a grammar from
  its rule list by the reader's `upsert` fold, invariants of `Grammar.add` on (function, linearization) pairs, the
  shape of embedded lexical rules; splitting a written transition line at its first ` ||| `; `topdown` on trees that
  are not binarized; the domain lemma (proper rules are kept by binarization and produced by extraction), labels and
  dictionary invariants of extracted / binarized grammars; completing the head sides of a rebuilt tree.
-/
import TT.Props.C09Rcg
import TT.Lemmas.Unbin
import TT.Lemmas.RcgRT
import TT.Spec.Replay
import TT.Transform.Binarize
import TT.Lemmas.Sort
import TT.Lemmas.WF
import TT.Spec.More12c
import TT.Props.C06More
import TT.Lemmas.Binarize
namespace TT.Lemmas.More12c
open TT TT.Spec TT.Lemmas.GramOut TT.Lemmas.Unbin
open TT.Lemmas.GramBin (upsert_keys foldl_inv)

/-! ### the tool's own lexicon reader on the written lexicon lines -/

theorem foldl_tagPairs_read (word : Str) (tags : AList Str Nat) (lex : Lexicon) :
    (tags.map fun tc => (tc.1, natToStr tc.2)).foldl
        (fun l (x : Str × Str) => Lexicon.add l word x.1 ((strToNat? x.2).getD 0)) lex =
      tags.foldl (fun l tc => Lexicon.add l word tc.1 tc.2) lex := by
  induction tags generalizing lex with
  | nil => rfl
  | cons a r ih =>
    simp only [List.map_cons, List.foldl_cons, strToNat_natToStr, Option.getD_some]
    exact ih _

theorem readLexLine_line (lex : Lexicon) (word : Str) (tags : AList Str Nat)
    (hw : word ≠ [] ∧ ∀ c ∈ word, pyIsSpace c = false)
    (ht : ∀ tc ∈ tags, tc.1 ≠ [] ∧ ∀ c ∈ tc.1, pyIsSpace c = false) :
    readLexLine lex (word ++ ['\t'] ++ unwords (tags.map fun (tag, c) => tag ++ sp ++ natToStr c)) =
      tags.foldl (fun l tc => Lexicon.add l word tc.1 tc.2) lex := by
  have hf := tagFields_ok tags ht
  have e1 : unwords (tags.map fun (tag, c) => tag ++ sp ++ natToStr c) = unwords (tagFields tags) :=
    unwords_tagFields tags
  unfold readLexLine
  rw [e1, List.append_assoc, List.singleton_append, splitWs_word_sep word _ '\t' (by decide) hw,
    splitWs_unwords _ hf]
  simp only [pairs_tagFields]
  exact foldl_tagPairs_read word tags lex

theorem foldl_readLexLine (pre lex : Lexicon)
    (h : ∀ e ∈ lex, (e.1 ≠ [] ∧ ∀ c ∈ e.1, pyIsSpace c = false) ∧
         ∀ tc ∈ e.2, tc.1 ≠ [] ∧ ∀ c ∈ tc.1, pyIsSpace c = false) :
    (lexLines lex).foldl readLexLine pre =
      lex.foldl (fun acc e => e.2.foldl (fun l tc => Lexicon.add l e.1 tc.1 tc.2) acc) pre := by
  induction lex generalizing pre with
  | nil => rfl
  | cons e r ih =>
    obtain ⟨word, tags⟩ := e
    have h0 := h (word, tags) (by simp)
    have := readLexLine_line pre word tags h0.1 h0.2
    simp only [lexLines, List.map_cons, List.foldl_cons] at this ⊢
    rw [this]
    exact ih _ (fun x hx => h x (by simp [hx]))


/-! ### rebuilding a grammar from its rules by the reader's `upsert` fold -/

/-- the reader's step: the count of a clause is stored under the `VERT` key, overwriting -/
def rstep (acc : Grammar) (r : Func × Lin × Nat) : Grammar :=
  AList.upsert r.1 (fun o => AList.upsert r.2.1 (fun _ => [(VertKey.default, r.2.2)]) (o.getD [])) acc

/-- what the reader stores for a grammar: the same functions and linearizations in the same order, one `VERT`
    entry with the summed count each; a function without any linearization (never produced by the tool) has no rule
    and disappears -/
def normG (g : Grammar) : Grammar :=
  g.filterMap fun p => if p.2 = [] then none else
    some (p.1, p.2.map fun q => (q.1, [(VertKey.default, (q.2.map (·.2)).sum)]))

theorem rules_normG (g : Grammar) : (normG g).rules = g.rules := by
  induction g with
  | nil => rfl
  | cons p r ih =>
    obtain ⟨f, ls⟩ := p
    have e : Grammar.rules ((f, ls) :: r) = (ls.map fun q => (f, q.1, (q.2.map (·.2)).sum)) ++ Grammar.rules r := by
      simp [Grammar.rules]
    rw [e]
    by_cases h : ls = []
    · subst h
      simpa [normG] using ih
    · have e2 : normG ((f, ls) :: r) =
          (f, ls.map fun q => (q.1, [(VertKey.default, (q.2.map (·.2)).sum)])) :: normG r := by
        simp [normG, h]
      rw [e2]
      have e3 : Grammar.rules ((f, ls.map fun q => (q.1, [(VertKey.default, (q.2.map (·.2)).sum)])) :: normG r) =
          (ls.map fun q => (f, q.1, (q.2.map (·.2)).sum)) ++ Grammar.rules (normG r) := by
        simp [Grammar.rules]
      rw [e3, ih]

theorem foldl_rstep_entry (f : Func) (pre : Grammar) (done ls : AList Lin (AList VertKey Nat))
    (hf : f ∉ pre.map (·.1)) (hnd : ((done ++ ls).map (·.1)).Nodup) :
    (ls.map fun q => (f, q.1, (q.2.map (·.2)).sum)).foldl rstep (pre ++ [(f, done)]) =
      pre ++ [(f, done ++ ls.map fun q => (q.1, [(VertKey.default, (q.2.map (·.2)).sum)]))] := by
  induction ls generalizing done with
  | nil => simp
  | cons a r ih =>
    have ha : a.1 ∉ done.map (·.1) := by
      simp only [List.map_append, List.map_cons] at hnd
      have := (List.nodup_append.1 hnd).2.2
      intro hm
      exact this _ hm _ (by simp) rfl
    have hnd' : (((done ++ [(a.1, [(VertKey.default, (a.2.map (·.2)).sum)])]) ++ r).map (·.1)).Nodup := by
      simpa using hnd
    rw [List.map_cons, List.foldl_cons]
    have : rstep (pre ++ [(f, done)]) (f, a.1, (a.2.map (·.2)).sum) =
        pre ++ [(f, done ++ [(a.1, [(VertKey.default, (a.2.map (·.2)).sum)])])] := by
      unfold rstep
      simp only
      rw [upsert_last _ _ _ _ hf]
      simp only [Option.getD_some]
      rw [upsert_fresh _ _ _ ha]
    rw [this, ih _ hnd']
    simp

theorem foldl_rstep_fresh (f : Func) (pre : Grammar) (ls : AList Lin (AList VertKey Nat))
    (hf : f ∉ pre.map (·.1)) (hne : ls ≠ []) (hnd : (ls.map (·.1)).Nodup) :
    (ls.map fun q => (f, q.1, (q.2.map (·.2)).sum)).foldl rstep pre =
      pre ++ [(f, ls.map fun q => (q.1, [(VertKey.default, (q.2.map (·.2)).sum)]))] := by
  cases ls with
  | nil => exact absurd rfl hne
  | cons a r =>
    rw [List.map_cons, List.foldl_cons]
    have : rstep pre (f, a.1, (a.2.map (·.2)).sum) = pre ++ [(f, [(a.1, [(VertKey.default, (a.2.map (·.2)).sum)])])] := by
      unfold rstep
      simp only
      rw [upsert_fresh _ _ _ hf]
      simp [AList.upsert]
    rw [this, foldl_rstep_entry f pre _ r hf (by simpa using hnd)]
    simp

theorem foldl_rstep_rules (pre g : Grammar)
    (hnd : ((pre ++ g).map (·.1)).Nodup) (hnd2 : ∀ p ∈ g, (p.2.map (·.1)).Nodup) :
    g.rules.foldl rstep pre = pre ++ normG g := by
  induction g generalizing pre with
  | nil => simp [Grammar.rules, normG]
  | cons p r ih =>
    obtain ⟨f, ls⟩ := p
    have e : Grammar.rules ((f, ls) :: r) = (ls.map fun q => (f, q.1, (q.2.map (·.2)).sum)) ++ Grammar.rules r := by
      simp [Grammar.rules]
    rw [e, List.foldl_append]
    have hf : f ∉ pre.map (·.1) := by
      simp only [List.map_append, List.map_cons] at hnd
      have := (List.nodup_append.1 hnd).2.2
      intro hm
      exact this _ hm _ (by simp) rfl
    by_cases h : ls = []
    · subst h
      have hnd' : ((pre ++ r).map (·.1)).Nodup := by
        simp only [List.map_append, List.map_cons] at hnd ⊢
        exact hnd.sublist (List.Sublist.append_left (List.sublist_cons_self _ _) _)
      have := ih pre hnd' (fun x hx => hnd2 x (by simp [hx]))
      simpa [normG] using this
    · rw [foldl_rstep_fresh f pre ls hf h (hnd2 (f, ls) (by simp))]
      rw [ih _ (by simpa using hnd) (fun x hx => hnd2 x (by simp [hx]))]
      simp [normG, h]


/-! ### invariants of `Grammar.add` on (function, linearization) pairs -/

/-- every (function, linearization) pair stored in the grammar satisfies `Q` -/
def AllPairs (Q : Func → Lin → Prop) (g : Grammar) : Prop := ∀ e ∈ g, ∀ le ∈ e.2, Q e.1 le.1

theorem AllPairs_rules (Q : Func → Lin → Prop) (g : Grammar) :
    AllPairs Q g ↔ ∀ r ∈ g.rules, Q r.1 r.2.1 := by
  constructor
  · intro h r hr
    obtain ⟨e, he, le, hle, h1, h2⟩ := mem_rules g r hr
    rw [h1, h2]; exact h e he le hle
  · intro h e he le hle
    have : (e.1, le.1, (le.2.map (·.2)).sum) ∈ g.rules := by
      simp only [Grammar.rules, List.mem_flatMap, List.mem_map]
      exact ⟨e, he, le, hle, rfl⟩
    exact h _ this

theorem AllPairs_entries (Q : Func → Lin → Prop) (g : Grammar) (h : AllPairs Q g) :
    ∀ r ∈ g.entries, Q r.1 r.2.1 := by
  intro r hr
  simp only [Grammar.entries, List.mem_flatMap, List.mem_map] at hr
  obtain ⟨e, he, le, hle, v, _, rfl⟩ := hr
  exact h e he le hle

theorem AllPairs_nil (Q : Func → Lin → Prop) : AllPairs Q [] := by intro e he; simp at he

theorem AllPairs_add (Q : Func → Lin → Prop) (g : Grammar) (f : Func) (l : Lin) (v : VertKey) (n : Nat)
    (hg : AllPairs Q g) (hq : Q f l) : AllPairs Q (g.add f l v n) := by
  unfold Grammar.add
  rcases upsert_cases f (fun o => AList.upsert l (fun o2 => AList.upsert v (fun o3 => o3.getD 0 + n) (o2.getD []))
      (o.getD [])) g with ⟨_, h2⟩ | ⟨G1, ls, G2, h1, _, h3⟩
  · rw [h2]
    intro e he
    rcases List.mem_append.1 he with he | he
    · exact hg e he
    · simp only [List.mem_singleton] at he
      subst he
      intro le hle
      simp only [Option.getD_none, AList.upsert, List.mem_singleton] at hle
      subst hle
      exact hq
  · rw [h3]
    intro e he
    have hmem : ∀ x, x ∈ G1 ∨ x ∈ G2 → x ∈ g := by
      intro x hx; rw [h1]; rcases hx with hx | hx <;> simp [hx]
    rcases List.mem_append.1 he with he | he
    · exact hg e (hmem e (Or.inl he))
    · rcases List.mem_cons.1 he with rfl | he
      · simp only [Option.getD_some]
        have hls : ∀ le ∈ ls, Q f le.1 := hg (f, ls) (by rw [h1]; simp)
        exact upsert_keys (fun k => Q f k) l _ ls hls hq
      · exact hg e (hmem e (Or.inr he))

theorem AllPairs_addLexRules (Q : Func → Lin → Prop) (g : Grammar) (lex : Lexicon) (hg : AllPairs Q g)
    (hq : ∀ e ∈ lex, ∀ tc ∈ e.2, Q [tc.1, e.1] [[(0, 0)]]) : AllPairs Q (addLexRules g lex) := by
  unfold addLexRules
  apply foldl_inv (AllPairs Q) _ lex _ g hg
  intro acc e he hacc
  apply foldl_inv (AllPairs Q) _ e.2 _ acc hacc
  intro acc2 tc htc hacc2
  exact AllPairs_add Q acc2 _ _ _ _ hacc2 (hq e he tc htc)

theorem GN_addLexRules (g : Grammar) (lex : Lexicon) (hg : GN g) : GN (addLexRules g lex) := by
  unfold addLexRules
  apply foldl_inv GN _ lex _ g hg
  intro acc e _ hacc
  apply foldl_inv GN _ e.2 _ acc hacc
  intro acc2 tc _ hacc2
  exact GN_add acc2 _ _ _ _ hacc2

/-! ### the entry of a lexical rule `tag -> word` whose function is not a function of the grammar -/

def LexShape (f : Func) (G : Grammar) : Prop :=
  ∀ e ∈ G, e.1 = f → ∃ n, e.2 = [([[((0 : Int), 0)]], [(VertKey.default, n)])]

theorem LexShape_add (f : Func) (G : Grammar) (f' : Func) (c : Nat) (h : LexShape f G) :
    LexShape f (G.add f' [[(0, 0)]] .default c) := by
  unfold Grammar.add
  rcases upsert_cases f' (fun o => AList.upsert [[((0 : Int), 0)]]
      (fun o2 => AList.upsert VertKey.default (fun o3 => o3.getD 0 + c) (o2.getD [])) (o.getD [])) G with
    ⟨_, h2⟩ | ⟨G1, ls, G2, h1, _, h3⟩
  · rw [h2]
    intro e he hef
    rcases List.mem_append.1 he with he | he
    · exact h e he hef
    · simp only [List.mem_singleton] at he
      subst he
      exact ⟨0 + c, by simp [AList.upsert]⟩
  · rw [h3]
    intro e he hef
    have hmem : ∀ x, x ∈ G1 ∨ x ∈ G2 → x ∈ G := by
      intro x hx; rw [h1]; rcases hx with hx | hx <;> simp [hx]
    rcases List.mem_append.1 he with he | he
    · exact h e (hmem e (Or.inl he)) hef
    · rcases List.mem_cons.1 he with rfl | he
      · simp only at hef
        obtain ⟨n, hn⟩ := h (f', ls) (by rw [h1]; simp) hef
        simp only at hn
        subst hn
        exact ⟨n + c, by simp [AList.upsert]⟩
      · exact h e (hmem e (Or.inr he)) hef

theorem LexShape_addLexRules (f : Func) (g : Grammar) (lex : Lexicon) (hfresh : ∀ e ∈ g, e.1 ≠ f) :
    LexShape f (addLexRules g lex) := by
  unfold addLexRules
  apply foldl_inv (LexShape f) _ lex _ g (fun e he hef => absurd hef (hfresh e he))
  intro acc e _ hacc
  apply foldl_inv (LexShape f) _ e.2 _ acc hacc
  intro acc2 tc _ hacc2
  exact LexShape_add f acc2 _ _ hacc2

/-- in a dictionary, the rules with function `f` are the rules of the entry of `f` -/
theorem rules_filter_func (G : Grammar) (hG : (G.map (·.1)).Nodup) (f : Func) (ls : AList Lin (AList VertKey Nat))
    (hm : (f, ls) ∈ G) :
    G.rules.filter (fun r => r.1 == f) = ls.map fun q => (f, q.1, (q.2.map (·.2)).sum) := by
  induction G with
  | nil => simp at hm
  | cons p r ih =>
    obtain ⟨f', ls'⟩ := p
    have e : Grammar.rules ((f', ls') :: r) = (ls'.map fun q => (f', q.1, (q.2.map (·.2)).sum)) ++ Grammar.rules r := by
      simp [Grammar.rules]
    rw [e, List.filter_append]
    simp only [List.map_cons, List.nodup_cons] at hG
    rcases List.mem_cons.1 hm with hm | hm
    · obtain ⟨rfl, rfl⟩ := Prod.mk.inj hm
      have h1 : (ls.map fun q => (f, q.1, (q.2.map (·.2)).sum)).filter (fun r => r.1 == f) =
          ls.map fun q => (f, q.1, (q.2.map (·.2)).sum) := by
        rw [List.filter_eq_self]; intro a ha
        obtain ⟨q, _, rfl⟩ := List.mem_map.1 ha
        simp
      have h2 : (Grammar.rules r).filter (fun r => r.1 == f) = [] := by
        rw [List.filter_eq_nil_iff]
        intro a ha hb
        obtain ⟨e', he', hx⟩ := mem_rules_func r a ha
        have : a.1 = f := by simpa using hb
        exact hG.1 (by rw [← this, ← hx]; exact List.mem_map_of_mem he')
      rw [h1, h2, List.append_nil]
    · have hne : f' ≠ f := fun e' => hG.1 (by rw [e']; exact List.mem_map.2 ⟨(f, ls), hm, rfl⟩)
      have h1 : (ls'.map fun q => (f', q.1, (q.2.map (·.2)).sum)).filter (fun r => r.1 == f) = [] := by
        rw [List.filter_eq_nil_iff]
        intro a ha hb
        obtain ⟨q, _, rfl⟩ := List.mem_map.1 ha
        exact hne (by simpa using hb)
      rw [h1, List.nil_append, ih hG.2 hm]

theorem get?_some_mem' {κ ν : Type} [DecidableEq κ] (k : κ) (v : ν) (a : AList κ ν)
    (h : AList.get? k a = some v) : (k, v) ∈ a := by
  induction a with
  | nil => simp at h
  | cons p r ih =>
    rw [get?_cons] at h
    by_cases e : p.1 = k
    · rw [if_pos e] at h
      have : p.2 = v := Option.some.inj h
      obtain ⟨p1, p2⟩ := p
      simp only at e this
      subst e this
      simp
    · rw [if_neg e] at h
      exact List.mem_cons_of_mem _ (ih h)

end TT.Lemmas.More12c

namespace TT.Lemmas.More12c
open TT TT.Spec TT.Tree TT.Lemmas.GramOut TT.Lemmas.RcgRT

/-! ### splitting the written line at the first ` ||| ` -/

theorem lineSep_eq : lineSep = [' ', '|', '|', '|', ' '] := rfl

theorem splitFirstSub_cons_ne (x : Char) (xs : Str) (h : x ≠ ' ') :
    splitFirstSub lineSep (x :: xs) = (splitFirstSub lineSep xs).map fun p => (x :: p.1, p.2) := by
  have : lineSep.isPrefixOf (x :: xs) = false := by
    simp [lineSep_eq, List.isPrefixOf, h.symm]
  rw [splitFirstSub, this]
  rfl

/-- a blank-free word is skipped -/
theorem splitFirstSub_word (w rest : Str) (hw : ' ' ∉ w) :
    splitFirstSub lineSep (w ++ rest) = (splitFirstSub lineSep rest).map fun p => (w ++ p.1, p.2) := by
  induction w with
  | nil =>
    rw [List.nil_append]
    cases splitFirstSub lineSep rest <;> simp
  | cons x xs ih =>
    simp only [List.mem_cons, not_or] at hw
    rw [List.cons_append, splitFirstSub_cons_ne x _ (fun e => hw.1 e.symm), ih hw.2]
    cases splitFirstSub lineSep rest <;> rfl

theorem splitFirstSub_here (rest : Str) : splitFirstSub lineSep (lineSep ++ rest) = some ([], rest) := by
  simp [lineSep_eq, splitFirstSub, List.isPrefixOf]

/-- a blank followed by a blank-free word other than `|||` and a further blank is not the separator -/
theorem not_sep_at_blank (w rest : Str) (hw : ' ' ∉ w) (hne : w ≠ ['|', '|', '|']) :
    lineSep.isPrefixOf (' ' :: (w ++ ' ' :: rest)) = false := by
  rw [lineSep_eq]
  match w, hw, hne with
  | [], _, _ => simp [List.isPrefixOf]
  | [a], hw, _ => simp [List.isPrefixOf]
  | [a, b], hw, _ => simp [List.isPrefixOf]
  | [a, b, c], hw, hne =>
    simp only [List.cons_append, List.nil_append, List.isPrefixOf, Bool.and_true, Bool.and_eq_false_iff,
      beq_eq_false_iff_ne, ne_eq]
    by_cases h1 : '|' = a
    · by_cases h2 : '|' = b
      · by_cases h3 : '|' = c
        · subst h1 h2 h3; exact absurd rfl hne
        · simp [h3]
      · simp [h2]
    · simp [h1]
  | a :: b :: c :: d :: r, hw, _ =>
    have hd : ¬ ' ' = d := by
      intro e; apply hw; rw [← e]; simp
    simp [List.isPrefixOf, hd]

theorem splitFirstSub_blank (w rest : Str) (hw : ' ' ∉ w) (hne : w ≠ ['|', '|', '|']) :
    splitFirstSub lineSep (' ' :: (w ++ ' ' :: rest)) =
      (splitFirstSub lineSep (w ++ ' ' :: rest)).map fun p => (' ' :: p.1, p.2) := by
  rw [splitFirstSub, not_sep_at_blank w rest hw hne]
  rfl

/-- MAIN lemma: the sentence part (blank-free tokens, none of them `|||`, joined by single blanks) is cut off at
    the separator that follows it -/
theorem splitFirstSub_sentence (toks : List Str) (rest : Str)
    (h : ∀ w ∈ toks, ' ' ∉ w ∧ w ≠ ['|', '|', '|']) :
    splitFirstSub lineSep (joinWith [' '] toks ++ lineSep ++ rest) = some (joinWith [' '] toks, rest) := by
  induction toks with
  | nil => simpa [joinWith] using splitFirstSub_here rest
  | cons a r ih =>
    cases r with
    | nil =>
      simp only [joinWith]
      rw [List.append_assoc, splitFirstSub_word a _ (h a (by simp)).1, splitFirstSub_here]
      simp
    | cons b r =>
      have ih' := ih (fun w hw => h w (by simp [hw]))
      rw [joinWith_cons_ne _ _ _ (by simp)]
      have e : a ++ [' '] ++ joinWith [' '] (b :: r) ++ lineSep ++ rest =
          a ++ (' ' :: (joinWith [' '] (b :: r) ++ lineSep ++ rest)) := by simp
      rw [e, splitFirstSub_word a _ (h a (by simp)).1]
      -- the text after the blank starts with the word `b` followed by a blank
      have hb := h b (by simp)
      obtain ⟨tail, ht⟩ : ∃ tail, joinWith [' '] (b :: r) ++ lineSep ++ rest = b ++ ' ' :: tail := by
        cases r with
        | nil => exact ⟨['|', '|', '|', ' '] ++ rest, by simp [joinWith, lineSep_eq]⟩
        | cons c r => exact ⟨joinWith [' '] (c :: r) ++ lineSep ++ rest, by
            rw [joinWith_cons_ne _ _ _ (by simp)]; simp⟩
      rw [ht, splitFirstSub_blank b tail hb.1 hb.2, ← ht, ih']
      simp

end TT.Lemmas.More12c

namespace TT.Lemmas.More12c
open TT TT.Spec TT.Tree

/-! ### `topdown` refuses a tree that is not binarized -/

mutual
theorem maxArity_witness (n : Nat) : ∀ t : Tree, n < maxArity t → ∃ s ∈ t.subtrees, n < s.kids.length
  | leaf _ _, h => by simp [maxArity] at h
  | node f ks, h => by
    simp only [maxArity] at h
    by_cases h1 : n < ks.length
    · exact ⟨node f ks, Lemmas.WF.self_mem_subtrees _, h1⟩
    · have h2 : n < maxArityL ks := by omega
      obtain ⟨k, hk, s, hs, hn⟩ := maxArityL_witness n ks h2
      exact ⟨s, (Lemmas.WF.mem_subtrees_node f ks s).2 (Or.inr ⟨k, hk, hs⟩), hn⟩
theorem maxArityL_witness (n : Nat) : ∀ ks : List Tree, n < maxArityL ks → ∃ k ∈ ks, ∃ s ∈ k.subtrees, n < s.kids.length
  | [], h => by simp [maxArityL] at h
  | t :: ts, h => by
    simp only [maxArityL] at h
    by_cases h1 : n < maxArity t
    · obtain ⟨s, hs, hn⟩ := maxArity_witness n t h1
      exact ⟨t, by simp, s, hs, hn⟩
    · have h2 : n < maxArityL ts := by omega
      obtain ⟨k, hk, r⟩ := maxArityL_witness n ts h2
      exact ⟨k, by simp [hk], r⟩
end

theorem mapM_error_of_mem {α β ε} (f : α → Except ε β) : ∀ (l : List α) (a : α), a ∈ l → (∃ e, f a = .error e) →
    ∃ e, l.mapM f = .error e
  | [], a, h, _ => by simp at h
  | b :: l, a, h, he => by
    rw [List.mapM_cons]
    cases hb : f b with
    | error e => exact ⟨e, rfl⟩
    | ok x =>
      rcases List.mem_cons.1 h with rfl | h
      · obtain ⟨e, he⟩ := he; rw [he] at hb; cases hb
      · obtain ⟨e, he'⟩ := mapM_error_of_mem f l a h he
        rw [he']
        exact ⟨e, rfl⟩

theorem topdownAct_error (s : Tree) (h : 2 < s.kids.length) : ∃ e, topdownAct s = .error e := by
  have hl : (sortBy leftmost s.kids).length = s.kids.length := (TT.sortBy_perm leftmost s.kids).length_eq
  unfold topdownAct
  match hs : sortBy leftmost s.kids, hl with
  | [], hl => simp at hl; omega
  | [_], hl => simp at hl; omega
  | [_, _], hl => simp at hl; omega
  | _ :: _ :: _ :: _, _ => exact ⟨_, rfl⟩

end TT.Lemmas.More12c

namespace TT.Lemmas.More12c
open TT TT.Spec TT.Lemmas.GramBin TT.Lemmas.Unbin

/-! ## the domain lemma: proper rules are kept by binarization -/

/-- a proper rule: at least one right-hand-side element; the linearization is ordered, non-deleting and non-erasing
    with respect to the fan-outs it shows; it mentions exactly the right-hand-side elements of the function; no element
    (and not the left-hand side) has fan-out 0 -/
def Proper (f : Func) (l : Lin) : Prop :=
  2 ≤ f.length ∧ wfLin l ((fanOut l).drop 1) = true ∧ (fanOut l).length = f.length ∧ ∀ n ∈ fanOut l, 0 < n

instance (f : Func) (l : Lin) : Decidable (Proper f l) := by unfold Proper; infer_instance

/-! ### no two adjacent variables of one element -/

def adjOK : List Var → Prop
  | [] => True
  | [_] => True
  | a :: b :: r => a.1 ≠ b.1 ∧ adjOK (b :: r)

theorem adjOK_cons (a : Var) (l : List Var) : adjOK (a :: l) ↔ (∀ b, l.head? = some b → a.1 ≠ b.1) ∧ adjOK l := by
  cases l with
  | nil => simp [adjOK]
  | cons b r => simp [adjOK]

theorem adjOK_tail (a : Var) (l : List Var) (h : adjOK (a :: l)) : adjOK l := ((adjOK_cons a l).1 h).2

theorem adjOK_append_right : ∀ (a b : List Var), adjOK (a ++ b) → adjOK b
  | [], _, h => h
  | x :: a, b, h => adjOK_append_right a b (adjOK_tail x _ h)

theorem adjOK_append_left : ∀ (a b : List Var), adjOK (a ++ b) → adjOK a
  | [], _, _ => trivial
  | [x], b, _ => trivial
  | x :: y :: a, b, h => by
    simp only [List.cons_append, adjOK] at h ⊢
    exact ⟨h.1, adjOK_append_left (y :: a) b h.2⟩

theorem adjOK_iff_zip (a : List Var) : adjOK a ↔ ∀ p ∈ a.zip (a.drop 1), p.1.1 ≠ p.2.1 := by
  induction a with
  | nil => simp [adjOK]
  | cons x r ih =>
    cases r with
    | nil => simp [adjOK]
    | cons y r =>
      simp only [adjOK, List.drop_succ_cons, List.drop_zero, List.zip_cons_cons, List.mem_cons, forall_eq_or_imp]
      simp only [List.drop_succ_cons, List.drop_zero] at ih
      rw [ih]

theorem adjOK_map_shift : ∀ (a : List Var), adjOK a → adjOK (a.map shift)
  | [], _ => trivial
  | [_], _ => trivial
  | x :: y :: a, h => by
    simp only [List.map_cons, adjOK] at h ⊢
    refine ⟨?_, adjOK_map_shift (y :: a) h.2⟩
    simp only [shift]; omega

/-! ### the working form -/

/-- `n` right-hand-side elements: the internal facts, no adjacent variables of one element, every variable refers to
    an element below `n`, every element below `n` occurs -/
structure PR (n : Nat) (l : Lin) : Prop where
  wf : WF' l
  adj : ∀ a ∈ l, adjOK a
  bound : ∀ v ∈ l.flatten, v.1 < (n : Int)
  cover : ∀ i, i < n → ∃ v ∈ l.flatten, v.1 = (i : Int)


/-! ### `restLin` keeps the working form -/

theorem runsOf_adj : ∀ gs : List Grp, adjOK (ungrp gs) → ∀ a ∈ runsOf gs, adjOK a
  | [], _, a, ha => by simp [runsOf] at ha
  | .z v :: t, h, a, ha => runsOf_adj t (adjOK_tail v _ h) a ha
  | .run r :: t, h, a, ha => by
    simp only [runsOf, List.mem_cons] at ha
    simp only [ungrp] at h
    rcases ha with rfl | ha
    · exact adjOK_map_shift r (adjOK_append_left r _ h)
    · exact runsOf_adj t (adjOK_append_right r _ h) a ha

theorem PR_restLin (n : Nat) (t : Lin) (h : PR n t) (hn : 2 ≤ n) : PR (n - 1) (restLin t) := by
  have hwf := WF'_restLin t h.wf
  refine ⟨hwf, ?_, ?_, ?_⟩
  · rw [restLin_eq t h.wf]
    intro a ha
    obtain ⟨gs, hgs, hag⟩ := List.mem_flatMap.1 ha
    obtain ⟨b, hb, rfl⟩ := List.mem_map.1 hgs
    exact runsOf_adj (grp b) (by rw [ungrp_grp]; exact h.adj b hb) a hag
  · rw [restLin_eq t h.wf, flatMap_runsOf_flatten]
    intro v hv
    obtain ⟨w, hw, rfl⟩ := List.mem_map.1 hv
    have := h.bound w (List.mem_filter.1 hw).1
    simp only [shift]; omega
  · rw [restLin_eq t h.wf, flatMap_runsOf_flatten]
    intro i hi
    obtain ⟨w, hw, he⟩ := h.cover (i + 1) (by omega)
    refine ⟨shift w, List.mem_map.2 ⟨w, List.mem_filter.2 ⟨hw, ?_⟩, rfl⟩, ?_⟩
    · have : w.1 ≠ 0 := by omega
      simpa using this
    · simp only [shift]; omega


/-! ### `topLin` gives a rule with two right-hand-side elements in the working form -/

theorem after_not_mem : ∀ (r : List Var) (k : Int → Nat) (q : Int), (∀ v ∈ r, v.1 ≠ q) → after k r q = k q
  | [], _, _, _ => rfl
  | v :: r, k, q, h => by
    rw [after, after_not_mem r _ q (fun w hw => h w (by simp [hw]))]
    have : ¬ q = v.1 := fun e => h v (by simp) e.symm
    simp [bumpF, this]

theorem topG_idx : ∀ (gs : List Grp) (m : Nat) (k k' : Int → Nat), GOK gs → idxOK k (ungrp gs) →
    k' 0 = k 0 → k' 1 = m →
    idxOK k' (topG gs m).1 ∧ after k' (topG gs m).1 0 = after k (ungrp gs) 0 ∧
      after k' (topG gs m).1 1 = (topG gs m).2
  | [], m, k, k', _, _, h0, h1 => by simp [topG, ungrp, idxOK, after, h0, h1]
  | .z v :: gs, m, k, k', hok, hi, h0, h1 => by
    have hv : v.1 = 0 := hok.1
    simp only [ungrp, idxOK] at hi
    have ih := topG_idx gs m (bumpF k v.1) (bumpF k' v.1) hok.2 hi.2
      (by simp [bumpF, hv, h0]) (by simp [bumpF, hv, h1])
    simp only [topG, idxOK, after, ungrp]
    refine ⟨⟨?_, ih.1⟩, ih.2.1, ih.2.2⟩
    rw [hi.1, hv, h0]
  | .run r :: gs, m, k, k', hok, hi, h0, h1 => by
    simp only [ungrp] at hi
    rw [idxOK_append] at hi
    have hr0 : after k r 0 = k 0 := after_not_mem r k 0 (fun v hv => hok.1.2 v hv)
    have ih := topG_idx gs (m + 1) (after k r) (bumpF k' 1) hok.2 hi.2
      (by simp [bumpF, hr0, h0]) (by simp [bumpF, h1])
    simp only [topG, idxOK, after, ungrp, after_append]
    exact ⟨⟨h1.symm, ih.1⟩, ih.2.1, ih.2.2⟩

theorem topGs_idx : ∀ (gss : List (List Grp)) (m : Nat) (k k' : Int → Nat), (∀ gs ∈ gss, GOK gs) →
    idxOK k (gss.flatMap ungrp) → k' 0 = k 0 → k' 1 = m → idxOK k' (topGs gss m).flatten
  | [], _, _, _, _, _, _, _ => trivial
  | gs :: gss, m, k, k', hok, hi, h0, h1 => by
    rw [List.flatMap_cons, idxOK_append] at hi
    obtain ⟨a1, a2, a3⟩ := topG_idx gs m k k' (hok gs (by simp)) hi.1 h0 h1
    simp only [topGs, List.flatten_cons]
    rw [idxOK_append]
    exact ⟨a1, topGs_idx gss _ (after k (ungrp gs)) _ (fun g hg => hok g (by simp [hg])) hi.2 a2 a3⟩

theorem flatMap_ungrp_grp : ∀ t : Lin, (t.map grp).flatMap ungrp = t.flatten
  | [] => rfl
  | a :: t => by simp [ungrp_grp, flatMap_ungrp_grp t]

/-- no two runs next to each other: runs are maximal -/
def NoRR : List Grp → Prop
  | .run _ :: .run r :: t => False ∧ NoRR (.run r :: t)
  | _ :: t => NoRR t
  | [] => True

theorem NoRR_tail (g : Grp) (gs : List Grp) (h : NoRR (g :: gs)) : NoRR gs := by
  cases g with
  | z v => exact h
  | run r =>
    cases gs with
    | nil => trivial
    | cons g' t => cases g' with
      | z w => exact h
      | run r' => exact h.2

theorem NoRR_consRun (v : Var) (gs : List Grp) (h : NoRR gs) : NoRR (consRun v gs) := by
  cases gs with
  | nil => simp [consRun, NoRR]
  | cons g t =>
    cases g with
    | z w => simpa [consRun, NoRR] using h
    | run r =>
      cases t with
      | nil => simp [consRun, NoRR]
      | cons g' t' =>
        cases g' with
        | z w => simpa [consRun, NoRR] using h
        | run r' => exact absurd h.1 id

theorem NoRR_grp : ∀ vs : List Var, NoRR (grp vs)
  | [] => trivial
  | v :: vs => by
    simp only [grp]
    split
    · exact NoRR_grp vs
    · exact NoRR_consRun v _ (NoRR_grp vs)

/-- the element of the first variable `topG` writes -/
theorem topG_head (gs : List Grp) (m : Nat) (hok : GOK gs) (b : Var) (hb : (topG gs m).1.head? = some b) :
    (∃ v t, gs = .z v :: t ∧ b.1 = 0) ∨ (∃ r t, gs = .run r :: t ∧ b.1 = 1) := by
  cases gs with
  | nil => simp [topG] at hb
  | cons g t =>
    cases g with
    | z v =>
      simp only [topG, List.head?_cons, Option.some.injEq] at hb
      exact Or.inl ⟨v, t, rfl, by rw [← hb]; exact hok.1⟩
    | run r =>
      simp only [topG, List.head?_cons, Option.some.injEq] at hb
      exact Or.inr ⟨r, t, rfl, by rw [← hb]⟩

theorem topG_adj : ∀ (gs : List Grp) (m : Nat), GOK gs → NoRR gs → adjOK (ungrp gs) → adjOK (topG gs m).1
  | [], _, _, _, _ => trivial
  | .z v :: gs, m, hok, hrr, ha => by
    simp only [topG]
    rw [adjOK_cons]
    simp only [ungrp] at ha
    refine ⟨?_, topG_adj gs m hok.2 hrr (adjOK_tail v _ ha)⟩
    intro b hb
    rcases topG_head gs m hok.2 b hb with ⟨w, t, rfl, hb0⟩ | ⟨r, t, rfl, hb1⟩
    · exfalso
      simp only [ungrp, adjOK] at ha
      exact ha.1 (by rw [hok.1, hok.2.1])
    · rw [hok.1, hb1]; decide
  | .run r :: gs, m, hok, hrr, ha => by
    simp only [topG]
    rw [adjOK_cons]
    simp only [ungrp] at ha
    refine ⟨?_, topG_adj gs (m + 1) hok.2 (NoRR_tail _ _ hrr) (adjOK_append_right r _ ha)⟩
    intro b hb
    rcases topG_head gs (m + 1) hok.2 b hb with ⟨w, t, rfl, hb0⟩ | ⟨r', t, rfl, hb1⟩
    · rw [hb0]; show (1 : Int) ≠ 0; decide
    · exact absurd hrr.1 id

theorem topG_mem (gs : List Grp) (hok : GOK gs) : ∀ (m : Nat), ∀ b ∈ (topG gs m).1, b.1 = 0 ∨ b.1 = 1 := by
  induction gs with
  | nil => intro m b hb; simp [topG] at hb
  | cons g t ih =>
    intro m b hb
    cases g with
    | z v =>
      simp only [topG, List.mem_cons] at hb
      rcases hb with rfl | hb
      · exact Or.inl hok.1
      · exact ih hok.2 m b hb
    | run r =>
      simp only [topG, List.mem_cons] at hb
      rcases hb with rfl | hb
      · exact Or.inr rfl
      · exact ih hok.2 (m + 1) b hb

theorem topG_has_one (gs : List Grp) (hok : GOK gs) (h : ∃ v ∈ ungrp gs, v.1 ≠ 0) :
    ∀ m, ∃ b ∈ (topG gs m).1, b.1 = 1 := by
  induction gs with
  | nil => obtain ⟨v, hv, _⟩ := h; simp [ungrp] at hv
  | cons g t ih =>
    intro m
    cases g with
    | z w =>
      obtain ⟨v, hv, hv0⟩ := h
      simp only [ungrp, List.mem_cons] at hv
      rcases hv with rfl | hv
      · exact absurd hok.1 hv0
      · obtain ⟨b, hb, hb1⟩ := ih hok.2 ⟨v, hv, hv0⟩ m
        exact ⟨b, by simp [topG, hb], hb1⟩
    | run r => exact ⟨(1, m), by simp [topG], rfl⟩

theorem topGs_mem : ∀ (gss : List (List Grp)) (m : Nat), ∀ a ∈ topGs gss m, ∃ gs ∈ gss, ∃ m', a = (topG gs m').1
  | [], _, a, ha => by simp [topGs] at ha
  | gs :: gss, m, a, ha => by
    simp only [topGs, List.mem_cons] at ha
    rcases ha with rfl | ha
    · exact ⟨gs, by simp, m, rfl⟩
    · obtain ⟨g, hg, m', e⟩ := topGs_mem gss _ a ha
      exact ⟨g, by simp [hg], m', e⟩

theorem topGs_of_mem : ∀ (gss : List (List Grp)) (m : Nat), ∀ gs ∈ gss, ∃ m', (topG gs m').1 ∈ topGs gss m
  | [], _, gs, h => by simp at h
  | g :: gss, m, gs, h => by
    rcases List.mem_cons.1 h with rfl | h
    · exact ⟨m, by simp [topGs]⟩
    · obtain ⟨m', hm⟩ := topGs_of_mem gss (topG g m).2 gs h
      exact ⟨m', by simp [topGs, hm]⟩

theorem count_pos_of_mem (t : Lin) (i : Nat) (h : ∃ v ∈ t.flatten, v.1 = (i : Int)) : 0 < occ t i := by
  obtain ⟨v, hv, e⟩ := h
  unfold occ
  rw [List.count_pos_iff]
  exact List.mem_map.2 ⟨v, hv, e⟩

theorem mem_of_occ_pos (t : Lin) (i : Nat) (h : 0 < occ t i) : ∃ v ∈ t.flatten, v.1 = (i : Int) := by
  unfold occ at h
  rw [List.count_pos_iff] at h
  obtain ⟨v, hv, e⟩ := List.mem_map.1 h
  exact ⟨v, hv, e⟩

theorem PR_topLin (n : Nat) (t : Lin) (h : PR n t) (hn : 2 ≤ n) : PR 2 (topLin t) := by
  have hmem : ∀ a ∈ topGs (t.map grp) 0, ∃ b ∈ t, ∃ m', a = (topG (grp b) m').1 := by
    intro a ha
    obtain ⟨gs, hgs, m', e⟩ := topGs_mem _ _ a ha
    obtain ⟨b, hb, rfl⟩ := List.mem_map.1 hgs
    exact ⟨b, hb, m', e⟩
  have hval : ∀ a ∈ topGs (t.map grp) 0, ∀ v ∈ a, v.1 = 0 ∨ v.1 = 1 := by
    intro a ha v hv
    obtain ⟨b, _, m', rfl⟩ := hmem a ha
    exact topG_mem (grp b) (GOK_grp b) m' v hv
  have e := topLin_eq t h.wf
  refine ⟨⟨?_, ?_, ?_⟩, ?_, ?_, ?_⟩
  · rw [e]; intro a ha
    obtain ⟨b, hb, m', rfl⟩ := hmem a ha
    exact topG_ne_nil _ _ (grp_ne_nil b (h.wf.ne b hb))
  · rw [e]; intro a ha v hv
    rcases hval a ha v hv with h0 | h1 <;> omega
  · rw [e]
    exact topGs_idx (t.map grp) 0 (fun _ => 0) (fun _ => 0) (by simp [GOK_grp])
      (by rw [flatMap_ungrp_grp]; exact h.wf.idx) rfl rfl
  · rw [e]; intro a ha
    obtain ⟨b, hb, m', rfl⟩ := hmem a ha
    exact topG_adj (grp b) m' (GOK_grp b) (NoRR_grp b) (by rw [ungrp_grp]; exact h.adj b hb)
  · rw [e]; intro v hv
    obtain ⟨a, ha, hva⟩ := List.mem_flatten.1 hv
    rcases hval a ha v hva with h0 | h1 <;> omega
  · intro i hi
    have : i = 0 ∨ i = 1 := by omega
    rcases this with rfl | rfl
    · apply mem_of_occ_pos
      rw [occ_topLin t h.wf]
      exact count_pos_of_mem t 0 (h.cover 0 (by omega))
    · rw [e]
      obtain ⟨w, hw, hw1⟩ := h.cover 1 (by omega)
      obtain ⟨b, hb, hwb⟩ := List.mem_flatten.1 hw
      obtain ⟨m', hm'⟩ := topGs_of_mem (t.map grp) 0 (grp b) (List.mem_map_of_mem hb)
      obtain ⟨x, hx, hx1⟩ := topG_has_one (grp b) (GOK_grp b)
        ⟨w, by rw [ungrp_grp]; exact hwb, by omega⟩ m'
      exact ⟨x, List.mem_flatten.2 ⟨_, hm', hx⟩, by simpa using hx1⟩


/-! ### proper rules and the working form -/

theorem PR_of_Proper (f : Func) (l : Lin) (h : Proper f l) : PR (f.length - 1) l := by
  obtain ⟨h2, hw, hlen, hpos⟩ := h
  have hc : CWF f l := CWF_of_wf f l hw hlen
  unfold CWF at hc
  obtain ⟨p1, _, _⟩ := wfLin_parts l _ hc
  simp only [List.length_map, List.length_range] at p1
  refine ⟨WF'_of_wfLin l _ hc, ?_, ?_, ?_⟩
  · intro a ha
    rw [adjOK_iff_zip]
    exact wfLin_adj l _ hc a ha
  · intro v hv
    have := p1 v hv
    omega
  · intro i hi
    apply mem_of_occ_pos
    rw [← fanOut_get]
    have hlt : i + 1 < (fanOut l).length := by omega
    rw [List.getElem?_eq_getElem hlt, Option.getD_some]
    exact hpos _ (List.getElem_mem hlt)

theorem foldl_max_bounds : ∀ (l : List Nat) (a : Nat), a ≤ l.foldl max a ∧ ∀ x ∈ l, x ≤ l.foldl max a
  | [], a => by simp
  | y :: ys, a => by
    simp only [List.foldl_cons, List.mem_cons]
    have := foldl_max_bounds ys (max a y)
    refine ⟨by omega, ?_⟩
    rintro x (rfl | hx)
    · omega
    · exact this.2 x hx

theorem foldl_max_le : ∀ (l : List Nat) (a n : Nat), a ≤ n → (∀ x ∈ l, x ≤ n) → l.foldl max a ≤ n
  | [], a, n, ha, _ => by simpa using ha
  | y :: ys, a, n, ha, h => by
    simp only [List.foldl_cons]
    have := h y (by simp)
    exact foldl_max_le ys (max a y) n (by omega) (fun x hx => h x (by simp [hx]))

theorem fanOut_eq (l : Lin) (n : Nat) (hn : 1 ≤ n)
    (hb : ∀ v ∈ l.flatten, v.1 < (n : Int)) (hc : ∃ v ∈ l.flatten, v.1 = ((n - 1 : Nat) : Int)) :
    fanOut l = l.length :: (List.range n).map (occ l) := by
  have e : (l.flatMap fun arg => arg.map (·.1)) = l.flatten.map (·.1) := by
    simp [List.flatMap_def, List.map_flatten]
  unfold fanOut
  simp only [e]
  have hk : ((l.flatten.map (·.1)).map fun r => (r + 1).toNat).foldl max 0 = n := by
    apply Nat.le_antisymm
    · apply foldl_max_le _ _ _ (Nat.zero_le _)
      intro x hx
      simp only [List.map_map, List.mem_map, Function.comp] at hx
      obtain ⟨v, hv, rfl⟩ := hx
      have := hb v hv
      omega
    · obtain ⟨v, hv, he⟩ := hc
      have := (foldl_max_bounds ((l.flatten.map (·.1)).map fun r => (r + 1).toNat) 0).2 ((v.1 + 1).toNat)
        (by simp only [List.map_map, List.mem_map, Function.comp]; exact ⟨v, hv, rfl⟩)
      omega
  rw [hk]
  rfl

theorem ranges_of_idxOK (i : Nat) : ∀ (vars : List Var) (k : Int → Nat), idxOK k vars →
    ((vars.filter fun v => v.1 == (i : Int)).map (·.2)) = List.range' (k i) ((vars.map (·.1)).count (i : Int))
  | [], _, _ => rfl
  | v :: vs, k, h => by
    obtain ⟨h1, h2⟩ := h
    have ih := ranges_of_idxOK i vs (bumpF k v.1) h2
    by_cases e : v.1 = (i : Int)
    · rw [List.filter_cons_of_pos (by simpa using e), List.map_cons, ih, List.map_cons, List.count_cons]
      simp only [e, beq_self_eq_true, if_true, bumpF]
      rw [h1, e, List.range'_succ]
    · rw [List.filter_cons_of_neg (by simpa using e), ih, List.map_cons, List.count_cons]
      have e' : ¬ (i : Int) = v.1 := fun x => e x.symm
      simp [bumpF, e, e']

theorem wfLin_of_PR (n : Nat) (l : Lin) (h : PR n l) : wfLin l ((List.range n).map (occ l)) = true := by
  unfold wfLin
  simp only [Bool.and_eq_true, List.all_eq_true, decide_eq_true_eq, List.length_map, List.length_range,
    List.mem_range, beq_iff_eq]
  refine ⟨⟨?_, ?_⟩, ?_⟩
  · intro v hv
    obtain ⟨a, ha, hva⟩ := List.mem_flatten.1 hv
    have h0 := h.wf.pos a ha v hva
    have h1 := h.bound v hv
    omega
  · intro i hi
    have := ranges_of_idxOK i l.flatten (fun _ => 0) h.wf.idx
    rw [this]
    simp [hi, occ, List.range_eq_range']
  · intro a ha
    refine ⟨by simpa using h.wf.ne a ha, ?_⟩
    intro p hp
    have := (adjOK_iff_zip a).1 (h.adj a ha) p hp
    simpa using this

theorem Proper_of_PR (f : Func) (l : Lin) (n : Nat) (hf : f.length = n + 1) (hn : 1 ≤ n) (h : PR n l) :
    Proper f l := by
  have hfo := fanOut_eq l n hn h.bound (h.cover (n - 1) (by omega))
  refine ⟨by omega, ?_, ?_, ?_⟩
  · rw [hfo]
    exact wfLin_of_PR n l h
  · rw [hfo]; simp [hf]
  · rw [hfo]
    intro m hm
    rcases List.mem_cons.1 hm with rfl | hm
    · obtain ⟨v, hv, _⟩ := h.cover 0 (by omega)
      cases l with
      | nil => simp at hv
      | cons a r => simp
    · obtain ⟨i, hi, rfl⟩ := List.mem_map.1 hm
      exact count_pos_of_mem l i (h.cover i (List.mem_range.1 hi))


/-! ### reordering keeps proper rules -/

theorem PR_of_CWF (f : Func) (l : Lin) (hc : CWF f l) (hcov : ∀ i, i < f.length - 1 → ∃ v ∈ l.flatten, v.1 = (i : Int)) :
    PR (f.length - 1) l := by
  unfold CWF at hc
  obtain ⟨p1, _, _⟩ := wfLin_parts l _ hc
  simp only [List.length_map, List.length_range] at p1
  refine ⟨WF'_of_wfLin l _ hc, ?_, ?_, hcov⟩
  · intro a ha
    rw [adjOK_iff_zip]
    exact wfLin_adj l _ hc a ha
  · intro v hv
    have := p1 v hv
    omega

theorem reorderingOptimal_snd (f : Func) (l : Lin) :
    (reorderingOptimal f l).2 = relabel
      (fun x => ((pickOrder l ((List.range (f.length - 1)).map (· + 1)) (f.length - 1)).idxOf? (x + 1).toNat).getD 0) l := rfl

theorem Proper_reorder (r : Reordering) (f : Func) (l : Lin) (h : Proper f l) :
    Proper (reorder r f l).1 (reorder r f l).2 := by
  cases r
  · exact h
  · exact h
  · show Proper (reorderingOptimal f l).1 (reorderingOptimal f l).2
    have hf : f ≠ [] := by
      intro e; have := h.1; simp [e] at this
    have hlen : (reorderingOptimal f l).1.length = f.length := reorder_length .optimal f l hf
    have hpr := PR_of_Proper f l h
    have hc : CWF (reorderingOptimal f l).1 (reorderingOptimal f l).2 :=
      CWF_reorderingOptimal f l hf (CWF_of_wf f l h.2.1 h.2.2.1)
    have hp := perm_positions (pickOrder l ((List.range (f.length - 1)).map (· + 1)) (f.length - 1)) (f.length - 1)
      (pickOrder_full l (f.length - 1))
    have hpr' : PR ((reorderingOptimal f l).1.length - 1) (reorderingOptimal f l).2 := by
      apply PR_of_CWF _ _ hc
      rw [hlen]
      intro i hi
      obtain ⟨ht, hs⟩ := hp.2 i hi
      obtain ⟨v, hv, hv1⟩ := hpr.cover _ ht
      rw [reorderingOptimal_snd, relabel_flatten]
      refine ⟨_, List.mem_map.2 ⟨v, hv, rfl⟩, ?_⟩
      simp only
      rw [hv1]
      exact congrArg Int.ofNat hs
    exact Proper_of_PR _ _ ((reorderingOptimal f l).1.length - 1) (by have := h.1; omega) (by have := h.1; omega) hpr'


/-! ### `binarizeRule` and `binarizeGrammar` keep proper rules (every label generator) -/

theorem binMid_proper (mo : Option MarkovOpts) (func : Func) (vert : List Str) (fanout : List Nat) (cnt : Nat)
    (steps : Nat) : ∀ (i : Nat) (bl : Str) (tl : Lin) (st : GenState) (res : Grammar),
    PR (steps + 3) tl → AllPairs Proper res →
    AllPairs Proper (binMid mo func vert fanout cnt i steps bl tl st res).2.2.2 ∧
      PR 3 (binMid mo func vert fanout cnt i steps bl tl st res).2.1 := by
  induction steps with
  | zero => intro i bl tl st res h hres; exact ⟨hres, h⟩
  | succ k ih =>
    intro i bl tl st res h hres
    rw [binMid_succ]
    have hr : PR (k + 3) (restLin tl) := PR_restLin (k + 1 + 3) tl h (by omega)
    apply ih _ _ _ _ _ hr
    apply AllPairs_add Proper _ _ _ _ _ hres
    exact Proper_of_PR _ _ 2 rfl (by omega) (PR_topLin (k + 3) _ hr (by omega))

theorem binarizeRule_proper (mo : Option MarkovOpts) (func : Func) (lin : Lin) (cnt : Nat) (vert : List Str)
    (st : GenState) (res : Grammar) (h : Proper func lin) (hres : AllPairs Proper res) :
    AllPairs Proper (binarizeRule mo func lin cnt vert st res).2 := by
  by_cases h3 : func.length ≤ 3
  · rw [binarizeRule_small _ _ _ _ _ _ _ h3]
    exact AllPairs_add Proper _ _ _ _ _ hres h
  · rw [binarizeRule_large _ _ _ _ _ _ _ h3]
    have hpr := PR_of_Proper func lin h
    have hn : func.length - 1 = (func.length - 4) + 3 := by omega
    rw [hn] at hpr
    have hmid := binMid_proper mo func vert (fanOut lin) cnt (func.length - 4) 1
      (nextLabel mo st func 0 vert (fanOut lin)).1 lin (nextLabel mo st func 0 vert (fanOut lin)).2
      (res.add [func[0]?.getD [], func[1]?.getD [], (nextLabel mo st func 0 vert (fanOut lin)).1] (topLin lin) .default cnt)
      hpr (AllPairs_add Proper _ _ _ _ _ hres
        (Proper_of_PR _ _ 2 rfl (by omega) (PR_topLin _ lin hpr (by omega))))
    apply AllPairs_add Proper _ _ _ _ _ hmid.1
    exact Proper_of_PR _ _ 2 rfl (by omega) (PR_restLin 3 _ hmid.2 (by omega))

theorem binarizeGrammar_proper (r : Reordering) (mo : Option MarkovOpts) (g : Grammar) (h : AllPairs Proper g) :
    AllPairs Proper (binarizeGrammar r mo g) := by
  cases mo with
  | some o =>
    simp only [binarizeGrammar]
    apply foldl_inv (fun acc : GenState × Grammar => AllPairs Proper acc.2)
    · rintro acc ⟨f, l, v, c⟩ he hacc
      exact binarizeRule_proper _ _ _ _ _ _ _ (Proper_reorder r f l (AllPairs_entries Proper g h _ he)) hacc
    · exact AllPairs_nil Proper
  | none =>
    simp only [binarizeGrammar]
    apply foldl_inv (fun acc : GenState × Grammar => AllPairs Proper acc.2)
    · rintro acc ⟨f, l, c⟩ he hacc
      exact binarizeRule_proper _ _ _ _ _ _ _ (Proper_reorder r f l ((AllPairs_rules Proper g).1 h _ he)) hacc
    · exact AllPairs_nil Proper


/-! ### extracted rules are proper -/

open TT.Tree in
/-- the rule extracted at a constituent (no childless constituent below it, token numbers distinct) is proper -/
theorem linOf_Proper (f : Fields) (ks : List Tree) (hne : (node f ks).noEmpty = true)
    (hn : (node f ks).leafNums.Nodup) : Proper (funcOf (node f ks)) (linOf (node f ks)) := by
  have hfo := TT.Props.C06More.fanOut_linOf f ks hne hn
  have h := TT.Lemmas.Extract.nodeRuleOK_linOf f ks hn
  unfold nodeRuleOK at h
  simp only [Bool.and_eq_true] at h
  obtain ⟨hks, hk⟩ := (TT.Lemmas.Boyd.noEmpty_node f ks).1 hne
  have hlen : (sortBy leftmost ks).length = ks.length := (sortBy_perm leftmost ks).length_eq
  have hkpos : 0 < ks.length := List.length_pos_iff.2 hks
  refine ⟨?_, ?_, ?_, ?_⟩
  · simp only [funcOf, kids, List.length_cons, List.length_map, hlen]; omega
  · rw [hfo, TT.Lemmas.More7.children_eq]
    exact h.1
  · rw [hfo]
    simp only [funcOf, children, kids, List.length_cons, List.length_map]
  · rw [hfo]
    intro m hm
    rcases List.mem_cons.1 hm with rfl | hm
    · exact TT.Lemmas.More7.blocks_length_pos _ hne
    · obtain ⟨c, hc, rfl⟩ := List.mem_map.1 hm
      have hck : c ∈ ks := (mem_sortBy _ _ _).1 hc
      exact TT.Lemmas.More7.blocks_length_pos c (hk c hck)

open TT.Tree in
theorem events_proper (t : Tree) : ∀ ctx : List Str, t.noEmpty = true → t.leafNums.Nodup →
    ∀ e ∈ events ctx t, ∀ f l v, e = Event.rule f l v → Proper f l := by
  induction t using TT.Lemmas.WF.tree_ind with
  | hl n f =>
    intro ctx _ _ e he f' l v h
    rw [TT.Lemmas.Extract.events_leaf] at he
    simp only [List.mem_singleton] at he
    rw [he] at h; cases h
  | hn f ks ih =>
    intro ctx hne hn e he f' l v h
    obtain ⟨hks, hk⟩ := (TT.Lemmas.Boyd.noEmpty_node f ks).1 hne
    rw [TT.Lemmas.Extract.events_node ctx f ks hks] at he
    rcases List.mem_cons.1 he with rfl | he
    · cases h
      exact linOf_Proper f ks hne hn
    · obtain ⟨c, hc, hec⟩ := List.mem_flatMap.1 he
      have hck : c ∈ ks := (mem_sortBy _ _ _).1 hc
      exact ih c hck _ (hk c hck) ((TT.Lemmas.WF.leafNums_sublist_of_mem f ks c hck).nodup hn) e hec f' l v h

open TT.Tree in
theorem extractAll_proper (ts : List Tree) (h : ∀ t ∈ ts, t.noEmpty = true ∧ t.leafNums.Nodup) :
    AllPairs Proper (extractAll ts).1 := by
  unfold extractAll
  apply foldl_inv (fun st : Grammar × Lexicon => AllPairs Proper st.1) _ ts _ _ (AllPairs_nil Proper)
  intro st t ht hst
  unfold extract
  apply foldl_inv (fun st : Grammar × Lexicon => AllPairs Proper st.1) _ _ _ _ hst
  intro st' e he hst'
  cases e with
  | rule f l v =>
    exact AllPairs_add Proper _ _ _ _ _ hst' (events_proper t [] (h t ht).1 (h t ht).2 _ he f l v rfl)
  | lex w tg => exact hst'

end TT.Lemmas.More12c

namespace TT.Lemmas.More12c
open TT TT.Spec TT.Lemmas.GramBin TT.Lemmas.Unbin TT.Props.C09Rcg
open TT.Lemmas.GramOut (natToStr_isDigit natToStr_ne_nil)

/-! ## labels of extracted and binarized grammars are labels RCG can carry; dictionaries stay dictionaries -/

/-- characters RCG can carry inside a label: no whitespace, no parenthesis, no comma -/
def rcgChar (c : Char) : Bool := !pyIsSpace c && c != '(' && c != ')' && c != ','
def RcgChars (s : Str) : Prop := ∀ c ∈ s, rcgChar c = true

theorem RcgLabelOK_iff (s : Str) : RcgLabelOK s = true ↔
    s ≠ [] ∧ RcgChars s ∧ ∀ c, s.getLast? = some c → c.isDigit = false := by
  unfold RcgLabelOK RcgChars rcgChar
  simp only [Bool.and_eq_true, Bool.not_eq_true', List.all_eq_true, List.isEmpty_eq_false_iff]
  constructor
  · rintro ⟨⟨h1, h2⟩, h3⟩
    refine ⟨h1, h2, ?_⟩
    intro c hc
    rw [hc] at h3
    simpa using h3
  · rintro ⟨h1, h2, h3⟩
    refine ⟨⟨h1, h2⟩, ?_⟩
    cases hl : s.getLast? with
    | none => rfl
    | some c => simpa using h3 c hl

theorem RcgChars_of_OK (s : Str) (h : RcgLabelOK s = true) : RcgChars s := ((RcgLabelOK_iff s).1 h).2.1

theorem RcgChars_nil : RcgChars [] := by intro c hc; simp at hc

theorem RcgChars_append (a b : Str) (ha : RcgChars a) (hb : RcgChars b) : RcgChars (a ++ b) := by
  intro c hc
  rcases List.mem_append.1 hc with h | h
  · exact ha c h
  · exact hb c h

theorem RcgChars_flatten (l : List Str) (h : ∀ s ∈ l, RcgChars s) : RcgChars l.flatten := by
  intro c hc
  obtain ⟨s, hs, hcs⟩ := List.mem_flatten.1 hc
  exact h s hs c hcs

theorem rcgChar_digit (c : Char) (h : c.isDigit = true) : rcgChar c = true := by
  have hs := TT.Lemmas.GramOut.isDigit_not_space c h
  unfold rcgChar
  rw [hs]
  simp only [Char.isDigit, Bool.and_eq_true, decide_eq_true_eq] at h
  have h1 : c ≠ '(' := by rintro rfl; revert h; decide
  have h2 : c ≠ ')' := by rintro rfl; revert h; decide
  have h3 : c ≠ ',' := by rintro rfl; revert h; decide
  simp [h1, h2, h3]

theorem RcgChars_natToStr (n : Nat) : RcgChars (natToStr n) :=
  fun c hc => rcgChar_digit c (natToStr_isDigit n c hc)

theorem binlabel_eq : Gen.G_DEFAULT_BINLABEL = ['@'] := rfl
theorem binsuffix_eq : Gen.G_DEFAULT_BINSUFFIX = ['X'] := rfl
theorem vsep_eq : Gen.G_DEFAULT_MARKOV_VERTICALSEP = ['^'] := rfl
theorem hsep_eq : Gen.G_DEFAULT_MARKOV_HORIZONTALSEP = ['-'] := rfl

/-- a generated label `@…X` -/
theorem RcgLabelOK_gen (mid : Str) (h : RcgChars mid) :
    RcgLabelOK (Gen.G_DEFAULT_BINLABEL ++ mid ++ Gen.G_DEFAULT_BINSUFFIX) = true := by
  rw [RcgLabelOK_iff]
  rw [binlabel_eq, binsuffix_eq]
  refine ⟨by simp, ?_, ?_⟩
  · apply RcgChars_append
    · apply RcgChars_append _ _ _ h
      intro c hc
      have : c = '@' := by simpa using hc
      subst this; decide
    · intro c hc
      have : c = 'X' := by simpa using hc
      subst this; decide
  · intro c hc
    have : c = 'X' := by
      rw [List.append_assoc, List.getLast?_append, List.getLast?_append] at hc
      simpa using hc.symm
    subst this; decide

theorem RcgChars_getD (func : Func) (h : ∀ s ∈ func, RcgChars s) (i : Nat) : RcgChars (func[i]?.getD []) := by
  cases hi : func[i]? with
  | none => exact RcgChars_nil
  | some s => exact h s (List.mem_of_getElem? hi)

theorem nextLabel_ok (mo : Option MarkovOpts) (st : GenState) (func : Func) (pos : Nat) (vert : List Str)
    (fo : List Nat) (hf : ∀ s ∈ func, RcgChars s) (hv : ∀ s ∈ vert, RcgChars s) :
    RcgLabelOK (nextLabel mo st func pos vert fo).1 = true := by
  cases mo with
  | none => exact RcgLabelOK_gen _ (RcgChars_natToStr _)
  | some o =>
    simp only [nextLabel, markovLabel]
    rw [List.append_assoc Gen.G_DEFAULT_BINLABEL]
    apply RcgLabelOK_gen
    apply RcgChars_append
    · split
      · apply RcgChars_flatten
        intro s hs
        obtain ⟨x, hx, rfl⟩ := List.mem_map.1 hs
        apply RcgChars_append
        · intro c hc
          have : c = '^' := by rw [vsep_eq] at hc; simpa using hc
          subst this; decide
        · exact hv x (List.mem_of_mem_take hx)
      · exact RcgChars_nil
    · split
      · apply RcgChars_flatten
        intro s hs
        obtain ⟨i, _, rfl⟩ := List.mem_map.1 hs
        apply RcgChars_append
        · apply RcgChars_append
          · intro c hc
            have : c = '-' := by rw [hsep_eq] at hc; simpa using hc
            subst this; decide
          · exact RcgChars_getD func hf i
        · split
          · exact RcgChars_nil
          · exact RcgChars_natToStr _
      · exact RcgChars_nil


def LabF (f : Func) : Prop := ∀ s ∈ f, RcgLabelOK s = true

theorem LabF_getD (func : Func) (h : LabF func) (i : Nat) (hi : i < func.length) : RcgLabelOK (func[i]?.getD []) = true := by
  rw [List.getElem?_eq_getElem hi, Option.getD_some]
  exact h _ (List.getElem_mem hi)

theorem LabF_three (a b c : Str) (ha : RcgLabelOK a = true) (hb : RcgLabelOK b = true) (hc : RcgLabelOK c = true) :
    LabF [a, b, c] := by
  intro s hs
  simp only [List.mem_cons, List.not_mem_nil, or_false] at hs
  rcases hs with rfl | rfl | rfl <;> assumption

theorem binMid_labels (mo : Option MarkovOpts) (func : Func) (vert : List Str) (fanout : List Nat) (cnt : Nat)
    (hf : LabF func) (hv : ∀ s ∈ vert, RcgChars s)
    (steps : Nat) : ∀ (i : Nat) (bl : Str) (tl : Lin) (st : GenState) (res : Grammar),
    RcgLabelOK bl = true → i + steps + 3 ≤ func.length → (∀ e ∈ res, LabF e.1) →
    (∀ e ∈ (binMid mo func vert fanout cnt i steps bl tl st res).2.2.2, LabF e.1) ∧
      RcgLabelOK (binMid mo func vert fanout cnt i steps bl tl st res).1 = true := by
  have hfc : ∀ s ∈ func, RcgChars s := fun s hs => RcgChars_of_OK s (hf s hs)
  induction steps with
  | zero => intro i bl tl st res hb _ hres; exact ⟨hres, hb⟩
  | succ k ih =>
    intro i bl tl st res hb hi hres
    rw [binMid_succ]
    have hnl := nextLabel_ok mo st func i vert fanout hfc hv
    apply ih _ _ _ _ _ hnl (by omega)
    exact add_keys LabF _ _ _ _ _ hres (LabF_three _ _ _ hb (LabF_getD func hf (i + 1) (by omega)) hnl)

theorem binarizeRule_labels (mo : Option MarkovOpts) (func : Func) (lin : Lin) (cnt : Nat) (vert : List Str)
    (st : GenState) (res : Grammar) (hf : LabF func) (hv : ∀ s ∈ vert, RcgChars s) (hres : ∀ e ∈ res, LabF e.1) :
    ∀ e ∈ (binarizeRule mo func lin cnt vert st res).2, LabF e.1 := by
  have hfc : ∀ s ∈ func, RcgChars s := fun s hs => RcgChars_of_OK s (hf s hs)
  by_cases h3 : func.length ≤ 3
  · rw [binarizeRule_small _ _ _ _ _ _ _ h3]
    exact add_keys LabF _ _ _ _ _ hres hf
  · rw [binarizeRule_large _ _ _ _ _ _ _ h3]
    have hnl := nextLabel_ok mo st func 0 vert (fanOut lin) hfc hv
    have hmid := binMid_labels mo func vert (fanOut lin) cnt hf hv (func.length - 4) 1
      (nextLabel mo st func 0 vert (fanOut lin)).1 lin (nextLabel mo st func 0 vert (fanOut lin)).2
      (res.add [func[0]?.getD [], func[1]?.getD [], (nextLabel mo st func 0 vert (fanOut lin)).1] (topLin lin) .default cnt)
      hnl (by omega)
      (add_keys LabF _ _ _ _ _ hres
        (LabF_three _ _ _ (LabF_getD func hf 0 (by omega)) (LabF_getD func hf 1 (by omega)) hnl))
    exact add_keys LabF _ _ _ _ _ hmid.1
      (LabF_three _ _ _ hmid.2 (LabF_getD func hf _ (by omega)) (LabF_getD func hf _ (by omega)))

theorem mem_reorder (r : Reordering) (f : Func) (l : Lin) (hf : f ≠ []) : ∀ s ∈ (reorder r f l).1, s ∈ f := by
  cases r
  · exact fun s hs => hs
  · exact fun s hs => hs
  · show ∀ s ∈ (reorderingOptimal f l).1, s ∈ f
    rw [reorderingOptimal_fst]
    have hlen : 0 < f.length := List.length_pos_iff.2 hf
    intro s hs
    rcases List.mem_cons.1 hs with rfl | hs
    · rw [List.getElem?_eq_getElem hlen, Option.getD_some]; exact List.getElem_mem hlen
    · obtain ⟨o, ho, rfl⟩ := List.mem_map.1 hs
      have := (pickOrder_full l (f.length - 1)).mem_iff.1 ho
      simp only [List.mem_map, List.mem_range] at this
      obtain ⟨j, hj, rfl⟩ := this
      have hlt : j + 1 < f.length := by omega
      rw [List.getElem?_eq_getElem hlt, Option.getD_some]; exact List.getElem_mem hlt

/-- the vertical contexts stored in a grammar consist of strings RCG labels may contain -/
def vertP (v : VertKey) : Prop := ∀ l, v = VertKey.ctx l → ∀ x ∈ l, RcgChars x
def VertOK (g : Grammar) : Prop := ∀ e ∈ g, ∀ le ∈ e.2, ∀ vc ∈ le.2, vertP vc.1

theorem VertOK_entries (g : Grammar) (h : VertOK g) :
    ∀ r ∈ g.entries, ∀ l, r.2.2.1 = VertKey.ctx l → ∀ x ∈ l, RcgChars x := by
  intro r hr
  simp only [Grammar.entries, List.mem_flatMap, List.mem_map] at hr
  obtain ⟨e, he, le, hle, vc, hvc, rfl⟩ := hr
  exact h e he le hle vc hvc

theorem upsert_vals {κ ν} [DecidableEq κ] (Q : ν → Prop) (k : κ) (F : Option ν → ν) (m : AList κ ν)
    (hm : ∀ e ∈ m, Q e.2) (hF : ∀ o, (∀ x, o = some x → Q x) → Q (F o)) : ∀ e ∈ AList.upsert k F m, Q e.2 := by
  rcases upsert_cases k F m with ⟨_, h2⟩ | ⟨m1, v, m2, h1, _, h3⟩
  · rw [h2]
    intro e he
    rcases List.mem_append.1 he with he | he
    · exact hm e he
    · simp only [List.mem_singleton] at he
      subst he
      exact hF none (by simp)
  · rw [h3]
    intro e he
    rcases List.mem_append.1 he with he | he
    · exact hm e (by rw [h1]; simp [he])
    · rcases List.mem_cons.1 he with rfl | he
      · apply hF
        intro x hx
        have hxv : v = x := Option.some.inj hx
        subst hxv
        exact hm (k, v) (by rw [h1]; simp)
      · exact hm e (by rw [h1]; simp [he])

theorem VertOK_add (g : Grammar) (f : Func) (l : Lin) (v : VertKey) (n : Nat) (hg : VertOK g) (hv : vertP v) :
    VertOK (g.add f l v n) := by
  unfold Grammar.add
  apply upsert_vals (fun ls : AList Lin (AList VertKey Nat) => ∀ le ∈ ls, ∀ vc ∈ le.2, vertP vc.1) f _ g hg
  intro o ho
  apply upsert_vals (fun vs : AList VertKey Nat => ∀ vc ∈ vs, vertP vc.1) l _ (o.getD [])
  · cases o with
    | none => simp
    | some x => exact ho x rfl
  · intro o2 ho2
    apply upsert_keys vertP v _ (o2.getD []) _ hv
    cases o2 with
    | none => simp
    | some x => exact ho2 x rfl

theorem RcgChars_labelStripFanout (s : Str) (h : RcgChars s) : RcgChars (labelStripFanout s) := by
  intro c hc
  unfold labelStripFanout at hc
  rw [List.mem_reverse] at hc
  have := (List.dropWhile_sublist _).subset hc
  exact h c (List.mem_reverse.1 this)

theorem binarizeGrammar_labels (r : Reordering) (mo : Option MarkovOpts) (g : Grammar)
    (h : ∀ e ∈ g, e.1 ≠ [] ∧ LabF e.1) (hv : VertOK g) : ∀ e ∈ binarizeGrammar r mo g, LabF e.1 := by
  cases mo with
  | some o =>
    simp only [binarizeGrammar]
    apply foldl_inv (fun acc : GenState × Grammar => ∀ e ∈ acc.2, LabF e.1)
    · rintro acc ⟨f, l, v, c⟩ he hacc
      obtain ⟨p, hp, hpf⟩ := entries_func_mem g _ he
      simp only at hpf
      have hf := h p hp
      rw [hpf] at hf
      apply binarizeRule_labels _ _ _ _ _ _ _ (fun s hs => hf.2 s (mem_reorder r f l hf.1 s hs)) _ hacc
      intro s hs
      cases v with
      | default => simp [vertOf] at hs
      | ctx lv =>
        have hx := VertOK_entries g hv _ he lv rfl
        simp only [vertOf] at hs
        split at hs
        · obtain ⟨x, hx', rfl⟩ := List.mem_map.1 hs
          exact RcgChars_labelStripFanout x (hx x hx')
        · exact hx s hs
    · simp
  | none =>
    simp only [binarizeGrammar]
    apply foldl_inv (fun acc : GenState × Grammar => ∀ e ∈ acc.2, LabF e.1)
    · rintro acc ⟨f, l, c⟩ he hacc
      obtain ⟨p, hp, hpf⟩ := rules_func_mem g _ he
      simp only at hpf
      have hf := h p hp
      rw [hpf] at hf
      exact binarizeRule_labels _ _ _ _ _ _ _ (fun s hs => hf.2 s (mem_reorder r f l hf.1 s hs))
        (by simp) hacc
    · simp

/-! ### dictionaries stay dictionaries -/

theorem binMid_GN (mo : Option MarkovOpts) (func : Func) (vert : List Str) (fanout : List Nat) (cnt : Nat)
    (steps : Nat) : ∀ (i : Nat) (bl : Str) (tl : Lin) (st : GenState) (res : Grammar),
    GN res → GN (binMid mo func vert fanout cnt i steps bl tl st res).2.2.2 := by
  induction steps with
  | zero => intro i bl tl st res h; exact h
  | succ k ih =>
    intro i bl tl st res h
    rw [binMid_succ]
    exact ih _ _ _ _ _ (GN_add _ _ _ _ _ h)

theorem binarizeRule_GN (mo : Option MarkovOpts) (func : Func) (lin : Lin) (cnt : Nat) (vert : List Str)
    (st : GenState) (res : Grammar) (h : GN res) : GN (binarizeRule mo func lin cnt vert st res).2 := by
  by_cases h3 : func.length ≤ 3
  · rw [binarizeRule_small _ _ _ _ _ _ _ h3]; exact GN_add _ _ _ _ _ h
  · rw [binarizeRule_large _ _ _ _ _ _ _ h3]
    exact GN_add _ _ _ _ _ (binMid_GN _ _ _ _ _ _ _ _ _ _ _ (GN_add _ _ _ _ _ h))

theorem binarizeGrammar_GN (r : Reordering) (mo : Option MarkovOpts) (g : Grammar) : GN (binarizeGrammar r mo g) := by
  cases mo with
  | some o =>
    simp only [binarizeGrammar]
    apply foldl_inv (fun acc : GenState × Grammar => GN acc.2)
    · rintro acc ⟨f, l, v, c⟩ _ hacc
      exact binarizeRule_GN _ _ _ _ _ _ _ hacc
    · exact GN_nil
  | none =>
    simp only [binarizeGrammar]
    apply foldl_inv (fun acc : GenState × Grammar => GN acc.2)
    · rintro acc ⟨f, l, c⟩ _ hacc
      exact binarizeRule_GN _ _ _ _ _ _ _ hacc
    · exact GN_nil


/-! ### the grammar and the lexicon extracted from a treebank -/

open TT.Tree in
theorem extractAll_GN (ts : List Tree) : GN (extractAll ts).1 := by
  unfold extractAll
  apply foldl_inv (fun st : Grammar × Lexicon => GN st.1) _ ts _ _ GN_nil
  intro st t _ hst
  unfold extract
  apply foldl_inv (fun st : Grammar × Lexicon => GN st.1) _ _ _ _ hst
  intro st' e _ hst'
  cases e with
  | rule f l v => exact GN_add _ _ _ _ _ hst'
  | lex w tg => exact hst'

open TT.Tree in
theorem RcgChars_vertLabel (t : Tree) (h : RcgLabelOK t.fields.label = true) : RcgChars (vertLabel t) :=
  RcgChars_append _ _ (RcgChars_of_OK _ h) (RcgChars_natToStr _)

open TT.Tree in
theorem events_labels (t : Tree) : ∀ ctx : List Str, (∀ s ∈ t.subtrees, RcgLabelOK s.fields.label = true) →
    (∀ x ∈ ctx, RcgChars x) →
    ∀ e ∈ events ctx t, ∀ f l v, e = Event.rule f l v → (f ≠ [] ∧ LabF f) ∧ ∀ x ∈ v, RcgChars x := by
  induction t using TT.Lemmas.WF.tree_ind with
  | hl n f =>
    intro ctx _ _ e he f' l v h
    rw [TT.Lemmas.Extract.events_leaf] at he
    simp only [List.mem_singleton] at he
    rw [he] at h; cases h
  | hn f ks ih =>
    intro ctx hlab hctx e he f' l v h
    by_cases hks : ks = []
    · subst hks
      simp [events] at he
      rw [he] at h; cases h
    · have hself : RcgLabelOK (node f ks).fields.label = true := hlab _ (TT.Lemmas.WF.self_mem_subtrees _)
      have hctx' : ∀ x ∈ vertLabel (node f ks) :: ctx, RcgChars x := by
        intro x hx
        rcases List.mem_cons.1 hx with rfl | hx
        · exact RcgChars_vertLabel _ hself
        · exact hctx x hx
      rw [TT.Lemmas.Extract.events_node ctx f ks hks] at he
      rcases List.mem_cons.1 he with rfl | he
      · cases h
        refine ⟨⟨by simp [funcOf], ?_⟩, hctx'⟩
        intro s hs
        simp only [funcOf, List.mem_cons, List.mem_map] at hs
        rcases hs with rfl | ⟨c, hc, rfl⟩
        · exact hself
        · have hck : c ∈ ks := (mem_sortBy _ _ _).1 hc
          exact hlab c ((TT.Lemmas.WF.mem_subtrees_node f ks c).2 (Or.inr ⟨c, hck, TT.Lemmas.WF.self_mem_subtrees c⟩))
      · obtain ⟨c, hc, hec⟩ := List.mem_flatMap.1 he
        have hck : c ∈ ks := (mem_sortBy _ _ _).1 hc
        exact ih c hck _ (fun s hs => hlab s ((TT.Lemmas.WF.mem_subtrees_node f ks s).2 (Or.inr ⟨c, hck, hs⟩)))
          hctx' e hec f' l v h

open TT.Tree in
theorem extractAll_labels (ts : List Tree) (h : ∀ t ∈ ts, ∀ s ∈ t.subtrees, RcgLabelOK s.fields.label = true) :
    (∀ e ∈ (extractAll ts).1, e.1 ≠ [] ∧ LabF e.1) ∧ VertOK (extractAll ts).1 := by
  unfold extractAll
  apply foldl_inv (fun st : Grammar × Lexicon => (∀ e ∈ st.1, e.1 ≠ [] ∧ LabF e.1) ∧ VertOK st.1) _ ts _ _
    ⟨by simp, by intro e he; simp at he⟩
  intro st t ht hst
  unfold extract
  apply foldl_inv (fun st : Grammar × Lexicon => (∀ e ∈ st.1, e.1 ≠ [] ∧ LabF e.1) ∧ VertOK st.1) _ _ _ _ hst
  intro st' e he hst'
  cases e with
  | rule f l v =>
    obtain ⟨h1, h2⟩ := events_labels t [] (h t ht) (by simp) _ he f l v rfl
    refine ⟨add_keys (fun f => f ≠ [] ∧ LabF f) _ _ _ _ _ hst'.1 h1, VertOK_add _ _ _ _ _ hst'.2 ?_⟩
    intro l' hl'
    cases hl'
    exact h2
  | lex w tg => exact hst'


open TT.Lemmas.GramOut (OKw) in
/-- a lexicon that is a dictionary of dictionaries whose words and tags can be written to a lexicon file -/
def LexOK (lex : Lexicon) : Prop :=
  (lex.map (·.1)).Nodup ∧ ∀ e ∈ lex, OKw e.1 ∧ e.2 ≠ [] ∧ (e.2.map (·.1)).Nodup ∧ ∀ tc ∈ e.2, OKw tc.1

theorem upsert_ne_nil {κ ν} [DecidableEq κ] (k : κ) (F : Option ν → ν) (m : AList κ ν) : AList.upsert k F m ≠ [] := by
  cases m with
  | nil => simp [AList.upsert]
  | cons a r =>
    obtain ⟨a, v⟩ := a
    simp only [AList.upsert]
    split <;> simp

open TT.Lemmas.GramOut (OKw) in
theorem LexOK_add (lex : Lexicon) (w t : Str) (n : Nat) (h : LexOK lex) (hw : OKw w) (ht : OKw t) :
    LexOK (lex.add w t n) := by
  unfold Lexicon.add
  refine ⟨upsert_keys_nodup _ _ _ h.1, ?_⟩
  intro e he
  refine ⟨upsert_keys OKw w _ lex (fun e he => (h.2 e he).1) hw e he, ?_⟩
  apply upsert_vals (fun tags : AList Str Nat => tags ≠ [] ∧ (tags.map (·.1)).Nodup ∧ ∀ tc ∈ tags, OKw tc.1)
    w _ lex (fun e he => (h.2 e he).2) _ e he
  intro o ho
  refine ⟨upsert_ne_nil _ _ _, upsert_keys_nodup _ _ _ ?_, upsert_keys OKw t _ _ ?_ ht⟩
  · cases o with
    | none => simp
    | some x => exact (ho x rfl).2.1
  · cases o with
    | none => simp
    | some x => exact (ho x rfl).2.2

open TT.Tree TT.Lemmas.GramOut in
theorem events_lex_ok (t : Tree) : ∀ ctx : List Str, t.noEmpty = true →
    (∀ s ∈ t.subtrees, s.isLeaf = true → OKw (s.fields.word.getD []) ∧ OKw s.fields.label) →
    ∀ e ∈ events ctx t, ∀ w tg, e = Event.lex w tg → OKw w ∧ OKw tg := by
  induction t using TT.Lemmas.WF.tree_ind with
  | hl n f =>
    intro ctx _ htok e he w tg h
    rw [TT.Lemmas.Extract.events_leaf] at he
    simp only [List.mem_singleton] at he
    rw [he] at h
    cases h
    exact htok (leaf n f) (TT.Lemmas.WF.self_mem_subtrees _) rfl
  | hn f ks ih =>
    intro ctx hne htok e he w tg h
    obtain ⟨hks, hk⟩ := (TT.Lemmas.Boyd.noEmpty_node f ks).1 hne
    rw [TT.Lemmas.Extract.events_node ctx f ks hks] at he
    rcases List.mem_cons.1 he with rfl | he
    · cases h
    · obtain ⟨c, hc, hec⟩ := List.mem_flatMap.1 he
      have hck : c ∈ ks := (mem_sortBy _ _ _).1 hc
      exact ih c hck _ (hk c hck)
        (fun s hs => htok s ((TT.Lemmas.WF.mem_subtrees_node f ks s).2 (Or.inr ⟨c, hck, hs⟩))) e hec w tg h

open TT.Tree TT.Lemmas.GramOut in
theorem extractAll_LexOK (ts : List Tree) (h : ∀ t ∈ ts, t.noEmpty = true ∧
    ∀ s ∈ t.subtrees, s.isLeaf = true → OKw (s.fields.word.getD []) ∧ OKw s.fields.label) :
    LexOK (extractAll ts).2 := by
  unfold extractAll
  apply foldl_inv (fun st : Grammar × Lexicon => LexOK st.2) _ ts _ _ ⟨by simp, by simp⟩
  intro st t ht hst
  unfold extract
  apply foldl_inv (fun st : Grammar × Lexicon => LexOK st.2) _ _ _ _ hst
  intro st' e he hst'
  cases e with
  | rule f l v => exact hst'
  | lex w tg =>
    obtain ⟨h1, h2⟩ := events_lex_ok t [] (h t ht).1 (h t ht).2 _ he w tg rfl
    exact LexOK_add _ _ _ _ hst' h1 h2

end TT.Lemmas.More12c

namespace TT.Lemmas.More12c
open TT TT.Spec TT.Tree

/-! ### completing the head sides of a rebuilt tree -/

theorem fillHeadsL_eq : ∀ ks : List Tree, fillHeadsL ks = ks.map fillHeads
  | [] => rfl
  | t :: ts => by simp [fillHeadsL, fillHeadsL_eq ts]

theorem fields_fillHeads (t : Tree) : (fillHeads t).fields = t.fields := by
  cases t <;> simp [fillHeads, fields]

theorem headsExactlyOne_node (f : Fields) (ks : List Tree) :
    headsExactlyOne (node f ks) = true ↔ onePair ks = true ∧ ∀ k ∈ ks, headsExactlyOne k = true := by
  unfold headsExactlyOne
  simp only [List.all_eq_true]
  constructor
  · intro h
    refine ⟨h _ (Lemmas.WF.self_mem_subtrees _), fun k hk s hs => ?_⟩
    exact h s ((Lemmas.WF.mem_subtrees_node f ks s).2 (Or.inr ⟨k, hk, hs⟩))
  · rintro ⟨h1, h2⟩ s hs
    rcases (Lemmas.WF.mem_subtrees_node f ks s).1 hs with rfl | ⟨k, hk, hsk⟩
    · exact h1
    · exact h2 k hk s hsk

/-- stating the head side the original has keeps the agreement -/
theorem agreesS_withHead (o x : Tree) (k : Bool) (h : agreesS o x = true) (hk : o.fields.head = some k) :
    agreesS o (withHead k x) = true := by
  cases o with
  | leaf n f =>
    cases x with
    | leaf m g =>
      simp only [fields] at hk
      simp only [agreesS, withHead, setFields, Bool.and_eq_true] at h ⊢
      refine ⟨h.1, ?_⟩
      simp [hk]
    | node g ls => simp [agreesS] at h
  | node f ks =>
    cases x with
    | leaf m g => simp [agreesS] at h
    | node g ls =>
      simp only [fields] at hk
      simp only [agreesS, withHead, setFields, Bool.and_eq_true] at h ⊢
      refine ⟨⟨h.1.1, ?_⟩, h.2⟩
      simp [hk]

theorem agreesS_head (o x : Tree) (h : agreesS o x = true) (b : Bool) (hx : x.fields.head = some b) :
    o.fields.head = some b := by
  cases o with
  | leaf n f =>
    cases x with
    | leaf m g =>
      simp only [fields] at hx ⊢
      simp only [agreesS, Bool.and_eq_true, Bool.or_eq_true] at h
      rcases h.2 with h2 | h2
      · simp [hx] at h2
      · rw [hx] at h2; exact (beq_iff_eq.1 h2).symm
    | node g ls => simp [agreesS] at h
  | node f ks =>
    cases x with
    | leaf m g => simp [agreesS] at h
    | node g ls =>
      simp only [fields] at hx ⊢
      simp only [agreesS, Bool.and_eq_true, Bool.or_eq_true] at h
      rcases h.1.2 with h2 | h2
      · simp [hx] at h2
      · rw [hx] at h2; exact (beq_iff_eq.1 h2).symm

theorem agreesSL_fillPair (ks ls : List Tree) (h : agreesSL ks ls = true) (hp : onePair ks = true) :
    agreesSL ks (fillPair ls) = true := by
  match ls, h with
  | [], h => simpa [fillPair] using h
  | [a], h => simpa [fillPair] using h
  | a :: b :: c :: r, h => simpa [fillPair] using h
  | [a', b'], h =>
    match ks, h, hp with
    | [a, b], h, hp =>
      simp only [agreesSL, Bool.and_eq_true, Bool.and_true] at h
      obtain ⟨ha, hb⟩ := h
      simp only [onePair, Bool.or_eq_true, Bool.and_eq_true, beq_iff_eq] at hp
      simp only [fillPair]
      split
      · rename_i hd he hf
        have ha' := agreesS_head a a' ha hd he
        have hbk : b.fields.head = some (!hd) := by
          rcases hp with ⟨p1, p2⟩ | ⟨p1, p2⟩
          · rw [p1] at ha'; cases ha'; exact p2
          · rw [p1] at ha'; cases ha'; exact p2
        simp only [agreesSL, Bool.and_eq_true, Bool.and_true]
        exact ⟨ha, agreesS_withHead b b' _ hb hbk⟩
      · rename_i hd he hf
        have hb' := agreesS_head b b' hb hd hf
        have hak : a.fields.head = some (!hd) := by
          rcases hp with ⟨p1, p2⟩ | ⟨p1, p2⟩
          · rw [p2] at hb'; cases hb'; exact p1
          · rw [p2] at hb'; cases hb'; exact p1
        simp only [agreesSL, Bool.and_eq_true, Bool.and_true]
        exact ⟨agreesS_withHead a a' _ ha hak, hb⟩
      · simp only [agreesSL, Bool.and_eq_true, Bool.and_true]
        exact ⟨ha, hb⟩
    | [], h, _ => simp [agreesSL] at h
    | [_], h, _ => simp [agreesSL] at h
    | _ :: _ :: _ :: _, h, _ => simp [agreesSL] at h

theorem agreesS_fillHeads (o : Tree) : ∀ r, agreesS o r = true → headsExactlyOne o = true →
    agreesS o (fillHeads r) = true := by
  induction o using TT.Lemmas.WF.tree_ind with
  | hl n f =>
    intro r h _
    cases r with
    | leaf m g => simpa [fillHeads] using h
    | node g ls => simp [agreesS] at h
  | hn f ks ih =>
    intro r h hx
    cases r with
    | leaf m g => simp [agreesS] at h
    | node g ls =>
      obtain ⟨hp, hk⟩ := (headsExactlyOne_node f ks).1 hx
      simp only [agreesS, Bool.and_eq_true] at h
      simp only [fillHeads, agreesS, Bool.and_eq_true]
      refine ⟨h.1, agreesSL_fillPair ks _ ?_ hp⟩
      rw [fillHeadsL_eq]
      have key : ∀ (ks' ls' : List Tree), (∀ k ∈ ks', k ∈ ks) → agreesSL ks' ls' = true →
          agreesSL ks' (ls'.map fillHeads) = true := by
        intro ks'
        induction ks' with
        | nil => intro ls' _ h'; cases ls' <;> simp_all [agreesSL]
        | cons a as iha =>
          intro ls' hsub h'
          cases ls' with
          | nil => simp [agreesSL] at h'
          | cons b bs =>
            simp only [agreesSL, Bool.and_eq_true, List.map_cons] at h' ⊢
            exact ⟨ih a (hsub a (by simp)) b h'.1 (hk a (hsub a (by simp))),
              iha bs (fun k hk' => hsub k (by simp [hk'])) h'.2⟩
      exact key ks ls (fun k hk' => hk') h.2


/-! ### the normal form keeps "exactly one head" -/

theorem fields_sortKids (t : Tree) : (sortKids t).fields = t.fields := by
  cases t <;> simp [sortKids, fields]

theorem sortKids_node' (f : Fields) (ks : List Tree) :
    sortKids (node f ks) = node f (sortBy leftmost (ks.map sortKids)) := by
  simp [sortKids, TT.Lemmas.Binarize.sortKidsL_eq]

theorem onePair_swap (a b : Tree) : onePair [b, a] = onePair [a, b] := by
  simp only [onePair]
  cases a.fields.head <;> cases b.fields.head <;> simp <;> (rename_i x y; cases x <;> cases y <;> rfl)

theorem onePair_congr (a b a' b' : Tree) (ha : a'.fields = a.fields) (hb : b'.fields = b.fields) :
    onePair [a', b'] = onePair [a, b] := by
  simp only [onePair, ha, hb]

theorem headsExactlyOne_sortKids (t : Tree) : headsExactlyOne t = true → headsExactlyOne (sortKids t) = true := by
  induction t using TT.Lemmas.WF.tree_ind with
  | hl n f => intro h; simpa [sortKids] using h
  | hn f ks ih =>
    intro h
    obtain ⟨hp, hk⟩ := (headsExactlyOne_node f ks).1 h
    rw [sortKids_node', headsExactlyOne_node]
    constructor
    · match ks, hp with
      | [], _ => rfl
      | [a], _ => rfl
      | [a, b], hp =>
        simp only [List.map_cons, List.map_nil, sortBy, insertBy]
        split
        · rw [onePair_congr a b _ _ (fields_sortKids a) (fields_sortKids b)]; exact hp
        · rw [onePair_swap, onePair_congr a b _ _ (fields_sortKids a) (fields_sortKids b)]; exact hp
      | a :: b :: c :: r, _ =>
        have hl : (sortBy leftmost ((a :: b :: c :: r).map sortKids)).length = r.length + 3 := by
          rw [(sortBy_perm leftmost _).length_eq]; simp
        match hs : sortBy leftmost ((a :: b :: c :: r).map sortKids), hl with
        | [], hl => simp at hl
        | [_], hl => simp at hl
        | [_, _], hl => simp at hl
        | _ :: _ :: _ :: _, _ => rfl
    · intro k hk'
      have := (mem_sortBy _ _ _).1 hk'
      obtain ⟨k0, hk0, rfl⟩ := List.mem_map.1 this
      exact ih k0 hk0 (hk k0 hk0)

/-- MAIN lemma (T10.4): if the rebuilt tree agrees with the original and the original marks exactly one head child in
    every binary constituent, the rebuilt tree with the sibling sides completed agrees as well -/
theorem agrees_fillHeads (t r : Tree) (h : agrees t r = true) (hx : headsExactlyOne t = true) :
    agreesS (sortKids t) (fillHeads (sortKids r)) = true :=
  agreesS_fillHeads (sortKids t) (sortKids r) h (headsExactlyOne_sortKids t hx)

end TT.Lemmas.More12c
