/-
  Helper lemmas for C16More: accumulators of `treeanalysis` (`bump`, `GapStats`), context-freeness of the
  extracted grammar as a fold over the events, the continuous reordering `discoOrder`, and the error
  behaviour of the bracket writer.  Core only (no Mathlib).
-/
import TT.Analysis
import TT.IO.Write
import TT.Grammar.Extract
import TT.Spec.Transform
import TT.Lemmas.Sort
import TT.Lemmas.Nav
import TT.Lemmas.WF
import TT.Lemmas.Trans
import TT.Lemmas.Extract
import TT.Props.C16
import TT.Props.C06
namespace TT.Lemmas.Analysis
open TT TT.Tree TT.Spec TT.Lemmas.WF TT.Lemmas.Nav

/-! ### `bump` and the `GapDegree` accumulator -/

theorem total_nil : GapStats.total [] = 0 := rfl

theorem total_cons (p : Nat × Nat) (l : List (Nat × Nat)) :
    GapStats.total (p :: l) = p.2 + GapStats.total l := by
  simp [GapStats.total]

theorem bump_total (k : Nat) : ∀ l : List (Nat × Nat), GapStats.total (bump k l) = GapStats.total l + 1
  | [] => by simp [bump, GapStats.total]
  | (a, c) :: r => by
    simp only [bump]
    split
    · simp only [total_cons]; omega
    · simp only [total_cons, bump_total k r]; omega

theorem foldl_bump_total : ∀ (ds : List Nat) (l : List (Nat × Nat)),
    GapStats.total (ds.foldl (fun acc d => bump d acc) l) = GapStats.total l + ds.length
  | [], l => by simp
  | d :: ds, l => by
    simp only [List.foldl_cons, List.length_cons]
    rw [foldl_bump_total ds, bump_total]
    omega

/-- the constituents (nodes with children) of a tree, in preorder -/
def constituents (t : Tree) : List Tree := t.preorder.filter fun x => !x.kids.isEmpty

theorem run_perTree (s : GapStats) (t : Tree) :
    GapStats.total (s.run t).perTree = GapStats.total s.perTree + 1 := by
  simp only [GapStats.run]
  exact bump_total _ _

theorem run_perNode (s : GapStats) (t : Tree) :
    GapStats.total (s.run t).perNode = GapStats.total s.perNode + (constituents t).length := by
  simp only [GapStats.run]
  rw [foldl_bump_total]
  simp [constituents]

theorem foldl_run_totals : ∀ (ts : List Tree) (s : GapStats),
    GapStats.total (ts.foldl GapStats.run s).perTree = GapStats.total s.perTree + ts.length ∧
    GapStats.total (ts.foldl GapStats.run s).perNode =
      GapStats.total s.perNode + (ts.map fun t => (constituents t).length).sum
  | [], s => by simp
  | t :: ts, s => by
    obtain ⟨h1, h2⟩ := foldl_run_totals ts (s.run t)
    simp only [List.foldl_cons, List.length_cons, List.map_cons, List.sum_cons]
    rw [h1, h2, run_perTree, run_perNode]
    omega

/-- the keys after a `bump`: unchanged when the key is present, appended at the end otherwise -/
theorem bump_keys (k : Nat) : ∀ l : List (Nat × Nat),
    (bump k l).map (·.1) = if k ∈ l.map (·.1) then l.map (·.1) else l.map (·.1) ++ [k]
  | [] => by simp [bump]
  | (a, c) :: r => by
    simp only [bump]
    by_cases h : a = k
    · subst h; simp
    · have h' : ¬ k = a := fun e => h e.symm
      simp only [h, if_false, List.map_cons, List.mem_cons, h', false_or, bump_keys k r]
      split <;> simp

theorem bump_keys_nodup (k : Nat) (l : List (Nat × Nat)) (h : (l.map (·.1)).Nodup) :
    ((bump k l).map (·.1)).Nodup := by
  rw [bump_keys]
  split
  · exact h
  · rename_i hk
    rw [List.nodup_append]
    exact ⟨h, by simp, fun a ha b hb => by
      rw [List.mem_singleton.1 hb]; rintro rfl; exact hk ha⟩

/-- a `bump` adds one to the addressed count and leaves the others alone -/
theorem bump_get (k k' : Nat) : ∀ l : List (Nat × Nat),
    ((bump k l).find? (·.1 == k')).map (·.2) =
      if k' = k then some (((l.find? (·.1 == k)).map (·.2)).getD 0 + 1) else (l.find? (·.1 == k')).map (·.2)
  | [] => by
    by_cases h : k' = k
    · subst h; simp [bump]
    · have : ¬ k = k' := fun e => h e.symm
      simp [bump, h, this]
  | (a, c) :: r => by
    simp only [bump]
    by_cases hak : a = k
    · subst hak
      by_cases h : k' = a
      · subst h; simp
      · have : ¬ a = k' := fun e => h e.symm
        simp [h, this]
    · simp only [hak, if_false, List.find?_cons]
      by_cases hak' : a = k'
      · subst hak'
        simp [hak]
      · have h1 : (a == k') = false := by simpa using hak'
        have h2 : (a == k) = false := by simpa using hak
        simp only [h1, h2]
        exact bump_get k k' r

/-! ### context-freeness of a grammar built by `Grammar.add` -/

/-- the condition `is_contextfree` checks for one function's table -/
def linsCF (ls : AList Lin (AList VertKey Nat)) : Bool := ls.all fun (l, _) => decide (l.length ≤ 1)

theorem isContextFree_eq (g : Grammar) : isContextFree g = g.all fun p => linsCF p.2 := rfl

theorem linsCF_upsert (lin : Lin) (F : Option (AList VertKey Nat) → AList VertKey Nat) :
    ∀ ls : AList Lin (AList VertKey Nat),
    linsCF (AList.upsert lin F ls) = (linsCF ls && decide (lin.length ≤ 1))
  | [] => by simp [AList.upsert, linsCF]
  | (a, v) :: r => by
    by_cases h : a = lin
    · subst h
      simp only [AList.upsert, if_true, linsCF, List.all_cons]
      cases decide (a.length ≤ 1) <;> simp
    · have ih := linsCF_upsert lin F r
      simp only [linsCF] at ih
      simp only [AList.upsert, h, if_false, linsCF, List.all_cons, ih, Bool.and_assoc]

theorem isContextFree_add (g : Grammar) (f : Func) (l : Lin) (v : VertKey) (n : Nat) :
    isContextFree (g.add f l v n) = (isContextFree g && decide (l.length ≤ 1)) := by
  unfold Grammar.add
  induction g with
  | nil => simp [AList.upsert, isContextFree_eq, linsCF]
  | cons p r ih =>
    obtain ⟨a, ls⟩ := p
    by_cases h : a = f
    · subst h
      simp only [AList.upsert, if_true, isContextFree_eq, List.all_cons, linsCF_upsert, Option.getD_some]
      cases linsCF ls <;> cases decide (l.length ≤ 1) <;> simp
    · simp only [isContextFree_eq] at ih
      simp only [AList.upsert, h, if_false, isContextFree_eq, List.all_cons, ih, Bool.and_assoc]

/-- a rule event with at most one LHS argument (lexical events always qualify) -/
def ruleCF : Event → Bool
  | .rule _ l _ => decide (l.length ≤ 1)
  | .lex _ _ => true

theorem foldl_applyEvent_cf : ∀ (evs : List Event) (st : Grammar × Lexicon),
    isContextFree (evs.foldl applyEvent st).1 = (isContextFree st.1 && evs.all ruleCF)
  | [], st => by simp
  | e :: evs, st => by
    simp only [List.foldl_cons, List.all_cons]
    rw [foldl_applyEvent_cf evs]
    cases e with
    | rule f l v => simp only [applyEvent, isContextFree_add, ruleCF, Bool.and_assoc]
    | lex w t => simp [applyEvent, ruleCF]

theorem extract_cf (t : Tree) : isContextFree (extract t ([], [])).1 = (events [] t).all ruleCF := by
  unfold extract
  rw [foldl_applyEvent_cf]
  simp [isContextFree]

theorem extract_cf_from (t : Tree) (st : Grammar × Lexicon) :
    isContextFree (extract t st).1 = (isContextFree st.1 && (events [] t).all ruleCF) := by
  unfold extract
  exact foldl_applyEvent_cf _ st

theorem foldl_extract_cf : ∀ (ts : List Tree) (st : Grammar × Lexicon),
    isContextFree (ts.foldl (fun st t => extract t st) st).1 =
      (isContextFree st.1 && ts.all fun t => (events [] t).all ruleCF)
  | [], st => by simp
  | t :: ts, st => by
    simp only [List.foldl_cons, List.all_cons]
    rw [foldl_extract_cf ts, extract_cf_from, Bool.and_assoc]

/-- the extracted linearization has at most one argument iff the node has no gap (no hypothesis needed) -/
theorem linOf_le_one_iff (t : Tree) (hl : t.isLeaf = false) : (linOf t).length ≤ 1 ↔ gapDegreeNode t = 0 := by
  cases t with
  | leaf n f => simp [isLeaf] at hl
  | node f ks =>
    rw [TT.Props.C06.linOf_length, TT.Props.C16.gapDegreeNode_eq_blocks]
    omega

theorem gapDegreeNode_childless (f : Fields) : gapDegreeNode (node f []) = 0 := by
  simp [gapDegreeNode, yield, terminals, leaves, leavesL, sortBy, gapCount]

theorem events_childless (ctx : List Str) (f : Fields) :
    events ctx (node f []) = [.lex (f.word.getD []) f.label] := by
  simp [events]

/-- all rule events of a tree are context-free iff no node has a gap -/
theorem events_all_cf (t : Tree) : ∀ ctx : List Str,
    (events ctx t).all ruleCF = true ↔ ∀ s ∈ t.subtrees, gapDegreeNode s = 0 := by
  induction t using tree_ind with
  | hl n f =>
    intro ctx
    simp [TT.Lemmas.Extract.events_leaf, ruleCF, subtrees, gapDegreeNode]
  | hn f ks ih =>
    intro ctx
    by_cases hne : ks = []
    · subst hne
      simp [events_childless, ruleCF, subtrees, subtreesL, gapDegreeNode_childless]
    · rw [TT.Lemmas.Extract.events_node ctx f ks hne]
      simp only [List.all_cons, List.all_flatMap, Bool.and_eq_true, List.all_eq_true, ruleCF,
        decide_eq_true_eq]
      rw [linOf_le_one_iff _ rfl]
      constructor
      · rintro ⟨h0, hk⟩ s hs
        rcases (mem_subtrees_node f ks s).1 hs with rfl | ⟨k, hkm, hsk⟩
        · exact h0
        · have := hk k ((mem_sortBy _ _ _).2 hkm)
          rw [← List.all_eq_true] at this
          exact (ih k hkm _).1 this s hsk
      · intro h
        refine ⟨h _ (self_mem_subtrees _), ?_⟩
        intro k hkm
        have hkm' : k ∈ ks := (mem_sortBy _ _ _).1 hkm
        rw [← List.all_eq_true]
        exact (ih k hkm' _).2 fun s hs => h s ((mem_subtrees_node f ks s).2 (Or.inr ⟨k, hkm', hs⟩))

/-! ### the continuous reordering -/

theorem discoOrder_leaf (rightd : Bool) (n : Nat) (f : Fields) : discoOrder rightd (leaf n f) = .ok [n] := by
  simp [discoOrder]

theorem discoOrderK_nil (rightd : Bool) : discoOrderK rightd [] = .ok [] := by
  simp [discoOrderK]

theorem discoOrderK_cons_ok (rightd : Bool) (t : Tree) (ts : List Tree) (rs : List (Nat × List Nat))
    (h : discoOrderK rightd (t :: ts) = .ok rs) :
    ∃ a b, discoOrder rightd t = .ok a ∧ discoOrderK rightd ts = .ok b ∧ rs = (leftmost t, a) :: b := by
  rw [discoOrderK] at h
  cases h1 : discoOrder rightd t with
  | error e => rw [h1] at h; simp at h
  | ok a =>
    cases h2 : discoOrderK rightd ts with
    | error e => rw [h1, h2] at h; simp at h
    | ok b =>
      rw [h1, h2] at h
      simp only [Except.ok.injEq] at h
      exact ⟨a, b, rfl, rfl, h.symm⟩

/-- how a binary (or unary, or childless) node combines the reordered children -/
def pick (swap : Bool) : List (List Nat) → List Nat
  | [a, b] => if swap then b ++ a else a ++ b
  | [a] => a
  | _ => []

theorem pick_perm (swap : Bool) (s : List (List Nat)) (h : s.length ≤ 2) : (pick swap s).Perm s.flatten := by
  rcases s with _ | ⟨a, _ | ⟨b, _ | ⟨c, r⟩⟩⟩
  · simp [pick]
  · simp [pick]
  · cases swap
    · simp [pick]
    · simpa [pick] using List.perm_append_comm
  · simp at h

theorem pick_false (s : List (List Nat)) (h : s.length ≤ 2) : pick false s = s.flatten := by
  rcases s with _ | ⟨a, _ | ⟨b, _ | ⟨c, r⟩⟩⟩
  · simp [pick]
  · simp [pick]
  · simp [pick]
  · simp at h

theorem discoOrder_node_ok (rightd : Bool) (f : Fields) (ks : List Tree) (l : List Nat)
    (h : discoOrder rightd (node f ks) = .ok l) :
    ∃ rs, discoOrderK rightd ks = .ok rs ∧ rs.length ≤ 2 ∧
      l = pick (rightd && gapType (node f ks) == .source) ((sortBy (·.1) rs).map (·.2)) := by
  rw [discoOrder] at h
  cases h1 : discoOrderK rightd ks with
  | error e => rw [h1] at h; simp at h
  | ok rs =>
    rw [h1] at h
    simp only at h
    by_cases hlen : rs.length > 2
    · rw [if_pos hlen] at h; simp at h
    · rw [if_neg hlen] at h
      refine ⟨rs, rfl, by omega, ?_⟩
      generalize (sortBy (·.1) rs).map (·.2) = s at h
      rcases s with _ | ⟨a, _ | ⟨b, _ | ⟨c, r⟩⟩⟩
      · simp only [Except.ok.injEq] at h; simp [pick, ← h]
      · simp only [Except.ok.injEq] at h; simp [pick, ← h]
      · simp only [pick]
        simp only at h
        by_cases hc : (rightd && gapType (node f ks) == .source) = true
        · rw [if_pos hc] at h ⊢; simpa using h.symm
        · rw [if_neg hc] at h ⊢; simpa using h.symm
      · simp only [Except.ok.injEq] at h; simp [pick, ← h]

theorem discoOrderK_perm (rightd : Bool) : ∀ (ks : List Tree) (rs : List (Nat × List Nat)),
    (∀ k ∈ ks, ∀ l, discoOrder rightd k = .ok l → l.Perm k.leafNums) →
    discoOrderK rightd ks = .ok rs → (rs.flatMap (·.2)).Perm (ks.flatMap leafNums)
  | [], rs, _, h => by
    rw [discoOrderK_nil] at h
    simp only [Except.ok.injEq] at h
    subst h; simp
  | t :: ts, rs, ih, h => by
    obtain ⟨a, b, h1, h2, rfl⟩ := discoOrderK_cons_ok rightd t ts rs h
    simp only [List.flatMap_cons]
    exact (ih t List.mem_cons_self a h1).append
      (discoOrderK_perm rightd ts b (fun k hk => ih k (List.mem_cons_of_mem _ hk)) h2)

theorem discoOrderK_length (rightd : Bool) : ∀ (ks : List Tree) (rs : List (Nat × List Nat)),
    discoOrderK rightd ks = .ok rs → rs.length = ks.length
  | [], rs, h => by
    rw [discoOrderK_nil] at h
    simp only [Except.ok.injEq] at h
    subst h; rfl
  | t :: ts, rs, h => by
    obtain ⟨a, b, _, h2, rfl⟩ := discoOrderK_cons_ok rightd t ts rs h
    simp [discoOrderK_length rightd ts b h2]

/-- the continuous reordering is a permutation of the tokens -/
theorem discoOrder_perm (rightd : Bool) (t : Tree) : ∀ l, discoOrder rightd t = .ok l → l.Perm t.leafNums := by
  induction t using tree_ind with
  | hl n f =>
    intro l h
    rw [discoOrder_leaf] at h
    simp only [Except.ok.injEq] at h
    subst h
    rw [leafNums_leaf]
  | hn f ks ih =>
    intro l h
    obtain ⟨rs, h1, hlen, rfl⟩ := discoOrder_node_ok rightd f ks l h
    rw [leafNums_node]
    refine (pick_perm _ _ (by simpa [sortBy_length] using hlen)).trans ?_
    have : ((sortBy (·.1) rs).map (·.2)).flatten = (sortBy (·.1) rs).flatMap (·.2) := by
      simp [List.flatMap]
    rw [this]
    exact ((sortBy_perm (·.1) rs).flatMap_right _).trans (discoOrderK_perm rightd ks rs ih h1)

/-- a successfully reordered tree is at most binary everywhere -/
theorem discoOrder_ok_binary (rightd : Bool) (t : Tree) : ∀ l, discoOrder rightd t = .ok l →
    ∀ s ∈ t.subtrees, s.kids.length ≤ 2 := by
  induction t using tree_ind with
  | hl n f => intro l _ s hs; simp [subtrees] at hs; subst hs; simp [kids]
  | hn f ks ih =>
    intro l h s hs
    obtain ⟨rs, h1, hlen, _⟩ := discoOrder_node_ok rightd f ks l h
    rcases (mem_subtrees_node f ks s).1 hs with rfl | ⟨k, hk, hsk⟩
    · simpa [kids, discoOrderK_length rightd ks rs h1] using hlen
    · have hall : ∀ (ks : List Tree) (rs : List (Nat × List Nat)), discoOrderK rightd ks = .ok rs →
          ∀ k ∈ ks, ∃ a, discoOrder rightd k = .ok a := by
        intro ks
        induction ks with
        | nil => intro _ _ k hk; simp at hk
        | cons t ts iht =>
          intro rs h k hk
          obtain ⟨a, b, h1, h2, _⟩ := discoOrderK_cons_ok rightd t ts rs h
          rcases List.mem_cons.1 hk with rfl | hk
          · exact ⟨a, h1⟩
          · exact iht b h2 k hk
      obtain ⟨a, ha⟩ := hall ks rs h1 k hk
      exact ih k hk a ha s hsk

theorem discoOrderK_id (rightd : Bool) : ∀ (ks : List Tree) (rs : List (Nat × List Nat)),
    (∀ k ∈ ks, ∀ l, discoOrder rightd k = .ok l → l = yield k) →
    discoOrderK rightd ks = .ok rs → rs = ks.map fun k => (leftmost k, yield k)
  | [], rs, _, h => by
    rw [discoOrderK_nil] at h
    simp only [Except.ok.injEq] at h
    subst h; simp
  | t :: ts, rs, ih, h => by
    obtain ⟨a, b, h1, h2, rfl⟩ := discoOrderK_cons_ok rightd t ts rs h
    rw [ih t List.mem_cons_self a h1,
      discoOrderK_id rightd ts b (fun k hk => ih k (List.mem_cons_of_mem _ hk)) h2]
    simp

/-- no child with a gap: the node is never a gap `source` -/
theorem gapType_ne_source (f : Fields) (ks : List Tree) (h : ∀ k ∈ ks, gapDegreeNode k = 0) :
    (gapType (node f ks) == GapType.source) = false := by
  have hany : ks.any (fun k => !k.kids.isEmpty && hasGaps k) = false := by
    rw [List.any_eq_false]
    intro k hk
    simp [hasGaps, h k hk]
  simp only [gapType, hany]
  split
  · rfl
  · split <;> rfl

/-- the yield of a node whose children are gap-free is the concatenation of the ordered children's yields -/
theorem yield_node_cont (f : Fields) (ks : List Tree) (hg : TT.Lemmas.Trans.Good (node f ks)) :
    yield (node f ks) = (sortBy leftmost ks).flatMap yield := by
  unfold yield
  rw [TT.Lemmas.Trans.terminals_node_cont f ks
    (fun k hk => noEmpty_leafNums_ne_nil k (hg.kid hk).1)
    (by have := hg.2.1; rwa [leafNums_node] at this)
    (fun k hk => TT.Lemmas.Trans.continuous_gap k (hg.kid hk).2.2), List.map_flatMap]

/-- on a continuous tree with distinct tokens and no childless constituent the reordering is the identity -/
theorem discoOrder_id_of_good (rightd : Bool) (t : Tree) : TT.Lemmas.Trans.Good t →
    ∀ l, discoOrder rightd t = .ok l → l = yield t := by
  induction t using tree_ind with
  | hl n f =>
    intro _ l h
    rw [discoOrder_leaf] at h
    simp only [Except.ok.injEq] at h
    subst h
    simp [yield, terminals, leaves, sortBy, insertBy, num]
  | hn f ks ih =>
    intro hg l h
    obtain ⟨rs, h1, hlen, rfl⟩ := discoOrder_node_ok rightd f ks l h
    have hrs := discoOrderK_id rightd ks rs (fun k hk => ih k hk (hg.kid hk)) h1
    have hsrc := gapType_ne_source f ks (fun k hk => by
      have := TT.Lemmas.Trans.continuous_gap k (hg.kid hk).2.2
      cases k <;> simp_all [gapDegreeNode])
    rw [hsrc, Bool.and_false, pick_false _ (by simpa [sortBy_length] using hlen), hrs,
      sortBy_map_keyed leftmost yield ks, yield_node_cont f ks hg]
    simp [List.flatMap]

/-! ### errors of the bracket writer -/

theorem getLabel_error (o : OutOpts) (t : Tree) (e : Err) (h : getLabel o t = .error e) : e = .keyError := by
  unfold getLabel at h
  simp only [bind, Except.bind, pure, Except.pure, throw, throwThe, MonadExceptOf.throw] at h
  grind

theorem getLabel_ok_of_plain (o : OutOpts) (t : Tree) (h1 : o.markHeads = false) (h2 : o.splitMarking = false)
    (h3 : o.splitNumbering = false) : ∃ l, getLabel o t = .ok l := by
  unfold getLabel
  simp [h1, h2, h3, bind, Except.bind, pure, Except.pure]

mutual
/-- every failure of the subtree writer is a failure of `getLabel` on some node -/
theorem bracketsSub_error_src (o : OutOpts) : ∀ (er : Bool) (t : Tree) (e : Err),
    bracketsSub o er t = .error e → ∃ t', getLabel o t' = .error e
  | er, .leaf n f, e, h => by
    rw [bracketsSub] at h
    cases hl : getLabel o (leaf n (replaceParensFields f)) with
    | ok l => simp [hl] at h
    | error e' =>
      simp only [hl, Except.error.injEq] at h
      exact ⟨_, h ▸ hl⟩
  | er, .node f ks, e, h => by
    rw [bracketsSub] at h
    by_cases hk : ks.isEmpty = true
    · rw [if_pos hk] at h
      cases hl : getLabel o (node (replaceParensFields f) []) with
      | ok l => simp [hl] at h
      | error e' =>
        simp only [hl, Except.error.injEq] at h
        exact ⟨_, h ▸ hl⟩
    · rw [if_neg hk] at h
      cases hl : (if er = true then Except.ok [] else getLabel o (node f ks)) with
      | error e' =>
        rw [hl] at h
        simp only [Except.error.injEq] at h
        subst h
        cases er
        · exact ⟨_, by simpa using hl⟩
        · simp at hl
      | ok l =>
        cases hp : bracketsKids o ks with
        | ok parts => rw [hl, hp] at h; simp at h
        | error e' =>
          rw [hl, hp] at h
          simp only [Except.error.injEq] at h
          subst h
          exact bracketsKids_error_src o ks _ hp
theorem bracketsKids_error_src (o : OutOpts) : ∀ (ks : List Tree) (e : Err),
    bracketsKids o ks = .error e → ∃ t', getLabel o t' = .error e
  | [], e, h => by simp [bracketsKids] at h
  | t :: ts, e, h => by
    rw [bracketsKids] at h
    cases ha : bracketsSub o false t with
    | error e' =>
      rw [ha] at h
      simp only [Except.error.injEq] at h
      subst h
      exact bracketsSub_error_src o false t _ ha
    | ok a =>
      cases hb : bracketsKids o ts with
      | ok b => rw [ha, hb] at h; simp at h
      | error e' =>
        rw [ha, hb] at h
        simp only [Except.error.injEq] at h
        subst h
        exact bracketsKids_error_src o ts _ hb
end

/-- the only way the subtree writer fails is a missing `head`/`split`/`blockNumber` key -/
theorem bracketsSub_error (o : OutOpts) (er : Bool) (t : Tree) (e : Err)
    (h : bracketsSub o er t = .error e) : e = .keyError := by
  obtain ⟨t', ht'⟩ := bracketsSub_error_src o er t e h
  exact getLabel_error o t' e ht'

/-- without head/split decorations the subtree writer never fails -/
theorem bracketsSub_ne_error_of_plain (o : OutOpts) (h1 : o.markHeads = false) (h2 : o.splitMarking = false)
    (h3 : o.splitNumbering = false) (er : Bool) (t : Tree) (e : Err) : bracketsSub o er t ≠ .error e := by
  intro h
  obtain ⟨t', ht'⟩ := bracketsSub_error_src o er t e h
  obtain ⟨l, hl⟩ := getLabel_ok_of_plain o t' h1 h2 h3
  rw [hl] at ht'
  cases ht'

end TT.Lemmas.Analysis
