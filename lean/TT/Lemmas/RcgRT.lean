/-
  Helper lemmas for C09Rcg: the RCG clause writer `rcgLine` and the tool's own reader `readRcgLine`.
  String level (`labelStripFanout`, `splitPred`, `argElems`, `splitOnChar`/`joinWith`), the reader's
  variable matching as a fold over the LHS variables, the writer's numbering, and their combination.
-/
import TT.Spec.Grammar
import TT.Lemmas.GramOut
import TT.Lemmas.GramBin
import TT.Lemmas.Sort
namespace TT.Lemmas.RcgRT
open TT TT.Spec TT.Lemmas.GramOut TT.Lemmas.GramBin

/-! ### predicates: label, arity, parenthesised arguments -/


theorem dropWhile_digits_append (d s : Str) (hd : ∀ c ∈ d, c.isDigit = true) :
    (d ++ s).dropWhile Char.isDigit = s.dropWhile Char.isDigit := by
  induction d with
  | nil => rfl
  | cons c r ih =>
    rw [List.cons_append, List.dropWhile_cons_of_pos (hd c (by simp))]
    exact ih (fun x hx => hd x (by simp [hx]))

theorem labelStripFanout_append' (s : Str) (n : Nat)
    (hl : ∀ c, s.getLast? = some c → c.isDigit = false) : labelStripFanout (s ++ natToStr n) = s := by
  unfold labelStripFanout
  rw [List.reverse_append, dropWhile_digits_append _ _ (fun c hc => natToStr_isDigit n c (by simpa using hc))]
  cases h : s.reverse with
  | nil => 
    have : s = [] := by simpa using h
    simp [this]
  | cons c r =>
    have hc : s.getLast? = some c := by
      rw [List.getLast?_eq_head?_reverse, h]; rfl
    rw [List.dropWhile_cons_of_neg (by simp [hl c hc]), ← h, List.reverse_reverse]

theorem splitFirst_append (c : Char) (a b : Str) (ha : c ∉ a) : splitFirst c (a ++ c :: b) = some (a, b) := by
  induction a with
  | nil => simp [splitFirst]
  | cons x xs ih =>
    simp only [List.mem_cons, not_or] at ha
    have hx : ¬ x = c := fun e => ha.1 e.symm
    simp [splitFirst, hx, ih ha.2]

theorem splitPred_pred' (s : Str) (n : Nat) (args : Str)
    (hl : ∀ c, s.getLast? = some c → c.isDigit = false) (hp : '(' ∉ s) :
    splitPred (s ++ natToStr n ++ ['('] ++ args ++ [')']) = (s, args) := by
  unfold splitPred
  have : s ++ natToStr n ++ ['('] ++ args ++ [')'] = (s ++ natToStr n) ++ '(' :: (args ++ [')']) := by simp
  rw [this, splitFirst_append]
  · simp [labelStripFanout_append' s n hl]
  · intro hm
    rcases List.mem_append.1 hm with h | h
    · exact hp h
    · exact natToStr_not_mem _ (by decide) n h

/-! ### `argElems` -/


/-- a bracketed variable -/
def br (n : Nat) : Str := ['['] ++ natToStr n ++ [']']

/-- the string between the outer brackets of a non-empty argument -/
def innerOf (n : Nat) (ns : List Nat) : Str := natToStr n ++ (ns.map fun m => [']', '['] ++ natToStr m).flatten

theorem flatten_br (n : Nat) (ns : List Nat) :
    ((n :: ns).map br).flatten = '[' :: (innerOf n ns ++ [']']) := by
  induction ns generalizing n with
  | nil => simp [br, innerOf]
  | cons m r ih =>
    have := ih m
    simp only [List.map_cons, List.flatten_cons] at this ⊢
    rw [this]
    simp [br, innerOf]

theorem go_digits_end (d cur : Str) (hd : ∀ c ∈ d, c.isDigit = true) :
    argElems.go d cur = [cur.reverse ++ d] := by
  induction d generalizing cur with
  | nil => simp [argElems.go]
  | cons c r ih =>
    have hc : c ≠ ']' := by
      intro e; have := hd c (by simp); rw [e] at this; revert this; decide
    rw [argElems.go]
    · rw [ih (c :: cur) (fun x hx => hd x (by simp [hx]))]; simp
    · intro r' e; exact absurd e hc

theorem go_digits_sep (d cur rest : Str) (hd : ∀ c ∈ d, c.isDigit = true) :
    argElems.go (d ++ ']' :: '[' :: rest) cur = (cur.reverse ++ d) :: argElems.go rest [] := by
  induction d generalizing cur with
  | nil => simp [argElems.go]
  | cons c r ih =>
    have hc : c ≠ ']' := by
      intro e; have := hd c (by simp); rw [e] at this; revert this; decide
    rw [List.cons_append, argElems.go]
    · rw [ih (c :: cur) (fun x hx => hd x (by simp [hx]))]; simp
    · intro r' e; exact absurd e hc

theorem go_innerOf (n : Nat) (ns : List Nat) : argElems.go (innerOf n ns) [] = (n :: ns).map natToStr := by
  induction ns generalizing n with
  | nil => simp [innerOf, go_digits_end _ _ (natToStr_isDigit n)]
  | cons m r ih =>
    have : innerOf n (m :: r) = natToStr n ++ ']' :: '[' :: innerOf m r := by simp [innerOf]
    rw [this, go_digits_sep _ _ _ (natToStr_isDigit n), ih m]; simp

theorem argElems_vars' (ns : List Nat) (h : ns ≠ []) :
    argElems ((ns.map br).flatten) = ns.map natToStr := by
  cases ns with
  | nil => exact absurd rfl h
  | cons n r =>
    rw [flatten_br]
    unfold argElems
    simp only [List.drop_succ_cons, List.drop_zero, List.dropLast_concat]
    exact go_innerOf n r



/-! ### the reader -/

theorem findSome?_range'_first {β} (f : Nat → Option β) (b : β) (i : Nat) (h1 : f i = some b) :
    ∀ (len s : Nat), s ≤ i → i < s + len → (∀ i', s ≤ i' → i' < i → f i' = none) →
      (List.range' s len).findSome? f = some b
  | 0, s, h, h', _ => by omega
  | len + 1, s, h, h', h0 => by
    rw [List.range'_succ, List.findSome?_cons]
    by_cases e : s = i
    · subst e; rw [h1]
    · rw [h0 s (Nat.le_refl _) (by omega)]
      exact findSome?_range'_first f b i h1 len (s + 1) (by omega) (by omega) (fun i' a b => h0 i' (by omega) b)

theorem findSome?_range_first {β} (f : Nat → Option β) (b : β) (K i : Nat) (hi : i < K)
    (h0 : ∀ i', i' < i → f i' = none) (h1 : f i = some b) : (List.range K).findSome? f = some b := by
  rw [List.range_eq_range']
  exact findSome?_range'_first f b i h1 K 0 (Nat.zero_le _) (by omega) (fun i' _ h => h0 i' h)

/-- stripping the brackets of an argument -/
def strip (s : Str) : Str := (s.drop 1).dropLast

theorem strip_def (s : Str) : (s.drop 1).dropLast = strip s := rfl

theorem strip_br (n : Nat) : strip (br n) = natToStr n := by simp [strip, br]

/-- what the reader needs to know about the RHS arguments: the argument at `(i, p)` carries the number `n`
    exactly if the `n`-th variable of the LHS is `(i, p)` -/
structure RhsOK (rhsArgs : List (List Str)) (vars : List Var) : Prop where
  hit : ∀ (n : Nat) (v : Var), vars[n]? = some v → 0 ≤ v.1 →
    ((rhsArgs[v.1.toNat]?.getD []).length == v.2) = false ∧
      strip ((rhsArgs[v.1.toNat]?.getD [])[v.2]?.getD []) = natToStr n
  only : ∀ (i p n : Nat), i < rhsArgs.length → ((rhsArgs[i]?.getD []).length == p) = false →
    strip ((rhsArgs[i]?.getD [])[p]?.getD []) = natToStr n → vars[n]? = some ((i : Int), p)

def PosOK (K : Nat) (pos : List Nat) (k : Int → Nat) : Prop :=
  pos.length = K ∧ ∀ i, i < K → pos[i]?.getD 0 = k (i : Int)

theorem matchVar_hit (rhsArgs : List (List Str)) (vars : List Var) (R : RhsOK rhsArgs vars)
    (pos : List Nat) (k : Int → Nat) (hp : PosOK rhsArgs.length pos k) (n : Nat) (v : Var)
    (hv : vars[n]? = some v) (h0 : 0 ≤ v.1) (hK : v.1.toNat < rhsArgs.length) (hj : v.2 = k v.1) :
    matchVar rhsArgs pos (natToStr n) = some (v.1.toNat, v.2) := by
  unfold matchVar
  have hcast : ((v.1.toNat : Nat) : Int) = v.1 := Int.toNat_of_nonneg h0
  apply findSome?_range_first _ _ _ v.1.toNat hK
  · intro i' hi'
    have hpi : pos[i']?.getD 0 = k (i' : Int) := hp.2 i' (by omega)
    simp only [hpi, strip_def]
    by_cases e1 : ((rhsArgs[i']?.getD []).length == k (i' : Int)) = true
    · simp [e1]
    · have e1' : ((rhsArgs[i']?.getD []).length == k (i' : Int)) = false := by simpa using e1
      rw [e1']
      by_cases e2 : strip ((rhsArgs[i']?.getD [])[k (i' : Int)]?.getD []) = natToStr n
      · have := R.only i' _ n (by omega) e1' e2
        rw [hv] at this
        have hv1 : v.1 = (i' : Int) := by rw [Option.some.inj this]
        rw [hv1] at hi'
        simp at hi'
      · simp [e2]
  · have hpi : pos[v.1.toNat]?.getD 0 = v.2 := by rw [hp.2 _ hK, hcast, hj]
    obtain ⟨a, b⟩ := R.hit n v hv h0
    simp only [hpi, strip_def, a, b]
    simp

def rstep (rhsArgs : List (List Str)) (acc : List (Int × Nat) × List Nat) (v : Str) : List (Int × Nat) × List Nat :=
  match matchVar rhsArgs acc.2 v with
  | some (i, p) => (acc.1 ++ [((i : Int), p)], acc.2.set i (p + 1))
  | none => acc

def ostep (rhsArgs : List (List Str)) (acc : Lin × List Nat) (a : Str) : Lin × List Nat :=
  (acc.1 ++ [((argElems a).foldl (rstep rhsArgs) ([], acc.2)).1], ((argElems a).foldl (rstep rhsArgs) ([], acc.2)).2)

theorem readRcgLin_eq (raw : List Str) :
    readRcgLin raw = ((splitOnChar ',' (raw.head?.getD [])).foldl (ostep ((raw.drop 1).map (splitOnChar ',')))
      ([], List.replicate ((raw.drop 1).map (splitOnChar ',')).length 0)).1 := rfl

theorem PosOK_set (K : Nat) (pos : List Nat) (k : Int → Nat) (h : PosOK K pos k) (v : Var) (h0 : 0 ≤ v.1) (hj : v.2 = k v.1) :
    PosOK K (pos.set v.1.toNat (v.2 + 1)) (bumpF k v.1) := by
  refine ⟨by simpa using h.1, ?_⟩
  intro i hi
  rw [List.getElem?_set]
  unfold bumpF
  by_cases e : v.1.toNat = i
  · have hc : (i : Int) = v.1 := by rw [← e]; exact Int.toNat_of_nonneg h0
    have hl : i < pos.length := by rw [h.1]; exact hi
    rw [if_pos e, if_pos hc, if_pos (by rw [e]; exact hl), hc, hj]
    rfl
  · have : ¬ (i : Int) = v.1 := by intro e'; apply e; rw [← e']; simp
    simp [e, this, h.2 i hi]

theorem inner_fold (rhsArgs : List (List Str)) (vars : List Var) (R : RhsOK rhsArgs vars)
    (hvars : ∀ v ∈ vars, 0 ≤ v.1 ∧ v.1.toNat < rhsArgs.length) :
    ∀ (arg : List Var) (n : Nat) (post : List Var) (k : Int → Nat) (pos : List Nat) (acc : List Var),
      vars.drop n = arg ++ post → PosOK rhsArgs.length pos k → idxOK k arg →
      ∃ pos', ((List.range' n arg.length).map natToStr).foldl (rstep rhsArgs) (acc, pos) = (acc ++ arg, pos') ∧
        PosOK rhsArgs.length pos' (after k arg)
  | [], n, post, k, pos, acc, _, hp, _ => ⟨pos, by simp, hp⟩
  | v :: arg, n, post, k, pos, acc, hd, hp, hi => by
    have hvn : vars[n]? = some v := by
      have := congrArg (fun l => l[0]?) hd
      simpa using this
    have hmem : v ∈ vars := List.mem_of_getElem? hvn
    obtain ⟨h0, hK⟩ := hvars v hmem
    have hd' : vars.drop (n + 1) = arg ++ post := by
      have := congrArg (fun l => l.drop 1) hd
      simpa [List.drop_drop] using this
    have hm := matchVar_hit rhsArgs vars R pos k hp n v hvn h0 hK hi.1
    have hcast : ((v.1.toNat : Nat) : Int) = v.1 := Int.toNat_of_nonneg h0
    obtain ⟨pos', e, hp'⟩ := inner_fold rhsArgs vars R hvars arg (n + 1) post (bumpF k v.1)
      (pos.set v.1.toNat (v.2 + 1)) (acc ++ [v]) hd' (PosOK_set _ pos k hp v h0 hi.1) hi.2
    refine ⟨pos', ?_, hp'⟩
    rw [List.length_cons, List.range'_succ, List.map_cons, List.foldl_cons]
    have : rstep rhsArgs (acc, pos) (natToStr n) = (acc ++ [v], pos.set v.1.toNat (v.2 + 1)) := by
      unfold rstep
      simp only [hm, hcast]
    rw [this, e]
    simp

/-- the argument strings of the LHS, numbering from `n` -/
def lhsStrs : Nat → Lin → List Str
  | _, [] => []
  | n, a :: r => ((List.range' n a.length).map br).flatten :: lhsStrs (n + a.length) r


theorem argElems_lhsStr (n len : Nat) (h : len ≠ 0) :
    argElems ((List.range' n len).map br).flatten = (List.range' n len).map natToStr :=
  argElems_vars' _ (by simpa using h)

theorem outer_fold (rhsArgs : List (List Str)) (vars : List Var) (R : RhsOK rhsArgs vars)
    (hvars : ∀ v ∈ vars, 0 ≤ v.1 ∧ v.1.toNat < rhsArgs.length) :
    ∀ (rest : Lin) (n : Nat) (k : Int → Nat) (pos : List Nat) (accL : Lin),
      vars.drop n = rest.flatten → PosOK rhsArgs.length pos k → idxOK k rest.flatten → (∀ a ∈ rest, a ≠ []) →
      ((lhsStrs n rest).foldl (ostep rhsArgs) (accL, pos)).1 = accL ++ rest
  | [], n, k, pos, accL, _, _, _, _ => by simp [lhsStrs]
  | a :: rest, n, k, pos, accL, hd, hp, hi, hne => by
    rw [List.flatten_cons] at hd hi
    rw [idxOK_append] at hi
    have ha : a.length ≠ 0 := by simpa using hne a (by simp)
    obtain ⟨pos', e, hp'⟩ := inner_fold rhsArgs vars R hvars a n rest.flatten k pos [] hd hp hi.1
    have hd' : vars.drop (n + a.length) = rest.flatten := by
      have := congrArg (fun l => l.drop a.length) hd
      simpa [List.drop_drop] using this
    have := outer_fold rhsArgs vars R hvars rest (n + a.length) (after k a) pos' (accL ++ [a]) hd' hp' hi.2
      (fun b hb => hne b (by simp [hb]))
    rw [lhsStrs, List.foldl_cons]
    have hs : ostep rhsArgs (accL, pos) ((List.range' n a.length).map br).flatten = (accL ++ [a], pos') := by
      unfold ostep
      simp only [argElems_lhsStr n a.length ha, e, List.nil_append]
    rw [hs, this]
    simp

theorem PosOK_init (K : Nat) : PosOK K (List.replicate K 0) (fun _ => 0) := by
  refine ⟨by simp, ?_⟩
  intro i hi
  simp [hi]

/-! ### `splitOnChar` / `joinWith` -/

theorem splitOnChar_append_sep (c : Char) (a rest : Str) (ha : c ∉ a) :
    splitOnChar c (a ++ c :: rest) = a :: splitOnChar c rest := by
  induction a with
  | nil => simp [splitOnChar]
  | cons x xs ih =>
    simp only [List.mem_cons, not_or] at ha
    have hx : ¬ x = c := fun e => ha.1 e.symm
    simp [splitOnChar, hx, ih ha.2]

theorem splitOnChar_joinWith (c : Char) (l : List Str) (hl : l ≠ []) (h : ∀ s ∈ l, c ∉ s) :
    splitOnChar c (joinWith [c] l) = l := by
  induction l with
  | nil => exact absurd rfl hl
  | cons a r ih =>
    cases r with
    | nil => simpa [joinWith] using splitOnChar_not_mem c a (h a (by simp))
    | cons b r =>
      rw [joinWith_cons_ne _ _ _ (by simp), List.append_assoc, List.singleton_append,
        splitOnChar_append_sep c a _ (h a (by simp)), ih (by simp) (fun s hs => h s (by simp [hs]))]

theorem splitOnChar_nil (c : Char) : splitOnChar c [] = [[]] := rfl

/-! ### the writer's numbering -/

def numArgs : Nat → Lin → List (List (Var × Nat))
  | _, [] => []
  | n, a :: r => a.zipIdx n :: numArgs (n + a.length) r

def wstep (acc : List (List ((Int × Nat) × Nat)) × Nat) (arg : List (Int × Nat)) : List (List ((Int × Nat) × Nat)) × Nat :=
  (acc.1 ++ [arg.zipIdx.map fun (v, i) => (v, acc.2 + i)], acc.2 + arg.length)

theorem foldl_wstep (lin : Lin) (out : List (List (Var × Nat))) (n : Nat) :
    (lin.foldl wstep (out, n)).1 = out ++ numArgs n lin := by
  induction lin generalizing out n with
  | nil => simp [numArgs]
  | cons a r ih =>
    rw [List.foldl_cons]
    have : wstep (out, n) a = (out ++ [a.zipIdx n], n + a.length) := by
      unfold wstep
      rw [List.zipIdx_eq_map_add (i := n)]
    rw [this, ih, numArgs]
    simp

theorem numArgs_flatten (lin : Lin) (n : Nat) : (numArgs n lin).flatten = lin.flatten.zipIdx n := by
  induction lin generalizing n with
  | nil => rfl
  | cons a r ih => rw [numArgs, List.flatten_cons, List.flatten_cons, List.zipIdx_append, ih]

theorem numArgs_strs (lin : Lin) (n : Nat) :
    (numArgs n lin).map (fun arg => (arg.map fun (x : Var × Nat) => br x.2).flatten) = lhsStrs n lin := by
  induction lin generalizing n with
  | nil => rfl
  | cons a r ih =>
    rw [numArgs, List.map_cons, ih, lhsStrs]
    congr 2
    rw [← List.zipIdx_map_snd n a, List.map_map]
    rfl


/-- the variables of RHS element `i` with their numbers, in the order the writer lists them -/
def rhsVs (lin : Lin) (i : Nat) : List (Var × Nat) :=
  sortBy (fun (x : (Int × Nat) × Nat) => x.1.2) (lin.flatten.zipIdx.filter fun x => x.1.1 == (i : Int))

def rhsStr (lin : Lin) (i : Nat) : Str := joinWith [','] ((rhsVs lin i).map fun x => br x.2)

def lhsPred (func : Func) (lin : Lin) : Str :=
  (func.head?.getD []) ++ natToStr (max lin.length 1) ++ ['('] ++ joinWith [','] (lhsStrs 0 lin) ++ [')']

def rhsPred (func : Func) (lin : Lin) (i : Nat) : Str :=
  (func[i + 1]?.getD []) ++ natToStr (rhsVs lin i).length ++ ['('] ++ rhsStr lin i ++ [')']

theorem cPrefix : "C:".toList = ['C', ':'] := rfl
theorem arrow_eq : Gen.G_RCG_RULEARROW = ['-', '-', '>'] := rfl

theorem rcgLine_eq (func : Func) (lin : Lin) (count : Nat) :
    rcgLine func lin count =
      ['C', ':'] ++ natToStr count ++ sp ++ lhsPred func lin ++ sp ++ ['-', '-', '>'] ++ sp ++
        unwords ((List.range (func.length - 1)).map (rhsPred func lin)) := by
  have h1 : (lin.foldl wstep ([], 0)).1 = numArgs 0 lin := by rw [foldl_wstep]; simp
  have h2 := numArgs_flatten lin 0
  have h3 := numArgs_strs lin 0
  unfold rcgLine
  rw [cPrefix, arrow_eq]
  unfold lhsPred rhsPred rhsStr rhsVs
  rw [← h3, ← h2, ← h1]
  rfl

theorem strip_nil : strip [] = [] := rfl

theorem comma_not_mem_br (n : Nat) : ',' ∉ br n := by
  intro h
  simp only [br, List.mem_append, List.mem_singleton] at h
  rcases h with (h | h) | h
  · revert h; decide
  · exact natToStr_not_mem _ (by decide) n h
  · revert h; decide

/-- the comma-separated arguments of one RHS predicate -/
theorem rhsArg_spec (vs : List (Var × Nat)) :
    (∀ p x, vs[p]? = some x →
      ((splitOnChar ',' (joinWith [','] (vs.map fun x => br x.2))).length == p) = false ∧
      strip ((splitOnChar ',' (joinWith [','] (vs.map fun x => br x.2)))[p]?.getD []) = natToStr x.2) ∧
    (∀ p n, ((splitOnChar ',' (joinWith [','] (vs.map fun x => br x.2))).length == p) = false →
      strip ((splitOnChar ',' (joinWith [','] (vs.map fun x => br x.2)))[p]?.getD []) = natToStr n →
      ∃ x, vs[p]? = some x ∧ x.2 = n) := by
  by_cases hvs : vs = []
  · subst hvs
    refine ⟨by simp, ?_⟩
    intro p n _ h
    simp only [List.map_nil, joinWith, splitOnChar_nil] at h
    have : ([[]] : List Str)[p]?.getD [] = [] := by cases p <;> simp
    rw [this, strip_nil] at h
    exact absurd h.symm (natToStr_ne_nil n)
  · have hA : splitOnChar ',' (joinWith [','] (vs.map fun x => br x.2)) = vs.map fun x => br x.2 :=
      splitOnChar_joinWith ',' _ (by simpa using hvs) (by
        intro s hs
        obtain ⟨x, _, rfl⟩ := List.mem_map.1 hs
        exact comma_not_mem_br x.2)
    rw [hA]
    refine ⟨?_, ?_⟩
    · intro p x hx
      have hp : p < vs.length := by
        rcases Nat.lt_or_ge p vs.length with h | h
        · exact h
        · rw [List.getElem?_eq_none h] at hx; cases hx
      refine ⟨by simp; omega, ?_⟩
      rw [List.getElem?_map, hx]
      exact strip_br x.2
    · intro p n _ h
      rw [List.getElem?_map] at h
      cases hx : vs[p]? with
      | none =>
        rw [hx] at h
        exact absurd h.symm (natToStr_ne_nil n)
      | some x =>
        rw [hx] at h
        simp only [Option.map_some, Option.getD_some, strip_br] at h
        exact ⟨x, rfl, natToStr_inj h⟩

/-- under `wfLin` the variables of RHS element `i` are listed in the order of the LHS -/
theorem rhsVs_eq (lin : Lin) (fo : List Nat) (h : wfLin lin fo = true) (i : Nat) (hi : i < fo.length) :
    rhsVs lin i = lin.flatten.zipIdx.filter fun x => x.1.1 == (i : Int) := by
  obtain ⟨_, h2, _⟩ := wfLin_parts lin fo h
  apply sortBy_of_sorted
  have hm : (lin.flatten.zipIdx.filter fun x => x.1.1 == (i : Int)).map (fun x => x.1.2) =
      List.range (fo[i]?.getD 0) := by
    rw [← h2 i hi]
    have : lin.flatten = lin.flatten.zipIdx.map (·.1) := (List.zipIdx_map_fst 0 _).symm
    conv => rhs; rw [this]
    rw [List.filter_map, List.map_map]
    rfl
  have := List.pairwise_lt_range (n := fo[i]?.getD 0)
  rw [← hm, List.pairwise_map] at this
  exact this.imp (fun h => Nat.le_of_lt h)

theorem filt_get (vars : List Var) (i m : Nat)
    (hm : (vars.zipIdx.filter fun x => x.1.1 == (i : Int)).map (fun x => x.1.2) = List.range m) :
    ∀ (p : Nat) (x : Var × Nat), (vars.zipIdx.filter fun x => x.1.1 == (i : Int))[p]? = some x → vars[x.2]? = some ((i : Int), p) := by
  intro p x hx
  have hmem : x ∈ vars.zipIdx.filter fun x => x.1.1 == (i : Int) := List.mem_of_getElem? hx
  rw [List.mem_filter] at hmem
  have h1 : vars[x.2]? = some x.1 := List.mem_zipIdx_iff_getElem?.1 hmem.1
  have h2 : x.1.1 = (i : Int) := by simpa using hmem.2
  have h3 : x.1.2 = p := by
    have := congrArg (fun l => l[p]?) hm
    simp only [List.getElem?_map, hx, Option.map_some] at this
    have hp : p < m := by
      rcases Nat.lt_or_ge p m with h | h
      · exact h
      · rw [List.getElem?_eq_none (by simpa using h)] at this; cases this
    rw [List.getElem?_range hp] at this
    exact Option.some.inj this
  rw [h1, ← h2, ← h3]

theorem filt_find (vars : List Var) (i m : Nat)
    (hm : (vars.zipIdx.filter fun x => x.1.1 == (i : Int)).map (fun x => x.1.2) = List.range m) :
    ∀ (n p : Nat), vars[n]? = some ((i : Int), p) →
      (vars.zipIdx.filter fun x => x.1.1 == (i : Int))[p]? = some (((i : Int), p), n) := by
  intro n p hv
  have hmem : (((i : Int), p), n) ∈ vars.zipIdx.filter fun x => x.1.1 == (i : Int) := by
    rw [List.mem_filter]
    exact ⟨List.mem_zipIdx_iff_getElem?.2 hv, by simp⟩
  obtain ⟨p', hp'⟩ := List.mem_iff_getElem?.1 hmem
  have := filt_get vars i m hm p' _ hp'
  simp only [hv, Option.some.injEq, Prod.mk.injEq, true_and] at this
  subst this; exact hp'

theorem rhsOK_of_wf (lin : Lin) (fo : List Nat) (h : wfLin lin fo = true) :
    RhsOK ((List.range fo.length).map fun i => splitOnChar ',' (rhsStr lin i)) lin.flatten := by
  obtain ⟨h1, h2, _⟩ := wfLin_parts lin fo h
  have hm : ∀ i, i < fo.length →
      (lin.flatten.zipIdx.filter fun x => x.1.1 == (i : Int)).map (fun x => x.1.2) = List.range (fo[i]?.getD 0) := by
    intro i hi
    rw [← h2 i hi]
    have : lin.flatten = lin.flatten.zipIdx.map (·.1) := (List.zipIdx_map_fst 0 _).symm
    conv => rhs; rw [this]
    rw [List.filter_map, List.map_map]
    rfl
  have hget : ∀ i, i < fo.length →
      (((List.range fo.length).map fun i => splitOnChar ',' (rhsStr lin i))[i]?.getD []) =
        splitOnChar ',' (joinWith [','] ((lin.flatten.zipIdx.filter fun x => x.1.1 == (i : Int)).map fun x => br x.2)) := by
    intro i hi
    rw [List.getElem?_map, List.getElem?_range hi]
    simp only [Option.map_some, Option.getD_some, rhsStr, rhsVs_eq lin fo h i hi]
  constructor
  · intro n v hv h0
    have hmem : v ∈ lin.flatten := List.mem_of_getElem? hv
    have hK := (h1 v hmem).2
    have hcast : ((v.1.toNat : Nat) : Int) = v.1 := Int.toNat_of_nonneg h0
    rw [hget _ hK]
    have hv' : lin.flatten[n]? = some (((v.1.toNat : Nat) : Int), v.2) := by rw [hcast]; exact hv
    have := filt_find lin.flatten v.1.toNat _ (hm _ hK) n v.2 hv'
    exact (rhsArg_spec (lin.flatten.zipIdx.filter fun x => x.1.1 == ((v.1.toNat : Nat) : Int))).1 v.2 ((((v.1.toNat : Nat) : Int), v.2), n) this
  · intro i p n hi ha hb
    have hi' : i < fo.length := by simpa using hi
    rw [hget _ hi'] at ha hb
    obtain ⟨x, hx, rfl⟩ := (rhsArg_spec (lin.flatten.zipIdx.filter fun x => x.1.1 == (i : Int))).2 p n ha hb
    exact filt_get lin.flatten i _ (hm i hi') p x hx

/-- characters of argument strings (apart from the comma) -/
def ArgCh (c : Char) : Prop := c = '[' ∨ c = ']' ∨ c.isDigit = true

theorem ArgCh_noSpace (c : Char) (h : ArgCh c) : pyIsSpace c = false := by
  rcases h with rfl | rfl | h
  · decide
  · decide
  · exact isDigit_not_space c h

theorem ArgCh_ne_comma (c : Char) (h : ArgCh c) : c ≠ ',' := by
  rcases h with rfl | rfl | h
  · decide
  · decide
  · intro e; rw [e] at h; revert h; decide

theorem mem_br (n : Nat) (c : Char) (h : c ∈ br n) : ArgCh c := by
  simp only [br, List.mem_append, List.mem_singleton] at h
  rcases h with (h | h) | h
  · exact Or.inl h
  · exact Or.inr (Or.inr (natToStr_isDigit n c h))
  · exact Or.inr (Or.inl h)

theorem mem_flatten_br (ns : List Nat) (c : Char) (h : c ∈ (ns.map br).flatten) : ArgCh c := by
  obtain ⟨s, hs, hc⟩ := List.mem_flatten.1 h
  obtain ⟨n, _, rfl⟩ := List.mem_map.1 hs
  exact mem_br n c hc

theorem mem_lhsStrs : ∀ (lin : Lin) (n : Nat), ∀ s ∈ lhsStrs n lin, ∀ c ∈ s, ArgCh c
  | [], _, s, hs, _, _ => by simp [lhsStrs] at hs
  | a :: r, n, s, hs, c, hc => by
    simp only [lhsStrs, List.mem_cons] at hs
    rcases hs with rfl | hs
    · exact mem_flatten_br _ c hc
    · exact mem_lhsStrs r _ s hs c hc

theorem lhsStrs_ne_nil (lin : Lin) (n : Nat) (h : lin ≠ []) : lhsStrs n lin ≠ [] := by
  cases lin with
  | nil => exact absurd rfl h
  | cons a r => simp [lhsStrs]

/-- the reader's linearization of the written argument strings -/
theorem readRcgLin_written (lin : Lin) (fo : List Nat) (h : wfLin lin fo = true) (hne : lin ≠ []) :
    readRcgLin (joinWith [','] (lhsStrs 0 lin) :: (List.range fo.length).map (rhsStr lin)) = lin := by
  obtain ⟨h1, _, _⟩ := wfLin_parts lin fo h
  have W := WF'_of_wfLin lin fo h
  rw [readRcgLin_eq]
  simp only [List.head?_cons, Option.getD_some, List.drop_succ_cons, List.drop_zero, List.map_map]
  rw [splitOnChar_joinWith ',' _ (lhsStrs_ne_nil lin 0 hne)
    (fun s hs hc => ArgCh_ne_comma _ (mem_lhsStrs lin 0 s hs _ hc) rfl)]
  have R := rhsOK_of_wf lin fo h
  have hlen : ((List.range fo.length).map fun i => splitOnChar ',' (rhsStr lin i)).length = fo.length := by simp
  have := outer_fold _ lin.flatten R (by rw [hlen]; exact h1) lin 0 (fun _ => 0)
    (List.replicate ((List.range fo.length).map fun i => splitOnChar ',' (rhsStr lin i)).length 0) [] rfl
    (PosOK_init _) W.idx W.ne
  simp only [List.nil_append, List.length_map, List.length_range] at this ⊢
  exact this

/-- what the clause format needs of a label -/
structure LabOK (s : Str) : Prop where
  noSp : ∀ c ∈ s, pyIsSpace c = false
  noPar : '(' ∉ s
  last : ∀ c, s.getLast? = some c → c.isDigit = false

def cTok (count : Nat) : Str := ['C', ':'] ++ natToStr count

theorem rcgLine_eq' (func : Func) (lin : Lin) (count : Nat) :
    rcgLine func lin count =
      cTok count ++ (sp ++ (lhsPred func lin ++ (sp ++ (['-', '-', '>'] ++ (sp ++
        unwords ((List.range (func.length - 1)).map (rhsPred func lin))))))) := by
  rw [rcgLine_eq, cTok]
  simp only [List.append_assoc]

theorem OKw_cTok (count : Nat) : OKw (cTok count) :=
  OKw_append_left _ _ (by unfold OKw; decide) (natToStr_noSpace count)

theorem count_cTok (count : Nat) : (splitOnChar ':' (cTok count))[1]?.bind strToNat? = some count := by
  have : cTok count = ['C'] ++ ':' :: natToStr count := rfl
  rw [this, splitOnChar_one _ _ _ (by decide) (natToStr_not_mem _ (by decide) _)]
  simp [strToNat_natToStr]

/-- a predicate `label arity ( args )` is one whitespace-free token -/
theorem OKw_pred (s : Str) (n : Nat) (args : Str) (hs : ∀ c ∈ s, pyIsSpace c = false)
    (ha : ∀ c ∈ args, pyIsSpace c = false) : OKw (s ++ natToStr n ++ ['('] ++ args ++ [')']) := by
  refine ⟨by simp, ?_⟩
  intro c hc
  simp only [List.mem_append, List.mem_singleton] at hc
  rcases hc with (((h | h) | h) | h) | h
  · exact hs c h
  · exact natToStr_noSpace n c h
  · subst h; decide
  · exact ha c h
  · subst h; decide

theorem joinWith_comma_noSpace (l : List Str) (h : ∀ s ∈ l, ∀ c ∈ s, ArgCh c) :
    ∀ c ∈ joinWith [','] l, pyIsSpace c = false := by
  intro c hc
  rcases mem_joinWith _ l c hc with h' | ⟨s, hs, hx⟩
  · simp only [List.mem_singleton] at h'; subst h'; decide
  · exact ArgCh_noSpace c (h s hs c hx)

theorem OKw_lhsPred (func : Func) (lin : Lin) (h : ∀ c ∈ func.head?.getD [], pyIsSpace c = false) :
    OKw (lhsPred func lin) :=
  OKw_pred _ _ _ h (joinWith_comma_noSpace _ (mem_lhsStrs lin 0))

theorem OKw_rhsPred (func : Func) (lin : Lin) (i : Nat) (h : ∀ c ∈ func[i + 1]?.getD [], pyIsSpace c = false) :
    OKw (rhsPred func lin i) := by
  apply OKw_pred _ _ _ h
  apply joinWith_comma_noSpace
  intro s hs c hc
  obtain ⟨x, _, rfl⟩ := List.mem_map.1 hs
  exact mem_br _ c hc

theorem map_range_getD {α} (l : List α) (d : α) : (List.range l.length).map (fun i => l[i]?.getD d) = l := by
  apply List.ext_getElem?
  intro i
  rw [List.getElem?_map]
  by_cases h : i < l.length
  · rw [List.getElem?_range h]; simp [h]
  · rw [List.getElem?_eq_none (by simpa using h), List.getElem?_eq_none (by simpa using h)]; rfl

theorem LabOK_getD (func : Func) (hl : ∀ s ∈ func, LabOK s) (o : Option Str) (ho : ∀ s, o = some s → s ∈ func) :
    LabOK (o.getD []) := by
  cases o with
  | none => exact ⟨by simp, by simp, by simp⟩
  | some s => exact hl s (ho s rfl)

theorem fanOut_nil : fanOut [] = [0] := by decide

/-- the reader re-reads a written clause -/
theorem readRcgLine_rcgLine' (func : Func) (lin : Lin) (count : Nat)
    (hl : ∀ s ∈ func, LabOK s) (hf : 2 ≤ func.length)
    (hw : wfLin lin ((fanOut lin).drop 1) = true) (hk : (fanOut lin).length = func.length) :
    readRcgLine (rcgLine func lin count) = some (func, lin, count) := by
  have hne : lin ≠ [] := by
    intro e; rw [e, fanOut_nil] at hk; simp at hk; omega
  have hK : ((fanOut lin).drop 1).length = func.length - 1 := by simp [hk]
  have hhead : LabOK (func.head?.getD []) := LabOK_getD func hl _ (fun s h => List.mem_of_mem_head? h)
  have hith : ∀ i, LabOK (func[i + 1]?.getD []) := fun i =>
    LabOK_getD func hl _ (fun s h => List.mem_of_getElem? h)
  have hsplit : splitWs (rcgLine func lin count) =
      cTok count :: lhsPred func lin :: ['-', '-', '>'] :: (List.range (func.length - 1)).map (rhsPred func lin) := by
    rw [rcgLine_eq', splitWs_word_sp_r _ _ (OKw_cTok count), splitWs_word_sp_r _ _ (OKw_lhsPred func lin hhead.noSp),
      splitWs_word_sp_r _ _ (by unfold OKw; decide), splitWs_unwords]
    intro s hs
    obtain ⟨i, _, rfl⟩ := List.mem_map.1 hs
    exact OKw_rhsPred func lin i (hith i).noSp
  unfold readRcgLine
  rw [hsplit]
  simp only [count_cTok]
  have hp0 : splitPred (lhsPred func lin) = (func.head?.getD [], joinWith [','] (lhsStrs 0 lin)) :=
    splitPred_pred' _ _ _ hhead.last hhead.noPar
  have hpi : ∀ i, splitPred (rhsPred func lin i) = (func[i + 1]?.getD [], rhsStr lin i) := fun i =>
    splitPred_pred' _ _ _ (hith i).last (hith i).noPar
  simp only [List.map_cons, List.map_map, hp0]
  have e1 : (List.range (func.length - 1)).map ((fun x => x.1) ∘ splitPred ∘ rhsPred func lin) =
      (List.range (func.length - 1)).map fun i => func[i + 1]?.getD [] :=
    List.map_congr_left (fun i _ => by simp [hpi i])
  have e2 : (List.range (func.length - 1)).map ((fun x => x.2) ∘ splitPred ∘ rhsPred func lin) =
      (List.range (func.length - 1)).map (rhsStr lin) :=
    List.map_congr_left (fun i _ => by simp [hpi i])
  rw [e1, e2, ← hK, readRcgLin_written lin _ hw hne, hK]
  cases func with
  | nil => simp at hf
  | cons a r =>
    have := map_range_getD r []
    simp only [List.head?_cons, Option.getD_some, List.length_cons, Nat.add_sub_cancel, List.getElem?_cons_succ, this]

end TT.Lemmas.RcgRT
