/-
  Helper lemmas for C07More: un-binarizing a whole deterministic grammar.  Core only.

  Plan of the proof of `unbinOK_build` (= `unbinOK r g (binarizeGrammar r none g)`):
  * `binarizeGrammar r none g` is `build A []`: the list `A = allAdds 0 R` of additions (`Grammar.add _ _ .default _`)
    folded into the empty grammar, `R` = the reordered rules; the additions of one rule are the rule itself
    (rank <= 2) or its chain `chainR` whose labels are `@(s+1)X ..` with `s` = number of labels used before.
  * a built grammar seen through its `rules`: `rules_add_cases` (an addition inserts one rule or raises one count,
    nothing else moves), hence `hasKey_build` (same keys as `A`), `rsum_build` (weighted count sums agree with `A`),
    `rules_keys_nodup` (no key twice).
  * labels: heads of additions are original symbols or `uniqueLabel m` with `m` in the interval of their rule
    (`allAdds_head`), so one addition per label (`allAdds_unique`); `findDef` finds it (`findDef_unique`);
    `followChain` from the top rule returns the chain (`followChain_chainR`, fuel by `chain_fuel`).
  * `unbinChain_chainR`: composing the chain gives the rule back (from `evalChain_chainLins`/`instLin_formal` of
    GramBin, plus: the fan-outs `unbinChain` reads off the chain are the numbers of variables `occ`).
  * `tops_eq`: the additions with a non-binarization head, un-binarized inside the finished grammar, are `R` in order;
    `transfer_perm`/`transfer_isSome` move this from `A` to the `rules` of the built grammar up to `aggregate`.
  * `wfLin_relabel`/`CWF_reorderingOptimal`: the optimal reordering keeps the well-formedness.
-/
import TT.Spec.Grammar
import TT.Lemmas.GramBin
namespace TT.Lemmas.Unbin
open TT TT.Spec TT.Lemmas.GramBin

abbrev Rule := Func × Lin × Nat

/-! ### `upsert` and `Grammar.add` seen on the list of rules -/

theorem upsert_cases {κ ν} [DecidableEq κ] (k : κ) (F : Option ν → ν) (m : AList κ ν) :
    ((∀ p ∈ m, p.1 ≠ k) ∧ AList.upsert k F m = m ++ [(k, F none)]) ∨
    (∃ m1 v m2, m = m1 ++ (k, v) :: m2 ∧ (∀ p ∈ m1, p.1 ≠ k) ∧
      AList.upsert k F m = m1 ++ (k, F (some v)) :: m2) := by
  induction m with
  | nil => left; simp [AList.upsert]
  | cons a r ih =>
    obtain ⟨a, v⟩ := a
    simp only [AList.upsert]
    by_cases h : a = k
    · subst h
      right
      exact ⟨[], v, r, by simp⟩
    · simp only [h, if_false]
      rcases ih with ⟨h1, h2⟩ | ⟨m1, v', m2, h1, h2, h3⟩
      · left
        refine ⟨?_, by rw [h2]; rfl⟩
        intro p hp
        rcases List.mem_cons.1 hp with rfl | hp
        · exact h
        · exact h1 p hp
      · right
        refine ⟨(a, v) :: m1, v', m2, by rw [h1]; rfl, ?_, by rw [h3]; rfl⟩
        intro p hp
        rcases List.mem_cons.1 hp with rfl | hp
        · exact h
        · exact h2 p hp

theorem rules_append (g1 g2 : Grammar) : Grammar.rules (g1 ++ g2) = Grammar.rules g1 ++ Grammar.rules g2 := by
  simp [Grammar.rules]

theorem rules_single (f : Func) (ls : AList Lin (AList VertKey Nat)) :
    Grammar.rules [(f, ls)] = ls.map fun p => (f, p.1, vsum p.2) := by
  simp [Grammar.rules, vsum]

/-- adding a count either inserts one new rule or raises the count of one rule, everything else stays in place -/
theorem rules_add_cases (G : Grammar) (f : Func) (l : Lin) (v : VertKey) (n : Nat) :
    ∃ X Y, (G.rules = X ++ Y ∧ (G.add f l v n).rules = X ++ (f, l, n) :: Y) ∨
      (∃ c, G.rules = X ++ (f, l, c) :: Y ∧ (G.add f l v n).rules = X ++ (f, l, c + n) :: Y) := by
  unfold Grammar.add
  rcases upsert_cases f (fun o => AList.upsert l (fun o2 => AList.upsert v (fun o3 => o3.getD 0 + n) (o2.getD []))
      (o.getD [])) G with ⟨_, h2⟩ | ⟨G1, ls, G2, h1, _, h3⟩
  · refine ⟨G.rules, [], Or.inl ⟨by simp, ?_⟩⟩
    rw [h2, rules_append, rules_single]
    simp [AList.upsert, vsum]
  · rw [h3, h1]
    simp only [Option.getD_some]
    rcases upsert_cases l (fun o2 => AList.upsert v (fun o3 => o3.getD 0 + n) (o2.getD [])) ls with
      ⟨_, k2⟩ | ⟨ls1, vs, ls2, k1, _, k3⟩
    · refine ⟨Grammar.rules G1 ++ ls.map (fun p => (f, p.1, vsum p.2)), Grammar.rules G2, Or.inl ⟨?_, ?_⟩⟩
      · rw [rules_append, rules_cons]; simp
      · rw [rules_append, rules_cons, k2]; simp [AList.upsert, vsum]
    · refine ⟨Grammar.rules G1 ++ ls1.map (fun p => (f, p.1, vsum p.2)),
        ls2.map (fun p => (f, p.1, vsum p.2)) ++ Grammar.rules G2, Or.inr ⟨vsum vs, ?_, ?_⟩⟩
      · rw [rules_append, rules_cons, k1]; simp
      · rw [rules_append, rules_cons, k3]; simp [vsum_upsert]


/-- a rule with this function and linearization is present -/
def hasKey (rs : List Rule) (f : Func) (l : Lin) : Prop := ∃ c, (f, l, c) ∈ rs

/-- weighted sum of the counts -/
def rsum (w : Func → Lin → Nat) (rs : List Rule) : Nat := (rs.map fun e => w e.1 e.2.1 * e.2.2).sum

theorem rsum_append (w : Func → Lin → Nat) (a b : List Rule) : rsum w (a ++ b) = rsum w a + rsum w b := by
  simp [rsum]

theorem rsum_cons (w : Func → Lin → Nat) (e : Rule) (b : List Rule) :
    rsum w (e :: b) = w e.1 e.2.1 * e.2.2 + rsum w b := by
  simp [rsum]

theorem hasKey_add (G : Grammar) (f0 : Func) (l0 : Lin) (v : VertKey) (n : Nat) (f : Func) (l : Lin) :
    hasKey (G.add f0 l0 v n).rules f l ↔ (f = f0 ∧ l = l0) ∨ hasKey G.rules f l := by
  obtain ⟨X, Y, h⟩ := rules_add_cases G f0 l0 v n
  rcases h with ⟨h1, h2⟩ | ⟨c, h1, h2⟩
  · rw [h1, h2]
    simp only [hasKey, List.mem_append, List.mem_cons, Prod.mk.injEq]
    constructor
    · rintro ⟨c, h | ⟨a, b, _⟩ | h⟩
      · exact Or.inr ⟨c, Or.inl h⟩
      · exact Or.inl ⟨a, b⟩
      · exact Or.inr ⟨c, Or.inr h⟩
    · rintro (⟨a, b⟩ | ⟨c, h | h⟩)
      · exact ⟨n, Or.inr (Or.inl ⟨a, b, rfl⟩)⟩
      · exact ⟨c, Or.inl h⟩
      · exact ⟨c, Or.inr (Or.inr h)⟩
  · rw [h1, h2]
    simp only [hasKey, List.mem_append, List.mem_cons, Prod.mk.injEq]
    constructor
    · rintro ⟨c', h | ⟨a, b, _⟩ | h⟩
      · exact Or.inr ⟨c', Or.inl h⟩
      · exact Or.inl ⟨a, b⟩
      · exact Or.inr ⟨c', Or.inr (Or.inr h)⟩
    · rintro (⟨a, b⟩ | ⟨c', h | ⟨a, b, _⟩ | h⟩)
      · exact ⟨c + n, Or.inr (Or.inl ⟨a, b, rfl⟩)⟩
      · exact ⟨c', Or.inl h⟩
      · exact ⟨c + n, Or.inr (Or.inl ⟨a, b, rfl⟩)⟩
      · exact ⟨c', Or.inr (Or.inr h)⟩

theorem rsum_add (w : Func → Lin → Nat) (G : Grammar) (f : Func) (l : Lin) (v : VertKey) (n : Nat) :
    rsum w (G.add f l v n).rules = rsum w G.rules + w f l * n := by
  obtain ⟨X, Y, h⟩ := rules_add_cases G f l v n
  rcases h with ⟨h1, h2⟩ | ⟨c, h1, h2⟩
  · rw [h1, h2]; simp only [rsum_append, rsum_cons]; omega
  · rw [h1, h2]; simp only [rsum_append, rsum_cons, Nat.mul_add]; omega

/-! ### grammars built by a sequence of additions -/

def addD (G : Grammar) (e : Rule) : Grammar := G.add e.1 e.2.1 .default e.2.2
def build (A : List Rule) (G : Grammar) : Grammar := A.foldl addD G

theorem build_nil (G : Grammar) : build [] G = G := rfl
theorem build_cons (e : Rule) (A : List Rule) (G : Grammar) : build (e :: A) G = build A (addD G e) := rfl
theorem build_append (A B : List Rule) (G : Grammar) : build (A ++ B) G = build B (build A G) := by
  simp [build, List.foldl_append]

theorem hasKey_build : ∀ (A : List Rule) (G : Grammar) (f : Func) (l : Lin),
    hasKey (build A G).rules f l ↔ hasKey A f l ∨ hasKey G.rules f l
  | [], G, f, l => by simp [build_nil, hasKey]
  | e :: A, G, f, l => by
    rw [build_cons, hasKey_build A, addD, hasKey_add]
    obtain ⟨f0, l0, c0⟩ := e
    simp only [hasKey, List.mem_cons, Prod.mk.injEq]
    constructor
    · rintro (⟨c, h⟩ | ⟨a, b⟩ | h)
      · exact Or.inl ⟨c, Or.inr h⟩
      · exact Or.inl ⟨c0, Or.inl ⟨a, b, rfl⟩⟩
      · exact Or.inr h
    · rintro (⟨c, ⟨a, b, _⟩ | h⟩ | h)
      · exact Or.inr (Or.inl ⟨a, b⟩)
      · exact Or.inl ⟨c, h⟩
      · exact Or.inr (Or.inr h)

theorem rsum_build (w : Func → Lin → Nat) : ∀ (A : List Rule) (G : Grammar),
    rsum w (build A G).rules = rsum w G.rules + rsum w A
  | [], G => by simp [build_nil, rsum]
  | e :: A, G => by
    rw [build_cons, rsum_build w A, addD, rsum_add, rsum_cons]; omega

/-! ### no rule occurs twice in a grammar built by additions -/

def GN (G : Grammar) : Prop := (G.map (·.1)).Nodup ∧ ∀ p ∈ G, (p.2.map (·.1)).Nodup

theorem upsert_keys_nodup {κ ν} [DecidableEq κ] (k : κ) (F : Option ν → ν) (m : AList κ ν)
    (h : (m.map (·.1)).Nodup) : ((AList.upsert k F m).map (·.1)).Nodup := by
  rcases upsert_cases k F m with ⟨h1, h2⟩ | ⟨m1, v, m2, h1, _, h3⟩
  · rw [h2, List.map_append, List.nodup_append]
    refine ⟨h, by simp, ?_⟩
    intro a ha b hb
    simp only [List.map_cons, List.map_nil, List.mem_singleton] at hb
    obtain ⟨p, hp, rfl⟩ := List.mem_map.1 ha
    rw [hb]; exact h1 p hp
  · rw [h3]; rw [h1] at h; simpa using h

theorem GN_add (G : Grammar) (f : Func) (l : Lin) (v : VertKey) (n : Nat) (h : GN G) : GN (G.add f l v n) := by
  refine ⟨upsert_keys_nodup _ _ _ h.1, ?_⟩
  unfold Grammar.add
  rcases upsert_cases f (fun o => AList.upsert l (fun o2 => AList.upsert v (fun o3 => o3.getD 0 + n) (o2.getD []))
      (o.getD [])) G with ⟨_, h2⟩ | ⟨G1, ls, G2, h1, _, h3⟩
  · rw [h2]
    intro p hp
    rcases List.mem_append.1 hp with hp | hp
    · exact h.2 p hp
    · simp only [List.mem_singleton] at hp
      rw [hp]; simp [AList.upsert]
  · rw [h3]
    intro p hp
    rcases List.mem_append.1 hp with hp | hp
    · exact h.2 p (by rw [h1]; simp [hp])
    · rcases List.mem_cons.1 hp with rfl | hp
      · exact upsert_keys_nodup _ _ _ (h.2 (f, ls) (by rw [h1]; simp))
      · exact h.2 p (by rw [h1]; simp [hp])

theorem GN_build : ∀ (A : List Rule) (G : Grammar), GN G → GN (build A G)
  | [], _, h => h
  | _ :: A, G, h => GN_build A _ (GN_add G _ _ _ _ h)

def keyOf (e : Rule) : Func × Lin := (e.1, e.2.1)

theorem rules_keys_nodup (G : Grammar) (h : GN G) : (G.rules.map keyOf).Nodup := by
  unfold List.Nodup
  rw [List.pairwise_map]
  unfold Grammar.rules
  rw [List.pairwise_flatMap]
  constructor
  · rintro ⟨f, ls⟩ hp
    have := h.2 (f, ls) hp
    unfold List.Nodup at this
    rw [List.pairwise_map] at this
    simp only [List.pairwise_map]
    refine this.imp ?_
    intro a b hab e
    simp only [keyOf, Prod.mk.injEq] at e
    exact hab e.2
  · have := h.1
    unfold List.Nodup at this
    rw [List.pairwise_map] at this
    refine this.imp ?_
    rintro ⟨f1, ls1⟩ ⟨f2, ls2⟩ hab x hx y hy e
    simp only [List.mem_map] at hx hy
    obtain ⟨p, _, rfl⟩ := hx
    obtain ⟨q, _, rfl⟩ := hy
    simp only [keyOf, Prod.mk.injEq] at e
    exact hab e.1

theorem GN_nil : GN [] := by simp [GN]


/-! ### the additions made by `binarizeRule none` and `binarizeGrammar _ none` -/

/-- the chain written for the rule "`h` -> `func[i]` `func[i+1]` ... " with linearization `t`, `k` further
    binarization symbols needed, label counter at `s` -/
def chainR (func : Func) : (k : Nat) → (i : Nat) → (h : Str) → (t : Lin) → (s : Nat) → List (Func × Lin)
  | 0, i, h, t, _ => [([h, func[i]?.getD [], func[i + 1]?.getD []], t)]
  | k + 1, i, h, t, s =>
    ([h, func[i]?.getD [], uniqueLabel (s + 1)], topLin t) ::
      chainR func k (i + 1) (uniqueLabel (s + 1)) (restLin t) (s + 1)

def withCount (c : Nat) (x : Func × Lin) : Rule := (x.1, x.2, c)

/-- number of labels a rule consumes -/
def nlab (f : Func) : Nat := f.length - 3

def ruleAdds (s : Nat) (f : Func) (l : Lin) (c : Nat) : List Rule :=
  if f.length ≤ 3 then [(f, l, c)] else (chainR f (f.length - 3) 1 (f[0]?.getD []) l s).map (withCount c)

def allAdds : Nat → List Rule → List Rule
  | _, [] => []
  | s, e :: R => ruleAdds s e.1 e.2.1 e.2.2 ++ allAdds (s + nlab e.1) R

/-- the rules of `g` after reordering -/
def reordered (r : Reordering) (g : Grammar) : List Rule :=
  g.rules.map fun e => ((reorder r e.1 e.2.1).1, (reorder r e.1 e.2.1).2, e.2.2)

theorem genState_ext (a : GenState) (n : Nat) (h : a.numb = n) : a = ⟨n⟩ := by
  cases a; simp_all

theorem binMid_build (func : Func) (vert : List Str) (fo : List Nat) (cnt : Nat) :
    ∀ (steps i : Nat) (bl : Str) (tl : Lin) (st : GenState) (res : Grammar),
    (binMid none func vert fo cnt i steps bl tl st res).2.2.1.numb = st.numb + steps ∧
    (binMid none func vert fo cnt i steps bl tl st res).2.2.2.add
        [(binMid none func vert fo cnt i steps bl tl st res).1, func[i + steps + 1]?.getD [],
          func[i + steps + 2]?.getD []]
        (restLin (binMid none func vert fo cnt i steps bl tl st res).2.1) .default cnt =
      build ((chainR func steps (i + 1) bl (restLin tl) st.numb).map (withCount cnt)) res
  | 0, i, bl, tl, st, res => by
    rw [binMid_zero]
    simp [chainR, withCount, build, addD]
  | k + 1, i, bl, tl, st, res => by
    rw [binMid_succ]
    have ih := binMid_build func vert fo cnt k (i + 1) (uniqueLabel (st.numb + 1)) (restLin tl) ⟨st.numb + 1⟩
      (res.add [bl, func[i + 1]?.getD [], uniqueLabel (st.numb + 1)] (topLin (restLin tl)) .default cnt)
    have e1 : i + 1 + k + 1 = i + (k + 1) + 1 := by omega
    have e2 : i + 1 + k + 2 = i + (k + 1) + 2 := by omega
    rw [e1, e2] at ih
    refine ⟨?_, ?_⟩
    · have := ih.1
      simp only [nextLabel] at this ⊢
      rw [this]; omega
    · simp only [nextLabel]
      rw [ih.2]
      simp [chainR, withCount, build, addD]

theorem binarizeRule_build (f : Func) (l : Lin) (c : Nat) (vert : List Str) (st : GenState) (res : Grammar) :
    binarizeRule none f l c vert st res = (⟨st.numb + nlab f⟩, build (ruleAdds st.numb f l c) res) := by
  by_cases h3 : f.length ≤ 3
  · rw [binarizeRule_small _ _ _ _ _ _ _ h3]
    have : nlab f = 0 := by unfold nlab; omega
    simp [ruleAdds, h3, this, build, addD]
  · rw [binarizeRule_large _ _ _ _ _ _ _ h3]
    unfold midOf
    have ih := binMid_build f vert (fanOut l) c (f.length - 4) 1 (uniqueLabel (st.numb + 1)) l ⟨st.numb + 1⟩
      (res.add [f[0]?.getD [], f[1]?.getD [], uniqueLabel (st.numb + 1)] (topLin l) .default c)
    have e1 : 1 + (f.length - 4) + 1 = f.length - 2 := by omega
    have e2 : 1 + (f.length - 4) + 2 = f.length - 1 := by omega
    have e3 : f.length - 3 = (f.length - 4) + 1 := by omega
    rw [e1, e2] at ih
    simp only [nextLabel]
    rw [ih.2]
    congr 1
    · apply genState_ext
      have := ih.1
      simp only at this
      rw [this]; unfold nlab; omega
    · simp only [ruleAdds, h3, if_false]
      rw [e3]
      simp [chainR, withCount, build, addD]

theorem fold_build (r : Reordering) : ∀ (rs : List Rule) (st : GenState) (res : Grammar),
    (rs.foldl (fun (acc : GenState × Grammar) (e : Func × Lin × Nat) =>
        let (f, l, c) := e
        let (f', l') := reorder r f l
        binarizeRule none f' l' c [] acc.1 acc.2) (st, res)).2 =
      build (allAdds st.numb (rs.map fun e => ((reorder r e.1 e.2.1).1, (reorder r e.1 e.2.1).2, e.2.2))) res
  | [], st, res => rfl
  | e :: rs, st, res => by
    obtain ⟨f, l, c⟩ := e
    simp only [List.foldl_cons, List.map_cons, allAdds]
    rw [binarizeRule_build, fold_build r rs, build_append]

theorem binarizeGrammar_build (r : Reordering) (g : Grammar) :
    binarizeGrammar r none g = build (allAdds 0 (reordered r g)) [] := by
  unfold binarizeGrammar reordered
  exact fold_build r g.rules {} []


/-! ### heads of the additions -/

theorem isBinSym_uniqueLabel (m : Nat) : isBinSym (uniqueLabel m) = true := by
  simp [isBinSym, uniqueLabel, Gen.G_DEFAULT_BINLABEL]

theorem uniqueLabel_inj {a b : Nat} (h : uniqueLabel a = uniqueLabel b) : a = b := by
  unfold uniqueLabel at h
  exact natToStr_injective (List.append_cancel_left (List.append_cancel_right h))

/-- no symbol of the function looks like a binarization symbol -/
def NBF (f : Func) : Prop := ∀ x ∈ f, isBinSym x = false

theorem NBF_get (f : Func) (h : NBF f) (i : Nat) : isBinSym (f[i]?.getD []) = false := by
  cases e : f[i]? with
  | none => simp [isBinSym]
  | some x => exact h x (List.mem_of_getElem? e)

theorem NBF_ne (f : Func) (h : NBF f) (i m : Nat) : f[i]?.getD [] ≠ uniqueLabel m := by
  intro e
  have := NBF_get f h i
  rw [e, isBinSym_uniqueLabel] at this
  exact absurd this (by simp)

theorem chainR_head_mem (func : Func) : ∀ (k i : Nat) (h : Str) (t : Lin) (s : Nat),
    ∀ x ∈ chainR func k i h t s, x.1.head? = some h ∨ ∃ m, s < m ∧ m ≤ s + k ∧ x.1.head? = some (uniqueLabel m)
  | 0, i, h, t, s, x, hx => by
    simp only [chainR, List.mem_singleton] at hx
    left; rw [hx]; rfl
  | k + 1, i, h, t, s, x, hx => by
    simp only [chainR, List.mem_cons] at hx
    rcases hx with rfl | hx
    · left; rfl
    · right
      rcases chainR_head_mem func k (i + 1) _ _ _ x hx with e | ⟨m, h1, h2, e⟩
      · exact ⟨s + 1, by omega, by omega, e⟩
      · exact ⟨m, by omega, by omega, e⟩

theorem chainR_unique (func : Func) : ∀ (k i : Nat) (h : Str) (t : Lin) (s : Nat),
    (∀ m, s < m → h ≠ uniqueLabel m) →
    ∀ x ∈ chainR func k i h t s, ∀ y ∈ chainR func k i h t s, x.1.head? = y.1.head? → x = y
  | 0, i, h, t, s, _, x, hx, y, hy, _ => by
    simp only [chainR, List.mem_singleton] at hx hy
    rw [hx, hy]
  | k + 1, i, h, t, s, hh, x, hx, y, hy, e => by
    simp only [chainR, List.mem_cons] at hx hy
    have hrest : ∀ z ∈ chainR func k (i + 1) (uniqueLabel (s + 1)) (restLin t) (s + 1),
        z.1.head? ≠ some h := by
      intro z hz ez
      rcases chainR_head_mem func k (i + 1) _ _ _ z hz with e' | ⟨m, h1, _, e'⟩
      · rw [e'] at ez
        exact hh (s + 1) (by omega) (Option.some.inj ez).symm
      · rw [e'] at ez
        exact hh m (by omega) (Option.some.inj ez).symm
    rcases hx with rfl | hx <;> rcases hy with rfl | hy
    · rfl
    · exact absurd e.symm (hrest y hy)
    · exact absurd e (hrest x hx)
    · refine chainR_unique func k (i + 1) _ _ _ ?_ x hx y hy e
      intro m hm e'
      have := uniqueLabel_inj e'
      omega

/-- the labels used by a list of rules -/
def total : List Rule → Nat
  | [] => 0
  | e :: R => nlab e.1 + total R

theorem total_append : ∀ (R1 R2 : List Rule), total (R1 ++ R2) = total R1 + total R2
  | [], R2 => by simp [total]
  | e :: R1, R2 => by simp [total, total_append R1 R2]; omega

theorem allAdds_append : ∀ (s : Nat) (R1 R2 : List Rule),
    allAdds s (R1 ++ R2) = allAdds s R1 ++ allAdds (s + total R1) R2
  | s, [], R2 => by simp [allAdds, total]
  | s, e :: R1, R2 => by
    simp only [List.cons_append, allAdds, total, allAdds_append _ R1 R2, List.append_assoc]
    congr 3; omega

/-- heads of the additions of one rule -/
theorem ruleAdds_head (s : Nat) (f : Func) (l : Lin) (c : Nat) (hf : NBF f) :
    ∀ x ∈ ruleAdds s f l c, (∀ m, x.1.head? ≠ some (uniqueLabel m)) ∨
      ∃ m, s < m ∧ m ≤ s + nlab f ∧ x.1.head? = some (uniqueLabel m) := by
  intro x hx
  unfold ruleAdds at hx
  split at hx
  · simp only [List.mem_singleton] at hx
    left
    intro m e
    rw [hx] at e
    cases f with
    | nil => simp at e
    | cons a r =>
      simp only [List.head?_cons, Option.some.injEq] at e
      have := hf a (by simp)
      rw [e, isBinSym_uniqueLabel] at this
      exact absurd this (by simp)
  · obtain ⟨y, hy, rfl⟩ := List.mem_map.1 hx
    rcases chainR_head_mem f _ _ _ _ _ y hy with e | ⟨m, h1, h2, e⟩
    · left
      intro m e'
      simp only [withCount] at e'
      rw [e] at e'
      exact NBF_ne f hf 0 m (Option.some.inj e')
    · right; exact ⟨m, h1, h2, e⟩

def NB (R : List Rule) : Prop := ∀ e ∈ R, NBF e.1

theorem allAdds_head : ∀ (s : Nat) (R : List Rule), NB R → ∀ x ∈ allAdds s R, ∀ m,
    x.1.head? = some (uniqueLabel m) → s < m ∧ m ≤ s + total R
  | s, [], _, x, hx, m, _ => by simp [allAdds] at hx
  | s, e :: R, hnb, x, hx, m, hm => by
    simp only [allAdds, List.mem_append] at hx
    simp only [total]
    rcases hx with hx | hx
    · rcases ruleAdds_head s e.1 e.2.1 e.2.2 (hnb e (by simp)) x hx with h | ⟨m', h1, h2, h3⟩
      · exact absurd hm (h m)
      · rw [h3] at hm
        have := uniqueLabel_inj (Option.some.inj hm)
        omega
    · have := allAdds_head (s + nlab e.1) R (fun e he => hnb e (by simp [he])) x hx m hm
      omega

theorem allAdds_unique : ∀ (s : Nat) (R : List Rule), NB R → ∀ x ∈ allAdds s R, ∀ y ∈ allAdds s R, ∀ m,
    x.1.head? = some (uniqueLabel m) → y.1.head? = some (uniqueLabel m) → x = y
  | s, [], _, x, hx, _, _, _, _, _ => by simp [allAdds] at hx
  | s, e :: R, hnb, x, hx, y, hy, m, hxm, hym => by
    have hnbR : NB R := fun e he => hnb e (by simp [he])
    simp only [allAdds, List.mem_append] at hx hy
    have hfirst : ∀ z ∈ ruleAdds s e.1 e.2.1 e.2.2, z.1.head? = some (uniqueLabel m) → m ≤ s + nlab e.1 := by
      intro z hz hzm
      rcases ruleAdds_head s e.1 e.2.1 e.2.2 (hnb e (by simp)) z hz with h | ⟨m', _, h2, h3⟩
      · exact absurd hzm (h m)
      · rw [h3] at hzm
        have := uniqueLabel_inj (Option.some.inj hzm)
        omega
    rcases hx with hx | hx <;> rcases hy with hy | hy
    · unfold ruleAdds at hx hy
      by_cases h3 : e.1.length ≤ 3
      · simp only [h3, if_true, List.mem_singleton] at hx hy
        rw [hx, hy]
      · simp only [h3, if_false] at hx hy
        obtain ⟨x', hx', rfl⟩ := List.mem_map.1 hx
        obtain ⟨y', hy', rfl⟩ := List.mem_map.1 hy
        have : x' = y' := by
          refine chainR_unique e.1 _ _ _ _ _ ?_ x' hx' y' hy' ?_
          · intro m' _; exact NBF_ne e.1 (hnb e (by simp)) 0 m'
          · simp only [withCount] at hxm hym
            rw [hxm, hym]
        rw [this]
    · have h1 := hfirst x hx hxm
      have h2 := (allAdds_head _ R hnbR y hy m hym).1
      omega
    · have h1 := hfirst y hy hym
      have h2 := (allAdds_head _ R hnbR x hx m hxm).1
      omega
    · exact allAdds_unique _ R hnbR x hx y hy m hxm hym


/-! ### looking up the defining rule of a binarization symbol; following a chain -/

theorem findDef_unique (A : List Rule) (y : Str) (x : Rule) (hx : x ∈ A) (hxy : x.1.head? = some y)
    (huniq : ∀ z ∈ A, z.1.head? = some y → keyOf z = keyOf x) :
    findDef (build A []) y = some (x.1, x.2.1) := by
  unfold findDef
  have hk : hasKey (build A []).rules x.1 x.2.1 := (hasKey_build A [] x.1 x.2.1).2 (Or.inl ⟨x.2.2, hx⟩)
  obtain ⟨c, hc⟩ := hk
  cases hf : (build A []).rules.find? (fun x => match x with | (f, _, _) => f.head? == some y) with
  | none =>
    rw [List.find?_eq_none] at hf
    have := hf _ hc
    simp [hxy] at this
  | some z =>
    have hz := List.mem_of_find?_eq_some hf
    have hp := List.find?_some hf
    obtain ⟨zf, zl, zc⟩ := z
    simp only [beq_iff_eq] at hp
    have hk2 : hasKey (build A []).rules zf zl := ⟨zc, hz⟩
    rcases (hasKey_build A [] zf zl).1 hk2 with ⟨c', hc'⟩ | ⟨c', hc'⟩
    · have := huniq _ hc' hp
      simp only [keyOf, Prod.mk.injEq] at this
      simp [this.1, this.2]
    · simp [Grammar.rules] at hc'

/-- first rule of a chain -/
def chainTop (func : Func) (k i : Nat) (h : Str) (t : Lin) (s : Nat) : Func × Lin :=
  match k with
  | 0 => ([h, func[i]?.getD [], func[i + 1]?.getD []], t)
  | _ + 1 => ([h, func[i]?.getD [], uniqueLabel (s + 1)], topLin t)

theorem chainTop_mem (func : Func) (k i : Nat) (h : Str) (t : Lin) (s : Nat) :
    chainTop func k i h t s ∈ chainR func k i h t s := by
  cases k <;> simp [chainTop, chainR]

theorem chainTop_head (func : Func) (k i : Nat) (h : Str) (t : Lin) (s : Nat) :
    (chainTop func k i h t s).1.head? = some h := by
  cases k <;> rfl

theorem followChain_step (G : Grammar) (n : Nat) (a b y : Str) (l : Lin) (f' : Func) (l' : Lin)
    (hy : isBinSym y = true) (hfd : findDef G y = some (f', l')) :
    followChain G (n + 1) [a, b, y] l = ([a, b, y], l) :: followChain G n f' l' := by
  simp [followChain, hy, hfd]

theorem followChain_chainR (G : Grammar) (func : Func) (hnb : NBF func) :
    ∀ (k i : Nat) (h : Str) (t : Lin) (s fuel : Nat), k ≤ fuel →
    (∀ x ∈ chainR func k i h t s, ∀ m, x.1.head? = some (uniqueLabel m) → findDef G (uniqueLabel m) = some x) →
    followChain G fuel (chainTop func k i h t s).1 (chainTop func k i h t s).2 = chainR func k i h t s
  | 0, i, h, t, s, fuel, _, _ => by
    cases fuel with
    | zero => rfl
    | succ n =>
      simp only [chainTop, followChain, chainR, NBF_get func hnb (i + 1)]
      rfl
  | k + 1, i, h, t, s, 0, hk, _ => by omega
  | k + 1, i, h, t, s, fuel + 1, hk, H => by
    have hfd := H _ (List.mem_cons_of_mem _ (chainTop_mem func k (i + 1) (uniqueLabel (s + 1)) (restLin t) (s + 1)))
      (s + 1) (chainTop_head ..)
    have ih := followChain_chainR G func hnb k (i + 1) (uniqueLabel (s + 1)) (restLin t) (s + 1) fuel (by omega)
      (fun x hx m hm => H x (List.mem_cons_of_mem _ hx) m hm)
    show followChain G (fuel + 1) [h, func[i]?.getD [], uniqueLabel (s + 1)] (topLin t) =
      ([h, func[i]?.getD [], uniqueLabel (s + 1)], topLin t) ::
        chainR func k (i + 1) (uniqueLabel (s + 1)) (restLin t) (s + 1)
    rw [followChain_step G fuel _ _ _ _ (chainTop func k (i + 1) (uniqueLabel (s + 1)) (restLin t) (s + 1)).1
      (chainTop func k (i + 1) (uniqueLabel (s + 1)) (restLin t) (s + 1)).2 (isBinSym_uniqueLabel _) hfd, ih]

/-- the list of heads of a chain -/
theorem chainR_heads (func : Func) : ∀ (k i : Nat) (h : Str) (t : Lin) (s : Nat),
    (chainR func k i h t s).map (·.1.head?) = some h :: (List.range' (s + 1) k).map (fun m => some (uniqueLabel m))
  | 0, i, h, t, s => rfl
  | k + 1, i, h, t, s => by
    simp only [chainR, List.map_cons, List.range'_succ, chainR_heads func k]
    rfl

/-- enough fuel: all heads of a chain present in the rules are different -/
theorem chain_fuel (rs : List Rule) (func : Func) (k i : Nat) (h : Str) (t : Lin) (s : Nat)
    (hin : ∀ x ∈ chainR func k i h t s, hasKey rs x.1 x.2) : k ≤ rs.length := by
  have hnd : ((List.range' (s + 1) k).map (fun m => some (uniqueLabel m))).Nodup := by
    unfold List.Nodup
    rw [List.pairwise_map]
    refine (List.nodup_range' (s := s + 1) (n := k) (step := 1) (by omega)).imp ?_
    intro a b hab e
    exact hab (uniqueLabel_inj (Option.some.inj e))
  have hsub : (List.range' (s + 1) k).map (fun m => some (uniqueLabel m)) ⊆ rs.map (·.1.head?) := by
    intro a ha
    have : a ∈ (chainR func k i h t s).map (·.1.head?) := by
      rw [chainR_heads]; exact List.mem_cons_of_mem _ ha
    obtain ⟨x, hx, rfl⟩ := List.mem_map.1 this
    obtain ⟨c, hc⟩ := hin x hx
    exact List.mem_map.2 ⟨_, hc, rfl⟩
  have := hnd.length_le_of_subset hsub
  simpa using this


/-! ### fan-outs read off a linearization -/

/-- number of variables of right-hand-side element `i` -/
def occ (t : Lin) (i : Nat) : Nat := (t.flatten.map (·.1)).count (i : Int)

theorem fanOut_get (t : Lin) (i : Nat) : (fanOut t)[i + 1]?.getD 0 = occ t i := by
  unfold fanOut occ
  have e : (t.flatMap fun arg => arg.map (·.1)) = t.flatten.map (·.1) := by
    simp [List.flatMap_def, List.map_flatten]
  simp only [e, List.getElem?_cons_succ]
  generalize t.flatten.map (·.1) = refs
  by_cases h : i < (refs.map fun r => (r + 1).toNat).foldl max 0
  · simp [h]
  · rw [List.getElem?_eq_none (by simpa using h)]
    simp only [Option.getD_none]
    symm
    rw [List.count_eq_zero]
    intro hm
    apply h
    have key : ∀ (l : List Nat) (a : Nat), a ≤ l.foldl max a ∧ ∀ x ∈ l, x ≤ l.foldl max a := by
      intro l
      induction l with
      | nil => intro a; simp
      | cons y ys ih =>
        intro a
        simp only [List.foldl_cons, List.mem_cons]
        have := ih (max a y)
        refine ⟨by omega, ?_⟩
        rintro x (rfl | hx)
        · omega
        · exact this.2 x hx
    have := (key (refs.map fun r => (r + 1).toNat) 0).2 (((i : Int) + 1).toNat) (List.mem_map.2 ⟨_, hm, rfl⟩)
    omega

theorem count_rest (i : Nat) : ∀ vs : List Var,
    (((vs.filter fun v => v.1 != 0).map shift).map (·.1)).count (i : Int) =
      (vs.map (·.1)).count ((i : Int) + 1)
  | [] => rfl
  | v :: vs => by
    by_cases hz : v.1 = 0
    · rw [List.filter_cons_of_neg (by simp [hz])]
      rw [count_rest i vs, List.map_cons, List.count_cons]
      have : ¬ v.1 = (i : Int) + 1 := by omega
      simp [this]
    · rw [List.filter_cons_of_pos (by simpa using hz)]
      simp only [List.map_cons, List.count_cons, count_rest i vs, shift]
      congr 1
      by_cases e : v.1 = (i : Int) + 1
      · have : v.1 - 1 = (i : Int) := by omega
        simp [e]
      · have : ¬ v.1 - 1 = (i : Int) := by omega
        simp [e, this]

theorem occ_restLin (t : Lin) (h : WF' t) (i : Nat) : occ (restLin t) i = occ t (i + 1) := by
  unfold occ
  rw [restLin_eq t h, flatMap_runsOf_flatten, count_rest]
  have : ((i + 1 : Nat) : Int) = (i : Int) + 1 := by omega
  rw [this]

theorem count_topG : ∀ (gs : List Grp) (m : Nat), GOK gs →
    ((topG gs m).1.map (·.1)).count (0 : Int) = ((ungrp gs).map (·.1)).count (0 : Int)
  | [], _, _ => rfl
  | .z v :: gs, m, h => by
    simp only [topG, ungrp, List.map_cons, List.count_cons, count_topG gs m h.2]
  | .run r :: gs, m, h => by
    have hr : (r.map (·.1)).count (0 : Int) = 0 := by
      rw [List.count_eq_zero]
      intro hm
      obtain ⟨v, hv, e⟩ := List.mem_map.1 hm
      exact h.1.2 v hv e
    simp only [topG, ungrp, List.map_cons, List.map_append, List.count_cons, List.count_append,
      count_topG gs (m + 1) h.2, hr]
    simp

theorem count_topGs : ∀ (lin : Lin) (m : Nat),
    ((topGs (lin.map grp) m).flatten.map (·.1)).count (0 : Int) = (lin.flatten.map (·.1)).count (0 : Int)
  | [], _ => rfl
  | a :: as, m => by
    simp only [List.map_cons, topGs, List.flatten_cons, List.map_append, List.count_append,
      count_topGs as, count_topG (grp a) m (GOK_grp a), ungrp_grp]

theorem occ_topLin (t : Lin) (h : WF' t) : occ (topLin t) 0 = occ t 0 := by
  unfold occ
  rw [topLin_eq t h]
  exact count_topGs t 0


/-! ### composing a chain back -/

/-- fan-outs as `unbinChain` reads them off a chain -/
def fosOf (chain : List (Func × Lin)) : List Nat :=
  (chain.map fun x => (fanOut x.2)[1]?.getD 0) ++
    [((chain.getLast?.map fun x => (fanOut x.2)[2]?.getD 0).getD 0)]

theorem unbinChain_long (a b : Func × Lin) (rest : List (Func × Lin)) :
    unbinChain (a :: b :: rest) =
      match evalChain ((a :: b :: rest).map (·.2))
          ((fosOf (a :: b :: rest)).zipIdx.map fun p => formalBlocks p.2 p.1) with
      | some blocks =>
        some (a.1.head?.getD [] :: (((a :: b :: rest).map fun x => x.1[1]?.getD []) ++
            [((a :: b :: rest).getLast?.map fun x => x.1[2]?.getD []).getD []]),
          blocks.map fun arg => arg.map fun p => ((p.1 : Int), p.2))
      | none => none := by
  obtain ⟨fa, la⟩ := a
  obtain ⟨fb, lb⟩ := b
  rfl

theorem getLast?_cons_ne {α} (a : α) (l : List α) (h : l ≠ []) : (a :: l).getLast? = l.getLast? := by
  cases l with
  | nil => exact absurd rfl h
  | cons b r => rw [List.getLast?_cons_cons]

theorem chainR_ne_nil (func : Func) (k i : Nat) (h : Str) (t : Lin) (s : Nat) : chainR func k i h t s ≠ [] := by
  cases k <;> simp [chainR]

theorem chainR_lins (func : Func) : ∀ (k i : Nat) (h : Str) (t : Lin) (s : Nat),
    (chainR func k i h t s).map (·.2) = chainLins t k
  | 0, _, _, _, _ => rfl
  | k + 1, i, h, t, s => by simp [chainR, chainLins, chainR_lins func k]

theorem chainR_firsts (func : Func) : ∀ (k i : Nat) (h : Str) (t : Lin) (s : Nat),
    (chainR func k i h t s).map (fun x => x.1[1]?.getD []) = (List.range' i (k + 1)).map (fun j => func[j]?.getD [])
  | 0, _, _, _, _ => by simp [chainR]
  | k + 1, i, h, t, s => by
    rw [List.range'_succ]
    simp [chainR, chainR_firsts func k]

theorem chainR_lastSecond (func : Func) : ∀ (k i : Nat) (h : Str) (t : Lin) (s : Nat),
    ((chainR func k i h t s).getLast?.map fun x => x.1[2]?.getD []).getD [] = func[i + k + 1]?.getD []
  | 0, _, _, _, _ => by simp [chainR]
  | k + 1, i, h, t, s => by
    simp only [chainR]
    rw [getLast?_cons_ne _ _ (chainR_ne_nil _ _ _ _ _ _), chainR_lastSecond func k]
    congr 2; omega

theorem fosOf_cons (a : Func × Lin) (l : List (Func × Lin)) (h : l ≠ []) :
    fosOf (a :: l) = (fanOut a.2)[1]?.getD 0 :: fosOf l := by
  simp [fosOf, getLast?_cons_ne a l h]

theorem fosOf_chainR (func : Func) : ∀ (k i : Nat) (h : Str) (t : Lin) (s : Nat), WF' t →
    fosOf (chainR func k i h t s) = (List.range (k + 2)).map (occ t)
  | 0, _, _, t, _, _ => by
    simp only [chainR, fosOf, List.map_cons, List.map_nil, List.getLast?_singleton, Option.map_some,
      Option.getD_some]
    have h0 := fanOut_get t 0
    have h1 := fanOut_get t 1
    simp only [Nat.zero_add] at h0 h1
    rw [h0, h1]
    rfl
  | k + 1, i, h, t, s, hw => by
    simp only [chainR]
    rw [fosOf_cons _ _ (chainR_ne_nil _ _ _ _ _ _), fosOf_chainR func k _ _ _ _ (WF'_restLin t hw)]
    have h0 := fanOut_get (topLin t) 0
    simp only [Nat.zero_add] at h0
    rw [h0, occ_topLin t hw, List.range_succ_eq_map (n := k + 2)]
    simp only [List.map_cons, List.map_map]
    congr 1
    apply List.map_congr_left
    intro j _
    exact occ_restLin t hw j

theorem zipIdx_formal (fo : List Nat) :
    (fo.zipIdx.map fun p => formalBlocks p.2 p.1) =
      (List.range fo.length).map fun i => formalBlocks i (fo[i]?.getD 0) := by
  apply List.ext_getElem
  · simp
  · intro n h1 h2
    simp only [List.length_map, List.length_zipIdx] at h1
    simp [List.getElem?_eq_getElem h1]

theorem func_eq_parts (f : Func) (k : Nat) (hl : f.length = k + 3) :
    f[0]?.getD [] :: ((List.range' 1 (k + 1)).map (fun j => f[j]?.getD []) ++ [f[1 + k + 1]?.getD []]) = f := by
  apply List.ext_getElem
  · simp; omega
  · intro n h1 h2
    rcases n with _ | n
    · simp [List.getElem?_eq_getElem h2]
    · simp only [List.getElem_cons_succ]
      by_cases hn : n < k + 1
      · rw [List.getElem_append_left (by simpa using hn)]
        simp only [List.getElem_map, List.getElem_range']
        rw [List.getElem?_eq_getElem (by omega)]
        simp only [Option.getD_some]
        congr 1; omega
      · rw [List.getElem_append_right (by simpa using hn)]
        simp only [List.length_map, List.length_range', List.getElem_singleton]
        have : n + 1 = 1 + k + 1 := by
          simp only [List.length_cons, List.length_append, List.length_map, List.length_range',
            List.length_nil] at h1
          omega
        rw [List.getElem?_eq_getElem (by omega)]
        simp only [Option.getD_some]
        congr 1; omega

theorem linAtoms_back (l : Lin) (h : ∀ a ∈ l, ∀ v ∈ a, 0 ≤ v.1) :
    ((linAtoms l).map fun arg => arg.map fun (p : Atom) => ((p.1 : Int), p.2)) = l := by
  unfold linAtoms
  rw [List.map_map]
  conv => rhs; rw [← List.map_id l]
  apply List.map_congr_left
  intro a ha
  simp only [Function.comp, List.map_map, id]
  conv => rhs; rw [← List.map_id a]
  apply List.map_congr_left
  intro v hv
  have := h a ha v hv
  obtain ⟨p, j⟩ := v
  simp only [Function.comp, id, Prod.mk.injEq, and_true]
  exact Int.toNat_of_nonneg this

/-- well-formedness of a rule in the form used here: the linearization is ordered, non-deleting and non-erasing
    over the right-hand-side elements of `f`, the fan-out of element `i` being its number of variables -/
def CWF (f : Func) (l : Lin) : Prop := wfLin l ((List.range (f.length - 1)).map (occ l)) = true

theorem unbinChain_chainR (f : Func) (l : Lin) (k s : Nat) (hl : f.length = k + 3) (hk : 1 ≤ k) (hw : CWF f l) :
    unbinChain (chainR f k 1 (f[0]?.getD []) l s) = some (f, l) := by
  have hw' : wfLin l ((List.range (k + 2)).map (occ l)) = true := by
    unfold CWF at hw
    have : f.length - 1 = k + 2 := by omega
    rwa [this] at hw
  have hWF : WF' l := WF'_of_wfLin l _ hw'
  obtain ⟨k', rfl⟩ : ∃ k', k = k' + 1 := ⟨k - 1, by omega⟩
  have hfos := fosOf_chainR f (k' + 1) 1 (f[0]?.getD []) l s hWF
  have hlins := chainR_lins f (k' + 1) 1 (f[0]?.getD []) l s
  have hfirsts := chainR_firsts f (k' + 1) 1 (f[0]?.getD []) l s
  have hlast := chainR_lastSecond f (k' + 1) 1 (f[0]?.getD []) l s
  have hshape : ∃ a b rest, chainR f (k' + 1) 1 (f[0]?.getD []) l s = a :: b :: rest ∧ a.1.head? = some (f[0]?.getD []) := by
    cases k' with
    | zero => exact ⟨_, _, _, rfl, rfl⟩
    | succ n => exact ⟨_, _, _, rfl, rfl⟩
  obtain ⟨a, b, rest, hc, ha⟩ := hshape
  rw [hc] at hfos hlins hfirsts hlast ⊢
  rw [unbinChain_long, hfos, hlins, hfirsts, hlast, zipIdx_formal]
  have hev : evalChain (chainLins l (k' + 1))
      ((List.range ((List.range (k' + 1 + 2)).map (occ l)).length).map fun i =>
        formalBlocks i (((List.range (k' + 1 + 2)).map (occ l))[i]?.getD 0)) = some (linAtoms l) := by
    rw [evalChain_chainLins _ _ _ hWF (by simp)]
    exact instLin_formal l _ hw'
  rw [hev]
  simp only [ha, Option.getD_some]
  rw [func_eq_parts f (k' + 1) hl, linAtoms_back l hWF.pos]


/-! ### `aggregate` and `sameBag` -/

/-- summed count of the rules with key `k` -/
def ksum (k : Func × Lin) (rs : List Rule) : Nat := rsum (fun f l => if (f, l) = k then 1 else 0) rs

def aggStep (acc : AList (Func × Lin) Nat) (e : Rule) : AList (Func × Lin) Nat :=
  AList.upsert (e.1, e.2.1) (fun o => o.getD 0 + e.2.2) acc

theorem aggregate_eq (rs : List Rule) : aggregate rs = rs.foldl aggStep [] := rfl

theorem agg_isSome (k : Func × Lin) : ∀ (rs : List Rule) (acc : AList (Func × Lin) Nat),
    (AList.get? k (rs.foldl aggStep acc)).isSome = true ↔ hasKey rs k.1 k.2 ∨ (AList.get? k acc).isSome = true
  | [], acc => by simp [hasKey]
  | e :: rs, acc => by
    rw [List.foldl_cons, agg_isSome k rs, aggStep, get?_upsert]
    obtain ⟨f, l, c⟩ := e
    obtain ⟨kf, kl⟩ := k
    simp only [hasKey, List.mem_cons, Prod.mk.injEq]
    by_cases h : kf = f ∧ kl = l
    · rw [if_pos h]
      constructor
      · intro _; exact Or.inl ⟨c, Or.inl ⟨h.1, h.2, rfl⟩⟩
      · intro _; exact Or.inr rfl
    · rw [if_neg h]
      constructor
      · rintro (⟨c', h'⟩ | h')
        · exact Or.inl ⟨c', Or.inr h'⟩
        · exact Or.inr h'
      · rintro (⟨c', ⟨a, b, _⟩ | h'⟩ | h')
        · exact absurd ⟨a, b⟩ h
        · exact Or.inl ⟨c', h'⟩
        · exact Or.inr h'

theorem agg_getD (k : Func × Lin) : ∀ (rs : List Rule) (acc : AList (Func × Lin) Nat),
    (AList.get? k (rs.foldl aggStep acc)).getD 0 = (AList.get? k acc).getD 0 + ksum k rs
  | [], acc => by simp [ksum, rsum]
  | e :: rs, acc => by
    rw [List.foldl_cons, agg_getD k rs, aggStep, get?_upsert]
    unfold ksum
    rw [rsum_cons]
    by_cases h : k = (e.1, e.2.1)
    · subst h
      simp; omega
    · have h' : ¬ (e.1, e.2.1) = k := fun e' => h e'.symm
      simp [h, h']

theorem agg_keys_nodup : ∀ (rs : List Rule) (acc : AList (Func × Lin) Nat), (acc.map (·.1)).Nodup →
    ((rs.foldl aggStep acc).map (·.1)).Nodup
  | [], _, h => h
  | _ :: rs, _, h => agg_keys_nodup rs _ (upsert_keys_nodup _ _ _ h)

theorem mem_iff_get? {κ ν} [DecidableEq κ] : ∀ (m : AList κ ν), (m.map (·.1)).Nodup → ∀ k v,
    (k, v) ∈ m ↔ AList.get? k m = some v
  | [], _, k, v => by simp [AList.get?]
  | (a, w) :: m, h, k, v => by
    rw [List.map_cons, List.nodup_cons] at h
    have ih := mem_iff_get? m h.2 k v
    by_cases e : a = k
    · subst e
      have : ∀ v', (a, v') ∉ m := fun v' hm => h.1 (List.mem_map.2 ⟨_, hm, rfl⟩)
      simp only [List.mem_cons, Prod.mk.injEq, true_and, AList.get?, List.find?_cons, decide_true,
        Option.map_some, Option.some.injEq, this, or_false]
      exact eq_comm
    · have e' : ¬ k = a := fun x => e x.symm
      simp only [List.mem_cons, Prod.mk.injEq, e', false_and, false_or, ih]
      simp [AList.get?, e]

theorem option_ext (a b : Option Nat) (h1 : a.isSome = true ↔ b.isSome = true) (h2 : a.getD 0 = b.getD 0) :
    a = b := by
  cases a <;> cases b <;> simp_all

theorem perm_of_get? {κ ν} [DecidableEq κ] (m1 m2 : AList κ ν) (h1 : (m1.map (·.1)).Nodup)
    (h2 : (m2.map (·.1)).Nodup) (h : ∀ k, AList.get? k m1 = AList.get? k m2) : m1.Perm m2 := by
  have nd : ∀ m : AList κ ν, (m.map (·.1)).Nodup → m.Nodup := by
    intro m hm
    unfold List.Nodup at hm ⊢
    rw [List.pairwise_map] at hm
    exact hm.imp (fun hab e => hab (by rw [e]))
  rw [List.perm_ext_iff_of_nodup (nd m1 h1) (nd m2 h2)]
  rintro ⟨k, v⟩
  rw [mem_iff_get? m1 h1, mem_iff_get? m2 h2, h k]

theorem agg_perm (L1 L2 : List Rule) (hk : ∀ f l, hasKey L1 f l ↔ hasKey L2 f l)
    (hs : ∀ k, ksum k L1 = ksum k L2) : (aggregate L1).Perm (aggregate L2) := by
  rw [aggregate_eq, aggregate_eq]
  apply perm_of_get? _ _ (agg_keys_nodup L1 [] (by simp)) (agg_keys_nodup L2 [] (by simp))
  intro k
  apply option_ext
  · rw [agg_isSome, agg_isSome, hk]
  · rw [agg_getD, agg_getD, hs]

theorem sameBag_of_perm {α} [BEq α] (a b : List α) (h : a.Perm b) : sameBag a b = true := by
  unfold sameBag
  simp only [Bool.and_eq_true, beq_iff_eq, List.all_eq_true]
  exact ⟨h.length_eq, fun x _ => h.count_eq x⟩

/-! ### from the rules of a built grammar back to the additions -/

/-- un-binarize one rule with `ψ`, keeping its count -/
def liftC (ψ : Func → Lin → Option (Func × Lin)) (e : Rule) : Option Rule :=
  (ψ e.1 e.2.1).map fun k => (k.1, k.2, e.2.2)

theorem hasKey_filterMap (qq : Func → Bool) (ψ : Func → Lin → Option (Func × Lin)) (rs : List Rule) (f : Func) (l : Lin) :
    hasKey ((rs.filter fun e => qq e.1).filterMap (liftC ψ)) f l ↔
      ∃ f0 l0, hasKey rs f0 l0 ∧ qq f0 = true ∧ ψ f0 l0 = some (f, l) := by
  simp only [hasKey, List.mem_filterMap, List.mem_filter, liftC, Option.map_eq_some_iff]
  constructor
  · rintro ⟨c, ⟨f0, l0, c0⟩, ⟨hm, hq⟩, ⟨kf, kl⟩, hψ, he⟩
    simp only [Prod.mk.injEq] at he
    refine ⟨f0, l0, ⟨c0, hm⟩, hq, ?_⟩
    rw [hψ, he.1, he.2.1]
  · rintro ⟨f0, l0, ⟨c0, hm⟩, hq, hψ⟩
    exact ⟨c0, (f0, l0, c0), ⟨hm, hq⟩, (f, l), hψ, rfl⟩

theorem ksum_filterMap (qq : Func → Bool) (ψ : Func → Lin → Option (Func × Lin)) (k : Func × Lin) :
    ∀ rs : List Rule, ksum k ((rs.filter fun e => qq e.1).filterMap (liftC ψ)) =
      rsum (fun f l => if qq f = true ∧ ψ f l = some k then 1 else 0) rs
  | [] => rfl
  | e :: rs => by
    rw [rsum_cons, ← ksum_filterMap qq ψ k rs]
    by_cases hq : qq e.1 = true
    · rw [List.filter_cons_of_pos (by simpa using hq)]
      cases hψ : ψ e.1 e.2.1 with
      | none =>
        rw [List.filterMap_cons_none (by simp [liftC, hψ])]
        simp [hq]
      | some k' =>
        rw [List.filterMap_cons_some (by simp [liftC, hψ]; rfl)]
        unfold ksum
        rw [rsum_cons]
        by_cases e' : k' = k
        · subst e'; simp [hq]
        · simp [hq, e']
    · rw [List.filter_cons_of_neg (by simpa using hq)]
      simp [hq]

theorem hasKey_congr (A : List Rule) (P : Func → Lin → Prop) :
    (∃ f0 l0, hasKey (build A []).rules f0 l0 ∧ P f0 l0) ↔ (∃ f0 l0, hasKey A f0 l0 ∧ P f0 l0) := by
  have : ∀ f0 l0, hasKey (build A []).rules f0 l0 ↔ hasKey A f0 l0 := by
    intro f0 l0
    rw [hasKey_build]
    simp [hasKey, Grammar.rules]
  simp only [this]

/-- un-binarizing the non-binarization rules of a built grammar and aggregating gives the same table as doing it
    on the sequence of additions -/
theorem transfer_perm (A : List Rule) (qq : Func → Bool) (ψ : Func → Lin → Option (Func × Lin)) :
    (aggregate (((build A []).rules.filter fun e => qq e.1).filterMap (liftC ψ))).Perm
      (aggregate ((A.filter fun e => qq e.1).filterMap (liftC ψ))) := by
  apply agg_perm
  · intro f l
    rw [hasKey_filterMap, hasKey_filterMap]
    exact hasKey_congr A (fun f0 l0 => qq f0 = true ∧ ψ f0 l0 = some (f, l))
  · intro k
    rw [ksum_filterMap, ksum_filterMap, rsum_build]
    simp [rsum, Grammar.rules]

theorem transfer_isSome (A : List Rule) (qq : Func → Bool) (ψ : Func → Lin → Option (Func × Lin))
    (h : ∀ e ∈ A, qq e.1 = true → (ψ e.1 e.2.1).isSome = true) :
    ∀ e ∈ (build A []).rules, qq e.1 = true → (ψ e.1 e.2.1).isSome = true := by
  intro e he hq
  have : hasKey (build A []).rules e.1 e.2.1 := ⟨e.2.2, he⟩
  rw [hasKey_build] at this
  rcases this with ⟨c, hc⟩ | ⟨c, hc⟩
  · exact h (e.1, e.2.1, c) hc hq
  · simp [Grammar.rules] at hc


/-! ### un-binarizing the result of `binarizeGrammar _ none` -/

/-- the un-binarization of the rule `(f, l)` inside the grammar `G` -/
def phi (G : Grammar) (f : Func) (l : Lin) : Option (Func × Lin) :=
  unbinChain (followChain G G.rules.length f l)

def notBin (f : Func) : Bool := !(isBinSym (f.head?.getD []))

theorem unbinOK_eq (r : Reordering) (g res : Grammar) :
    unbinOK r g res =
      (((res.rules.filter fun e => notBin e.1).all fun e => (phi res e.1 e.2.1).isSome) &&
        sameBag (aggregate ((res.rules.filter fun e => notBin e.1).filterMap (liftC (phi res))))
          (aggregate (reordered r g))) := by
  unfold unbinOK
  simp only [List.all_map, List.filterMap_map]
  rfl

theorem followChain_short (G : Grammar) (f : Func) (l : Lin) (hf : NBF f) (h3 : f.length ≤ 3) (fuel : Nat) :
    followChain G fuel f l = [(f, l)] := by
  cases fuel with
  | zero => rfl
  | succ n =>
    unfold followChain
    split
    · rename_i a b y
      have : isBinSym y = false := hf y (by simp)
      simp [this]
    · rfl

theorem phi_short (G : Grammar) (f : Func) (l : Lin) (hf : NBF f) (h3 : f.length ≤ 3) : phi G f l = some (f, l) := by
  unfold phi
  rw [followChain_short G f l hf h3]
  rfl

theorem notBin_of_NBF (f : Func) (hf : NBF f) : notBin f = true := by
  unfold notBin
  cases f with
  | nil => simp [isBinSym]
  | cons a r => simp [hf a (by simp)]

/-- following the chain from the top rule written for a rule of rank >= 3 gives exactly the chain written for it -/
theorem followChain_long (R R1 R2 : List Rule) (e : Rule) (hR : R = R1 ++ e :: R2) (hnb : NB R)
    (h3 : ¬ e.1.length ≤ 3) :
    followChain (build (allAdds 0 R) []) (build (allAdds 0 R) []).rules.length
        (chainTop e.1 (e.1.length - 3) 1 (e.1[0]?.getD []) e.2.1 (total R1)).1
        (chainTop e.1 (e.1.length - 3) 1 (e.1[0]?.getD []) e.2.1 (total R1)).2 =
      chainR e.1 (e.1.length - 3) 1 (e.1[0]?.getD []) e.2.1 (total R1) := by
  have hnbe : NBF e.1 := hnb e (by rw [hR]; simp)
  have hmem : ∀ x ∈ chainR e.1 (e.1.length - 3) 1 (e.1[0]?.getD []) e.2.1 (total R1),
      withCount e.2.2 x ∈ allAdds 0 R := by
    intro x hx
    rw [hR, allAdds_append]
    apply List.mem_append_right
    simp only [allAdds, Nat.zero_add]
    apply List.mem_append_left
    unfold ruleAdds
    rw [if_neg h3]
    exact List.mem_map_of_mem hx
  have hkey : ∀ x ∈ chainR e.1 (e.1.length - 3) 1 (e.1[0]?.getD []) e.2.1 (total R1),
      hasKey (build (allAdds 0 R) []).rules x.1 x.2 := by
    intro x hx
    rw [hasKey_build]
    exact Or.inl ⟨e.2.2, hmem x hx⟩
  have hfd : ∀ x ∈ chainR e.1 (e.1.length - 3) 1 (e.1[0]?.getD []) e.2.1 (total R1), ∀ m,
      x.1.head? = some (uniqueLabel m) → findDef (build (allAdds 0 R) []) (uniqueLabel m) = some x := by
    intro x hx m hm
    have := findDef_unique (allAdds 0 R) (uniqueLabel m) (withCount e.2.2 x) (hmem x hx) hm
      (fun z hz hzm => by rw [allAdds_unique 0 R hnb z hz _ (hmem x hx) m hzm hm])
    simpa [withCount] using this
  exact followChain_chainR _ e.1 hnbe _ _ _ _ _ _ (chain_fuel _ _ _ _ _ _ _ hkey) hfd

theorem phi_long (R R1 R2 : List Rule) (e : Rule) (hR : R = R1 ++ e :: R2) (hnb : NB R)
    (h3 : ¬ e.1.length ≤ 3) (hw : CWF e.1 e.2.1) :
    phi (build (allAdds 0 R) [])
        (chainTop e.1 (e.1.length - 3) 1 (e.1[0]?.getD []) e.2.1 (total R1)).1
        (chainTop e.1 (e.1.length - 3) 1 (e.1[0]?.getD []) e.2.1 (total R1)).2 = some (e.1, e.2.1) := by
  unfold phi
  rw [followChain_long R R1 R2 e hR hnb h3]
  exact unbinChain_chainR e.1 e.2.1 (e.1.length - 3) (total R1) (by omega) (by omega) hw

/-- hypotheses on the (reordered) rules: no symbol looks like a binarization symbol; rules that get binarized
    are well formed -/
def ROK (R : List Rule) : Prop := ∀ e ∈ R, NBF e.1 ∧ (¬ e.1.length ≤ 3 → CWF e.1 e.2.1)

theorem ROK_NB (R : List Rule) (h : ROK R) : NB R := fun e he => (h e he).1

theorem chainR_tail_bin (func : Func) (k i : Nat) (t : Lin) (s : Nat) (c : Nat) :
    ((chainR func k i (uniqueLabel (s + 1)) t (s + 1)).map (withCount c)).filter (fun x => notBin x.1) = [] := by
  rw [List.filter_eq_nil_iff]
  intro x hx
  obtain ⟨y, hy, rfl⟩ := List.mem_map.1 hx
  have : ∃ m, y.1.head? = some (uniqueLabel m) := by
    rcases chainR_head_mem func k i _ _ _ y hy with e | ⟨m, _, _, e⟩
    · exact ⟨_, e⟩
    · exact ⟨m, e⟩
  obtain ⟨m, hm⟩ := this
  simp [withCount, notBin, hm, isBinSym_uniqueLabel]

/-- among the additions made for one rule exactly one does not define a binarization symbol, and it un-binarizes
    (inside the finished grammar) to the rule -/
theorem ruleAdds_tops (R R1 R2 : List Rule) (e : Rule) (h : R = R1 ++ e :: R2) (hR : ROK R) :
    ∃ t : Rule, ((ruleAdds (total R1) e.1 e.2.1 e.2.2).filter fun x => notBin x.1) = [t] ∧
      phi (build (allAdds 0 R) []) t.1 t.2.1 = some (e.1, e.2.1) ∧ t.2.2 = e.2.2 := by
  have he : e ∈ R := by rw [h]; simp
  obtain ⟨hnbe, hwe⟩ := hR e he
  by_cases h3 : e.1.length ≤ 3
  · refine ⟨e, ?_, phi_short _ e.1 e.2.1 hnbe h3, rfl⟩
    unfold ruleAdds
    rw [if_pos h3, List.filter_cons_of_pos (by simpa using notBin_of_NBF e.1 hnbe)]
    rfl
  · have hphi := phi_long R R1 R2 e h (ROK_NB R hR) h3 (hwe h3)
    unfold ruleAdds
    rw [if_neg h3]
    obtain ⟨k, hk⟩ : ∃ k, e.1.length - 3 = k + 1 := ⟨e.1.length - 4, by omega⟩
    rw [hk] at hphi ⊢
    simp only [chainR, List.map_cons, chainTop] at hphi ⊢
    refine ⟨withCount e.2.2 ([e.1[0]?.getD [], e.1[1]?.getD [], uniqueLabel (total R1 + 1)], topLin e.2.1),
      ?_, hphi, rfl⟩
    rw [List.filter_cons_of_pos (by
      simp only [withCount, notBin, List.head?_cons, Option.getD_some, NBF_get e.1 hnbe 0]; rfl)]
    rw [chainR_tail_bin]

/-- the non-binarization additions, un-binarized inside the finished grammar, are the rules themselves, in order -/
theorem tops_eq (R : List Rule) (hR : ROK R) : ∀ (R2 R1 : List Rule), R = R1 ++ R2 →
    ((allAdds (total R1) R2).filter fun x => notBin x.1).filterMap (liftC (phi (build (allAdds 0 R) []))) = R2
  | [], _, _ => rfl
  | e :: R2, R1, h => by
    have ih := tops_eq R hR R2 (R1 ++ [e]) (by rw [h]; simp)
    rw [total_append] at ih
    simp only [total, Nat.add_zero] at ih
    obtain ⟨t, ht1, ht2, ht3⟩ := ruleAdds_tops R R1 R2 e h hR
    simp only [allAdds, List.filter_append, List.filterMap_append, ih, ht1]
    simp [liftC, ht2, ht3]

theorem tops_isSome (R : List Rule) (hR : ROK R) : ∀ (R2 R1 : List Rule), R = R1 ++ R2 →
    ∀ x ∈ allAdds (total R1) R2, notBin x.1 = true → (phi (build (allAdds 0 R) []) x.1 x.2.1).isSome = true
  | [], _, _, x, hx, _ => by simp [allAdds] at hx
  | e :: R2, R1, h, x, hx, hq => by
    simp only [allAdds, List.mem_append] at hx
    rcases hx with hx | hx
    · obtain ⟨t, ht1, ht2, _⟩ := ruleAdds_tops R R1 R2 e h hR
      have : x ∈ (ruleAdds (total R1) e.1 e.2.1 e.2.2).filter fun x => notBin x.1 := List.mem_filter.2 ⟨hx, hq⟩
      rw [ht1, List.mem_singleton] at this
      rw [this, ht2]; rfl
    · have ih := tops_isSome R hR R2 (R1 ++ [e]) (by rw [h]; simp) x
      rw [total_append] at ih
      simp only [total, Nat.add_zero] at ih
      exact ih hx hq

theorem unbinOK_build (r : Reordering) (g : Grammar) (hR : ROK (reordered r g)) :
    unbinOK r g (binarizeGrammar r none g) = true := by
  rw [unbinOK_eq, binarizeGrammar_build]
  have ht := tops_eq (reordered r g) hR (reordered r g) [] rfl
  have hs := tops_isSome (reordered r g) hR (reordered r g) [] rfl
  simp only [total] at ht hs
  rw [Bool.and_eq_true]
  constructor
  · rw [List.all_eq_true]
    intro e he
    rw [List.mem_filter] at he
    exact transfer_isSome (allAdds 0 (reordered r g)) notBin (phi (build (allAdds 0 (reordered r g)) [])) hs e
      he.1 he.2
  · apply sameBag_of_perm
    have := transfer_perm (allAdds 0 (reordered r g)) notBin (phi (build (allAdds 0 (reordered r g)) []))
    rw [ht] at this
    exact this


/-! ### the stepping stones -/

theorem allAdds_bin_head : ∀ (s : Nat) (R : List Rule), NB R → ∀ x ∈ allAdds s R, ∀ y,
    x.1.head? = some y → isBinSym y = true → ∃ m, y = uniqueLabel m
  | s, [], _, x, hx, _, _, _ => by simp [allAdds] at hx
  | s, e :: R, hnb, x, hx, y, hy, hb => by
    simp only [allAdds, List.mem_append] at hx
    rcases hx with hx | hx
    · have hf : NBF e.1 := hnb e (by simp)
      unfold ruleAdds at hx
      by_cases h3 : e.1.length ≤ 3
      · simp only [h3, if_true, List.mem_singleton] at hx
        rw [hx] at hy
        have := hf y (List.mem_of_mem_head? hy)
        rw [this] at hb; exact absurd hb (by simp)
      · simp only [h3, if_false] at hx
        obtain ⟨z, hz, rfl⟩ := List.mem_map.1 hx
        rcases chainR_head_mem e.1 _ _ _ _ _ z hz with e' | ⟨m, _, _, e'⟩
        · simp only [withCount] at hy
          rw [e'] at hy
          have := NBF_get e.1 hf 0
          rw [Option.some.inj hy] at this
          rw [this] at hb; exact absurd hb (by simp)
        · simp only [withCount] at hy
          rw [e'] at hy
          exact ⟨m, (Option.some.inj hy).symm⟩
    · exact allAdds_bin_head _ R (fun e he => hnb e (by simp [he])) x hx y hy hb

/-- two rules of the result that define the same binarization symbol are the same rule -/
theorem binDef_unique (R : List Rule) (hnb : NB R) (x : Str) (hx : isBinSym x = true) (z1 z2 : Rule)
    (h1 : z1 ∈ (build (allAdds 0 R) []).rules) (h2 : z2 ∈ (build (allAdds 0 R) []).rules)
    (e1 : z1.1.head? = some x) (e2 : z2.1.head? = some x) : keyOf z1 = keyOf z2 := by
  have k1 : hasKey (build (allAdds 0 R) []).rules z1.1 z1.2.1 := ⟨z1.2.2, h1⟩
  have k2 : hasKey (build (allAdds 0 R) []).rules z2.1 z2.2.1 := ⟨z2.2.2, h2⟩
  rw [hasKey_build] at k1 k2
  rcases k1 with ⟨c1, a1⟩ | ⟨c1, a1⟩
  · rcases k2 with ⟨c2, a2⟩ | ⟨c2, a2⟩
    · obtain ⟨m, rfl⟩ := allAdds_bin_head 0 R hnb _ a1 x e1 hx
      have := allAdds_unique 0 R hnb _ a1 _ a2 m e1 e2
      simp only [Prod.mk.injEq] at this
      simp [keyOf, this.1, this.2.1]
    · simp [Grammar.rules] at a2
  · simp [Grammar.rules] at a1

theorem length_le_one_of_all_eq {α} : ∀ (l : List α), l.Nodup → (∀ a ∈ l, ∀ b ∈ l, a = b) → l.length ≤ 1
  | [], _, _ => by simp
  | [_], _, _ => by simp
  | a :: b :: r, hn, h => by
    have : a = b := h a (by simp) b (by simp)
    subst this
    simp at hn

theorem binSyms_unique' (R : List Rule) (hnb : NB R) (x : Str) (hx : isBinSym x = true) :
    ((build (allAdds 0 R) []).rules.filter fun e => decide (e.1.head? = some x)).length ≤ 1 := by
  have hnd := rules_keys_nodup _ (GN_build (allAdds 0 R) [] GN_nil)
  have hsub : ((build (allAdds 0 R) []).rules.filter fun e => decide (e.1.head? = some x)).Sublist
      (build (allAdds 0 R) []).rules := List.filter_sublist
  have hnd2 := (hsub.map keyOf).nodup hnd
  have := length_le_one_of_all_eq _ hnd2 (by
    intro a ha b hb
    obtain ⟨z1, hz1, rfl⟩ := List.mem_map.1 ha
    obtain ⟨z2, hz2, rfl⟩ := List.mem_map.1 hb
    rw [List.mem_filter] at hz1 hz2
    exact binDef_unique R hnb x hx z1 z2 hz1.1 hz2.1 (by simpa using hz1.2) (by simpa using hz2.2))
  simpa using this

/-! ### counts -/

theorem vget_upsert (v0 v : VertKey) (n : Nat) (vs : AList VertKey Nat) :
    (AList.get? v (AList.upsert v0 (fun o => o.getD 0 + n) vs)).getD 0 =
      (AList.get? v vs).getD 0 + if v = v0 then n else 0 := by
  rw [get?_upsert]
  by_cases hv : v = v0
  · subst hv; simp
  · simp [hv]

theorem lget_upsert (l0 l : Lin) (v0 v : VertKey) (n : Nat) (ls : AList Lin (AList VertKey Nat)) :
    ((AList.get? l (AList.upsert l0 (fun o2 => AList.upsert v0 (fun o3 => o3.getD 0 + n) (o2.getD [])) ls)).bind
        (AList.get? v)).getD 0 =
      ((AList.get? l ls).bind (AList.get? v)).getD 0 + if l = l0 ∧ v = v0 then n else 0 := by
  rw [get?_upsert]
  by_cases hl : l = l0
  · subst hl
    simp only [if_true, Option.bind_some, true_and, vget_upsert]
    cases AList.get? l ls with
    | none => simp [AList.get?]
    | some vs => simp
  · simp [hl]

theorem gramCount_add (G : Grammar) (f0 : Func) (l0 : Lin) (v0 : VertKey) (n : Nat) (f : Func) (l : Lin) (v : VertKey) :
    gramCount (G.add f0 l0 v0 n) f l v = gramCount G f l v + if f = f0 ∧ l = l0 ∧ v = v0 then n else 0 := by
  unfold gramCount Grammar.add
  rw [get?_upsert]
  by_cases hf : f = f0
  · subst hf
    simp only [if_true, Option.bind_some, true_and, lget_upsert]
    cases AList.get? f G with
    | none => simp [AList.get?]
    | some ls => simp
  · simp [hf]

theorem gramCount_build (f : Func) (l : Lin) : ∀ (A : List Rule) (G : Grammar),
    gramCount (build A G) f l .default = gramCount G f l .default + ksum (f, l) A
  | [], G => by simp [build_nil, ksum, rsum]
  | e :: A, G => by
    rw [build_cons, gramCount_build f l A, addD, gramCount_add]
    unfold ksum
    rw [rsum_cons]
    by_cases h : f = e.1 ∧ l = e.2.1
    · have : (e.1, e.2.1) = (f, l) := by rw [h.1, h.2]
      simp [h, this]; omega
    · have : ¬ (e.1, e.2.1) = (f, l) := by
        intro e'; simp only [Prod.mk.injEq] at e'; exact h ⟨e'.1.symm, e'.2.symm⟩
      have h' : ¬ (f = e.1 ∧ l = e.2.1 ∧ VertKey.default = VertKey.default) := fun x => h ⟨x.1, x.2.1⟩
      rw [if_neg h', if_neg this]; omega

theorem ksum_append (k : Func × Lin) (a b : List Rule) : ksum k (a ++ b) = ksum k a + ksum k b := by
  unfold ksum; exact rsum_append _ a b

theorem small_kept (R : List Rule) (e : Rule) (he : e ∈ R) (h3 : e.1.length ≤ 3) :
    e.2.2 ≤ gramCount (build (allAdds 0 R) []) e.1 e.2.1 .default := by
  obtain ⟨R1, R2, rfl⟩ := List.append_of_mem he
  rw [gramCount_build, allAdds_append]
  simp only [allAdds, ksum_append]
  have : ksum (e.1, e.2.1) (ruleAdds (0 + total R1) e.1 e.2.1 e.2.2) = e.2.2 := by
    unfold ruleAdds
    rw [if_pos h3]
    simp [ksum, rsum]
  omega


/-! ### `chainOf` (one rule binarized on its own) is the chain with labels from 1 -/

theorem build_fresh : ∀ (A : List Rule) (G : Grammar), (A.map (·.1)).Nodup → (∀ a ∈ A, ∀ p ∈ G, p.1 ≠ a.1) →
    (build A G).rules = G.rules ++ A
  | [], G, _, _ => by simp [build_nil]
  | e :: A, G, hn, hf => by
    rw [List.map_cons, List.nodup_cons] at hn
    have hadd : addD G e = G ++ [(e.1, [(e.2.1, [(VertKey.default, e.2.2)])])] := by
      unfold addD Grammar.add
      rcases upsert_cases e.1 (fun o => AList.upsert e.2.1 (fun o2 => AList.upsert VertKey.default
          (fun o3 => o3.getD 0 + e.2.2) (o2.getD [])) (o.getD [])) G with ⟨_, h2⟩ | ⟨G1, ls, G2, h1, _, _⟩
      · rw [h2]; simp [AList.upsert]
      · exact absurd rfl (hf e (by simp) (e.1, ls) (by rw [h1]; simp))
    rw [build_cons, build_fresh A _ hn.2, hadd, rules_append, rules_single]
    · simp [vsum]
    · intro a ha p hp
      rw [hadd] at hp
      rcases List.mem_append.1 hp with hp | hp
      · exact hf a (by simp [ha]) p hp
      · simp only [List.mem_singleton] at hp
        rw [hp]
        intro e'
        exact hn.1 (List.mem_map.2 ⟨a, ha, e'.symm⟩)

theorem chainR_funcs_nodup (func : Func) (k i : Nat) (h : Str) (t : Lin) (s : Nat)
    (hh : ∀ m, h ≠ uniqueLabel m) : ((chainR func k i h t s).map (·.1)).Nodup := by
  have hheads : ((chainR func k i h t s).map (·.1.head?)).Nodup := by
    rw [chainR_heads, List.nodup_cons]
    constructor
    · intro hm
      obtain ⟨m, _, e⟩ := List.mem_map.1 hm
      exact hh m (Option.some.inj e).symm
    · unfold List.Nodup
      rw [List.pairwise_map]
      refine (List.nodup_range' (s := s + 1) (n := k) (step := 1) (by omega)).imp ?_
      intro a b hab e
      exact hab (uniqueLabel_inj (Option.some.inj e))
  unfold List.Nodup at hheads ⊢
  rw [List.pairwise_map] at hheads ⊢
  exact hheads.imp (fun hab e => hab (by rw [e]))

theorem chainOf_eq (f : Func) (l : Lin) (hf : NBF f) (h3 : ¬ f.length ≤ 3) :
    chainOf none f l [] = chainR f (f.length - 3) 1 (f[0]?.getD []) l 0 := by
  unfold chainOf
  rw [binarizeRule_build]
  simp only
  have hr : ∀ G : Grammar, (G.flatMap fun x => match x with | (f, ls) => ls.map fun x => match x with | (l, _) => (f, l)) =
      G.rules.map fun e => (e.1, e.2.1) := by
    intro G
    simp only [Grammar.rules, List.map_flatMap, List.map_map]
    rfl
  rw [hr]
  unfold ruleAdds
  rw [if_neg h3, build_fresh]
  · simp only [Grammar.rules, List.flatMap_nil, List.nil_append, List.map_map]
    conv => rhs; rw [← List.map_id (chainR f (f.length - 3) 1 (f[0]?.getD []) l 0)]
    apply List.map_congr_left
    intro x _; rfl
  · rw [List.map_map]
    exact chainR_funcs_nodup f _ _ _ _ _ (fun m => NBF_ne f hf 0 m)
  · simp

/-! ### the hypotheses of `chain_composes` give `CWF` -/

theorem CWF_of_wf (f : Func) (l : Lin) (h : wfLin l ((fanOut l).drop 1) = true)
    (hl : (fanOut l).length = f.length) : CWF f l := by
  unfold CWF
  have e : (l.flatMap fun arg => arg.map (·.1)) = l.flatten.map (·.1) := by
    simp [List.flatMap_def, List.map_flatten]
  have hd : (fanOut l).drop 1 = (List.range (f.length - 1)).map (occ l) := by
    unfold fanOut at hl ⊢
    simp only [List.length_cons, List.length_map, List.length_range] at hl
    simp only [List.drop_succ_cons, List.drop_zero]
    rw [← hl]
    simp only [Nat.add_sub_cancel]
    apply List.map_congr_left
    intro i _
    unfold occ
    rw [e]
    rfl
  rw [← hd]; exact h


/-! ### reordering keeps the hypotheses -/

theorem NBF_reorder (r : Reordering) (f : Func) (l : Lin) (h : NBF f) : NBF (reorder r f l).1 := by
  cases r
  · exact h
  · exact h
  · show NBF (reorderingOptimal f l).1
    rw [reorderingOptimal_fst]
    intro x hx
    rcases List.mem_cons.1 hx with rfl | hx
    · exact NBF_get f h 0
    · obtain ⟨o, _, rfl⟩ := List.mem_map.1 hx
      exact NBF_get f h o

theorem pickOrder_full (l : Lin) (k : Nat) :
    (pickOrder l ((List.range k).map (· + 1)) k).Perm ((List.range k).map (· + 1)) :=
  pickOrder_perm_aux l k _ (nodup_range_succ k) (by simp)

theorem reorder_length (r : Reordering) (f : Func) (l : Lin) (h : f ≠ []) : (reorder r f l).1.length = f.length := by
  cases r
  · rfl
  · rfl
  · show (reorderingOptimal f l).1.length = f.length
    rw [reorderingOptimal_fst]
    have := (pickOrder_full l (f.length - 1)).length_eq
    simp only [List.length_map, List.length_range] at this
    simp only [List.length_cons, List.length_map, this]
    have : 0 < f.length := List.length_pos_iff.2 h
    omega

theorem reorder_length_le (r : Reordering) (f : Func) (l : Lin) (h : f.length ≤ 3) : (reorder r f l).1.length ≤ 3 := by
  by_cases e : f = []
  · subst e
    cases r <;> simp [reorder, reorderingOptimal, pickOrder]
  · rw [reorder_length r f l e]; exact h

/-- renaming the right-hand-side positions of a linearization -/
def relabel (σ : Int → Nat) (l : Lin) : Lin := l.map fun a => a.map fun v => ((σ v.1 : Int), v.2)

theorem relabel_flatten (σ : Int → Nat) (l : Lin) :
    (relabel σ l).flatten = l.flatten.map fun v => ((σ v.1 : Int), v.2) := by
  unfold relabel
  rw [List.map_flatten]

theorem wfLin_adj (l : Lin) (fo : List Nat) (h : wfLin l fo = true) :
    ∀ a ∈ l, ∀ p ∈ a.zip (a.drop 1), p.1.1 ≠ p.2.1 := by
  unfold wfLin at h
  simp only [Bool.and_eq_true, List.all_eq_true] at h
  intro a ha p hp
  have := (h.2 a ha).2 p hp
  simpa using this

theorem wfLin_relabel (l : Lin) (k : Nat) (σ : Int → Nat) (τ : Nat → Nat)
    (h1 : ∀ x : Int, 0 ≤ x → x.toNat < k → σ x < k ∧ τ (σ x) = x.toNat)
    (h2 : ∀ i, i < k → τ i < k ∧ σ (τ i : Int) = i)
    (h : wfLin l ((List.range k).map (occ l)) = true) :
    wfLin (relabel σ l) ((List.range k).map (occ (relabel σ l))) = true := by
  obtain ⟨p1, p2, p3⟩ := wfLin_parts l _ h
  have p4 := wfLin_adj l _ h
  simp only [List.length_map, List.length_range] at p1 p2
  -- σ v.1 = i ↔ v.1 = τ i on the variables of l
  have key : ∀ v ∈ l.flatten, ∀ i, i < k → ((σ v.1 = i) ↔ v.1 = (τ i : Int)) := by
    intro v hv i hi
    obtain ⟨a, b⟩ := p1 v hv
    constructor
    · intro e
      have := (h1 v.1 a b).2
      rw [e] at this
      omega
    · intro e
      rw [e]; exact (h2 i hi).2
  have hocc : ∀ i, i < k → occ (relabel σ l) i = occ l (τ i) := by
    intro i hi
    unfold occ
    rw [relabel_flatten, List.map_map, List.count_eq_countP, List.count_eq_countP, List.countP_map, List.countP_map]
    apply List.countP_congr
    intro v hv
    have := key v hv i hi
    simp only [Function.comp, beq_iff_eq]
    constructor
    · intro e; exact this.1 (by omega)
    · intro e; have := this.2 e; omega
  unfold wfLin
  simp only [Bool.and_eq_true, List.all_eq_true, decide_eq_true_eq, List.length_map, List.length_range,
    List.mem_range, beq_iff_eq]
  refine ⟨⟨?_, ?_⟩, ?_⟩
  · intro v hv
    rw [relabel_flatten] at hv
    obtain ⟨w, hw, rfl⟩ := List.mem_map.1 hv
    obtain ⟨a, b⟩ := p1 w hw
    have := (h1 w.1 a b).1
    simp only
    omega
  · intro i hi
    have hget : ((List.range k).map (occ (relabel σ l)))[i]?.getD 0 = occ l (τ i) := by
      simp [hi, hocc i hi]
    rw [hget, relabel_flatten, List.filter_map, List.map_map]
    have := p2 (τ i) (h2 i hi).1
    have hget2 : ((List.range k).map (occ l))[τ i]?.getD 0 = occ l (τ i) := by
      simp [(h2 i hi).1]
    rw [hget2] at this
    rw [← this]
    have hf : l.flatten.filter ((fun v : Int × Nat => v.1 == (i : Int)) ∘ fun v => ((σ v.1 : Int), v.2)) =
        l.flatten.filter (fun v => v.1 == ((τ i : Nat) : Int)) := by
      apply List.filter_congr
      intro v hv
      have := key v hv i hi
      simp only [Function.comp]
      by_cases e : v.1 = (τ i : Int)
      · have e2 : (σ v.1 : Int) = (i : Int) := by have := this.2 e; omega
        rw [beq_iff_eq.2 e2, beq_iff_eq.2 e]
      · have e' : ¬ σ v.1 = i := fun x => e (this.1 x)
        have e'' : ¬ (σ v.1 : Int) = (i : Int) := by omega
        rw [beq_eq_false_iff_ne.2 e'', beq_eq_false_iff_ne.2 e]
    rw [hf]
    rfl
  · intro a' ha'
    unfold relabel at ha'
    obtain ⟨a, ha, rfl⟩ := List.mem_map.1 ha'
    refine ⟨by simpa using p3 a ha, ?_⟩
    intro p hp
    rw [← List.map_drop, List.zip_map] at hp
    obtain ⟨q, hq, rfl⟩ := List.mem_map.1 hp
    have hne := p4 a ha q hq
    have m1 : q.1 ∈ l.flatten := List.mem_flatten.2 ⟨a, ha, (List.of_mem_zip hq).1⟩
    have m2 : q.2 ∈ l.flatten := List.mem_flatten.2 ⟨a, ha, List.mem_of_mem_drop (List.of_mem_zip hq).2⟩
    obtain ⟨a1, b1⟩ := p1 q.1 m1
    obtain ⟨a2, b2⟩ := p1 q.2 m2
    have t1 := (h1 q.1.1 a1 b1).2
    have t2 := (h1 q.2.1 a2 b2).2
    simp only [Prod.map, bne_iff_ne, ne_eq]
    intro e
    have : σ q.1.1 = σ q.2.1 := by omega
    rw [this] at t1
    apply hne
    omega


theorem perm_positions (order : List Nat) (k : Nat) (hp : order.Perm ((List.range k).map (· + 1))) :
    let σ : Int → Nat := fun x => (order.idxOf? (x + 1).toNat).getD 0
    let τ : Nat → Nat := fun i => order[i]?.getD 0 - 1
    (∀ x : Int, 0 ≤ x → x.toNat < k → σ x < k ∧ τ (σ x) = x.toNat) ∧
    (∀ i, i < k → τ i < k ∧ σ (τ i : Int) = i) := by
  intro σ τ
  have hlen : order.length = k := by simpa using hp.length_eq
  have hnd : order.Nodup := hp.symm.nodup (nodup_range_succ k)
  have hmem : ∀ y, y ∈ order ↔ ∃ j, j < k ∧ j + 1 = y := by
    intro y
    rw [hp.mem_iff]
    simp
  constructor
  · intro x hx hxk
    have hy : (x + 1).toNat ∈ order := (hmem _).2 ⟨x.toNat, hxk, by omega⟩
    cases hi : order.idxOf? (x + 1).toNat with
    | none => rw [List.idxOf?_eq_none_iff] at hi; exact absurd hy hi
    | some i =>
      obtain ⟨hil, hie, _⟩ := List.idxOf?_eq_some_iff.1 hi
      have e1 : σ x = i := by show (order.idxOf? (x + 1).toNat).getD 0 = i; rw [hi]; rfl
      rw [e1]
      refine ⟨by omega, ?_⟩
      show order[i]?.getD 0 - 1 = x.toNat
      rw [List.getElem?_eq_getElem hil, Option.getD_some, hie]
      omega
  · intro i hi
    have hil : i < order.length := by omega
    obtain ⟨j, hj, hje⟩ := (hmem order[i]).1 (List.getElem_mem hil)
    have e1 : τ i = j := by
      show order[i]?.getD 0 - 1 = j
      rw [List.getElem?_eq_getElem hil, Option.getD_some]; omega
    rw [e1]
    refine ⟨hj, ?_⟩
    show (order.idxOf? ((j : Int) + 1).toNat).getD 0 = i
    have : ((j : Int) + 1).toNat = order[i] := by omega
    rw [this]
    have : order.idxOf? order[i] = some i := by
      rw [List.idxOf?_eq_some_iff]
      refine ⟨hil, rfl, ?_⟩
      intro j' hj' e
      have := (List.getElem_inj (h₀ := by omega) (h₁ := hil) hnd).1 e
      omega
    rw [this]; rfl

theorem CWF_reorderingOptimal (f : Func) (l : Lin) (hf : f ≠ []) (h : CWF f l) :
    CWF (reorderingOptimal f l).1 (reorderingOptimal f l).2 := by
  unfold CWF at h ⊢
  have hlen : (reorderingOptimal f l).1.length = f.length := reorder_length .optimal f l hf
  rw [hlen]
  have hp := perm_positions (pickOrder l ((List.range (f.length - 1)).map (· + 1)) (f.length - 1)) (f.length - 1)
    (pickOrder_full l (f.length - 1))
  exact wfLin_relabel l (f.length - 1)
    (fun x => ((pickOrder l ((List.range (f.length - 1)).map (· + 1)) (f.length - 1)).idxOf? (x + 1).toNat).getD 0)
    (fun i => (pickOrder l ((List.range (f.length - 1)).map (· + 1)) (f.length - 1))[i]?.getD 0 - 1) hp.1 hp.2 h

theorem CWF_reorder (r : Reordering) (f : Func) (l : Lin) (hf : f ≠ []) (h : CWF f l) :
    CWF (reorder r f l).1 (reorder r f l).2 := by
  cases r
  · exact h
  · exact h
  · exact CWF_reorderingOptimal f l hf h

end TT.Lemmas.Unbin
