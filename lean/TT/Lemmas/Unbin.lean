/-
  Helper lemmas for C07More: un-binarizing a whole deterministic grammar.  Core only.
-/
import TT.Spec.Grammar
import TT.Lemmas.GramBin
namespace TT.Lemmas.Unbin
open TT TT.Spec TT.Lemmas.GramBin

abbrev Rule := Func × Lin × Nat

/-! ### `upsert` and `Grammar.add` seen on the list of rules -/

theorem upsert_cases {κ ν} [DecidableEq κ] (k : κ) (F : Option ν → ν) (m : AList κ ν) :
    ((∀ p ∈ m, p.1 ≠ k) ∧ AList.upsert k F m = m ++ [(k, F none)]) ∨
    (∃ m1 v m2, m = m1 ++ (k, v) :: m2 ∧ (∀ p ∈ m1, p.1 ≠ k) ∧
      AList.upsert k F m = m1 ++ (k, F (some v)) :: m2) := by
  induction m with
  | nil => left; simp [AList.upsert]
  | cons a r ih =>
    obtain ⟨a, v⟩ := a
    simp only [AList.upsert]
    by_cases h : a = k
    · subst h
      right
      exact ⟨[], v, r, by simp⟩
    · simp only [h, if_false]
      rcases ih with ⟨h1, h2⟩ | ⟨m1, v', m2, h1, h2, h3⟩
      · left
        refine ⟨?_, by rw [h2]; rfl⟩
        intro p hp
        rcases List.mem_cons.1 hp with rfl | hp
        · exact h
        · exact h1 p hp
      · right
        refine ⟨(a, v) :: m1, v', m2, by rw [h1]; rfl, ?_, by rw [h3]; rfl⟩
        intro p hp
        rcases List.mem_cons.1 hp with rfl | hp
        · exact h
        · exact h2 p hp

theorem rules_append (g1 g2 : Grammar) : Grammar.rules (g1 ++ g2) = Grammar.rules g1 ++ Grammar.rules g2 := by
  simp [Grammar.rules]

theorem rules_single (f : Func) (ls : AList Lin (AList VertKey Nat)) :
    Grammar.rules [(f, ls)] = ls.map fun p => (f, p.1, vsum p.2) := by
  simp [Grammar.rules, vsum]

/-- adding a count either inserts one new rule or raises the count of one rule, everything else stays in place -/
theorem rules_add_cases (G : Grammar) (f : Func) (l : Lin) (v : VertKey) (n : Nat) :
    ∃ X Y, (G.rules = X ++ Y ∧ (G.add f l v n).rules = X ++ (f, l, n) :: Y) ∨
      (∃ c, G.rules = X ++ (f, l, c) :: Y ∧ (G.add f l v n).rules = X ++ (f, l, c + n) :: Y) := by
  unfold Grammar.add
  rcases upsert_cases f (fun o => AList.upsert l (fun o2 => AList.upsert v (fun o3 => o3.getD 0 + n) (o2.getD []))
      (o.getD [])) G with ⟨_, h2⟩ | ⟨G1, ls, G2, h1, _, h3⟩
  · refine ⟨G.rules, [], Or.inl ⟨by simp, ?_⟩⟩
    rw [h2, rules_append, rules_single]
    simp [AList.upsert, vsum]
  · rw [h3, h1]
    simp only [Option.getD_some]
    rcases upsert_cases l (fun o2 => AList.upsert v (fun o3 => o3.getD 0 + n) (o2.getD [])) ls with
      ⟨_, k2⟩ | ⟨ls1, vs, ls2, k1, _, k3⟩
    · refine ⟨Grammar.rules G1 ++ ls.map (fun p => (f, p.1, vsum p.2)), Grammar.rules G2, Or.inl ⟨?_, ?_⟩⟩
      · rw [rules_append, rules_cons]; simp
      · rw [rules_append, rules_cons, k2]; simp [AList.upsert, vsum]
    · refine ⟨Grammar.rules G1 ++ ls1.map (fun p => (f, p.1, vsum p.2)),
        ls2.map (fun p => (f, p.1, vsum p.2)) ++ Grammar.rules G2, Or.inr ⟨vsum vs, ?_, ?_⟩⟩
      · rw [rules_append, rules_cons, k1]; simp
      · rw [rules_append, rules_cons, k3]; simp [vsum_upsert]


/-- a rule with this function and linearization is present -/
def hasKey (rs : List Rule) (f : Func) (l : Lin) : Prop := ∃ c, (f, l, c) ∈ rs

/-- weighted sum of the counts -/
def rsum (w : Func → Lin → Nat) (rs : List Rule) : Nat := (rs.map fun e => w e.1 e.2.1 * e.2.2).sum

theorem rsum_append (w : Func → Lin → Nat) (a b : List Rule) : rsum w (a ++ b) = rsum w a + rsum w b := by
  simp [rsum]

theorem rsum_cons (w : Func → Lin → Nat) (e : Rule) (b : List Rule) :
    rsum w (e :: b) = w e.1 e.2.1 * e.2.2 + rsum w b := by
  simp [rsum]

theorem hasKey_add (G : Grammar) (f0 : Func) (l0 : Lin) (v : VertKey) (n : Nat) (f : Func) (l : Lin) :
    hasKey (G.add f0 l0 v n).rules f l ↔ (f = f0 ∧ l = l0) ∨ hasKey G.rules f l := by
  obtain ⟨X, Y, h⟩ := rules_add_cases G f0 l0 v n
  rcases h with ⟨h1, h2⟩ | ⟨c, h1, h2⟩
  · rw [h1, h2]
    simp only [hasKey, List.mem_append, List.mem_cons, Prod.mk.injEq]
    constructor
    · rintro ⟨c, h | ⟨a, b, _⟩ | h⟩
      · exact Or.inr ⟨c, Or.inl h⟩
      · exact Or.inl ⟨a, b⟩
      · exact Or.inr ⟨c, Or.inr h⟩
    · rintro (⟨a, b⟩ | ⟨c, h | h⟩)
      · exact ⟨n, Or.inr (Or.inl ⟨a, b, rfl⟩)⟩
      · exact ⟨c, Or.inl h⟩
      · exact ⟨c, Or.inr (Or.inr h)⟩
  · rw [h1, h2]
    simp only [hasKey, List.mem_append, List.mem_cons, Prod.mk.injEq]
    constructor
    · rintro ⟨c', h | ⟨a, b, _⟩ | h⟩
      · exact Or.inr ⟨c', Or.inl h⟩
      · exact Or.inl ⟨a, b⟩
      · exact Or.inr ⟨c', Or.inr (Or.inr h)⟩
    · rintro (⟨a, b⟩ | ⟨c', h | ⟨a, b, _⟩ | h⟩)
      · exact ⟨c + n, Or.inr (Or.inl ⟨a, b, rfl⟩)⟩
      · exact ⟨c', Or.inl h⟩
      · exact ⟨c + n, Or.inr (Or.inl ⟨a, b, rfl⟩)⟩
      · exact ⟨c', Or.inr (Or.inr h)⟩

theorem rsum_add (w : Func → Lin → Nat) (G : Grammar) (f : Func) (l : Lin) (v : VertKey) (n : Nat) :
    rsum w (G.add f l v n).rules = rsum w G.rules + w f l * n := by
  obtain ⟨X, Y, h⟩ := rules_add_cases G f l v n
  rcases h with ⟨h1, h2⟩ | ⟨c, h1, h2⟩
  · rw [h1, h2]; simp only [rsum_append, rsum_cons]; omega
  · rw [h1, h2]; simp only [rsum_append, rsum_cons, Nat.mul_add]; omega

/-! ### grammars built by a sequence of additions -/

def addD (G : Grammar) (e : Rule) : Grammar := G.add e.1 e.2.1 .default e.2.2
def build (A : List Rule) (G : Grammar) : Grammar := A.foldl addD G

theorem build_nil (G : Grammar) : build [] G = G := rfl
theorem build_cons (e : Rule) (A : List Rule) (G : Grammar) : build (e :: A) G = build A (addD G e) := rfl
theorem build_append (A B : List Rule) (G : Grammar) : build (A ++ B) G = build B (build A G) := by
  simp [build, List.foldl_append]

theorem hasKey_build : ∀ (A : List Rule) (G : Grammar) (f : Func) (l : Lin),
    hasKey (build A G).rules f l ↔ hasKey A f l ∨ hasKey G.rules f l
  | [], G, f, l => by simp [build_nil, hasKey]
  | e :: A, G, f, l => by
    rw [build_cons, hasKey_build A, addD, hasKey_add]
    obtain ⟨f0, l0, c0⟩ := e
    simp only [hasKey, List.mem_cons, Prod.mk.injEq]
    constructor
    · rintro (⟨c, h⟩ | ⟨a, b⟩ | h)
      · exact Or.inl ⟨c, Or.inr h⟩
      · exact Or.inl ⟨c0, Or.inl ⟨a, b, rfl⟩⟩
      · exact Or.inr h
    · rintro (⟨c, ⟨a, b, _⟩ | h⟩ | h)
      · exact Or.inr (Or.inl ⟨a, b⟩)
      · exact Or.inl ⟨c, h⟩
      · exact Or.inr (Or.inr h)

theorem rsum_build (w : Func → Lin → Nat) : ∀ (A : List Rule) (G : Grammar),
    rsum w (build A G).rules = rsum w G.rules + rsum w A
  | [], G => by simp [build_nil, rsum]
  | e :: A, G => by
    rw [build_cons, rsum_build w A, addD, rsum_add, rsum_cons]; omega

/-! ### no rule occurs twice in a grammar built by additions -/

def GN (G : Grammar) : Prop := (G.map (·.1)).Nodup ∧ ∀ p ∈ G, (p.2.map (·.1)).Nodup

theorem upsert_keys_nodup {κ ν} [DecidableEq κ] (k : κ) (F : Option ν → ν) (m : AList κ ν)
    (h : (m.map (·.1)).Nodup) : ((AList.upsert k F m).map (·.1)).Nodup := by
  rcases upsert_cases k F m with ⟨h1, h2⟩ | ⟨m1, v, m2, h1, _, h3⟩
  · rw [h2, List.map_append, List.nodup_append]
    refine ⟨h, by simp, ?_⟩
    intro a ha b hb
    simp only [List.map_cons, List.map_nil, List.mem_singleton] at hb
    obtain ⟨p, hp, rfl⟩ := List.mem_map.1 ha
    rw [hb]; exact h1 p hp
  · rw [h3]; rw [h1] at h; simpa using h

theorem GN_add (G : Grammar) (f : Func) (l : Lin) (v : VertKey) (n : Nat) (h : GN G) : GN (G.add f l v n) := by
  refine ⟨upsert_keys_nodup _ _ _ h.1, ?_⟩
  unfold Grammar.add
  rcases upsert_cases f (fun o => AList.upsert l (fun o2 => AList.upsert v (fun o3 => o3.getD 0 + n) (o2.getD []))
      (o.getD [])) G with ⟨_, h2⟩ | ⟨G1, ls, G2, h1, _, h3⟩
  · rw [h2]
    intro p hp
    rcases List.mem_append.1 hp with hp | hp
    · exact h.2 p hp
    · simp only [List.mem_singleton] at hp
      rw [hp]; simp [AList.upsert]
  · rw [h3]
    intro p hp
    rcases List.mem_append.1 hp with hp | hp
    · exact h.2 p (by rw [h1]; simp [hp])
    · rcases List.mem_cons.1 hp with rfl | hp
      · exact upsert_keys_nodup _ _ _ (h.2 (f, ls) (by rw [h1]; simp))
      · exact h.2 p (by rw [h1]; simp [hp])

theorem GN_build : ∀ (A : List Rule) (G : Grammar), GN G → GN (build A G)
  | [], _, h => h
  | _ :: A, G, h => GN_build A _ (GN_add G _ _ _ _ h)

def keyOf (e : Rule) : Func × Lin := (e.1, e.2.1)

theorem rules_keys_nodup (G : Grammar) (h : GN G) : (G.rules.map keyOf).Nodup := by
  unfold List.Nodup
  rw [List.pairwise_map]
  unfold Grammar.rules
  rw [List.pairwise_flatMap]
  constructor
  · rintro ⟨f, ls⟩ hp
    have := h.2 (f, ls) hp
    unfold List.Nodup at this
    rw [List.pairwise_map] at this
    simp only [List.pairwise_map]
    refine this.imp ?_
    intro a b hab e
    simp only [keyOf, Prod.mk.injEq] at e
    exact hab e.2
  · have := h.1
    unfold List.Nodup at this
    rw [List.pairwise_map] at this
    refine this.imp ?_
    rintro ⟨f1, ls1⟩ ⟨f2, ls2⟩ hab x hx y hy e
    simp only [List.mem_map] at hx hy
    obtain ⟨p, _, rfl⟩ := hx
    obtain ⟨q, _, rfl⟩ := hy
    simp only [keyOf, Prod.mk.injEq] at e
    exact hab e.1

theorem GN_nil : GN [] := by simp [GN]


/-! ### the additions made by `binarizeRule none` and `binarizeGrammar _ none` -/

/-- the chain written for the rule "`h` -> `func[i]` `func[i+1]` ... " with linearization `t`, `k` further
    binarization symbols needed, label counter at `s` -/
def chainR (func : Func) : (k : Nat) → (i : Nat) → (h : Str) → (t : Lin) → (s : Nat) → List (Func × Lin)
  | 0, i, h, t, _ => [([h, func[i]?.getD [], func[i + 1]?.getD []], t)]
  | k + 1, i, h, t, s =>
    ([h, func[i]?.getD [], uniqueLabel (s + 1)], topLin t) ::
      chainR func k (i + 1) (uniqueLabel (s + 1)) (restLin t) (s + 1)

def withCount (c : Nat) (x : Func × Lin) : Rule := (x.1, x.2, c)

/-- number of labels a rule consumes -/
def nlab (f : Func) : Nat := f.length - 3

def ruleAdds (s : Nat) (f : Func) (l : Lin) (c : Nat) : List Rule :=
  if f.length ≤ 3 then [(f, l, c)] else (chainR f (f.length - 3) 1 (f[0]?.getD []) l s).map (withCount c)

def allAdds : Nat → List Rule → List Rule
  | _, [] => []
  | s, e :: R => ruleAdds s e.1 e.2.1 e.2.2 ++ allAdds (s + nlab e.1) R

/-- the rules of `g` after reordering -/
def reordered (r : Reordering) (g : Grammar) : List Rule :=
  g.rules.map fun e => ((reorder r e.1 e.2.1).1, (reorder r e.1 e.2.1).2, e.2.2)

theorem genState_ext (a : GenState) (n : Nat) (h : a.numb = n) : a = ⟨n⟩ := by
  cases a; simp_all

theorem binMid_build (func : Func) (vert : List Str) (fo : List Nat) (cnt : Nat) :
    ∀ (steps i : Nat) (bl : Str) (tl : Lin) (st : GenState) (res : Grammar),
    (binMid none func vert fo cnt i steps bl tl st res).2.2.1.numb = st.numb + steps ∧
    (binMid none func vert fo cnt i steps bl tl st res).2.2.2.add
        [(binMid none func vert fo cnt i steps bl tl st res).1, func[i + steps + 1]?.getD [],
          func[i + steps + 2]?.getD []]
        (restLin (binMid none func vert fo cnt i steps bl tl st res).2.1) .default cnt =
      build ((chainR func steps (i + 1) bl (restLin tl) st.numb).map (withCount cnt)) res
  | 0, i, bl, tl, st, res => by
    rw [binMid_zero]
    simp [chainR, withCount, build, addD]
  | k + 1, i, bl, tl, st, res => by
    rw [binMid_succ]
    have ih := binMid_build func vert fo cnt k (i + 1) (uniqueLabel (st.numb + 1)) (restLin tl) ⟨st.numb + 1⟩
      (res.add [bl, func[i + 1]?.getD [], uniqueLabel (st.numb + 1)] (topLin (restLin tl)) .default cnt)
    have e1 : i + 1 + k + 1 = i + (k + 1) + 1 := by omega
    have e2 : i + 1 + k + 2 = i + (k + 1) + 2 := by omega
    rw [e1, e2] at ih
    refine ⟨?_, ?_⟩
    · have := ih.1
      simp only [nextLabel] at this ⊢
      rw [this]; omega
    · simp only [nextLabel]
      rw [ih.2]
      simp [chainR, withCount, build, addD]

theorem binarizeRule_build (f : Func) (l : Lin) (c : Nat) (vert : List Str) (st : GenState) (res : Grammar) :
    binarizeRule none f l c vert st res = (⟨st.numb + nlab f⟩, build (ruleAdds st.numb f l c) res) := by
  by_cases h3 : f.length ≤ 3
  · rw [binarizeRule_small _ _ _ _ _ _ _ h3]
    have : nlab f = 0 := by unfold nlab; omega
    simp [ruleAdds, h3, this, build, addD]
  · rw [binarizeRule_large _ _ _ _ _ _ _ h3]
    unfold midOf
    have ih := binMid_build f vert (fanOut l) c (f.length - 4) 1 (uniqueLabel (st.numb + 1)) l ⟨st.numb + 1⟩
      (res.add [f[0]?.getD [], f[1]?.getD [], uniqueLabel (st.numb + 1)] (topLin l) .default c)
    have e1 : 1 + (f.length - 4) + 1 = f.length - 2 := by omega
    have e2 : 1 + (f.length - 4) + 2 = f.length - 1 := by omega
    have e3 : f.length - 3 = (f.length - 4) + 1 := by omega
    rw [e1, e2] at ih
    simp only [nextLabel]
    rw [ih.2]
    congr 1
    · apply genState_ext
      have := ih.1
      simp only at this
      rw [this]; unfold nlab; omega
    · simp only [ruleAdds, h3, if_false]
      rw [e3]
      simp [chainR, withCount, build, addD]

theorem fold_build (r : Reordering) : ∀ (rs : List Rule) (st : GenState) (res : Grammar),
    (rs.foldl (fun (acc : GenState × Grammar) (e : Func × Lin × Nat) =>
        let (f, l, c) := e
        let (f', l') := reorder r f l
        binarizeRule none f' l' c [] acc.1 acc.2) (st, res)).2 =
      build (allAdds st.numb (rs.map fun e => ((reorder r e.1 e.2.1).1, (reorder r e.1 e.2.1).2, e.2.2))) res
  | [], st, res => rfl
  | e :: rs, st, res => by
    obtain ⟨f, l, c⟩ := e
    simp only [List.foldl_cons, List.map_cons, allAdds]
    rw [binarizeRule_build, fold_build r rs, build_append]

theorem binarizeGrammar_build (r : Reordering) (g : Grammar) :
    binarizeGrammar r none g = build (allAdds 0 (reordered r g)) [] := by
  unfold binarizeGrammar reordered
  exact fold_build r g.rules {} []

end TT.Lemmas.Unbin
