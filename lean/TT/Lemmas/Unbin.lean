/-
  Helper lemmas for C07More: un-binarizing a whole deterministic grammar.  Core only.
-/
import TT.Spec.Grammar
import TT.Lemmas.GramBin
namespace TT.Lemmas.Unbin
open TT TT.Spec TT.Lemmas.GramBin

end TT.Lemmas.Unbin
