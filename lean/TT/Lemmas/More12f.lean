/-
  Helper lemmas of wave 12 (C16 / C18).  Core only.
  * `TT.Lemmas.More12f`: run ends and maximal runs of a set of positions, uniqueness of the block decomposition,
    per-degree counts of the `GapDegree` accumulator, the TIGER-XML reader sentence by sentence;
  * `TT.Lemmas.Lopar12`: association lists / grammars / lexicons as finite maps, the LoPar writer's files up to line order;
  * `TT.Lemmas.Disco12`: the discobracket reader loop (`dStep`, fuel irrelevance, `loop_reach`, lexer cut lemmas).
-/
import TT.Spec.More12f
import TT.Lemmas.Analysis
import TT.Lemmas.Proc
import TT.Lemmas.Run
import TT.Lemmas.GramOut
import TT.Lemmas.Unbin
import TT.Props.C09
import TT.Lemmas.Read
import TT.Lemmas.More4
open TT TT.Tree TT.Spec TT.Lemmas.WF TT.Props.C16 TT.Lemmas.Proc
namespace TT.Lemmas.More12f

/-! ### run ends -/

theorem runEnds_step (a b : Nat) (rest : List Nat) (h : StrictInc (a :: b :: rest)) :
    runEnds (a :: b :: rest) = (if a + 1 < b then [a] else []) ++ runEnds (b :: rest) := by
  have hs := List.pairwise_cons.1 h
  have hab : a < b := hs.1 b List.mem_cons_self
  have hs2 := List.pairwise_cons.1 hs.2
  unfold runEnds
  rw [List.filter_cons]
  have hrest : ∀ x ∈ rest, b < x := hs2.1
  have hhead : (!(a :: b :: rest).contains (a + 1)) = decide (a + 1 < b) := by
    by_cases hg : a + 1 < b
    · have : ¬ (a + 1 = b ∨ a + 1 ∈ rest) := by
        rintro (h1 | h1)
        · omega
        · have := hrest _ h1; omega
      simp [this]; exact hg
    · have : a + 1 = b := by omega
      simp [this]
  have htail : (b :: rest).filter (fun x => !(a :: b :: rest).contains (x + 1)) =
      (b :: rest).filter (fun x => !(b :: rest).contains (x + 1)) := by
    apply List.filter_congr
    intro x hx
    have : a < x := hs.1 x hx
    have : ¬ x + 1 = a := by omega
    simp [this]
  rw [hhead, htail]
  by_cases hg : a + 1 < b <;> simp [hg]

theorem gapCount_runEnds : ∀ (l : List Nat), StrictInc l → l ≠ [] → gapCount l + 1 = (runEnds l).length
  | [], _, h => absurd rfl h
  | [a], _, _ => by simp [gapCount, runEnds]
  | a :: b :: rest, hs, _ => by
    have ih := gapCount_runEnds (b :: rest) (List.pairwise_cons.1 hs).2 (by simp)
    rw [runEnds_step a b rest hs, List.length_append, ← ih]
    simp only [gapCount]
    split <;> simp <;> omega

theorem runEnds_perm (l l' : List Nat) (h : l.Perm l') : (runEnds l).Perm (runEnds l') := by
  unfold runEnds
  have : (fun x => !l.contains (x + 1)) = (fun x => !l'.contains (x + 1)) := by
    funext x
    simp only [List.contains_eq_mem, h.mem_iff]
  rw [this]
  exact h.filter _

/-! ### maximal runs -/

/-- the set-based reading of `isMaxRun`, as a proposition about membership only -/
def IsMaxRunP (s c : List Nat) : Prop :=
  ∃ lo n, c = List.range' lo (n + 1) ∧ (∀ x ∈ c, x ∈ s) ∧ (lo = 0 ∨ lo - 1 ∉ s) ∧ lo + n + 1 ∉ s

theorem isMaxRun_iff (s c : List Nat) : isMaxRun s c = true ↔ IsMaxRunP s c := by
  cases c with
  | nil =>
    simp only [isMaxRun, IsMaxRunP]
    constructor
    · intro h; cases h
    · rintro ⟨lo, n, h, _⟩; simp [List.range'_succ] at h
  | cons lo r =>
    simp only [isMaxRun, IsMaxRunP, Bool.and_eq_true, beq_iff_eq, List.all_eq_true, List.contains_eq_mem,
      decide_eq_true_eq, Bool.or_eq_true, Bool.not_eq_true', decide_eq_false_iff_not, List.length_cons]
    constructor
    · rintro ⟨⟨⟨h1, h2⟩, h3⟩, h4⟩
      exact ⟨lo, r.length, h1, h2, h3, by rwa [Nat.add_assoc]⟩
    · rintro ⟨lo', n, h1, h2, h3, h4⟩
      have hc := h1
      rw [List.range'_succ] at hc
      injection hc with hlo hr
      subst hlo
      have hlen : r.length = n := by rw [hr]; simp
      rw [hlen]
      exact ⟨⟨⟨h1, h2⟩, h3⟩, by rwa [Nat.add_assoc] at h4⟩

theorem IsMaxRunP_congr (s s' c : List Nat) (h : ∀ x, x ∈ s ↔ x ∈ s') : IsMaxRunP s c ↔ IsMaxRunP s' c := by
  unfold IsMaxRunP
  simp only [h]

theorem run_range' : ∀ (a : Nat) (r : List Nat), Run (a :: r) → a :: r = List.range' a (r.length + 1)
  | a, [], _ => rfl
  | a, b :: r, h => by
    obtain ⟨hb, hr⟩ := h
    have ih := run_range' b r hr
    rw [List.length_cons, List.range'_succ, ← hb, ← ih]

theorem range'_run (lo : Nat) : ∀ n, Run (List.range' lo (n + 1))
  | 0 => by simp [List.range'_succ, Run]
  | n + 1 => by
    have ih := range'_run (lo + 1) n
    rw [List.range'_succ]
    rw [List.range'_succ] at ih ⊢
    exact ⟨rfl, ih⟩

/-- separated runs: every block is `lo … lo+n`, and everything later is beyond `lo+n+1` -/
def SepRuns : List (List Nat) → Prop
  | [] => True
  | b :: r => (∃ lo n, b = List.range' lo (n + 1) ∧ ∀ y ∈ r.flatten, lo + n + 1 < y) ∧ SepRuns r

theorem blocksOf_sepRuns : ∀ (l : List Nat), StrictInc l → SepRuns (blocksOf l)
  | [], _ => trivial
  | [a], _ => ⟨⟨a, 0, rfl, by simp⟩, trivial⟩
  | a :: b :: rest, hs => by
    have hs' := List.pairwise_cons.1 hs
    have ih := blocksOf_sepRuns (b :: rest) hs'.2
    have hab : a < b := hs'.1 b List.mem_cons_self
    have hfl := blocksOf_flatten (b :: rest)
    obtain ⟨blk, blks, h⟩ := blocksOf_cons b rest
    rw [blocksOf_step a b rest _ _ h]
    rw [h] at ih hfl
    split
    · rename_i hgap
      refine ⟨⟨a, 0, rfl, ?_⟩, ih⟩
      intro y hy
      rw [hfl] at hy
      have := hs'.1 y (by
        rcases List.mem_cons.1 hy with rfl | hy
        · exact List.mem_cons_self
        · exact List.mem_cons_of_mem _ hy)
      rcases List.mem_cons.1 hy with rfl | hy
      · omega
      · have := (List.pairwise_cons.1 hs'.2).1 y hy; omega
    · rename_i hgap
      obtain ⟨⟨lo, n, hb, hy⟩, ihr⟩ := ih
      have hlo : lo = b := by
        rw [List.range'_succ] at hb
        injection hb with hb _
        exact hb.symm
      subst hlo
      refine ⟨⟨a, n + 1, ?_, ?_⟩, ihr⟩
      · have : a + 1 = lo := by omega
        rw [List.range'_succ (s := a), this, ← hb]
      · intro y hy'
        have := hy y hy'
        omega

theorem sepRuns_mem_iff : ∀ (bs : List (List Nat)), SepRuns bs → ∀ c, c ∈ bs ↔ IsMaxRunP bs.flatten c
  | [], _, c => by
    simp only [List.not_mem_nil, List.flatten_nil, false_iff]
    rintro ⟨lo, n, rfl, h, _⟩
    exact absurd (h lo (by simp)) (by simp)
  | b :: r, ⟨⟨lo, n, hb, hy⟩, hr⟩, c => by
    have ih := sepRuns_mem_iff r hr c
    rw [List.mem_cons, ih, List.flatten_cons]
    subst hb
    constructor
    · rintro (rfl | ⟨p, m, rfl, h1, h2, h3⟩)
      · refine ⟨lo, n, rfl, fun x hx => List.mem_append_left _ hx, ?_, ?_⟩
        · by_cases h0 : lo = 0
          · exact Or.inl h0
          · refine Or.inr ?_
            rw [List.mem_append, List.mem_range'_1]
            rintro (h | h)
            · omega
            · have := hy _ h; omega
        · rw [List.mem_append, List.mem_range'_1]
          rintro (h | h)
          · omega
          · have := hy _ h; omega
      · have hp := hy p (h1 p (by simp))
        refine ⟨p, m, rfl, fun x hx => List.mem_append_right _ (h1 x hx), ?_, ?_⟩
        · rcases h2 with h2 | h2
          · exact Or.inl h2
          · refine Or.inr ?_
            rw [List.mem_append, List.mem_range'_1]
            rintro (h | h)
            · omega
            · exact h2 h
        · rw [List.mem_append, List.mem_range'_1]
          rintro (h | h)
          · omega
          · exact h3 h
    · rintro ⟨p, m, rfl, h1, h2, h3⟩
      simp only [List.mem_append, List.mem_range'_1] at h1 h2 h3
      rcases h1 p (by omega) with hp | hp
      · left
        have hplo : p = lo := by
          by_cases h0 : lo < p
          · rcases h2 with h2 | h2
            · omega
            · exact absurd (Or.inl (by omega)) h2
          · omega
        subst hplo
        have hmn : m = n := by
          by_cases hlt : m < n
          · exact absurd (Or.inl (by omega)) h3
          · by_cases hgt : n < m
            · rcases h1 (p + n + 1) (by omega) with h | h
              · omega
              · have := hy _ h; omega
            · omega
        rw [hmn]
      · right
        have hpb := hy p hp
        refine ⟨p, m, rfl, ?_, ?_, fun h => h3 (Or.inr h)⟩
        · intro x hx
          rw [List.mem_range'_1] at hx
          rcases h1 x hx with h | h
          · omega
          · exact h
        · rcases h2 with h2 | h2
          · exact Or.inl h2
          · exact Or.inr fun h => h2 (Or.inr h)

theorem sepRuns_ordered : ∀ (bs : List (List Nat)), SepRuns bs →
    bs.Pairwise (fun b c => ∀ x ∈ b, ∀ y ∈ c, x < y)
  | [], _ => List.Pairwise.nil
  | b :: r, ⟨⟨lo, n, hb, hy⟩, hr⟩ => by
    refine List.pairwise_cons.2 ⟨?_, sepRuns_ordered r hr⟩
    intro c hc x hx y hyc
    subst hb
    rw [List.mem_range'_1] at hx
    have := hy y (List.mem_flatten.2 ⟨c, hc, hyc⟩)
    omega


/-! ### uniqueness of the block decomposition -/

theorem blocksOf_nil : blocksOf [] = [] := rfl

theorem blocksOf_append_run : ∀ (b rest : List Nat), b ≠ [] → Run b →
    (∀ x y, b.getLast? = some x → rest.head? = some y → x + 1 < y) → blocksOf (b ++ rest) = b :: blocksOf rest
  | [], _, h, _, _ => absurd rfl h
  | [a], [], _, _, _ => rfl
  | [a], y :: r, _, _, hg => by
    obtain ⟨blk, blks, h⟩ := blocksOf_cons y r
    have := hg a y rfl rfl
    show blocksOf (a :: y :: r) = _
    rw [blocksOf_step a y r _ _ h, if_pos this, h]
  | a :: a' :: b, rest, _, hr, hg => by
    obtain ⟨ha', hr'⟩ := hr
    have ih := blocksOf_append_run (a' :: b) rest (by simp) hr' (fun x y hx hy => hg x y (by
      rw [List.getLast?_cons_cons]; exact hx) hy)
    show blocksOf (a :: a' :: (b ++ rest)) = _
    rw [blocksOf_step a a' (b ++ rest) _ _ ih, if_neg (by omega)]

/-- a list of non-empty runs with a gap between consecutive ones is the block decomposition of its concatenation -/
theorem blocksOf_unique : ∀ (bs : List (List Nat)), (∀ b ∈ bs, b ≠ [] ∧ Run b) →
    (∀ i, i + 1 < bs.length → ∃ x y, (bs[i]?).bind List.getLast? = some x ∧
      (bs[i+1]?).bind List.head? = some y ∧ x + 1 < y) → bs = blocksOf bs.flatten
  | [], _, _ => rfl
  | b :: bs', h2, h3 => by
    have ih := blocksOf_unique bs' (fun c hc => h2 c (List.mem_cons_of_mem _ hc)) (fun i hi => by
      obtain ⟨x, y, h1, h2, h3⟩ := h3 (i + 1) (by simpa using hi)
      exact ⟨x, y, by simpa using h1, by simpa using h2, h3⟩)
    obtain ⟨hb1, hb2⟩ := h2 b List.mem_cons_self
    rw [List.flatten_cons, blocksOf_append_run b _ hb1 hb2, ← ih]
    intro x y hx hy
    cases bs' with
    | nil => simp at hy
    | cons c r =>
      obtain ⟨x', y', h1, h2', h3'⟩ := h3 0 (by simp)
      simp only [List.getElem?_cons_zero, Option.bind_some, List.getElem?_cons_succ] at h1 h2'
      have hc := (h2 c (List.mem_cons_of_mem _ List.mem_cons_self)).1
      cases c with
      | nil => exact absurd rfl hc
      | cons c0 cr =>
        simp only [List.flatten_cons, List.cons_append, List.head?_cons, Option.some.injEq] at hy h2'
        rw [hx] at h1
        injection h1 with h1
        omega

/-- two lists ordered by an asymmetric relation and with the same members are equal -/
theorem eq_of_ordered_same_mem {α} (R : α → α → Prop) : ∀ (l l' : List α), l.Pairwise R → l'.Pairwise R →
    (∀ a ∈ l, ∀ b ∈ l, R a b → ¬ R b a) → (∀ a, a ∈ l ↔ a ∈ l') → l = l'
  | [], l', _, _, _, hm => by
    cases l' with
    | nil => rfl
    | cons a t => exact absurd ((hm a).2 List.mem_cons_self) (by simp)
  | a :: t, [], _, _, _, hm => absurd ((hm a).1 List.mem_cons_self) (by simp)
  | a :: t, a' :: t', hp, hp', has, hm => by
    have hpc := List.pairwise_cons.1 hp
    have hpc' := List.pairwise_cons.1 hp'
    have haa : a = a' := by
      by_cases h : a = a'
      · exact h
      · have h1 : a ∈ t' := by
          rcases List.mem_cons.1 ((hm a).1 List.mem_cons_self) with h1 | h1
          · exact absurd h1 h
          · exact h1
        have h2 : a' ∈ t := by
          rcases List.mem_cons.1 ((hm a').2 List.mem_cons_self) with h2 | h2
          · exact absurd h2.symm h
          · exact h2
        exact absurd (hpc'.1 a h1) (has a List.mem_cons_self a' (List.mem_cons_of_mem _ h2) (hpc.1 a' h2))
    subst haa
    have hirr : ∀ x ∈ a :: t, ¬ R x x := fun x hx h => has x hx x hx h h
    have : t = t' := eq_of_ordered_same_mem R t t' hpc.2 hpc'.2
      (fun x hx y hy => has x (List.mem_cons_of_mem _ hx) y (List.mem_cons_of_mem _ hy)) (by
        intro x
        constructor
        · intro hx
          rcases List.mem_cons.1 ((hm x).1 (List.mem_cons_of_mem _ hx)) with h | h
          · subst h; exact absurd (hpc.1 x hx) (hirr x List.mem_cons_self)
          · exact h
        · intro hx
          rcases List.mem_cons.1 ((hm x).2 (List.mem_cons_of_mem _ hx)) with h | h
          · subst h; exact absurd (hpc'.1 x hx) (hirr x List.mem_cons_self)
          · exact h)
    rw [this]

/-! ### per-degree counts of the `GapDegree` accumulator -/

/-- the count recorded for degree `d` (0 when the degree is not listed) -/
def cnt (d : Nat) (l : List (Nat × Nat)) : Nat := ((l.find? (·.1 == d)).map (·.2)).getD 0

theorem cnt_bump (d k : Nat) (l : List (Nat × Nat)) : cnt d (bump k l) = cnt d l + if d = k then 1 else 0 := by
  unfold cnt
  rw [TT.Lemmas.Analysis.bump_get]
  by_cases h : d = k
  · subst h; simp
  · simp [h]

theorem cnt_foldl_bump (d : Nat) : ∀ (ds : List Nat) (l : List (Nat × Nat)),
    cnt d (ds.foldl (fun acc x => bump x acc) l) = cnt d l + ds.count d
  | [], l => by simp
  | x :: ds, l => by
    rw [List.foldl_cons, cnt_foldl_bump d ds, cnt_bump, List.count_cons]
    by_cases h : d = x
    · subst h; simp; omega
    · have : ¬ x = d := fun e => h e.symm
      simp [h, this]

/-- every listed count is positive -/
def PosTable (l : List (Nat × Nat)) : Prop := ∀ p ∈ l, 0 < p.2

theorem posTable_bump (k : Nat) : ∀ (l : List (Nat × Nat)), PosTable l → PosTable (bump k l)
  | [], _ => by intro p hp; simp [bump] at hp; subst hp; simp
  | (a, c) :: r, h => by
    intro p hp
    simp only [bump] at hp
    split at hp
    · rcases List.mem_cons.1 hp with rfl | hp
      · simp
      · exact h p (List.mem_cons_of_mem _ hp)
    · rcases List.mem_cons.1 hp with rfl | hp
      · exact h _ List.mem_cons_self
      · exact posTable_bump k r (fun q hq => h q (List.mem_cons_of_mem _ hq)) p hp

theorem posTable_foldl_bump : ∀ (ds : List Nat) (l : List (Nat × Nat)), PosTable l →
    PosTable (ds.foldl (fun acc x => bump x acc) l)
  | [], _, h => h
  | x :: ds, l, h => posTable_foldl_bump ds _ (posTable_bump x l h)

/-- in a table of positive counts the entry is absent exactly when the count is 0 -/
theorem find_of_cnt (d : Nat) (l : List (Nat × Nat)) (h : PosTable l) :
    (l.find? (·.1 == d)).map (·.2) = if cnt d l = 0 then none else some (cnt d l) := by
  unfold cnt
  cases hf : l.find? (·.1 == d) with
  | none => simp
  | some p =>
    have := h p (List.mem_of_find?_eq_some hf)
    simp only [Option.map_some, Option.getD_some]
    rw [if_neg (by omega)]

/-- the degrees of the constituents of a tree, as `GapStats.run` enumerates them -/
def degs (t : Tree) : List Nat := (t.preorder.filter fun x => !x.kids.isEmpty).map gapDegreeNode

theorem foldl_max_filter_zero (g : Tree → Nat) (p : Tree → Bool) (hz : ∀ x, p x = false → g x = 0) :
    ∀ (l : List Tree) (init : Nat), ((l.filter p).map g).foldl max init = (l.map g).foldl max init
  | [], _ => rfl
  | x :: l, init => by
    rw [List.filter_cons]
    cases hp : p x
    · simp only [Bool.false_eq_true, if_false, List.map_cons, List.foldl_cons, hz x hp, Nat.max_zero]
      exact foldl_max_filter_zero g p hz l init
    · simp only [if_true, List.map_cons, List.foldl_cons]
      exact foldl_max_filter_zero g p hz l _

theorem gapDegreeNode_of_no_kids (x : Tree) (h : (!x.kids.isEmpty) = false) : gapDegreeNode x = 0 := by
  cases x with
  | leaf n f => rfl
  | node f ks =>
    simp only [kids, Bool.not_eq_false', List.isEmpty_iff] at h
    subst h
    exact TT.Lemmas.Analysis.gapDegreeNode_childless f

/-- the degree `GapStats.run` records for a tree is its gap degree -/
theorem degs_max (t : Tree) : (degs t).foldl max 0 = gapDegree t :=
  foldl_max_filter_zero gapDegreeNode _ gapDegreeNode_of_no_kids _ 0

theorem run_eq (s : GapStats) (t : Tree) :
    s.run t = { perNode := (degs t).foldl (fun acc d => bump d acc) s.perNode, perTree := bump (gapDegree t) s.perTree } := by
  simp only [GapStats.run, ← degs_max]
  rfl

theorem cnt_foldl_run (d : Nat) : ∀ (ts : List Tree) (s : GapStats),
    cnt d (ts.foldl GapStats.run s).perTree = cnt d s.perTree + (ts.filter fun t => gapDegree t == d).length ∧
    cnt d (ts.foldl GapStats.run s).perNode = cnt d s.perNode + ((ts.flatMap degs).count d)
  | [], s => by simp
  | t :: ts, s => by
    obtain ⟨h1, h2⟩ := cnt_foldl_run d ts (s.run t)
    rw [List.foldl_cons, h1, h2, run_eq]
    simp only [cnt_bump, cnt_foldl_bump, List.filter_cons, List.flatMap_cons, List.count_append]
    constructor
    · by_cases h : d = gapDegree t
      · have : (gapDegree t == d) = true := by simp [h]
        simp [h]; omega
      · have : (gapDegree t == d) = false := by simpa using fun e => h e.symm
        simp [h, this]
    · omega

theorem posTable_foldl_run : ∀ (ts : List Tree) (s : GapStats), PosTable s.perNode → PosTable s.perTree →
    PosTable (ts.foldl GapStats.run s).perNode ∧ PosTable (ts.foldl GapStats.run s).perTree
  | [], _, h1, h2 => ⟨h1, h2⟩
  | t :: ts, s, h1, h2 => by
    rw [List.foldl_cons]
    exact posTable_foldl_run ts _ (by rw [run_eq]; exact posTable_foldl_bump _ _ h1)
      (by rw [run_eq]; exact posTable_bump _ _ h2)


/-! ### the TIGER-XML reader, sentence by sentence -/

/-- one sentence of `readTiger`: `i` = 0-based position of the sentence in the file -/
def tigerStep (o : InOpts) (acc : List (Nat × Tree)) (si : XSent × Nat) : Except Err (List (Nat × Tree)) :=
  match lastNumber si.1.id with
  | none => .error .indexError
  | some n =>
    match tigerSentence o si.1 with
    | .ok t => .ok (acc ++ [(if o.continuous then si.2 + 1 else n, t)])
    | .error .valueError => .ok acc
    | .error e => .error e

theorem readTiger_eq (o : InOpts) (ss : List XSent) : readTiger o ss = ss.zipIdx.foldlM (tigerStep o) [] := by
  unfold readTiger
  congr 1

theorem renum_renum (o : InOpts) (k : Nat) (p : Nat × Tree) : renum o k (renum o 1 p) = renum o (k + 1) p := by
  unfold renum
  by_cases h : o.continuous = true
  · simp only [h, if_true]; congr 1; omega
  · simp [h]

theorem tigerFold_shift (o : InOpts) : ∀ (ss : List XSent) (k : Nat) (acc : List (Nat × Tree)),
    (ss.zipIdx k).foldlM (tigerStep o) acc =
      ((ss.zipIdx 0).foldlM (tigerStep o) []).map fun r => acc ++ r.map (renum o k)
  | [], k, acc => by simp [Except.map, pure, Except.pure]
  | s :: ss, k, acc => by
    simp only [List.zipIdx_cons, List.foldlM_cons, Nat.zero_add]
    have hstep : ∀ (i : Nat) (ac : List (Nat × Tree)), tigerStep o ac (s, i) =
        match lastNumber s.id with
        | none => .error .indexError
        | some n =>
          match tigerSentence o s with
          | .ok t => .ok (ac ++ [(if o.continuous then i + 1 else n, t)])
          | .error .valueError => .ok ac
          | .error e => .error e := fun _ _ => rfl
    rw [hstep k acc, hstep 0 []]
    cases lastNumber s.id with
    | none => rfl
    | some n =>
      cases hts : tigerSentence o s with
      | ok t =>
        simp only [bind, Except.bind]
        rw [tigerFold_shift o ss (k + 1), tigerFold_shift o ss 1 ([] ++ _)]
        cases (ss.zipIdx 0).foldlM (tigerStep o) [] with
        | error e => rfl
        | ok r =>
          simp only [Except.map, List.nil_append, List.map_append, List.map_cons, List.map_nil, List.map_map,
            List.append_assoc, Except.ok.injEq]
          congr 1
          congr 1
          · unfold renum
            by_cases h : o.continuous = true
            · simp only [h, if_true]; rw [show 0 + 1 + k = k + 1 by omega]
            · simp [h]
          · apply List.map_congr_left
            intro p _
            exact (renum_renum o k p).symm
      | error e =>
        cases e <;> simp only [bind, Except.bind] <;> first | rfl | skip
        rw [tigerFold_shift o ss (k + 1), tigerFold_shift o ss 1 []]
        cases (ss.zipIdx 0).foldlM (tigerStep o) [] with
        | error e => rfl
        | ok r =>
          simp only [Except.map, List.nil_append, List.map_map, Except.ok.injEq]
          congr 1
          apply List.map_congr_left
          intro p _
          exact (renum_renum o k p).symm

end TT.Lemmas.More12f

/-! ## the LoPar writer up to the order of lines (helpers) -/

namespace TT.Lemmas.Lopar12
open TT TT.Tree TT.Spec TT.Lemmas.GramOut

/-! ### lists -/

theorem nodup_of_map {α β : Type} (f : α → β) (l : List α) (h : (l.map f).Nodup) : l.Nodup :=
  List.Pairwise.of_map f (fun _ _ hab e => hab (congrArg f e)) h

theorem nodup_eraseDups_aux {α : Type} [BEq α] [LawfulBEq α] (n : Nat) :
    ∀ l : List α, l.length ≤ n → l.eraseDups.Nodup := by
  induction n with
  | zero =>
    intro l hl
    cases l with
    | nil => simp
    | cons a r => simp at hl
  | succ n ih =>
    intro l hl
    cases l with
    | nil => simp
    | cons a r =>
      rw [List.eraseDups_cons, List.nodup_cons]
      refine ⟨?_, ih _ ?_⟩
      · rw [List.mem_eraseDups, List.mem_filter]
        simp
      · have := List.length_filter_le (fun b => !b == a) r
        simp only [List.length_cons] at hl
        omega

theorem nodup_eraseDups {α : Type} [BEq α] [LawfulBEq α] (l : List α) : l.eraseDups.Nodup :=
  nodup_eraseDups_aux l.length l (Nat.le_refl _)

theorem eraseDups_perm {α : Type} [BEq α] [LawfulBEq α] (l l' : List α) (h : l.Perm l') :
    l.eraseDups.Perm l'.eraseDups := by
  rw [List.perm_ext_iff_of_nodup (nodup_eraseDups l) (nodup_eraseDups l')]
  intro a
  rw [List.mem_eraseDups, List.mem_eraseDups, h.mem_iff]

/-! ### association lists with every key once -/

section AL
variable {κ ν : Type} [DecidableEq κ]

theorem get?_some_iff_mem (m : AList κ ν) (h : (m.map (·.1)).Nodup) (k : κ) (v : ν) :
    AList.get? k m = some v ↔ (k, v) ∈ m := by
  refine ⟨get?_some_mem k v m, ?_⟩
  induction m with
  | nil => simp
  | cons a r ih =>
    simp only [List.map_cons, List.nodup_cons] at h
    intro hm
    rw [get?_cons]
    rcases List.mem_cons.1 hm with rfl | hm
    · simp
    · have : a.1 ≠ k := fun e => h.1 (by rw [e]; exact List.mem_map_of_mem (f := (·.1)) hm)
      rw [if_neg this]
      exact ih h.2 hm

/-- two association lists without repeated keys that answer every gramLookup alike are rearrangements of each other -/
theorem perm_of_get? (m m' : AList κ ν) (h : (m.map (·.1)).Nodup) (h' : (m'.map (·.1)).Nodup)
    (e : ∀ k, AList.get? k m = AList.get? k m') : m.Perm m' := by
  rw [List.perm_ext_iff_of_nodup (nodup_of_map _ _ h) (nodup_of_map _ _ h')]
  rintro ⟨k, v⟩
  rw [← get?_some_iff_mem m h, ← get?_some_iff_mem m' h', e]

theorem get?_of_perm (m m' : AList κ ν) (h : (m.map (·.1)).Nodup) (p : m.Perm m') (k : κ) :
    AList.get? k m = AList.get? k m' := by
  have h' : (m'.map (·.1)).Nodup := (p.map (·.1)).nodup_iff.1 h
  apply Option.ext
  intro v
  rw [get?_some_iff_mem m h, get?_some_iff_mem m' h', p.mem_iff]

theorem exists_get?_of_ne_nil (m : AList κ ν) (h : m ≠ []) : ∃ k v, AList.get? k m = some v := by
  cases m with
  | nil => exact absurd rfl h
  | cons a r => exact ⟨a.1, a.2, by simp [get?_cons]⟩

theorem upsert_ne_nil (k : κ) (F : Option ν → ν) (m : AList κ ν) : AList.upsert k F m ≠ [] := by
  cases m with
  | nil => simp [AList.upsert]
  | cons a r =>
    obtain ⟨a, v⟩ := a
    simp only [AList.upsert]
    split <;> simp

/-- what holds for all entries, for a freshly made entry and for every updated entry holds after `upsert` -/
theorem upsert_forall (P : κ × ν → Prop) (k : κ) (F : Option ν → ν) (m : AList κ ν)
    (h : ∀ p ∈ m, P p) (hnew : P (k, F none)) (hupd : ∀ v, (k, v) ∈ m → P (k, F (some v))) :
    ∀ p ∈ AList.upsert k F m, P p := by
  induction m with
  | nil =>
    intro p hp
    simp only [AList.upsert, List.mem_singleton] at hp
    rw [hp]; exact hnew
  | cons a r ih =>
    obtain ⟨a, v⟩ := a
    intro p hp
    simp only [AList.upsert] at hp
    by_cases hak : a = k
    · subst hak
      simp only [if_true, List.mem_cons] at hp
      rcases hp with rfl | hp
      · exact hupd v (by simp)
      · exact h p (by simp [hp])
    · simp only [hak, if_false, List.mem_cons] at hp
      rcases hp with rfl | hp
      · exact h _ (by simp)
      · exact ih (fun q hq => h q (by simp [hq])) (fun w hw => hupd w (by simp [hw])) p hp

end AL

end TT.Lemmas.Lopar12

namespace TT.Lemmas.Lopar12
open TT TT.Tree TT.Spec TT.Lemmas.GramOut

/-! ### `SameMap` is an equivalence; `gramCount` is read off `gramLookup` -/

theorem sameMap_refl (g : Grammar) : SameMap g g := fun _ _ _ => rfl
theorem sameMap_symm {g g' : Grammar} (h : SameMap g g') : SameMap g' g := fun f l v => (h f l v).symm
theorem sameMap_trans {g g' g'' : Grammar} (h : SameMap g g') (h' : SameMap g' g'') : SameMap g g'' :=
  fun f l v => (h f l v).trans (h' f l v)

theorem gramCount_eq_lookup (g : Grammar) (f : Func) (l : Lin) (v : VertKey) :
    gramCount g f l v = (gramLookup g f l v).getD 0 := rfl

theorem sameMap_gramCount {g g' : Grammar} (h : SameMap g g') (f : Func) (l : Lin) (v : VertKey) :
    gramCount g f l v = gramCount g' f l v := by
  rw [gramCount_eq_lookup, gramCount_eq_lookup, h]

/-! ### well-formedness is kept by `Grammar.add` -/

/-- a table of vertical contexts: every key once, not empty -/
def VOK (vs : AList VertKey Nat) : Prop := (vs.map (·.1)).Nodup ∧ vs ≠ []
/-- a table of linearizations: every key once, not empty, every inner table fine -/
def LOK (ls : AList Lin (AList VertKey Nat)) : Prop :=
  (ls.map (·.1)).Nodup ∧ ls ≠ [] ∧ ∀ q ∈ ls, VOK q.2

theorem gramWF_iff (g : Grammar) : GramWF g ↔ (g.map (·.1)).Nodup ∧ ∀ p ∈ g, LOK p.2 := by
  constructor
  · intro h
    exact ⟨h.funcs, fun p hp => ⟨(h.lins p hp).1, (h.lins p hp).2, h.verts p hp⟩⟩
  · intro h
    exact ⟨h.1, fun p hp => ⟨(h.2 p hp).1, (h.2 p hp).2.1⟩, fun p hp => (h.2 p hp).2.2⟩

theorem VOK_upsert (v : VertKey) (F : Option Nat → Nat) (vs : AList VertKey Nat) (h : (vs.map (·.1)).Nodup) :
    VOK (AList.upsert v F vs) :=
  ⟨TT.Lemmas.Unbin.upsert_keys_nodup v F vs h, upsert_ne_nil v F vs⟩

theorem LOK_upsert (l : Lin) (v : VertKey) (F : Option Nat → Nat) (ls : AList Lin (AList VertKey Nat))
    (h : (ls.map (·.1)).Nodup) (h2 : ∀ q ∈ ls, VOK q.2) :
    LOK (AList.upsert l (fun o2 => AList.upsert v F (o2.getD [])) ls) := by
  refine ⟨TT.Lemmas.Unbin.upsert_keys_nodup _ _ _ h, upsert_ne_nil _ _ _, ?_⟩
  apply upsert_forall (fun q => VOK q.2) _ _ _ h2
  · exact VOK_upsert v F [] (by simp)
  · intro vs hvs
    exact VOK_upsert v F vs (h2 _ hvs).1

theorem gramWF_nil : GramWF [] := ⟨by simp, by simp, by simp⟩

theorem gramWF_add (g : Grammar) (f : Func) (l : Lin) (v : VertKey) (n : Nat) (h : GramWF g) :
    GramWF (g.add f l v n) := by
  rw [gramWF_iff] at h ⊢
  unfold Grammar.add
  refine ⟨TT.Lemmas.Unbin.upsert_keys_nodup _ _ _ h.1, ?_⟩
  apply upsert_forall (fun p => LOK p.2) _ _ _ h.2
  · exact LOK_upsert l v _ [] (by simp) (by simp)
  · intro ls hls
    exact LOK_upsert l v _ ls (h.2 _ hls).1 (h.2 _ hls).2.2

theorem gramWF_applyEvent (st : Grammar × Lexicon) (e : Event) (h : GramWF st.1) : GramWF (applyEvent st e).1 := by
  cases e with
  | lex w t => exact h
  | rule f l v => exact gramWF_add _ _ _ _ _ h

theorem gramWF_foldl_applyEvent (evs : List Event) : ∀ st : Grammar × Lexicon, GramWF st.1 →
    GramWF (evs.foldl applyEvent st).1 := by
  induction evs with
  | nil => exact fun _ h => h
  | cons e r ih => exact fun st h => ih _ (gramWF_applyEvent st e h)

theorem gramWF_foldl_extract (ts : List Tree) : ∀ st : Grammar × Lexicon, GramWF st.1 →
    GramWF (ts.foldl (fun st t => extract t st) st).1 := by
  induction ts with
  | nil => exact fun _ h => h
  | cons t r ih => exact fun st h => ih _ (gramWF_foldl_applyEvent _ st h)

/-! ### `gramLookup` after `Grammar.add`; stored counts stay positive -/

theorem lookup_add (g : Grammar) (f f' : Func) (l l' : Lin) (v v' : VertKey) (n : Nat) :
    gramLookup (g.add f l v n) f' l' v' =
      if f = f' ∧ l = l' ∧ v = v' then some (gramCount g f l v + n) else gramLookup g f' l' v' := by
  unfold gramLookup gramCount Grammar.add
  rw [get?_upsert]
  by_cases hf : f = f'
  · subst hf
    simp only [if_true, Option.bind_some, true_and, get?_upsert]
    by_cases hl : l = l'
    · subst hl
      simp only [if_true, Option.bind_some, true_and, get?_upsert, get?_getD_nil]
    · simp only [hl, if_false, false_and, get?_getD_nil]
  · simp [hf]

theorem tight_nil : Tight [] := fun _ _ _ => by simp [gramLookup]

theorem tight_add (g : Grammar) (f : Func) (l : Lin) (v : VertKey) (n : Nat) (hn : 0 < n) (h : Tight g) :
    Tight (g.add f l v n) := by
  intro f' l' v'
  rw [lookup_add]
  split
  · intro e
    have := Option.some.inj e
    omega
  · exact h f' l' v'

theorem tight_applyEvent (st : Grammar × Lexicon) (e : Event) (h : Tight st.1) : Tight (applyEvent st e).1 := by
  cases e with
  | lex w t => exact h
  | rule f l v => exact tight_add _ _ _ _ _ (by decide) h

theorem tight_foldl_applyEvent (evs : List Event) : ∀ st : Grammar × Lexicon, Tight st.1 →
    Tight (evs.foldl applyEvent st).1 := by
  induction evs with
  | nil => exact fun _ h => h
  | cons e r ih => exact fun st h => ih _ (tight_applyEvent st e h)

theorem tight_foldl_extract (ts : List Tree) : ∀ st : Grammar × Lexicon, Tight st.1 →
    Tight (ts.foldl (fun st t => extract t st) st).1 := by
  induction ts with
  | nil => exact fun _ h => h
  | cons t r ih => exact fun st h => ih _ (tight_foldl_applyEvent _ st h)

/-- with no zero stored the counts determine the finite map -/
theorem sameMap_of_gramCount (g g' : Grammar) (ht : Tight g) (ht' : Tight g')
    (h : ∀ f l v, gramCount g f l v = gramCount g' f l v) : SameMap g g' := by
  intro f l v
  have := h f l v
  rw [gramCount_eq_lookup, gramCount_eq_lookup] at this
  have t := ht f l v
  have t' := ht' f l v
  cases h1 : gramLookup g f l v <;> cases h2 : gramLookup g' f l v <;> simp_all

/-! ### `SameMap` and sequences of additions -/

theorem sameMap_add (g g' : Grammar) (f : Func) (l : Lin) (v : VertKey) (n : Nat) (h : SameMap g g') :
    SameMap (g.add f l v n) (g'.add f l v n) := by
  intro f' l' v'
  rw [lookup_add, lookup_add, sameMap_gramCount h, h f' l' v']

theorem sameMap_add_comm (g : Grammar) (f1 f2 : Func) (l1 l2 : Lin) (v1 v2 : VertKey) (n1 n2 : Nat) :
    SameMap ((g.add f1 l1 v1 n1).add f2 l2 v2 n2) ((g.add f2 l2 v2 n2).add f1 l1 v1 n1) := by
  intro f l v
  simp only [lookup_add, gramCount_add]
  by_cases h1 : f1 = f ∧ l1 = l ∧ v1 = v
  · obtain ⟨rfl, rfl, rfl⟩ := h1
    by_cases h2 : f2 = f1 ∧ l2 = l1 ∧ v2 = v1
    · obtain ⟨rfl, rfl, rfl⟩ := h2
      simp; omega
    · simp [h2]
  · by_cases h2 : f2 = f ∧ l2 = l ∧ v2 = v
    · obtain ⟨rfl, rfl, rfl⟩ := h2
      simp [h1]
    · simp [h1, h2]

/-- one addition, as a quadruple -/
def addE (g : Grammar) (e : Func × Lin × VertKey × Nat) : Grammar := g.add e.1 e.2.1 e.2.2.1 e.2.2.2

theorem sameMap_foldl_addE (A : List (Func × Lin × VertKey × Nat)) : ∀ g g' : Grammar, SameMap g g' →
    SameMap (A.foldl addE g) (A.foldl addE g') := by
  induction A with
  | nil => exact fun _ _ h => h
  | cons e r ih => exact fun g g' h => ih _ _ (sameMap_add g g' _ _ _ _ h)

/-- the additions made in another order give the same finite map -/
theorem sameMap_foldl_addE_perm (A B : List (Func × Lin × VertKey × Nat)) (p : A.Perm B) :
    ∀ g g' : Grammar, SameMap g g' → SameMap (A.foldl addE g) (B.foldl addE g') := by
  induction p with
  | nil => exact fun _ _ h => h
  | cons x _ ih => exact fun g g' h => ih _ _ (sameMap_add g g' _ _ _ _ h)
  | swap x y l =>
    intro g g' h
    simp only [List.foldl_cons]
    apply sameMap_foldl_addE
    exact sameMap_trans (sameMap_add_comm g _ _ _ _ _ _ _ _) (sameMap_add _ _ _ _ _ _ (sameMap_add _ _ _ _ _ _ h))
  | trans _ _ ih1 ih2 => exact fun g g' h => sameMap_trans (ih1 g g' h) (ih2 g' g' (sameMap_refl g'))

theorem gramWF_foldl_addE (A : List (Func × Lin × VertKey × Nat)) : ∀ g : Grammar, GramWF g →
    GramWF (A.foldl addE g) := by
  induction A with
  | nil => exact fun _ h => h
  | cons e r ih => exact fun g h => ih _ (gramWF_add g _ _ _ _ h)

end TT.Lemmas.Lopar12

namespace TT.Lemmas.Lopar12
open TT TT.Tree TT.Spec TT.Lemmas.GramOut

/-! ### the rules of a well-formed grammar, read off the finite map -/

/-- the table of vertical contexts stored for (f, l) -/
def inner (g : Grammar) (f : Func) (l : Lin) : Option (AList VertKey Nat) :=
  (AList.get? f g).bind (AList.get? l)

theorem lookup_eq_inner (g : Grammar) (f : Func) (l : Lin) (v : VertKey) :
    gramLookup g f l v = (inner g f l).bind (AList.get? v) := rfl

theorem inner_eq_some_iff (g : Grammar) (h : GramWF g) (f : Func) (l : Lin) (vs : AList VertKey Nat) :
    inner g f l = some vs ↔ ∃ ls, (f, ls) ∈ g ∧ (l, vs) ∈ ls := by
  unfold inner
  constructor
  · intro e
    cases h1 : AList.get? f g with
    | none => simp [h1] at e
    | some ls =>
      rw [h1, Option.bind_some] at e
      exact ⟨ls, get?_some_mem _ _ _ h1, get?_some_mem _ _ _ e⟩
  · rintro ⟨ls, h1, h2⟩
    rw [(get?_some_iff_mem g h.funcs f ls).2 h1, Option.bind_some]
    exact (get?_some_iff_mem ls (h.lins _ h1).1 l vs).2 h2

theorem inner_VOK (g : Grammar) (h : GramWF g) (f : Func) (l : Lin) (vs : AList VertKey Nat)
    (e : inner g f l = some vs) : VOK vs := by
  obtain ⟨ls, h1, h2⟩ := (inner_eq_some_iff g h f l vs).1 e
  exact h.verts _ h1 _ h2

theorem mem_rules_iff (g : Grammar) (h : GramWF g) (f : Func) (l : Lin) (c : Nat) :
    (f, l, c) ∈ g.rules ↔ ∃ vs, inner g f l = some vs ∧ c = (vs.map (·.2)).sum := by
  simp only [Grammar.rules, List.mem_flatMap, List.mem_map, Prod.mk.injEq, inner_eq_some_iff g h]
  constructor
  · rintro ⟨⟨f', ls⟩, hp, ⟨l', vs⟩, hq, rfl, rfl, rfl⟩
    exact ⟨vs, ⟨ls, hp, hq⟩, rfl⟩
  · rintro ⟨vs, ⟨ls, hp, hq⟩, rfl⟩
    exact ⟨(f, ls), hp, (l, vs), hq, rfl, rfl, rfl⟩

theorem GN_of_gramWF (g : Grammar) (h : GramWF g) : TT.Lemmas.Unbin.GN g :=
  ⟨h.funcs, fun p hp => (h.lins p hp).1⟩

theorem rules_nodup (g : Grammar) (h : GramWF g) : g.rules.Nodup :=
  nodup_of_map _ _ (TT.Lemmas.Unbin.rules_keys_nodup g (GN_of_gramWF g h))

/-- the same finite map stores rearranged tables of vertical contexts -/
theorem inner_of_sameMap (g g' : Grammar) (h : GramWF g) (h' : GramWF g') (e : SameMap g g')
    (f : Func) (l : Lin) (vs : AList VertKey Nat) (hi : inner g f l = some vs) :
    ∃ vs', inner g' f l = some vs' ∧ vs.Perm vs' := by
  have hv := inner_VOK g h f l vs hi
  obtain ⟨k, n, hk⟩ := exists_get?_of_ne_nil vs hv.2
  have e1 := e f l k
  rw [lookup_eq_inner, lookup_eq_inner, hi, Option.bind_some, hk] at e1
  cases hi' : inner g' f l with
  | none => rw [hi'] at e1; simp at e1
  | some vs' =>
    refine ⟨vs', rfl, ?_⟩
    have hv' := inner_VOK g' h' f l vs' hi'
    apply perm_of_get? vs vs' hv.1 hv'.1
    intro v
    have := e f l v
    rw [lookup_eq_inner, lookup_eq_inner, hi, hi'] at this
    exact this

theorem mem_rules_of_sameMap (g g' : Grammar) (h : GramWF g) (h' : GramWF g') (e : SameMap g g')
    (r : Func × Lin × Nat) (hr : r ∈ g.rules) : r ∈ g'.rules := by
  obtain ⟨f, l, c⟩ := r
  rw [mem_rules_iff g h] at hr
  obtain ⟨vs, hi, rfl⟩ := hr
  obtain ⟨vs', hi', p⟩ := inner_of_sameMap g g' h h' e f l vs hi
  rw [mem_rules_iff g' h']
  exact ⟨vs', hi', ((p.map (·.2)).sum_nat)⟩

/-! ### the function keys -/

theorem mem_funcs_iff (g : Grammar) (h : GramWF g) (f : Func) :
    f ∈ g.map (·.1) ↔ ∃ r ∈ g.rules, r.1 = f := by
  constructor
  · intro hf
    obtain ⟨⟨f', ls⟩, hp, rfl⟩ := List.mem_map.1 hf
    have hne := (h.lins _ hp).2
    cases ls with
    | nil => exact absurd rfl hne
    | cons q r =>
      refine ⟨(f', q.1, (q.2.map (·.2)).sum), ?_, rfl⟩
      simp only [Grammar.rules, List.mem_flatMap, List.mem_map]
      exact ⟨(f', q :: r), hp, q, by simp, rfl⟩
  · rintro ⟨r, hr, rfl⟩
    obtain ⟨p, hp, e⟩ := mem_rules_func g r hr
    rw [← e]
    exact List.mem_map_of_mem hp

theorem funcs_perm_of_rules_perm (g g' : Grammar) (h : GramWF g) (h' : GramWF g') (p : g.rules.Perm g'.rules) :
    (g.map (·.1)).Perm (g'.map (·.1)) := by
  rw [List.perm_ext_iff_of_nodup h.funcs h'.funcs]
  intro f
  rw [mem_funcs_iff g h, mem_funcs_iff g' h']
  constructor
  · rintro ⟨r, hr, e⟩; exact ⟨r, p.mem_iff.1 hr, e⟩
  · rintro ⟨r, hr, e⟩; exact ⟨r, p.mem_iff.2 hr, e⟩

/-! ### context-freeness and start symbols read off the rules -/

theorem isContextFree_eq_rules (g : Grammar) :
    isContextFree g = g.rules.all fun r => decide (r.2.1.length ≤ 1) := by
  unfold isContextFree Grammar.rules
  induction g with
  | nil => rfl
  | cons p r ih =>
    obtain ⟨f, ls⟩ := p
    rw [List.all_cons, List.flatMap_cons, List.all_append, ih, List.all_map]
    rfl

theorem lhsMass_of_rules_perm (g g' : Grammar) (p : g.rules.Perm g'.rules) (s : Str) :
    lhsMass g s = lhsMass g' s := by
  unfold lhsMass
  exact (((p.filter _).map _).sum_nat)

/-- the start lines, from the function keys and the mass of each symbol -/
def startOf (fs : List Func) (mass : Str → Nat) : List Str :=
  (((fs.map fun f => f.head?.getD []).eraseDups.filter fun s => !(fs.flatMap fun f => f.drop 1).contains s).map
    fun s => s ++ sp ++ natToStr (mass s))

theorem start_eq_startOf (g : Grammar) (lex : Lexicon) (F : LoparFiles) (h : writeLopar g lex = .ok F) :
    F.start = startOf (g.map (·.1)) (lhsMass g) := by
  rw [TT.Props.C09.lopar_start g lex F h]
  unfold startOf
  simp only [List.map_map, List.flatMap_map]
  rfl

theorem startOf_perm (fs fs' : List Func) (mass mass' : Str → Nat) (p : fs.Perm fs') (hm : ∀ s, mass s = mass' s) :
    (startOf fs mass).Perm (startOf fs' mass') := by
  have e : mass = mass' := funext hm
  subst e
  unfold startOf
  apply List.Perm.map
  have hc : (fun s => !(fs.flatMap fun f => f.drop 1).contains s) =
      (fun s => !(fs'.flatMap fun f => f.drop 1).contains s) := by
    funext s
    congr 1
    rw [Bool.eq_iff_iff, List.contains_iff_mem, List.contains_iff_mem]
    exact (p.flatMap_right _).mem_iff
  rw [hc]
  apply List.Perm.filter
  exact eraseDups_perm _ _ (p.map _)

/-! ### the writer, once the grammar is known to be context-free -/

theorem writeLopar_isCF (g : Grammar) (lex : Lexicon) (F : LoparFiles) (h : writeLopar g lex = .ok F) :
    isContextFree g = true := by
  unfold writeLopar at h
  cases hc : isContextFree g
  · simp [hc] at h
  · rfl

theorem writeLopar_ok_of_isCF (g : Grammar) (lex : Lexicon) (h : isContextFree g = true) :
    ∃ F, writeLopar g lex = .ok F := by
  unfold writeLopar
  simp only [h, Bool.not_true, Bool.false_eq_true, if_false]
  exact ⟨_, rfl⟩

/-- the lexicon-side files do not depend on the grammar -/
theorem writeLopar_lexside (g g' : Grammar) (lex : Lexicon) (F F' : LoparFiles)
    (h : writeLopar g lex = .ok F) (h' : writeLopar g' lex = .ok F') :
    F.lex = F'.lex ∧ F.oc = F'.oc ∧ F.ocU = F'.ocU := by
  unfold writeLopar at h h'
  split at h
  · cases h
  · split at h'
    · cases h'
    · simp only at h h'
      cases h
      cases h'
      exact ⟨rfl, rfl, rfl⟩

end TT.Lemmas.Lopar12

namespace TT.Lemmas.Lopar12
open TT TT.Tree TT.Spec TT.Lemmas.GramOut

/-! ### a decidable way to show `SameMap`: the entries -/

theorem lookup_eq_some_iff (g : Grammar) (h : GramWF g) (f : Func) (l : Lin) (v : VertKey) (c : Nat) :
    gramLookup g f l v = some c ↔ (f, l, v, c) ∈ g.entries := by
  rw [lookup_eq_inner]
  simp only [Grammar.entries, List.mem_flatMap, List.mem_map, Prod.mk.injEq]
  constructor
  · intro e
    cases hi : inner g f l with
    | none => simp [hi] at e
    | some vs =>
      rw [hi, Option.bind_some] at e
      obtain ⟨ls, h1, h2⟩ := (inner_eq_some_iff g h f l vs).1 hi
      exact ⟨(f, ls), h1, (l, vs), h2, (v, c), get?_some_mem _ _ _ e, rfl, rfl, rfl, rfl⟩
  · rintro ⟨⟨f', ls⟩, h1, ⟨l', vs⟩, h2, ⟨v', c'⟩, h3, rfl, rfl, rfl, rfl⟩
    rw [(inner_eq_some_iff g h f' l' vs).2 ⟨ls, h1, h2⟩, Option.bind_some]
    exact (get?_some_iff_mem vs (h.verts _ h1 _ h2).1 v' c').2 h3

theorem sameMap_of_entries_perm (g g' : Grammar) (h : GramWF g) (h' : GramWF g') (p : g.entries.Perm g'.entries) :
    SameMap g g' := by
  intro f l v
  apply Option.ext
  intro c
  rw [lookup_eq_some_iff g h, lookup_eq_some_iff g' h', p.mem_iff]

theorem ruleOcc_perm (f : Func) (l : Lin) (v : VertKey) (ts ts' : List Tree) (p : ts.Perm ts') :
    TT.Lemmas.Proc.ruleOcc f l v ts = TT.Lemmas.Proc.ruleOcc f l v ts' := by
  unfold TT.Lemmas.Proc.ruleOcc
  exact (p.map _).sum_nat

end TT.Lemmas.Lopar12

namespace TT.Lemmas.Lopar12
open TT TT.Tree TT.Spec TT.Lemmas.GramOut

/-! ### two-level association lists, flattened -/

section AL2
variable {κ κ' ν : Type} [DecidableEq κ] [DecidableEq κ']

def flat2 (m : AList κ (AList κ' ν)) : List (κ × κ' × ν) :=
  m.flatMap fun p => p.2.map fun q => (p.1, q.1, q.2)

/-- every key once, at both levels -/
def WF2 (m : AList κ (AList κ' ν)) : Prop := (m.map (·.1)).Nodup ∧ ∀ p ∈ m, (p.2.map (·.1)).Nodup

theorem mem_flat2_iff (m : AList κ (AList κ' ν)) (h : WF2 m) (k : κ) (k' : κ') (v : ν) :
    (k, k', v) ∈ flat2 m ↔ (AList.get? k m).bind (AList.get? k') = some v := by
  simp only [flat2, List.mem_flatMap, List.mem_map, Prod.mk.injEq]
  constructor
  · rintro ⟨⟨a, tb⟩, hp, ⟨b, w⟩, hq, rfl, rfl, rfl⟩
    rw [(get?_some_iff_mem m h.1 a tb).2 hp, Option.bind_some]
    exact (get?_some_iff_mem tb (h.2 _ hp) b w).2 hq
  · intro e
    cases h1 : AList.get? k m with
    | none => simp [h1] at e
    | some tb =>
      rw [h1, Option.bind_some] at e
      exact ⟨(k, tb), get?_some_mem _ _ _ h1, (k', v), get?_some_mem _ _ _ e, rfl, rfl, rfl⟩

omit [DecidableEq κ] [DecidableEq κ'] in
theorem flat2_nodup (m : AList κ (AList κ' ν)) (h : WF2 m) : (flat2 m).Nodup := by
  unfold flat2 List.Nodup
  rw [List.pairwise_flatMap]
  constructor
  · intro p hp
    have := h.2 p hp
    unfold List.Nodup at this
    rw [List.pairwise_map] at this ⊢
    refine this.imp ?_
    intro a b hab e
    simp only [Prod.mk.injEq] at e
    exact hab e.2.1
  · have := h.1
    unfold List.Nodup at this
    rw [List.pairwise_map] at this
    refine this.imp ?_
    intro a b hab x hx y hy e
    obtain ⟨q, _, rfl⟩ := List.mem_map.1 hx
    obtain ⟨q', _, rfl⟩ := List.mem_map.1 hy
    simp only [Prod.mk.injEq] at e
    exact hab e.1

/-- the same two-level finite map has the same entries, up to their order -/
theorem flat2_perm (m m' : AList κ (AList κ' ν)) (h : WF2 m) (h' : WF2 m')
    (e : ∀ k k', (AList.get? k m).bind (AList.get? k') = (AList.get? k m').bind (AList.get? k')) :
    (flat2 m).Perm (flat2 m') := by
  rw [List.perm_ext_iff_of_nodup (flat2_nodup m h) (flat2_nodup m' h')]
  rintro ⟨k, k', v⟩
  rw [mem_flat2_iff m h, mem_flat2_iff m' h', e]

end AL2

/-! ### a sequence of `bumpS` read as a finite map -/

/-- apply a list of (key, amount) increments -/
def bumpAll (E : List (Str × Nat)) (acc : AList Str Nat) : AList Str Nat :=
  E.foldl (fun a e => bumpS e.1 e.2 a) acc

theorem bumpAll_keys_nodup (E : List (Str × Nat)) : ∀ acc : AList Str Nat, (acc.map (·.1)).Nodup →
    ((bumpAll E acc).map (·.1)).Nodup := by
  induction E with
  | nil => exact fun _ h => h
  | cons e r ih => exact fun acc h => ih _ (TT.Lemmas.Unbin.upsert_keys_nodup _ _ _ h)

theorem get?_bumpS (k t : Str) (n : Nat) (a : AList Str Nat) :
    AList.get? t (bumpS k n a) = if k = t then some ((AList.get? k a).getD 0 + n) else AList.get? t a := by
  unfold bumpS
  rw [get?_upsert]

/-- the amounts given to key `t` -/
def amounts (t : Str) (E : List (Str × Nat)) : List Nat := (E.filter fun e => e.1 = t).map (·.2)

theorem get?_bumpAll (t : Str) (E : List (Str × Nat)) : ∀ acc : AList Str Nat,
    AList.get? t (bumpAll E acc) =
      if amounts t E = [] then AList.get? t acc else some ((AList.get? t acc).getD 0 + (amounts t E).sum) := by
  induction E with
  | nil => intro acc; simp [bumpAll, amounts]
  | cons e r ih =>
    intro acc
    have hstep : bumpAll (e :: r) acc = bumpAll r (bumpS e.1 e.2 acc) := rfl
    rw [hstep, ih, get?_bumpS]
    unfold amounts at ih ⊢
    by_cases he : e.1 = t
    · subst he
      simp only [List.filter_cons, decide_true, if_true, List.map_cons, List.sum_cons]
      split
      · next hz => simp [hz]
      · simp; omega
    · rw [if_neg he, List.filter_cons_of_neg (by simpa using he)]

theorem amounts_perm (t : Str) (E E' : List (Str × Nat)) (p : E.Perm E') : (amounts t E).Perm (amounts t E') :=
  (p.filter _).map _

theorem bumpAll_perm (E E' : List (Str × Nat)) (p : E.Perm E') : (bumpAll E []).Perm (bumpAll E' []) := by
  apply perm_of_get? _ _ (bumpAll_keys_nodup E [] (by simp)) (bumpAll_keys_nodup E' [] (by simp))
  intro t
  rw [get?_bumpAll, get?_bumpAll]
  have pa := amounts_perm t E E' p
  have hs := pa.sum_nat
  have hn : amounts t E = [] ↔ amounts t E' = [] := by
    constructor
    · intro h; rw [h] at pa; exact pa.nil_eq.symm
    · intro h; rw [h] at pa; exact pa.symm.nil_eq.symm
  by_cases h : amounts t E = []
  · rw [if_pos h, if_pos (hn.1 h)]
  · rw [if_neg h, if_neg (fun h' => h (hn.2 h')), hs]

/-! ### the two tag-count tables of the LoPar writer -/

def isUp (w : Str) : Bool := (w.head?.map pyIsUpperChar).getD false

/-- the fold of `writeLopar` -/
def ocFold (lex : Lexicon) (acc : AList Str Nat × AList Str Nat) : AList Str Nat × AList Str Nat :=
  lex.foldl (fun (acc : AList Str Nat × AList Str Nat) (word, tags) =>
      if (word.head?.map pyIsUpperChar).getD false
      then (acc.1, tags.foldl (fun a (t, c) => bumpS t c a) acc.2)
      else (tags.foldl (fun a (t, c) => bumpS t c a) acc.1, acc.2)) acc

def ocLine (p : Str × Nat) : Str := p.1 ++ sp ++ natToStr p.2

theorem writeLopar_oc (g : Grammar) (lex : Lexicon) (F : LoparFiles) (h : writeLopar g lex = .ok F) :
    F.oc = (ocFold lex ([], [])).1.map ocLine ∧ F.ocU = (ocFold lex ([], [])).2.map ocLine := by
  unfold writeLopar at h
  split at h
  · cases h
  · simp only at h
    cases h
    exact ⟨rfl, rfl⟩

/-- the increments contributed by the words of one case -/
def incs (up : Bool) (lex : Lexicon) : List (Str × Nat) :=
  ((flat2 lex).filter fun e => isUp e.1 == up).map (·.2)

theorem incs_cons (up : Bool) (w : Str) (tags : AList Str Nat) (lex : Lexicon) :
    incs up ((w, tags) :: lex) = (if isUp w == up then tags else []) ++ incs up lex := by
  unfold incs flat2
  rw [List.flatMap_cons, List.filter_append, List.map_append]
  congr 1
  by_cases h : (isUp w == up) = true
  · rw [if_pos h, List.filter_eq_self.2 (by
      intro e he
      obtain ⟨q, _, rfl⟩ := List.mem_map.1 he
      exact h)]
    rw [List.map_map]
    have : ((fun x : Str × Str × Nat => x.2) ∘ fun q : Str × Nat => (w, q.1, q.2)) = id := by funext q; rfl
    rw [this, List.map_id]
  · rw [if_neg h, List.filter_eq_nil_iff.2 (by
      intro e he
      obtain ⟨q, _, rfl⟩ := List.mem_map.1 he
      exact h)]
    rfl

theorem bumpAll_append (A B : List (Str × Nat)) (acc : AList Str Nat) :
    bumpAll (A ++ B) acc = bumpAll B (bumpAll A acc) := by
  simp [bumpAll, List.foldl_append]

theorem ocFold_eq (lex : Lexicon) : ∀ acc : AList Str Nat × AList Str Nat,
    ocFold lex acc = (bumpAll (incs false lex) acc.1, bumpAll (incs true lex) acc.2) := by
  induction lex with
  | nil => intro acc; rfl
  | cons p r ih =>
    obtain ⟨w, tags⟩ := p
    intro acc
    have hstep : ocFold ((w, tags) :: r) acc =
        ocFold r (if isUp w then (acc.1, bumpAll tags acc.2) else (bumpAll tags acc.1, acc.2)) := rfl
    rw [hstep, ih, incs_cons, incs_cons, bumpAll_append, bumpAll_append]
    cases hu : isUp w <;> simp [bumpAll]

theorem incs_perm (up : Bool) (lex lex' : Lexicon) (p : (flat2 lex).Perm (flat2 lex')) :
    (incs up lex).Perm (incs up lex') := (p.filter _).map _

end TT.Lemmas.Lopar12

/-! ## the LoPar writer: the lexicon side of the command (helpers) -/

namespace TT.Lemmas.Lopar12
open TT TT.Tree TT.Spec TT.Lemmas.GramOut

/-! ### the lexicon as a finite map after `Lexicon.add` -/

theorem lexCount_eq_lexLookup (lex : Lexicon) (w t : Str) : lexCount lex w t = (lexLookup lex w t).getD 0 := rfl

theorem lexLookup_add (lex : Lexicon) (w w' t t' : Str) (n : Nat) :
    lexLookup (lex.add w t n) w' t' =
      if w = w' ∧ t = t' then some (lexCount lex w t + n) else lexLookup lex w' t' := by
  unfold lexLookup lexCount Lexicon.add
  rw [get?_upsert]
  by_cases hw : w = w'
  · subst hw
    simp only [if_true, Option.bind_some, true_and, get?_upsert, get?_getD_nil]
  · simp [hw]

/-- every word once, every tag once under its word, no word without a tag -/
def LexWFne (lex : Lexicon) : Prop := LexWF lex ∧ ∀ p ∈ lex, p.2 ≠ []

theorem lexWF_nil : LexWF [] := ⟨by simp, by simp⟩
theorem lexWFne_nil : LexWFne [] := ⟨lexWF_nil, by simp⟩

theorem lexWF_add (lex : Lexicon) (w t : Str) (n : Nat) (h : LexWF lex) : LexWF (lex.add w t n) := by
  unfold Lexicon.add
  refine ⟨TT.Lemmas.Unbin.upsert_keys_nodup _ _ _ h.1, ?_⟩
  apply upsert_forall (fun p : Str × AList Str Nat => (p.2.map (·.1)).Nodup) _ _ _ h.2
  · exact TT.Lemmas.Unbin.upsert_keys_nodup _ _ _ (by simp)
  · intro tags ht
    exact TT.Lemmas.Unbin.upsert_keys_nodup _ _ _ (h.2 _ ht)

theorem lexWFne_add (lex : Lexicon) (w t : Str) (n : Nat) (h : LexWFne lex) : LexWFne (lex.add w t n) := by
  refine ⟨lexWF_add lex w t n h.1, ?_⟩
  unfold Lexicon.add
  apply upsert_forall (fun p => p.2 ≠ []) _ _ _ h.2
  · exact upsert_ne_nil _ _ _
  · intro tags _
    exact upsert_ne_nil _ _ _

/-- no count 0 is stored -/
def LexTight (lex : Lexicon) : Prop := ∀ w t, lexLookup lex w t ≠ some 0

theorem lexTight_nil : LexTight [] := fun _ _ => by simp [lexLookup]

theorem lexTight_add (lex : Lexicon) (w t : Str) (n : Nat) (hn : 0 < n) (h : LexTight lex) :
    LexTight (lex.add w t n) := by
  intro w' t'
  rw [lexLookup_add]
  split
  · intro e
    have := Option.some.inj e
    omega
  · exact h w' t'

/-- what the extraction keeps true of the lexicon -/
def LexInv (lex : Lexicon) : Prop := LexWFne lex ∧ LexTight lex

theorem lexInv_applyEvent (st : Grammar × Lexicon) (e : Event) (h : LexInv st.2) : LexInv (applyEvent st e).2 := by
  cases e with
  | rule f l v => exact h
  | lex w t => exact ⟨lexWFne_add _ _ _ _ h.1, lexTight_add _ _ _ _ (by decide) h.2⟩

theorem lexInv_foldl_applyEvent (evs : List Event) : ∀ st : Grammar × Lexicon, LexInv st.2 →
    LexInv (evs.foldl applyEvent st).2 := by
  induction evs with
  | nil => exact fun _ h => h
  | cons e r ih => exact fun st h => ih _ (lexInv_applyEvent st e h)

theorem lexInv_foldl_extract (ts : List Tree) : ∀ st : Grammar × Lexicon, LexInv st.2 →
    LexInv (ts.foldl (fun st t => extract t st) st).2 := by
  induction ts with
  | nil => exact fun _ h => h
  | cons t r ih => exact fun st h => ih _ (lexInv_foldl_applyEvent _ st h)

/-- with no zero stored the counts determine the finite map -/
theorem sameLex_of_lexCount (lex lex' : Lexicon) (ht : LexTight lex) (ht' : LexTight lex')
    (h : ∀ w t, lexCount lex w t = lexCount lex' w t) : SameLex lex lex' := by
  intro w t
  have := h w t
  rw [lexCount_eq_lexLookup, lexCount_eq_lexLookup] at this
  have a := ht w t
  have a' := ht' w t
  cases h1 : lexLookup lex w t <;> cases h2 : lexLookup lex' w t <;> simp_all

/-- with no zero stored the finite map is read off the counts -/
theorem lexLookup_of_tight (lex : Lexicon) (ht : LexTight lex) (w t : Str) :
    lexLookup lex w t = if lexCount lex w t = 0 then none else some (lexCount lex w t) := by
  have a := ht w t
  rw [lexCount_eq_lexLookup]
  cases h1 : lexLookup lex w t with
  | none => simp
  | some c =>
    have : c ≠ 0 := fun e => a (by rw [h1, e])
    simp [this]

theorem lexOcc_perm (w t : Str) (ts ts' : List Tree) (p : ts.Perm ts') :
    TT.Lemmas.Proc.lexOcc w t ts = TT.Lemmas.Proc.lexOcc w t ts' := by
  unfold TT.Lemmas.Proc.lexOcc
  exact (p.map _).sum_nat

/-! ### the lexicon of the same finite map: the same words, each with the same tags, up to order -/

theorem lexLookup_eq (lex : Lexicon) (w t : Str) : lexLookup lex w t = (AList.get? w lex).bind (AList.get? t) := rfl

theorem tags_of_sameLex (lex lex' : Lexicon) (h : LexWFne lex) (h' : LexWFne lex') (e : SameLex lex lex')
    (w : Str) (tags : AList Str Nat) (hm : (w, tags) ∈ lex) :
    ∃ tags', (w, tags') ∈ lex' ∧ tags.Perm tags' := by
  have hg := (get?_some_iff_mem lex h.1.1 w tags).2 hm
  obtain ⟨k, n, hk⟩ := exists_get?_of_ne_nil tags (h.2 _ hm)
  have e1 := e w k
  rw [lexLookup_eq, lexLookup_eq, hg, Option.bind_some, hk] at e1
  cases hg' : AList.get? w lex' with
  | none => rw [hg'] at e1; simp at e1
  | some tags' =>
    have hm' := get?_some_mem _ _ _ hg'
    refine ⟨tags', hm', ?_⟩
    apply perm_of_get? tags tags' (h.1.2 _ hm) (h'.1.2 _ hm')
    intro t
    have := e w t
    rw [lexLookup_eq, lexLookup_eq, hg, hg'] at this
    exact this

theorem words_of_sameLex (lex lex' : Lexicon) (h : LexWFne lex) (h' : LexWFne lex') (e : SameLex lex lex') :
    (lex.map (·.1)).Perm (lex'.map (·.1)) := by
  rw [List.perm_ext_iff_of_nodup h.1.1 h'.1.1]
  intro w
  constructor
  · intro hw
    obtain ⟨⟨w', tags⟩, hm, rfl⟩ := List.mem_map.1 hw
    obtain ⟨tags', hm', _⟩ := tags_of_sameLex lex lex' h h' e w' tags hm
    exact List.mem_map_of_mem (f := (·.1)) hm'
  · intro hw
    obtain ⟨⟨w', tags⟩, hm, rfl⟩ := List.mem_map.1 hw
    obtain ⟨tags', hm', _⟩ := tags_of_sameLex lex' lex h' h (fun a b => (e a b).symm) w' tags hm
    exact List.mem_map_of_mem (f := (·.1)) hm'

end TT.Lemmas.Lopar12

/-! ## the discobracket reader (helpers) -/

namespace TT.Lemmas.Disco12
open TT TT.Spec TT.Lemmas.Read TT.Lemmas.More4

/-! ### A. the sentence collector -/

/-- the token ends a sentence line: whitespace that contains a line break -/
def isBreak (tc : Str × LexClass) : Bool := tc.2 == .ws && tc.1.contains '\n'

/-- A(i): what `discoSentence` leaves over is a suffix of its input -/
theorem discoSentence_suffix (x : List (Str × LexClass)) : ∀ (pos : Nat) (acc : List (Nat × Str)),
    (discoSentence x pos acc).2 <:+ x := by
  induction x with
  | nil => intro pos acc; simp [discoSentence]
  | cons tc rest ih =>
    obtain ⟨t, c⟩ := tc
    intro pos acc
    simp only [discoSentence]
    split
    · split
      · exact List.suffix_cons _ _
      · exact (ih _ _).trans (List.suffix_cons _ _)
    · exact (ih _ _).trans (List.suffix_cons _ _)

theorem discoSentence_length_le (x : List (Str × LexClass)) (pos : Nat) (acc : List (Nat × Str)) :
    (discoSentence x pos acc).2.length ≤ x.length :=
  (discoSentence_suffix x pos acc).length_le

/-- A(ii): the collector stops at the first whitespace token with a line break; what follows is not looked at -/
theorem discoSentence_append (x b : List (Str × LexClass)) (h : ∃ tc ∈ x, isBreak tc = true) :
    ∀ (pos : Nat) (acc : List (Nat × Str)),
    discoSentence (x ++ b) pos acc = ((discoSentence x pos acc).1, (discoSentence x pos acc).2 ++ b) := by
  induction x with
  | nil => obtain ⟨tc, hm, _⟩ := h; cases hm
  | cons tc rest ih =>
    obtain ⟨t, c⟩ := tc
    intro pos acc
    have hrest : isBreak (t, c) = false → ∃ tc ∈ rest, isBreak tc = true := by
      intro hne
      obtain ⟨tc, hm, ht⟩ := h
      rcases List.mem_cons.1 hm with rfl | hm
      · rw [hne] at ht; cases ht
      · exact ⟨tc, hm, ht⟩
    simp only [List.cons_append, discoSentence]
    split
    · rename_i hc
      split
      · rfl
      · rename_i hn
        exact ih (hrest (by simp only [isBreak, hc]; simpa using hn)) _ _
    · rename_i hc
      exact ih (hrest (by simp only [isBreak]; simpa using fun h => absurd h (by simpa using hc))) _ _

/-- without such a token the collector runs to the end of the stream -/
theorem discoSentence_noBreak (x : List (Str × LexClass)) (h : ∀ tc ∈ x, isBreak tc = false) :
    ∀ (pos : Nat) (acc : List (Nat × Str)), (discoSentence x pos acc).2 = [] := by
  induction x with
  | nil => intro pos acc; rfl
  | cons tc rest ih =>
    obtain ⟨t, c⟩ := tc
    intro pos acc
    have h0 := h (t, c) (by simp)
    have hr : ∀ tc ∈ rest, isBreak tc = false := fun tc hm => h tc (by simp [hm])
    simp only [discoSentence]
    split
    · rename_i hc
      split
      · rename_i hn
        simp only [isBreak, hc, hn] at h0
        cases h0
      · exact ih hr _ _
    · exact ih hr _ _

/-- a whitespace token at the end of a stream without a line-break token changes nothing -/
theorem discoSentence_snoc_ws (x : List (Str × LexClass)) (w : Str) (h : ∀ tc ∈ x, isBreak tc = false) :
    ∀ (pos : Nat) (acc : List (Nat × Str)),
    discoSentence (x ++ [(w, .ws)]) pos acc = ((discoSentence x pos acc).1, []) := by
  induction x with
  | nil =>
    intro pos acc
    simp [discoSentence]
  | cons tc rest ih =>
    obtain ⟨t, c⟩ := tc
    intro pos acc
    have h0 := h (t, c) (by simp)
    have hr : ∀ tc ∈ rest, isBreak tc = false := fun tc hm => h tc (by simp [hm])
    simp only [List.cons_append, discoSentence]
    split
    · rename_i hc
      split
      · rename_i hn
        simp only [isBreak, hc, hn] at h0
        cases h0
      · exact ih hr _ _
    · exact ih hr _ _

/-! ### the last token is whitespace with a line break -/

/-- the last lexer token of `a` is whitespace that contains a line break (or there is none): the last sentence line is
    terminated inside `a`.  (The statement of the token-level theorem before the repair of the reader used
    `TT.Spec.EndsNL`: "the last token has the text "\n"", whatever its class.) -/
def EndsBreak (a : List (Str × LexClass)) : Prop :=
  a = [] ∨ ∃ pre t, a = pre ++ [(t, LexClass.ws)] ∧ t.contains '\n' = true

/-- on a stream in which every "\n" token is a whitespace token (every lexer output), the former hypothesis implies the
    present one -/
theorem endsBreak_of_endsNL (a : List (Str × LexClass)) (h : EndsNL a) (hc : ∀ tc ∈ a, tc.1 = ['\n'] → tc.2 = .ws) :
    EndsBreak a := by
  rcases h with h | ⟨pre, c, h⟩
  · exact .inl h
  · have := hc (['\n'], c) (by rw [h]; simp) rfl
    simp only at this
    subst this
    exact .inr ⟨pre, ['\n'], h, by decide⟩

theorem endsBreak_nil : EndsBreak [] := .inl rfl

theorem endsBreak_tail (x : Str × LexClass) (l : List (Str × LexClass)) (h : EndsBreak (x :: l)) : EndsBreak l := by
  rcases h with h | ⟨pre, t, h, ht⟩
  · cases h
  · cases pre with
    | nil => simp only [List.nil_append, List.cons.injEq] at h; exact .inl h.2
    | cons y pre' => simp only [List.cons_append, List.cons.injEq] at h; exact .inr ⟨pre', t, h.2, ht⟩

theorem endsBreak_suffix (s l : List (Str × LexClass)) (hs : s <:+ l) (h : EndsBreak l) : EndsBreak s := by
  obtain ⟨p, rfl⟩ := hs
  induction p with
  | nil => exact h
  | cons x p ih => exact ih (endsBreak_tail x _ h)

theorem endsBreak_mem (l : List (Str × LexClass)) (h : EndsBreak l) (hne : l ≠ []) : ∃ tc ∈ l, isBreak tc = true := by
  rcases h with h | ⟨pre, t, h, ht⟩
  · exact absurd h hne
  · exact ⟨(t, .ws), by rw [h]; simp, by simp only [isBreak, ht]; decide⟩

theorem endsBreak_cons_ne (first : Str × LexClass) (rest1 : List (Str × LexClass)) (h : EndsBreak (first :: rest1))
    (hf : isBreak first = false) : rest1 ≠ [] := by
  rintro rfl
  rcases h with h | ⟨pre, t, h, ht⟩
  · cases h
  · cases pre with
    | nil =>
      simp only [List.nil_append, List.cons.injEq] at h
      rw [h.1] at hf
      simp only [isBreak, ht] at hf
      exact absurd hf (by decide)
    | cons y pre' =>
      simp only [List.cons_append, List.cons.injEq] at h
      have := congrArg List.length h.2
      simp at this

theorem endsBreak_snoc (pre : List (Str × LexClass)) (t : Str) (ht : t.contains '\n' = true) :
    EndsBreak (pre ++ [(t, .ws)]) := .inr ⟨pre, t, rfl, ht⟩

/-! ### one macro step of the reader loop -/

/-- what the loop does after a tree was closed: the discobracket post-pass (or nothing); the result is the new
    state and the tokens still to be read -/
def dPost (o : InOpts) (sid : Nat) (st' : BrState) (t : Tree) (rest : List (Str × LexClass)) :
    Except Err (BrState × List (Str × LexClass)) :=
  if o.disco then
    match rest with
    | [] => .error .valueError
    | first :: rest1 =>
      let p := if first.2 == .ws && first.1.contains '\n' then ([], rest1) else discoSentence rest1 1 []
      match discoApply o.discoReordered p.1 t with
      | some t' => .ok ({ st' with out := (sid, t') :: st'.out }, p.2)
      | none => .error .valueError
  else .ok ({ st' with out := (sid, t) :: st'.out }, rest)

/-- one round of `brLoop`: an automaton step and, when a tree was closed, the post-pass -/
def dStep (o : InOpts) (st : BrState) (tok : Str × LexClass) (rest : List (Str × LexClass)) :
    Except Err (BrState × List (Str × LexClass)) :=
  match brStep o st tok with
  | .error e => .error e
  | .ok (st', none) => .ok (st', rest)
  | .ok (st', some t) => dPost o st.cnt st' t rest

theorem brLoop_cons (o : InOpts) (fuel : Nat) (st : BrState) (tok : Str × LexClass) (rest : List (Str × LexClass)) :
    brLoop o (fuel + 1) st (tok :: rest) =
      match dStep o st tok rest with
      | .error e => .error e
      | .ok (s, r) => brLoop o fuel s r := by
  simp only [brLoop, dStep]
  cases hs : brStep o st tok with
  | error e => rfl
  | ok x =>
    obtain ⟨st', r⟩ := x
    cases r with
    | none => rfl
    | some t =>
      simp only [dPost]
      cases o.disco with
      | false => rfl
      | true =>
        simp only [if_true]
        cases rest with
        | nil => rfl
        | cons first rest1 =>
          simp only
          cases hp : (if (first.2 == .ws && first.1.contains '\n') = true then (([] : List (Nat × Str)), rest1) else discoSentence rest1 1 []) with
          | mk tm rest2 =>
            simp only
            cases discoApply o.discoReordered tm t <;> rfl

theorem brLoop_nil (o : InOpts) (fuel : Nat) (st : BrState) :
    brLoop o (fuel + 1) st [] = brEnd st := by
  simp [brLoop, brEnd]

theorem dPost_suffix (o : InOpts) (sid : Nat) (st' s : BrState) (t : Tree) (rest r : List (Str × LexClass))
    (h : dPost o sid st' t rest = .ok (s, r)) : r <:+ rest := by
  unfold dPost at h
  split at h
  · split at h
    · cases h
    · rename_i first rest1
      simp only at h
      split at h
      · injection h with h
        injection h with _ h
        subst h
        split
        · exact List.suffix_cons _ _
        · exact (discoSentence_suffix _ _ _).trans (List.suffix_cons _ _)
      · cases h
  · injection h with h
    injection h with _ h
    subst h
    exact List.suffix_refl _

theorem dStep_suffix (o : InOpts) (st s : BrState) (tok : Str × LexClass) (rest r : List (Str × LexClass))
    (h : dStep o st tok rest = .ok (s, r)) : r <:+ rest := by
  unfold dStep at h
  split at h
  · cases h
  · injection h with h
    injection h with _ h
    subst h
    exact List.suffix_refl _
  · exact dPost_suffix o _ _ _ _ _ _ h

/-- the state part of a successful post-pass: the state after the automaton step with one tree pushed -/
theorem dPost_state (o : InOpts) (sid : Nat) (st' s : BrState) (t : Tree) (rest r : List (Str × LexClass))
    (h : dPost o sid st' t rest = .ok (s, r)) : ∃ t', s = { st' with out := (sid, t') :: st'.out } := by
  unfold dPost at h
  split at h
  · split at h
    · cases h
    · simp only at h
      split at h
      · rename_i t' _
        injection h with h
        injection h with h _
        exact ⟨t', h.symm⟩
      · cases h
  · injection h with h
    injection h with h _
    exact ⟨t, h.symm⟩

/-- the post-pass does not look past the "\n" token that ends the sentence line -/
theorem dPost_append (o : InOpts) (sid : Nat) (st' s : BrState) (t : Tree) (rest r b : List (Str × LexClass))
    (h : dPost o sid st' t rest = .ok (s, r)) (hnl : EndsBreak rest) :
    dPost o sid st' t (rest ++ b) = .ok (s, r ++ b) := by
  unfold dPost at h ⊢
  cases hd : o.disco with
  | false =>
    simp only [hd, Bool.false_eq_true, if_false] at h ⊢
    injection h with h
    injection h with h1 h2
    subst h1 h2
    rfl
  | true =>
    simp only [hd, if_true] at h ⊢
    cases rest with
    | nil => cases h
    | cons first rest1 =>
      simp only [List.cons_append] at h ⊢
      by_cases hf : (first.2 == .ws && first.1.contains '\n') = true
      · simp only [hf, if_true] at h ⊢
        cases hda : discoApply o.discoReordered [] t with
        | none => rw [hda] at h; cases h
        | some t' =>
          rw [hda] at h
          simp only at h ⊢
          injection h with h
          injection h with h1 h2
          subst h1 h2
          rfl
      · simp only [hf, Bool.false_eq_true, if_false] at h ⊢
        have hne : rest1 ≠ [] := endsBreak_cons_ne first rest1 hnl (by simpa [isBreak] using hf)
        have hm := endsBreak_mem rest1 (endsBreak_tail _ _ hnl) hne
        rw [discoSentence_append rest1 b hm]
        cases hda : discoApply o.discoReordered (discoSentence rest1 1 []).1 t with
        | none => rw [hda] at h; cases h
        | some t' =>
          rw [hda] at h
          simp only at h ⊢
          injection h with h
          injection h with h1 h2
          subst h1 h2
          rfl

theorem dStep_append (o : InOpts) (st s : BrState) (tok : Str × LexClass) (rest r b : List (Str × LexClass))
    (h : dStep o st tok rest = .ok (s, r)) (hnl : EndsBreak (tok :: rest)) :
    dStep o st tok (rest ++ b) = .ok (s, r ++ b) := by
  unfold dStep at h ⊢
  cases hs : brStep o st tok with
  | error e => rw [hs] at h; cases h
  | ok x =>
    obtain ⟨st', res⟩ := x
    rw [hs] at h
    cases res with
    | none =>
      simp only at h ⊢
      injection h with h
      injection h with h1 h2
      subst h1 h2
      rfl
    | some t =>
      simp only at h ⊢
      exact dPost_append o _ _ _ _ _ _ _ h (endsBreak_tail _ _ hnl)

/-! ### B. fuel irrelevance (with the post-pass) -/

theorem brLoop_fuel (o : InOpts) : ∀ (fuel fuel' : Nat) (st : BrState) (toks : List (Str × LexClass)),
    toks.length < fuel → toks.length < fuel' → brLoop o fuel st toks = brLoop o fuel' st toks := by
  intro fuel
  induction fuel with
  | zero => intro fuel' st toks h; omega
  | succ fuel ih =>
    intro fuel' st toks h h'
    cases fuel' with
    | zero => omega
    | succ fuel' =>
      cases toks with
      | nil => rw [brLoop_nil, brLoop_nil]
      | cons tok rest =>
        rw [brLoop_cons, brLoop_cons]
        cases hs : dStep o st tok rest with
        | error e => rfl
        | ok x =>
          obtain ⟨s, r⟩ := x
          have hl := (dStep_suffix o st s tok rest r hs).length_le
          simp only [List.length_cons] at h h'
          exact ih fuel' s r (by omega) (by omega)

/-! ### what a run keeps -/

/-- the facts about the state reached that are carried along a run -/
structure Reach (st s : BrState) : Prop where
  inv0 : Inv0 st → Inv0 s
  inv2 : Inv2 st → Inv2 s
  len : st.out.length ≤ s.out.length
  cnt : s.cnt + st.out.length = st.cnt + s.out.length

theorem Reach.refl (st : BrState) : Reach st st := ⟨id, id, Nat.le_refl _, rfl⟩

theorem Reach.trans {a b c : BrState} (h1 : Reach a b) (h2 : Reach b c) : Reach a c :=
  ⟨fun h => h2.inv0 (h1.inv0 h), fun h => h2.inv2 (h1.inv2 h), Nat.le_trans h1.len h2.len, by
    have := h1.cnt; have := h2.cnt; have := h1.len; have := h2.len; omega⟩

theorem dStep_reach (o : InOpts) (st s : BrState) (tok : Str × LexClass) (rest r : List (Str × LexClass))
    (h : dStep o st tok rest = .ok (s, r)) : Reach st s := by
  unfold dStep at h
  cases hs : brStep o st tok with
  | error e => rw [hs] at h; cases h
  | ok x =>
    obtain ⟨st', res⟩ := x
    rw [hs] at h
    have hco := brStep_cnt_out o st st' tok res hs
    cases res with
    | none =>
      simp only at h
      injection h with h
      injection h with h1 _
      subst h1
      simp only [Option.isSome_none, Bool.false_eq_true, if_false] at hco
      exact ⟨brStep_inv0 o st st' tok none hs, brStep_inv2 o st st' tok none hs, by rw [hco.1]; exact Nat.le_refl _,
        by rw [hco.1, hco.2]⟩
    | some t =>
      simp only at h
      obtain ⟨t', rfl⟩ := dPost_state o _ _ _ _ _ _ h
      simp only [Option.isSome_some, if_true] at hco
      exact ⟨brStep_inv0 o st st' tok (some t) hs, brStep_inv2 o st st' tok (some t) hs,
        by simp only [List.length_cons, hco.1]; omega, by simp only [List.length_cons, hco.1, hco.2]; omega⟩

/-- the run over `a` (its last sentence line terminated) reaches a state from which the run over `a ++ b` continues with `b` -/
theorem loop_reach (o : InOpts) : ∀ (fa : Nat) (st : BrState) (a : List (Str × LexClass)) (ra : List (Nat × Tree)),
    brLoop o fa st a = .ok ra → EndsBreak a → a.length < fa →
    ∃ s : BrState, Reach st s ∧ s.level = 0 ∧ s.out = ra.reverse ∧
      ∀ (b : List (Str × LexClass)) (fb : Nat), (a ++ b).length < fb → brLoop o fb st (a ++ b) = brLoop o fb s b := by
  intro fa
  induction fa with
  | zero => intro st a ra _ _ h; omega
  | succ fa ih =>
    intro st a ra ha hnl hfa
    cases a with
    | nil =>
      rw [brLoop_nil] at ha
      simp only [brEnd] at ha
      split at ha
      · cases ha
      · rename_i hl
        injection ha with ha
        exact ⟨st, Reach.refl st, by simpa using hl, by rw [← ha]; simp, fun b fb _ => rfl⟩
    | cons tok rest =>
      rw [brLoop_cons] at ha
      cases hs : dStep o st tok rest with
      | error e => rw [hs] at ha; cases ha
      | ok x =>
        obtain ⟨s1, r⟩ := x
        rw [hs] at ha
        simp only at ha
        have hsuf := dStep_suffix o st s1 tok rest r hs
        have hl := hsuf.length_le
        simp only [List.length_cons] at hfa
        obtain ⟨s, hr, hl0, hout, hb⟩ := ih s1 r ra ha (endsBreak_suffix r rest hsuf (endsBreak_tail _ _ hnl)) (by omega)
        refine ⟨s, (dStep_reach o st s1 tok rest r hs).trans hr, hl0, hout, ?_⟩
        intro b fb hfb
        cases fb with
        | zero => omega
        | succ fb =>
          simp only [List.cons_append, List.length_cons, List.length_append] at hfb
          rw [List.cons_append, brLoop_cons, dStep_append o st s1 tok rest r b hs hnl]
          simp only
          rw [hb b fb (by simp only [List.length_append]; omega)]
          exact brLoop_fuel o fb (fb + 1) s b (by omega) (by omega)

/-! ### earlier results are a prefix; `firstId` is not looked at -/

theorem dPost_out_prefix (o : InOpts) (sid : Nat) (st' : BrState) (pre : List (Nat × Tree)) (t : Tree)
    (rest : List (Str × LexClass)) :
    dPost o sid { st' with out := st'.out ++ pre } t rest =
      match dPost o sid st' t rest with
      | .error e => .error e
      | .ok (s, r) => .ok ({ s with out := s.out ++ pre }, r) := by
  unfold dPost
  cases o.disco with
  | false => rfl
  | true =>
    simp only [if_true]
    cases rest with
    | nil => rfl
    | cons first rest1 =>
      simp only
      cases discoApply o.discoReordered (if (first.2 == .ws && first.1.contains '\n') = true then (([] : List (Nat × Str)), rest1) else discoSentence rest1 1 []).1 t <;> rfl

theorem dStep_out_prefix (o : InOpts) (st : BrState) (pre : List (Nat × Tree)) (tok : Str × LexClass)
    (rest : List (Str × LexClass)) :
    dStep o { st with out := st.out ++ pre } tok rest =
      match dStep o st tok rest with
      | .error e => .error e
      | .ok (s, r) => .ok ({ s with out := s.out ++ pre }, r) := by
  unfold dStep
  rw [brStep_out_irrel]
  cases hs : brStep o st tok with
  | error e => rfl
  | ok x =>
    obtain ⟨st', res⟩ := x
    have hco := brStep_cnt_out o st st' tok res hs
    cases res with
    | none => simp only [hco.1]
    | some t =>
      simp only
      rw [← hco.1]
      exact dPost_out_prefix o st.cnt st' pre t rest

/-- trees delivered earlier are passed through unchanged in front of the new ones (loop with the post-pass) -/
theorem brLoop_out_prefix (o : InOpts) (pre : List (Nat × Tree)) : ∀ (fuel : Nat) (st : BrState) (toks : List (Str × LexClass)),
    brLoop o fuel { st with out := st.out ++ pre } toks =
      match brLoop o fuel st toks with
      | .error e => .error e
      | .ok r => .ok (pre.reverse ++ r) := by
  intro fuel
  induction fuel with
  | zero => intro st toks; simp [brLoop]
  | succ fuel ih =>
    intro st toks
    cases toks with
    | nil =>
      rw [brLoop_nil, brLoop_nil]
      simp only [brEnd]
      split <;> simp
    | cons tok rest =>
      rw [brLoop_cons, brLoop_cons, dStep_out_prefix]
      cases hs : dStep o st tok rest with
      | error e => rfl
      | ok x =>
        obtain ⟨s, r⟩ := x
        exact ih s r

/-- the reader loop does not look at `firstId` -/
theorem brLoop_firstId (o : InOpts) (x : Option Nat) : ∀ (fuel : Nat) (st : BrState) (toks : List (Str × LexClass)),
    brLoop { o with firstId := x } fuel st toks = brLoop o fuel st toks := by
  intro fuel
  induction fuel with
  | zero => intro st toks; simp [brLoop]
  | succ fuel ih =>
    intro st toks
    cases toks with
    | nil => rw [brLoop_nil, brLoop_nil]
    | cons tok rest =>
      have e : dStep { o with firstId := x } st tok rest = dStep o st tok rest := rfl
      rw [brLoop_cons, brLoop_cons, e]
      cases hs : dStep o st tok rest with
      | error e => rfl
      | ok y =>
        obtain ⟨s, r⟩ := y
        exact ih s r

/-! ### the lexer at a line end -/

theorem lexBuf_append (a b : Str) : ∀ (tok ws : Str),
    lexBuf (a ++ b) tok ws = lexBuf b (lexBuf a tok ws).1 (lexBuf a tok ws).2 := by
  induction a with
  | nil => intro tok ws; rfl
  | cons c cs ih =>
    intro tok ws
    simp only [List.cons_append, lexBuf]
    split
    · exact ih _ _
    · split
      · exact ih _ _
      · exact ih _ _

/-- a non-whitespace character flushes a buffered whitespace run -/
theorem lexAux_flush_ws (c : Char) (cs w : Str) (hc : pyIsSpace c = false) (hw : w ≠ []) :
    lexAux (c :: cs) [] w = (w.reverse, LexClass.ws) :: lexAux (c :: cs) [] [] := by
  have hwe : w.isEmpty = false := by cases w <;> simp_all
  simp only [lexAux, hc, hwe]
  split <;> simp


theorem lexBuf_noTrailWs (a : Str) (h : NoTrailWs a) : (lexBuf a [] []).2 = [] := by
  rcases List.eq_nil_or_concat a with rfl | ⟨p, c, rfl⟩
  · rfl
  · have hc := h p c (by simp)
    rw [List.concat_eq_append, lexBuf_append]
    simp only [lexBuf, hc]
    split <;> simp

/-- the lexer at a line end, in general: the "\n" is glued to the whitespace run that ends the line -/
theorem lex_line_general (a0 : Str) (c : Char) (b' : Str) (hc : pyIsSpace c = false) :
    bracketLex (a0 ++ '\n' :: c :: b') =
      bracketLex (a0 ++ ['\n']) ++ [((lexBuf a0 [] []).2.reverse ++ ['\n'], LexClass.ws)] ++ bracketLex (c :: b') := by
  have e : a0 ++ '\n' :: c :: b' = (a0 ++ ['\n']) ++ (c :: b') := by simp
  have hnl : pyIsSpace '\n' = true := by decide
  unfold bracketLex
  rw [e, lexAux_append, lexBuf_append]
  simp only [lexBuf, hnl]
  simp only [show (('\n' = '(' || '\n' = ')') = true) = False by decide, if_false, if_true]
  rw [lexAux_flush_ws c b' _ hc (by simp)]
  simp


/-- a run of whitespace only fills the whitespace buffer -/
theorem lex_spaces (w : Str) (hw : ∀ c ∈ w, pyIsSpace c = true) : ∀ ws : Str,
    lexAux w [] ws = [] ∧ lexBuf w [] ws = ([], w.reverse ++ ws) := by
  induction w with
  | nil => intro ws; exact ⟨rfl, rfl⟩
  | cons c cs ih =>
    intro ws
    have hc := hw c (by simp)
    have h1 : c ≠ '(' := by rintro rfl; revert hc; decide
    have h2 : c ≠ ')' := by rintro rfl; revert hc; decide
    obtain ⟨i1, i2⟩ := ih (fun d hd => hw d (by simp [hd])) (c :: ws)
    constructor
    · rw [lexAux_space c cs [] ws hc, i1]; rfl
    · simp only [lexBuf, h1, h2, hc, Bool.or_self, Bool.false_eq_true, if_false, if_true, decide_false]
      rw [i2]; simp

/-- the lexer at a line end followed by further whitespace `w` and then a non-white character: the line break is in
    the middle of one whitespace token -/
theorem lex_line_ws (a0 w : Str) (c : Char) (b' : Str) (hw : ∀ d ∈ w, pyIsSpace d = true) (hc : pyIsSpace c = false) :
    bracketLex (a0 ++ '\n' :: (w ++ c :: b')) =
      bracketLex (a0 ++ ['\n']) ++ [((lexBuf a0 [] []).2.reverse ++ '\n' :: w, LexClass.ws)] ++ bracketLex (c :: b') := by
  have e : a0 ++ '\n' :: (w ++ c :: b') = (a0 ++ ['\n']) ++ (w ++ c :: b') := by simp
  have hnl : pyIsSpace '\n' = true := by decide
  have hb : lexBuf (a0 ++ ['\n']) [] [] = ([], '\n' :: (lexBuf a0 [] []).2) := by
    rw [lexBuf_append]
    simp only [lexBuf, hnl]
    simp only [show (('\n' = '(' || '\n' = ')') = true) = False by decide, if_false, if_true]
  obtain ⟨i1, i2⟩ := lex_spaces w hw ('\n' :: (lexBuf a0 [] []).2)
  unfold bracketLex
  rw [e, lexAux_append (a0 ++ ['\n']) (w ++ c :: b'), hb]
  simp only
  rw [lexAux_append w (c :: b'), i1, i2]
  simp only [List.nil_append]
  rw [lexAux_flush_ws c b' _ hc (by simp)]
  simp

/-- whitespace behind the line end and nothing else: the lexer emits nothing more -/
theorem lex_line_end (a0 w : Str) (hw : ∀ d ∈ w, pyIsSpace d = true) :
    bracketLex (a0 ++ '\n' :: w) = bracketLex (a0 ++ ['\n']) := by
  have e : a0 ++ '\n' :: w = (a0 ++ ['\n']) ++ w := by simp
  have hnl : pyIsSpace '\n' = true := by decide
  have hb : lexBuf (a0 ++ ['\n']) [] [] = ([], '\n' :: (lexBuf a0 [] []).2) := by
    rw [lexBuf_append]
    simp only [lexBuf, hnl]
    simp only [show (('\n' = '(' || '\n' = ')') = true) = False by decide, if_false, if_true]
  unfold bracketLex
  rw [e, lexAux_append, hb, (lex_spaces w hw _).1]
  simp

/-- leading whitespace of a text is one whitespace token (or none) -/
theorem lex_lead_ws (w : Str) (c : Char) (b' : Str) (hw : ∀ d ∈ w, pyIsSpace d = true) (hc : pyIsSpace c = false) :
    bracketLex (w ++ c :: b') = (if w = [] then [] else [(w, LexClass.ws)]) ++ bracketLex (c :: b') := by
  obtain ⟨i1, i2⟩ := lex_spaces w hw []
  unfold bracketLex
  rw [lexAux_append, i1, i2]
  simp only [List.nil_append, List.append_nil]
  by_cases hne : w = []
  · subst hne; rfl
  · rw [lexAux_flush_ws c b' _ hc (by simpa using hne)]
    simp [hne]

/-- a text splits into its leading whitespace and the rest -/
theorem split_lead_ws (b : Str) : ∃ w r, b = w ++ r ∧ (∀ d ∈ w, pyIsSpace d = true) ∧
    (r = [] ∨ ∃ c b', r = c :: b' ∧ pyIsSpace c = false) := by
  induction b with
  | nil => exact ⟨[], [], rfl, by simp, .inl rfl⟩
  | cons c b ih =>
    by_cases hc : pyIsSpace c = true
    · obtain ⟨w, r, e, hw, hr⟩ := ih
      exact ⟨c :: w, r, by rw [e]; rfl, by intro d hd; rcases List.mem_cons.1 hd with rfl | hd; exact hc; exact hw d hd, hr⟩
    · exact ⟨[], c :: b, rfl, by simp, .inr ⟨c, b, rfl, by simpa using hc⟩⟩


/-! ### the reader looks at a whitespace token only to see whether it contains a line break -/

/-- whitespace tokens replaced by "\n" (with a line break) or " " (without) -/
def normTok (tc : Str × LexClass) : Str × LexClass :=
  if tc.2 == .ws then (if tc.1.contains '\n' then ['\n'] else [' '], .ws) else tc

theorem normTok_snd (tc : Str × LexClass) : (normTok tc).2 = tc.2 := by
  obtain ⟨t, c⟩ := tc
  cases c <;> simp [normTok]

theorem normTok_ws (t : Str) : normTok (t, .ws) = (if t.contains '\n' then ['\n'] else [' '], .ws) := by
  simp [normTok]

theorem normTok_isBreak (tc : Str × LexClass) : isBreak (normTok tc) = isBreak tc := by
  obtain ⟨t, c⟩ := tc
  cases c with
  | ws => rw [normTok_ws]; by_cases h : '\n' ∈ t <;> simp [isBreak, h]
  | _ => rfl

theorem brStep_norm (o : InOpts) (st : BrState) (tok : Str × LexClass) : brStep o st (normTok tok) = brStep o st tok := by
  obtain ⟨t, c⟩ := tok
  cases c
  · rfl
  · simp only [normTok_ws]; rfl
  · rfl
  · rfl

theorem discoSentence_norm (l : List (Str × LexClass)) : ∀ (pos : Nat) (acc : List (Nat × Str)),
    discoSentence (l.map normTok) pos acc = ((discoSentence l pos acc).1, (discoSentence l pos acc).2.map normTok) := by
  induction l with
  | nil => intro pos acc; rfl
  | cons tc rest ih =>
    obtain ⟨t, c⟩ := tc
    intro pos acc
    cases c with
    | ws =>
      have hw : (LexClass.ws == LexClass.ws) = true := rfl
      simp only [List.map_cons, normTok_ws]
      by_cases h : t.contains '\n' = true
      · have h' : ((['\n'] : Str).contains '\n') = true := by decide
        simp only [h, discoSentence, h', hw, if_true]
      · have h' : (([' '] : Str).contains '\n') = false := by decide
        simp only [h, discoSentence, h', hw, Bool.false_eq_true, if_false, if_true]
        exact ih pos acc
    | token => simpa [discoSentence, normTok] using ih (pos + 1) ((pos, t) :: acc)
    | lrb => simpa [discoSentence, normTok] using ih (pos + 1) ((pos, t) :: acc)
    | rrb => simpa [discoSentence, normTok] using ih (pos + 1) ((pos, t) :: acc)

theorem dPost_norm (o : InOpts) (sid : Nat) (st' : BrState) (t : Tree) (rest : List (Str × LexClass)) :
    dPost o sid st' t (rest.map normTok) =
      match dPost o sid st' t rest with
      | .error e => .error e
      | .ok (s, r) => .ok (s, r.map normTok) := by
  unfold dPost
  cases o.disco with
  | false => rfl
  | true =>
    simp only [if_true]
    cases rest with
    | nil => rfl
    | cons first rest1 =>
      simp only [List.map_cons]
      have hb : (((normTok first).2 == LexClass.ws && (normTok first).1.contains '\n')) =
          (first.2 == LexClass.ws && first.1.contains '\n') := normTok_isBreak first
      rw [hb]
      by_cases hf : (first.2 == LexClass.ws && first.1.contains '\n') = true
      · simp only [hf, if_true]
        cases discoApply o.discoReordered [] t <;> rfl
      · simp only [hf, Bool.false_eq_true, if_false, discoSentence_norm]
        cases discoApply o.discoReordered (discoSentence rest1 1 []).1 t <;> rfl

theorem dStep_norm (o : InOpts) (st : BrState) (tok : Str × LexClass) (rest : List (Str × LexClass)) :
    dStep o st (normTok tok) (rest.map normTok) =
      match dStep o st tok rest with
      | .error e => .error e
      | .ok (s, r) => .ok (s, r.map normTok) := by
  unfold dStep
  rw [brStep_norm]
  cases hs : brStep o st tok with
  | error e => rfl
  | ok x =>
    obtain ⟨st', res⟩ := x
    cases res with
    | none => rfl
    | some t => exact dPost_norm o st.cnt st' t rest

/-- the reader loop sees of a whitespace token only whether it contains a line break -/
theorem brLoop_norm (o : InOpts) : ∀ (fuel : Nat) (st : BrState) (toks : List (Str × LexClass)),
    brLoop o fuel st (toks.map normTok) = brLoop o fuel st toks := by
  intro fuel
  induction fuel with
  | zero => intro st toks; simp [brLoop]
  | succ fuel ih =>
    intro st toks
    cases toks with
    | nil => rfl
    | cons tok rest =>
      rw [List.map_cons, brLoop_cons, brLoop_cons, dStep_norm]
      cases hs : dStep o st tok rest with
      | error e => rfl
      | ok x =>
        obtain ⟨s, r⟩ := x
        exact ih s r

/-- two streams that agree up to the text of the whitespace tokens (kept: whether there is a line break) are read alike -/
theorem brLoop_congr_norm (o : InOpts) (fuel : Nat) (st : BrState) (toks toks' : List (Str × LexClass))
    (h : toks.map normTok = toks'.map normTok) : brLoop o fuel st toks = brLoop o fuel st toks' := by
  rw [← brLoop_norm o fuel st toks, h, brLoop_norm]

/-- the text of a final line-break token is not looked at -/
theorem brLoop_last_break (o : InOpts) (fuel : Nat) (st : BrState) (pre : List (Str × LexClass)) (t t' : Str)
    (ht : t.contains '\n' = true) (ht' : t'.contains '\n' = true) :
    brLoop o fuel st (pre ++ [(t, .ws)]) = brLoop o fuel st (pre ++ [(t', .ws)]) := by
  apply brLoop_congr_norm
  have h1 : '\n' ∈ t := by simpa using ht
  have h2 : '\n' ∈ t' := by simpa using ht'
  simp [normTok_ws, h1, h2]

/-! ### a whitespace token behind a text that was read successfully changes nothing -/

theorem dPost_snoc_ws (o : InOpts) (sid : Nat) (st' s : BrState) (t : Tree) (rest r : List (Str × LexClass)) (w : Str)
    (h : dPost o sid st' t rest = .ok (s, r)) :
    dPost o sid st' t (rest ++ [(w, .ws)]) = .ok (s, r ++ [(w, .ws)]) ∨
      (r = [] ∧ dPost o sid st' t (rest ++ [(w, .ws)]) = .ok (s, [])) := by
  unfold dPost at h ⊢
  cases hd : o.disco with
  | false =>
    simp only [hd, Bool.false_eq_true, if_false] at h ⊢
    injection h with h
    injection h with h1 h2
    subst h1 h2
    exact .inl rfl
  | true =>
    simp only [hd, if_true] at h ⊢
    cases rest with
    | nil => cases h
    | cons first rest1 =>
      simp only [List.cons_append] at h ⊢
      by_cases hf : (first.2 == .ws && first.1.contains '\n') = true
      · simp only [hf, if_true] at h ⊢
        cases hda : discoApply o.discoReordered [] t with
        | none => rw [hda] at h; cases h
        | some t' =>
          rw [hda] at h
          simp only at h ⊢
          injection h with h
          injection h with h1 h2
          subst h1 h2
          exact .inl rfl
      · simp only [hf, Bool.false_eq_true, if_false] at h ⊢
        by_cases hm : ∃ tc ∈ rest1, isBreak tc = true
        · rw [discoSentence_append rest1 _ hm]
          cases hda : discoApply o.discoReordered (discoSentence rest1 1 []).1 t with
          | none => rw [hda] at h; cases h
          | some t' =>
            rw [hda] at h
            simp only at h ⊢
            injection h with h
            injection h with h1 h2
            subst h1 h2
            exact .inl rfl
        · have hno : ∀ tc ∈ rest1, isBreak tc = false := by
            intro tc htc
            cases hb : isBreak tc with
            | false => rfl
            | true => exact absurd ⟨tc, htc, hb⟩ hm
          rw [discoSentence_snoc_ws rest1 w hno]
          have he := discoSentence_noBreak rest1 hno 1 []
          cases hda : discoApply o.discoReordered (discoSentence rest1 1 []).1 t with
          | none => rw [hda] at h; cases h
          | some t' =>
            rw [hda] at h
            simp only at h ⊢
            injection h with h
            injection h with h1 h2
            subst h1
            rw [he] at h2
            exact .inr ⟨h2.symm, rfl⟩

theorem dStep_snoc_ws (o : InOpts) (st s : BrState) (tok : Str × LexClass) (rest r : List (Str × LexClass)) (w : Str)
    (h : dStep o st tok rest = .ok (s, r)) :
    dStep o st tok (rest ++ [(w, .ws)]) = .ok (s, r ++ [(w, .ws)]) ∨
      (r = [] ∧ dStep o st tok (rest ++ [(w, .ws)]) = .ok (s, [])) := by
  unfold dStep at h ⊢
  cases hs : brStep o st tok with
  | error e => rw [hs] at h; cases h
  | ok x =>
    obtain ⟨st', res⟩ := x
    rw [hs] at h
    cases res with
    | none =>
      simp only at h ⊢
      injection h with h
      injection h with h1 h2
      subst h1 h2
      exact .inl rfl
    | some t =>
      simp only at h ⊢
      exact dPost_snoc_ws o _ _ _ _ _ _ w h

/-- a whitespace token behind a stream that was read successfully changes nothing -/
theorem brLoop_snoc_ws (o : InOpts) (w : Str) : ∀ (fa : Nat) (st : BrState) (a : List (Str × LexClass)) (ra : List (Nat × Tree)),
    brLoop o fa st a = .ok ra → a.length < fa → brLoop o (fa + 1) st (a ++ [(w, .ws)]) = .ok ra := by
  intro fa
  induction fa with
  | zero => intro st a ra _ h; omega
  | succ fa ih =>
    intro st a ra ha hfa
    cases a with
    | nil =>
      rw [brLoop_nil] at ha
      rw [List.nil_append, brLoop_cons]
      have hd : dStep o st (w, .ws) [] = .ok (if st.state == 2 then { st with state := 3 } else st, []) := by
        unfold dStep
        by_cases h2 : (st.state == 2) = true
        · simp only [brStep, h2, if_true]
        · simp only [brStep, h2, Bool.false_eq_true, if_false]
      rw [hd]
      simp only
      rw [brLoop_nil, ← ha]
      unfold brEnd
      split <;> rfl
    | cons tok rest =>
      rw [brLoop_cons] at ha
      rw [List.cons_append, brLoop_cons]
      cases hs : dStep o st tok rest with
      | error e => rw [hs] at ha; cases ha
      | ok x =>
        obtain ⟨s1, r⟩ := x
        rw [hs] at ha
        simp only at ha
        have hl := (dStep_suffix o st s1 tok rest r hs).length_le
        simp only [List.length_cons] at hfa
        rcases dStep_snoc_ws o st s1 tok rest r w hs with h | ⟨hr, h⟩
        · rw [h]
          exact ih s1 r ra ha (by omega)
        · rw [h]
          subst hr
          simp only
          rw [← ha]
          exact brLoop_fuel o (fa + 1) fa s1 [] (by simp) (by simp at hfa ⊢; omega)

end TT.Lemmas.Disco12
