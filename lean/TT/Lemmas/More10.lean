/-
  Helper lemmas of wave 10 (C05More): the pipeline head marking → boyd_split → raising.
  * head marking is invisible to `stripT`, hence keeps `continuous`;
  * `oneHeadEach` gives the head hypothesis of `raise_spec` and makes `boydNode` total;
  * on a well-formed tree the root is one block, so `boydSplit` succeeds;
  * the reference tree `contSpecRoot` and the normal form `sortKids ∘ stripT` keep the multiset of constituent labels;
  * `bagEq` from `List.Perm`.
-/
import TT.Spec.Transform
import TT.Lemmas.Sort
import TT.Lemmas.Nav
import TT.Lemmas.WF
import TT.Lemmas.Boyd
import TT.Lemmas.Heads
import TT.Props.C05
namespace TT.Lemmas.More10
open TT TT.Tree TT.Spec
open TT.Lemmas.WF (tree_ind mem_subtrees_node self_mem_subtrees)

/-! ### `bagEq` from a permutation -/

theorem bagEq_of_perm {a b : List Str} (h : a.Perm b) : bagEq a b = true := by
  simp only [bagEq, Bool.and_eq_true, beq_iff_eq, List.all_eq_true]
  exact ⟨h.length_eq, fun x _ => h.count_eq x⟩

/-! ### head marking is invisible to `stripT` -/

theorem stripT_setHead (b : Bool) (t : Tree) : stripT (setHead b t) = stripT t := by
  cases t <;> simp [setHead, setFields, stripT]

mutual
theorem stripT_markG (idx : Fields → List Tree → Nat) : (t : Tree) → stripT (Heads.markG idx t) = stripT t
  | .leaf n f => by simp [Heads.markG]
  | .node f ks => by
    simp only [Heads.markG, stripT, stripTL_markGL idx _ ks]
theorem stripTL_markGL (idx : Fields → List Tree → Nat) (key : Option Nat) : (ks : List Tree) →
    stripTL (Heads.markGL idx key ks) = stripTL ks
  | [] => by simp [Heads.markGL]
  | t :: ts => by
    simp only [Heads.markGL, stripTL, stripT_setHead, stripT_markG idx t, stripTL_markGL idx key ts]
end

theorem stripT_negra (t : Tree) : stripT (negraMarkHeads t) = stripT t := by
  rw [negraMarkHeads, Heads.negraMarkAux_eq, stripT_setHead, stripT_markG]

theorem stripT_rules (rules : HeadRules) (t : Tree) : stripT (setHead false (rulesMarkAux rules t)) = stripT t := by
  rw [Heads.rulesMarkAux_eq, stripT_setHead, stripT_markG]

/-! ### `continuous` only looks at what `stripT` keeps -/

theorem leafNums_stripT (t : Tree) : (stripT t).leafNums = t.leafNums := Boyd.leaves_stripT t

theorem continuous_stripT (t : Tree) : continuous (stripT t) = true ↔ continuous t = true := by
  induction t using tree_ind with
  | hl n f => simp [stripT, Boyd.continuous_leaf]
  | hn f ks ih =>
    have hy : yield (stripT (node f ks)) = yield (node f ks) := by
      rw [Nav.yield_eq, Nav.yield_eq, leafNums_stripT]
    have hs : stripT (node f ks) = node { label := f.label } (ks.map stripT) := by
      simp only [stripT, Boyd.stripTL_eq]
    rw [Boyd.continuous_node, ← hy, hs, Boyd.continuous_node]
    simp only [List.mem_map, forall_exists_index, and_imp, forall_apply_eq_imp_iff₂]
    exact and_congr Iff.rfl (forall₂_congr fun k hk => ih k hk)

theorem continuous_of_stripT_eq {a b : Tree} (h : stripT a = stripT b) (hb : continuous b = true) :
    continuous a = true := by
  rw [← continuous_stripT, h, continuous_stripT]; exact hb

theorem continuous_negra (t : Tree) (h : continuous t = true) : continuous (negraMarkHeads t) = true :=
  continuous_of_stripT_eq (stripT_negra t) h

/-! ### what `oneHeadEach` gives -/

/-- below a tree without childless constituents no constituent is childless -/
theorem kids_ne_nil_of_noEmpty (t : Tree) : t.noEmpty = true → ∀ s ∈ subtrees t, ∀ f ks, s = node f ks → ks ≠ [] := by
  induction t using tree_ind with
  | hl n f => intro _ s hs f' ks' h; simp [subtrees] at hs; subst hs; cases h
  | hn f ks ih =>
    intro hne s hs f' ks' h
    obtain ⟨h1, h2⟩ := (Boyd.noEmpty_node f ks).1 hne
    rcases (mem_subtrees_node f ks s).1 hs with rfl | ⟨k, hk, hsk⟩
    · cases h; exact h1
    · exact ih k hk (h2 k hk) s hsk f' ks' h

/-- `oneHeadEach` (a Boolean test that skips childless constituents) gives the head hypothesis of `raise_spec` -/
theorem oneHead_hyp (m : Tree) (hne : m.noEmpty = true) (h : oneHeadEach m = true) :
    ∀ s ∈ m.subtrees, ∀ f ks, s = node f ks → (ks.filter (fun k => k.fields.head == some true)).length = 1 := by
  intro s hs f ks hsk
  have hk := kids_ne_nil_of_noEmpty m hne s hs f ks hsk
  simp only [oneHeadEach, Bool.and_eq_true, List.all_eq_true] at h
  have := h.2 s hs
  subst hsk
  cases ks with
  | nil => exact absurd rfl hk
  | cons k ks => simp only [Bool.and_eq_true, beq_iff_eq] at this; exact this.1

/-- every node of a tree passing `oneHeadEach` has its `head` entry set -/
theorem headed_of_oneHeadEach (m : Tree) (h : oneHeadEach m = true) :
    m.fields.head.isSome = true ∧ ∀ s ∈ m.subtrees, ∀ k ∈ s.kids, k.fields.head.isSome = true := by
  simp only [oneHeadEach, Bool.and_eq_true, List.all_eq_true, beq_iff_eq] at h
  refine ⟨by rw [h.1]; rfl, fun s hs k hk => ?_⟩
  have := h.2 s hs
  cases s with
  | leaf n f => simp [kids] at hk
  | node f ks =>
    cases ks with
    | nil => simp [kids] at hk
    | cons a as => simp only [Bool.and_eq_true, List.all_eq_true] at this; exact this.2 k hk

/-! ### `boydNode` is total on a tree whose nodes all carry a `head` entry -/

theorem boydKids_ok : ∀ ks : List Tree, (∀ k ∈ ks, ∃ r, boydNode k = .ok r) → ∃ r, boydKids ks = .ok r
  | [], _ => ⟨[], by simp [boydKids]⟩
  | t :: ts, h => by
    obtain ⟨a, ha⟩ := h t List.mem_cons_self
    obtain ⟨b, hb⟩ := boydKids_ok ts (fun k hk => h k (List.mem_cons_of_mem _ hk))
    exact ⟨a ++ b, by simp [boydKids, ha, hb]⟩

theorem boydNode_ok (t : Tree) : t.fields.head.isSome = true →
    (∀ s ∈ t.subtrees, ∀ k ∈ s.kids, k.fields.head.isSome = true) → ∃ r, boydNode t = .ok r := by
  induction t using tree_ind with
  | hl n f => intro _ _; exact ⟨_, by rw [boydNode]⟩
  | hn f ks ih =>
    intro hh hk
    have hks : ∀ k ∈ ks, ∃ r, boydNode k = .ok r := fun k hkm =>
      ih k hkm (hk (node f ks) (self_mem_subtrees _) k hkm)
        (fun s hs c hc => hk s ((mem_subtrees_node f ks s).2 (Or.inr ⟨k, hkm, hs⟩)) c hc)
    obtain ⟨ks', hks'⟩ := boydKids_ok ks hks
    rw [Boyd.boydNode_node, hks']
    simp only [Boyd.boydStep]
    simp only [fields] at hh
    split
    · exact ⟨_, rfl⟩
    · have : f.head.isNone = false := by cases hf : f.head <;> simp_all
      simp [this]

/-! ### the root of a well-formed tree is one block -/

theorem blocks_WF (t : Tree) (h : WF t = true) : (blocks t).length = 1 := by
  obtain ⟨_, _, h3, h4⟩ := (WF.WF_iff t).1 h
  rw [blocks, Nav.yield_eq, h3]
  have : t.leafNums.length = (t.leafNums.length - 1) + 1 := by
    have := List.length_pos_iff.2 h4; omega
  rw [this, Boyd.blocksOf_range']
  rfl

/-- `boyd_split` succeeds on a well-formed tree as soon as `boydNode` does -/
theorem boydSplit_ok_of_WF (m : Tree) (r : List Tree) (hwf : WF m = true) (h : boydNode m = .ok r) :
    ∃ t', boydSplit m = .ok t' := by
  have hne := WF.WF_noEmpty m hwf
  have hn := WF.WF_nodup m hwf
  have hb := blocks_WF m hwf
  cases m with
  | leaf n f => simp [WF, isLeaf] at hwf
  | node f ks =>
    have := (Props.C05.boydNode_blocks f ks r h hne hn).1
    have hl : r.length = 1 := by rw [← hb, ← this, List.length_map]
    match r, hl with
    | [t'], _ => exact ⟨t', by simp [boydSplit, h]⟩

/-! ### the multiset of constituent labels -/

mutual
theorem consLabels_stripT : (t : Tree) → consLabels (stripT t) = consLabels t
  | .leaf n f => by simp [stripT, consLabels]
  | .node f ks => by simp only [stripT, consLabels, consLabelsL_stripTL ks]
theorem consLabelsL_stripTL : (ks : List Tree) → consLabelsL (stripTL ks) = consLabelsL ks
  | [] => by simp [stripTL]
  | t :: ts => by simp only [stripTL, consLabelsL, consLabels_stripT t, consLabelsL_stripTL ts]
end

mutual
theorem consLabels_sortKids : (t : Tree) → (consLabels (sortKids t)).Perm (consLabels t)
  | .leaf n f => by simp [sortKids]
  | .node f ks => by
    simp only [sortKids, consLabels, List.perm_cons]
    rw [Boyd.consLabelsL_eq]
    refine ((sortBy_perm leftmost (sortKidsL ks)).flatMap_right consLabels).trans ?_
    rw [← Boyd.consLabelsL_eq]
    exact consLabelsL_sortKidsL ks
theorem consLabelsL_sortKidsL : (ks : List Tree) → (consLabelsL (sortKidsL ks)).Perm (consLabelsL ks)
  | [] => by simp [sortKidsL]
  | t :: ts => by
    simp only [sortKidsL, consLabelsL]
    exact (consLabels_sortKids t).append (consLabelsL_sortKidsL ts)
end

/-- the normal form keeps the labels -/
theorem consLabels_N (t : Tree) : (consLabels (sortKids (stripT t))).Perm (consLabels t) := by
  have := consLabels_sortKids (stripT t)
  rwa [consLabels_stripT] at this

/-- two trees with the same normal form have the same labels -/
theorem consLabels_perm_of_N_eq {a b : Tree} (h : sortKids (stripT a) = sortKids (stripT b)) :
    (consLabels a).Perm (consLabels b) :=
  (consLabels_N a).symm.trans (h ▸ consLabels_N b)

/-- taking one list out of a list of lists -/
theorem getD_append_eraseIdx_flatten {α} : ∀ (L : List (List α)) (i : Nat),
    ((L[i]?).getD [] ++ (L.eraseIdx i).flatten).Perm L.flatten
  | [], i => by simp
  | l :: L, 0 => by simp
  | l :: L, i + 1 => by
    simp only [List.getElem?_cons_succ, List.eraseIdx_cons_succ, List.flatten_cons]
    refine List.perm_append_comm_assoc _ _ _ |>.trans ?_
    exact (getD_append_eraseIdx_flatten L i).append_left l

/-- labels of a pool -/
def poolLabels (p : List (Bool × Tree)) : List Str := p.flatMap fun x => consLabels x.2

theorem poolLabels_perm {p q : List (Bool × Tree)} (h : p.Perm q) : (poolLabels p).Perm (poolLabels q) :=
  h.flatMap_right _

theorem poolLabels_append (p q : List (Bool × Tree)) : poolLabels (p ++ q) = poolLabels p ++ poolLabels q := by
  simp [poolLabels]

theorem poolLabels_map_snd (p : List (Bool × Tree)) : consLabelsL (p.map (·.2)) = poolLabels p := by
  rw [Boyd.consLabelsL_eq, poolLabels, List.flatMap_map]

theorem poolLabels_false (l : List Tree) : poolLabels (l.map fun u => (false, u)) = consLabelsL l := by
  rw [Boyd.consLabelsL_eq, poolLabels, List.flatMap_map]

mutual
/-- the reference only redistributes constituents: kept node plus the material handed upward carry the labels of `t` -/
theorem contSpec_labels : (t : Tree) →
    (consLabels (contSpec t).1 ++ consLabelsL (contSpec t).2).Perm (consLabels t)
  | .leaf n f => by simp [contSpec, consLabels, consLabelsL]
  | .node f ks => by
    have ih := contSpecL_labels ks
    simp only [contSpec, consLabels, List.cons_append, List.perm_cons]
    rw [poolLabels_map_snd, poolLabels_map_snd, ← poolLabels_append]
    refine (poolLabels_perm (getD_append_eraseIdx_flatten _ _)).trans ?_
    rw [Boyd.groupRuns_flatten]
    exact (poolLabels_perm (sortBy_perm _ _)).trans ih
theorem contSpecL_labels : (ks : List Tree) → (poolLabels (contSpecL ks)).Perm (consLabelsL ks)
  | [] => by simp [contSpecL, poolLabels, consLabelsL]
  | t :: ts => by
    have h1 := contSpec_labels t
    have h2 := contSpecL_labels ts
    simp only [contSpecL, consLabelsL]
    rw [show ∀ (x : Bool × Tree) (a b : List (Bool × Tree)), x :: a ++ b = [x] ++ a ++ b from fun _ _ _ => rfl,
      poolLabels_append, poolLabels_append, poolLabels_false]
    refine List.Perm.append ?_ h2
    simpa [poolLabels] using h1
end

theorem contSpecRoot_labels (t : Tree) : (consLabels (contSpecRoot t)).Perm (consLabels t) := by
  cases t with
  | leaf n f => simp [contSpecRoot]
  | node f ks =>
    simp only [contSpecRoot, consLabels, List.perm_cons]
    rw [poolLabels_map_snd]
    exact contSpecL_labels ks

end TT.Lemmas.More10
