/-
  Helper lemmas of wave 15 (tag w15b): keys of the extracted lexicon; context-freeness is kept by binarization;
  exact entries of a binarized grammar; written grammar files of permuted treebanks.
-/
import TT.Lemmas.More12b
import TT.Lemmas.More12c
import TT.Spec.More15b
namespace TT.Lemmas.More15b
open TT TT.Spec TT.Tree TT.Lemmas.GramOut TT.Lemmas.Unbin TT.Lemmas.More12c
open TT.Lemmas.GramBin (upsert_keys foldl_inv)

/-! ### words and tags of the extracted lexicon come from the tokens -/

theorem events_lex_PQ (P Q : Str → Prop) (t : Tree) : ∀ ctx : List Str, t.noEmpty = true →
    (∀ s ∈ t.subtrees, s.isLeaf = true → P (s.fields.word.getD []) ∧ Q s.fields.label) →
    ∀ e ∈ events ctx t, ∀ w tg, e = Event.lex w tg → P w ∧ Q tg := by
  induction t using TT.Lemmas.WF.tree_ind with
  | hl n f =>
    intro ctx _ htok e he w tg h
    rw [TT.Lemmas.Extract.events_leaf] at he
    simp only [List.mem_singleton] at he
    rw [he] at h
    cases h
    exact htok (leaf n f) (TT.Lemmas.WF.self_mem_subtrees _) rfl
  | hn f ks ih =>
    intro ctx hne htok e he w tg h
    obtain ⟨hks, hk⟩ := (TT.Lemmas.Boyd.noEmpty_node f ks).1 hne
    rw [TT.Lemmas.Extract.events_node ctx f ks hks] at he
    rcases List.mem_cons.1 he with rfl | he
    · cases h
    · obtain ⟨c, hc, hec⟩ := List.mem_flatMap.1 he
      have hck : c ∈ ks := (mem_sortBy _ _ _).1 hc
      exact ih c hck _ (hk c hck)
        (fun s hs => htok s ((TT.Lemmas.WF.mem_subtrees_node f ks s).2 (Or.inr ⟨c, hck, hs⟩))) e hec w tg h

theorem lexAdd_PQ (P Q : Str → Prop) (lex : Lexicon) (w t : Str) (n : Nat)
    (h : ∀ e ∈ lex, P e.1 ∧ ∀ tc ∈ e.2, Q tc.1) (hw : P w) (ht : Q t) :
    ∀ e ∈ lex.add w t n, P e.1 ∧ ∀ tc ∈ e.2, Q tc.1 := by
  unfold Lexicon.add
  intro e he
  refine ⟨upsert_keys P w _ lex (fun e he => (h e he).1) hw e he, ?_⟩
  apply upsert_vals (fun tags : AList Str Nat => ∀ tc ∈ tags, Q tc.1) w _ lex (fun e he => (h e he).2) _ e he
  intro o ho
  apply upsert_keys Q t _ _ _ ht
  cases o with
  | none => simp
  | some x => exact ho x rfl

/-- every word of the extracted lexicon is the word of a token and every tag the label of a token: a property of all
    token words / token labels holds of all keys of the lexicon -/
theorem extractAll_lex_PQ (P Q : Str → Prop) (ts : List Tree) (h : ∀ t ∈ ts, t.noEmpty = true ∧
    ∀ s ∈ t.subtrees, s.isLeaf = true → P (s.fields.word.getD []) ∧ Q s.fields.label) :
    ∀ e ∈ (extractAll ts).2, P e.1 ∧ ∀ tc ∈ e.2, Q tc.1 := by
  unfold extractAll
  apply foldl_inv (fun st : Grammar × Lexicon => ∀ e ∈ st.2, P e.1 ∧ ∀ tc ∈ e.2, Q tc.1) _ ts _ _ (by simp)
  intro st t ht hst
  unfold extract
  apply foldl_inv (fun st : Grammar × Lexicon => ∀ e ∈ st.2, P e.1 ∧ ∀ tc ∈ e.2, Q tc.1) _ _ _ _ hst
  intro st' e he hst'
  cases e with
  | rule f l v => exact hst'
  | lex w tg =>
    obtain ⟨h1, h2⟩ := events_lex_PQ P Q t [] (h t ht).1 (h t ht).2 _ he w tg rfl
    exact lexAdd_PQ P Q _ _ _ _ hst' h1 h2

/-! ### exact entries of a binarized grammar -/

section exact
open TT.Lemmas.More12b

theorem ksum_jobAdds_exact (mo : Option MarkovOpts) (st : GenState) (j : Job) (F : Func) (L : Lin) :
    ksum (F, L) (jobAdds mo st j) = j.2.2.1 * (expectedAdds mo st j.1 j.2.1 j.2.2.2).count (F, L) := by
  unfold jobAdds expectedAdds
  by_cases hj : j.1.length ≤ 3
  · rw [if_pos hj, if_pos hj, ksum_cons, ksum_nil, List.count_singleton]
    by_cases e : (j.1, j.2.1) = (F, L)
    · simp [e]
    · simp [e]
  · rw [if_neg hj, if_neg hj, ksum_withCount]

/-- the expected total for one key: every job contributes its count times the multiplicity of the key among its
    expected additions -/
def expectedSum (mo : Option MarkovOpts) (F : Func) (L : Lin) : GenState → List Job → Nat
  | _, [] => 0
  | st, j :: js => j.2.2.1 * (expectedAdds mo st j.1 j.2.1 j.2.2.2).count (F, L) +
      expectedSum mo F L (stateAfter mo st (j.1.length - 3)) js

theorem ksum_addsOf_exact (mo : Option MarkovOpts) (F : Func) (L : Lin) : ∀ (js : List Job) (st : GenState),
    ksum (F, L) (addsOf mo st js) = expectedSum mo F L st js
  | [], _ => rfl
  | j :: js, st => by
    rw [addsOf, ksum_append, ksum_jobAdds_exact, ksum_addsOf_exact mo F L js, expectedSum]

theorem gramCount_nil (F : Func) (L : Lin) (V : VertKey) : gramCount ([] : Grammar) F L V = 0 := by
  simp [gramCount, AList.get?]

theorem binarizeGrammar_gramCount_jobs (r : Reordering) (mo : Option MarkovOpts) (g : Grammar) (F : Func) (L : Lin)
    (V : VertKey) :
    gramCount (binarizeGrammar r mo g) F L V =
      if V = .default then expectedSum mo F L {} (jobs r mo g) else 0 := by
  rw [binarizeGrammar_jobs, gramCount_buildV, gramCount_nil, Nat.zero_add, ksum_addsOf_exact]

theorem expectedSum_some (o : MarkovOpts) (F : Func) (L : Lin) : ∀ (js : List Job) (st : GenState),
    expectedSum (some o) F L st js =
      (js.map fun j => j.2.2.1 * (expectedAdds (some o) st j.1 j.2.1 j.2.2.2).count (F, L)).sum
  | [], _ => rfl
  | j :: js, st => by
    rw [expectedSum, List.map_cons, List.sum_cons, expectedSum_some o F L js]
    rfl

theorem expectedSum_none (F : Func) (L : Lin) : ∀ (js : List Job) (s : Nat),
    expectedSum none F L ⟨s⟩ js =
      ((js.zip (offsetsFrom s (js.map fun j => j.1.length - 3))).map fun p =>
        p.1.2.2.1 * (expectedAdds none ⟨p.2⟩ p.1.1 p.1.2.1 p.1.2.2.2).count (F, L)).sum
  | [], _ => rfl
  | j :: js, s => by
    rw [expectedSum, List.map_cons, offsetsFrom, List.zip_cons_cons, List.map_cons, List.sum_cons]
    show _ + expectedSum none F L ⟨s + (j.1.length - 3)⟩ js = _
    rw [expectedSum_none F L js]

theorem offsetsFrom_length : ∀ (s : Nat) (ns : List Nat), (offsetsFrom s ns).length = ns.length
  | _, [] => rfl
  | s, n :: ns => by simp [offsetsFrom, offsetsFrom_length (s + n) ns]

theorem offsetsFrom_get : ∀ (s : Nat) (ns : List Nat) (i : Nat), i < ns.length →
    (offsetsFrom s ns)[i]? = some (s + (ns.take i).sum)
  | s, n :: ns, 0, _ => by simp [offsetsFrom]
  | s, n :: ns, i + 1, h => by
    simp only [offsetsFrom, List.getElem?_cons_succ, List.take_succ_cons, List.sum_cons]
    rw [offsetsFrom_get (s + n) ns i (by simpa using h)]
    congr 1; omega

theorem reorder_nlab (r : Reordering) (f : Func) (l : Lin) : (reorder r f l).1.length - 3 = f.length - 3 := by
  by_cases e : f = []
  · subst e
    cases r <;> simp [reorder, reorderingOptimal, pickOrder]
  · rw [reorder_length r f l e]


end exact

/-! ### context-freeness and binarization -/

section cf
open TT.Lemmas.More12b TT.Lemmas.GramBin

/-! ### context-freeness is kept along a chain whose element 0 always stands at an end -/

/-- `Peel k ps`: `k` times in a row, element 0 stands at the beginning or at the end of the argument (and nowhere else),
    and something is left when it is removed; `ps` = the right-hand-side positions of one argument, in order -/
def Peel : Nat → List Int → Prop
  | 0, _ => True
  | k + 1, ps => ∃ vs, vs ≠ [] ∧ (ps = 0 :: vs ∨ ps = vs ++ [0]) ∧ (∀ x ∈ vs, x ≠ 0) ∧ Peel k (vs.map (· - 1))

theorem grp_nozero : ∀ (vs : List Var), (∀ v ∈ vs, v.1 ≠ 0) → vs ≠ [] → grp vs = [.run vs]
  | [v], h, _ => by simp [grp, h v (by simp), consRun]
  | v :: w :: vs, h, _ => by
    have ih := grp_nozero (w :: vs) (fun x hx => h x (by simp [hx])) (by simp)
    rw [grp, if_neg (h v (by simp)), ih]
    rfl

theorem grp_snoc_zero (z : Var) (hz : z.1 = 0) : ∀ (vs : List Var), (∀ v ∈ vs, v.1 ≠ 0) → vs ≠ [] →
    grp (vs ++ [z]) = [.run vs, .z z]
  | [v], h, _ => by simp [grp, h v (by simp), hz, consRun]
  | v :: w :: vs, h, _ => by
    have ih := grp_snoc_zero z hz (w :: vs) (fun x hx => h x (by simp [hx])) (by simp)
    rw [List.cons_append, grp, if_neg (h v (by simp)), ih]
    rfl

/-- one step: a one-argument linearization whose element 0 stands at an end has a one-argument rest -/
theorem restLin_one (a : List Var) (hw : WF' [a]) (ws : List Int) (hne : ws ≠ [])
    (hps : a.map (·.1) = 0 :: ws ∨ a.map (·.1) = ws ++ [0]) (hnz : ∀ x ∈ ws, x ≠ 0) :
    ∃ a', restLin [a] = [a'] ∧ a'.map (·.1) = ws.map (· - 1) := by
  rw [restLin_eq _ hw]
  simp only [List.map_cons, List.map_nil, List.flatMap_cons, List.flatMap_nil, List.append_nil]
  rcases hps with hps | hps
  · obtain ⟨v, vs, rfl, hv, hvs⟩ := List.map_eq_cons_iff.1 hps
    have hnz' : ∀ x ∈ vs, x.1 ≠ 0 := fun x hx => hnz _ (by rw [← hvs]; exact List.mem_map.2 ⟨x, hx, rfl⟩)
    have hvne : vs ≠ [] := by intro e; rw [e] at hvs; exact hne hvs.symm
    refine ⟨vs.map shift, ?_, ?_⟩
    · rw [grp, if_pos hv, grp_nozero vs hnz' hvne]; rfl
    · rw [← hvs, List.map_map, List.map_map]; rfl
  · obtain ⟨vs, zs, rfl, hvs, hzs⟩ := List.map_eq_append_iff.1 hps
    obtain ⟨z, rfl, hz⟩ : ∃ z, zs = [z] ∧ z.1 = 0 := by
      obtain ⟨z, zs', rfl, hz, hzs'⟩ := List.map_eq_cons_iff.1 hzs
      rw [List.map_eq_nil_iff] at hzs'
      exact ⟨z, by rw [hzs'], hz⟩
    have hnz' : ∀ x ∈ vs, x.1 ≠ 0 := fun x hx => hnz _ (by rw [← hvs]; exact List.mem_map.2 ⟨x, hx, rfl⟩)
    have hvne : vs ≠ [] := by intro e; rw [e] at hvs; exact hne hvs.symm
    refine ⟨vs.map shift, ?_, ?_⟩
    · rw [grp_snoc_zero z hz vs hnz' hvne]; rfl
    · rw [← hvs, List.map_map, List.map_map]; rfl

theorem chainLins_cf : ∀ (k : Nat) (a : List Var), WF' [a] → Peel k (a.map (·.1)) →
    ∀ x ∈ chainLins [a] k, x.length ≤ 1
  | 0, a, _, _, x, hx => by
    simp only [chainLins, List.mem_singleton] at hx
    subst hx; simp
  | k + 1, a, hw, hp, x, hx => by
    rw [chainLins_succ] at hx
    rcases List.mem_cons.1 hx with rfl | hx
    · rw [topLin_length _ hw]; simp
    · obtain ⟨ws, hne, hps, hnz, hpk⟩ := hp
      obtain ⟨a', h1, h2⟩ := restLin_one a hw ws hne hps hnz
      have hw' := WF'_restLin _ hw
      rw [h1] at hw' hx
      exact chainLins_cf k a' hw' (by rw [h2]; exact hpk) x hx

/-! ### the identity argument -/

def idPos (m : Nat) : List Int := (List.range m).map fun (i : Nat) => (i : Int)

theorem idPos_succ (m : Nat) : idPos (m + 1) = 0 :: (idPos m).map (· + 1) := by
  unfold idPos
  rw [List.range_succ_eq_map]
  simp [Function.comp_def]

theorem Peel_id : ∀ (k m : Nat), k + 1 ≤ m → Peel k (idPos m)
  | 0, _, _ => trivial
  | k + 1, m + 1, h => by
    refine ⟨(idPos m).map (· + 1), ?_, Or.inl (idPos_succ m), ?_, ?_⟩
    · obtain ⟨m', rfl⟩ : ∃ m', m = m' + 1 := ⟨m - 1, by omega⟩
      rw [idPos_succ]; simp
    · intro x hx
      obtain ⟨y, hy, rfl⟩ := List.mem_map.1 hx
      unfold idPos at hy
      obtain ⟨i, _, rfl⟩ := List.mem_map.1 hy
      omega
    · rw [List.map_map]
      have : ((fun x : Int => x - 1) ∘ fun x => x + 1) = id := by funext x; simp
      rw [this, List.map_id]
      exact Peel_id k m (by omega)

theorem idLin_pos (m : Nat) : ((List.range m).map fun (i : Nat) => ((i : Int), 0)).map (·.1) = idPos m := by
  simp [idPos, Function.comp_def]

/-! ### grammar level -/

theorem isContextFree_iff (g : Grammar) : isContextFree g = true ↔ AllPairs (fun _ l => l.length ≤ 1) g := by
  simp [isContextFree, AllPairs]

theorem AllPairs_build (Q : Func → Lin → Prop) : ∀ (A : List Unbin.Rule) (G : Grammar), AllPairs Q G →
    (∀ x ∈ A, Q x.1 x.2.1) → AllPairs Q (build A G)
  | [], G, h, _ => h
  | e :: A, G, h, hA => by
    rw [build_cons]
    exact AllPairs_build Q A _ (AllPairs_add Q G _ _ _ _ h (hA e (by simp))) (fun x hx => hA x (by simp [hx]))

theorem addsOf_mem_inv (mo : Option MarkovOpts) : ∀ (js : List Job) (st : GenState) (x : Unbin.Rule), x ∈ addsOf mo st js →
    ∃ j ∈ js, ∃ st', x ∈ jobAdds mo st' j
  | [], _, x, h => by simp [addsOf] at h
  | j :: js, st, x, h => by
    rw [addsOf, List.mem_append] at h
    rcases h with h | h
    · exact ⟨j, by simp, st, h⟩
    · obtain ⟨j', hj', st', hx⟩ := addsOf_mem_inv mo js _ x h
      exact ⟨j', by simp [hj'], st', hx⟩

/-- every (function, linearization) pair of a binarized grammar is an addition of one of the calls -/
theorem binarizeGrammar_allPairs (Q : Func → Lin → Prop) (r : Reordering) (mo : Option MarkovOpts) (g : Grammar)
    (h : ∀ j ∈ jobs r mo g, ∀ st, ∀ x ∈ jobAdds mo st j, Q x.1 x.2.1) : AllPairs Q (binarizeGrammar r mo g) := by
  rw [binarizeGrammar_jobs]
  apply AllPairs_build Q _ _ (AllPairs_nil Q)
  intro x hx
  obtain ⟨j, hj, st, hxj⟩ := addsOf_mem_inv mo _ _ x hx
  exact h j hj st x hxj

/-- a call of `binarizeGrammar r mo g` is made for the reordering of a (function, linearization) pair stored in `g` -/
theorem jobs_pair (Q : Func → Lin → Prop) (r : Reordering) (mo : Option MarkovOpts) (g : Grammar) (hg : AllPairs Q g)
    (j : Job) (hj : j ∈ jobs r mo g) : ∃ f l, Q f l ∧ j.1 = (reorder r f l).1 ∧ j.2.1 = (reorder r f l).2 := by
  cases mo with
  | some o =>
    obtain ⟨e, he, rfl⟩ := List.mem_map.1 hj
    exact ⟨e.1, e.2.1, AllPairs_entries Q g hg e he, rfl, rfl⟩
  | none =>
    obtain ⟨e, he, rfl⟩ := List.mem_map.1 hj
    exact ⟨e.1, e.2.1, (AllPairs_rules Q g).1 hg e he, rfl, rfl⟩


theorem build_keys (P : Func → Prop) : ∀ (A : List Unbin.Rule) (G : Grammar), (∀ e ∈ G, P e.1) → (∀ x ∈ A, P x.1) →
    ∀ e ∈ build A G, P e.1
  | [], _, h, _ => h
  | x :: A, G, h, hA => by
    rw [build_cons]
    exact build_keys P A _ (add_keys P G _ _ _ _ h (hA x (by simp))) (fun y hy => hA y (by simp [hy]))

/-- every function of a binarized grammar of proper rules has a left-hand side -/
theorem binarizeGrammar_func_ne_nil (r : Reordering) (mo : Option MarkovOpts) (g : Grammar) (hp : AllPairs Proper g) :
    ∀ e ∈ binarizeGrammar r mo g, e.1 ≠ [] := by
  rw [binarizeGrammar_jobs]
  apply build_keys (fun f => f ≠ []) _ _ (by simp)
  intro x hx
  obtain ⟨j, hj, st, hxj⟩ := addsOf_mem_inv mo _ _ x hx
  obtain ⟨f, l, hP, h1, _⟩ := jobs_pair Proper r mo g hp j hj
  have h2 := (Proper_reorder r f l hP).1
  unfold jobAdds at hxj
  split at hxj
  · simp only [List.mem_singleton] at hxj
    subst hxj
    show j.1 ≠ []
    intro e0; rw [h1] at e0; rw [e0] at h2; simp at h2
  · obtain ⟨y, hy, rfl⟩ := List.mem_map.1 hxj
    obtain ⟨a, b, c, hy1, _⟩ := chainG_bin j.1 _ (isBinSym_labelOf mo st j.1 j.2.2.2 (fanOut j.2.1)) _ _ _ _
      (fun e => by omega) y hy
    show y.1 ≠ []
    rw [hy1]; simp

/-- context-freeness is kept by the left-to-right binarization (reordering `none` / `leftright`, every label mode) of a
    grammar whose rules all have the identity linearization -/
theorem binarizeGrammar_cf_id (r : Reordering) (hr : r ≠ .optimal) (mo : Option MarkovOpts) (g : Grammar)
    (hp : AllPairs Proper g) (hid : AllPairs (fun f l => l = idLin (f.length - 1)) g) :
    isContextFree (binarizeGrammar r mo g) = true := by
  rw [isContextFree_iff]
  apply binarizeGrammar_allPairs
  intro j hj st x hx
  obtain ⟨f, l, ⟨hP, hI⟩, h1, h2⟩ := jobs_pair (fun f l => Proper f l ∧ l = idLin (f.length - 1)) r mo g
    (fun e he le hle => ⟨hp e he le hle, hid e he le hle⟩) j hj
  have hre : reorder r f l = (f, l) := by cases r <;> first | rfl | exact absurd rfl hr
  rw [hre] at h1 h2
  simp only at h1 h2
  unfold jobAdds at hx
  split at hx
  · simp only [List.mem_singleton] at hx
    subst hx
    show j.2.1.length ≤ 1
    rw [h2, hI]; simp [idLin]
  · rename_i h3
    obtain ⟨y, hy, rfl⟩ := List.mem_map.1 hx
    have hmem : y.2 ∈ chainLins j.2.1 (j.1.length - 3) := by
      rw [← chainG_lins j.1 (labelOf mo st j.1 j.2.2.2 (fanOut j.2.1)) (j.1.length - 3) 0 (j.1[0]?.getD []) j.2.1]
      exact List.mem_map.2 ⟨y, hy, rfl⟩
    show y.2.length ≤ 1
    have hw : WF' l := WF'_of_wfLin l _ hP.2.1
    rw [h2, hI, h1] at hmem
    rw [hI] at hw
    refine chainLins_cf _ _ hw ?_ _ hmem
    rw [idLin_pos]
    apply Peel_id
    rw [h1] at h3
    omega

end cf

end TT.Lemmas.More15b
