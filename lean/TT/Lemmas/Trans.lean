/-
  Helper lemmas for C10 (transition oracles replay to the tree): textual round trip, counting,
  continuity ("the sentence of a node is the concatenation of its ordered children's sentences"),
  a relational form of `agrees`, the stack-generalised simulations of the in-order and the
  top-down automaton, and for the gap oracle both the lock-step soundness (`gap_sound`) and
  totality within the fuel (`gap_total`).  Core only (no Mathlib).
-/
import TT.Spec.Replay
import TT.Spec.Transform
import TT.Transform.Binarize
import TT.Lemmas.Sort
import TT.Lemmas.Nav
import TT.Lemmas.WF
namespace TT.Lemmas.Trans
open TT TT.Tree TT.Spec TT.Lemmas.WF TT.Lemmas.Nav

/-! ### textual form of a transition
  (`Action.toStr` is only ever unfolded by `rfl`: generating its equation lemmas forces the
  elaborator to evaluate string literals, which is very slow) -/

theorem sl1 : "SHIFT".toList = ['S','H','I','F','T'] := rfl
theorem sl2 : "REDUCE".toList = ['R','E','D','U','C','E'] := rfl
theorem sl3 : "GAP".toList = ['G','A','P'] := rfl
theorem sl4 : "UNARY-".toList = ['U','N','A','R','Y','-'] := rfl
theorem sl5 : "BINARY-LEFT-".toList = ['B','I','N','A','R','Y','-','L','E','F','T','-'] := rfl
theorem sl6 : "BINARY-RIGHT-".toList = ['B','I','N','A','R','Y','-','R','I','G','H','T','-'] := rfl
theorem sl7 : "PJ-".toList = ['P','J','-'] := rfl
theorem sl8 : "R-LEFT-".toList = ['R','-','L','E','F','T','-'] := rfl
theorem sl9 : "R-RIGHT-".toList = ['R','-','R','I','G','H','T','-'] := rfl
theorem ln4 : "UNARY-".length = 6 := by decide
theorem ln5 : "BINARY-LEFT-".length = 12 := by decide
theorem ln6 : "BINARY-RIGHT-".length = 13 := by decide
theorem ln7 : "PJ-".length = 3 := by decide
theorem ln8 : "R-LEFT-".length = 7 := by decide
theorem ln9 : "R-RIGHT-".length = 8 := by decide
theorem toStr_unary (l : Str) : (Action.unary l).toStr = ['U','N','A','R','Y','-'] ++ l := rfl
theorem toStr_binary_t (l : Str) : (Action.binary true l).toStr = ['B','I','N','A','R','Y','-','L','E','F','T','-'] ++ l := rfl
theorem toStr_binary_f (l : Str) : (Action.binary false l).toStr = ['B','I','N','A','R','Y','-','R','I','G','H','T','-'] ++ l := rfl
theorem toStr_pj (l : Str) : (Action.pj l).toStr = ['P','J','-'] ++ l := rfl
theorem toStr_r_t (l : Str) : (Action.r true l).toStr = ['R','-','L','E','F','T','-'] ++ l := rfl
theorem toStr_r_f (l : Str) : (Action.r false l).toStr = ['R','-','R','I','G','H','T','-'] ++ l := rfl

theorem parseAction_def (s : Str) : parseAction s =
  if s = ['S','H','I','F','T'] then some .shift
  else if s = ['R','E','D','U','C','E'] then some .reduce
  else if s = ['G','A','P'] then some .gap
  else if ['U','N','A','R','Y','-'].isPrefixOf s then some (.unary (s.drop 6))
  else if ['B','I','N','A','R','Y','-','L','E','F','T','-'].isPrefixOf s then some (.binary true (s.drop 12))
  else if ['B','I','N','A','R','Y','-','R','I','G','H','T','-'].isPrefixOf s then some (.binary false (s.drop 13))
  else if ['P','J','-'].isPrefixOf s then some (.pj (s.drop 3))
  else if ['R','-','L','E','F','T','-'].isPrefixOf s then some (.r true (s.drop 7))
  else if ['R','-','R','I','G','H','T','-'].isPrefixOf s then some (.r false (s.drop 8))
  else none := by
  rfl


/-! ### monadic map -/

theorem mapM_ok_length {α β ε} (f : α → Except ε β) : ∀ (l : List α) (r : List β),
    l.mapM f = .ok r → r.length = l.length
  | [], r, h => by
    simp only [List.mapM_nil] at h
    cases h; rfl
  | a :: l, r, h => by
    rw [List.mapM_cons] at h
    cases hfa : f a with
    | error e => rw [hfa] at h; cases h
    | ok b =>
      cases hl : l.mapM f with
      | error e => rw [hfa, hl] at h; cases h
      | ok r' =>
        rw [hfa, hl] at h
        cases h
        simp [mapM_ok_length f l r' hl]


/-! ### intervals -/

theorem range'_of_gapCount : ∀ (l : List Nat) (a : Nat), gapCount (a :: l) = 0 →
    (a :: l).Pairwise (· < ·) → a :: l = List.range' a (l.length + 1)
  | [], a, _, _ => rfl
  | b :: l, a, hg, hp => by
    simp only [gapCount] at hg
    have hab : a < b := (List.pairwise_cons.1 hp).1 b List.mem_cons_self
    have hb : b = a + 1 := by
      by_cases h : a + 1 < b
      · simp [h] at hg
      · omega
    have hg' : gapCount (b :: l) = 0 := by omega
    have ih := range'_of_gapCount l b hg' (List.pairwise_cons.1 hp).2
    show a :: b :: l = List.range' a (l.length + 1 + 1)
    rw [List.range'_succ, ← hb, ← ih]

theorem yield_length (t : Tree) : (yield t).length = t.leafNums.length := (yield_perm t).length_eq

theorem yield_strict (t : Tree) (hn : t.leafNums.Nodup) : (yield t).Pairwise (· < ·) := by
  have hs := yield_sorted t
  have hd : (yield t).Nodup := (yield_perm t).symm.nodup hn
  rw [List.Nodup] at hd
  exact (hs.and hd).imp (fun ⟨h1, h2⟩ => Nat.lt_of_le_of_ne h1 h2)

/-- a gap-free node with distinct tokens covers an interval -/
theorem yield_interval (t : Tree) (hn : t.leafNums.Nodup) (hg : gapCount (yield t) = 0) :
    yield t = List.range' (leftmost t) t.leafNums.length := by
  have hlen := yield_length t
  have hs := yield_strict t hn
  unfold leftmost
  cases hy : yield t with
  | nil => rw [hy] at hlen; simp at hlen; simp [← hlen]
  | cons a l =>
    rw [hy] at hlen hs hg
    rw [← hlen]
    simpa using range'_of_gapCount l a hg hs

theorem mem_leafNums_iff_of_interval (t : Tree) (hn : t.leafNums.Nodup) (hg : gapCount (yield t) = 0) (n : Nat) :
    n ∈ t.leafNums ↔ leftmost t ≤ n ∧ n < leftmost t + t.leafNums.length := by
  rw [← mem_yield, yield_interval t hn hg, List.mem_range'_1]

/-! ### continuity -/

theorem continuous_gap (t : Tree) (h : continuous t = true) : gapCount (yield t) = 0 := by
  simp only [continuous, List.all_eq_true, beq_iff_eq] at h
  have := h t (self_mem_subtrees t)
  cases t with
  | leaf n f => simp [yield, terminals, leaves, sortBy, insertBy, gapCount]
  | node f ks => exact this

theorem continuous_kid (f : Fields) (ks : List Tree) (h : continuous (node f ks) = true) (k : Tree) (hk : k ∈ ks) :
    continuous k = true := by
  simp only [continuous, List.all_eq_true] at h ⊢
  intro s hs
  exact h s ((mem_subtrees_node f ks s).2 (Or.inr ⟨k, hk, hs⟩))

theorem eq_of_mem_flatMap_nodup {α β} (F : α → List β) : ∀ (ks : List α), (ks.flatMap F).Nodup →
    ∀ a ∈ ks, ∀ b ∈ ks, ∀ n, n ∈ F a → n ∈ F b → a = b
  | [], _, a, ha, _, _, _, _, _ => by simp at ha
  | k :: ks, hn, a, ha, b, hb, n, hna, hnb => by
    simp only [List.flatMap_cons, List.nodup_append] at hn
    obtain ⟨_, hn2, hdis⟩ := hn
    rcases List.mem_cons.1 ha with rfl | ha' <;> rcases List.mem_cons.1 hb with rfl | hb'
    · rfl
    · exact absurd rfl (hdis n hna n (List.mem_flatMap.2 ⟨b, hb', hnb⟩))
    · exact absurd rfl (hdis n hnb n (List.mem_flatMap.2 ⟨a, ha', hna⟩))
    · exact eq_of_mem_flatMap_nodup F ks hn2 a ha' b hb' n hna hnb

theorem mem_terminals (t x : Tree) : x ∈ terminals t ↔ x ∈ leaves t := mem_sortBy num _ x

theorem num_mem_leafNums (t x : Tree) (h : x ∈ leaves t) : num x ∈ t.leafNums :=
  List.mem_map_of_mem h

/-- the sentence below a node whose children are gap-free is the concatenation of the children's
    sentences, children ordered by leftmost token -/
theorem terminals_node_cont (f : Fields) (ks : List Tree) (hne : ∀ k ∈ ks, k.leafNums ≠ [])
    (hn : (ks.flatMap leafNums).Nodup) (hg : ∀ k ∈ ks, gapCount (yield k) = 0) :
    terminals (node f ks) = (sortBy leftmost ks).flatMap terminals := by
  unfold terminals
  rw [leaves_node]
  have hknd : ∀ k ∈ ks, k.leafNums.Nodup := fun k hk =>
    (List.sublist_flatten_of_mem (List.mem_map_of_mem hk) : k.leafNums.Sublist (ks.flatMap leafNums)).nodup hn
  refine sortBy_eq_of_perm_sorted num _ _ ?_ ?_ ?_
  · exact ((sortBy_perm leftmost ks).symm.flatMap_right leaves).trans
      (perm_flatMap_of_forall _ _ _ (fun k _ => (sortBy_perm num k.leaves).symm))
  · rw [List.map_flatMap]; exact hn
  · rw [List.pairwise_flatMap]
    refine ⟨fun k _ => sortBy_sorted num _, ?_⟩
    have hst := sortBy_strict leftmost ks (map_leftmost_nodup ks hne hn)
    refine hst.imp_of_mem ?_
    intro a b ha hb hab x hx y hy
    rw [mem_sortBy] at ha hb
    have hxa : num x ∈ a.leafNums := num_mem_leafNums a x ((mem_sortBy num _ x).1 hx)
    have hyb : num y ∈ b.leafNums := num_mem_leafNums b y ((mem_sortBy num _ y).1 hy)
    apply Nat.le_of_not_lt
    intro hlt
    have h1 := (mem_leafNums_iff_of_interval a (hknd a ha) (hg a ha) (num x)).1 hxa
    have h2 := leftmost_le b (num y) hyb
    have hya : num y ∈ a.leafNums :=
      (mem_leafNums_iff_of_interval a (hknd a ha) (hg a ha) (num y)).2 ⟨by omega, by omega⟩
    have := eq_of_mem_flatMap_nodup leafNums ks hn a ha b hb (num y) hya hyb
    subst this
    omega
/-! ### pointwise related lists -/

inductive All2 {α β} (R : α → β → Prop) : List α → List β → Prop
  | nil : All2 R [] []
  | cons {a b as bs} : R a b → All2 R as bs → All2 R (a :: as) (b :: bs)

theorem All2.imp {α β} {R S : α → β → Prop} (h : ∀ a b, R a b → S a b) :
    ∀ {l1 l2}, All2 R l1 l2 → All2 S l1 l2
  | _, _, .nil => .nil
  | _, _, .cons hab t => .cons (h _ _ hab) (All2.imp h t)

theorem All2.map_right {α β γ} {R : α → β → Prop} {S : α → γ → Prop} (g : β → γ) (h : ∀ a b, R a b → S a (g b)) :
    ∀ {l1 l2}, All2 R l1 l2 → All2 S l1 (l2.map g)
  | _, _, .nil => .nil
  | _, _, .cons hab t => .cons (h _ _ hab) (All2.map_right g h t)

theorem All2.mem_right {α β} {R : α → β → Prop} : ∀ {l1 l2}, All2 R l1 l2 → ∀ b ∈ l2, ∃ a ∈ l1, R a b
  | _, _, .nil, b, hb => by simp at hb
  | _, _, .cons hab t, b, hb => by
    rcases List.mem_cons.1 hb with rfl | hb
    · exact ⟨_, List.mem_cons_self, hab⟩
    · obtain ⟨a, ha, h⟩ := All2.mem_right t b hb
      exact ⟨a, List.mem_cons_of_mem _ ha, h⟩

theorem All2.append {α β} {R : α → β → Prop} : ∀ {l1 l2 m1 m2}, All2 R l1 l2 → All2 R m1 m2 →
    All2 R (l1 ++ m1) (l2 ++ m2)
  | _, _, _, _, .nil, h => h
  | _, _, _, _, .cons hab t, h => .cons hab (All2.append t h)

theorem All2.sorted {α β} {R : α → β → Prop} (ka : α → Nat) (kb : β → Nat) (hk : ∀ a b, R a b → kb b = ka a) :
    ∀ {l1 l2}, All2 R l1 l2 → l1.Pairwise (fun x y => ka x ≤ ka y) → l2.Pairwise (fun x y => kb x ≤ kb y)
  | _, _, .nil, _ => List.Pairwise.nil
  | _, _, .cons hab t, hp => by
    rw [List.pairwise_cons] at hp ⊢
    refine ⟨?_, All2.sorted ka kb hk t hp.2⟩
    intro b' hb'
    obtain ⟨a', ha', h'⟩ := All2.mem_right t b' hb'
    rw [hk _ _ hab, hk _ _ h']
    exact hp.1 a' ha'

theorem All2.flatMap_perm {α β γ} {R : α → β → Prop} (F : α → List γ) (G : β → List γ)
    (h : ∀ a b, R a b → (G b).Perm (F a)) : ∀ {l1 l2}, All2 R l1 l2 → (l2.flatMap G).Perm (l1.flatMap F)
  | _, _, .nil => List.Perm.refl _
  | _, _, .cons hab t => by
    simp only [List.flatMap_cons]
    exact (h _ _ hab).append (All2.flatMap_perm F G h t)

/-! ### normal forms and `agrees` -/

theorem sortKidsL_eq : ∀ ks : List Tree, sortKidsL ks = ks.map sortKids
  | [] => rfl
  | t :: ts => by simp [sortKidsL, sortKidsL_eq ts]

theorem sortBy_id_congr {l l' : List Nat} (hp : l.Perm l') : sortBy id l = sortBy id l' := by
  refine List.Perm.eq_of_pairwise (le := fun a b => a ≤ b) ?_ (sortBy_sorted id l) (sortBy_sorted id l')
    ((sortBy_perm id l).trans (hp.trans (sortBy_perm id l').symm))
  intro a b _ _ h1 h2
  exact Nat.le_antisymm h1 h2

theorem leftmost_of_perm (t t' : Tree) (h : t'.leafNums.Perm t.leafNums) : leftmost t' = leftmost t := by
  unfold leftmost
  rw [yield_eq, yield_eq, sortBy_id_congr h]

theorem sortKids_leafNums (t : Tree) : (sortKids t).leafNums.Perm t.leafNums := by
  induction t using tree_ind with
  | hl n f => simp [sortKids]
  | hn f ks ih =>
    rw [sortKids, sortKidsL_eq, leafNums_node, leafNums_node]
    refine ((sortBy_perm leftmost _).flatMap_right leafNums).trans ?_
    rw [List.flatMap_map]
    exact perm_flatMap_of_forall _ _ _ ih

theorem leftmost_sortKids (t : Tree) : leftmost (sortKids t) = leftmost t :=
  leftmost_of_perm _ _ (sortKids_leafNums t)

theorem sortKids_node (f : Fields) (ks : List Tree) :
    sortKids (node f ks) = node f ((sortBy leftmost ks).map sortKids) := by
  rw [sortKids, sortKidsL_eq, sortBy_map leftmost leftmost sortKids leftmost_sortKids]

theorem sortKids_setFields (t : Tree) (g : Fields → Fields) :
    sortKids (setFields t g) = setFields (sortKids t) g := by
  cases t <;> simp [setFields, sortKids]

theorem leafNums_setFields (t : Tree) (g : Fields → Fields) : (setFields t g).leafNums = t.leafNums := by
  cases t with
  | leaf n f => simp [setFields, leafNums_leaf]
  | node f ks => simp [setFields, leafNums_node]

theorem agreesS_clearHead (a b : Tree) (h : agreesS a b = true) : agreesS a (clearHead b) = true := by
  cases a <;> cases b <;> simp_all [agreesS, clearHead, setFields]

theorem agreesS_withHead (a b : Tree) (hd : Bool) (h : agreesS a b = true) (hh : a.fields.head = some hd) :
    agreesS a (withHead hd b) = true := by
  cases a <;> cases b <;> simp_all [agreesS, withHead, setFields, fields]

theorem fields_sortKids (t : Tree) : (sortKids t).fields = t.fields := by
  cases t <;> simp [sortKids, fields]

theorem agreesSL_of_all2 : ∀ {l1 l2 : List Tree}, All2 (fun a b => agreesS a b = true) l1 l2 → agreesSL l1 l2 = true
  | _, _, .nil => rfl
  | _, _, .cons hab t => by simp [agreesSL, hab, agreesSL_of_all2 t]

/-- the rebuilt tree `r` stands for the original `s` -/
def Rel (s r : Tree) : Prop := agreesS (sortKids s) (sortKids r) = true ∧ r.leafNums.Perm s.leafNums

theorem Rel.leftmost {s r : Tree} (h : Rel s r) : leftmost r = leftmost s := leftmost_of_perm _ _ h.2

theorem Rel.clearHead {s r : Tree} (h : Rel s r) : Rel s (clearHead r) := by
  refine ⟨?_, ?_⟩
  · rw [TT.Spec.clearHead, sortKids_setFields]; exact agreesS_clearHead _ _ h.1
  · rw [TT.Spec.clearHead, leafNums_setFields]; exact h.2

theorem Rel.withHead {s r : Tree} (h : Rel s r) (hd : Bool) (hh : s.fields.head = some hd) : Rel s (withHead hd r) := by
  refine ⟨?_, ?_⟩
  · rw [TT.Spec.withHead, sortKids_setFields]
    exact agreesS_withHead _ _ hd h.1 (by rw [fields_sortKids]; exact hh)
  · rw [TT.Spec.withHead, leafNums_setFields]; exact h.2

theorem Rel.agrees {s r : Tree} (h : Rel s r) : agrees s r = true := h.1

/-- rebuilding a constituent from rebuilt children, given in the order of the original's children -/
theorem Rel_mkNode (f : Fields) (ks rs : List Tree) (h : All2 Rel (sortBy leftmost ks) rs) :
    Rel (node f ks) (mkNode f.label rs) := by
  have hsorted : rs.Pairwise (fun x y => leftmost x ≤ leftmost y) :=
    All2.sorted leftmost leftmost (fun _ _ h => h.leftmost) h (sortBy_sorted leftmost ks)
  refine ⟨?_, ?_⟩
  · rw [mkNode, sortKids_node, sortKids_node, sortBy_of_sorted leftmost rs hsorted]
    simp only [agreesS, beq_self_eq_true, Option.isNone_none, Bool.true_or, Bool.true_and]
    apply agreesSL_of_all2
    have := All2.map_right (S := fun a b => agreesS (sortKids a) b = true) sortKids (fun a b (h : Rel a b) => h.1) h
    clear h hsorted
    generalize sortBy leftmost ks = cs at this
    generalize rs.map sortKids = rs' at this
    induction this with
    | nil => exact .nil
    | cons hab _ ih => exact .cons hab ih
  · rw [mkNode, leafNums_node, leafNums_node]
    exact (All2.flatMap_perm leafNums leafNums (fun _ _ h => h.2) h).trans
      ((sortBy_perm leftmost ks).flatMap_right leafNums)
/-! ### unfolding the in-order oracle -/

theorem inorderK_eq : ∀ ks : List Tree, inorderK ks = ks.map fun t => (leftmost t, inorderAux t)
  | [] => by simp [inorderK]
  | t :: ts => by simp [inorderK, inorderK_eq ts]

theorem inorderAux_node (f : Fields) (ks : List Tree) :
    inorderAux (node f ks) =
      match sortBy leftmost ks with
      | [] => [.pj f.label, .reduce]
      | c :: cs => inorderAux c ++ [.pj f.label] ++ cs.flatMap inorderAux ++ [.reduce] := by
  have h := sortBy_map_keyed leftmost inorderAux ks
  rw [← inorderK_eq] at h
  rw [inorderAux]
  cases hs : sortBy leftmost ks with
  | nil =>
    rw [hs] at h
    cases hk : sortBy (fun (p : Nat × List Action) => p.1) (inorderK ks) with
    | nil => rfl
    | cons a as => rw [hk] at h; simp at h
  | cons c cs =>
    rw [hs] at h
    cases hk : sortBy (fun (p : Nat × List Action) => p.1) (inorderK ks) with
    | nil => rw [hk] at h; simp at h
    | cons a as =>
      rw [hk] at h
      simp only [List.map_cons, List.cons.injEq] at h
      simp only [h.1, h.2, List.flatMap]


/-! ### the sentence as fresh tokens -/

def tok (l : Tree) : Tree := leaf l.num { label := l.fields.label, word := l.fields.word }

theorem tokenLeaves_eq (t : Tree) : tokenLeaves t = t.terminals.map tok := rfl

theorem tokenLeaves_leaf (n : Nat) (f : Fields) :
    tokenLeaves (leaf n f) = [leaf n { label := f.label, word := f.word }] := rfl

theorem Rel_leaf (n : Nat) (f : Fields) : Rel (leaf n f) (leaf n { label := f.label, word := f.word }) := by
  refine ⟨?_, ?_⟩
  · simp [sortKids, agreesS]
  · simp [leafNums_leaf]

/-- hypotheses inherited by every subtree of a well-formed continuous tree -/
def Good (s : Tree) : Prop := s.noEmpty = true ∧ s.leafNums.Nodup ∧ continuous s = true

theorem Good.kid {f : Fields} {ks : List Tree} (h : Good (node f ks)) {k : Tree} (hk : k ∈ ks) : Good k :=
  ⟨noEmpty_of_mem_kids f ks k h.1 hk, (leafNums_sublist_of_mem f ks k hk).nodup h.2.1,
    continuous_kid f ks h.2.2 k hk⟩

theorem Good.ne_nil {f : Fields} {ks : List Tree} (h : Good (node f ks)) : ks ≠ [] :=
  ((noEmpty_node f ks).1 h.1).1

theorem tokenLeaves_node {f : Fields} {ks : List Tree} (h : Good (node f ks)) :
    tokenLeaves (node f ks) = (sortBy leftmost ks).flatMap tokenLeaves := by
  rw [tokenLeaves_eq, terminals_node_cont f ks
    (fun k hk => noEmpty_leafNums_ne_nil k (h.kid hk).1)
    (by have := h.2.1; rwa [leafNums_node] at this)
    (fun k hk => continuous_gap k (h.kid hk).2.2), List.map_flatMap]
  rfl

theorem Good_of_WF (t : Tree) (hwf : WF t = true) (hc : continuous t = true) : Good t :=
  ⟨WF_noEmpty t hwf, WF_nodup t hwf, hc⟩

/-! ### in-order automaton -/

theorem popToMark_trees (l : Str) (rest : List Item) : ∀ (xs : List Tree) (acc : List Tree),
    popToMark (xs.map Item.tree ++ Item.mark l :: rest) acc = some (l, xs.reverse ++ acc, rest)
  | [], acc => by simp [popToMark]
  | x :: xs, acc => by
    simp only [List.map_cons, List.cons_append, popToMark, popToMark_trees l rest xs (x :: acc)]
    simp

theorem foldlM_append_of {σ α} {f : σ → α → Option σ} {a b : σ} {l1 l2 : List α}
    (h : l1.foldlM f a = some b) : (l1 ++ l2).foldlM f a = l2.foldlM f b := by
  rw [List.foldlM_append, h]; rfl

theorem foldlM_cons_of {σ α} {f : σ → α → Option σ} {a b : σ} {x : α} {l : List α}
    (h : f a x = some b) : (x :: l).foldlM f a = l.foldlM f b := by
  rw [List.foldlM_cons, h]; rfl

theorem foldlM_nil_some {σ α} {f : σ → α → Option σ} {a : σ} : ([] : List α).foldlM f a = some a := rfl

/-- what running the in-order sequence of `s` does on any stack and buffer suffix -/
def IoRun (s : Tree) : Prop := ∀ (stack : List Item) (rest : List Tree), ∃ r,
  (inorderAux s).foldlM ioStep (stack, tokenLeaves s ++ rest) = some (Item.tree r :: stack, rest) ∧ Rel s r

theorem io_run_list : ∀ (cs : List Tree), (∀ c ∈ cs, IoRun c) → ∀ (stack : List Item) (rest : List Tree),
    ∃ rs, (cs.flatMap inorderAux).foldlM ioStep (stack, cs.flatMap tokenLeaves ++ rest) =
      some (rs.reverse.map Item.tree ++ stack, rest) ∧ All2 Rel cs rs
  | [], _, stack, rest => ⟨[], by simp, .nil⟩
  | c :: cs, h, stack, rest => by
    obtain ⟨r, hr, hrel⟩ := h c List.mem_cons_self stack (cs.flatMap tokenLeaves ++ rest)
    obtain ⟨rs, hrs, hrels⟩ := io_run_list cs (fun c' hc' => h c' (List.mem_cons_of_mem _ hc'))
      (Item.tree r :: stack) rest
    refine ⟨r :: rs, ?_, .cons hrel hrels⟩
    simp only [List.flatMap_cons, List.append_assoc]
    rw [foldlM_append_of hr, hrs]
    simp

theorem io_run (s : Tree) : Good s → IoRun s := by
  induction s using tree_ind with
  | hl n f =>
    intro _ stack rest
    exact ⟨_, by simp [inorderAux, tokenLeaves_leaf, ioStep], Rel_leaf n f⟩
  | hn f ks ih =>
    intro hg stack rest
    have hne := hg.ne_nil
    have hp := sortBy_perm leftmost ks
    rw [inorderAux_node, tokenLeaves_node hg]
    cases hs : sortBy leftmost ks with
    | nil => rw [hs] at hp; exact absurd hp.symm.eq_nil hne
    | cons c cs =>
      have hmem : ∀ x ∈ c :: cs, x ∈ ks := fun x hx => (mem_sortBy leftmost ks x).1 (hs ▸ hx)
      obtain ⟨r, hr, hrel⟩ := ih c (hmem c List.mem_cons_self) (hg.kid (hmem c List.mem_cons_self)) stack
        (cs.flatMap tokenLeaves ++ rest)
      obtain ⟨rs, hrs, hrels⟩ := io_run_list cs
        (fun x hx => ih x (hmem x (List.mem_cons_of_mem _ hx)) (hg.kid (hmem x (List.mem_cons_of_mem _ hx))))
        (Item.mark f.label :: Item.tree r :: stack) rest
      refine ⟨mkNode f.label ((r :: rs).map clearHead), ?_, ?_⟩
      · simp only [List.flatMap_cons, List.append_assoc]
        rw [foldlM_append_of hr, List.singleton_append,
          foldlM_cons_of (b := (Item.mark f.label :: Item.tree r :: stack, cs.flatMap tokenLeaves ++ rest)) rfl,
          foldlM_append_of hrs, foldlM_cons_of (b := (Item.tree (mkNode f.label ((r :: rs).map clearHead)) :: stack, rest)),
          foldlM_nil_some]
        simp only [ioStep, popToMark_trees, List.reverse_reverse, List.append_nil]
      · apply Rel_mkNode
        rw [hs]
        exact All2.map_right clearHead (fun _ _ h => h.clearHead) (.cons hrel hrels)

/-! ### top-down automaton -/

theorem mapM_cons_ok {α β ε} {f : α → Except ε β} {a : α} {l : List α} {b : β} {r : List β}
    (ha : f a = .ok b) (hl : l.mapM f = .ok r) : (a :: l).mapM f = .ok (b :: r) := by
  rw [List.mapM_cons, ha, hl]; rfl

theorem mapM_append_ok {α β ε} {f : α → Except ε β} {l1 l2 : List α} {r1 r2 : List β}
    (h1 : l1.mapM f = .ok r1) (h2 : l2.mapM f = .ok r2) : (l1 ++ l2).mapM f = .ok (r1 ++ r2) := by
  rw [List.mapM_append, h1, h2]; rfl

theorem maxArityL_le : ∀ (ks : List Tree) (n : Nat), maxArityL ks ≤ n → ∀ k ∈ ks, maxArity k ≤ n
  | [], _, _, k, hk => by simp at hk
  | t :: ts, n, h, k, hk => by
    simp only [maxArityL] at h
    rcases List.mem_cons.1 hk with rfl | hk
    · omega
    · exact maxArityL_le ts n (by omega) k hk

theorem maxArity_node_le {f : Fields} {ks : List Tree} {n : Nat} (h : maxArity (node f ks) ≤ n) :
    ks.length ≤ n ∧ ∀ k ∈ ks, maxArity k ≤ n := by
  simp only [maxArity] at h
  exact ⟨by omega, maxArityL_le ks n (by omega)⟩

/-- both children of every binary node carry a head mark -/
def HeadsOK (s : Tree) : Prop :=
  ∀ x ∈ subtrees s, ∀ f ks, x = node f ks → ks.length = 2 → ∀ k ∈ ks, k.fields.head.isSome = true

theorem HeadsOK_of (t : Tree)
    (hh : ∀ s ∈ t.subtrees, ∀ f a b, s = node f [a, b] → a.fields.head.isSome ∧ b.fields.head.isSome) :
    HeadsOK t := by
  intro x hx f ks hxe hlen k hk
  match ks, hlen, hk with
  | [a, b], _, hk =>
    have := hh x hx f a b hxe
    rcases List.mem_cons.1 hk with rfl | hk
    · exact this.1
    · rw [List.mem_singleton.1 hk]; exact this.2

theorem HeadsOK.kid {f : Fields} {ks : List Tree} (h : HeadsOK (node f ks)) {k : Tree} (hk : k ∈ ks) : HeadsOK k :=
  fun x hx => h x ((mem_subtrees_node f ks x).2 (Or.inr ⟨k, hk, hx⟩))

def TdRun (s : Tree) : Prop := ∀ (stack rest : List Tree), ∃ acts r,
  (preorder s).mapM topdownAct = .ok acts ∧
  acts.reverse.foldlM tdStep (stack, (tokenLeaves s).reverse ++ rest) = some (r :: stack, rest) ∧ Rel s r

theorem td_run (s : Tree) : Good s → maxArity s ≤ 2 → HeadsOK s → TdRun s := by
  induction s using tree_ind with
  | hl n f =>
    intro _ _ _ stack rest
    refine ⟨[.shift], _, rfl, ?_, Rel_leaf n f⟩
    simp [tokenLeaves_leaf, tdStep]
  | hn f ks ih =>
    intro hg hb hh stack rest
    have hne := hg.ne_nil
    have hp := sortBy_perm leftmost ks
    have hlen := sortBy_length leftmost ks
    obtain ⟨hb1, hbk⟩ := maxArity_node_le hb
    rw [preorder_unfold, tokenLeaves_node hg]
    simp only [children, kids]
    have hact : topdownAct (node f ks) = match sortBy leftmost ks with
        | [] => .ok .shift
        | [_] => .ok (.unary f.label)
        | [a, _] => match a.fields.head with
          | some h => .ok (.binary h f.label)
          | none => .error .valueError
        | _ => .error .valueError := rfl
    rcases hs : sortBy leftmost ks with _ | ⟨a, _ | ⟨b, _ | ⟨c, more⟩⟩⟩
    · rw [hs] at hp; exact absurd hp.symm.eq_nil hne
    · -- unary
      have ha : a ∈ ks := (mem_sortBy leftmost ks a).1 (hs ▸ List.mem_cons_self)
      obtain ⟨acts, r, hm, hr, hrel⟩ := ih a ha (hg.kid ha) (hbk a ha) (hh.kid ha) stack rest
      rw [hs] at hact
      refine ⟨.unary f.label :: acts, mkNode f.label [clearHead r], ?_, ?_, ?_⟩
      · simp only [List.flatMap_cons, List.flatMap_nil, List.append_nil]
        exact mapM_cons_ok hact hm
      · simp only [List.flatMap_cons, List.flatMap_nil, List.append_nil, List.reverse_cons]
        rw [foldlM_append_of hr, foldlM_cons_of (b := (mkNode f.label [clearHead r] :: stack, rest)) rfl]
        rfl
      · apply Rel_mkNode
        rw [hs]
        exact .cons hrel.clearHead .nil
    · -- binary
      have ha : a ∈ ks := (mem_sortBy leftmost ks a).1 (hs ▸ List.mem_cons_self)
      have hb' : b ∈ ks := (mem_sortBy leftmost ks b).1 (hs ▸ List.mem_cons_of_mem _ List.mem_cons_self)
      have hl2 : ks.length = 2 := by rw [← hlen, hs]; rfl
      have hha := hh _ (self_mem_subtrees _) f ks rfl hl2 a ha
      obtain ⟨hd, hhd⟩ := Option.isSome_iff_exists.1 hha
      obtain ⟨actsb, rb, hmb, hrb, hrelb⟩ := ih b hb' (hg.kid hb') (hbk b hb') (hh.kid hb') stack
        ((tokenLeaves a).reverse ++ rest)
      obtain ⟨actsa, ra, hma, hra, hrela⟩ := ih a ha (hg.kid ha) (hbk a ha) (hh.kid ha) (rb :: stack) rest
      rw [hs] at hact
      simp only [hhd] at hact
      refine ⟨.binary hd f.label :: (actsa ++ actsb), mkNode f.label [withHead hd ra, clearHead rb], ?_, ?_, ?_⟩
      · simp only [List.flatMap_cons, List.flatMap_nil, List.append_nil]
        exact mapM_cons_ok hact (mapM_append_ok hma hmb)
      · simp only [List.flatMap_cons, List.flatMap_nil, List.append_nil, List.reverse_cons, List.reverse_append,
          List.append_assoc]
        rw [foldlM_append_of hrb, foldlM_append_of hra,
          foldlM_cons_of (b := (mkNode f.label [withHead hd ra, clearHead rb] :: stack, rest)) rfl]
        rfl
      · apply Rel_mkNode
        rw [hs]
        exact .cons (hrela.withHead hd hhd) (.cons hrelb.clearHead .nil)
    · rw [hs] at hlen; simp at hlen; omega


/-! ### counting transitions -/

theorem countP_flatMap_of {α β} (p : β → Bool) (F : α → List β) (g : α → Nat) :
    ∀ ks : List α, (∀ k ∈ ks, (F k).countP p = g k) → (ks.flatMap F).countP p = (ks.map g).sum
  | [], _ => by simp
  | k :: ks, h => by
    simp only [List.flatMap_cons, List.countP_append, List.map_cons, List.sum_cons]
    rw [h k List.mem_cons_self, countP_flatMap_of p F g ks (fun k' hk' => h k' (List.mem_cons_of_mem _ hk'))]

theorem countP_inorderAux_node (p : Action → Bool) (f : Fields) (ks : List Tree) (hne : ks ≠ []) :
    (inorderAux (node f ks)).countP p =
      (ks.flatMap inorderAux).countP p + (if p (.pj f.label) then 1 else 0) + (if p .reduce then 1 else 0) := by
  rw [inorderAux_node]
  have hp := sortBy_perm leftmost ks
  cases hs : sortBy leftmost ks with
  | nil => rw [hs] at hp; exact absurd hp.symm.eq_nil hne
  | cons c cs =>
    rw [hs] at hp
    have := (hp.flatMap_right inorderAux).countP_eq p
    rw [← this]
    simp only [List.flatMap_cons, List.countP_append, List.countP_cons, List.countP_nil]
    omega

theorem inorder_counts_aux (t : Tree) : t.noEmpty = true →
    (inorderAux t).countP (· == .shift) = t.leafNums.length ∧
    (inorderAux t).countP (· == .reduce) = (t.subtrees.countP (fun s => !s.isLeaf)) := by
  induction t using tree_ind with
  | hl n f => intro _; simp [inorderAux, leafNums_leaf, subtrees, isLeaf]
  | hn f ks ih =>
    intro h
    obtain ⟨hne, hk⟩ := (noEmpty_node f ks).1 h
    rw [countP_inorderAux_node _ f ks hne, countP_inorderAux_node _ f ks hne]
    rw [countP_flatMap_of _ inorderAux (fun k => k.leafNums.length) ks (fun k hk' => (ih k hk' (hk k hk')).1)]
    rw [countP_flatMap_of _ inorderAux (fun k => k.subtrees.countP (fun s => !s.isLeaf)) ks
      (fun k hk' => (ih k hk' (hk k hk')).2)]
    rw [leafNums_node, subtrees, subtreesL_eq, List.length_flatMap, List.countP_cons, List.countP_flatMap]
    simp [isLeaf, Function.comp_def]

/-! ### more on `All2` -/

theorem All2.reverse {α β} {R : α → β → Prop} : ∀ {l1 l2}, All2 R l1 l2 → All2 R l1.reverse l2.reverse
  | _, _, .nil => .nil
  | _, _, .cons hab t => by
    simp only [List.reverse_cons]
    exact All2.append (All2.reverse t) (.cons hab .nil)

theorem All2.length_eq {α β} {R : α → β → Prop} : ∀ {l1 l2}, All2 R l1 l2 → l1.length = l2.length
  | _, _, .nil => rfl
  | _, _, .cons _ t => by simp [All2.length_eq t]

theorem All2.take {α β} {R : α → β → Prop} : ∀ (n : Nat) {l1 l2}, All2 R l1 l2 → All2 R (l1.take n) (l2.take n)
  | 0, _, _, _ => by simp only [List.take_zero]; exact .nil
  | _ + 1, _, _, .nil => .nil
  | n + 1, _, _, .cons hab t => by simp only [List.take_succ_cons]; exact .cons hab (All2.take n t)

theorem All2.drop {α β} {R : α → β → Prop} : ∀ (n : Nat) {l1 l2}, All2 R l1 l2 → All2 R (l1.drop n) (l2.drop n)
  | 0, _, _, h => by simpa using h
  | _ + 1, _, _, .nil => .nil
  | n + 1, _, _, .cons _ t => by simp only [List.drop_succ_cons]; exact All2.drop n t

theorem All2.cons_left {α β} {R : α → β → Prop} {a : α} {as : List α} {l2 : List β} (h : All2 R (a :: as) l2) :
    ∃ b bs, l2 = b :: bs ∧ R a b ∧ All2 R as bs := by
  cases h with
  | cons hab t => exact ⟨_, _, rfl, hab, t⟩

theorem All2.nil_left {α β} {R : α → β → Prop} {l2 : List β} (h : All2 R [] l2) : l2 = [] := by
  cases h; rfl

theorem All2.insertBy {α β} {R : α → β → Prop} (ka : α → Nat) (kb : β → Nat) (hk : ∀ a b, R a b → kb b = ka a)
    {a : α} {b : β} (hab : R a b) : ∀ {l1 l2}, All2 R l1 l2 → All2 R (insertBy ka a l1) (insertBy kb b l2)
  | _, _, .nil => .cons hab .nil
  | _, _, .cons (a := a') (b := b') h' t => by
    simp only [TT.insertBy, hk _ _ hab, hk _ _ h']
    split
    · exact .cons hab (.cons h' t)
    · exact .cons h' (All2.insertBy ka kb hk hab t)

theorem All2.sortBy {α β} {R : α → β → Prop} (ka : α → Nat) (kb : β → Nat) (hk : ∀ a b, R a b → kb b = ka a) :
    ∀ {l1 l2}, All2 R l1 l2 → All2 R (sortBy ka l1) (sortBy kb l2)
  | _, _, .nil => .nil
  | _, _, .cons hab t => All2.insertBy ka kb hk hab (All2.sortBy ka kb hk t)

theorem All2.map_left {α β γ} {R : α → β → Prop} {S : γ → β → Prop} (g : α → γ) (h : ∀ a b, R a b → S (g a) b) :
    ∀ {l1 l2}, All2 R l1 l2 → All2 S (l1.map g) l2
  | _, _, .nil => .nil
  | _, _, .cons hab t => .cons (h _ _ hab) (All2.map_left g h t)

/-- rebuilding a constituent from rebuilt children given in ANY order -/
theorem Rel_mkNode_perm (f : Fields) (ks cs rs : List Tree) (hp : cs.Perm ks) (hd : (ks.map leftmost).Nodup)
    (h : All2 Rel cs rs) : Rel (node f ks) (mkNode f.label rs) := by
  have h1 : All2 Rel (sortBy leftmost cs) (sortBy leftmost rs) :=
    All2.sortBy leftmost leftmost (fun _ _ h => h.leftmost) h
  rw [sortBy_perm_eq leftmost cs ks hp ((hp.map leftmost).symm.nodup hd)] at h1
  have h2 := Rel_mkNode f ks _ h1
  refine ⟨?_, ?_⟩
  · have : sortKids (mkNode f.label rs) = sortKids (mkNode f.label (sortBy leftmost rs)) := by
      rw [mkNode, mkNode, sortKids_node, sortKids_node,
        sortBy_of_sorted leftmost (sortBy leftmost rs) (sortBy_sorted leftmost rs)]
    rw [this]; exact h2.1
  · refine List.Perm.trans ?_ h2.2
    rw [mkNode, mkNode, leafNums_node, leafNums_node]
    exact (sortBy_perm leftmost rs).symm.flatMap_right leafNums

/-! ### paths into a tree -/

theorem parentP_eq_some {q p : Path} (h : parentP q = some p) : ∃ i, q = p ++ [i] := by
  unfold parentP at h
  split at h
  · cases h
  · rename_i hne
    cases h
    have hq : q ≠ [] := by intro h'; simp [h'] at hne
    exact ⟨q.getLast hq, (List.dropLast_concat_getLast hq).symm⟩

theorem parentP_concat (p : Path) (i : Nat) : parentP (p ++ [i]) = some p := by
  simp [parentP]

theorem parentP_nil : parentP [] = none := rfl

theorem get?_concat (t : Tree) (p : Path) (i : Nat) :
    get? t (p ++ [i]) = (get? t p).bind (fun s => s.kids[i]?) := by
  rw [get?_append]
  cases get? t p with
  | none => rfl
  | some s =>
    cases s with
    | leaf n f => simp [get?, kids]
    | node f ks =>
      simp only [Option.bind_some, get?, kids]
      cases ks[i]? <;> simp

/-- the node at `p ++ [i]` is the `i`-th stored child of the constituent at `p` -/
theorem get?_concat_some {t : Tree} {p : Path} {i : Nat} {s : Tree} (h : get? t (p ++ [i]) = some s) :
    ∃ f ks, get? t p = some (node f ks) ∧ ks[i]? = some s := by
  rw [get?_concat] at h
  cases hp : get? t p with
  | none => simp [hp] at h
  | some u =>
    cases u with
    | leaf n f => simp [hp, kids] at h
    | node f ks => simp only [hp, Option.bind_some, kids] at h; exact ⟨f, ks, rfl, h⟩

theorem leafNums_sublist_get? : ∀ (p : Path) (t s : Tree), get? t p = some s → s.leafNums.Sublist t.leafNums
  | [], t, s, h => by simp only [get?, Option.some.injEq] at h; subst h; exact List.Sublist.refl _
  | i :: p, .leaf _ _, s, h => by simp [get?] at h
  | i :: p, .node f ks, s, h => by
    simp only [get?] at h
    cases hk : ks[i]? with
    | none => simp [hk] at h
    | some k =>
      simp only [hk] at h
      exact (leafNums_sublist_get? p k s h).trans (leafNums_sublist_of_mem f ks k (List.mem_of_getElem? hk))

theorem maxArity_get? (n : Nat) : ∀ (p : Path) (t s : Tree), maxArity t ≤ n → get? t p = some s → maxArity s ≤ n
  | [], t, s, hm, h => by simp only [get?, Option.some.injEq] at h; subst h; exact hm
  | i :: p, .leaf _ _, s, _, h => by simp [get?] at h
  | i :: p, .node f ks, s, hm, h => by
    simp only [get?] at h
    cases hk : ks[i]? with
    | none => simp [hk] at h
    | some k =>
      simp only [hk] at h
      exact maxArity_get? n p k s ((maxArity_node_le hm).2 k (List.mem_of_getElem? hk)) h

theorem mem_subtrees_get? : ∀ (p : Path) (t s : Tree), get? t p = some s → s ∈ subtrees t
  | [], t, s, h => by simp only [get?, Option.some.injEq] at h; subst h; exact self_mem_subtrees _
  | i :: p, .leaf _ _, s, h => by simp [get?] at h
  | i :: p, .node f ks, s, h => by
    simp only [get?] at h
    cases hk : ks[i]? with
    | none => simp [hk] at h
    | some k =>
      simp only [hk] at h
      exact (mem_subtrees_node f ks s).2 (Or.inr ⟨k, List.mem_of_getElem? hk, mem_subtrees_get? p k s h⟩)

mutual
theorem height_le_size : (t : Tree) → height t ≤ size t
  | .leaf _ _ => by simp [height, size]
  | .node _ ks => by
    have := heightL_le_sizeL ks
    show 1 + heightL ks ≤ 1 + sizeL ks
    omega
theorem heightL_le_sizeL : (ts : List Tree) → heightL ts ≤ sizeL ts
  | [] => by simp [heightL, sizeL]
  | t :: ts => by
    have h1 := height_le_size t
    have h2 := heightL_le_sizeL ts
    show max (height t) (heightL ts) ≤ size t + sizeL ts
    omega
end

theorem length_le_size_of_get? (t s : Tree) (p : Path) (h : get? t p = some s) : p.length ≤ size t := by
  have h1 := height_get?_le p t s h
  have h2 := height_le_size t
  omega


/-! ### gap automaton: every emitted transition is sound -/

/-- proves `Perm` goals between `flatMap`s of rearranged lists by counting -/
macro "perm_count" : tactic => `(tactic| (
  rw [List.perm_iff_count]; intro a
  simp only [List.count_flatMap, List.map_append, List.sum_append, List.map_reverse, List.sum_reverse,
    List.map_cons, List.sum_cons, List.map_nil, List.sum_nil, List.count_append, List.count_cons, List.count_nil,
    Function.comp_apply]
  try omega))

structure GapHyp (t : Tree) : Prop where
  ne : t.noEmpty = true
  nd : t.leafNums.Nodup
  ar : maxArity t ≤ 2

/-- the rebuilt item `r` stands for the node of `t` at storage path `p` -/
def IR (t : Tree) (p : Path) (r : Tree) : Prop := ∃ s, t.get? p = some s ∧ Rel s r

/-- lock-step relation between an oracle configuration (paths) and a replay configuration (rebuilt trees) -/
structure SInv (t : Tree) (s d b : List Path) (C : GCfg) : Prop where
  hs : All2 (IR t) s C.s
  hd : All2 (IR t) d C.d
  hb : All2 (IR t) b C.b
  cov : ((C.s ++ C.d ++ C.b).flatMap leafNums).Perm t.leafNums

theorem sound_shift {t : Tree} {s d bs : List Path} {x : Path} {C : GCfg} (h : SInv t s d (x :: bs) C) :
    ∃ C1, gStep C .shift = some C1 ∧ SInv t (d.reverse ++ s) [x] bs C1 := by
  obtain ⟨X, Bs, hB, hx, hbs⟩ := h.hb.cons_left
  refine ⟨{ s := C.d.reverse ++ C.s, d := [X], b := Bs }, by simp [gStep, hB],
    ⟨h.hd.reverse.append h.hs, .cons hx .nil, hbs, ?_⟩⟩
  refine List.Perm.trans ?_ h.cov
  rw [hB]
  perm_count

theorem sound_gap1 {t : Tree} {ss d b : List Path} {s0 : Path} {C : GCfg} (h : SInv t (s0 :: ss) d b C)
    (hd : d ≠ []) : ∃ C1, gStep C .gap = some C1 ∧ SInv t ss (d ++ [s0]) b C1 := by
  obtain ⟨X, Ss, hS, hx, hss⟩ := h.hs.cons_left
  have hne : C.d.isEmpty = false := by
    have := h.hd.length_eq
    cases hc : C.d with
    | nil => rw [hc] at this; simp at this; exact absurd this hd
    | cons _ _ => rfl
  refine ⟨{ C with s := Ss, d := C.d ++ [X] }, by simp [gStep, hS, hne],
    ⟨hss, h.hd.append (.cons hx .nil), h.hb, ?_⟩⟩
  refine List.Perm.trans ?_ h.cov
  rw [hS]
  perm_count

theorem sound_gaps {t : Tree} {b : List Path} : ∀ (i : Nat) {s d : List Path} {C : GCfg}, SInv t s d b C →
    i ≤ s.length → d ≠ [] →
    ∃ C1, (List.replicate i Action.gap).foldlM gStep C = some C1 ∧ SInv t (s.drop i) (d ++ s.take i) b C1
  | 0, s, d, C, h, _, _ => ⟨C, rfl, by simpa using h⟩
  | i + 1, [], d, C, h, hi, _ => by simp at hi
  | i + 1, s0 :: ss, d, C, h, hi, hd => by
    obtain ⟨C1, h1, hinv1⟩ := sound_gap1 h hd
    obtain ⟨C2, h2, hinv2⟩ := sound_gaps i hinv1 (by simpa using hi) (by simp)
    refine ⟨C2, ?_, ?_⟩
    · rw [List.replicate_succ, foldlM_cons_of h1, h2]
    · simpa using hinv2

theorem two_kids {ks : List Tree} {i j : Nat} {a b : Tree} (hl : ks.length ≤ 2) (hi : ks[i]? = some a)
    (hj : ks[j]? = some b) (hij : i ≠ j) : [a, b].Perm ks := by
  obtain ⟨hi', rfl⟩ := List.getElem?_eq_some_iff.1 hi
  obtain ⟨hj', rfl⟩ := List.getElem?_eq_some_iff.1 hj
  match ks, hl, hi', hj' with
  | [x, y], _, hi', hj' =>
    have : (i = 0 ∧ j = 1) ∨ (i = 1 ∧ j = 0) := by simp at hi' hj'; omega
    rcases this with ⟨rfl, rfl⟩ | ⟨rfl, rfl⟩
    · exact List.Perm.refl _
    · exact List.Perm.swap _ _ _
  | [x], _, hi', hj' => simp at hi' hj'; omega

theorem one_kid {ks : List Tree} {i : Nat} {a : Tree} (hl : ks.length = 1) (hi : ks[i]? = some a) : ks = [a] := by
  obtain ⟨hi', rfl⟩ := List.getElem?_eq_some_iff.1 hi
  match ks, hl, hi' with
  | [x], _, hi' =>
    have : i = 0 := by simp at hi'; omega
    subst this; rfl

theorem leafNums_mkNode (l : Str) (rs : List Tree) : (mkNode l rs).leafNums = rs.flatMap leafNums :=
  leafNums_node _ _

theorem leafNums_clearHead (x : Tree) : (clearHead x).leafNums = x.leafNums := leafNums_setFields _ _
theorem leafNums_withHead (h : Bool) (x : Tree) : (withHead h x).leafNums = x.leafNums := leafNums_setFields _ _

/-- facts about the constituent at a valid path of a tree satisfying `GapHyp` -/
theorem node_facts {t : Tree} (H : GapHyp t) {p : Path} {f : Fields} {ks : List Tree}
    (hp : get? t p = some (node f ks)) :
    ks.length ≤ 2 ∧ (ks.map leftmost).Nodup ∧ (∀ k ∈ ks, k.leafNums ≠ []) ∧ (ks.flatMap leafNums).Nodup := by
  have hne := noEmpty_get? p t _ H.ne hp
  have hnd : (ks.flatMap leafNums).Nodup := by
    have := (leafNums_sublist_get? p t _ hp).nodup H.nd
    rwa [leafNums_node] at this
  have hk : ∀ k ∈ ks, k.leafNums ≠ [] := fun k hk =>
    noEmpty_leafNums_ne_nil k (noEmpty_of_mem_kids f ks k hne hk)
  exact ⟨(maxArity_node_le (maxArity_get? 2 p t _ H.ar hp)).1, map_leftmost_nodup ks hk hnd, hk, hnd⟩

theorem sound_reduce {t : Tree} (H : GapHyp t) {s0 d0 p : Path} {ss ds b : List Path} {C : GCfg} {h : Bool}
    (hinv : SInv t (s0 :: ss) (d0 :: ds) b C) (hps : parentP s0 = some p) (hpd : parentP d0 = some p)
    (hh : headAt t s0 = some h) :
    ∃ C1, gStep C (.r h (labelAt t p)) = some C1 ∧ SInv t (ds.reverse ++ ss) [p] b C1 := by
  obtain ⟨X, Ss, hS, hX, hSs⟩ := hinv.hs.cons_left
  obtain ⟨Y, Ds, hD, hY, hDs⟩ := hinv.hd.cons_left
  obtain ⟨i, rfl⟩ := parentP_eq_some hps
  obtain ⟨j, rfl⟩ := parentP_eq_some hpd
  obtain ⟨a, ha, hRa⟩ := hX
  obtain ⟨b', hb', hRb⟩ := hY
  obtain ⟨f, ks, hp, hki⟩ := get?_concat_some ha
  obtain ⟨f', ks', hp', hkj⟩ := get?_concat_some hb'
  rw [hp] at hp'
  cases hp'
  obtain ⟨hlen, hlm, hkne, hknd⟩ := node_facts H hp
  have hcov := hinv.cov
  rw [hS, hD] at hcov
  have hij : i ≠ j := by
    rintro rfl
    rw [hki] at hkj
    cases hkj
    have hane : a.leafNums ≠ [] := hkne a (List.mem_of_getElem? hki)
    obtain ⟨n, hn⟩ := List.exists_mem_of_ne_nil _ hane
    have hnX : 0 < X.leafNums.count n := List.count_pos_iff.2 (hRa.2.symm.subset hn)
    have hnY : 0 < Y.leafNums.count n := List.count_pos_iff.2 (hRb.2.symm.subset hn)
    have h1 := List.nodup_iff_count.1 (hcov.symm.nodup H.nd) n
    simp only [List.count_flatMap, List.map_append, List.sum_append, List.map_cons, List.sum_cons,
      Function.comp_apply] at h1
    omega
  have hhead : a.fields.head = some h := by simpa [headAt, ha] using hh
  have hlab : labelAt t p = f.label := by simp [labelAt, hp, fields]
  refine ⟨{ s := Ds.reverse ++ Ss, d := [mkNode (labelAt t p) [withHead h X, clearHead Y]], b := C.b },
    by simp [gStep, hS, hD], ⟨hDs.reverse.append hSs, .cons ?_ .nil, hinv.hb, ?_⟩⟩
  · rw [hlab]
    exact ⟨node f ks, hp, Rel_mkNode_perm f ks [a, b'] _ (two_kids hlen hki hkj hij) hlm
      (.cons (hRa.withHead h hhead) (.cons hRb.clearHead .nil))⟩
  · refine List.Perm.trans ?_ hcov
    simp only [List.flatMap_append, List.flatMap_cons, List.flatMap_nil, leafNums_mkNode, leafNums_withHead,
      leafNums_clearHead, List.append_nil]
    perm_count

theorem sound_unary {t : Tree} (H : GapHyp t) {d0 p : Path} {s ds b : List Path} {C : GCfg}
    (hinv : SInv t s (d0 :: ds) b C) (hpd : parentP d0 = some p) (har : arityAt t p = 1) :
    ∃ C1, gStep C (.unary (labelAt t p)) = some C1 ∧ SInv t s (p :: ds) b C1 := by
  obtain ⟨Y, Ds, hD, hY, hDs⟩ := hinv.hd.cons_left
  obtain ⟨j, rfl⟩ := parentP_eq_some hpd
  obtain ⟨b', hb', hRb⟩ := hY
  obtain ⟨f, ks, hp, hkj⟩ := get?_concat_some hb'
  obtain ⟨_, hlm, _, _⟩ := node_facts H hp
  have hl1 : ks.length = 1 := by simpa [arityAt, hp, kids] using har
  have hks := one_kid hl1 hkj
  have hlab : labelAt t p = f.label := by simp [labelAt, hp, fields]
  have hcov := hinv.cov
  rw [hD] at hcov
  refine ⟨{ C with d := mkNode (labelAt t p) [clearHead Y] :: Ds }, by simp [gStep, hD],
    ⟨hinv.hs, .cons ?_ hDs, hinv.hb, ?_⟩⟩
  · rw [hlab]
    refine ⟨node f ks, hp, Rel_mkNode_perm f ks [b'] _ (by rw [hks]) hlm (.cons hRb.clearHead .nil)⟩
  · refine List.Perm.trans ?_ hcov
    simp only [List.flatMap_append, List.flatMap_cons, List.flatMap_nil, leafNums_mkNode,
      leafNums_clearHead, List.append_nil]
    exact List.Perm.refl _


/-! ### the oracle's loop -/

theorem shiftStep_ok {c c1 : GapCfg} (h : gapStep.shiftStep c = .ok c1) :
    ∃ x bs, c.b = x :: bs ∧ c1 = { c with s := c.d.reverse ++ c.s, d := [x], b := bs, out := .shift :: c.out } := by
  unfold gapStep.shiftStep at h
  split at h
  · rename_i x bs hb
    cases h
    exact ⟨x, bs, hb, rfl⟩
  · cases h

/-- the three things one iteration can do -/
theorem gapStep_cases {t : Tree} {c c1 : GapCfg} (h : gapStep t c = .ok c1) :
    (∃ x bs, c.b = x :: bs ∧
      c1 = { c with s := c.d.reverse ++ c.s, d := [x], b := bs, out := .shift :: c.out }) ∨
    (∃ s0 ss d0 ds hd hd' p, c.s = s0 :: ss ∧ c.d = d0 :: ds ∧ parentP d0 = some p ∧ parentP s0 = some p ∧
      headAt t s0 = some hd ∧ headAt t d0 = some hd' ∧
      c1 = { c with s := ds.reverse ++ ss, d := [p], out := .r hd (labelAt t p) :: c.out }) ∨
    (∃ i, i ≤ c.s.length ∧ c.d ≠ [] ∧
      c1 = { c with s := c.s.drop i, d := c.d ++ c.s.take i, out := List.replicate i .gap ++ c.out }) := by
  unfold gapStep at h
  split at h
  · rename_i s0 ss d0 ds hs hd
    split at h
    · rename_i hpar
      split at h
      · rename_i hd1 hd2 p h1 h2 h3
        cases h
        refine Or.inr (Or.inl ⟨s0, ss, d0, ds, hd1, hd2, p, hs, hd, ?_, h3, h1, h2, rfl⟩)
        rw [← h3]; exact eq_of_beq hpar
      · cases h
    · split at h
      · rename_i i hi
        cases h
        have hlt := (List.findIdx?_eq_some_iff_findIdx_eq.1 hi).1
        refine Or.inr (Or.inr ⟨i, ?_, ?_, ?_⟩)
        · rw [hs]; exact Nat.le_of_lt hlt
        · rw [hd]; simp
        · rw [hs, hd]
      · exact Or.inl (shiftStep_ok h)
  · exact Or.inl (shiftStep_ok h)
  · exact Or.inl (shiftStep_ok h)

theorem gapStep_sound {t : Tree} (H : GapHyp t) {c c1 : GapCfg} {C : GCfg} (h : gapStep t c = .ok c1)
    (hinv : SInv t c.s c.d c.b C) :
    ∃ (new : List Action) (C1 : GCfg), c1.out = new.reverse ++ c.out ∧ new.foldlM gStep C = some C1 ∧ SInv t c1.s c1.d c1.b C1 := by
  rcases gapStep_cases h with ⟨x, bs, hb, rfl⟩ | ⟨s0, ss, d0, ds, hd, hd', p, hs, hdq, hpd, hps, hh, _, rfl⟩ |
      ⟨i, hi, hdne, rfl⟩
  · rw [hb] at hinv
    obtain ⟨C1, h1, hinv1⟩ := sound_shift hinv
    exact ⟨[.shift], C1, rfl, by rw [foldlM_cons_of h1]; rfl, hinv1⟩
  · rw [hs, hdq] at hinv
    obtain ⟨C1, h1, hinv1⟩ := sound_reduce H hinv hps hpd hh
    exact ⟨[.r hd (labelAt t p)], C1, rfl, by rw [foldlM_cons_of h1]; rfl, hinv1⟩
  · obtain ⟨C1, h1, hinv1⟩ := sound_gaps i hinv hi hdne
    exact ⟨List.replicate i .gap, C1, by simp, h1, hinv1⟩

theorem unaryClimb_sound {t : Tree} (H : GapHyp t) : ∀ (fuel : Nat) (c : GapCfg) (C : GCfg), SInv t c.s c.d c.b C →
    ∃ (new : List Action) (C1 : GCfg), (unaryClimb t fuel c).out = new.reverse ++ c.out ∧ new.foldlM gStep C = some C1 ∧
      SInv t (unaryClimb t fuel c).s (unaryClimb t fuel c).d (unaryClimb t fuel c).b C1
  | 0, c, C, hinv => ⟨[], C, rfl, rfl, hinv⟩
  | fuel + 1, c, C, hinv => by
    unfold unaryClimb
    split
    · rename_i d0 ds hd
      split
      · rename_i p hp
        split
        · rename_i har
          rw [hd] at hinv
          obtain ⟨C1, h1, hinv1⟩ := sound_unary H hinv hp (eq_of_beq har)
          obtain ⟨new, C2, hout, h2, hinv2⟩ := unaryClimb_sound H fuel
            { c with d := p :: ds, out := .unary (labelAt t p) :: c.out } C1 hinv1
          refine ⟨.unary (labelAt t p) :: new, C2, ?_, ?_, hinv2⟩
          · rw [hout]; simp
          · rw [foldlM_cons_of h1, h2]
        · exact ⟨[], C, rfl, rfl, hinv⟩
      · exact ⟨[], C, rfl, rfl, hinv⟩
    · exact ⟨[], C, rfl, rfl, hinv⟩


/-- the deque top has no unary parent left -/
def Climbed (t : Tree) (d0 : Path) : Prop := ∀ p, parentP d0 = some p → arityAt t p ≠ 1

/-- what the unary loop does to the configuration: only the deque top moves (upwards), and with enough
    fuel it ends below a non-unary parent (or at the root) -/
theorem unaryClimb_spec (t : Tree) : ∀ (fuel : Nat) (c : GapCfg),
    (unaryClimb t fuel c).s = c.s ∧ (unaryClimb t fuel c).b = c.b ∧
    (c.d = [] → (unaryClimb t fuel c).d = []) ∧
    (∀ d0 ds, c.d = d0 :: ds → ∃ d0', (unaryClimb t fuel c).d = d0' :: ds ∧ d0'.length ≤ d0.length ∧
      (d0.length < fuel → Climbed t d0') ∧ (Climbed t d0 → unaryClimb t fuel c = c))
  | 0, c => ⟨rfl, rfl, fun h => h, fun d0 ds h => ⟨d0, h, Nat.le_refl _, fun h' => absurd h' (Nat.not_lt_zero _),
      fun _ => rfl⟩⟩
  | fuel + 1, c => by
    unfold unaryClimb
    split
    · rename_i d0 ds hd
      split
      · rename_i p hp
        split
        · rename_i har
          obtain ⟨h1, h2, _, h4⟩ := unaryClimb_spec t fuel
            { c with d := p :: ds, out := .unary (labelAt t p) :: c.out }
          refine ⟨h1, h2, (fun h => by rw [hd] at h; cases h), ?_⟩
          intro d0' ds' hd'
          rw [hd] at hd'
          cases hd'
          obtain ⟨e, he, hlen, hcl, _⟩ := h4 p ds rfl
          obtain ⟨i, rfl⟩ := parentP_eq_some hp
          refine ⟨e, he, by simp at hlen ⊢; omega, fun hf => hcl (by simp at hf; omega), ?_⟩
          intro hc
          exact absurd (eq_of_beq har) (hc p hp)
        · rename_i har
          refine ⟨rfl, rfl, (fun h => by rw [hd] at h; cases h), ?_⟩
          intro d0' ds' hd'
          rw [hd] at hd'
          cases hd'
          refine ⟨d0, hd, Nat.le_refl _, fun _ q hq => ?_, fun _ => rfl⟩
          rw [hp] at hq
          cases hq
          intro h1
          exact har (by simp [h1])
      · rename_i hp
        refine ⟨rfl, rfl, (fun h => by rw [hd] at h; cases h), ?_⟩
        intro d0' ds' hd'
        rw [hd] at hd'
        cases hd'
        exact ⟨d0, hd, Nat.le_refl _, (fun _ q hq => by rw [hp] at hq; cases hq), fun _ => rfl⟩
    · rename_i hd
      refine ⟨rfl, rfl, fun h => h, ?_⟩
      intro d0 ds hd'
      rw [hd] at hd'
      cases hd'

theorem flatMap_length_ge {α β} (F : α → List β) : ∀ (ks : List α) (i : Nat) (s : α), ks[i]? = some s →
    (∀ k ∈ ks, 1 ≤ (F k).length) → (F s).length + (ks.length - 1) ≤ (ks.flatMap F).length
  | [], i, s, h, _ => by simp at h
  | k :: ks, 0, s, h, hk => by
    simp only [List.getElem?_cons_zero, Option.some.injEq] at h
    subst h
    have : ks.length ≤ (ks.flatMap F).length := by
      induction ks with
      | nil => simp
      | cons x xs ih =>
        have h1 := hk x (by simp)
        have := ih (fun k' hk' => hk k' (by
          rcases List.mem_cons.1 hk' with rfl | h
          · simp
          · simp [h]))
        simp only [List.flatMap_cons, List.length_append, List.length_cons]
        omega
    simp only [List.flatMap_cons, List.length_append, List.length_cons]
    omega
  | k :: ks, i + 1, s, h, hk => by
    simp only [List.getElem?_cons_succ] at h
    have ih := flatMap_length_ge F ks i s h (fun k' hk' => hk k' (List.mem_cons_of_mem _ hk'))
    have h1 := hk k List.mem_cons_self
    have hpos : 0 < ks.length := by
      have := (List.getElem?_eq_some_iff.1 h).1; omega
    simp only [List.flatMap_cons, List.length_append, List.length_cons]
    omega

/-- an item that covers every token and has no unary parent is the root -/
theorem final_root {t : Tree} (H : GapHyp t) {p : Path} {s : Tree} (hp : get? t p = some s)
    (hlen : s.leafNums.length = t.leafNums.length) (hc : Climbed t p) : p = [] := by
  rcases List.eq_nil_or_concat p with rfl | ⟨q, i, rfl⟩
  · rfl
  · exfalso
    rw [List.concat_eq_append] at hp hc
    obtain ⟨f, ks, hq, hki⟩ := get?_concat_some hp
    obtain ⟨_, _, hkne, _⟩ := node_facts H hq
    have h1 := flatMap_length_ge leafNums ks i s hki (fun k hk => by
      have := hkne k hk
      cases hl : k.leafNums with
      | nil => exact absurd hl this
      | cons _ _ => simp)
    have h2 := (leafNums_sublist_get? q t _ hq).length_le
    rw [leafNums_node] at h2
    have hpos := (List.getElem?_eq_some_iff.1 hki).1
    have : ks.length = 1 := by omega
    exact hc q (parentP_concat q i) (by simp [arityAt, hq, kids, this])


theorem gapLoop_sound {t : Tree} (H : GapHyp t) : ∀ (fuel : Nat) (c : GapCfg) (C : GCfg) (acts : List Action),
    gapLoop t fuel c = .ok acts → SInv t c.s c.d c.b C →
    ∃ (new : List Action) (x : Tree), acts = c.out.reverse ++ new ∧
      new.foldlM gStep C = some { s := [], d := [x], b := [] } ∧ Rel t x
  | 0, _, _, _, h, _ => by simp [gapLoop] at h
  | fuel + 1, c, C, acts, h, hinv => by
    unfold gapLoop at h
    split at h
    · cases h
    · rename_i c1 hstep
      obtain ⟨new1, C1, hout1, hrun1, hinv1⟩ := gapStep_sound H hstep hinv
      obtain ⟨new2, C2, hout2, hrun2, hinv2⟩ := unaryClimb_sound H (t.size + 1) c1 C1 hinv1
      have hrun : (new1 ++ new2).foldlM gStep C = some C2 := by rw [foldlM_append_of hrun1, hrun2]
      have hout : (unaryClimb t (t.size + 1) c1).out.reverse = c.out.reverse ++ (new1 ++ new2) := by
        rw [hout2, hout1]; simp
      simp only at h
      split at h
      · rename_i hterm
        cases h
        simp only [Bool.and_eq_true, List.isEmpty_iff, beq_iff_eq] at hterm
        obtain ⟨⟨hs, hb⟩, hd⟩ := hterm
        obtain ⟨p, hdp⟩ : ∃ p, (unaryClimb t (t.size + 1) c1).d = [p] := by
          match (unaryClimb t (t.size + 1) c1).d, hd with
          | [p], _ => exact ⟨p, rfl⟩
        have hS := hinv2.hs; have hD := hinv2.hd; have hB := hinv2.hb; have hcov := hinv2.cov
        rw [hs] at hS; rw [hb] at hB; rw [hdp] at hD
        have hS' := hS.nil_left
        have hB' := hB.nil_left
        obtain ⟨x, xs, hD', hx, hxs⟩ := hD.cons_left
        have hxs' := hxs.nil_left
        subst hxs'
        have hC2 : C2 = { s := [], d := [x], b := [] } := by
          cases C2; simp only at hS' hB' hD'; subst hS' hB' hD'; rfl
        refine ⟨new1 ++ new2, x, hout, by rw [hrun, hC2], ?_⟩
        rw [hS', hB', hD'] at hcov
        simp only [List.nil_append, List.append_nil, List.flatMap_cons, List.flatMap_nil] at hcov
        obtain ⟨s, hp, hrel⟩ := hx
        -- the deque top has been climbed: it is the root
        have hcl : Climbed t p := by
          obtain ⟨_, _, h3, h4⟩ := unaryClimb_spec t (t.size + 1) c1
          cases hd1 : c1.d with
          | nil => rw [h3 hd1] at hdp; cases hdp
          | cons d0 ds =>
            obtain ⟨d0', hd0', _, hcl, _⟩ := h4 d0 ds hd1
            rw [hd0'] at hdp
            cases hdp
            apply hcl
            have hv : ∃ s0, get? t d0 = some s0 := by
              have := hinv1.hd
              rw [hd1] at this
              obtain ⟨_, _, _, ⟨s0, h0, _⟩, _⟩ := this.cons_left
              exact ⟨s0, h0⟩
            obtain ⟨s0, h0⟩ := hv
            have := length_le_size_of_get? t s0 d0 h0
            omega
        have hroot := final_root H hp ((hrel.2.symm.trans hcov).length_eq) hcl
        subst hroot
        simp only [get?, Option.some.injEq] at hp
        subst hp
        exact hrel
      · obtain ⟨new3, x, hacts, hrun3, hrel⟩ := gapLoop_sound H fuel _ C2 acts h hinv2
        refine ⟨new1 ++ new2 ++ new3, x, ?_, ?_, hrel⟩
        · rw [hacts, hout]; simp
        · rw [foldlM_append_of hrun, hrun3]

/-! ### the initial configuration -/

def isTok (t : Tree) (p : Path) : Bool := match t.get? p with | some (leaf _ _) => true | _ => false

theorem terminalPaths_eq (t : Tree) :
    terminalPaths t = sortBy (fun p => ((t.get? p).map num).getD 0) ((paths t).filter (isTok t)) := rfl

mutual
theorem leafPaths_all2 : (t : Tree) →
    All2 (fun p l => get? t p = some l ∧ l.isLeaf = true) ((paths t).filter (isTok t)) (leaves t)
  | .leaf n f => by
    simp only [paths, leaves, List.filter, isTok, get?]
    exact .cons ⟨rfl, rfl⟩ .nil
  | .node f ks => by
    have h0 : isTok (node f ks) [] = false := by simp [isTok, get?]
    simp only [paths, leaves, List.filter_cons, h0]
    exact leafPathsL_all2 f ks ks 0 rfl
theorem leafPathsL_all2 (f : Fields) (full : List Tree) : (ts : List Tree) → (i : Nat) → full.drop i = ts →
    All2 (fun p l => get? (node f full) p = some l ∧ l.isLeaf = true)
      ((pathsL ts i).filter (isTok (node f full))) (leavesL ts)
  | [], _, _ => by simp only [pathsL, leavesL, List.filter_nil]; exact .nil
  | k :: ts, i, h => by
    have hk : full[i]? = some k := by
      have := List.head?_drop (l := full) (i := i)
      rw [h] at this
      simpa using this.symm
    have hts : full.drop (i + 1) = ts := by
      rw [← List.tail_drop, h]; rfl
    simp only [pathsL, leavesL, List.filter_append]
    refine All2.append ?_ (leafPathsL_all2 f full ts (i + 1) hts)
    rw [List.filter_map]
    have hfun : (isTok (node f full) ∘ (fun q => i :: q)) = isTok k := by
      funext q; simp [isTok, get?, hk]
    rw [hfun]
    exact All2.map_left (fun q => i :: q) (fun q l h' => ⟨by simp [get?, hk, h'.1], h'.2⟩) (leafPaths_all2 k)
end

theorem init_all2 (t : Tree) : All2 (IR t) (terminalPaths t) (tokenLeaves t) := by
  rw [terminalPaths_eq, tokenLeaves_eq]
  have h1 := All2.sortBy (fun p => ((t.get? p).map num).getD 0) num
    (fun p l (h : get? t p = some l ∧ l.isLeaf = true) => by simp [h.1]) (leafPaths_all2 t)
  refine All2.map_right tok ?_ h1
  intro p l h
  refine ⟨l, h.1, ?_⟩
  cases l with
  | leaf n f => exact Rel_leaf n f
  | node f ks => simp [isLeaf] at h

theorem init_cov (t : Tree) : ((tokenLeaves t).flatMap leafNums).Perm t.leafNums := by
  rw [tokenLeaves_eq, List.flatMap_map]
  have : (fun l => (tok l).leafNums) = fun l => [num l] := by
    funext l; simp [tok, leafNums_leaf]
  rw [this]
  have h2 : (terminals t).flatMap (fun l => [num l]) = yield t := by
    rw [yield, List.map_eq_flatMap]
  rw [h2]; exact yield_perm t

/-- partial correctness of the gap oracle: whatever sequence it returns replays to the tree -/
theorem gap_sound (t : Tree) (H : GapHyp t) (acts : List Action) (h : gapOracle t = .ok acts) :
    ∃ r, replayGap t acts = some r ∧ agrees t r = true := by
  unfold gapOracle at h
  have hinv : SInv t [] [] (terminalPaths t) { s := [], d := [], b := tokenLeaves t } :=
    ⟨.nil, .nil, init_all2 t, by simpa using init_cov t⟩
  obtain ⟨new, x, hacts, hrun, hrel⟩ := gapLoop_sound H _ _ _ acts h hinv
  simp only [List.reverse_nil, List.nil_append] at hacts
  subst hacts
  exact ⟨x, by simp only [replayGap, hrun], hrel.agrees⟩


/-! ### gap automaton: the oracle never gets stuck -/

/-- token numbers below the node at `p` -/
def numsAt (t : Tree) (p : Path) : List Nat := ((t.get? p).map leafNums).getD []

theorem numsAt_of_get? {t : Tree} {p : Path} {s : Tree} (h : get? t p = some s) : numsAt t p = s.leafNums := by
  simp [numsAt, h]

theorem IR.numsAt {t : Tree} {p : Path} {r : Tree} (h : IR t p r) : r.leafNums.Perm (numsAt t p) := by
  obtain ⟨s, hs, hrel⟩ := h
  rw [numsAt_of_get? hs]; exact hrel.2

/-- coverage on the oracle's side: the items and the buffer partition the sentence -/
theorem SInv.pcov {t : Tree} {s d b : List Path} {C : GCfg} (h : SInv t s d b C) :
    ((s ++ d ++ b).flatMap (numsAt t)).Perm t.leafNums := by
  have h1 : All2 (IR t) (s ++ d ++ b) (C.s ++ C.d ++ C.b) := (h.hs.append h.hd).append h.hb
  exact (All2.flatMap_perm (numsAt t) leafNums (fun _ _ h => h.numsAt) h1).symm.trans h.cov

theorem nodup_flatMap_head {α β} (F : α → List β) {a b : α} {l : List α} {n : β}
    (h : ((a :: l).flatMap F).Nodup) (hb : b ∈ l) (hna : n ∈ F a) (hnb : n ∈ F b) : False := by
  simp only [List.flatMap_cons, List.nodup_append] at h
  exact h.2.2 n hna n (List.mem_flatMap.2 ⟨b, hb, hnb⟩) rfl

theorem idx_eq_of_common {α β} (F : α → List β) : ∀ (ks : List α) (i j : Nat) (a b : α) (n : β),
    (ks.flatMap F).Nodup → ks[i]? = some a → ks[j]? = some b → n ∈ F a → n ∈ F b → i = j
  | [], i, _, _, _, _, _, hi, _, _, _ => by simp at hi
  | k :: ks, 0, 0, _, _, _, _, _, _, _, _ => rfl
  | k :: ks, 0, j + 1, a, b, n, hn, hi, hj, hna, hnb => by
    simp only [List.getElem?_cons_zero, Option.some.injEq, List.getElem?_cons_succ] at hi hj
    subst hi
    exact (nodup_flatMap_head F hn (List.mem_of_getElem? hj) hna hnb).elim
  | k :: ks, i + 1, 0, a, b, n, hn, hi, hj, hna, hnb => by
    simp only [List.getElem?_cons_zero, Option.some.injEq, List.getElem?_cons_succ] at hi hj
    subst hj
    exact (nodup_flatMap_head F hn (List.mem_of_getElem? hi) hnb hna).elim
  | k :: ks, i + 1, j + 1, a, b, n, hn, hi, hj, hna, hnb => by
    simp only [List.getElem?_cons_succ] at hi hj
    simp only [List.flatMap_cons, List.nodup_append] at hn
    rw [idx_eq_of_common F ks i j a b n hn.2.1 hi hj hna hnb]

/-- two nodes sharing a token lie on one root-to-token line -/
theorem comparable_of_common_token (n : Nat) : ∀ (p q : Path) (t a b : Tree), t.leafNums.Nodup →
    get? t p = some a → get? t q = some b → n ∈ a.leafNums → n ∈ b.leafNums → p <+: q ∨ q <+: p
  | [], _, _, _, _, _, _, _, _, _ => Or.inl List.nil_prefix
  | _ :: _, [], _, _, _, _, _, _, _, _ => Or.inr List.nil_prefix
  | i :: p, j :: q, .leaf _ _, _, _, _, hp, _, _, _ => by simp [get?] at hp
  | i :: p, j :: q, .node f ks, a, b, hnd, hp, hq, hna, hnb => by
    simp only [get?] at hp hq
    cases hki : ks[i]? with
    | none => simp [hki] at hp
    | some k1 =>
      cases hkj : ks[j]? with
      | none => simp [hkj] at hq
      | some k2 =>
        simp only [hki, hkj] at hp hq
        rw [leafNums_node] at hnd
        have h1 := (leafNums_sublist_get? p k1 a hp).subset hna
        have h2 := (leafNums_sublist_get? q k2 b hq).subset hnb
        have hij := idx_eq_of_common leafNums ks i j k1 k2 n hnd hki hkj h1 h2
        subst hij
        rw [hki] at hkj
        cases hkj
        have hk1 : k1.leafNums.Nodup :=
          (List.sublist_flatten_of_mem (List.mem_map_of_mem (List.mem_of_getElem? hki)) :
            k1.leafNums.Sublist (ks.flatMap leafNums)).nodup hnd
        rcases comparable_of_common_token n p q k1 a b hk1 hp hq hna hnb with h | h
        · exact Or.inl (List.cons_prefix_cons.2 ⟨rfl, h⟩)
        · exact Or.inr (List.cons_prefix_cons.2 ⟨rfl, h⟩)

theorem leafNums_sublist_of_prefix {t : Tree} {z x : Path} {a b : Tree} (hzx : z <+: x)
    (hz : get? t z = some a) (hx : get? t x = some b) : b.leafNums.Sublist a.leafNums := by
  obtain ⟨r, rfl⟩ := hzx
  rw [get?_append, hz] at hx
  exact leafNums_sublist_get? r a b hx

theorem exists_longest {α} : ∀ (l : List (List α)), l ≠ [] → ∃ x ∈ l, ∀ y ∈ l, y.length ≤ x.length
  | [], h => absurd rfl h
  | [a], _ => ⟨a, by simp, by simp⟩
  | a :: b :: l, _ => by
    obtain ⟨x, hx, hmax⟩ := exists_longest (b :: l) (by simp)
    by_cases h : x.length ≤ a.length
    · refine ⟨a, by simp, ?_⟩
      intro y hy
      rcases List.mem_cons.1 hy with rfl | hy
      · exact Nat.le_refl _
      · exact Nat.le_trans (hmax y hy) h
    · refine ⟨x, List.mem_cons_of_mem _ hx, ?_⟩
      intro y hy
      rcases List.mem_cons.1 hy with rfl | hy
      · omega
      · exact hmax y hy

/-- with an empty buffer, a deepest item has its sibling among the items -/
theorem sibling_is_item {t : Tree} (H : GapHyp t) {L : List Path} {C : GCfg} {s d : List Path}
    (hinv : SInv t s d [] C) (hL : ∀ x, x ∈ L ↔ x ∈ s ++ d)
    (hcl : ∀ x ∈ L, Climbed t x) {x : Path} (hx : x ∈ L) (hmax : ∀ y ∈ L, y.length ≤ x.length) (hx0 : x ≠ []) :
    ∃ y ∈ L, y ≠ x ∧ parentP y = parentP x := by
  have hvalid : ∀ z ∈ s ++ d, ∃ a, get? t z = some a := by
    intro z hz
    obtain ⟨r, _, a, ha, _⟩ : ∃ r, r ∈ C.s ++ C.d ∧ IR t z r := by
      have h2 : ∀ {l1 : List Path} {l2 : List Tree}, All2 (IR t) l1 l2 → ∀ z ∈ l1, ∃ r, r ∈ l2 ∧ IR t z r := by
        intro l1 l2 h
        induction h with
        | nil => intro z hz; simp at hz
        | cons hab _ ih =>
          intro z hz
          rcases List.mem_cons.1 hz with rfl | hz
          · exact ⟨_, List.mem_cons_self, hab⟩
          · obtain ⟨r, hr, h⟩ := ih z hz; exact ⟨r, List.mem_cons_of_mem _ hr, h⟩
      exact h2 (hinv.hs.append hinv.hd) z hz
    exact ⟨a, ha⟩
  have hpcov := hinv.pcov
  rw [List.append_nil] at hpcov
  have hnd : ((s ++ d).flatMap (numsAt t)).Nodup := hpcov.symm.nodup H.nd
  rcases List.eq_nil_or_concat x with rfl | ⟨q, i, rfl⟩
  · exact absurd rfl hx0
  rw [List.concat_eq_append] at hx hmax hx0 ⊢
  obtain ⟨ax, hax⟩ := hvalid _ ((hL _).1 hx)
  obtain ⟨f, ks, hq, hki⟩ := get?_concat_some hax
  obtain ⟨hlen, _, hkne, _⟩ := node_facts H hq
  have har : ks.length ≠ 1 := by
    intro h1
    exact hcl _ hx q (parentP_concat q i) (by simp [arityAt, hq, kids, h1])
  have hi := (List.getElem?_eq_some_iff.1 hki).1
  have hl2 : ks.length = 2 := by omega
  -- the sibling
  have hj : 1 - i < ks.length := by omega
  have hij : 1 - i ≠ i := by omega
  have hkj : ks[1 - i]? = some ks[1 - i] := List.getElem?_eq_getElem hj
  have hy : get? t (q ++ [1 - i]) = some ks[1 - i] := by
    rw [get?_concat, hq]; simp [kids]
  obtain ⟨n, hn⟩ := List.exists_mem_of_ne_nil _ (hkne _ (List.mem_of_getElem? hkj))
  have hnt : n ∈ t.leafNums := (leafNums_sublist_get? _ t _ hy).subset hn
  obtain ⟨z, hz, hnz⟩ := List.mem_flatMap.1 (hpcov.symm.subset hnt)
  obtain ⟨az, haz⟩ := hvalid z hz
  rw [numsAt_of_get? haz] at hnz
  have hzy : z = q ++ [1 - i] := by
    rcases comparable_of_common_token n z (q ++ [1 - i]) t az _ H.nd haz hy hnz hn with h | h
    · rcases List.prefix_concat_iff.1 h with h | h
      · exact h
      · -- a proper ancestor of the sibling is an ancestor of `x` as well
        exfalso
        have hzx : z <+: q ++ [i] := h.trans (List.prefix_append q [i])
        have hsub := leafNums_sublist_of_prefix hzx haz hax
        obtain ⟨m, hm⟩ := List.exists_mem_of_ne_nil _ (hkne _ (List.mem_of_getElem? hki))
        have hmz : m ∈ numsAt t z := by rw [numsAt_of_get? haz]; exact hsub.subset hm
        have hmx : m ∈ numsAt t (q ++ [i]) := by rw [numsAt_of_get? hax]; exact hm
        have := eq_of_mem_flatMap_nodup (numsAt t) (s ++ d) hnd z hz _ ((hL _).1 hx) m hmz hmx
        have hl := h.length_le
        rw [this] at hl
        simp at hl
        omega
    · have hl := hmax z ((hL z).2 hz)
      exact (h.eq_of_length_le (by simpa using hl)).symm
  refine ⟨q ++ [1 - i], (hL _).2 (hzy ▸ hz), ?_, by rw [parentP_concat, parentP_concat]⟩
  intro h
  have := List.append_cancel_left h
  simp at this
  exact hij this


/-! ### the loop invariant for totality -/

/-- every node except the root carries a head mark -/
def HeadsP (t : Tree) : Prop := ∀ p s, p ≠ [] → get? t p = some s → s.fields.head.isSome = true

theorem HeadsP_of (t : Tree) (hh : ∀ s ∈ t.subtrees, s ≠ t → s.fields.head.isSome) : HeadsP t := by
  intro p s hp hs
  refine hh s (mem_subtrees_get? p t s hs) ?_
  rintro rfl
  have := height_get?_le p s s hs
  have : 0 < p.length := List.length_pos_iff.2 hp
  omega

/-- strictly decreasing along the loop: buffer, number of items, and one unit for "a GAP is still allowed" -/
def gmeasure (c : GapCfg) : Nat :=
  4 * c.b.length + 2 * (c.s.length + c.d.length) + (if c.d.length ≤ 1 then 1 else 0)

def terminated (c : GapCfg) : Bool := c.s.isEmpty && c.b.isEmpty && c.d.length == 1

structure TInv (t : Tree) (c : GapCfg) : Prop where
  sinv : ∃ C, SInv t c.s c.d c.b C
  climbed : ∀ x ∈ c.d ++ c.s, Climbed t x
  nosib : ∀ x ∈ c.d.tail ++ c.s, ∀ y ∈ c.d.tail ++ c.s, x ≠ y → parentP x ≠ parentP y
  phase : (c.d = [] ∧ c.s = []) ∨ (∃ d0, c.d = [d0]) ∨
    (∃ d0 ds s0 ss, c.d = d0 :: ds ∧ c.s = s0 :: ss ∧ parentP d0 = parentP s0)
  nt : terminated c = false

/-- what one `gapStep` establishes (before the unary loop) -/
structure TStep (t : Tree) (c c1 : GapCfg) : Prop where
  sub : ∀ x ∈ c1.d.tail ++ c1.s, x ∈ c.d ++ c.s
  nosib : ∀ x ∈ c1.d.tail ++ c1.s, ∀ y ∈ c1.d.tail ++ c1.s, x ≠ y → parentP x ≠ parentP y
  phase : (∃ x, c1.d = [x]) ∨
    (∃ d0 ds s0 ss, c1.d = d0 :: ds ∧ c1.s = s0 :: ss ∧ parentP d0 = parentP s0 ∧ Climbed t d0)
  meas : gmeasure c1 < gmeasure c

theorem parentP_eq_none {q : Path} (h : parentP q = none) : q = [] := by
  unfold parentP at h
  split at h
  · rename_i he; simpa using he
  · cases h

/-! forward computation of `gapStep` -/

theorem gapStep_reduce_eq {t : Tree} {s0 d0 p : Path} {ss ds b : List Path} {out : List Action} {h h' : Bool}
    (hpar : parentP d0 = parentP s0) (h1 : headAt t s0 = some h) (h2 : headAt t d0 = some h')
    (h3 : parentP s0 = some p) :
    gapStep t ⟨s0 :: ss, d0 :: ds, b, out⟩ = .ok ⟨ds.reverse ++ ss, [p], b, .r h (labelAt t p) :: out⟩ := by
  simp [gapStep, hpar, h1, h2, h3]

theorem gapStep_gap_eq {t : Tree} {s0 d0 : Path} {ss ds b : List Path} {out : List Action} {i : Nat}
    (hpar : parentP d0 ≠ parentP s0)
    (hi : (s0 :: ss).findIdx? (fun n => parentP n == parentP d0) = some i) :
    gapStep t ⟨s0 :: ss, d0 :: ds, b, out⟩ =
      .ok ⟨(s0 :: ss).drop i, (d0 :: ds) ++ (s0 :: ss).take i, b, List.replicate i .gap ++ out⟩ := by
  simp only [gapStep, beq_iff_eq, hpar, if_false, hi]

theorem gapStep_shift_eq1 {t : Tree} {s bs : List Path} {x : Path} {out : List Action} :
    gapStep t ⟨s, [], x :: bs, out⟩ = .ok ⟨s, [x], bs, .shift :: out⟩ := by
  cases s <;> simp [gapStep, gapStep.shiftStep]

theorem gapStep_shift_eq2 {t : Tree} {d0 x : Path} {ds bs : List Path} {out : List Action} :
    gapStep t ⟨[], d0 :: ds, x :: bs, out⟩ = .ok ⟨(d0 :: ds).reverse ++ [], [x], bs, .shift :: out⟩ := by
  simp [gapStep, gapStep.shiftStep, gapStep.ignore]

theorem gapStep_shift_eq3 {t : Tree} {s0 d0 x : Path} {ss ds bs : List Path} {out : List Action}
    (hpar : parentP d0 ≠ parentP s0)
    (hi : (s0 :: ss).findIdx? (fun n => parentP n == parentP d0) = none) :
    gapStep t ⟨s0 :: ss, d0 :: ds, x :: bs, out⟩ =
      .ok ⟨(d0 :: ds).reverse ++ (s0 :: ss), [x], bs, .shift :: out⟩ := by
  simp only [gapStep, beq_iff_eq, hpar, if_false, hi, gapStep.shiftStep]


theorem SInv.valid_s {t : Tree} {s0 : Path} {ss d b : List Path} {C : GCfg} (h : SInv t (s0 :: ss) d b C) :
    ∃ a, get? t s0 = some a := by
  obtain ⟨_, _, _, ⟨a, ha, _⟩, _⟩ := h.hs.cons_left
  exact ⟨a, ha⟩

theorem SInv.valid_d {t : Tree} {d0 : Path} {s ds b : List Path} {C : GCfg} (h : SInv t s (d0 :: ds) b C) :
    ∃ a, get? t d0 = some a := by
  obtain ⟨_, _, _, ⟨a, ha, _⟩, _⟩ := h.hd.cons_left
  exact ⟨a, ha⟩

/-- the stack top and the deque top never share a token -/
theorem SInv.no_overlap {t : Tree} (H : GapHyp t) {s0 d0 : Path} {ss ds b : List Path} {C : GCfg}
    (h : SInv t (s0 :: ss) (d0 :: ds) b C) {n : Nat} (h1 : n ∈ numsAt t s0) (h2 : n ∈ numsAt t d0) : False := by
  have hnd := h.pcov.symm.nodup H.nd
  simp only [List.cons_append] at hnd
  exact nodup_flatMap_head (numsAt t) hnd (b := d0) (by simp) h1 h2

theorem numsAt_ne_nil {t : Tree} (H : GapHyp t) {p : Path} {a : Tree} (h : get? t p = some a) : numsAt t p ≠ [] := by
  rw [numsAt_of_get? h]
  exact noEmpty_leafNums_ne_nil a (noEmpty_get? p t a H.ne h)

theorem headAt_some {t : Tree} (HH : HeadsP t) {p : Path} {a : Tree} (hp : p ≠ []) (h : get? t p = some a) :
    ∃ hd, headAt t p = some hd := by
  have := HH p a hp h
  obtain ⟨hd, hhd⟩ := Option.isSome_iff_exists.1 this
  exact ⟨hd, by simp [headAt, h, hhd]⟩

/-- REDUCE fires whenever stack top and deque top are siblings -/
theorem progress_reduce {t : Tree} (H : GapHyp t) (HH : HeadsP t) {s0 d0 : Path} {ss ds b : List Path}
    {out : List Action} (hinv : TInv t ⟨s0 :: ss, d0 :: ds, b, out⟩) (hpar : parentP d0 = parentP s0) :
    ∃ c1, gapStep t ⟨s0 :: ss, d0 :: ds, b, out⟩ = .ok c1 ∧ TStep t ⟨s0 :: ss, d0 :: ds, b, out⟩ c1 := by
  obtain ⟨C, hS⟩ := hinv.sinv
  obtain ⟨a, ha⟩ := hS.valid_s
  obtain ⟨a', ha'⟩ := hS.valid_d
  have hs0 : s0 ≠ [] := by
    rintro rfl
    have hd0 : d0 = [] := parentP_eq_none (by rw [hpar]; rfl)
    subst hd0
    obtain ⟨n, hn⟩ := List.exists_mem_of_ne_nil _ (numsAt_ne_nil H ha)
    exact hS.no_overlap H hn hn
  obtain ⟨p, hp⟩ : ∃ p, parentP s0 = some p := by
    cases hq : parentP s0 with
    | none => exact absurd (parentP_eq_none hq) hs0
    | some p => exact ⟨p, rfl⟩
  have hd0 : d0 ≠ [] := by
    rintro rfl
    rw [hp] at hpar
    cases hpar
  obtain ⟨h, hh⟩ := headAt_some HH hs0 ha
  obtain ⟨h', hh'⟩ := headAt_some HH hd0 ha'
  refine ⟨_, gapStep_reduce_eq hpar hh hh' hp, ⟨?_, ?_, Or.inl ⟨p, rfl⟩, ?_⟩⟩
  · intro x hx
    simp only [List.tail_cons, List.nil_append, List.mem_append, List.mem_reverse] at hx
    simp only [List.mem_append, List.mem_cons]
    rcases hx with h | h
    · exact Or.inl (Or.inr h)
    · exact Or.inr (Or.inr h)
  · have hsub : ∀ z, z ∈ ([p] : List Path).tail ++ (ds.reverse ++ ss) → z ∈ (d0 :: ds).tail ++ (s0 :: ss) := by
      intro z hz
      simp only [List.tail_cons, List.nil_append, List.mem_append, List.mem_reverse, List.mem_cons] at hz ⊢
      rcases hz with h | h
      · exact Or.inl h
      · exact Or.inr (Or.inr h)
    intro x hx y hy
    exact hinv.nosib x (hsub x hx) y (hsub y hy)
  · simp only [gmeasure, List.length_append, List.length_reverse, List.length_cons, List.length_nil]
    split <;> omega


/-- GAP: the sibling of the deque top is found below the stack top -/
theorem progress_gap {t : Tree} {s0 d0 : Path} {ss b : List Path} {out : List Action} {i : Nat}
    (hinv : TInv t ⟨s0 :: ss, [d0], b, out⟩) (hpar : parentP d0 ≠ parentP s0)
    (hi : (s0 :: ss).findIdx? (fun n => parentP n == parentP d0) = some i) :
    ∃ c1, gapStep t ⟨s0 :: ss, [d0], b, out⟩ = .ok c1 ∧ TStep t ⟨s0 :: ss, [d0], b, out⟩ c1 := by
  obtain ⟨hlt, hpi, hmin⟩ := List.findIdx?_eq_some_iff_getElem.1 hi
  have hi0 : i ≠ 0 := by
    rintro rfl
    simp only [List.getElem_cons_zero, beq_iff_eq] at hpi
    exact hpar hpi.symm
  have htd : (s0 :: ss).take i ++ (s0 :: ss).drop i = s0 :: ss := List.take_append_drop _ _
  refine ⟨_, gapStep_gap_eq hpar hi, ⟨?_, ?_, Or.inr ⟨d0, (s0 :: ss).take i, (s0 :: ss)[i], (s0 :: ss).drop (i + 1),
    rfl, List.drop_eq_getElem_cons hlt, (eq_of_beq hpi).symm, hinv.climbed d0 (by simp)⟩, ?_⟩⟩
  · intro x hx
    simp only [List.cons_append, List.nil_append, List.tail_cons] at hx
    rw [htd] at hx
    exact List.mem_append_right _ hx
  · intro x hx y hy
    simp only [List.cons_append, List.nil_append, List.tail_cons] at hx hy
    rw [htd] at hx hy
    exact hinv.nosib x (by simpa using hx) y (by simpa using hy)
  · simp only [gmeasure, List.length_append, List.length_cons, List.length_nil, List.length_take,
      List.length_drop] at hlt ⊢
    have : min i (ss.length + 1) = i := by omega
    rw [this]
    split <;> split <;> omega

/-- the contradiction behind totality: buffer empty, more than one item, and nothing to reduce or gap -/
theorem no_stuck {t : Tree} (H : GapHyp t) {s0 d0 : Path} {ss : List Path} {out : List Action}
    (hinv : TInv t ⟨s0 :: ss, [d0], [], out⟩) (hpar : parentP d0 ≠ parentP s0)
    (hi : (s0 :: ss).findIdx? (fun n => parentP n == parentP d0) = none) : False := by
  obtain ⟨C, hS⟩ := hinv.sinv
  have hnone : ∀ x ∈ s0 :: ss, parentP x ≠ parentP d0 := by
    intro x hx h
    have := List.findIdx?_eq_none_iff.1 hi x hx
    simp [h] at this
  obtain ⟨x, hx, hmax⟩ := exists_longest (d0 :: s0 :: ss) (by simp)
  have hx0 : x ≠ [] := by
    rintro rfl
    have h1 := hmax s0 (by simp)
    have h2 := hmax d0 (by simp)
    simp only [List.length_nil, Nat.le_zero, List.length_eq_zero_iff] at h1 h2
    subst h1 h2
    exact hpar rfl
  have hL : ∀ z, z ∈ d0 :: s0 :: ss ↔ z ∈ (s0 :: ss) ++ [d0] := by
    intro z; simp only [List.mem_cons, List.mem_append, List.mem_nil_iff, or_false]
    constructor
    · rintro (h | h | h)
      · exact Or.inr h
      · exact Or.inl (Or.inl h)
      · exact Or.inl (Or.inr h)
    · rintro ((h | h) | h)
      · exact Or.inr (Or.inl h)
      · exact Or.inr (Or.inr h)
      · exact Or.inl h
  have hcl : ∀ z ∈ d0 :: s0 :: ss, Climbed t z := fun z hz => hinv.climbed z (by simpa using hz)
  obtain ⟨y, hy, hyx, hpy⟩ := sibling_is_item H hS hL hcl hx hmax hx0
  have hnosib := hinv.nosib
  simp only [List.tail_cons, List.nil_append] at hnosib
  rcases List.mem_cons.1 hx with rfl | hxs
  · rcases List.mem_cons.1 hy with rfl | hys
    · exact hyx rfl
    · exact hnone y hys hpy
  · rcases List.mem_cons.1 hy with rfl | hys
    · exact hnone x hxs hpy.symm
    · exact hnosib y hys x hxs hyx hpy

theorem progress_shift3 {t : Tree} (H : GapHyp t) {s0 d0 : Path} {ss b : List Path} {out : List Action}
    (hinv : TInv t ⟨s0 :: ss, [d0], b, out⟩) (hpar : parentP d0 ≠ parentP s0)
    (hi : (s0 :: ss).findIdx? (fun n => parentP n == parentP d0) = none) :
    ∃ c1, gapStep t ⟨s0 :: ss, [d0], b, out⟩ = .ok c1 ∧ TStep t ⟨s0 :: ss, [d0], b, out⟩ c1 := by
  cases b with
  | nil => exact (no_stuck H hinv hpar hi).elim
  | cons x bs =>
    have hnone : ∀ z ∈ s0 :: ss, parentP z ≠ parentP d0 := by
      intro z hz h
      have := List.findIdx?_eq_none_iff.1 hi z hz
      simp [h] at this
    have hnosib := hinv.nosib
    simp only [List.tail_cons, List.nil_append] at hnosib
    refine ⟨_, gapStep_shift_eq3 hpar hi, ⟨?_, ?_, Or.inl ⟨x, rfl⟩, ?_⟩⟩
    · intro z hz
      simpa using hz
    · intro a ha b' hb' hab
      simp only [List.tail_cons, List.nil_append, List.reverse_cons, List.reverse_nil, List.cons_append,
        List.mem_cons] at ha hb'
      rcases ha with rfl | ha <;> rcases hb' with rfl | hb'
      · exact absurd rfl hab
      · exact fun h => hnone b' (List.mem_cons.2 hb') h.symm
      · exact hnone a (List.mem_cons.2 ha)
      · exact hnosib a (List.mem_cons.2 ha) b' (List.mem_cons.2 hb') hab
    · simp only [gmeasure, List.length_append, List.length_reverse, List.length_cons, List.length_nil]
      split <;> omega

theorem progress_shift2 {t : Tree} {d0 : Path} {b : List Path} {out : List Action}
    (hinv : TInv t ⟨[], [d0], b, out⟩) :
    ∃ c1, gapStep t ⟨[], [d0], b, out⟩ = .ok c1 ∧ TStep t ⟨[], [d0], b, out⟩ c1 := by
  cases b with
  | nil => have := hinv.nt; simp [terminated] at this
  | cons x bs =>
    refine ⟨_, gapStep_shift_eq2, ⟨?_, ?_, Or.inl ⟨x, rfl⟩, ?_⟩⟩
    · intro z hz; simpa using hz
    · intro a ha b' hb' hab
      simp only [List.tail_cons, List.nil_append, List.reverse_cons, List.reverse_nil, List.append_nil,
        List.mem_singleton] at ha hb'
      exact absurd (ha.trans hb'.symm) hab
    · simp only [gmeasure, List.length_append, List.length_reverse, List.length_cons, List.length_nil]
      split <;> omega

theorem progress_shift1 {t : Tree} (H : GapHyp t) {b : List Path} {out : List Action}
    (hinv : TInv t ⟨[], [], b, out⟩) :
    ∃ c1, gapStep t ⟨[], [], b, out⟩ = .ok c1 ∧ TStep t ⟨[], [], b, out⟩ c1 := by
  cases b with
  | nil =>
    obtain ⟨C, hS⟩ := hinv.sinv
    have := hS.pcov
    simp only [List.append_nil, List.flatMap_nil] at this
    exact absurd this.symm.eq_nil (noEmpty_leafNums_ne_nil t H.ne)
  | cons x bs =>
    refine ⟨_, gapStep_shift_eq1, ⟨?_, ?_, Or.inl ⟨x, rfl⟩, ?_⟩⟩
    · intro z hz; simp at hz
    · intro a ha; simp at ha
    · simp [gmeasure]; omega

/-- one `gapStep` always succeeds under the invariant -/
theorem progress {t : Tree} (H : GapHyp t) (HH : HeadsP t) {c : GapCfg} (hinv : TInv t c) :
    ∃ c1, gapStep t c = .ok c1 ∧ TStep t c c1 := by
  obtain ⟨s, d, b, out⟩ := c
  cases d with
  | nil =>
    have hs : s = [] := by
      rcases hinv.phase with ⟨_, h⟩ | ⟨_, h⟩ | ⟨_, _, _, _, h, _⟩
      · exact h
      · cases h
      · cases h
    subst hs
    exact progress_shift1 H hinv
  | cons d0 ds =>
    cases s with
    | nil =>
      have hds : ds = [] := by
        rcases hinv.phase with ⟨h, _⟩ | ⟨_, h⟩ | ⟨_, _, _, _, _, h, _⟩
        · cases h
        · cases h; rfl
        · cases h
      subst hds
      exact progress_shift2 hinv
    | cons s0 ss =>
      by_cases hpar : parentP d0 = parentP s0
      · exact progress_reduce H HH hinv hpar
      · have hds : ds = [] := by
          rcases hinv.phase with ⟨h, _⟩ | ⟨_, h⟩ | ⟨_, _, _, _, h1, h2, h3⟩
          · cases h
          · cases h; rfl
          · cases h1; cases h2; exact absurd h3 hpar
        subst hds
        cases hi : (s0 :: ss).findIdx? (fun n => parentP n == parentP d0) with
        | none => exact progress_shift3 H hinv hpar hi
        | some i => exact progress_gap hinv hpar hi


/-- one full iteration (step + unary loop): the measure drops and the invariant holds again unless the
    loop's termination test succeeds -/
theorem gap_iter {t : Tree} (H : GapHyp t) (HH : HeadsP t) {c : GapCfg} (hinv : TInv t c) :
    ∃ c1, gapStep t c = .ok c1 ∧ gmeasure (unaryClimb t (t.size + 1) c1) < gmeasure c ∧
      (terminated (unaryClimb t (t.size + 1) c1) = true ∨ TInv t (unaryClimb t (t.size + 1) c1)) := by
  obtain ⟨c1, hstep, hT⟩ := progress H HH hinv
  obtain ⟨C, hS⟩ := hinv.sinv
  obtain ⟨_, C1, _, _, hS1⟩ := gapStep_sound H hstep hS
  obtain ⟨_, C2, _, _, hS2⟩ := unaryClimb_sound H (t.size + 1) c1 C1 hS1
  obtain ⟨hs2, hb2, _, hd2⟩ := unaryClimb_spec t (t.size + 1) c1
  -- the deque of `c1` is never empty
  obtain ⟨d0, ds, hd1⟩ : ∃ d0 ds, c1.d = d0 :: ds := by
    rcases hT.phase with ⟨x, h⟩ | ⟨d0, ds, _, _, h, _⟩
    · exact ⟨x, [], h⟩
    · exact ⟨d0, ds, h⟩
  obtain ⟨d0', hd0', _, hcl, hnoop⟩ := hd2 d0 ds hd1
  have hvalid : ∃ a, get? t d0 = some a := by
    rw [hd1] at hS1; exact hS1.valid_d
  obtain ⟨a, ha⟩ := hvalid
  have hclimbed : Climbed t d0' := hcl (by have := length_le_size_of_get? t a d0 ha; omega)
  refine ⟨c1, hstep, ?_, ?_⟩
  · have : gmeasure (unaryClimb t (t.size + 1) c1) = gmeasure c1 := by
      simp only [gmeasure, hs2, hb2, hd0', hd1, List.length_cons]
    rw [this]; exact hT.meas
  · cases hterm : terminated (unaryClimb t (t.size + 1) c1) with
    | true => exact Or.inl rfl
    | false =>
      refine Or.inr ⟨⟨C2, hS2⟩, ?_, ?_, ?_, hterm⟩
      · intro x hx
        rw [hd0', hs2] at hx
        rcases List.mem_append.1 hx with hx | hx
        · rcases List.mem_cons.1 hx with rfl | hx
          · exact hclimbed
          · exact hinv.climbed x (hT.sub x (by rw [hd1]; simp [hx]))
        · exact hinv.climbed x (hT.sub x (by simp [hx]))
      · rw [hd0', hs2]
        have := hT.nosib
        rw [hd1] at this
        exact this
      · rcases hT.phase with ⟨x, h⟩ | ⟨e0, es, s0, ss, h1, h2, h3, h4⟩
        · rw [hd1] at h
          cases h
          exact Or.inr (Or.inl ⟨d0', hd0'⟩)
        · rw [hd1] at h1
          cases h1
          rw [hnoop h4]
          exact Or.inr (Or.inr ⟨d0, ds, s0, ss, hd1, h2, h3⟩)

theorem gmeasure_pos (c : GapCfg) : 0 < gmeasure c := by
  unfold gmeasure
  split <;> omega

theorem gapLoop_total {t : Tree} (H : GapHyp t) (HH : HeadsP t) : ∀ (fuel : Nat) (c : GapCfg), TInv t c →
    gmeasure c ≤ fuel → ∃ acts, gapLoop t fuel c = .ok acts
  | 0, c, _, hm => by have := gmeasure_pos c; omega
  | fuel + 1, c, hinv, hm => by
    obtain ⟨c1, hstep, hlt, hcase⟩ := gap_iter H HH hinv
    unfold gapLoop
    rw [hstep]
    simp only
    have hterm : ((unaryClimb t (t.size + 1) c1).s.isEmpty && (unaryClimb t (t.size + 1) c1).b.isEmpty &&
        (unaryClimb t (t.size + 1) c1).d.length == 1) = terminated (unaryClimb t (t.size + 1) c1) := rfl
    rw [hterm]
    cases ht : terminated (unaryClimb t (t.size + 1) c1) with
    | true => exact ⟨(unaryClimb t (t.size + 1) c1).out.reverse, by simp⟩
    | false =>
      rcases hcase with h | h
      · rw [ht] at h; cases h
      · obtain ⟨acts, hacts⟩ := gapLoop_total H HH fuel _ h (by omega)
        exact ⟨acts, by simpa using hacts⟩

mutual
theorem leaves_length_le_size : (t : Tree) → (leaves t).length ≤ size t
  | .leaf _ _ => by simp [leaves, size]
  | .node _ ks => by
    have := leavesL_length_le_sizeL ks
    show (leavesL ks).length ≤ 1 + sizeL ks
    omega
theorem leavesL_length_le_sizeL : (ts : List Tree) → (leavesL ts).length ≤ sizeL ts
  | [] => by simp [leavesL, sizeL]
  | t :: ts => by
    have h1 := leaves_length_le_size t
    have h2 := leavesL_length_le_sizeL ts
    show (leaves t ++ leavesL ts).length ≤ size t + sizeL ts
    rw [List.length_append]; omega
end

theorem terminalPaths_length_le (t : Tree) : (terminalPaths t).length ≤ size t := by
  have h1 := (init_all2 t).length_eq
  rw [h1, tokenLeaves_eq, List.length_map]
  unfold terminals
  rw [sortBy_length]
  exact leaves_length_le_size t

/-- totality: on a well-formed, at most binary, head-marked tree the oracle returns a sequence within its fuel -/
theorem gap_total (t : Tree) (H : GapHyp t) (HH : HeadsP t) : ∃ acts, gapOracle t = .ok acts := by
  unfold gapOracle
  refine gapLoop_total H HH _ _ ⟨⟨{ s := [], d := [], b := tokenLeaves t },
    ⟨.nil, .nil, init_all2 t, by simpa using init_cov t⟩⟩, ?_, ?_, Or.inl ⟨rfl, rfl⟩, ?_⟩ ?_
  · intro x hx; simp at hx
  · intro x hx; simp at hx
  · simp [terminated]
  · have h1 := terminalPaths_length_le t
    have h2 : t.size ≤ t.size * t.size := Nat.le_mul_self _
    simp only [gmeasure, List.length_nil]
    have h3 : 4 * t.size * t.size = 4 * (t.size * t.size) := Nat.mul_assoc _ _ _
    rw [h3]
    split <;> omega


end TT.Lemmas.Trans
