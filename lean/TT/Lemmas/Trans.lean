/-
  Helper lemmas for C10 (transition oracles replay to the tree): textual round trip, counting,
  continuity ("the sentence of a node is the concatenation of its ordered children's sentences"),
  a relational form of `agrees`, and the stack-generalised simulations of the in-order and the
  top-down automaton.  Core only (no Mathlib).
-/
import TT.Spec.Replay
import TT.Spec.Transform
import TT.Transform.Binarize
import TT.Lemmas.Sort
import TT.Lemmas.Nav
import TT.Lemmas.WF
namespace TT.Lemmas.Trans
open TT TT.Tree TT.Spec TT.Lemmas.WF TT.Lemmas.Nav

/-! ### textual form of a transition
  (`Action.toStr` is only ever unfolded by `rfl`: generating its equation lemmas forces the
  elaborator to evaluate string literals, which is very slow) -/

theorem sl1 : "SHIFT".toList = ['S','H','I','F','T'] := rfl
theorem sl2 : "REDUCE".toList = ['R','E','D','U','C','E'] := rfl
theorem sl3 : "GAP".toList = ['G','A','P'] := rfl
theorem sl4 : "UNARY-".toList = ['U','N','A','R','Y','-'] := rfl
theorem sl5 : "BINARY-LEFT-".toList = ['B','I','N','A','R','Y','-','L','E','F','T','-'] := rfl
theorem sl6 : "BINARY-RIGHT-".toList = ['B','I','N','A','R','Y','-','R','I','G','H','T','-'] := rfl
theorem sl7 : "PJ-".toList = ['P','J','-'] := rfl
theorem sl8 : "R-LEFT-".toList = ['R','-','L','E','F','T','-'] := rfl
theorem sl9 : "R-RIGHT-".toList = ['R','-','R','I','G','H','T','-'] := rfl
theorem ln4 : "UNARY-".length = 6 := by decide
theorem ln5 : "BINARY-LEFT-".length = 12 := by decide
theorem ln6 : "BINARY-RIGHT-".length = 13 := by decide
theorem ln7 : "PJ-".length = 3 := by decide
theorem ln8 : "R-LEFT-".length = 7 := by decide
theorem ln9 : "R-RIGHT-".length = 8 := by decide
theorem toStr_unary (l : Str) : (Action.unary l).toStr = ['U','N','A','R','Y','-'] ++ l := rfl
theorem toStr_binary_t (l : Str) : (Action.binary true l).toStr = ['B','I','N','A','R','Y','-','L','E','F','T','-'] ++ l := rfl
theorem toStr_binary_f (l : Str) : (Action.binary false l).toStr = ['B','I','N','A','R','Y','-','R','I','G','H','T','-'] ++ l := rfl
theorem toStr_pj (l : Str) : (Action.pj l).toStr = ['P','J','-'] ++ l := rfl
theorem toStr_r_t (l : Str) : (Action.r true l).toStr = ['R','-','L','E','F','T','-'] ++ l := rfl
theorem toStr_r_f (l : Str) : (Action.r false l).toStr = ['R','-','R','I','G','H','T','-'] ++ l := rfl

theorem parseAction_def (s : Str) : parseAction s =
  if s = ['S','H','I','F','T'] then some .shift
  else if s = ['R','E','D','U','C','E'] then some .reduce
  else if s = ['G','A','P'] then some .gap
  else if ['U','N','A','R','Y','-'].isPrefixOf s then some (.unary (s.drop 6))
  else if ['B','I','N','A','R','Y','-','L','E','F','T','-'].isPrefixOf s then some (.binary true (s.drop 12))
  else if ['B','I','N','A','R','Y','-','R','I','G','H','T','-'].isPrefixOf s then some (.binary false (s.drop 13))
  else if ['P','J','-'].isPrefixOf s then some (.pj (s.drop 3))
  else if ['R','-','L','E','F','T','-'].isPrefixOf s then some (.r true (s.drop 7))
  else if ['R','-','R','I','G','H','T','-'].isPrefixOf s then some (.r false (s.drop 8))
  else none := by
  rfl


/-! ### monadic map -/

theorem mapM_ok_length {α β ε} (f : α → Except ε β) : ∀ (l : List α) (r : List β),
    l.mapM f = .ok r → r.length = l.length
  | [], r, h => by
    simp only [List.mapM_nil] at h
    cases h; rfl
  | a :: l, r, h => by
    rw [List.mapM_cons] at h
    cases hfa : f a with
    | error e => rw [hfa] at h; cases h
    | ok b =>
      cases hl : l.mapM f with
      | error e => rw [hfa, hl] at h; cases h
      | ok r' =>
        rw [hfa, hl] at h
        cases h
        simp [mapM_ok_length f l r' hl]


/-! ### intervals -/

theorem range'_of_gapCount : ∀ (l : List Nat) (a : Nat), gapCount (a :: l) = 0 →
    (a :: l).Pairwise (· < ·) → a :: l = List.range' a (l.length + 1)
  | [], a, _, _ => rfl
  | b :: l, a, hg, hp => by
    simp only [gapCount] at hg
    have hab : a < b := (List.pairwise_cons.1 hp).1 b List.mem_cons_self
    have hb : b = a + 1 := by
      by_cases h : a + 1 < b
      · simp [h] at hg
      · omega
    have hg' : gapCount (b :: l) = 0 := by omega
    have ih := range'_of_gapCount l b hg' (List.pairwise_cons.1 hp).2
    show a :: b :: l = List.range' a (l.length + 1 + 1)
    rw [List.range'_succ, ← hb, ← ih]

theorem yield_length (t : Tree) : (yield t).length = t.leafNums.length := (yield_perm t).length_eq

theorem yield_strict (t : Tree) (hn : t.leafNums.Nodup) : (yield t).Pairwise (· < ·) := by
  have hs := yield_sorted t
  have hd : (yield t).Nodup := (yield_perm t).symm.nodup hn
  rw [List.Nodup] at hd
  exact (hs.and hd).imp (fun ⟨h1, h2⟩ => Nat.lt_of_le_of_ne h1 h2)

/-- a gap-free node with distinct tokens covers an interval -/
theorem yield_interval (t : Tree) (hn : t.leafNums.Nodup) (hg : gapCount (yield t) = 0) :
    yield t = List.range' (leftmost t) t.leafNums.length := by
  have hlen := yield_length t
  have hs := yield_strict t hn
  unfold leftmost
  cases hy : yield t with
  | nil => rw [hy] at hlen; simp at hlen; simp [← hlen]
  | cons a l =>
    rw [hy] at hlen hs hg
    rw [← hlen]
    simpa using range'_of_gapCount l a hg hs

theorem mem_leafNums_iff_of_interval (t : Tree) (hn : t.leafNums.Nodup) (hg : gapCount (yield t) = 0) (n : Nat) :
    n ∈ t.leafNums ↔ leftmost t ≤ n ∧ n < leftmost t + t.leafNums.length := by
  rw [← mem_yield, yield_interval t hn hg, List.mem_range'_1]

/-! ### continuity -/

theorem continuous_gap (t : Tree) (h : continuous t = true) : gapCount (yield t) = 0 := by
  simp only [continuous, List.all_eq_true, beq_iff_eq] at h
  have := h t (self_mem_subtrees t)
  cases t with
  | leaf n f => simp [yield, terminals, leaves, sortBy, insertBy, gapCount]
  | node f ks => exact this

theorem continuous_kid (f : Fields) (ks : List Tree) (h : continuous (node f ks) = true) (k : Tree) (hk : k ∈ ks) :
    continuous k = true := by
  simp only [continuous, List.all_eq_true] at h ⊢
  intro s hs
  exact h s ((mem_subtrees_node f ks s).2 (Or.inr ⟨k, hk, hs⟩))

theorem eq_of_mem_flatMap_nodup {α β} (F : α → List β) : ∀ (ks : List α), (ks.flatMap F).Nodup →
    ∀ a ∈ ks, ∀ b ∈ ks, ∀ n, n ∈ F a → n ∈ F b → a = b
  | [], _, a, ha, _, _, _, _, _ => by simp at ha
  | k :: ks, hn, a, ha, b, hb, n, hna, hnb => by
    simp only [List.flatMap_cons, List.nodup_append] at hn
    obtain ⟨_, hn2, hdis⟩ := hn
    rcases List.mem_cons.1 ha with rfl | ha' <;> rcases List.mem_cons.1 hb with rfl | hb'
    · rfl
    · exact absurd rfl (hdis n hna n (List.mem_flatMap.2 ⟨b, hb', hnb⟩))
    · exact absurd rfl (hdis n hnb n (List.mem_flatMap.2 ⟨a, ha', hna⟩))
    · exact eq_of_mem_flatMap_nodup F ks hn2 a ha' b hb' n hna hnb

theorem mem_terminals (t x : Tree) : x ∈ terminals t ↔ x ∈ leaves t := mem_sortBy num _ x

theorem num_mem_leafNums (t x : Tree) (h : x ∈ leaves t) : num x ∈ t.leafNums :=
  List.mem_map_of_mem h

/-- the sentence below a node whose children are gap-free is the concatenation of the children's
    sentences, children ordered by leftmost token -/
theorem terminals_node_cont (f : Fields) (ks : List Tree) (hne : ∀ k ∈ ks, k.leafNums ≠ [])
    (hn : (ks.flatMap leafNums).Nodup) (hg : ∀ k ∈ ks, gapCount (yield k) = 0) :
    terminals (node f ks) = (sortBy leftmost ks).flatMap terminals := by
  unfold terminals
  rw [leaves_node]
  have hknd : ∀ k ∈ ks, k.leafNums.Nodup := fun k hk =>
    (List.sublist_flatten_of_mem (List.mem_map_of_mem hk) : k.leafNums.Sublist (ks.flatMap leafNums)).nodup hn
  refine sortBy_eq_of_perm_sorted num _ _ ?_ ?_ ?_
  · exact ((sortBy_perm leftmost ks).symm.flatMap_right leaves).trans
      (perm_flatMap_of_forall _ _ _ (fun k _ => (sortBy_perm num k.leaves).symm))
  · rw [List.map_flatMap]; exact hn
  · rw [List.pairwise_flatMap]
    refine ⟨fun k _ => sortBy_sorted num _, ?_⟩
    have hst := sortBy_strict leftmost ks (map_leftmost_nodup ks hne hn)
    refine hst.imp_of_mem ?_
    intro a b ha hb hab x hx y hy
    rw [mem_sortBy] at ha hb
    have hxa : num x ∈ a.leafNums := num_mem_leafNums a x ((mem_sortBy num _ x).1 hx)
    have hyb : num y ∈ b.leafNums := num_mem_leafNums b y ((mem_sortBy num _ y).1 hy)
    apply Nat.le_of_not_lt
    intro hlt
    have h1 := (mem_leafNums_iff_of_interval a (hknd a ha) (hg a ha) (num x)).1 hxa
    have h2 := leftmost_le b (num y) hyb
    have hya : num y ∈ a.leafNums :=
      (mem_leafNums_iff_of_interval a (hknd a ha) (hg a ha) (num y)).2 ⟨by omega, by omega⟩
    have := eq_of_mem_flatMap_nodup leafNums ks hn a ha b hb (num y) hya hyb
    subst this
    omega
/-! ### pointwise related lists -/

inductive All2 {α β} (R : α → β → Prop) : List α → List β → Prop
  | nil : All2 R [] []
  | cons {a b as bs} : R a b → All2 R as bs → All2 R (a :: as) (b :: bs)

theorem All2.imp {α β} {R S : α → β → Prop} (h : ∀ a b, R a b → S a b) :
    ∀ {l1 l2}, All2 R l1 l2 → All2 S l1 l2
  | _, _, .nil => .nil
  | _, _, .cons hab t => .cons (h _ _ hab) (All2.imp h t)

theorem All2.map_right {α β γ} {R : α → β → Prop} {S : α → γ → Prop} (g : β → γ) (h : ∀ a b, R a b → S a (g b)) :
    ∀ {l1 l2}, All2 R l1 l2 → All2 S l1 (l2.map g)
  | _, _, .nil => .nil
  | _, _, .cons hab t => .cons (h _ _ hab) (All2.map_right g h t)

theorem All2.mem_right {α β} {R : α → β → Prop} : ∀ {l1 l2}, All2 R l1 l2 → ∀ b ∈ l2, ∃ a ∈ l1, R a b
  | _, _, .nil, b, hb => by simp at hb
  | _, _, .cons hab t, b, hb => by
    rcases List.mem_cons.1 hb with rfl | hb
    · exact ⟨_, List.mem_cons_self, hab⟩
    · obtain ⟨a, ha, h⟩ := All2.mem_right t b hb
      exact ⟨a, List.mem_cons_of_mem _ ha, h⟩

theorem All2.append {α β} {R : α → β → Prop} : ∀ {l1 l2 m1 m2}, All2 R l1 l2 → All2 R m1 m2 →
    All2 R (l1 ++ m1) (l2 ++ m2)
  | _, _, _, _, .nil, h => h
  | _, _, _, _, .cons hab t, h => .cons hab (All2.append t h)

theorem All2.sorted {α β} {R : α → β → Prop} (ka : α → Nat) (kb : β → Nat) (hk : ∀ a b, R a b → kb b = ka a) :
    ∀ {l1 l2}, All2 R l1 l2 → l1.Pairwise (fun x y => ka x ≤ ka y) → l2.Pairwise (fun x y => kb x ≤ kb y)
  | _, _, .nil, _ => List.Pairwise.nil
  | _, _, .cons hab t, hp => by
    rw [List.pairwise_cons] at hp ⊢
    refine ⟨?_, All2.sorted ka kb hk t hp.2⟩
    intro b' hb'
    obtain ⟨a', ha', h'⟩ := All2.mem_right t b' hb'
    rw [hk _ _ hab, hk _ _ h']
    exact hp.1 a' ha'

theorem All2.flatMap_perm {α β γ} {R : α → β → Prop} (F : α → List γ) (G : β → List γ)
    (h : ∀ a b, R a b → (G b).Perm (F a)) : ∀ {l1 l2}, All2 R l1 l2 → (l2.flatMap G).Perm (l1.flatMap F)
  | _, _, .nil => List.Perm.refl _
  | _, _, .cons hab t => by
    simp only [List.flatMap_cons]
    exact (h _ _ hab).append (All2.flatMap_perm F G h t)

/-! ### normal forms and `agrees` -/

theorem sortKidsL_eq : ∀ ks : List Tree, sortKidsL ks = ks.map sortKids
  | [] => rfl
  | t :: ts => by simp [sortKidsL, sortKidsL_eq ts]

theorem sortBy_id_congr {l l' : List Nat} (hp : l.Perm l') : sortBy id l = sortBy id l' := by
  refine List.Perm.eq_of_pairwise (le := fun a b => a ≤ b) ?_ (sortBy_sorted id l) (sortBy_sorted id l')
    ((sortBy_perm id l).trans (hp.trans (sortBy_perm id l').symm))
  intro a b _ _ h1 h2
  exact Nat.le_antisymm h1 h2

theorem leftmost_of_perm (t t' : Tree) (h : t'.leafNums.Perm t.leafNums) : leftmost t' = leftmost t := by
  unfold leftmost
  rw [yield_eq, yield_eq, sortBy_id_congr h]

theorem sortKids_leafNums (t : Tree) : (sortKids t).leafNums.Perm t.leafNums := by
  induction t using tree_ind with
  | hl n f => simp [sortKids]
  | hn f ks ih =>
    rw [sortKids, sortKidsL_eq, leafNums_node, leafNums_node]
    refine ((sortBy_perm leftmost _).flatMap_right leafNums).trans ?_
    rw [List.flatMap_map]
    exact perm_flatMap_of_forall _ _ _ ih

theorem leftmost_sortKids (t : Tree) : leftmost (sortKids t) = leftmost t :=
  leftmost_of_perm _ _ (sortKids_leafNums t)

theorem sortKids_node (f : Fields) (ks : List Tree) :
    sortKids (node f ks) = node f ((sortBy leftmost ks).map sortKids) := by
  rw [sortKids, sortKidsL_eq, sortBy_map leftmost leftmost sortKids leftmost_sortKids]

theorem sortKids_setFields (t : Tree) (g : Fields → Fields) :
    sortKids (setFields t g) = setFields (sortKids t) g := by
  cases t <;> simp [setFields, sortKids]

theorem leafNums_setFields (t : Tree) (g : Fields → Fields) : (setFields t g).leafNums = t.leafNums := by
  cases t with
  | leaf n f => simp [setFields, leafNums_leaf]
  | node f ks => simp [setFields, leafNums_node]

theorem agreesS_clearHead (a b : Tree) (h : agreesS a b = true) : agreesS a (clearHead b) = true := by
  cases a <;> cases b <;> simp_all [agreesS, clearHead, setFields]

theorem agreesS_withHead (a b : Tree) (hd : Bool) (h : agreesS a b = true) (hh : a.fields.head = some hd) :
    agreesS a (withHead hd b) = true := by
  cases a <;> cases b <;> simp_all [agreesS, withHead, setFields, fields]

theorem fields_sortKids (t : Tree) : (sortKids t).fields = t.fields := by
  cases t <;> simp [sortKids, fields]

theorem agreesSL_of_all2 : ∀ {l1 l2 : List Tree}, All2 (fun a b => agreesS a b = true) l1 l2 → agreesSL l1 l2 = true
  | _, _, .nil => rfl
  | _, _, .cons hab t => by simp [agreesSL, hab, agreesSL_of_all2 t]

/-- the rebuilt tree `r` stands for the original `s` -/
def Rel (s r : Tree) : Prop := agreesS (sortKids s) (sortKids r) = true ∧ r.leafNums.Perm s.leafNums

theorem Rel.leftmost {s r : Tree} (h : Rel s r) : leftmost r = leftmost s := leftmost_of_perm _ _ h.2

theorem Rel.clearHead {s r : Tree} (h : Rel s r) : Rel s (clearHead r) := by
  refine ⟨?_, ?_⟩
  · rw [TT.Spec.clearHead, sortKids_setFields]; exact agreesS_clearHead _ _ h.1
  · rw [TT.Spec.clearHead, leafNums_setFields]; exact h.2

theorem Rel.withHead {s r : Tree} (h : Rel s r) (hd : Bool) (hh : s.fields.head = some hd) : Rel s (withHead hd r) := by
  refine ⟨?_, ?_⟩
  · rw [TT.Spec.withHead, sortKids_setFields]
    exact agreesS_withHead _ _ hd h.1 (by rw [fields_sortKids]; exact hh)
  · rw [TT.Spec.withHead, leafNums_setFields]; exact h.2

theorem Rel.agrees {s r : Tree} (h : Rel s r) : agrees s r = true := h.1

/-- rebuilding a constituent from rebuilt children, given in the order of the original's children -/
theorem Rel_mkNode (f : Fields) (ks rs : List Tree) (h : All2 Rel (sortBy leftmost ks) rs) :
    Rel (node f ks) (mkNode f.label rs) := by
  have hsorted : rs.Pairwise (fun x y => leftmost x ≤ leftmost y) :=
    All2.sorted leftmost leftmost (fun _ _ h => h.leftmost) h (sortBy_sorted leftmost ks)
  refine ⟨?_, ?_⟩
  · rw [mkNode, sortKids_node, sortKids_node, sortBy_of_sorted leftmost rs hsorted]
    simp only [agreesS, beq_self_eq_true, Option.isNone_none, Bool.true_or, Bool.true_and]
    apply agreesSL_of_all2
    have := All2.map_right (S := fun a b => agreesS (sortKids a) b = true) sortKids (fun a b (h : Rel a b) => h.1) h
    clear h hsorted
    generalize sortBy leftmost ks = cs at this
    generalize rs.map sortKids = rs' at this
    induction this with
    | nil => exact .nil
    | cons hab _ ih => exact .cons hab ih
  · rw [mkNode, leafNums_node, leafNums_node]
    exact (All2.flatMap_perm leafNums leafNums (fun _ _ h => h.2) h).trans
      ((sortBy_perm leftmost ks).flatMap_right leafNums)
theorem inorderK_eq : ∀ ks : List Tree, inorderK ks = ks.map fun t => (leftmost t, inorderAux t)
  | [] => by simp [inorderK]
  | t :: ts => by simp [inorderK, inorderK_eq ts]

theorem inorderAux_node (f : Fields) (ks : List Tree) :
    inorderAux (node f ks) =
      match sortBy leftmost ks with
      | [] => [.pj f.label, .reduce]
      | c :: cs => inorderAux c ++ [.pj f.label] ++ cs.flatMap inorderAux ++ [.reduce] := by
  have h := sortBy_map_keyed leftmost inorderAux ks
  rw [← inorderK_eq] at h
  rw [inorderAux]
  cases hs : sortBy leftmost ks with
  | nil =>
    rw [hs] at h
    cases hk : sortBy (fun (p : Nat × List Action) => p.1) (inorderK ks) with
    | nil => rfl
    | cons a as => rw [hk] at h; simp at h
  | cons c cs =>
    rw [hs] at h
    cases hk : sortBy (fun (p : Nat × List Action) => p.1) (inorderK ks) with
    | nil => rw [hk] at h; simp at h
    | cons a as =>
      rw [hk] at h
      simp only [List.map_cons, List.cons.injEq] at h
      simp only [h.1, h.2, List.flatMap]


/-! ### the sentence as fresh tokens -/

def tok (l : Tree) : Tree := leaf l.num { label := l.fields.label, word := l.fields.word }

theorem tokenLeaves_eq (t : Tree) : tokenLeaves t = t.terminals.map tok := rfl

theorem tokenLeaves_leaf (n : Nat) (f : Fields) :
    tokenLeaves (leaf n f) = [leaf n { label := f.label, word := f.word }] := rfl

theorem Rel_leaf (n : Nat) (f : Fields) : Rel (leaf n f) (leaf n { label := f.label, word := f.word }) := by
  refine ⟨?_, ?_⟩
  · simp [sortKids, agreesS]
  · simp [leafNums_leaf]

/-- hypotheses inherited by every subtree of a well-formed continuous tree -/
def Good (s : Tree) : Prop := s.noEmpty = true ∧ s.leafNums.Nodup ∧ continuous s = true

theorem Good.kid {f : Fields} {ks : List Tree} (h : Good (node f ks)) {k : Tree} (hk : k ∈ ks) : Good k :=
  ⟨noEmpty_of_mem_kids f ks k h.1 hk, (leafNums_sublist_of_mem f ks k hk).nodup h.2.1,
    continuous_kid f ks h.2.2 k hk⟩

theorem Good.ne_nil {f : Fields} {ks : List Tree} (h : Good (node f ks)) : ks ≠ [] :=
  ((noEmpty_node f ks).1 h.1).1

theorem tokenLeaves_node {f : Fields} {ks : List Tree} (h : Good (node f ks)) :
    tokenLeaves (node f ks) = (sortBy leftmost ks).flatMap tokenLeaves := by
  rw [tokenLeaves_eq, terminals_node_cont f ks
    (fun k hk => noEmpty_leafNums_ne_nil k (h.kid hk).1)
    (by have := h.2.1; rwa [leafNums_node] at this)
    (fun k hk => continuous_gap k (h.kid hk).2.2), List.map_flatMap]
  rfl

theorem Good_of_WF (t : Tree) (hwf : WF t = true) (hc : continuous t = true) : Good t :=
  ⟨WF_noEmpty t hwf, WF_nodup t hwf, hc⟩

/-! ### in-order automaton -/

theorem popToMark_trees (l : Str) (rest : List Item) : ∀ (xs : List Tree) (acc : List Tree),
    popToMark (xs.map Item.tree ++ Item.mark l :: rest) acc = some (l, xs.reverse ++ acc, rest)
  | [], acc => by simp [popToMark]
  | x :: xs, acc => by
    simp only [List.map_cons, List.cons_append, popToMark, popToMark_trees l rest xs (x :: acc)]
    simp

theorem foldlM_append_of {σ α} {f : σ → α → Option σ} {a b : σ} {l1 l2 : List α}
    (h : l1.foldlM f a = some b) : (l1 ++ l2).foldlM f a = l2.foldlM f b := by
  rw [List.foldlM_append, h]; rfl

theorem foldlM_cons_of {σ α} {f : σ → α → Option σ} {a b : σ} {x : α} {l : List α}
    (h : f a x = some b) : (x :: l).foldlM f a = l.foldlM f b := by
  rw [List.foldlM_cons, h]; rfl

theorem foldlM_nil_some {σ α} {f : σ → α → Option σ} {a : σ} : ([] : List α).foldlM f a = some a := rfl

/-- what running the in-order sequence of `s` does on any stack and buffer suffix -/
def IoRun (s : Tree) : Prop := ∀ (stack : List Item) (rest : List Tree), ∃ r,
  (inorderAux s).foldlM ioStep (stack, tokenLeaves s ++ rest) = some (Item.tree r :: stack, rest) ∧ Rel s r

theorem io_run_list : ∀ (cs : List Tree), (∀ c ∈ cs, IoRun c) → ∀ (stack : List Item) (rest : List Tree),
    ∃ rs, (cs.flatMap inorderAux).foldlM ioStep (stack, cs.flatMap tokenLeaves ++ rest) =
      some (rs.reverse.map Item.tree ++ stack, rest) ∧ All2 Rel cs rs
  | [], _, stack, rest => ⟨[], by simp, .nil⟩
  | c :: cs, h, stack, rest => by
    obtain ⟨r, hr, hrel⟩ := h c List.mem_cons_self stack (cs.flatMap tokenLeaves ++ rest)
    obtain ⟨rs, hrs, hrels⟩ := io_run_list cs (fun c' hc' => h c' (List.mem_cons_of_mem _ hc'))
      (Item.tree r :: stack) rest
    refine ⟨r :: rs, ?_, .cons hrel hrels⟩
    simp only [List.flatMap_cons, List.append_assoc]
    rw [foldlM_append_of hr, hrs]
    simp

theorem io_run (s : Tree) : Good s → IoRun s := by
  induction s using tree_ind with
  | hl n f =>
    intro _ stack rest
    exact ⟨_, by simp [inorderAux, tokenLeaves_leaf, ioStep], Rel_leaf n f⟩
  | hn f ks ih =>
    intro hg stack rest
    have hne := hg.ne_nil
    have hp := sortBy_perm leftmost ks
    rw [inorderAux_node, tokenLeaves_node hg]
    cases hs : sortBy leftmost ks with
    | nil => rw [hs] at hp; exact absurd hp.symm.eq_nil hne
    | cons c cs =>
      have hmem : ∀ x ∈ c :: cs, x ∈ ks := fun x hx => (mem_sortBy leftmost ks x).1 (hs ▸ hx)
      obtain ⟨r, hr, hrel⟩ := ih c (hmem c List.mem_cons_self) (hg.kid (hmem c List.mem_cons_self)) stack
        (cs.flatMap tokenLeaves ++ rest)
      obtain ⟨rs, hrs, hrels⟩ := io_run_list cs
        (fun x hx => ih x (hmem x (List.mem_cons_of_mem _ hx)) (hg.kid (hmem x (List.mem_cons_of_mem _ hx))))
        (Item.mark f.label :: Item.tree r :: stack) rest
      refine ⟨mkNode f.label ((r :: rs).map clearHead), ?_, ?_⟩
      · simp only [List.flatMap_cons, List.append_assoc]
        rw [foldlM_append_of hr, List.singleton_append,
          foldlM_cons_of (b := (Item.mark f.label :: Item.tree r :: stack, cs.flatMap tokenLeaves ++ rest)) rfl,
          foldlM_append_of hrs, foldlM_cons_of (b := (Item.tree (mkNode f.label ((r :: rs).map clearHead)) :: stack, rest)),
          foldlM_nil_some]
        simp only [ioStep, popToMark_trees, List.reverse_reverse, List.append_nil]
      · apply Rel_mkNode
        rw [hs]
        exact All2.map_right clearHead (fun _ _ h => h.clearHead) (.cons hrel hrels)

/-! ### top-down automaton -/

theorem mapM_cons_ok {α β ε} {f : α → Except ε β} {a : α} {l : List α} {b : β} {r : List β}
    (ha : f a = .ok b) (hl : l.mapM f = .ok r) : (a :: l).mapM f = .ok (b :: r) := by
  rw [List.mapM_cons, ha, hl]; rfl

theorem mapM_append_ok {α β ε} {f : α → Except ε β} {l1 l2 : List α} {r1 r2 : List β}
    (h1 : l1.mapM f = .ok r1) (h2 : l2.mapM f = .ok r2) : (l1 ++ l2).mapM f = .ok (r1 ++ r2) := by
  rw [List.mapM_append, h1, h2]; rfl

theorem maxArityL_le : ∀ (ks : List Tree) (n : Nat), maxArityL ks ≤ n → ∀ k ∈ ks, maxArity k ≤ n
  | [], _, _, k, hk => by simp at hk
  | t :: ts, n, h, k, hk => by
    simp only [maxArityL] at h
    rcases List.mem_cons.1 hk with rfl | hk
    · omega
    · exact maxArityL_le ts n (by omega) k hk

theorem maxArity_node_le {f : Fields} {ks : List Tree} {n : Nat} (h : maxArity (node f ks) ≤ n) :
    ks.length ≤ n ∧ ∀ k ∈ ks, maxArity k ≤ n := by
  simp only [maxArity] at h
  exact ⟨by omega, maxArityL_le ks n (by omega)⟩

/-- both children of every binary node carry a head mark -/
def HeadsOK (s : Tree) : Prop :=
  ∀ x ∈ subtrees s, ∀ f ks, x = node f ks → ks.length = 2 → ∀ k ∈ ks, k.fields.head.isSome = true

theorem HeadsOK_of (t : Tree)
    (hh : ∀ s ∈ t.subtrees, ∀ f a b, s = node f [a, b] → a.fields.head.isSome ∧ b.fields.head.isSome) :
    HeadsOK t := by
  intro x hx f ks hxe hlen k hk
  match ks, hlen, hk with
  | [a, b], _, hk =>
    have := hh x hx f a b hxe
    rcases List.mem_cons.1 hk with rfl | hk
    · exact this.1
    · rw [List.mem_singleton.1 hk]; exact this.2

theorem HeadsOK.kid {f : Fields} {ks : List Tree} (h : HeadsOK (node f ks)) {k : Tree} (hk : k ∈ ks) : HeadsOK k :=
  fun x hx => h x ((mem_subtrees_node f ks x).2 (Or.inr ⟨k, hk, hx⟩))

def TdRun (s : Tree) : Prop := ∀ (stack rest : List Tree), ∃ acts r,
  (preorder s).mapM topdownAct = .ok acts ∧
  acts.reverse.foldlM tdStep (stack, (tokenLeaves s).reverse ++ rest) = some (r :: stack, rest) ∧ Rel s r

theorem td_run (s : Tree) : Good s → maxArity s ≤ 2 → HeadsOK s → TdRun s := by
  induction s using tree_ind with
  | hl n f =>
    intro _ _ _ stack rest
    refine ⟨[.shift], _, rfl, ?_, Rel_leaf n f⟩
    simp [tokenLeaves_leaf, tdStep]
  | hn f ks ih =>
    intro hg hb hh stack rest
    have hne := hg.ne_nil
    have hp := sortBy_perm leftmost ks
    have hlen := sortBy_length leftmost ks
    obtain ⟨hb1, hbk⟩ := maxArity_node_le hb
    rw [preorder_unfold, tokenLeaves_node hg]
    simp only [children, kids]
    have hact : topdownAct (node f ks) = match sortBy leftmost ks with
        | [] => .ok .shift
        | [_] => .ok (.unary f.label)
        | [a, _] => match a.fields.head with
          | some h => .ok (.binary h f.label)
          | none => .error .valueError
        | _ => .error .valueError := rfl
    rcases hs : sortBy leftmost ks with _ | ⟨a, _ | ⟨b, _ | ⟨c, more⟩⟩⟩
    · rw [hs] at hp; exact absurd hp.symm.eq_nil hne
    · -- unary
      have ha : a ∈ ks := (mem_sortBy leftmost ks a).1 (hs ▸ List.mem_cons_self)
      obtain ⟨acts, r, hm, hr, hrel⟩ := ih a ha (hg.kid ha) (hbk a ha) (hh.kid ha) stack rest
      rw [hs] at hact
      refine ⟨.unary f.label :: acts, mkNode f.label [clearHead r], ?_, ?_, ?_⟩
      · simp only [List.flatMap_cons, List.flatMap_nil, List.append_nil]
        exact mapM_cons_ok hact hm
      · simp only [List.flatMap_cons, List.flatMap_nil, List.append_nil, List.reverse_cons]
        rw [foldlM_append_of hr, foldlM_cons_of (b := (mkNode f.label [clearHead r] :: stack, rest)) rfl]
        rfl
      · apply Rel_mkNode
        rw [hs]
        exact .cons hrel.clearHead .nil
    · -- binary
      have ha : a ∈ ks := (mem_sortBy leftmost ks a).1 (hs ▸ List.mem_cons_self)
      have hb' : b ∈ ks := (mem_sortBy leftmost ks b).1 (hs ▸ List.mem_cons_of_mem _ List.mem_cons_self)
      have hl2 : ks.length = 2 := by rw [← hlen, hs]; rfl
      have hha := hh _ (self_mem_subtrees _) f ks rfl hl2 a ha
      obtain ⟨hd, hhd⟩ := Option.isSome_iff_exists.1 hha
      obtain ⟨actsb, rb, hmb, hrb, hrelb⟩ := ih b hb' (hg.kid hb') (hbk b hb') (hh.kid hb') stack
        ((tokenLeaves a).reverse ++ rest)
      obtain ⟨actsa, ra, hma, hra, hrela⟩ := ih a ha (hg.kid ha) (hbk a ha) (hh.kid ha) (rb :: stack) rest
      rw [hs] at hact
      simp only [hhd] at hact
      refine ⟨.binary hd f.label :: (actsa ++ actsb), mkNode f.label [withHead hd ra, clearHead rb], ?_, ?_, ?_⟩
      · simp only [List.flatMap_cons, List.flatMap_nil, List.append_nil]
        exact mapM_cons_ok hact (mapM_append_ok hma hmb)
      · simp only [List.flatMap_cons, List.flatMap_nil, List.append_nil, List.reverse_cons, List.reverse_append,
          List.append_assoc]
        rw [foldlM_append_of hrb, foldlM_append_of hra,
          foldlM_cons_of (b := (mkNode f.label [withHead hd ra, clearHead rb] :: stack, rest)) rfl]
        rfl
      · apply Rel_mkNode
        rw [hs]
        exact .cons (hrela.withHead hd hhd) (.cons hrelb.clearHead .nil)
    · rw [hs] at hlen; simp at hlen; omega


/-! ### counting transitions -/

theorem countP_flatMap_of {α β} (p : β → Bool) (F : α → List β) (g : α → Nat) :
    ∀ ks : List α, (∀ k ∈ ks, (F k).countP p = g k) → (ks.flatMap F).countP p = (ks.map g).sum
  | [], _ => by simp
  | k :: ks, h => by
    simp only [List.flatMap_cons, List.countP_append, List.map_cons, List.sum_cons]
    rw [h k List.mem_cons_self, countP_flatMap_of p F g ks (fun k' hk' => h k' (List.mem_cons_of_mem _ hk'))]

theorem countP_inorderAux_node (p : Action → Bool) (f : Fields) (ks : List Tree) (hne : ks ≠ []) :
    (inorderAux (node f ks)).countP p =
      (ks.flatMap inorderAux).countP p + (if p (.pj f.label) then 1 else 0) + (if p .reduce then 1 else 0) := by
  rw [inorderAux_node]
  have hp := sortBy_perm leftmost ks
  cases hs : sortBy leftmost ks with
  | nil => rw [hs] at hp; exact absurd hp.symm.eq_nil hne
  | cons c cs =>
    rw [hs] at hp
    have := (hp.flatMap_right inorderAux).countP_eq p
    rw [← this]
    simp only [List.flatMap_cons, List.countP_append, List.countP_cons, List.countP_nil]
    omega

theorem inorder_counts_aux (t : Tree) : t.noEmpty = true →
    (inorderAux t).countP (· == .shift) = t.leafNums.length ∧
    (inorderAux t).countP (· == .reduce) = (t.subtrees.countP (fun s => !s.isLeaf)) := by
  induction t using tree_ind with
  | hl n f => intro _; simp [inorderAux, leafNums_leaf, subtrees, isLeaf]
  | hn f ks ih =>
    intro h
    obtain ⟨hne, hk⟩ := (noEmpty_node f ks).1 h
    rw [countP_inorderAux_node _ f ks hne, countP_inorderAux_node _ f ks hne]
    rw [countP_flatMap_of _ inorderAux (fun k => k.leafNums.length) ks (fun k hk' => (ih k hk' (hk k hk')).1)]
    rw [countP_flatMap_of _ inorderAux (fun k => k.subtrees.countP (fun s => !s.isLeaf)) ks
      (fun k hk' => (ih k hk' (hk k hk')).2)]
    rw [leafNums_node, subtrees, subtreesL_eq, List.length_flatMap, List.countP_cons, List.countP_flatMap]
    simp [isLeaf, Function.comp_def]

end TT.Lemmas.Trans
