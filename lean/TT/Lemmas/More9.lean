/-
  Helper lemmas of wave 9 (PinnedMore): the condition `consWordsClean` ("no constituent carries a punctuation mark as its
  `word` entry") read structurally, and its invariance under the re-attachment steps of `punctuation_verylow`.
-/
import TT.Spec.Pinned
import TT.Transform.Punct
import TT.Lemmas.WF
import TT.Lemmas.Binarize
import TT.Lemmas.Punct
namespace TT.Lemmas.More9
open TT TT.Tree TT.Spec
open TT.Lemmas.WF TT.Lemmas.Punct

/-! ### `consWordsClean`, structurally -/

theorem clean_leaf (n : Nat) (f : Fields) : consWordsClean (leaf n f) = true := by
  simp [consWordsClean, subtrees, isLeaf]

theorem clean_node (f : Fields) (ks : List Tree) :
    consWordsClean (node f ks) = (!(isPunctWordP (node f [])) && ks.all consWordsClean) := by
  unfold consWordsClean
  rw [TT.Lemmas.Binarize.all_subtrees_node]
  simp [isLeaf, isPunctWordP, fields]

theorem clean_of_isLeaf (x : Tree) (h : x.isLeaf = true) : consWordsClean x = true := by
  cases x with
  | leaf n f => exact clean_leaf n f
  | node f ks => simp [isLeaf] at h

theorem clean_iff (t : Tree) :
    consWordsClean t = true ↔ ∀ s ∈ t.subtrees, s.isLeaf = false → isPunctWordP s = false := by
  simp only [consWordsClean, List.all_eq_true, Bool.or_eq_true, Bool.not_eq_true']
  constructor
  · intro h s hs hl
    rcases h s hs with h1 | h1
    · rw [hl] at h1; cases h1
    · exact h1
  · intro h s hs
    cases hl : s.isLeaf with
    | true => exact Or.inl rfl
    | false => exact Or.inr (h s hs hl)

/-- subtrees of a subtree -/
theorem subtrees_trans (t : Tree) : ∀ s ∈ subtrees t, ∀ r ∈ subtrees s, r ∈ subtrees t := by
  induction t using tree_ind with
  | hl n f => intro s hs; simp [subtrees] at hs; subst hs; exact fun r h => h
  | hn f ks ih =>
    intro s hs r hr
    rcases (mem_subtrees_node f ks s).1 hs with rfl | ⟨k, hk, hsk⟩
    · exact hr
    · exact (mem_subtrees_node f ks r).2 (Or.inr ⟨k, hk, ih k hk s hsk r hr⟩)

/-- the children of the parent of a token are subtrees of the tree -/
theorem parentOfLeaf_kid_mem_subtrees (j : Nat) (t p k : Tree) (h : parentOfLeaf j t = some p) (hk : k ∈ p.kids) :
    k ∈ subtrees t := by
  obtain ⟨hs, f, ks, rfl, _⟩ := parentOfLeaf_spec j t p h
  exact subtrees_trans t _ hs k ((mem_subtrees_node f ks k).2 (Or.inr ⟨k, hk, self_mem_subtrees k⟩))

/-- on a clean tree a child of a parent is a punctuation token iff its `word` entry is a punctuation mark -/
theorem clean_kid (t : Tree) (h : consWordsClean t = true) (k : Tree) (hk : k ∈ subtrees t) :
    (k.isLeaf && isPunctWordP k) = isPunctWordP k := by
  cases hl : k.isLeaf with
  | true => simp
  | false => simp [(clean_iff t).1 h k hk hl]

/-! ### the re-attachment steps keep `consWordsClean` -/

mutual
theorem removeLeaf_clean (k : Nat) : (t : Tree) → consWordsClean (removeLeaf k t) = consWordsClean t
  | .leaf n f => by simp [removeLeaf]
  | .node f ks => by simp only [removeLeaf, clean_node, removeLeafL_clean k ks]
theorem removeLeafL_clean (k : Nat) : (ks : List Tree) →
    (removeLeafL k ks).all consWordsClean = ks.all consWordsClean
  | [] => by simp [removeLeafL]
  | .leaf n f :: ts => by
    by_cases h : n = k
    · simp [removeLeafL, h, clean_leaf]
    · simp [removeLeafL, h, clean_leaf, removeLeafL_clean k ts]
  | .node f ks :: ts => by
    simp only [removeLeafL, List.all_cons, clean_node, removeLeafL_clean k ks, removeLeafL_clean k ts]
end

mutual
theorem appendBeside_clean (j : Nat) (x : Tree) (hx : consWordsClean x = true) :
    (t : Tree) → consWordsClean (appendBeside j x t) = consWordsClean t
  | .leaf n f => by simp [appendBeside]
  | .node f ks => by
    simp only [appendBeside]
    split
    · simp [clean_node, hx]
    · simp only [clean_node, appendBesideL_clean j x hx ks]
theorem appendBesideL_clean (j : Nat) (x : Tree) (hx : consWordsClean x = true) :
    (ks : List Tree) → (appendBesideL j x ks).all consWordsClean = ks.all consWordsClean
  | [] => by simp [appendBesideL]
  | t :: ts => by
    simp only [appendBesideL, List.all_cons, appendBeside_clean j x hx t, appendBesideL_clean j x hx ts]
end

theorem clean_of_findLeaf (t : Tree) (k : Nat) (l : Tree) (h : t.findLeaf k = some l) : consWordsClean l = true := by
  obtain ⟨f, rfl⟩ := findLeaf_isLeaf t k l h
  exact clean_leaf k f

theorem moveLeafBeside_clean (t : Tree) (i j : Nat) : consWordsClean (moveLeafBeside t i j) = consWordsClean t := by
  unfold moveLeafBeside
  split
  · rename_i l hl
    rw [appendBeside_clean j l (clean_of_findLeaf t i l hl), removeLeaf_clean]
  · rfl

theorem verylowStep_clean (cur : Tree) (i : Nat) : consWordsClean (verylowStep cur i) = consWordsClean cur := by
  unfold verylowStep
  split
  · rfl
  · split
    · rfl
    · exact moveLeafBeside_clean cur i (i - 1)

theorem foldl_verylowStep_clean : ∀ (cands : List Nat) (cur : Tree),
    consWordsClean (cands.foldl verylowStep cur) = consWordsClean cur
  | [], cur => rfl
  | i :: is, cur => by
    rw [List.foldl_cons, foldl_verylowStep_clean is, verylowStep_clean]

/-- `punctuation_verylow` touches no `word` entry and makes no constituent: cleanliness is kept, on every tree -/
theorem verylow_clean (t : Tree) : consWordsClean (punctuationVerylow t) = consWordsClean t := by
  unfold punctuationVerylow
  exact foldl_verylowStep_clean _ t

theorem rootStep_clean (cur : Tree) (i : Nat) : consWordsClean (rootStep cur i) = consWordsClean cur := by
  unfold rootStep
  split
  · split
    · rename_i l hl
      have hx := clean_of_findLeaf cur i l hl
      have hr := removeLeaf_clean i cur
      cases hc : removeLeaf i cur with
      | leaf n f => rw [hc] at hr; simp only [appendToRoot]; exact hr
      | node f ks =>
        rw [hc] at hr
        simp only [appendToRoot]
        rw [← hr, clean_node, clean_node]
        simp [hx]
    · rfl
  · rfl

theorem foldl_rootStep_clean : ∀ (cands : List Nat) (cur : Tree),
    consWordsClean (cands.foldl rootStep cur) = consWordsClean cur
  | [], cur => rfl
  | i :: is, cur => by
    rw [List.foldl_cons, foldl_rootStep_clean is, rootStep_clean]

/-- the same for `punctuation_root` -/
theorem root_clean (t : Tree) : consWordsClean (punctuationRoot t) = consWordsClean t := by
  unfold punctuationRoot
  exact foldl_rootStep_clean _ t

theorem symPull_clean (first last : Nat) (s : SymState) (i : Nat) (left : Bool) :
    consWordsClean (symPull first last s i left).cur = consWordsClean s.cur := by
  rcases symPull_cases first last s i left with he | ⟨p, cand, _, _, _, _, _, he⟩
  · rw [he]
  · rw [he]; exact moveLeafBeside_clean _ _ _

theorem symStep_clean (first last : Nat) (s : SymState) (i : Nat) :
    consWordsClean (symStep first last s i).cur = consWordsClean s.cur := by
  unfold symStep
  split
  · rfl
  · simp only
    split
    · exact symPull_clean ..
    · rw [symPull_clean, symPull_clean]

theorem foldl_symStep_clean (first last : Nat) : ∀ (cands : List Nat) (s : SymState),
    consWordsClean (cands.foldl (symStep first last) s).cur = consWordsClean s.cur
  | [], s => rfl
  | i :: is, s => by
    rw [List.foldl_cons, foldl_symStep_clean first last is, symStep_clean]

/-- the same for `punctuation_symetrify` -/
theorem sym_clean (relc : Option Str) (t : Tree) : consWordsClean (punctuationSymetrify relc t) = consWordsClean t := by
  unfold punctuationSymetrify
  exact foldl_symStep_clean _ _ _ _

end TT.Lemmas.More9
