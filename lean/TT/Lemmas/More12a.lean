/-
  Helper lemmas of wave 12 (worklist C06 / C08 of the clause audit).
  Part 1: the events of a tree, constituent by constituent and token by token; additive measures of the extracted tables;
          every entry of the extracted grammar / lexicon as a count (T6.1, T6.2).
  Part 2: the model's function and vertical label against the specification's.
  Part 3: C08 - the balance of every symbol under binarization (T8.1), the lexicon mass of a tag and the balance of a
          treebank grammar (T8.2).
  Part 4: a linearization is determined by what it instantiates to (uniqueness for `nodeRuleOK`); invariants of nested
          dictionary updates.
-/
import TT.Spec.Grammar
import TT.Lemmas.Extract
import TT.Lemmas.More7
import TT.Lemmas.More8
import TT.Props.C06
import TT.Props.C07
import TT.Props.C08
namespace TT.Lemmas.More12a
open TT TT.Tree TT.Spec TT.Lemmas.Extract TT.Lemmas.More8 TT.Lemmas.GramBin

/-! ### the events of a tree, constituent by constituent and token by token -/

/-- the rule event of a constituent given with its ancestor path (itself first) -/
def ruleEv (p : Tree × List Tree) : Event := .rule (funcOf p.1) (linOf p.1) (p.2.map vertLabel)
/-- the lexicon event of a token -/
def lexEv (m : Tree) : Event := .lex (m.fields.word.getD []) m.fields.label

theorem consWithCtxL_eq (ctx : List Tree) : ∀ ks : List Tree, consWithCtxL ctx ks = ks.flatMap (consWithCtx ctx)
  | [] => by simp [consWithCtxL]
  | t :: ts => by simp [consWithCtxL, consWithCtxL_eq ctx ts]

theorem consWithCtx_leaf (ctx : List Tree) (n : Nat) (f : Fields) : consWithCtx ctx (leaf n f) = [] := by
  simp [consWithCtx]

theorem consWithCtx_node (ctx : List Tree) (f : Fields) (ks : List Tree) (h : ks ≠ []) :
    consWithCtx ctx (node f ks) =
      (node f ks, node f ks :: ctx) :: ks.flatMap (consWithCtx (node f ks :: ctx)) := by
  have : ks.isEmpty = false := by cases ks <;> simp_all
  simp [consWithCtx, this, consWithCtxL_eq]

theorem consWithCtx_empty (ctx : List Tree) (f : Fields) : consWithCtx ctx (node f []) = [] := by
  simp [consWithCtx]

/-- the nodes that give a lexicon event: tokens, and (outside well-formed trees) childless constituents -/
def lexNodes (t : Tree) : List Tree := t.subtrees.filter fun s => s.kids.isEmpty

theorem lexNodes_leaf (n : Nat) (f : Fields) : lexNodes (leaf n f) = [leaf n f] := by
  simp [lexNodes, subtrees, kids]

theorem lexNodes_node (f : Fields) (ks : List Tree) (h : ks ≠ []) :
    lexNodes (node f ks) = ks.flatMap lexNodes := by
  have : ks.isEmpty = false := by cases ks <;> simp_all
  unfold lexNodes
  rw [subtrees, List.filter_cons, TT.Lemmas.Nav.subtreesL_eq, List.filter_flatMap]
  simp [kids, this]

theorem lexNodes_of_noEmpty (t : Tree) : t.noEmpty = true → lexNodes t = t.leaves := by
  induction t using TT.Lemmas.WF.tree_ind with
  | hl n f => intro _; simp [lexNodes_leaf, leaves]
  | hn f ks ih =>
    intro h
    obtain ⟨hne, hk⟩ := (TT.Lemmas.WF.noEmpty_node f ks).1 h
    rw [lexNodes_node f ks hne, TT.Lemmas.WF.leaves_node]
    rw [List.flatMap_def, List.flatMap_def, List.map_congr_left fun k hkm => ih k hkm (hk k hkm)]

/-- summing any weight over the events of a tree = summing it over the rule events of the constituents
    plus over the lexicon events of the tokens; no hypothesis -/
theorem sum_events (w : Event → Nat) (t : Tree) : ∀ ctx : List Tree,
    ((events (ctx.map vertLabel) t).map w).sum =
      ((consWithCtx ctx t).map fun p => w (ruleEv p)).sum + ((lexNodes t).map fun m => w (lexEv m)).sum := by
  induction t using TT.Lemmas.WF.tree_ind with
  | hl n f => intro ctx; simp [events_leaf, consWithCtx_leaf, lexNodes_leaf, lexEv, fields]
  | hn f ks ih =>
    intro ctx
    by_cases hne : ks = []
    · subst hne
      simp [events, consWithCtx_empty, lexNodes, subtrees, subtreesL, kids, lexEv, fields]
    · rw [sum_events_node w _ f ks hne, consWithCtx_node ctx f ks hne, lexNodes_node f ks hne]
      have hk : (ks.map fun k => ((events (vertLabel (node f ks) :: ctx.map vertLabel) k).map w).sum) =
          ks.map fun k => ((consWithCtx (node f ks :: ctx) k).map fun p => w (ruleEv p)).sum +
            ((lexNodes k).map fun m => w (lexEv m)).sum :=
        List.map_congr_left fun k hkm => by
          have := ih k hkm (node f ks :: ctx)
          simpa using this
      rw [hk]
      simp only [List.map_cons, List.sum_cons, sum_flatMap_nat, ruleEv]
      have : ∀ (a b : Tree → Nat) (l : List Tree), (l.map fun k => a k + b k).sum = (l.map a).sum + (l.map b).sum := by
        intro a b l; induction l with
        | nil => rfl
        | cons x l ih => simp only [List.map_cons, List.sum_cons, ih]; omega
      rw [this]
      omega

/-! ### folding events into the tables, entry by entry -/

/-- contribution of an event to the grammar entry `(f, l, v)` -/
def gramHit (f : Func) (l : Lin) (v : VertKey) : Event → Nat
  | .rule f' l' v' => if (f', l', VertKey.ctx v') = (f, l, v) then 1 else 0
  | .lex .. => 0

/-- contribution of an event to the lexicon entry `(w, t)` -/
def lexHit (w t : Str) : Event → Nat
  | .rule .. => 0
  | .lex w' t' => if (w', t') = (w, t) then 1 else 0

theorem applyEvent_gramCount (f : Func) (l : Lin) (v : VertKey) (st : Grammar × Lexicon) (e : Event) :
    gramCount (applyEvent st e).1 f l v = gramCount st.1 f l v + gramHit f l v e := by
  cases e with
  | rule f' l' v' =>
    simp only [applyEvent, gramHit]
    by_cases h : (f', l', VertKey.ctx v') = (f, l, v)
    · rw [if_pos h]
      simp only [Prod.mk.injEq] at h
      obtain ⟨rfl, rfl, rfl⟩ := h
      exact TT.Props.C06.add_gramCount_self _ _ _ _ _
    · rw [if_neg h]
      exact TT.Props.C06.add_gramCount_other _ _ _ _ _ _ _ _ (fun e => h e.symm)
  | lex w t => simp [applyEvent, gramHit]

theorem applyEvent_lexCount (w t : Str) (st : Grammar × Lexicon) (e : Event) :
    lexCount (applyEvent st e).2 w t = lexCount st.2 w t + lexHit w t e := by
  cases e with
  | rule f' l' v' => simp [applyEvent, lexHit]
  | lex w' t' =>
    simp only [applyEvent, lexHit]
    by_cases h : (w', t') = (w, t)
    · rw [if_pos h]
      simp only [Prod.mk.injEq] at h
      obtain ⟨rfl, rfl⟩ := h
      exact TT.Props.C06.lex_add_count_self _ _ _ _
    · rw [if_neg h]
      exact TT.Props.C06.lex_add_count_other _ _ _ _ _ _ (fun e => h e.symm)

/-- any additive measure of the tables after `extractAll`: its value at the empty tables plus the weights of all events -/
theorem extractAll_measure (m : Grammar × Lexicon → Nat) (W : Event → Nat)
    (h : ∀ st e, m (applyEvent st e) = m st + W e) (ts : List Tree) :
    m (extractAll ts) = m ([], []) + (ts.map fun t => ((events [] t).map W).sum).sum := by
  unfold extractAll
  refine foldl_sum m (fun t => ((events [] t).map W).sum) _ ts ?_ _
  intro acc t _
  unfold extract
  exact foldl_sum m W applyEvent (events [] t) (fun acc e _ => h acc e) acc

/-- the same with the events sorted out: constituents (with their ancestor paths) and tokens -/
theorem extractAll_measure' (m : Grammar × Lexicon → Nat) (W : Event → Nat)
    (h : ∀ st e, m (applyEvent st e) = m st + W e) (ts : List Tree) :
    m (extractAll ts) = m ([], []) + (((ts.flatMap (consWithCtx [])).map fun p => W (ruleEv p)).sum +
      ((ts.flatMap lexNodes).map fun x => W (lexEv x)).sum) := by
  rw [extractAll_measure m W h ts, sum_flatMap_nat, sum_flatMap_nat]
  congr 1
  have : ∀ (a b : Tree → Nat) (l : List Tree), (l.map fun k => a k + b k).sum = (l.map a).sum + (l.map b).sum := by
    intro a b l; induction l with
    | nil => rfl
    | cons x l ih => simp only [List.map_cons, List.sum_cons, ih]; omega
  rw [← this]
  congr 1
  apply List.map_congr_left
  intro t _
  have := sum_events W t []
  simpa using this

theorem sum_ite_eq_length_filter {α} (p : α → Bool) (l : List α) :
    (l.map fun a => if p a = true then 1 else 0).sum = (l.filter p).length := by
  induction l with
  | nil => rfl
  | cons a l ih => by_cases h : p a <;> simp [h, ih] <;> omega

theorem sum_zero {α} (l : List α) : (l.map fun _ => 0).sum = 0 := by
  induction l with
  | nil => rfl
  | cons a l ih => simp [ih]

theorem gramCount_nil (f : Func) (l : Lin) (v : VertKey) : gramCount [] f l v = 0 := rfl
theorem lexCount_nil (w t : Str) : lexCount [] w t = 0 := rfl

/-- T6.1 on the model side -/
theorem extractAll_gramCount_ctx (ts : List Tree) (f : Func) (l : Lin) (v : List Str) :
    gramCount (extractAll ts).1 f l (.ctx v) =
      ((ts.flatMap (consWithCtx [])).filter fun p =>
        funcOf p.1 == f && linOf p.1 == l && p.2.map vertLabel == v).length := by
  rw [extractAll_measure' (fun st => gramCount st.1 f l (.ctx v)) (gramHit f l (.ctx v))
    (fun st e => applyEvent_gramCount f l _ st e) ts]
  simp only [gramCount_nil, Nat.zero_add, lexEv, gramHit, sum_zero, Nat.add_zero, ruleEv]
  rw [← sum_ite_eq_length_filter]
  congr 1
  apply List.map_congr_left
  intro p _
  by_cases h1 : funcOf p.1 = f <;> by_cases h2 : linOf p.1 = l <;> by_cases h3 : p.2.map vertLabel = v <;>
    simp [h1, h2, h3]

theorem extractAll_gramCount_default (ts : List Tree) (f : Func) (l : Lin) :
    gramCount (extractAll ts).1 f l .default = 0 := by
  rw [extractAll_measure' (fun st => gramCount st.1 f l .default) (gramHit f l .default)
    (fun st e => applyEvent_gramCount f l _ st e) ts]
  simp [gramCount_nil, lexEv, gramHit, sum_zero, ruleEv]

theorem extractAll_lexCount_nodes (ts : List Tree) (w t : Str) :
    lexCount (extractAll ts).2 w t =
      ((ts.flatMap lexNodes).filter fun m => m.fields.word.getD [] == w && m.fields.label == t).length := by
  rw [extractAll_measure' (fun st => lexCount st.2 w t) (lexHit w t)
    (fun st e => applyEvent_lexCount w t st e) ts]
  simp only [lexCount_nil, Nat.zero_add, lexEv, lexHit, sum_zero, ruleEv]
  rw [← sum_ite_eq_length_filter]
  congr 1
  apply List.map_congr_left
  intro p _
  by_cases h1 : p.fields.word.getD [] = w <;> by_cases h2 : p.fields.label = t <;> simp [h1, h2]

/-! ### the model's function / vertical label against the specification's -/

theorem funcOf_eq_specFunc (s : Tree) : funcOf s = specFunc s := by
  unfold funcOf specFunc
  rw [sortBy_congr leftmost minLeaf s.kids fun a _ => TT.Lemmas.Nav.leftmost_eq_minLeaf a]

/-- the vertical label is the label followed by the number of blocks -/
theorem vertLabel_eq (s : Tree) (h : s.leafNums ≠ []) :
    vertLabel s = s.fields.label ++ natToStr s.blocks.length := by
  unfold vertLabel
  cases s with
  | leaf n f => simp [gapDegreeNode, blocks, yield, terminals, leaves, sortBy, insertBy, num, blocksOf]
  | node f ks =>
    rw [TT.Props.C16.gapDegreeNode_eq_blocks]
    have hy := TT.Lemmas.WF.yield_ne_nil _ h
    have : 0 < (node f ks).blocks.length := by
      unfold blocks
      cases hyc : yield (node f ks) with
      | nil => exact absurd hyc hy
      | cons a r => exact TT.Props.C16.blocksOf_length_pos a r
    rw [Nat.sub_add_cancel this]

/-- constituents listed with their paths: the first components are the constituents in storage preorder -/
theorem consWithCtx_fst (t : Tree) : ∀ ctx : List Tree,
    (consWithCtx ctx t).map (·.1) = t.subtrees.filter fun s => !s.kids.isEmpty := by
  induction t using TT.Lemmas.WF.tree_ind with
  | hl n f => intro ctx; simp [consWithCtx_leaf, subtrees, kids]
  | hn f ks ih =>
    intro ctx
    by_cases hne : ks = []
    · subst hne; simp [consWithCtx_empty, subtrees, subtreesL, kids]
    · have : ks.isEmpty = false := by cases ks <;> simp_all
      have h0 : (!(node f ks).kids.isEmpty) = true := by simp [kids, this]
      rw [consWithCtx_node ctx f ks hne, subtrees, List.filter_cons_of_pos (p := fun s : Tree => !s.kids.isEmpty) h0, TT.Lemmas.Nav.subtreesL_eq,
        List.filter_flatMap, List.map_cons, List.map_flatMap]
      congr 1
      rw [List.flatMap_def, List.flatMap_def, List.map_congr_left fun k hkm => ih k hkm (node f ks :: ctx)]

/-- in a tree without childless constituents the constituents are the subtrees that are no tokens -/
theorem filter_kids_eq_isLeaf (t : Tree) : t.noEmpty = true →
    (t.subtrees.filter fun s => !s.kids.isEmpty) = t.subtrees.filter fun s => !s.isLeaf := by
  induction t using TT.Lemmas.WF.tree_ind with
  | hl n f => intro _; simp [subtrees, kids, isLeaf]
  | hn f ks ih =>
    intro h
    obtain ⟨hne, hk⟩ := (TT.Lemmas.WF.noEmpty_node f ks).1 h
    have : ks.isEmpty = false := by cases ks <;> simp_all
    have h0 : (!(node f ks).kids.isEmpty) = true := by simp [kids, this]
    have h1 : (!(node f ks).isLeaf) = true := rfl
    rw [subtrees, List.filter_cons_of_pos (p := fun s : Tree => !s.kids.isEmpty) h0, List.filter_cons_of_pos (p := fun s : Tree => !s.isLeaf) h1, TT.Lemmas.Nav.subtreesL_eq,
      List.filter_flatMap, List.filter_flatMap]
    congr 1
    rw [List.flatMap_def, List.flatMap_def, List.map_congr_left fun k hkm => ih k hkm (hk k hkm)]

/-- every path recorded by `consWithCtx` consists of the constituent, its ancestors inside the tree, and the given context -/
theorem consWithCtx_path (P : Tree → Prop) (t : Tree) : ∀ ctx : List Tree,
    (∀ s ∈ t.subtrees, ¬ s.kids = [] → P s) → (∀ a ∈ ctx, P a) →
    ∀ p ∈ consWithCtx ctx t, ∀ a ∈ p.2, P a := by
  induction t using TT.Lemmas.WF.tree_ind with
  | hl n f => intro ctx _ _ p hp; simp [consWithCtx_leaf] at hp
  | hn f ks ih =>
    intro ctx ht hc p hp
    by_cases hne : ks = []
    · subst hne; simp [consWithCtx_empty] at hp
    · rw [consWithCtx_node ctx f ks hne] at hp
      have hme : P (node f ks) := ht _ (by simp [subtrees]) (by simpa [kids] using hne)
      have hc' : ∀ a ∈ node f ks :: ctx, P a := by
        intro a ha
        rcases List.mem_cons.1 ha with rfl | ha
        · exact hme
        · exact hc a ha
      rcases List.mem_cons.1 hp with rfl | hp
      · exact hc'
      · obtain ⟨k, hk, hpk⟩ := List.mem_flatMap.1 hp
        exact ih k hk _ (fun s hs => ht s ((TT.Lemmas.WF.mem_subtrees_node f ks s).2 (Or.inr ⟨k, hk, hs⟩))) hc' p hpk

theorem noEmpty_of_mem_subtrees (t : Tree) : t.noEmpty = true → ∀ s ∈ t.subtrees, s.noEmpty = true := by
  induction t using TT.Lemmas.WF.tree_ind with
  | hl n f => intro h s hs; simp only [subtrees, List.mem_singleton] at hs; subst hs; exact h
  | hn f ks ih =>
    intro h s hs
    obtain ⟨_, hk⟩ := (TT.Lemmas.WF.noEmpty_node f ks).1 h
    rcases (TT.Lemmas.WF.mem_subtrees_node f ks s).1 hs with rfl | ⟨k, hkm, hsk⟩
    · exact h
    · exact ih k hkm (hk k hkm) s hsk

/-- in a tree without childless constituents the recorded vertical context is the specification's -/
theorem consWithCtx_specVert (t : Tree) (h : t.noEmpty = true) :
    ∀ p ∈ consWithCtx [] t, p.2.map vertLabel = specVert p.2 := by
  intro p hp
  unfold specVert
  apply List.map_congr_left
  intro a ha
  have := consWithCtx_path (fun a => a.noEmpty = true) t [] (fun s hs _ => noEmpty_of_mem_subtrees t h s hs)
    (by simp) p hp a ha
  exact vertLabel_eq a (TT.Lemmas.Boyd.leafNums_ne_nil a this)

/-! ### C08: the balance of a symbol under binarization -/

/-- what one rule with count `c` contributes to the balance of `x` -/
def ruleNet (x : Str) (f : Func) (c : Nat) : Int :=
  (if f.head? = some x then (c : Int) else 0) - (c : Int) * ((f.drop 1).count x : Int)

theorem foldl_sumZ {α ε} (m : α → Int) (W : ε → Int) (step : α → ε → α) (es : List ε)
    (hstep : ∀ acc e, e ∈ es → m (step acc e) = m acc + W e) :
    ∀ init, m (es.foldl step init) = m init + (es.map W).sum := by
  induction es with
  | nil => intro init; simp
  | cons e es ih =>
    intro init
    simp only [List.foldl_cons, List.map_cons, List.sum_cons]
    rw [ih (fun acc e he => hstep acc e (by simp [he])), hstep init e (by simp)]
    omega

theorem sum_sub_cast {α} (a b : α → Nat) (l : List α) :
    (l.map fun e => ((a e : Nat) : Int) - ((b e : Nat) : Int)).sum = (((l.map a).sum : Nat) : Int) - (((l.map b).sum : Nat) : Int) := by
  induction l with
  | nil => simp
  | cons x l ih => simp only [List.map_cons, List.sum_cons, ih, Int.natCast_add]; omega

theorem wmass_eq_entries_sum (w : Func → Nat) (g : Grammar) :
    wmass w g = (g.entries.map fun e => w e.1 * e.2.2.2).sum := by
  induction g with
  | nil => simp [Grammar.entries, wmass]
  | cons a r ih =>
    obtain ⟨f, ls⟩ := a
    rw [entries_cons, List.map_append, List.sum_append, ← ih]
    simp only [wmass, List.map_cons, List.sum_cons]
    congr 1
    induction ls with
    | nil => simp [lsum]
    | cons b bs ih2 =>
      obtain ⟨l, vs⟩ := b
      simp only [List.flatMap_cons, List.map_append, List.sum_append, ← ih2, lsum, List.map_cons, List.sum_cons,
        Nat.mul_add]
      congr 1
      simp only [vsum]
      induction vs with
      | nil => simp
      | cons c cs ih3 => simp only [List.map_cons, List.sum_cons, Nat.mul_add, ih3]

theorem wmass_eq_rules_sum (w : Func → Nat) (g : Grammar) :
    wmass w g = (g.rules.map fun e => w e.1 * e.2.2).sum := by
  induction g with
  | nil => simp [Grammar.rules, wmass]
  | cons a r ih =>
    obtain ⟨f, ls⟩ := a
    rw [rules_cons, List.map_append, List.sum_append, ← ih]
    simp only [wmass, List.map_cons, List.sum_cons]
    congr 1
    induction ls with
    | nil => simp [lsum]
    | cons b bs ih2 => simp only [lsum, List.map_cons, List.sum_cons, Nat.mul_add, ← ih2]

theorem ruleNet_eq (x : Str) (f : Func) (c : Nat) :
    ruleNet x f c = (((if f.head? = some x then 1 else 0) * c : Nat) : Int) - (((f.drop 1).count x * c : Nat) : Int) := by
  unfold ruleNet
  split <;> simp [Int.mul_comm]

theorem net_eq_rules_sum (g : Grammar) (x : Str) : net g x = (g.rules.map fun e => ruleNet x e.1 e.2.2).sum := by
  unfold net
  rw [lhsMass_eq_wmass, rhsMass_eq_wmass, wmass_eq_rules_sum, wmass_eq_rules_sum, ← sum_sub_cast]
  congr 1
  apply List.map_congr_left
  intro e _
  exact (ruleNet_eq x e.1 e.2.2).symm

theorem net_eq_entries_sum (g : Grammar) (x : Str) :
    net g x = (g.entries.map fun e => ruleNet x e.1 e.2.2.2).sum := by
  unfold net
  rw [lhsMass_eq_wmass, rhsMass_eq_wmass, wmass_eq_entries_sum, wmass_eq_entries_sum, ← sum_sub_cast]
  congr 1
  apply List.map_congr_left
  intro e _
  exact (ruleNet_eq x e.1 e.2.2.2).symm

/-- reordering the right-hand side does not change what the rule contributes -/
theorem reorder_ruleNet (r : Reordering) (f : Func) (l : Lin) (c : Nat) (x : Str) (hf : f ≠ []) :
    ruleNet x (reorder r f l).1 c = ruleNet x f c := by
  cases r with
  | optimal =>
    obtain ⟨h1, h2⟩ := TT.Props.C07.reorder_perm f l hf
    simp only [reorder, ruleNet, h1, h2.count_eq]
  | none => rfl
  | leftright => rfl

theorem net_nil (x : Str) : net ([] : Grammar) x = 0 := by simp [net, lhsMass, rhsMass, Grammar.rules]

theorem binarizeGrammar_net (r : Reordering) (mo : Option MarkovOpts) (g : Grammar) (hg : ∀ e ∈ g, e.1 ≠ [])
    (x : Str) : net (binarizeGrammar r mo g) x = net g x := by
  cases mo with
  | some o =>
    simp only [binarizeGrammar]
    rw [foldl_sumZ (fun acc : GenState × Grammar => net acc.2 x)
      (fun e : Func × Lin × VertKey × Nat => ruleNet x e.1 e.2.2.2)]
    · simp only [net_nil, Int.zero_add]; exact (net_eq_entries_sum g x).symm
    · rintro acc ⟨f, l, v, c⟩ he
      obtain ⟨p, hp, hpf⟩ := entries_func_mem g _ he
      have hf : f ≠ [] := by have := hg p hp; rwa [hpf] at this
      obtain ⟨_, h2⟩ := reorder_head r f l hf
      simp only
      rw [TT.Props.C08.binarizeRule_net _ _ _ _ _ _ _ x h2, ← reorder_ruleNet r f l c x hf]
      unfold ruleNet
      omega
  | none =>
    simp only [binarizeGrammar]
    rw [foldl_sumZ (fun acc : GenState × Grammar => net acc.2 x)
      (fun e : Func × Lin × Nat => ruleNet x e.1 e.2.2)]
    · simp only [net_nil, Int.zero_add]; exact (net_eq_rules_sum g x).symm
    · rintro acc ⟨f, l, c⟩ he
      obtain ⟨p, hp, hpf⟩ := rules_func_mem g _ he
      have hf : f ≠ [] := by have := hg p hp; rwa [hpf] at this
      obtain ⟨_, h2⟩ := reorder_head r f l hf
      simp only
      rw [TT.Props.C08.binarizeRule_net _ _ _ _ _ _ _ x h2, ← reorder_ruleNet r f l c x hf]
      unfold ruleNet
      omega

/-- a symbol that heads no rule has no LHS mass -/
theorem lhsMass_eq_zero (g : Grammar) (s : Str) (hs : ∀ e ∈ g, e.1.head? ≠ some s) : lhsMass g s = 0 := by
  rw [lhsMass_eq_wmass]
  unfold wmass
  apply List.sum_eq_zero_iff_forall_eq_nat.2
  intro x hx
  obtain ⟨p, hp, rfl⟩ := List.mem_map.1 hx
  simp [hs p hp]

theorem not_mem_symbols (g : Grammar) (s : Str) (hs : s ∉ symbols g) : ∀ e ∈ g, s ∉ e.1 := by
  intro e he hm
  apply hs
  unfold symbols
  rw [List.mem_eraseDups]
  exact List.mem_flatMap.2 ⟨e, he, hm⟩

theorem net_eq_zero_of_not_mem_symbols (g : Grammar) (s : Str) (hs : s ∉ symbols g) : net g s = 0 := by
  have h := not_mem_symbols g s hs
  unfold net
  rw [lhsMass_eq_zero g s, rhsMass_eq_zero g s]
  · rfl
  · intro hm
    obtain ⟨e, he, hm⟩ := List.mem_flatMap.1 hm
    exact h e he (List.mem_of_mem_drop hm)
  · intro e he hh
    exact h e he (List.mem_of_mem_head? hh)

/-! ### C08: the lexicon mass of a tag, and the balance of a treebank grammar -/

/-- contribution of an event to the lexicon mass of the tag `s` -/
def tagHit (s : Str) : Event → Nat
  | .rule .. => 0
  | .lex _ t => if t = s then 1 else 0

theorem tagMass_add (lex : Lexicon) (w t : Str) (n : Nat) (x : Str) :
    tagMass (lex.add w t n) x = tagMass lex x + (if t = x then n else 0) := by
  have hin : ∀ tags : AList Str Nat,
      (AList.get? x (AList.upsert t (fun o2 => o2.getD 0 + n) tags)).getD 0 =
        (AList.get? x tags).getD 0 + (if t = x then n else 0) := by
    intro tags
    by_cases h : t = x
    · subst h; rw [get?_upsert_self]; cases AList.get? t tags <;> simp
    · rw [get?_upsert_other _ _ _ (fun e => h e.symm)]; simp [h]
  unfold Lexicon.add tagMass
  induction lex with
  | nil =>
    have := hin []
    simp only [get?_nil, Option.getD_none, Nat.zero_add] at this
    simpa [AList.upsert] using this
  | cons a r ih =>
    obtain ⟨k, tags⟩ := a
    simp only [AList.upsert]
    split
    · simp only [List.map_cons, List.sum_cons, Option.getD_some, hin]; omega
    · simp only [List.map_cons, List.sum_cons] at ih ⊢; omega

theorem tagMass_nil (x : Str) : tagMass [] x = 0 := rfl

/-- per tree, whatever the tree: rewritings of `x` plus tokens tagged `x` = occurrences of `x` on right-hand sides plus
    one if `x` labels the root -/
theorem events_balance (x : Str) (t : Tree) : ∀ ctx : List Str,
    ((events ctx t).map fun e => lhsHit x e + tagHit x e).sum =
      ((events ctx t).map (rhsHit x)).sum + (if t.fields.label = x then 1 else 0) := by
  induction t using TT.Lemmas.WF.tree_ind with
  | hl n f =>
    intro ctx
    simp only [events_leaf, lhsHit, tagHit, rhsHit, fields, List.map_cons, List.map_nil, List.sum_cons, List.sum_nil]
    by_cases h : f.label = x <;> simp [h]
  | hn f ks ih =>
    intro ctx
    by_cases hne : ks = []
    · subst hne
      simp only [events, List.isEmpty_nil, if_true, lhsHit, tagHit, rhsHit, fields, List.map_cons, List.map_nil,
        List.sum_cons, List.sum_nil]
      by_cases h : f.label = x <;> simp [h]
    · rw [sum_events_node _ ctx f ks hne, sum_events_node _ ctx f ks hne]
      have h1 : (ks.map fun k => ((events (vertLabel (node f ks) :: ctx) k).map fun e => lhsHit x e + tagHit x e).sum) =
          ks.map fun k => ((events (vertLabel (node f ks) :: ctx) k).map (rhsHit x)).sum +
            (if k.fields.label = x then 1 else 0) :=
        List.map_congr_left fun k hkm => ih k hkm _
      have h2 : ∀ (a b : Tree → Nat) (l : List Tree), (l.map fun k => a k + b k).sum = (l.map a).sum + (l.map b).sum := by
        intro a b l; induction l with
        | nil => rfl
        | cons y l ih => simp only [List.map_cons, List.sum_cons, ih]; omega
      have h3 : ((sortBy leftmost ks).map (·.fields.label)).count x = (ks.map (·.fields.label)).count x :=
        ((sortBy_perm leftmost ks).map _).count_eq x
      have h4 : (ks.map (·.fields.label)).count x = (ks.map fun k => if k.fields.label = x then 1 else 0).sum := by
        clear ih h1 h3 hne
        induction ks with
        | nil => rfl
        | cons k ks ih => simp only [List.map_cons, List.count_cons, List.sum_cons, ih, beq_iff_eq]; omega
      rw [h1, h2]
      have hf : (node f ks).fields = f := rfl
      simp only [lhsHit, tagHit, rhsHit, funcOf, hf, kids, List.head?_cons, Option.some.injEq,
        List.drop_succ_cons, List.drop_zero, h3, h4]
      omega

theorem events_rule_func (P : Func → Prop) (hP : ∀ s : Tree, P (funcOf s)) (t : Tree) :
    ∀ (ctx : List Str), ∀ e ∈ events ctx t, ∀ f l v, e = .rule f l v → P f := by
  induction t using TT.Lemmas.WF.tree_ind with
  | hl n f => intro ctx e he f' l v h; simp [events_leaf] at he; subst he; cases h
  | hn f ks ih =>
    intro ctx e he f' l v h
    by_cases hne : ks = []
    · subst hne; simp [events] at he; subst he; cases h
    · rw [events_node ctx f ks hne] at he
      rcases List.mem_cons.1 he with rfl | he
      · cases h; exact hP _
      · obtain ⟨k, hk, hek⟩ := List.mem_flatMap.1 he
        exact ih k ((mem_sortBy _ _ _).1 hk) _ e hek f' l v h

/-- the keys of an extracted grammar are functions of constituents -/
theorem extractAll_keys (P : Func → Prop) (hP : ∀ s : Tree, P (funcOf s)) (ts : List Tree) :
    ∀ e ∈ (extractAll ts).1, P e.1 := by
  unfold extractAll
  apply foldl_inv (fun acc : Grammar × Lexicon => ∀ e ∈ acc.1, P e.1)
  · intro acc t _ hacc
    unfold extract
    apply foldl_inv (fun acc : Grammar × Lexicon => ∀ e ∈ acc.1, P e.1) applyEvent (events [] t) ?_ acc hacc
    intro acc e he hacc
    cases e with
    | rule f l v => exact add_keys P _ _ _ _ _ hacc (events_rule_func P hP t [] _ he f l v rfl)
    | lex w t => exact hacc
  · simp

theorem extractAll_func_ne_nil (ts : List Tree) : ∀ e ∈ (extractAll ts).1, e.1 ≠ [] :=
  extractAll_keys (fun f => f ≠ []) (fun s => by simp [funcOf]) ts

/-! ### a linearization is determined by what it instantiates to -/

/-- reading an argument off its value: if the looked-up pieces are non-empty and a piece is determined by its first
    element, two variable sequences with the same value are the same -/
theorem evalArg_inj {α} (L : Var → Option (List α)) (P : Var → Prop)
    (hne : ∀ v, L v ≠ some [])
    (hinj : ∀ v v' a x x', P v → P v' → L v = some (a :: x) → L v' = some (a :: x') → v = v') :
    ∀ (vs vs' : List Var) (X : List α), (∀ v ∈ vs, P v) → (∀ v ∈ vs', P v) →
      evalArg L vs = some X → evalArg L vs' = some X → vs = vs'
  | [], [], _, _, _, _, _ => rfl
  | [], v' :: r', X, _, _, h1, h2 => by
    rw [evalArg_nil] at h1
    rw [evalArg_cons] at h2
    cases hv : L v' with
    | none => simp [hv] at h2
    | some b =>
      cases hr : evalArg L r' with
      | none => simp [hv, hr] at h2
      | some bs =>
        simp only [hv, hr, Option.some.injEq] at h2 h1
        subst h1
        have : b = [] := by simpa using (List.append_eq_nil_iff.1 h2).1
        subst this
        exact absurd hv (hne v')
  | v :: r, [], X, _, _, h1, h2 => by
    rw [evalArg_nil] at h2
    rw [evalArg_cons] at h1
    cases hv : L v with
    | none => simp [hv] at h1
    | some b =>
      cases hr : evalArg L r with
      | none => simp [hv, hr] at h1
      | some bs =>
        simp only [hv, hr, Option.some.injEq] at h2 h1
        subst h2
        have : b = [] := by simpa using (List.append_eq_nil_iff.1 h1).1
        subst this
        exact absurd hv (hne v)
  | v :: r, v' :: r', X, hp, hp', h1, h2 => by
    rw [evalArg_cons] at h1 h2
    cases hv : L v with
    | none => simp [hv] at h1
    | some b =>
      cases hv' : L v' with
      | none => simp [hv'] at h2
      | some b' =>
        cases hr : evalArg L r with
        | none => simp [hv, hr] at h1
        | some bs =>
          cases hr' : evalArg L r' with
          | none => simp [hv', hr'] at h2
          | some bs' =>
            simp only [hv, hr, hv', hr', Option.some.injEq] at h1 h2
            cases b with
            | nil => exact absurd hv (hne v)
            | cons a x =>
              cases b' with
              | nil => exact absurd hv' (hne v')
              | cons a' x' =>
                have he : (a :: x) ++ bs = (a' :: x') ++ bs' := h1.trans h2.symm
                have ha : a = a' := by simpa using (List.cons.inj he).1
                subst ha
                have hvv : v = v' := hinj v v' a x x' (hp v (by simp)) (hp' v' (by simp)) hv hv'
                subst hvv
                rw [hv] at hv'
                cases hv'
                have hbs : bs = bs' := List.append_cancel_left he
                subst hbs
                rw [evalArg_inj L P hne hinj r r' bs (fun w hw => hp w (by simp [hw]))
                  (fun w hw => hp' w (by simp [hw])) hr hr']

theorem omap_evalArg_inj {α} (L : Var → Option (List α)) (P : Var → Prop)
    (hne : ∀ v, L v ≠ some [])
    (hinj : ∀ v v' a x x', P v → P v' → L v = some (a :: x) → L v' = some (a :: x') → v = v') :
    ∀ (l l' : Lin) (S : List (List α)), (∀ arg ∈ l, ∀ v ∈ arg, P v) → (∀ arg ∈ l', ∀ v ∈ arg, P v) →
      omap (evalArg L) l = some S → omap (evalArg L) l' = some S → l = l'
  | [], [], _, _, _, _, _ => rfl
  | [], a' :: r', S, _, _, h1, h2 => by
    simp only [omap, Option.some.injEq] at h1
    subst h1
    cases h3 : evalArg L a' <;> cases h4 : omap (evalArg L) r' <;> simp [omap, h3, h4] at h2
  | a :: r, [], S, _, _, h1, h2 => by
    simp only [omap, Option.some.injEq] at h2
    subst h2
    cases h3 : evalArg L a <;> cases h4 : omap (evalArg L) r <;> simp [omap, h3, h4] at h1
  | a :: r, a' :: r', S, hp, hp', h1, h2 => by
    simp only [omap] at h1 h2
    cases ha : evalArg L a with
    | none => simp [ha] at h1
    | some X =>
      cases ha' : evalArg L a' with
      | none => simp [ha'] at h2
      | some X' =>
        cases hr : omap (evalArg L) r with
        | none => simp [ha, hr] at h1
        | some R =>
          cases hr' : omap (evalArg L) r' with
          | none => simp [ha', hr'] at h2
          | some R' =>
            simp only [ha, hr, ha', hr', Option.some.injEq] at h1 h2
            have he : X :: R = X' :: R' := h1.trans h2.symm
            obtain ⟨hX, hR⟩ := List.cons.inj he
            subst hX; subst hR
            rw [evalArg_inj L P hne hinj a a' X (hp a (by simp)) (hp' a' (by simp)) ha ha',
              omap_evalArg_inj L P hne hinj r r' R (fun b hb => hp b (by simp [hb]))
                (fun b hb => hp' b (by simp [hb])) hr hr']

/-- the blocks of pairwise disjoint children: a block is determined by its first token -/
theorem look_blocks_inj (cs : List Tree) (hnd : (cs.flatMap leafNums).Nodup) (v v' : Var) (a : Nat) (x x' : List Nat)
    (hv : 0 ≤ v.1) (hv' : 0 ≤ v'.1) (h : look (cs.map Tree.blocks) v = some (a :: x))
    (h' : look (cs.map Tree.blocks) v' = some (a :: x')) : v = v' := by
  obtain ⟨i, j⟩ := v
  obtain ⟨i', j'⟩ := v'
  simp only [look, List.getElem?_map] at h h'
  cases hc : cs[i.toNat]? with
  | none => simp [hc] at h
  | some c =>
    cases hc' : cs[i'.toNat]? with
    | none => simp [hc'] at h'
    | some c' =>
      simp only [hc, hc', Option.map_some, Option.bind_some] at h h'
      have ha : a ∈ c.leafNums := by
        rw [← TT.Lemmas.WF.mem_yield, ← TT.Props.C16.blocks_partition]
        exact List.mem_flatten.2 ⟨_, List.mem_of_getElem? h, by simp⟩
      have ha' : a ∈ c'.leafNums := by
        rw [← TT.Lemmas.WF.mem_yield, ← TT.Props.C16.blocks_partition]
        exact List.mem_flatten.2 ⟨_, List.mem_of_getElem? h', by simp⟩
      have hi : i.toNat = i'.toNat := flatMap_nodup_index leafNums cs hnd _ _ c c' a hc hc' ha ha'
      have hii : i = i' := by simp only at hv hv'; omega
      subst hii
      rw [hc] at hc'
      cases hc'
      have hcn : c.leafNums.Nodup :=
        (List.sublist_flatten_of_mem (List.mem_map_of_mem (f := leafNums) (List.mem_of_getElem? hc))).nodup hnd
      have hyn : (c.blocks.flatMap id).Nodup := by
        rw [List.flatMap_id, TT.Props.C16.blocks_partition]
        exact (TT.Lemmas.WF.yield_perm c).symm.nodup hcn
      have hj : j = j' := flatMap_nodup_index id c.blocks hyn j j' _ _ a h h' (by simp) (by simp)
      subst hj
      rfl

theorem look_blocks_ne_nil (cs : List Tree) (v : Var) : look (cs.map Tree.blocks) v ≠ some [] := by
  intro h
  simp only [look, List.getElem?_map] at h
  cases hc : cs[v.1.toNat]? with
  | none => simp [hc] at h
  | some c =>
    simp only [hc, Option.map_some, Option.bind_some] at h
    exact TT.Props.C16.blocksOf_ne_nil _ _ (List.mem_of_getElem? h) rfl

/-- uniqueness: the only linearization that reconstructs the blocks of a constituent from the blocks of its children is
    the extracted one -/
theorem nodeRuleOK_unique (f : Fields) (ks : List Tree) (hn : (node f ks).leafNums.Nodup) (l : Lin)
    (h : nodeRuleOK (node f ks) l = true) : l = linOf (node f ks) := by
  have h0 := nodeRuleOK_linOf f ks hn
  have hnd : ((sortBy minLeaf ks).flatMap leafNums).Nodup := by
    rw [TT.Lemmas.WF.leafNums_node] at hn
    exact ((sortBy_perm minLeaf ks).flatMap_right leafNums).symm.nodup hn
  unfold nodeRuleOK at h h0
  simp only [kids, Bool.and_eq_true, beq_iff_eq] at h h0
  have hpos : ∀ (l : Lin) (fo : List Nat), wfLin l fo = true → ∀ arg ∈ l, ∀ v ∈ arg, 0 ≤ v.1 := by
    intro l fo hw arg harg v hv
    unfold wfLin at hw
    simp only [Bool.and_eq_true, List.all_eq_true] at hw
    have := hw.1.1 v (List.mem_flatten.2 ⟨arg, harg, hv⟩)
    simp only [decide_eq_true_eq] at this
    exact this.1
  rw [TT.Lemmas.GramBin.instLin_eq] at h h0
  exact omap_evalArg_inj (look ((sortBy minLeaf ks).map Tree.blocks)) (fun v => 0 ≤ v.1)
    (look_blocks_ne_nil _) (fun v v' a x x' hv hv' => look_blocks_inj _ hnd v v' a x x' hv hv')
    l _ _ (hpos l _ h.1) (hpos _ _ h0.1) h.2 h0.2

/-! ### invariants of nested dictionary updates -/

theorem upsert_all {κ ν} [DecidableEq κ] (P : κ → ν → Prop) (k : κ) (F : Option ν → ν) :
    ∀ (m : AList κ ν), (∀ p ∈ m, P p.1 p.2) → (∀ o, (∀ v, o = some v → P k v) → P k (F o)) →
      ∀ p ∈ AList.upsert k F m, P p.1 p.2
  | [], _, hF, p, hp => by
    simp only [AList.upsert, List.mem_singleton] at hp
    subst hp
    exact hF none (by simp)
  | (a, v) :: r, hm, hF, p, hp => by
    simp only [AList.upsert] at hp
    split at hp
    · rename_i hak
      subst hak
      rcases List.mem_cons.1 hp with rfl | hp
      · exact hF (some v) (by intro w hw; cases hw; exact hm (a, v) (by simp))
      · exact hm p (by simp [hp])
    · rcases List.mem_cons.1 hp with rfl | hp
      · exact hm (a, v) (by simp)
      · exact upsert_all P k F r (fun q hq => hm q (by simp [hq])) hF p hp

/-- an invariant of all (function, linearization, vertical table) triples survives `Grammar.add` -/
theorem add_all (P : Func → Lin → AList VertKey Nat → Prop) (g : Grammar) (f : Func) (l : Lin) (v : VertKey) (n : Nat)
    (hg : ∀ p ∈ g, ∀ q ∈ p.2, P p.1 q.1 q.2)
    (hP : ∀ vs, (vs = [] ∨ P f l vs) → P f l (AList.upsert v (fun o3 => o3.getD 0 + n) vs)) :
    ∀ p ∈ g.add f l v n, ∀ q ∈ p.2, P p.1 q.1 q.2 := by
  unfold Grammar.add
  refine upsert_all (fun f ls => ∀ q ∈ ls, P f q.1 q.2) f _ g hg ?_
  intro o ho
  refine upsert_all (fun l vs => P f l vs) l _ (o.getD []) ?_ ?_
  · cases o with
    | none => simp
    | some ls => exact ho ls rfl
  · intro o2 ho2
    apply hP
    cases o2 with
    | none => exact Or.inl rfl
    | some vs => exact Or.inr (ho2 vs rfl)

/-- every rule event of a tree is the rule event of one of its constituents -/
theorem events_rule_mem (t : Tree) : ∀ (ctx : List Tree), ∀ e ∈ events (ctx.map vertLabel) t, ∀ f l v,
    e = .rule f l v → ∃ p ∈ consWithCtx ctx t, ruleEv p = .rule f l v := by
  induction t using TT.Lemmas.WF.tree_ind with
  | hl n f => intro ctx e he f' l v h; simp [events_leaf] at he; subst he; cases h
  | hn f ks ih =>
    intro ctx e he f' l v h
    by_cases hne : ks = []
    · subst hne; simp [events] at he; subst he; cases h
    · rw [events_node _ f ks hne] at he
      rw [consWithCtx_node ctx f ks hne]
      rcases List.mem_cons.1 he with rfl | he
      · exact ⟨_, List.mem_cons_self, by rw [← h]; rfl⟩
      · obtain ⟨k, hk, hek⟩ := List.mem_flatMap.1 he
        have hk' := (mem_sortBy _ _ _).1 hk
        obtain ⟨p, hp, hpe⟩ := ih k hk' (node f ks :: ctx) e (by simpa using hek) f' l v h
        exact ⟨p, List.mem_cons_of_mem _ (List.mem_flatMap.2 ⟨k, hk', hp⟩), hpe⟩

/-- an invariant of all (function, linearization, vertical table) triples of the extracted grammar -/
theorem extractAll_all (P : Func → Lin → AList VertKey Nat → Prop) (ts : List Tree)
    (hP : ∀ t ∈ ts, ∀ p ∈ consWithCtx [] t, ∀ vs, (vs = [] ∨ P (funcOf p.1) (linOf p.1) vs) →
      P (funcOf p.1) (linOf p.1) (AList.upsert (.ctx (p.2.map vertLabel)) (fun o3 => o3.getD 0 + 1) vs)) :
    ∀ p ∈ (extractAll ts).1, ∀ q ∈ p.2, P p.1 q.1 q.2 := by
  unfold extractAll
  apply foldl_inv (fun acc : Grammar × Lexicon => ∀ p ∈ acc.1, ∀ q ∈ p.2, P p.1 q.1 q.2)
  · intro acc t ht hacc
    unfold extract
    apply foldl_inv (fun acc : Grammar × Lexicon => ∀ p ∈ acc.1, ∀ q ∈ p.2, P p.1 q.1 q.2) applyEvent
      (events [] t) ?_ acc hacc
    intro acc e he hacc
    cases e with
    | rule f l v =>
      obtain ⟨p, hp, hpe⟩ := events_rule_mem t [] _ (by simpa using he) f l v rfl
      simp only [ruleEv, Event.rule.injEq] at hpe
      obtain ⟨rfl, rfl, rfl⟩ := hpe
      exact add_all P _ _ _ _ _ hacc (hP t ht p hp)
    | lex w t => exact hacc
  · simp

theorem get?_of_mem_nodup {κ ν} [DecidableEq κ] : ∀ (m : AList κ ν), (m.map (·.1)).Nodup → ∀ k v, (k, v) ∈ m →
    AList.get? k m = some v
  | [], _, _, _, h => by simp at h
  | (a, w) :: r, hnd, k, v, h => by
    simp only [List.map_cons, List.nodup_cons] at hnd
    rcases List.mem_cons.1 h with h | h
    · cases h; simp [AList.get?]
    · have hne : a ≠ k := by
        rintro rfl
        exact hnd.1 (List.mem_map.2 ⟨(a, v), h, rfl⟩)
      have ih := get?_of_mem_nodup r hnd.2 k v h
      simp only [AList.get?] at ih ⊢
      rw [List.find?_cons_of_neg (by simpa using hne)]
      exact ih

theorem mem_of_get? {κ ν} [DecidableEq κ] (m : AList κ ν) (k : κ) (v : ν) (h : AList.get? k m = some v) :
    (k, v) ∈ m := by
  simp only [AList.get?, Option.map_eq_some_iff] at h
  obtain ⟨p, hp, rfl⟩ := h
  have h1 := List.find?_some hp
  have h2 := List.mem_of_find?_eq_some hp
  simp only [decide_eq_true_eq] at h1
  subst h1
  exact h2

end TT.Lemmas.More12a
