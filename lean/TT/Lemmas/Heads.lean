/-
  Helper lemmas for C15 (head marking).  Core only (no Mathlib).

  Both markers (`negraMarkAux`, `rulesMarkAux rules`) are instances of one generic marker `markG idx`
  that picks, at every constituent, the position `idx f (ordered children)` in the ordered child list.
  Everything is proved once for `markG`.
-/
import TT.Spec.Transform
import TT.Lemmas.Sort
import TT.Lemmas.Nav
import TT.Lemmas.WF
namespace TT.Lemmas.Heads
open TT TT.Tree TT.Spec

/-! ### generic list facts -/

theorem find?_eq_findIdx? {α} (p : α → Bool) :
    ∀ l : List α, l.find? p = (l.findIdx? p).bind (fun i => l[i]?)
  | [] => by simp
  | x :: xs => by
    rw [List.find?_cons, List.findIdx?_cons]
    cases hp : p x with
    | true => simp
    | false =>
      simp only [Bool.false_eq_true, if_false]
      rw [find?_eq_findIdx? p xs]
      cases xs.findIdx? p <;> simp

/-- `find?` for a test of the form `g x == b` is the element at `idxOf?` in the list of `g`-values -/
theorem find?_beq_eq_idxOf? {α β} [BEq β] (g : α → β) (b : β) (l : List α) :
    l.find? (fun x => g x == b) = ((l.map g).idxOf? b).bind (fun i => l[i]?) := by
  rw [find?_eq_findIdx?]
  simp only [List.idxOf?, List.findIdx?_map]
  rfl

/-- exactly one element of a list with duplicate-free keys carries the key of a given member -/
theorem filter_key_length_one {α} (g : α → Nat) :
    ∀ (l : List α), (l.map g).Nodup → ∀ c ∈ l,
      (l.filter (fun t => some (g t) == some (g c))).length = 1
  | [], _, c, hc => by simp at hc
  | x :: xs, hn, c, hc => by
    simp only [List.map_cons, List.nodup_cons, List.mem_map, not_exists, not_and] at hn
    rcases List.mem_cons.1 hc with rfl | hc'
    · have : xs.filter (fun t => some (g t) == some (g c)) = [] := by
        rw [List.filter_eq_nil_iff]
        intro a ha
        have := hn.1 a ha
        simpa using this
      rw [List.filter_cons, this]
      simp
    · have hx : (some (g x) == some (g c)) = false := by
        have := hn.1 c hc'
        simp only [Option.some_beq_some, beq_eq_false_iff_ne, ne_eq]
        exact fun h => this h.symm
      rw [List.filter_cons, hx]
      exact filter_key_length_one g xs hn.2 c hc'

/-! ### setHead -/

@[simp] theorem fields_setHead (b : Bool) (t : Tree) :
    (setHead b t).fields = { t.fields with head := some b } := by
  cases t <;> rfl

@[simp] theorem head_setHead (b : Bool) (t : Tree) : (setHead b t).fields.head = some b := by
  cases t <;> rfl

@[simp] theorem edge_setHead (b : Bool) (t : Tree) : (setHead b t).fields.edge = t.fields.edge := by
  cases t <;> rfl

@[simp] theorem label_setHead (b : Bool) (t : Tree) : (setHead b t).fields.label = t.fields.label := by
  cases t <;> rfl

@[simp] theorem kids_setHead (b : Bool) (t : Tree) : (setHead b t).kids = t.kids := by
  cases t <;> rfl

theorem setHead_node (b : Bool) (f : Fields) (ks : List Tree) :
    setHead b (node f ks) = node { f with head := some b } ks := rfl

theorem setHead_leaf (b : Bool) (n : Nat) (f : Fields) :
    setHead b (leaf n f) = leaf n { f with head := some b } := rfl

@[simp] theorem leafNums_setHead (b : Bool) (t : Tree) : (setHead b t).leafNums = t.leafNums := by
  cases t with
  | leaf n f => simp [setHead_leaf, leafNums, leaves, num]
  | node f ks => simp [setHead_node, leafNums, leaves]

theorem leftmost_of_leafNums (t t' : Tree) (h : t.leafNums = t'.leafNums) : leftmost t = leftmost t' := by
  rw [Nav.leftmost_eq_minLeaf, Nav.leftmost_eq_minLeaf, minLeaf, minLeaf, h]

@[simp] theorem leftmost_setHead (b : Bool) (t : Tree) : leftmost (setHead b t) = leftmost t :=
  leftmost_of_leafNums _ _ (leafNums_setHead b t)

@[simp] theorem consLabels_setHead (b : Bool) (t : Tree) : consLabels (setHead b t) = consLabels t := by
  cases t with
  | leaf n f => simp [setHead_leaf, consLabels]
  | node f ks => simp [setHead_node, consLabels]

theorem subtrees_eq (t : Tree) : subtrees t = t :: subtreesL t.kids := by
  cases t <;> simp [subtrees, kids, subtreesL]

/-- a per-node test that does not look at the node's own head flag holds everywhere in `setHead b t`
    iff it does in `t` -/
theorem all_subtrees_setHead (P : Tree → Bool) (hP : ∀ b s, P (setHead b s) = P s) (b : Bool) (t : Tree) :
    (subtrees (setHead b t)).all P = (subtrees t).all P := by
  rw [subtrees_eq (setHead b t), subtrees_eq t, kids_setHead]
  simp [hP]

/-! ### the generic marker -/

mutual
def markG (idx : Fields → List Tree → Nat) : Tree → Tree
  | leaf n f => leaf n f
  | node f ks => node f (markGL idx (keyAt ks (idx f (sortBy leftmost ks))) ks)
def markGL (idx : Fields → List Tree → Nat) (key : Option Nat) : List Tree → List Tree
  | [] => []
  | t :: ts => setHead (some (leftmost t) == key) (markG idx t) :: markGL idx key ts
end

/-- what `markGL` does to one child -/
def mk (idx : Fields → List Tree → Nat) (key : Option Nat) (t : Tree) : Tree :=
  setHead (some (leftmost t) == key) (markG idx t)

theorem markGL_eq (idx : Fields → List Tree → Nat) (key : Option Nat) :
    ∀ ks : List Tree, markGL idx key ks = ks.map (mk idx key)
  | [] => by simp [markGL]
  | t :: ts => by simp [markGL, markGL_eq idx key ts, mk]

theorem markG_node (idx : Fields → List Tree → Nat) (f : Fields) (ks : List Tree) :
    markG idx (node f ks) = node f (ks.map (mk idx (keyAt ks (idx f (sortBy leftmost ks))))) := by
  simp only [markG, markGL_eq]

def negIdx (_ : Fields) (l : List Tree) : Nat := negraIndex (l.map (·.fields.edge))

def ruleIdx (rules : HeadRules) (f : Fields) (l : List Tree) : Nat :=
  headposByRule rules (parseLabel DEFAULT_GF_SEP f.label).label
    (l.map fun c => (parseLabel DEFAULT_GF_SEP c.fields.label).label)

mutual
theorem negraMarkAux_eq : (t : Tree) → negraMarkAux t = markG negIdx t
  | .leaf n f => by simp [negraMarkAux, markG]
  | .node f ks => by simp only [negraMarkAux, markG, negIdx, negraMarkAuxL_eq]
theorem negraMarkAuxL_eq (key : Option Nat) : (ks : List Tree) →
    negraMarkAuxL key ks = markGL negIdx key ks
  | [] => by simp [negraMarkAuxL, markGL]
  | t :: ts => by simp only [negraMarkAuxL, markGL, negraMarkAux_eq t, negraMarkAuxL_eq key ts]
end

mutual
theorem rulesMarkAux_eq (rules : HeadRules) : (t : Tree) → rulesMarkAux rules t = markG (ruleIdx rules) t
  | .leaf n f => by simp [rulesMarkAux, markG]
  | .node f ks => by simp only [rulesMarkAux, markG, ruleIdx, rulesMarkAuxL_eq]
theorem rulesMarkAuxL_eq (rules : HeadRules) (key : Option Nat) : (ks : List Tree) →
    rulesMarkAuxL rules key ks = markGL (ruleIdx rules) key ks
  | [] => by simp [rulesMarkAuxL, markGL]
  | t :: ts => by
    simp only [rulesMarkAuxL, markGL, rulesMarkAux_eq rules t, rulesMarkAuxL_eq rules key ts]
end

/-! ### what marking preserves -/

theorem fields_markG (idx : Fields → List Tree → Nat) (t : Tree) : (markG idx t).fields = t.fields := by
  cases t <;> simp [markG, fields]

mutual
theorem leafNums_markG (idx : Fields → List Tree → Nat) : (t : Tree) → (markG idx t).leafNums = t.leafNums
  | .leaf n f => by simp [markG]
  | .node f ks => by
    simp only [markG, WF.leafNums_node]
    exact leafNums_markGL idx _ ks
theorem leafNums_markGL (idx : Fields → List Tree → Nat) (key : Option Nat) : (ks : List Tree) →
    (markGL idx key ks).flatMap leafNums = ks.flatMap leafNums
  | [] => by simp [markGL]
  | t :: ts => by
    simp only [markGL, List.flatMap_cons, leafNums_setHead, leafNums_markG idx t,
      leafNums_markGL idx key ts]
end

theorem leftmost_markG (idx : Fields → List Tree → Nat) (t : Tree) : leftmost (markG idx t) = leftmost t :=
  leftmost_of_leafNums _ _ (leafNums_markG idx t)

mutual
theorem consLabels_markG (idx : Fields → List Tree → Nat) : (t : Tree) →
    consLabels (markG idx t) = consLabels t
  | .leaf n f => by simp [markG]
  | .node f ks => by
    simp only [markG, consLabels, consLabels_markGL idx _ ks]
theorem consLabels_markGL (idx : Fields → List Tree → Nat) (key : Option Nat) : (ks : List Tree) →
    consLabelsL (markGL idx key ks) = consLabelsL ks
  | [] => by simp [markGL]
  | t :: ts => by
    simp only [markGL, consLabelsL, consLabels_setHead, consLabels_markG idx t,
      consLabels_markGL idx key ts]
end

@[simp] theorem leftmost_mk (idx : Fields → List Tree → Nat) (key : Option Nat) (t : Tree) :
    leftmost (mk idx key t) = leftmost t := by
  simp [mk, leftmost_markG]

@[simp] theorem head_mk (idx : Fields → List Tree → Nat) (key : Option Nat) (t : Tree) :
    (mk idx key t).fields.head = some (some (leftmost t) == key) := by
  simp [mk]

@[simp] theorem edge_mk (idx : Fields → List Tree → Nat) (key : Option Nat) (t : Tree) :
    (mk idx key t).fields.edge = t.fields.edge := by
  simp [mk, fields_markG]

@[simp] theorem label_mk (idx : Fields → List Tree → Nat) (key : Option Nat) (t : Tree) :
    (mk idx key t).fields.label = t.fields.label := by
  simp [mk, fields_markG]

/-- the ordered list of the marked children is the marked ordered list of the children -/
theorem sortBy_leftmost_map_mk (idx : Fields → List Tree → Nat) (key : Option Nat) (ks : List Tree) :
    sortBy leftmost (ks.map (mk idx key)) = (sortBy leftmost ks).map (mk idx key) :=
  sortBy_map leftmost leftmost (mk idx key) (leftmost_mk idx key) ks

theorem sortBy_minLeaf_eq (ks : List Tree) : sortBy minLeaf ks = sortBy leftmost ks :=
  sortBy_congr minLeaf leftmost ks (fun a _ => (Nav.leftmost_eq_minLeaf a).symm)

/-! ### a per-node test holds at every node of the marked tree -/

mutual
theorem all_subtrees_markG (idx : Fields → List Tree → Nat) (Q : Tree → Prop) (P : Tree → Bool)
    (hQ : ∀ f ks, Q (node f ks) → ∀ k ∈ ks, Q k)
    (hP : ∀ b s, P (setHead b s) = P s)
    (hleaf : ∀ n f, P (leaf n f) = true)
    (hnode : ∀ f ks, Q (node f ks) → P (markG idx (node f ks)) = true) :
    (t : Tree) → Q t → (subtrees (markG idx t)).all P = true
  | .leaf n f, _ => by simp [markG, subtrees, hleaf]
  | .node f ks, hq => by
    have h1 := hnode f ks hq
    have h2 := all_subtrees_markGL idx Q P hQ hP hleaf hnode ks (hQ f ks hq)
      (keyAt ks (idx f (sortBy leftmost ks)))
    rw [subtrees_eq, List.all_cons, h1]
    simpa only [markG, kids, Bool.true_and] using h2
theorem all_subtrees_markGL (idx : Fields → List Tree → Nat) (Q : Tree → Prop) (P : Tree → Bool)
    (hQ : ∀ f ks, Q (node f ks) → ∀ k ∈ ks, Q k)
    (hP : ∀ b s, P (setHead b s) = P s)
    (hleaf : ∀ n f, P (leaf n f) = true)
    (hnode : ∀ f ks, Q (node f ks) → P (markG idx (node f ks)) = true) :
    (ks : List Tree) → (∀ k ∈ ks, Q k) → ∀ key, (subtreesL (markGL idx key ks)).all P = true
  | [], _, _ => by simp [markGL, subtreesL]
  | t :: ts, hq, key => by
    simp only [markGL, subtreesL, List.all_append, Bool.and_eq_true]
    refine ⟨?_, all_subtrees_markGL idx Q P hQ hP hleaf hnode ts
      (fun k hk => hq k (List.mem_cons_of_mem _ hk)) key⟩
    rw [all_subtrees_setHead P hP]
    exact all_subtrees_markG idx Q P hQ hP hleaf hnode t (hq t List.mem_cons_self)
end

/-! ### the chosen position is inside the child list -/

theorem idxOf?_lt {α} [BEq α] [LawfulBEq α] {l : List α} {a : α} {i : Nat} (h : l.idxOf? a = some i) :
    i < l.length := by
  obtain ⟨hi, _⟩ := List.idxOf?_eq_some_iff.1 h
  exact hi

theorem negraIndex_lt (edges : List (Option Str)) (h : edges ≠ []) : negraIndex edges < edges.length := by
  have hpos : 0 < edges.length := List.length_pos_iff.2 h
  simp only [negraIndex]
  split
  · rename_i i hi; exact idxOf?_lt hi
  · split
    · omega
    · exact hpos

theorem findL_lt {cats : List Str} {lab : Str} {i : Nat} (h : findL cats lab = some i) : i < cats.length :=
  idxOf?_lt h

theorem findR_lt {cats : List Str} {lab : Str} {i : Nat} (h : findR cats lab = some i) : i < cats.length := by
  simp only [findR, Option.map_eq_some_iff] at h
  obtain ⟨j, hj, rfl⟩ := h
  have := idxOf?_lt hj
  simp only [List.length_reverse] at this
  omega

theorem scanEntry_lt (ltr : Bool) (cats : List Str) : ∀ (labs : List Str) (i : Nat),
    scanEntry ltr cats labs = some i → i < cats.length
  | [], i, h => by simp [scanEntry] at h
  | lab :: rest, i, h => by
    simp only [scanEntry] at h
    split at h
    · rename_i k hk
      cases h
      cases ltr
      · exact findR_lt (by simpa using hk)
      · exact findL_lt (by simpa using hk)
    · exact scanEntry_lt ltr cats rest i h

theorem scanRules_lt (cats : List Str) (h : cats ≠ []) : ∀ ents : List (Bool × List Str),
    scanRules cats ents < cats.length
  | [] => by simpa [scanRules] using List.length_pos_iff.2 h
  | (ltr, []) :: _ => by
    have hpos : 0 < cats.length := List.length_pos_iff.2 h
    simp only [scanRules]
    split <;> omega
  | (ltr, lab :: labs) :: rest => by
    simp only [scanRules]
    split
    · rename_i i hi; exact scanEntry_lt ltr cats _ i hi
    · exact scanRules_lt cats h rest

theorem headposByRule_lt (rules : HeadRules) (parent : Str) (kids : List Str) (h : kids ≠ []) :
    headposByRule rules parent kids < kids.length := by
  have hpos : 0 < kids.length := List.length_pos_iff.2 h
  simp only [headposByRule]
  split
  · exact hpos
  · have := scanRules_lt (kids.map fun c => pyLower (parseLabel DEFAULT_GF_SEP (pyLower c)).label)
      (by simpa using h) ‹_›
    simpa using this

theorem negIdx_lt (f : Fields) (l : List Tree) (h : l ≠ []) : negIdx f l < l.length := by
  have := negraIndex_lt (l.map (·.fields.edge)) (by simpa using h)
  simpa [negIdx] using this

theorem ruleIdx_lt (rules : HeadRules) (f : Fields) (l : List Tree) (h : l ≠ []) :
    ruleIdx rules f l < l.length := by
  have := headposByRule_lt rules (parseLabel DEFAULT_GF_SEP f.label).label
    (l.map fun c => (parseLabel DEFAULT_GF_SEP c.fields.label).label) (by simpa using h)
  simpa [ruleIdx] using this

/-! ### exactly one head per constituent -/

/-- the per-node test of `oneHeadEach` -/
def oneHeadAt (s : Tree) : Bool :=
  match s with
  | node _ (k :: ks) =>
    ((k :: ks).filter (fun c => c.fields.head == some true)).length == 1 &&
    (k :: ks).all (fun c => c.fields.head.isSome)
  | _ => true

theorem oneHeadEach_eq (t : Tree) :
    oneHeadEach t = (t.fields.head == some false && t.subtrees.all oneHeadAt) := rfl

theorem oneHeadAt_node (f : Fields) (l : List Tree) (h : l ≠ []) :
    oneHeadAt (node f l) =
      ((l.filter (fun c => c.fields.head == some true)).length == 1 &&
       l.all (fun c => c.fields.head.isSome)) := by
  cases l with
  | nil => exact absurd rfl h
  | cons k ks => rfl

theorem oneHeadAt_setHead (b : Bool) (s : Tree) : oneHeadAt (setHead b s) = oneHeadAt s := by
  cases s with
  | leaf n f => rfl
  | node f ks => cases ks <;> rfl

theorem oneHeadAt_markG (idx : Fields → List Tree → Nat) (hidx : ∀ f l, l ≠ [] → idx f l < l.length)
    (f : Fields) (ks : List Tree) (hsd : sibDistinct (node f ks) = true) :
    oneHeadAt (markG idx (node f ks)) = true := by
  rw [markG_node]
  cases hks : ks with
  | nil => rfl
  | cons k0 ks0 =>
    rw [← hks]
    have hne : ks ≠ [] := by rw [hks]; simp
    have hnd := (WF.sibDistinct_kids f ks hsd).1
    have hsne : sortBy leftmost ks ≠ [] := by
      intro h; have := sortBy_length leftmost ks; rw [h] at this
      exact hne (List.length_eq_zero_iff.1 this.symm)
    have hlt := hidx f (sortBy leftmost ks) hsne
    obtain ⟨c, hc⟩ : ∃ c, (sortBy leftmost ks)[idx f (sortBy leftmost ks)]? = some c :=
      ⟨_, List.getElem?_eq_getElem hlt⟩
    have hcm : c ∈ ks := (mem_sortBy leftmost ks c).1 (List.mem_of_getElem? hc)
    have hkey : keyAt ks (idx f (sortBy leftmost ks)) = some (leftmost c) := by
      simp [keyAt, hc]
    rw [oneHeadAt_node _ _ (by simpa using hne), hkey]
    simp only [List.filter_map, List.length_map, List.all_map, Bool.and_eq_true, beq_iff_eq,
      List.all_eq_true, Function.comp_apply, head_mk, Option.isSome_some, implies_true, and_true]
    have := filter_key_length_one leftmost ks hnd c hcm
    rw [← this]
    congr 1
    apply List.filter_congr
    intro x _
    simp

theorem oneHeadEach_markG (idx : Fields → List Tree → Nat) (hidx : ∀ f l, l ≠ [] → idx f l < l.length)
    (t : Tree) (hsd : sibDistinct t = true) : oneHeadEach (setHead false (markG idx t)) = true := by
  rw [oneHeadEach_eq, all_subtrees_setHead _ oneHeadAt_setHead]
  simp only [head_setHead, beq_self_eq_true, Bool.true_and]
  exact all_subtrees_markG idx (fun t => sibDistinct t = true) oneHeadAt
    (fun f ks h => (WF.sibDistinct_kids f ks h).2) oneHeadAt_setHead (fun _ _ => rfl)
    (oneHeadAt_markG idx hidx) t hsd

/-! ### the NeGra heuristic -/

def isHD (c : Tree) : Bool := c.fields.edge == some "HD".toList
def isNK (c : Tree) : Bool := c.fields.edge == some "NK".toList

/-- the child the heuristic wants, on an ordered child list -/
def wantOf (cs : List Tree) : Option Tree :=
  match cs.find? isHD with
  | some c => some c
  | none => match cs.reverse.find? isNK with
    | some c => some c
    | none => cs.head?

def negraRuleBody (l : List Tree) : Bool :=
  match wantOf (sortBy minLeaf l) with
  | some c => c.fields.head == some true
  | none => false

/-- the per-node test of `negraRuleOK` -/
def negraRuleAt (s : Tree) : Bool :=
  match s with
  | node _ (k :: ks) => negraRuleBody (k :: ks)
  | _ => true

theorem negraRuleOK_eq (t : Tree) : negraRuleOK t = t.subtrees.all negraRuleAt := rfl

theorem negraRuleAt_node (f : Fields) (l : List Tree) (h : l ≠ []) :
    negraRuleAt (node f l) = negraRuleBody l := by
  cases l with
  | nil => exact absurd rfl h
  | cons k ks => rfl

theorem negraRuleAt_setHead (b : Bool) (s : Tree) : negraRuleAt (setHead b s) = negraRuleAt s := by
  cases s with
  | leaf n f => rfl
  | node f ks => cases ks <;> rfl

/-- the wanted child is the one at position `negraIndex` -/
theorem wantOf_eq (l : List Tree) : wantOf l = l[negraIndex (l.map (·.fields.edge))]? := by
  have hHD : l.find? isHD =
      ((l.map (·.fields.edge)).idxOf? (some "HD".toList)).bind (fun i => l[i]?) :=
    find?_beq_eq_idxOf? (fun c : Tree => c.fields.edge) (some "HD".toList) l
  have hNK : l.reverse.find? isNK =
      (((l.map (·.fields.edge)).reverse).idxOf? (some "NK".toList)).bind (fun i => l.reverse[i]?) := by
    rw [← List.map_reverse]
    exact find?_beq_eq_idxOf? (fun c : Tree => c.fields.edge) (some "NK".toList) l.reverse
  simp only [wantOf, negraIndex, hHD, hNK]
  cases h1 : (l.map (·.fields.edge)).idxOf? (some "HD".toList) with
  | some i =>
    have hi := idxOf?_lt h1
    simp only [List.length_map] at hi
    simp [List.getElem?_eq_getElem hi]
  | none =>
    simp only [Option.bind_none]
    cases h2 : ((l.map (·.fields.edge)).reverse).idxOf? (some "NK".toList) with
    | some j =>
      have hj := idxOf?_lt h2
      simp only [List.length_reverse, List.length_map] at hj
      have hj' : l.length - 1 - j < l.length := by omega
      simp only [Option.bind_some, List.getElem?_reverse hj, List.length_map,
        List.getElem?_eq_getElem hj']
    | none => simp [List.head?_eq_getElem?]

theorem negraRuleAt_markG (f : Fields) (ks : List Tree) : negraRuleAt (markG negIdx (node f ks)) = true := by
  rw [markG_node]
  cases hks : ks with
  | nil => rfl
  | cons k0 ks0 =>
    rw [← hks]
    have hne : ks ≠ [] := by rw [hks]; simp
    have hsne : sortBy leftmost ks ≠ [] := by
      intro h; have := sortBy_length leftmost ks; rw [h] at this
      exact hne (List.length_eq_zero_iff.1 this.symm)
    have hlt := negIdx_lt f (sortBy leftmost ks) hsne
    obtain ⟨c, hc⟩ : ∃ c, (sortBy leftmost ks)[negIdx f (sortBy leftmost ks)]? = some c :=
      ⟨_, List.getElem?_eq_getElem hlt⟩
    have hkey : keyAt ks (negIdx f (sortBy leftmost ks)) = some (leftmost c) := by
      simp [keyAt, hc]
    rw [negraRuleAt_node _ _ (by simpa using hne), hkey, negraRuleBody, sortBy_minLeaf_eq,
      sortBy_leftmost_map_mk, wantOf_eq]
    have hedges : ((sortBy leftmost ks).map (mk negIdx (some (leftmost c)))).map (·.fields.edge)
        = (sortBy leftmost ks).map (·.fields.edge) := by
      simp [List.map_map, Function.comp_def]
    have hidx : negraIndex ((sortBy leftmost ks).map (·.fields.edge)) = negIdx f (sortBy leftmost ks) := rfl
    rw [hedges, hidx, List.getElem?_map, hc]
    simp

/-! ### rule based marking -/

/-- the category of a child as the rule lookup sees it -/
def catOf (c : Tree) : Str :=
  pyLower (parseLabel DEFAULT_GF_SEP (pyLower (parseLabel DEFAULT_GF_SEP c.fields.label).label)).label

/-- the test on the list of children whose category is listed -/
def uniqueHits (ents : List (Bool × List Str)) (hits : List Tree) : Bool :=
  match hits with
  | [c] =>
    if (ents.takeWhile (fun e => !e.2.contains (catOf c))).any (fun e => e.2.isEmpty) then true
    else c.fields.head == some true
  | _ => true

def uniqueBody (rules : HeadRules) (f : Fields) (l : List Tree) : Bool :=
  match lookupRules rules (pyLower (parseLabel DEFAULT_GF_SEP f.label).label) with
  | none => true
  | some ents => uniqueHits ents (l.filter (fun c => (ents.flatMap (·.2)).contains (catOf c)))

theorem uniqueHits_of (ents : List (Bool × List Str)) (hits : List Tree)
    (h : ∀ c, hits = [c] →
      (ents.takeWhile (fun e => !e.2.contains (catOf c))).any (fun e => e.2.isEmpty) = false →
      c.fields.head = some true) : uniqueHits ents hits = true := by
  match hits, h with
  | [], _ => rfl
  | [c], h =>
    simp only [uniqueHits]
    cases hw : (ents.takeWhile (fun e => !e.2.contains (catOf c))).any (fun e => e.2.isEmpty) with
    | true => simp
    | false => simp [h c rfl hw]
  | _ :: _ :: _, _ => rfl

theorem catOf_mk (idx : Fields → List Tree → Nat) (key : Option Nat) (t : Tree) :
    catOf (mk idx key t) = catOf t := by
  simp only [catOf, label_mk]

/-- the per-node test of `uniqueListedOK` -/
def uniqueAt (rules : HeadRules) (s : Tree) : Bool :=
  match s with
  | node f (k :: ks) => uniqueBody rules f (k :: ks)
  | _ => true

theorem uniqueListedOK_eq (rules : HeadRules) (t : Tree) :
    uniqueListedOK rules t = t.subtrees.all (uniqueAt rules) := rfl

theorem uniqueAt_node (rules : HeadRules) (f : Fields) (l : List Tree) (h : l ≠ []) :
    uniqueAt rules (node f l) = uniqueBody rules f l := by
  cases l with
  | nil => exact absurd rfl h
  | cons k ks => rfl

theorem uniqueAt_setHead (rules : HeadRules) (b : Bool) (s : Tree) :
    uniqueAt rules (setHead b s) = uniqueAt rules s := by
  cases s with
  | leaf n f => rfl
  | node f ks => cases ks <;> rfl

theorem findL_some {cats : List Str} {lab : Str} {i : Nat} (h : findL cats lab = some i) :
    cats[i]? = some lab := by
  obtain ⟨hi, h1, _⟩ := List.idxOf?_eq_some_iff.1 h
  rw [List.getElem?_eq_getElem hi, h1]

theorem findR_some {cats : List Str} {lab : Str} {i : Nat} (h : findR cats lab = some i) :
    cats[i]? = some lab := by
  simp only [findR, Option.map_eq_some_iff] at h
  obtain ⟨j, hj, rfl⟩ := h
  obtain ⟨hi, h1, _⟩ := List.idxOf?_eq_some_iff.1 hj
  simp only [List.length_reverse] at hi
  rw [List.getElem_reverse] at h1
  have hlt : cats.length - 1 - j < cats.length := by omega
  rw [List.getElem?_eq_getElem hlt, h1]

theorem findL_none {cats : List Str} {lab : Str} (h : findL cats lab = none) : lab ∉ cats :=
  List.idxOf?_eq_none_iff.1 h

theorem findR_none {cats : List Str} {lab : Str} (h : findR cats lab = none) : lab ∉ cats := by
  simp only [findR, Option.map_eq_none_iff] at h
  have := List.idxOf?_eq_none_iff.1 h
  simpa using this

theorem scanEntry_some (ltr : Bool) (cats : List Str) : ∀ (labs : List Str) (i : Nat),
    scanEntry ltr cats labs = some i → ∃ lab ∈ labs, cats[i]? = some lab
  | [], i, h => by simp [scanEntry] at h
  | lab :: rest, i, h => by
    simp only [scanEntry] at h
    split at h
    · rename_i k hk
      cases h
      refine ⟨lab, List.mem_cons_self, ?_⟩
      cases ltr
      · exact findR_some (by simpa using hk)
      · exact findL_some (by simpa using hk)
    · obtain ⟨lab', hm, hl⟩ := scanEntry_some ltr cats rest i h
      exact ⟨lab', List.mem_cons_of_mem _ hm, hl⟩

theorem scanEntry_none (ltr : Bool) (cats : List Str) : ∀ (labs : List Str),
    scanEntry ltr cats labs = none → ∀ lab ∈ labs, lab ∉ cats
  | [], _, lab, hm => by simp at hm
  | l0 :: rest, h, lab, hm => by
    simp only [scanEntry] at h
    split at h
    · cases h
    · rename_i hk
      rcases List.mem_cons.1 hm with rfl | hm'
      · cases ltr
        · exact findR_none (by simpa using hk)
        · exact findL_none (by simpa using hk)
      · exact scanEntry_none ltr cats rest h lab hm'

/-- if a category `x` occurs among the children and is listed, and no entry with an empty priority list
    comes before the first entry listing `x`, the chosen position carries a listed category -/
theorem scanRules_hit (cats : List Str) (x : Str) (hx : x ∈ cats) : ∀ ents : List (Bool × List Str),
    (∃ e ∈ ents, x ∈ e.2) →
    (ents.takeWhile (fun e => !e.2.contains x)).any (fun e => e.2.isEmpty) = false →
    ∃ lab, lab ∈ ents.flatMap (·.2) ∧ cats[scanRules cats ents]? = some lab
  | [], he, _ => by simp at he
  | (ltr, []) :: rest, _, hw => by simp at hw
  | (ltr, l0 :: labs) :: rest, he, hw => by
    simp only [scanRules]
    split
    · rename_i i hi
      obtain ⟨lab, hm, hl⟩ := scanEntry_some ltr cats _ i hi
      exact ⟨lab, by simp only [List.flatMap_cons, List.mem_append]; exact Or.inl hm, hl⟩
    · rename_i hnone
      have hnot : x ∉ l0 :: labs := fun hm => scanEntry_none ltr cats _ hnone x hm hx
      have hc : (l0 :: labs).contains x = false := by
        simpa using hnot
      have he' : ∃ e ∈ rest, x ∈ e.2 := by
        obtain ⟨e, hm, hxe⟩ := he
        rcases List.mem_cons.1 hm with rfl | hm'
        · exact absurd hxe hnot
        · exact ⟨e, hm', hxe⟩
      have hw' : (rest.takeWhile (fun e => !e.2.contains x)).any (fun e => e.2.isEmpty) = false := by
        rw [List.takeWhile_cons] at hw
        simp only [hc, Bool.not_false, if_true, List.any_cons, List.isEmpty_cons, Bool.false_or] at hw
        exact hw
      obtain ⟨lab, hm, hl⟩ := scanRules_hit cats x hx rest he' hw'
      exact ⟨lab, by simp only [List.flatMap_cons, List.mem_append]; exact Or.inr hm, hl⟩

theorem ruleIdx_eq (rules : HeadRules) (f : Fields) (l : List Tree) (ents : List (Bool × List Str))
    (h : lookupRules rules (pyLower (parseLabel DEFAULT_GF_SEP f.label).label) = some ents) :
    ruleIdx rules f l = scanRules (l.map catOf) ents := by
  simp only [ruleIdx, headposByRule, h, List.map_map]
  rfl

theorem uniqueAt_markG (rules : HeadRules) (f : Fields) (ks : List Tree) :
    uniqueAt rules (markG (ruleIdx rules) (node f ks)) = true := by
  rw [markG_node]
  cases hks : ks with
  | nil => rfl
  | cons k0 ks0 =>
    rw [← hks]
    have hne : ks ≠ [] := by rw [hks]; simp
    rw [uniqueAt_node _ _ _ (by simpa using hne)]
    generalize hkey : keyAt ks (ruleIdx rules f (sortBy leftmost ks)) = key
    unfold uniqueBody
    cases hents : lookupRules rules (pyLower (parseLabel DEFAULT_GF_SEP f.label).label) with
    | none => rfl
    | some ents =>
      simp only []
      have hfilter : (ks.map (mk (ruleIdx rules) key)).filter
            (fun c => (ents.flatMap (·.2)).contains (catOf c))
          = (ks.filter (fun c => (ents.flatMap (·.2)).contains (catOf c))).map (mk (ruleIdx rules) key) := by
        rw [List.filter_map]
        rw [List.filter_congr (q := fun c => (ents.flatMap (·.2)).contains (catOf c))]
        intro x _
        simp only [Function.comp_apply, catOf_mk]
      rw [hfilter]
      apply uniqueHits_of
      intro c hhits hw
      obtain ⟨c0, hc0, rfl⟩ : ∃ c0, ks.filter (fun c => (ents.flatMap (·.2)).contains (catOf c)) = [c0] ∧
          mk (ruleIdx rules) key c0 = c := by
        cases hf : ks.filter (fun c => (ents.flatMap (·.2)).contains (catOf c)) with
        | nil => rw [hf] at hhits; simp at hhits
        | cons a r =>
          rw [hf] at hhits
          cases r with
          | nil =>
            simp only [List.map_cons, List.map_nil, List.cons.injEq, and_true] at hhits
            exact ⟨a, rfl, hhits⟩
          | cons b r' => simp at hhits
      rw [catOf_mk] at hw
      have hmem0 : c0 ∈ ks.filter (fun c => (ents.flatMap (·.2)).contains (catOf c)) := by
        rw [hc0]; exact List.mem_singleton.2 rfl
      obtain ⟨hc0ks, hlisted⟩ := List.mem_filter.1 hmem0
      have hlisted' : catOf c0 ∈ ents.flatMap (·.2) := List.contains_iff_mem.1 hlisted
      have huniq : ∀ c' ∈ sortBy leftmost ks, catOf c' ∈ ents.flatMap (·.2) → c' = c0 := by
        intro c' hc' hl
        have : c' ∈ ks.filter (fun c => (ents.flatMap (·.2)).contains (catOf c)) :=
          List.mem_filter.2 ⟨(mem_sortBy leftmost ks c').1 hc', List.contains_iff_mem.2 hl⟩
        rw [hc0] at this
        exact List.mem_singleton.1 this
      have hx : catOf c0 ∈ (sortBy leftmost ks).map catOf :=
        List.mem_map_of_mem ((mem_sortBy leftmost ks c0).2 hc0ks)
      have he : ∃ e ∈ ents, catOf c0 ∈ e.2 := by
        obtain ⟨e, he, hm⟩ := List.mem_flatMap.1 hlisted'
        exact ⟨e, he, hm⟩
      obtain ⟨lab, hlab, hget⟩ := scanRules_hit _ (catOf c0) hx ents he hw
      rw [← ruleIdx_eq rules f _ ents hents, List.getElem?_map] at hget
      obtain ⟨c', hc', hcl⟩ := Option.map_eq_some_iff.1 hget
      have hc'0 : c' = c0 := huniq c' (List.mem_of_getElem? hc') (hcl ▸ hlab)
      subst hc'0
      have hk : key = some (leftmost c') := by
        rw [← hkey]; simp only [keyAt, hc', Option.map_some]
      rw [head_mk, hk]
      simp

end TT.Lemmas.Heads
