/-
  Helper lemmas of wave 8.
  Part 1 (C08More): how the events of a tree move the LHS and RHS masses of the extracted grammar.
  Part 2 (C02Carry): maps that keep the shape of a tree (`TT.Lemmas.Run.ShapeMap`) and the TIGER-XML writer, the bracket
  writer and the discontinuous-bracket writer on the carried content of a tree.
  Part 3 (C03Run2): the tool's own export reader on a sentence written under arbitrary writer options, in particular in the
  four-column-pair layout (`exportFour`).
-/
import TT.Spec.Grammar
import TT.Lemmas.Extract
import TT.Lemmas.GramBin
import TT.Lemmas.GramOut
import TT.Lemmas.Run
import TT.Lemmas.TigerRT
namespace TT.Lemmas.More8
open TT TT.Tree TT.Spec TT.Lemmas.Extract

/-! ### C08More: events and the two masses -/

/-- contribution of an event to the LHS mass of `s` -/
def lhsHit (s : Str) : Event → Nat
  | .rule f _ _ => if f.head? = some s then 1 else 0
  | .lex .. => 0

/-- contribution of an event to the RHS mass of `s` -/
def rhsHit (s : Str) : Event → Nat
  | .rule f _ _ => (f.drop 1).count s
  | .lex .. => 0

/-- `1` if the tree is a constituent labelled `s` -/
def rootHit (s : Str) (t : Tree) : Nat := if (!t.isLeaf && t.fields.label == s) = true then 1 else 0

theorem foldl_applyEvent_mass (s : Str) (evs : List Event) : ∀ st : Grammar × Lexicon,
    lhsMass (evs.foldl applyEvent st).1 s = lhsMass st.1 s + (evs.map (lhsHit s)).sum ∧
    rhsMass (evs.foldl applyEvent st).1 s = rhsMass st.1 s + (evs.map (rhsHit s)).sum := by
  induction evs with
  | nil => intro st; simp
  | cons e evs ih =>
    intro st
    obtain ⟨h1, h2⟩ := ih (applyEvent st e)
    simp only [List.foldl_cons, List.map_cons, List.sum_cons]
    rw [h1, h2]
    cases e with
    | rule f l v =>
      simp only [applyEvent, TT.Lemmas.GramBin.lhsMass_add, TT.Lemmas.GramBin.rhsMass_add, lhsHit, rhsHit]
      constructor <;> omega
    | lex w t => simp [applyEvent, lhsHit, rhsHit]

/-- summing a weight over the events of a constituent, children in any order -/
theorem sum_events_node (w : Event → Nat) (ctx : List Str) (f : Fields) (ks : List Tree) (h : ks ≠ []) :
    ((events ctx (node f ks)).map w).sum =
      w (.rule (funcOf (node f ks)) (linOf (node f ks)) (vertLabel (node f ks) :: ctx)) +
        (ks.map fun k => ((events (vertLabel (node f ks) :: ctx) k).map w).sum).sum := by
  rw [events_node ctx f ks h, List.map_cons, List.sum_cons]
  have hp : ((children (node f ks)).flatMap (events (vertLabel (node f ks) :: ctx))).Perm
      (ks.flatMap (events (vertLabel (node f ks) :: ctx))) :=
    (sortBy_perm leftmost ks).flatMap_right _
  rw [(hp.map w).sum_nat, sum_flatMap_nat]

theorem sum_rootHit_le_count (s : Str) : ∀ ks : List Tree,
    (ks.map (rootHit s)).sum ≤ (ks.map (·.fields.label)).count s
  | [] => by simp
  | k :: ks => by
    have ih := sum_rootHit_le_count s ks
    simp only [List.map_cons, List.sum_cons, List.count_cons]
    have : rootHit s k ≤ if (k.fields.label == s) = true then 1 else 0 := by
      unfold rootHit
      by_cases h : k.fields.label = s <;> cases k.isLeaf <;> simp [h]
    omega

theorem sum_le_sum_add {α} (a b c : α → Nat) : ∀ l : List α, (∀ x ∈ l, a x ≤ b x + c x) →
    (l.map a).sum ≤ (l.map b).sum + (l.map c).sum
  | [], _ => by simp
  | x :: l, h => by
    have ih := sum_le_sum_add a b c l (fun y hy => h y (List.mem_cons_of_mem _ hy))
    have := h x List.mem_cons_self
    simp only [List.map_cons, List.sum_cons]
    omega

theorem sum_le_sum {α} (a b : α → Nat) : ∀ l : List α, (∀ x ∈ l, a x ≤ b x) → (l.map a).sum ≤ (l.map b).sum
  | [], _ => by simp
  | x :: l, h => by
    have ih := sum_le_sum a b l (fun y hy => h y (List.mem_cons_of_mem _ hy))
    have := h x List.mem_cons_self
    simp only [List.map_cons, List.sum_cons]
    omega

/-- the first event of a constituent rewrites its label -/
theorem rootHit_le_events (s : Str) (t : Tree) (ctx : List Str) (h : t.noEmpty = true) :
    rootHit s t ≤ ((events ctx t).map (lhsHit s)).sum := by
  cases t with
  | leaf n f => simp [rootHit, isLeaf]
  | node f ks =>
    obtain ⟨hne, _⟩ := (TT.Lemmas.WF.noEmpty_node f ks).1 h
    rw [sum_events_node _ ctx f ks hne]
    have hf : (node f ks).fields = f := rfl
    simp only [rootHit, isLeaf, lhsHit, funcOf, hf, List.head?_cons, Option.some.injEq, Bool.not_false,
      Bool.true_and, beq_iff_eq]
    omega

/-- every other rewriting of `s` in the tree is matched by an occurrence of `s` on a right-hand side -/
theorem events_lhs_le (s : Str) (t : Tree) : ∀ ctx : List Str, t.noEmpty = true →
    ((events ctx t).map (lhsHit s)).sum ≤ rootHit s t + ((events ctx t).map (rhsHit s)).sum := by
  induction t using TT.Lemmas.WF.tree_ind with
  | hl n f => intro ctx _; simp [events_leaf, lhsHit]
  | hn f ks ih =>
    intro ctx h
    obtain ⟨hne, hk⟩ := (TT.Lemmas.WF.noEmpty_node f ks).1 h
    rw [sum_events_node _ ctx f ks hne, sum_events_node _ ctx f ks hne]
    have h1 := sum_le_sum_add
      (fun k => ((events (vertLabel (node f ks) :: ctx) k).map (lhsHit s)).sum) (rootHit s)
      (fun k => ((events (vertLabel (node f ks) :: ctx) k).map (rhsHit s)).sum) ks
      (fun k hkm => ih k hkm _ (hk k hkm))
    have h2 := sum_rootHit_le_count s ks
    have h3 : ((sortBy leftmost ks).map (·.fields.label)).count s = (ks.map (·.fields.label)).count s :=
      ((sortBy_perm leftmost ks).map _).count_eq s
    have hf : (node f ks).fields = f := rfl
    simp only [rootHit, isLeaf, lhsHit, rhsHit, funcOf, hf, kids, List.head?_cons, Option.some.injEq,
      Bool.not_false, Bool.true_and, beq_iff_eq, List.drop_succ_cons, List.drop_zero] at h3 ⊢
    omega

theorem extract_mass (s : Str) (t : Tree) (st : Grammar × Lexicon) :
    lhsMass (extract t st).1 s = lhsMass st.1 s + ((events [] t).map (lhsHit s)).sum ∧
    rhsMass (extract t st).1 s = rhsMass st.1 s + ((events [] t).map (rhsHit s)).sum :=
  foldl_applyEvent_mass s (events [] t) st

theorem foldl_extract_mass (s : Str) (ts : List Tree) : ∀ st : Grammar × Lexicon,
    lhsMass (ts.foldl (fun st t => extract t st) st).1 s =
      lhsMass st.1 s + (ts.map fun t => ((events [] t).map (lhsHit s)).sum).sum ∧
    rhsMass (ts.foldl (fun st t => extract t st) st).1 s =
      rhsMass st.1 s + (ts.map fun t => ((events [] t).map (rhsHit s)).sum).sum := by
  induction ts with
  | nil => intro st; simp
  | cons t ts ih =>
    intro st
    obtain ⟨h1, h2⟩ := ih (extract t st)
    obtain ⟨h3, h4⟩ := extract_mass s t st
    simp only [List.foldl_cons, List.map_cons, List.sum_cons]
    rw [h1, h2, h3, h4]
    omega

theorem extractAll_mass (s : Str) (ts : List Tree) :
    lhsMass (extractAll ts).1 s = (ts.map fun t => ((events [] t).map (lhsHit s)).sum).sum ∧
    rhsMass (extractAll ts).1 s = (ts.map fun t => ((events [] t).map (rhsHit s)).sum).sum := by
  obtain ⟨h1, h2⟩ := foldl_extract_mass s ts ([], [])
  unfold extractAll
  rw [h1, h2]
  simp [lhsMass, rhsMass, Grammar.rules]

/-- a symbol that is on no right-hand side has no RHS mass -/
theorem rhsMass_eq_zero (g : Grammar) (s : Str) (hs : s ∉ (g.flatMap fun (f, _) => f.drop 1)) : rhsMass g s = 0 := by
  rw [TT.Lemmas.GramBin.rhsMass_eq_wmass]
  unfold TT.Lemmas.GramBin.wmass
  apply List.sum_eq_zero_iff_forall_eq_nat.2
  intro x hx
  obtain ⟨p, hp, rfl⟩ := List.mem_map.1 hx
  have : (p.1.drop 1).count s = 0 := by
    apply List.count_eq_zero.2
    intro hm
    exact hs (List.mem_flatMap.2 ⟨p, hp, hm⟩)
  show (p.1.drop 1).count s * _ = 0
  rw [this, Nat.zero_mul]

theorem sum_rootHit (s : Str) (ts : List Tree) :
    (ts.map (rootHit s)).sum = (ts.filter fun t => !t.isLeaf && t.fields.label == s).length := by
  induction ts with
  | nil => rfl
  | cons t ts ih =>
    simp only [List.map_cons, List.sum_cons, List.filter_cons, ih, rootHit]
    split <;> simp <;> omega

/-- unique decomposition `X ++ " " ++ D` with `D` free of blanks -/
theorem append_sp_inj : ∀ (a b d e : Str), ' ' ∉ d → ' ' ∉ e → a ++ [' '] ++ d = b ++ [' '] ++ e → a = b ∧ d = e
  | [], [], d, e, _, _, h => by simpa using h
  | [], y :: b, d, e, hd, _, h => by
    simp only [List.nil_append, List.cons_append, List.cons.injEq] at h
    obtain ⟨rfl, rfl⟩ := h
    exact absurd (by simp) hd
  | x :: a, [], d, e, _, he, h => by
    simp only [List.nil_append, List.cons_append, List.cons.injEq] at h
    obtain ⟨rfl, rfl⟩ := h
    exact absurd (by simp) he
  | x :: a, y :: b, d, e, hd, he, h => by
    simp only [List.cons_append, List.cons.injEq] at h
    obtain ⟨rfl, h⟩ := h
    obtain ⟨rfl, rfl⟩ := append_sp_inj a b d e hd he (by simpa using h)
    exact ⟨rfl, rfl⟩

theorem natToStr_no_blank (n : Nat) : ' ' ∉ natToStr n := by
  intro h
  have := TT.Lemmas.GramOut.natToStr_noSpace n ' ' h
  revert this
  decide

/-! ### C02Carry: maps that keep the shape, and the TIGER-XML and bracket writers -/

section carry
open TT.Lemmas.Run TT.Lemmas.WF TT.Lemmas.Nav TT.Lemmas.Write TT.Lemmas.TigerRT

theorem leavesL_flatMap : ∀ ks : List Tree, leavesL ks = ks.flatMap leaves
  | [] => rfl
  | t :: ts => by simp [leavesL, leavesL_flatMap ts]

/-- the tokens of a tree are tokens, and subtrees -/
theorem mem_leaves_leaf (t : Tree) : ∀ l ∈ leaves t, (∃ n f, l = leaf n f) ∧ l ∈ subtrees t := by
  induction t using tree_ind with
  | hl n f =>
    intro l hl
    simp only [leaves, List.mem_singleton] at hl
    subst hl
    exact ⟨⟨n, f, rfl⟩, by simp [subtrees]⟩
  | hn f ks ih =>
    intro l hl
    simp only [leaves, leavesL_flatMap, List.mem_flatMap] at hl
    obtain ⟨k, hk, hlk⟩ := hl
    exact ⟨(ih k hk l hlk).1, (mem_subtrees_node f ks l).2 (Or.inr ⟨k, hk, (ih k hk l hlk).2⟩)⟩

section shape
variable {g : Tree → Tree} (hg : ShapeMap g)
include hg

theorem shape_num (k : Tree) : num (g k) = num k := by
  cases k with
  | leaf n f => obtain ⟨f', h⟩ := hg.leaf n f; rw [h]; rfl
  | node f ks => obtain ⟨f', h⟩ := hg.node f ks; rw [h]; rfl

theorem shape_leaves (k : Tree) : leaves (g k) = (leaves k).map g := by
  induction k using tree_ind with
  | hl n f => obtain ⟨f', h⟩ := hg.leaf n f; rw [h]; simp [leaves, h]
  | hn f ks ih =>
    obtain ⟨f', h⟩ := hg.node f ks
    rw [h]
    simp only [leaves, leavesL_flatMap, List.flatMap_map, List.map_flatMap]
    exact flatMap_congr' _ _ ks ih

theorem shape_terminals (f f' : Fields) (ks : List Tree) :
    terminals (node f' (ks.map g)) = (terminals (node f ks)).map g := by
  unfold terminals
  rw [← sortBy_map num num g (shape_num hg)]
  congr 1
  simp only [leaves, leavesL_flatMap, List.flatMap_map, List.map_flatMap]
  exact flatMap_congr' _ _ ks (fun k _ => shape_leaves hg k)

theorem shape_terminals_sub (k : Tree) : terminals (g k) = (terminals k).map g := by
  unfold terminals
  rw [← sortBy_map num num g (shape_num hg), shape_leaves hg k]

omit hg in
theorem postorderPK_map (hl : ∀ k, leftmost (g k) = leftmost k) : ∀ (ks : List Tree) (i : Nat),
    (∀ k ∈ ks, postorderP (g k) = postorderP k) → postorderPK (ks.map g) i = postorderPK ks i
  | [], _, _ => rfl
  | k :: ks, i, h => by
    simp only [List.map_cons, postorderPK, hl, h k List.mem_cons_self,
      postorderPK_map hl ks (i + 1) (fun c hc => h c (List.mem_cons_of_mem _ hc))]

theorem shape_postorderP_sub (k : Tree) : Tree.postorderP (g k) = Tree.postorderP k := by
  induction k using tree_ind with
  | hl n f => obtain ⟨f', h⟩ := hg.leaf n f; rw [h]; rfl
  | hn f ks ih =>
    obtain ⟨f', h⟩ := hg.node f ks
    rw [h]
    simp only [Tree.postorderP, postorderPK_map hg.good.leftmost_eq ks 0 ih]

theorem shape_postorderP (f f' : Fields) (ks : List Tree) :
    Tree.postorderP (node f' (ks.map g)) = Tree.postorderP (node f ks) := by
  simp only [Tree.postorderP, postorderPK_map hg.good.leftmost_eq ks 0 (fun k _ => shape_postorderP_sub hg k)]

theorem orderedIdx_map (ks : List Tree) : orderedIdx (ks.map g) = orderedIdx ks := by
  unfold orderedIdx
  rw [List.length_map, List.zip_map_right,
    sortBy_map (fun p : Nat × Tree => p.2.leftmost) (fun p : Nat × Tree => p.2.leftmost) (Prod.map id g)
      (fun a => hg.good.leftmost_eq a.2)]
  simp [List.map_map, Function.comp_def]

end shape

theorem filterMap_flatMap_congr {α β γ : Type} (F F' : α → Option β) (G G' : β → List γ) : ∀ L : List α,
    (∀ a ∈ L, ((F' a).map G').getD [] = ((F a).map G).getD []) →
    (L.filterMap F').flatMap G' = (L.filterMap F).flatMap G
  | [], _ => rfl
  | a :: L, h => by
    have ih := filterMap_flatMap_congr F F' G G' L (fun b hb => h b (List.mem_cons_of_mem _ hb))
    have ha := h a List.mem_cons_self
    rw [List.filterMap_cons, List.filterMap_cons]
    cases h1 : F a <;> cases h2 : F' a <;> simp_all

/-! #### TIGER-XML -/

theorem shapeMap_carryTiger : ShapeMap carryTiger where
  leaf n f := ⟨_, by rw [carryTiger]⟩
  node f ks := ⟨_, by rw [carryTiger, carryTigerL_eq]⟩

theorem tokS_carryTiger (n : Nat) (f : Fields) : tokS (carryTiger (leaf n f)) = tokS (leaf n f) := by
  simp [tokS, carryTiger, fields, num, dflt]

theorem edgeLab_carryTiger (c : Option Tree) : edgeLab (c.map carryTiger) = edgeLab c := by
  cases c with
  | none => rfl
  | some k => cases k <;> simp [edgeLab, carryTiger, fields]

theorem edgeRef_carryTiger (T T' : Tree) (hnum : ∀ p, numOf T' p = numOf T p) (p : Path) (i : Nat) (c : Option Tree) :
    edgeRef T' p i (c.map carryTiger) = edgeRef T p i c := by
  cases c with
  | none => simp [edgeRef, hnum]
  | some k => cases k <;> simp [edgeRef, carryTiger, hnum]

theorem ntBlock_carryTiger (T T' : Tree) (hnum : ∀ p, numOf T' p = numOf T p) (p : Path) (fa fb : Fields)
    (ksa : List Tree) (hlab : fa.label = fb.label) :
    ntBlock T' (p, node fa (ksa.map carryTiger)) = ntBlock T (p, node fb ksa) := by
  simp only [ntBlock, fields, kids, childOrder, orderedIdx_map shapeMap_carryTiger, List.getElem?_map,
    edgeLab_carryTiger, edgeRef_carryTiger T T' hnum, hnum, hlab]

/-- the TIGER-XML writer on a root whose children are replaced by their carried content -/
theorem writeTiger_shape_carryTiger (sid : Nat) (f f' : Fields) (ks : List Tree) (hlab : f'.label = f.label) :
    writeTiger sid (node f' (ks.map carryTiger)) = writeTiger sid (node f ks) := by
  have hnum : ∀ p, numOf (node f' (ks.map carryTiger)) p = numOf (node f ks) p := by
    intro p; simp only [numOf, shape_exportNum shapeMap_carryTiger f f' ks p]
  rw [writeTiger_eq, writeTiger_eq, hnum [], shape_terminals shapeMap_carryTiger f f' ks, List.map_map]
  have hterm : (terminals (node f ks)).map ((fun l => ind4 (tokS l)) ∘ carryTiger) =
      (terminals (node f ks)).map (fun l => ind4 (tokS l)) := by
    apply List.map_congr_left
    intro l hl
    obtain ⟨⟨n, f0, rfl⟩, _⟩ := mem_leaves_leaf _ l ((mem_sortBy num _ l).1 hl)
    simp only [Function.comp_apply, tokS_carryTiger]
  have hcons : (consList (node f' (ks.map carryTiger))).flatMap (ntBlock (node f' (ks.map carryTiger))) =
      (consList (node f ks)).flatMap (ntBlock (node f ks)) := by
    unfold consList
    rw [shape_postorderP shapeMap_carryTiger f f' ks]
    apply filterMap_flatMap_congr
    intro p _
    cases p with
    | nil =>
      simp only [Tree.get?]
      cases ks with
      | nil => rfl
      | cons k ks' =>
        simp only [List.map_cons, Option.map_some, Option.getD_some]
        exact ntBlock_carryTiger _ _ hnum [] f' f (k :: ks') hlab
    | cons i q =>
      rw [shape_get? shapeMap_carryTiger f f' ks i q]
      cases Tree.get? (node f ks) (i :: q) with
      | none => rfl
      | some s =>
        cases s with
        | leaf n f0 => simp only [Option.map_some, carryTiger]; rfl
        | node f0 ks0 =>
          cases ks0 with
          | nil => simp only [Option.map_some, carryTiger, carryTigerL]; rfl
          | cons k0 ks0' =>
            simp only [Option.map_some, carryTiger, carryTigerL, Option.getD_some]
            rw [carryTigerL_eq]
            exact ntBlock_carryTiger _ _ hnum (i :: q) _ f0 (k0 :: ks0') rfl
  rw [hterm, hcons]

theorem writeTiger_leaf_carry (sid n : Nat) (f : Fields) :
    writeTiger sid (carryTiger (leaf n f)) = writeTiger sid (leaf n f) := by
  rw [writeTiger_eq, writeTiger_eq]
  simp [carryTiger, terminals, leaves, sortBy, insertBy, consList, Tree.postorderP, Tree.get?, numOf, exportNum, tokS, fields,
    num, dflt]
  rfl

/-! #### bracket formats -/

/-- mapping the parentheses twice gives what mapping them once gives -/
def ParenStable (s : Str) : Prop := replaceParens (replaceParens s) = replaceParens s

theorem parenStable_of_fixed (s : Str) (h : replaceParens s = s) : ParenStable s := by
  unfold ParenStable; rw [h, h]

theorem brackets_key_special : ∀ kv ∈ Gen.BRACKETS,
    ∃ c ∈ kv.1, c = '(' ∨ c = ')' ∨ c = '[' ∨ c = ']' ∨ c = '{' ∨ c = '}' ∨ c = '-' := by decide

theorem brackets_key_nondigit : ∀ kv ∈ Gen.BRACKETS, ∃ c ∈ kv.1, c.isDigit = false := by decide

/-- a string without `-` is stable: all brackets are gone after the first pass and no `-LRB-` can arise -/
theorem parenStable_of_no_dash (s : Str) (h : '-' ∉ s) : ParenStable s := by
  unfold ParenStable
  rw [replaceParens_eq, replaceParens_eq]
  apply replFold_id
  intro kv hkv hinf
  obtain ⟨c, hc, hcc⟩ := brackets_key_special kv hkv
  have hmem : c ∈ replFold Gen.BRACKETS s := hinf.subset hc
  refine not_mem_replFold c Gen.BRACKETS (brackets_vals c hcc) s ?_ hmem
  rcases hcc with rfl | rfl | rfl | rfl | rfl | rfl | rfl
  · right; exact ⟨("(".toList, "LRB".toList), by decide, rfl⟩
  · right; exact ⟨(")".toList, "RRB".toList), by decide, rfl⟩
  · right; exact ⟨("[".toList, "LSB".toList), by decide, rfl⟩
  · right; exact ⟨("]".toList, "RSB".toList), by decide, rfl⟩
  · right; exact ⟨("{".toList, "LCB".toList), by decide, rfl⟩
  · right; exact ⟨("}".toList, "RCB".toList), by decide, rfl⟩
  · left; exact h

theorem replaceParens_natToStr (n : Nat) : replaceParens (natToStr n) = natToStr n := by
  rw [replaceParens_eq]
  apply replFold_id
  intro kv hkv hinf
  obtain ⟨c, hc, hcc⟩ := brackets_key_nondigit kv hkv
  have := TT.Lemmas.GramOut.natToStr_isDigit n c (hinf.subset hc)
  rw [this] at hcc
  cases hcc

theorem bracketsKids_map (o : OutOpts) (g : Tree → Tree) (hl : ∀ k, leftmost (g k) = leftmost k) : ∀ ks : List Tree,
    (∀ k ∈ ks, bracketsSub o false (g k) = bracketsSub o false k) → bracketsKids o (ks.map g) = bracketsKids o ks
  | [], _ => rfl
  | k :: ks, h => by
    simp only [List.map_cons, bracketsKids, hl, h k List.mem_cons_self,
      bracketsKids_map o g hl ks (fun c hc => h c (List.mem_cons_of_mem _ hc))]

theorem leftmost_carryBrackets (o : OutOpts) (r : Bool) (k : Tree) : leftmost (carryBrackets o r k) = leftmost k :=
  leftmost_of_perm _ _ (by rw [leafNums_carry])

/-- no option that needs the `head` / `split` keys (which no format carries); `gf` is allowed -/
def NoMarks (o : OutOpts) : Prop := o.markHeads = false ∧ o.splitMarking = false ∧ o.splitNumbering = false

theorem noMarks_of_plain (o : OutOpts) (ho : PlainOpts o) : NoMarks o := ⟨ho.2.1, ho.2.2.1, ho.2.2.2⟩

theorem getLabel_ok_noMarks (o : OutOpts) (hm : NoMarks o) (t : Tree) : getLabel o t = .ok (printedLabel o t) := by
  obtain ⟨h2, h3, h4⟩ := hm
  have : ∃ l, getLabel o t = .ok l := by
    unfold getLabel
    simp only [h2, h3, h4, Bool.false_eq_true, if_false]
    exact ⟨_, rfl⟩
  obtain ⟨l, hl⟩ := this
  rw [hl, printedLabel_eq_of_ok o t l hl]

/-- a node without edge label is printed with its bare label (the default edge label `--` is never appended) -/
theorem printedLabel_no_edge (o : OutOpts) (hm : NoMarks o) (t : Tree) (he : t.fields.edge = none) :
    printedLabel o t = t.fields.label := by
  obtain ⟨h2, h3, h4⟩ := hm
  apply printedLabel_eq_of_ok
  unfold getLabel
  simp only [h2, h3, h4, he, Bool.false_eq_true, if_false, Option.getD_none]
  have : (DEFAULT_EDGE.head? = some '-') := rfl
  simp only [this, decide_true, Bool.not_true, Bool.and_false, Bool.false_and, Bool.false_eq_true, if_false]
  simp [pure, Except.pure, bind, Except.bind]

/-- the printed label does not depend on the keys `get_label` does not read -/
theorem printedLabel_congr (o : OutOpts) (t t' : Tree) (h1 : t'.fields.label = t.fields.label)
    (h2 : t'.fields.edge = t.fields.edge) (h3 : t'.fields.head = t.fields.head) (h4 : t'.fields.split = t.fields.split)
    (h5 : t'.fields.blockNumber = t.fields.blockNumber) (h6 : t'.kids.isEmpty = t.kids.isEmpty) :
    printedLabel o t' = printedLabel o t := by
  have : getLabel o t' = getLabel o t := by
    unfold getLabel
    simp only [h1, h2, h3, h4, h5, h6]
  have this2 : getLabel o (fillMarks t') = getLabel o (fillMarks t) := by
    unfold getLabel
    have g1 : (fillMarks t').fields.label = (fillMarks t).fields.label := by
      cases t <;> cases t' <;> simpa [fillMarks, setFields, fields] using h1
    have g2 : (fillMarks t').fields.edge = (fillMarks t).fields.edge := by
      cases t <;> cases t' <;> simp only [fields] at h2 <;> simp [fillMarks, setFields, fields, h2]
    have g3 : (fillMarks t').fields.head = (fillMarks t).fields.head := by
      cases t <;> cases t' <;> simp only [fields] at h3 <;> simp [fillMarks, setFields, fields, h3]
    have g4 : (fillMarks t').fields.split = (fillMarks t).fields.split := by
      cases t <;> cases t' <;> simp only [fields] at h4 <;> simp [fillMarks, setFields, fields, h4]
    have g5 : (fillMarks t').fields.blockNumber = (fillMarks t).fields.blockNumber := by
      cases t <;> cases t' <;> simpa [fillMarks, setFields, fields] using h5
    have g6 : (fillMarks t').kids.isEmpty = (fillMarks t).kids.isEmpty := by
      cases t <;> cases t' <;> simpa [fillMarks, setFields, kids] using h6
    simp only [g1, g2, g3, g4, g5, g6]
  unfold printedLabel
  rw [getLabel_setEdge, getLabel_setEdge, this, this2, h1]

theorem bracketsSub_leaf_nm (o : OutOpts) (hm : NoMarks o) (er : Bool) (n : Nat) (f : Fields) :
    bracketsSub o er (leaf n f) =
      .ok (['('] ++ printedLabel o (leaf n (replaceParensFields f)) ++ [' '] ++
        ((f.word.map replaceParens).getD "None".toList) ++ [')']) := by
  rw [bracketsSub, getLabel_ok_noMarks o hm]
  rfl

theorem bracketsSub_empty_nm (o : OutOpts) (hm : NoMarks o) (er : Bool) (f : Fields) :
    bracketsSub o er (node f []) =
      .ok (['('] ++ printedLabel o (node (replaceParensFields f) []) ++ [' '] ++
        ((f.word.map replaceParens).getD "None".toList) ++ [')']) := by
  rw [bracketsSub]
  simp only [List.isEmpty_nil, if_true]
  rw [getLabel_ok_noMarks o hm]
  rfl

theorem bracketsSub_node_nm (o : OutOpts) (hm : NoMarks o) (er : Bool) (f : Fields) (k : Tree) (ks : List Tree) :
    bracketsSub o er (node f (k :: ks)) =
      match bracketsKids o (k :: ks) with
      | .ok parts => .ok (['('] ++ (if er then [] else printedLabel o (node f (k :: ks))) ++
          ((sortBy (·.1) parts).map (·.2)).flatten ++ [')'])
      | .error e => .error e := by
  rw [bracketsSub]
  simp only [List.isEmpty_cons, Bool.false_eq_true, if_false]
  rw [getLabel_ok_noMarks o hm]
  cases er <;> cases bracketsKids o (k :: ks) <;> rfl

/-- the bracket writer on the carried content of a subtree (`r` = "is the root"); `gf` decoration allowed -/
theorem bracketsSub_carry (o : OutOpts) (hm : NoMarks o) (t : Tree) : ∀ r : Bool,
    (∀ n f, leaf n f ∈ subtrees t →
      replaceParens (printedLabel o (leaf n (replaceParensFields f))) = printedLabel o (leaf n (replaceParensFields f)) ∧
      ∀ w, f.word = some w → ParenStable w) →
    (∀ f, node f [] ∈ subtrees t →
      replaceParens (printedLabel o (node f [])) = printedLabel o (node (replaceParensFields f) []) ∧
      (f.word.map replaceParens).getD "None".toList = "None".toList) →
    ((r && o.emptyRoot) = true → ∀ f, t ≠ node f []) →
    bracketsSub o (r && o.emptyRoot) (carryBrackets o r t) = bracketsSub o (r && o.emptyRoot) t := by
  induction t using tree_ind with
  | hl n f =>
    intro r h1 _ _
    obtain ⟨hlab, hword⟩ := h1 n f (by simp [subtrees])
    rw [carryBrackets, bracketsSub_leaf_nm o hm, bracketsSub_leaf_nm o hm, printedLabel_no_edge o hm _ rfl]
    simp only [fields, replaceParensFields]
    simp only [replaceParensFields] at hlab
    rw [hlab]
    cases hw : f.word with
    | none => rfl
    | some w => simp only [Option.map_some, Option.getD_some]; rw [hword w hw]
  | hn f ks ih =>
    intro r h1 h2 h3
    cases ks with
    | nil =>
      have her : (r && o.emptyRoot) = false := by
        cases her : (r && o.emptyRoot) with
        | false => rfl
        | true => exact absurd rfl (h3 her f)
      obtain ⟨hlab, hword⟩ := h2 f (by simp [subtrees])
      rw [carryBrackets, carryBracketsL, bracketsSub_empty_nm o hm, bracketsSub_empty_nm o hm, her,
        printedLabel_no_edge o hm _ rfl, hword]
      simp only [fields, replaceParensFields, Bool.false_eq_true, if_false]
      simp only [replaceParensFields] at hlab
      rw [hlab]
      rfl
    | cons k ks' =>
      rw [carryBrackets, carryBracketsL_eq]
      simp only [List.map_cons]
      rw [bracketsSub_node_nm o hm, bracketsSub_node_nm o hm, ← List.map_cons,
        bracketsKids_map o (carryBrackets o false) (leftmost_carryBrackets o false) (k :: ks')]
      · rw [printedLabel_no_edge o hm _ rfl]
        cases (r && o.emptyRoot) <;> rfl
      · intro c hc
        have := ih c hc false
          (fun n f0 hm' => h1 n f0 ((mem_subtrees_node f (k :: ks') _).2 (Or.inr ⟨c, hc, hm'⟩)))
          (fun f0 hm' => h2 f0 ((mem_subtrees_node f (k :: ks') _).2 (Or.inr ⟨c, hc, hm'⟩)))
          (by simp)
        simpa using this

theorem gapDegreeNode_carryBrackets (o : OutOpts) (r : Bool) (t : Tree) :
    gapDegreeNode (carryBrackets o r t) = gapDegreeNode t := by
  cases t with
  | leaf n f => rw [carryBrackets]; rfl
  | node f ks =>
    have h := leafNums_carry o r (node f ks)
    rw [carryBrackets] at h ⊢
    simp only [gapDegreeNode, yield_eq, h]

theorem contAll_carryBrackets (o : OutOpts) (t : Tree) : ∀ r : Bool,
    (∀ s ∈ subtrees (carryBrackets o r t), gapDegreeNode s = 0) ↔ (∀ s ∈ subtrees t, gapDegreeNode s = 0) := by
  induction t using tree_ind with
  | hl n f => intro r; rw [carryBrackets]; simp [subtrees, gapDegreeNode]
  | hn f ks ih =>
    intro r
    have hroot := gapDegreeNode_carryBrackets o r (node f ks)
    rw [carryBrackets, carryBracketsL_eq] at hroot ⊢
    constructor
    · intro h s hs
      rcases (mem_subtrees_node f ks s).1 hs with rfl | ⟨k, hk, hsk⟩
      · rw [← hroot]; exact h _ ((mem_subtrees_node _ _ _).2 (Or.inl rfl))
      · exact (ih k hk false).1 (fun s' hs' => h s' ((mem_subtrees_node _ _ _).2
          (Or.inr ⟨_, List.mem_map_of_mem hk, hs'⟩))) s hsk
    · intro h s hs
      rcases (mem_subtrees_node _ _ s).1 hs with rfl | ⟨k', hk', hsk⟩
      · rw [hroot]; exact h _ ((mem_subtrees_node _ _ _).2 (Or.inl rfl))
      · obtain ⟨k, hk, rfl⟩ := List.mem_map.1 hk'
        exact (ih k hk false).2 (fun s' hs' => h s' ((mem_subtrees_node _ _ _).2 (Or.inr ⟨k, hk, hs'⟩))) s hsk

theorem gapDegree_zero_carryBrackets (o : OutOpts) (r : Bool) (t : Tree) :
    gapDegree (carryBrackets o r t) = 0 ↔ gapDegree t = 0 := by
  rw [gapDegree_zero_iff_subtrees', gapDegree_zero_iff_subtrees']
  exact contAll_carryBrackets o t r

/-- the bracket writer looks only at what the bracket format carries -/
theorem writeBrackets_carry_nm (o : OutOpts) (hm : NoMarks o) (t : Tree)
    (h1 : ∀ n f, leaf n f ∈ subtrees t →
      replaceParens (printedLabel o (leaf n (replaceParensFields f))) = printedLabel o (leaf n (replaceParensFields f)) ∧
      ∀ w, f.word = some w → ParenStable w)
    (h2 : ∀ f, node f [] ∈ subtrees t →
      replaceParens (printedLabel o (node f [])) = printedLabel o (node (replaceParensFields f) []) ∧
      (f.word.map replaceParens).getD "None".toList = "None".toList)
    (h3 : o.emptyRoot = true → ∀ f, t ≠ node f []) :
    writeBrackets o (carryBrackets o true t) = writeBrackets o t := by
  have hb := bracketsSub_carry o hm t true h1 h2 (by simpa using h3)
  simp only [Bool.true_and] at hb
  unfold writeBrackets
  by_cases hg : gapDegree t = 0
  · have hg' := (gapDegree_zero_carryBrackets o true t).2 hg
    simp only [hg, hg', Nat.lt_irrefl, if_false, hb, gt_iff_lt]
  · have hg' : ¬ gapDegree (carryBrackets o true t) = 0 := fun h => hg ((gapDegree_zero_carryBrackets o true t).1 h)
    simp only [gt_iff_lt, Nat.pos_of_ne_zero hg, Nat.pos_of_ne_zero hg', if_true]

/-! #### discontinuous brackets -/

theorem wordsToNumsL_eq : ∀ ks : List Tree, wordsToNumsL ks = ks.map wordsToNums
  | [] => rfl
  | t :: ts => by simp [wordsToNumsL, wordsToNumsL_eq ts]

theorem subtrees_wordsToNums (t : Tree) : subtrees (wordsToNums t) = (subtrees t).map wordsToNums := by
  induction t using tree_ind with
  | hl n f => simp [wordsToNums, subtrees]
  | hn f ks ih =>
    rw [wordsToNums, wordsToNumsL_eq, subtrees_node', subtrees_node', List.map_cons, List.flatMap_map, List.map_flatMap,
      wordsToNums, wordsToNumsL_eq]
    congr 1
    exact flatMap_congr' _ _ ks ih

/-- numbering the tokens commutes with taking the carried content (whatever the options) -/
theorem wordsToNums_carryBrackets (o : OutOpts) (t : Tree) : ∀ r : Bool,
    wordsToNums (carryBrackets o r t) = carryBrackets o r (wordsToNums t) := by
  induction t using tree_ind with
  | hl n f =>
    intro r
    simp only [carryBrackets, wordsToNums, Option.map_some, replaceParens_natToStr]
    rw [printedLabel_congr o (leaf n (replaceParensFields { f with word := some (natToStr n) })) (leaf n (replaceParensFields f))
      rfl rfl rfl rfl rfl rfl]
  | hn f ks ih =>
    intro r
    simp only [carryBrackets, wordsToNums, carryBracketsL_eq, wordsToNumsL_eq, List.map_map]
    rw [printedLabel_congr o (node f (ks.map wordsToNums)) (node f ks) rfl rfl rfl rfl rfl (by simp [kids])]
    congr 1
    apply List.map_congr_left
    intro k hk
    exact ih k hk false

theorem terminals_carryBrackets (o : OutOpts) (r : Bool) (t : Tree) :
    terminals (carryBrackets o r t) = (terminals t).map (carryBrackets o false) := by
  have hs : ShapeMap (carryBrackets o false) :=
    { leaf := fun n f => ⟨_, by rw [carryBrackets]⟩, node := fun f ks => ⟨_, by rw [carryBrackets, carryBracketsL_eq]⟩ }
  cases t with
  | leaf n f => simp [carryBrackets, terminals, leaves, sortBy, insertBy]
  | node f ks => rw [carryBrackets, carryBracketsL_eq]; exact shape_terminals hs f _ ks

/-- the discontinuous-bracket writer looks only at what the bracket format carries -/
theorem writeDisco_carry_nm (o : OutOpts) (hm : NoMarks o) (t : Tree)
    (h1 : ∀ n f, leaf n f ∈ subtrees t →
      replaceParens (printedLabel o (leaf n (replaceParensFields f))) = printedLabel o (leaf n (replaceParensFields f)) ∧
      (f.word.map replaceParens).getD "None".toList = f.word.getD "None".toList)
    (h2 : ∀ f, node f [] ∈ subtrees t →
      replaceParens (printedLabel o (node f [])) = printedLabel o (node (replaceParensFields f) []) ∧
      (f.word.map replaceParens).getD "None".toList = "None".toList)
    (h3 : o.emptyRoot = true → ∀ f, t ≠ node f []) :
    writeDisco o (carryBrackets o true t) = writeDisco o t := by
  have hsub : ∀ s, s ∈ subtrees (wordsToNums t) → ∃ s0 ∈ subtrees t, wordsToNums s0 = s := by
    intro s hs
    rw [subtrees_wordsToNums] at hs
    exact List.mem_map.1 hs
  have hb := bracketsSub_carry o hm (wordsToNums t) true
    (by
      intro n f hm'
      obtain ⟨s0, hs0, he⟩ := hsub _ hm'
      cases s0 with
      | leaf n0 f0 =>
        simp only [wordsToNums, leaf.injEq] at he
        obtain ⟨rfl, rfl⟩ := he
        refine ⟨?_, ?_⟩
        · rw [printedLabel_congr o (leaf n0 (replaceParensFields f0))
            (leaf n0 (replaceParensFields { f0 with word := some (natToStr n0) })) rfl rfl rfl rfl rfl rfl]
          exact (h1 n0 f0 hs0).1
        · intro w hw
          simp only [Option.some.injEq] at hw
          subst hw
          exact parenStable_of_fixed _ (replaceParens_natToStr n0)
      | node f0 ks0 => simp [wordsToNums] at he)
    (by
      intro f hm'
      obtain ⟨s0, hs0, he⟩ := hsub _ hm'
      cases s0 with
      | leaf n0 f0 => simp [wordsToNums] at he
      | node f0 ks0 =>
        simp only [wordsToNums, wordsToNumsL_eq, node.injEq, List.map_eq_nil_iff] at he
        obtain ⟨rfl, rfl⟩ := he
        exact h2 f0 hs0)
    (by
      intro her f he
      simp only [Bool.true_and] at her
      cases t with
      | leaf n0 f0 => simp [wordsToNums] at he
      | node f0 ks0 =>
        simp only [wordsToNums, wordsToNumsL_eq, node.injEq, List.map_eq_nil_iff] at he
        obtain ⟨rfl, rfl⟩ := he
        exact h3 her f0 rfl)
  simp only [Bool.true_and] at hb
  unfold writeDisco
  rw [wordsToNums_carryBrackets o t true, hb, terminals_carryBrackets, List.map_map]
  have hsent : (terminals t).map ((fun l => l.fields.word.getD "None".toList) ∘ carryBrackets o false) =
      (terminals t).map (fun l => l.fields.word.getD "None".toList) := by
    apply List.map_congr_left
    intro l hl
    obtain ⟨⟨n, f0, rfl⟩, hsub'⟩ := mem_leaves_leaf _ l ((mem_sortBy num _ l).1 hl)
    simp only [Function.comp_apply, carryBrackets, fields]
    exact (h1 n f0 hsub').2
  rw [hsent]

end carry

/-! ### C03Run2: the tool's own export reader on a sentence written under arbitrary writer options
    (the chain `rentry` … `exportSentence_write` of `TT/Lemmas/ExportRT.lean`, which is about the options `{}`, with the writer
    options as a parameter; the reader's options stay `{}`) -/

section export4
open TT.Lemmas.ExportRT TT.Lemmas.Write TT.Lemmas.GramOut TT.Lemmas.WF TT.Lemmas.Nav

theorem leftmost_nf_carryO (o : OutOpts) (k : Tree) : leftmost (nf (carryExport o k)) = leftmost k := by
  rw [leftmost_nf]
  exact leftmost_of_perm _ _ (by rw [leafNums_carryExport])

/-- the fields the reader parses from the line of the node at `p` -/
def rentryO (o : OutOpts) (t : Tree) (p : Path) : ExpFields :=
  { word := wordOf t p,
    lemma := (if o.exportFour then (subAt t p).fields.lemma.getD DEFAULT_LEMMA else DEFAULT_LEMMA),
    label := printedLabel o (subAt t p), morph := (subAt t p).fields.morph.getD DEFAULT_MORPH,
    edge := (subAt t p).fields.edge.getD DEFAULT_EDGE, parent := numOf t p.dropLast }

/-- the node table of the reader -/
def nodesTO (o : OutOpts) (t : Tree) : List (Nat × ExpFields) :=
  (tokPaths t).map (fun p => (numOf t p, rentryO o t p)) ++ (consPaths t).map (fun p => (numOf t p, rentryO o t p))

theorem kidNums_consO (o : OutOpts) (t : Tree) (hwf : WF t = true) (p : Path) (hc : isCons t p = true) :
    ((nodesTO o t).filter fun x => x.2.parent == numOf t p).map (·.1) = (kidPaths t p).map (numOf t) := by
  unfold nodesTO kidPaths
  rw [List.filter_append, List.map_append,
    parent_filter_gen (rentryO o t) (·.parent) t (fun _ => rfl) hwf p hc _ (fun q hq => (mem_tok_cons t q).1 (List.mem_append_left _ hq)),
    parent_filter_gen (rentryO o t) (·.parent) t (fun _ => rfl) hwf p hc _ (fun q hq => (mem_tok_cons t q).1 (List.mem_append_right _ hq)),
    List.filter_append, List.map_append]

/-- no line names a token as its parent -/
theorem kidNums_tokO (o : OutOpts) (t : Tree) (hwf : WF t = true) (hN : t.leafNums.length < 500)
    (p : Path) (hp : p ∈ tokPaths t) :
    ((nodesTO o t).filter fun x => x.2.parent == numOf t p).map (·.1) = [] := by
  have hb := numOf_tok_bounds t p hwf hp
  rw [List.map_eq_nil_iff, List.filter_eq_nil_iff]
  intro x hx
  unfold nodesTO at hx
  rw [← List.map_append] at hx
  obtain ⟨q, hq, rfl⟩ := List.mem_map.1 hx
  obtain ⟨hq1, hq2⟩ := (mem_tok_cons t q).1 hq
  have hcq := isCons_dropLast t q hq1 hq2
  show ¬ ((rentryO o t q).parent == numOf t p) = true
  have e : (rentryO o t q).parent = numOf t q.dropLast := rfl
  rw [e, beq_iff_eq]
  by_cases h0 : q.dropLast = []
  · rw [h0, numOf_root t (WF_root t hwf).1]; omega
  · have := numOf_cons_range t _ hcq h0
    omega

theorem find_node_tokO (o : OutOpts) (t : Tree) (hwf : WF t = true) (p : Path) (hp : p ∈ tokPaths t) :
    (nodesTO o t).find? (·.1 == numOf t p) = some (numOf t p, rentryO o t p) := by
  unfold nodesTO
  rw [List.find?_append, find?_map_key (numOf t) (rentryO o t) _ p hp (fun q hq h => numOf_tok_inj t hwf p q hp hq h)]
  rfl

theorem find_node_consO (o : OutOpts) (t : Tree) (hwf : WF t = true) (hok : ExportOK o t = true) (hN : t.leafNums.length < 500)
    (p : Path) (hp : p ∈ consPaths t) :
    (nodesTO o t).find? (·.1 == numOf t p) = some (numOf t p, rentryO o t p) := by
  have hb := numOf_cons_bounds o t p hwf hok hp
  unfold nodesTO
  rw [List.find?_append, find?_map_key_none (numOf t) (rentryO o t) _ _ (fun q hq => by
      have := numOf_tok_bounds t q hwf hq; omega),
    find?_map_key (numOf t) (rentryO o t) _ p hp (fun q hq h =>
      numOf_inj t q p (WF_root t hwf).1 (isCons_of_mem_consPaths t q hq) (isCons_of_mem_consPaths t p hp) h)]
  rfl

theorem find_node_rootO (o : OutOpts) (t : Tree) (hwf : WF t = true) (hok : ExportOK o t = true) :
    (nodesTO o t).find? (·.1 == 0) = none := by
  unfold nodesTO
  rw [List.find?_append, find?_map_key_none (numOf t) (rentryO o t) _ _ (fun q hq => by
      have := numOf_tok_bounds t q hwf hq; omega),
    find?_map_key_none (numOf t) (rentryO o t) _ _ (fun q hq => by
      have := numOf_cons_bounds o t q hwf hok hq; omega)]
  rfl

/-- the children of a constituent are rebuilt by the reader (given that every lower node is) -/
theorem exportBuild_kidsO (o : OutOpts) (t : Tree) (hwf : WF t = true) (fuel : Nat) (p : Path) (f : Fields) (ks : List Tree)
    (hp : p ∈ paths t) (hs : subAt t p = node f ks)
    (ih : ∀ q ∈ paths t, q ≠ [] → height (subAt t q) < fuel →
      ∃ d, exportBuild (nodesTO o t) fuel (numOf t q) = some d ∧ nf d = nf (carryExport o (subAt t q)))
    (hh : height (subAt t p) ≤ fuel) :
    ∃ ds, ((kidPaths t p).map (numOf t)).mapM (exportBuild (nodesTO o t) fuel) = some ds ∧
      sortBy leftmost ((sortBy leftmost ds).map nf) = sortBy leftmost ((carryExportL o ks).map nf) := by
  rw [List.mapM_map]
  obtain ⟨ds, hds, hmap⟩ := mapM_option_some (exportBuild (nodesTO o t) fuel ∘ numOf t) nf
    (fun q => nf (carryExport o (subAt t q))) (kidPaths t p) (by
      intro q hq
      obtain ⟨hq1, hq2, hq3⟩ := height_kid_lt t p f ks hp hs q hq
      exact ih q hq1 hq2 (by omega))
  refine ⟨ds, hds, ?_⟩
  have hkeys := kids_leftmost_nodup t p f ks hwf hp hs
  have h2 : sortBy leftmost (ds.map nf) = sortBy leftmost ((carryExportL o ks).map nf) := by
    rw [hmap, carryExportL_eq, List.map_map]
    exact sortBy_kids_eq t p f ks hp hs _ (kidPaths_perm t p f ks hp hs) (nf ∘ carryExport o)
      (fun k => leftmost_nf_carryO o k) hkeys
  rw [← h2]
  refine (sortBy_perm_eq leftmost _ _ ((sortBy_perm leftmost ds).map nf).symm ?_).symm
  have h3 : ((ds.map nf).map leftmost).Perm ((carryExportL o ks).map nf |>.map leftmost) := by
    have a := (sortBy_perm leftmost (ds.map nf)).map leftmost
    have b := (sortBy_perm leftmost ((carryExportL o ks).map nf)).map leftmost
    rw [h2] at a
    exact a.symm.trans b
  refine h3.symm.nodup ?_
  rw [carryExportL_eq, List.map_map, List.map_map]
  have : ((leftmost ∘ nf) ∘ carryExport o) = leftmost := funext (fun k => leftmost_nf_carryO o k)
  rw [this]; exact hkeys

theorem carry_leaf_eqO (o : OutOpts) (t : Tree) (p : Path) (n : Nat) (f : Fields) (hs : subAt t p = leaf n f)
    (hw : f.word.isSome = true) :
    leaf n (fieldsOf (rentryO o t p)) = carryExport o (leaf n f) := by
  obtain ⟨w, hw⟩ := Option.isSome_iff_exists.1 hw
  simp only [fieldsOf, rentryO, wordOf, hs, carryExport, kids, fields, List.isEmpty_nil, if_true, hw, Option.getD_some]
  cases o.exportFour <;> rfl

theorem carry_node_eqO (o : OutOpts) (t : Tree) (p : Path) (f : Fields) (ks : List Tree) (hs : subAt t p = node f ks) :
    { fieldsOf (rentryO o t p) with word := none } = { (carryExport o (node f ks)).fields with word := none } := by
  simp only [fieldsOf, rentryO, hs, carryExport, fields]
  cases o.exportFour <;> rfl

/-- every non-root node is rebuilt by the reader from its number -/
theorem exportBuild_subO (o : OutOpts) (t : Tree) (hwf : WF t = true) (hok : ExportOK o t = true) (hN : t.leafNums.length < 500) :
    ∀ fuel, ∀ q ∈ paths t, q ≠ [] → height (subAt t q) < fuel →
      ∃ d, exportBuild (nodesTO o t) fuel (numOf t q) = some d ∧ nf d = nf (carryExport o (subAt t q)) := by
  have hne := WF_noEmpty t hwf
  intro fuel
  induction fuel with
  | zero => intro q _ _ h; omega
  | succ fuel ih =>
    intro q hq hq0 hh
    cases hs : subAt t q with
    | leaf n f =>
      have hqt : q ∈ tokPaths t := (mem_tokPaths t q).2 ⟨hq, hq0, by rw [hs]; rfl⟩
      rw [exportBuild_succ, kidNums_tokO o t hwf hN q hqt, find_node_tokO o t hwf q hqt]
      refine ⟨_, rfl, ?_⟩
      dsimp only
      rw [numOf_leaf t q n f hq hs, carry_leaf_eqO o t q n f hs (word_isSome_of_ok o t q n f hok hq hs)]
    | node f ks =>
      have hk : (subAt t q).kids.isEmpty = false := by
        rw [kids_isEmpty_eq_isLeaf _ (noEmpty_subAt t q hne hq), hs]; rfl
      have hqc : q ∈ consPaths t := (mem_consPaths t q).2 ⟨hq, hq0, hk⟩
      have hc := isCons_of_mem_consPaths t q hqc
      obtain ⟨ds, hds, hsort⟩ := exportBuild_kidsO o t hwf fuel q f ks hq hs ih (by omega)
      rw [exportBuild_succ, kidNums_consO o t hwf q hc, find_node_consO o t hwf hok hN q hqc, hds,
        if_neg (by rw [kidPaths_ne_nil t hne q f ks hq hs]; simp)]
      refine ⟨_, rfl, ?_⟩
      dsimp only
      rw [nf_node, hsort, carryExport, nf_node, carry_node_eqO o t q f ks hs]
      rfl

/-- the root is rebuilt by the reader -/
theorem exportBuild_rootTreeO (o : OutOpts) (t : Tree) (hwf : WF t = true) (hok : ExportOK o t = true)
    (hN : t.leafNums.length < 500) (fuel : Nat) (hf : height t ≤ fuel) :
    ∃ d, exportBuild (nodesTO o t) (fuel + 1) 0 = some d ∧ nf d = nf (carryExportRoot o t) := by
  have hroot := (WF_root t hwf).1
  have hne := WF_noEmpty t hwf
  cases ht : t with
  | leaf n f => rw [ht] at hwf; simp [WF, isLeaf] at hwf
  | node f ks =>
    rw [← ht]
    have hs : subAt t [] = node f ks := by rw [subAt_nil, ht]
    obtain ⟨ds, hds, hsort⟩ := exportBuild_kidsO o t hwf fuel [] f ks (nil_mem_paths t) hs
      (exportBuild_subO o t hwf hok hN fuel) (by rw [subAt_nil]; exact hf)
    have hk := kidNums_consO o t hwf [] hroot
    rw [numOf_root t hroot] at hk
    rw [exportBuild_succ, hk, find_node_rootO o t hwf hok, hds,
      if_neg (by rw [kidPaths_ne_nil t hne [] f ks (nil_mem_paths t) hs]; simp)]
    refine ⟨_, rfl, ?_⟩
    dsimp only
    rw [ht, carryExportRoot_node, nf_node, nf_node, hsort]

/-- the numbering pass of the reader yields the node table -/
theorem foldl_rstep_nodesO (o : OutOpts) (t : Tree) (hwf : WF t = true) (hok : ExportOK o t = true) :
    (((tokPaths t ++ consPaths t).map (rentryO o t)).foldl rstep ([], 1)).1 = nodesTO o t := by
  have hne := WF_noEmpty t hwf
  rw [List.map_append, List.foldl_append,
    foldl_rstep_toks (rentryO o t) (numOf t) (tokPaths t) [] 1 (fun q hq => rIsCons_of_none _ (consNumber_tok o t q hne hok hq))
      (by rw [tokPaths_nums t hwf, tokPaths_length t hwf]),
    foldl_rstep_cons (rentryO o t) (numOf t) (consPaths t) _ _ (fun q hq => rIsCons_of_some _ _ (consNumber_cons o t q hwf hok hq))]
  rfl

theorem nodesTO_small (o : OutOpts) (t : Tree) (hwf : WF t = true) (hok : ExportOK o t = true) (hN : t.leafNums.length < 500) :
    (nodesTO o t).any (fun (n, _) => n > 999) = false := by
  rw [List.any_eq_false]
  intro x hx
  unfold nodesTO at hx
  rcases List.mem_append.1 hx with hx | hx
  · obtain ⟨q, hq, rfl⟩ := List.mem_map.1 hx
    have := numOf_tok_bounds t q hwf hq
    simp; omega
  · obtain ⟨q, hq, rfl⟩ := List.mem_map.1 hx
    have := numOf_cons_bounds o t q hwf hok hq
    simp; omega

theorem length_nodesTO (o : OutOpts) (t : Tree) : (nodesTO o t).length = (bodyOf o t).length := by
  simp [nodesTO, bodyOf]

/-- the reader on the body lines of a sentence written under the options `o`, given that it parses each line -/
theorem exportSentence_writeO (o : OutOpts) (t : Tree) (hwf : WF t = true) (hok : ExportOK o t = true)
    (hN : t.leafNums.length < 500)
    (hpl : ∀ p ∈ tokPaths t ++ consPaths t, exportParseLine {} (lineAt o t p) = .ok (rentryO o t p)) :
    ∃ r, exportSentence {} ((tokPaths t ++ consPaths t).map (lineAt o t)) = .ok r ∧ nf r = nf (carryExportRoot o t) := by
  have hparse : ((tokPaths t ++ consPaths t).map (lineAt o t)).mapM (exportParseLine {}) =
      .ok ((tokPaths t ++ consPaths t).map (rentryO o t)) := by
    have : ∀ (L : List Path), (∀ p ∈ L, p ∈ tokPaths t ++ consPaths t) →
        (L.map (lineAt o t)).mapM (exportParseLine {}) = .ok (L.map (rentryO o t)) := by
      intro L
      induction L with
      | nil => intro _; rfl
      | cons p L ih =>
        intro h
        rw [List.map_cons, List.mapM_cons, hpl p (h p (by simp)), ih (fun q hq => h q (by simp [hq]))]
        rfl
    exact this _ (fun p hp => hp)
  obtain ⟨d, hd, hnf⟩ := exportBuild_rootTreeO o t hwf hok hN ((nodesTO o t).length + 1) (by
    rw [length_nodesTO]; exact height_le_body o t)
  refine ⟨d, ?_, hnf⟩
  rw [exportSentence_eq, hparse]
  show (if ((((tokPaths t ++ consPaths t).map (rentryO o t)).foldl rstep ([], 1)).1).any (fun (n, _) => n > 999) then throw Err.valueError
      else match exportBuild (((tokPaths t ++ consPaths t).map (rentryO o t)).foldl rstep ([], 1)).1
          ((((tokPaths t ++ consPaths t).map (rentryO o t)).foldl rstep ([], 1)).1.length + 2) 0 with
        | some t => pure t
        | none => throw Err.other) = Except.ok d
  rw [foldl_rstep_nodesO o t hwf hok, nodesTO_small o t hwf hok hN, hd]
  rfl

/-! #### parsing a line of the four-column-pair layout -/

theorem splitWs_of_decExpLine_v4 (line : Str) (e : ExpNode) (h : decExpLine true line = some e) :
    ∃ p, splitWs line = [e.word, e.lemma, e.label, e.morph, e.edge, p] ∧ strToNat? p = some e.parent := by
  unfold decExpLine at h
  split at h
  · rename_i hf
    cases hf
  · rename_i w le l m ed p hs _
    cases hp : strToNat? p with
    | none => simp [hp] at h
    | some pn =>
      simp only [hp, Option.map_some, Option.some.injEq] at h
      subst h
      exact ⟨p, hs, hp⟩
  · cases h

/-- six fields, the fifth (the edge label) not a number: the reader takes the line for the four-column-pair layout -/
theorem exportParseLine_of_split6 (o : InOpts) (hgf : o.gfSplit = false) (line w le l m e p : Str) (pn : Nat)
    (hs : splitWs line = [w, le, l, m, e, p]) (he : pyIsDigit e = false) (hp : strToNat? p = some pn)
    (hr : pn = 0 ∨ (500 ≤ pn ∧ pn < 1000)) :
    exportParseLine o line = .ok { word := w, lemma := le, label := l, morph := m, edge := e, parent := pn } := by
  have hrange : (!((decide (500 ≤ pn) && decide (pn < 1000)) || pn == 0)) = false := by
    rcases hr with rfl | ⟨h1, h2⟩ <;> simp [*]
  unfold exportParseLine
  simp only [hs]
  have h4 : [w, le, l, m, e, p][4]? = some e := rfl
  rw [h4]
  simp only [he, Bool.false_eq_true, if_false, hp, hrange, hgf]

/-- the reader parses the line of the node at `p` written in the four-column-pair layout, unless its edge label is a number -/
theorem parse_lineAt4 (o : OutOpts) (t : Tree) (p : Path) (hwf : WF t = true)
    (hok : ExportOK o t = true) (hp : p ∈ paths t) (hp0 : p ≠ [])
    (hedge : pyIsDigit ((subAt t p).fields.edge.getD DEFAULT_EDGE) = false)
    (h : decExpLine true (lineAt o t p) = some (entry o t p)) :
    exportParseLine {} (lineAt o t p) = .ok (rentryO o t p) := by
  obtain ⟨pp, hs, hpp⟩ := splitWs_of_decExpLine_v4 _ _ h
  have hc := isCons_dropLast t p hp hp0
  have hr : (entry o t p).parent = 0 ∨ (500 ≤ (entry o t p).parent ∧ (entry o t p).parent < 1000) := by
    have e : (entry o t p).parent = numOf t p.dropLast := rfl
    rw [e]
    by_cases h0 : p.dropLast = []
    · left; rw [h0, numOf_root t (WF_root t hwf).1]
    · right
      have hm : p.dropLast ∈ consPaths t := by
        have hp' := mem_paths_of_isCons t _ hc
        rw [isCons_eq t _ hp'] at hc
        exact (mem_consPaths t _).2 ⟨hp', h0, by simpa using hc⟩
      exact numOf_cons_bounds o t _ hwf hok hm
  exact exportParseLine_of_split6 {} rfl _ _ _ _ _ _ _ _ hs hedge hpp hr

/-- what the reader's loop needs to know about a body line -/
theorem lineAt_loop_okO (o : OutOpts) (t : Tree) (p : Path) (l : Str) (hne : t.noEmpty = true) (hok : ExportOK o t = true)
    (hp : p ∈ paths t) (h : exportLine o (subAt t p) (wordOf t p) (numOf t p.dropLast) = .ok l)
    (heos : "#EOS".toList.isPrefixOf (wordOf t p) = false) :
    '\n' ∉ lineAt o t p ∧ strip (lineAt o t p) = lineAt o t p ∧ "#EOS".toList.isPrefixOf (lineAt o t p) = false := by
  have hl : lineAt o t p = l := lineOf_ok h
  rw [hl]
  obtain ⟨mid, rfl, hmid⟩ := exportLine_shape o _ _ _ l h
  have hs := ExportOK_sub o t _ hok (mem_subtrees_subAt t p hp)
  obtain ⟨hw1, hw2⟩ := wordOf_ok o t p hne hok hp
  have hmid' : ∀ c ∈ mid, c = '\t' ∨ pyIsSpace c = false := by
    intro c hc
    rcases hmid c hc with h | h | h | h | h
    · exact Or.inl h
    · exact Or.inr (((fieldOK_iff _).1 hs.1).2 c h)
    · exact Or.inr (((fieldOK_iff _).1 hs.2.1).2 c h)
    · exact Or.inr (((fieldOK_iff _).1 hs.2.2.1).2 c h)
    · exact Or.inr (((fieldOK_iff _).1 hs.2.2.2.1).2 c h)
  refine ⟨?_, ?_, ?_⟩
  · intro hc
    simp only [List.mem_append, List.mem_cons] at hc
    rcases hc with hc | hc | hc | hc
    · have := hw2 _ hc; revert this; decide
    · revert hc; decide
    · rcases hmid' _ hc with h | h
      · revert h; decide
      · revert h; decide
    · have := natToStr_noSpace _ _ hc; revert this; decide
  · obtain ⟨r', c', hr', hc'⟩ := natToStr_last (numOf t p.dropLast)
    cases hw : wordOf t p with
    | nil => exact absurd hw hw1
    | cons c r =>
      refine strip_id _ c (r ++ '\t' :: (mid ++ natToStr (numOf t p.dropLast))) c' (c :: r ++ '\t' :: (mid ++ r')) (by simp)
        (hw2 c (by rw [hw]; simp)) (by rw [hr']; simp) hc'
  · cases hpre : "#EOS".toList.isPrefixOf (wordOf t p ++ '\t' :: (mid ++ natToStr (numOf t p.dropLast))) with
    | false => rfl
    | true =>
      have := isPrefixOf_before_tab _ _ _ (by rw [eos4_eq]; decide) hpre
      rw [heos] at this; cases this

end export4
end TT.Lemmas.More8
