/-
  Lemmas/Mid19 — helpers for Props/C03Mid19 (TIGER-XML as the middle format; file lifts).
  * `NoNtMorph`            hypothesis `hm` of `C03Chain.export_tiger_export_id` as a predicate
  * `readBack_facts`       what the export reader delivers for a written sentence can go through TIGER-XML without loss
  * `each₂_readBack_ok`    ... for every sentence of a file
  * `bodyText_tigerBack`   the export text of the trees the TIGER-XML reader delivers for them is the export text of the file
-/
import TT.Props.C03Conv19
namespace TT.Lemmas.Mid19
open TT TT.Tree TT.Spec
open TT.Lemmas.Run TT.Lemmas.ExportRT TT.Lemmas.WF TT.Lemmas.More12h TT.Props.C03Total TT.Props.C01Readers TT.Props.C03Chain

/-- no constituent below the root carries morphology (`<nt>` has no such attribute) -/
def NoNtMorph (t : Tree) : Prop :=
  ∀ k ∈ t.kids, ∀ s ∈ subtrees k, s.isLeaf = false → s.fields.morph.getD DEFAULT_MORPH = DEFAULT_MORPH

instance (t : Tree) : Decidable (NoNtMorph t) := by unfold NoNtMorph; infer_instance

/-- a tree with the normal form of the export content of a good sentence: well formed, export-sized, `VROOT`-rooted, nothing
    TIGER-XML cannot hold, written by the export writer as the sentence itself -/
theorem readBack_facts (t r : Tree) (hnf : nf r = nf (carryExportRoot {} t)) (hs : SentOK t) (hm : NoNtMorph t) :
    WF r = true ∧ r.leafNums.length < 500 ∧ r.fields.label = DEFAULT_ROOT ∧
      (∀ k ∈ r.kids, ∀ s ∈ subtrees k, TigerKeeps s) ∧ ∀ sid, writeExport {} sid r = writeExport {} sid t := by
  obtain ⟨hwf, hok, hN, _⟩ := hs
  obtain ⟨wc, _⟩ := writeExport_carry_WF {} ⟨rfl, rfl, rfl, rfl⟩ 0 t hwf
  obtain ⟨wr, _⟩ := writeExport_of_nf_eq {} 0 _ r wc hnf
  have hlen : r.leafNums.length = t.leafNums.length := by
    have h1 := (goodMap_nf.leafNums_perm r).length_eq
    have h2 := (goodMap_nf.leafNums_perm (carryExportRoot {} t)).length_eq
    rw [← h1, hnf, h2]
    cases t with
    | leaf n f => simp [WF, isLeaf] at hwf
    | node f ks =>
      rw [carryExportRoot_node, leafNums_node, leafNums_node, carryExportL_eq, List.flatMap_map]
      exact congrArg List.length (TT.Lemmas.Write.flatMap_congr' _ _ ks (fun k _ => leafNums_carryExport {} k))
  have hroot : r.fields.label = DEFAULT_ROOT := by
    rw [← nf_label, hnf, nf_label]
    cases t with
    | leaf n f => simp [WF, isLeaf] at hwf
    | node f ks => rw [carryExportRoot_node]; rfl
  have hka : KeepsAll r := keepsAll_of_nf_eq _ r hnf (keepsAll_carryExportRoot t hwf hok hm)
  refine ⟨wr, by rw [hlen]; exact hN, hroot, ?_, ?_⟩
  · intro k hk s hs
    cases r with
    | leaf n f => simp [kids] at hk
    | node f ks => exact hka s (mem_subtrees_kid f ks k s hk hs)
  · intro sid
    obtain ⟨_, ec⟩ := writeExport_carry_WF {} ⟨rfl, rfl, rfl, rfl⟩ sid t hwf
    obtain ⟨_, er⟩ := writeExport_of_nf_eq {} sid _ r wc hnf
    rw [er, ec]

theorem nf_of_readBack (r p : Nat × Tree) (h : ReadBack r p) : nf r.2 = nf (carryExportRoot {} p.2) := eq_of_beq _ _ h.2.1

/-- every tree read back from a file of good sentences is well formed and export-sized -/
theorem each₂_readBack_ok : ∀ (rs sents : List (Nat × Tree)), Each₂ ReadBack rs sents →
    (∀ p ∈ sents, SentOK p.2 ∧ NoNtMorph p.2) → ∀ st ∈ rs, WF st.2 = true ∧ st.2.leafNums.length < 500
  | [], [], _, _ => by simp
  | [], _ :: _, h, _ => h.elim
  | _ :: _, [], h, _ => h.elim
  | r :: rs, p :: sents, h, hs => by
    intro st hst
    rcases List.mem_cons.1 hst with rfl | hst
    · obtain ⟨a, b⟩ := hs p (by simp)
      obtain ⟨w, l, _⟩ := readBack_facts p.2 st.2 (nf_of_readBack st p h.1) a b
      exact ⟨w, l⟩
    · exact each₂_readBack_ok rs sents h.2 (fun q hq => hs q (by simp [hq])) st hst

/-- the trees the TIGER-XML reader delivers for the trees read back from an export file (`rs'`, with the ids of `rs`) are written
    by the export writer as the text of the file -/
theorem bodyText_tigerBack : ∀ (rs' : List Tree) (rs sents : List (Nat × Tree)), rs'.length = rs.length →
    (rs'.zip rs).all (fun x => sameTree x.1 (tigerReadTop x.2.2)) = true → Each₂ ReadBack rs sents →
    (∀ p ∈ sents, SentOK p.2 ∧ NoNtMorph p.2) →
    bodyText .export {} ((rs.map (·.1)).zip rs') = bodyText .export {} sents
  | [], [], [], _, _, _, _ => rfl
  | _, [], _ :: _, _, _, h, _ => h.elim
  | _, _ :: _, [], _, _, h, _ => h.elim
  | [], _ :: _, _, hl, _, _, _ => by simp at hl
  | _ :: _, [], _, hl, _, _, _ => by simp at hl
  | r' :: rs', r :: rs, p :: sents, hl, hall, h, hs => by
    rw [List.zip_cons_cons, List.all_cons, Bool.and_eq_true] at hall
    have ih := bodyText_tigerBack rs' rs sents (by simpa using hl) hall.2 h.2 (fun q hq => hs q (by simp [hq]))
    obtain ⟨a, b⟩ := hs p (by simp)
    obtain ⟨w, _, hroot, hk, he⟩ := readBack_facts p.2 r.2 (nf_of_readBack r p h.1) a b
    obtain ⟨_, e⟩ := writeExport_of_tigerRead {} ⟨rfl, rfl, rfl, rfl⟩ rfl r.1 r.2 r' w hroot hk hall.1
    rw [List.map_cons, List.zip_cons_cons, ml_bodyText_cons, ml_bodyText_cons, ih]
    have : writeOne .export {} r.1 r' = writeOne .export {} p.1 p.2 := by
      simp only [writeOne]
      rw [e, he r.1, h.1.1]
    rw [this]

/-! ### what export 3 does not carry of the TIGER content: the lemma of a token, nothing else -/

/-- no token carries a lemma -/
def NoLemma (t : Tree) : Prop := ∀ y ∈ subtrees t, y.isLeaf = true → y.fields.lemma.getD DEFAULT_LEMMA = DEFAULT_LEMMA

instance (t : Tree) : Decidable (NoLemma t) := by unfold NoLemma; infer_instance

theorem carryTiger_carryExport (s : Tree) (h : NoLemma s) : carryTiger (carryExport {} s) = carryTiger s := by
  induction s using tree_ind with
  | hl n f =>
    have := h (leaf n f) (by simp [subtrees]) rfl
    simp only [fields] at this
    simp only [carryExport, carryTiger, printedLabel_plain {} ⟨rfl, rfl, rfl, rfl⟩, fields, Option.getD_some]
    rw [show (if ({} : OutOpts).exportFour = true then some (f.lemma.getD DEFAULT_LEMMA) else some DEFAULT_LEMMA) = some DEFAULT_LEMMA from rfl]
    simp only [Option.getD_some]
    rw [← this]; rfl
  | hn f ks ih =>
    simp only [carryExport, carryTiger, printedLabel_plain {} ⟨rfl, rfl, rfl, rfl⟩, fields, Option.getD_some,
      TT.Lemmas.TigerRT.carryTigerL_eq, carryExportL_eq, List.map_map]
    congr 1
    exact List.map_congr_left (fun k hk => ih k hk (fun y hy => h y (mem_subtrees_kid f ks k y hk hy)))

/-- for a `VROOT`-rooted sentence without token lemmas, the TIGER content of the export content is the TIGER content -/
theorem carryTigerRoot_carryExportRoot (x : Tree) (hl : x.isLeaf = false) (hroot : x.fields.label = DEFAULT_ROOT)
    (h : NoLemma x) : carryTigerRoot (carryExportRoot {} x) = carryTigerRoot x := by
  cases x with
  | leaf n f => cases hl
  | node f ks =>
    simp only [fields] at hroot
    rw [carryExportRoot_node, carryExportL_eq]
    simp only [carryTigerRoot, carryTiger, TT.Lemmas.TigerRT.carryTigerL_eq, List.map_map, hroot]
    congr 1
    exact List.map_congr_left (fun k hk => carryTiger_carryExport k (fun y hy => h y (mem_subtrees_kid f ks k y hk hy)))

end TT.Lemmas.Mid19
