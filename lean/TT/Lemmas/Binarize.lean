/-
  Helper lemmas for C14 (binarization).  Core only (no Mathlib).
-/
import TT.Spec.Transform
import TT.Lemmas.Sort
import TT.Lemmas.Nav
namespace TT.Lemmas.Binarize
open TT TT.Tree TT.Spec

/-! ### list versions of the mutual definitions -/

theorem leavesL_eq : ∀ ks : List Tree, leavesL ks = ks.flatMap leaves
  | [] => rfl
  | t :: ts => by simp [leavesL, leavesL_eq ts]

theorem leafNums_node (f : Fields) (ks : List Tree) : (node f ks).leafNums = ks.flatMap leafNums := by
  simp only [leafNums, leaves, leavesL_eq, List.map_flatMap]
  rfl

theorem consLabelsL_eq : ∀ ks : List Tree, consLabelsL ks = ks.flatMap consLabels
  | [] => rfl
  | t :: ts => by simp [consLabelsL, consLabelsL_eq ts]

theorem unbinKids_eq : ∀ ks : List Tree, unbinKids ks = ks.flatMap unbinNode
  | [] => rfl
  | t :: ts => by simp [unbinKids, unbinKids_eq ts]

theorem sortKidsL_eq : ∀ ks : List Tree, sortKidsL ks = ks.map sortKids
  | [] => rfl
  | t :: ts => by simp [sortKidsL, sortKidsL_eq ts]

theorem maxArityL_le (n : Nat) : ∀ ks : List Tree, maxArityL ks ≤ n ↔ ∀ k ∈ ks, maxArity k ≤ n
  | [] => by simp [maxArityL]
  | t :: ts => by
    simp only [maxArityL, List.mem_cons, forall_eq_or_imp, ← maxArityL_le n ts]
    omega

theorem all_subtrees_node (p : Tree → Bool) (f : Fields) (ks : List Tree) :
    (node f ks).subtrees.all p = (p (node f ks) && ks.all fun k => k.subtrees.all p) := by
  simp only [subtrees, List.all_cons, Nav.subtreesL_eq, List.all_flatMap]

theorem mem_subtrees_self : ∀ t : Tree, t ∈ t.subtrees
  | .leaf _ _ => by simp [subtrees]
  | .node _ _ => by simp [subtrees]

theorem mem_subtrees_of_kid (f : Fields) (ks : List Tree) (k s : Tree) (hk : k ∈ ks)
    (hs : s ∈ k.subtrees) : s ∈ (node f ks).subtrees := by
  simp only [subtrees, Nav.subtreesL_eq, List.mem_cons, List.mem_flatMap]
  exact Or.inr ⟨k, hk, hs⟩

/-! ### `binChain` -/

theorem binChain_short (bf : Fields) (right : Bool) (rem : List Tree) (h : rem.length ≤ 2) :
    ∀ fuel, binChain bf right rem fuel = .ok rem
  | 0 => by simp [binChain]
  | fuel + 1 => by
    cases rem with
    | nil => simp [binChain]
    | cons r0 rest => rw [binChain]; simp only [h, if_true]

/-- one peeling step: the flag after looking at the first remaining child -/
def stepRight (right : Bool) (r0 : Tree) : Bool := right || r0.fields.head == some true
/-- the child peeled off -/
def stepChild (right : Bool) (r0 : Tree) (rest : List Tree) : Tree :=
  if stepRight right r0 then (r0 :: rest).getLast?.getD r0 else r0
/-- what remains -/
def stepRem (right : Bool) (r0 : Tree) (rest : List Tree) : List Tree :=
  if stepRight right r0 then (r0 :: rest).dropLast else rest

theorem binChain_cons (bf : Fields) (right : Bool) (r0 : Tree) (rest : List Tree) (fuel : Nat)
    (h : 2 < (r0 :: rest).length) :
    binChain bf right (r0 :: rest) (fuel + 1) =
      if r0.fields.head.isNone then .error .valueError
      else match binChain bf (stepRight right r0) (stepRem right r0 rest) fuel with
        | .error e => .error e
        | .ok inner => .ok [node bf inner, stepChild right r0 rest] := by
  have h' : ¬ (r0 :: rest).length ≤ 2 := by omega
  rw [binChain]
  simp only [h', if_false]
  rfl

theorem stepChild_perm (right : Bool) (r0 : Tree) (rest : List Tree) :
    (stepChild right r0 rest :: stepRem right r0 rest).Perm (r0 :: rest) := by
  unfold stepChild stepRem
  split
  · have hne : r0 :: rest ≠ [] := by simp
    rw [List.getLast?_eq_some_getLast hne, Option.getD_some]
    have h1 := List.dropLast_concat_getLast hne
    have h2 := List.perm_append_comm (l₁ := [(r0 :: rest).getLast hne]) (l₂ := (r0 :: rest).dropLast)
    rw [h1] at h2
    exact h2
  · exact List.Perm.refl _

theorem stepRem_length (right : Bool) (r0 : Tree) (rest : List Tree) :
    (stepRem right r0 rest).length = rest.length := by
  unfold stepRem; split <;> simp

/-- the shape of a successful `binChain` result -/
inductive BinOut (bf : Fields) : List Tree → List Tree → Prop
  | done (rem : List Tree) : rem.length ≤ 2 → BinOut bf rem rem
  | step (rem rem' inner : List Tree) (child : Tree) : (child :: rem').Perm rem → BinOut bf rem' inner →
      BinOut bf rem [node bf inner, child]

theorem binChain_out (bf : Fields) : ∀ (fuel : Nat) (right : Bool) (rem out : List Tree),
    rem.length ≤ fuel + 2 → binChain bf right rem fuel = .ok out → BinOut bf rem out
  | 0, right, rem, out, hl, h => by
    rw [binChain_short bf right rem (by omega)] at h
    cases h
    exact BinOut.done rem (by omega)
  | fuel + 1, right, rem, out, hl, h => by
    by_cases hs : rem.length ≤ 2
    · rw [binChain_short bf right rem hs] at h
      cases h
      exact BinOut.done rem hs
    · cases rem with
      | nil => simp at hs
      | cons r0 rest =>
        rw [binChain_cons bf right r0 rest fuel (by omega)] at h
        split at h
        · cases h
        · split at h
          · cases h
          · rename_i inner hin
            cases h
            refine BinOut.step _ _ inner _ (stepChild_perm right r0 rest) ?_
            refine binChain_out bf fuel _ _ inner ?_ hin
            rw [stepRem_length]; simp only [List.length_cons] at hl; omega

theorem binChain_accepts (bf : Fields) : ∀ (fuel : Nat) (right : Bool) (rem : List Tree),
    (∀ k ∈ rem, k.fields.head.isSome = true) → ∃ out, binChain bf right rem fuel = .ok out
  | 0, right, rem, _ => ⟨rem, by simp [binChain]⟩
  | fuel + 1, right, rem, hh => by
    by_cases hs : rem.length ≤ 2
    · exact ⟨rem, binChain_short bf right rem hs _⟩
    · cases rem with
      | nil => simp at hs
      | cons r0 rest =>
        rw [binChain_cons bf right r0 rest fuel (by omega)]
        have h0 := hh r0 List.mem_cons_self
        have hnone : r0.fields.head.isNone = false := by
          cases hhd : r0.fields.head <;> simp_all
        have hsub : ∀ k ∈ stepRem right r0 rest, k.fields.head.isSome = true := by
          intro k hk
          have : k ∈ stepChild right r0 rest :: stepRem right r0 rest := List.mem_cons_of_mem _ hk
          exact hh k ((stepChild_perm right r0 rest).subset this)
        obtain ⟨inner, hin⟩ := binChain_accepts bf fuel (stepRight right r0) _ hsub
        exact ⟨_, by simp only [hnone, hin]; rfl⟩

theorem BinOut.length_le {bf : Fields} {rem out : List Tree} (h : BinOut bf rem out) : out.length ≤ 2 := by
  cases h with
  | done _ h => exact h
  | step => simp

/-- any list-valued measure that sees through the fresh node is kept, up to order -/
theorem BinOut.flatMap_perm {β} {bf : Fields} (g : Tree → List β)
    (hg : ∀ inner, g (node bf inner) = inner.flatMap g) {rem out : List Tree} (h : BinOut bf rem out) :
    (out.flatMap g).Perm (rem.flatMap g) := by
  induction h with
  | done => exact List.Perm.refl _
  | step rem rem' inner child hp _ ih =>
    have h1 : ([node bf inner, child].flatMap g) = inner.flatMap g ++ g child := by
      simp [hg]
    rw [h1]
    refine (ih.append_right _).trans ?_
    refine List.perm_append_comm.trans ?_
    exact (List.Perm.flatMap_right g hp)

theorem BinOut.arity {bf : Fields} {rem out : List Tree} (h : BinOut bf rem out)
    (hr : ∀ k ∈ rem, maxArity k ≤ 2) : ∀ k ∈ out, maxArity k ≤ 2 := by
  induction h with
  | done => exact hr
  | step rem rem' inner child hp hin ih =>
    have ih' := ih (fun k hk => hr k (hp.subset (List.mem_cons_of_mem _ hk)))
    intro k hk
    simp only [List.mem_cons, List.not_mem_nil, or_false] at hk
    rcases hk with rfl | rfl
    · simp only [maxArity]
      have := hin.length_le
      have := (maxArityL_le 2 inner).2 ih'
      omega
    · exact hr _ (hp.subset List.mem_cons_self)

/-! ### `binarizeAux` -/

/-- the result when it exists (the input otherwise) -/
def binOk (bare : Bool) (t : Tree) : Tree :=
  match binarizeAux bare t with
  | .ok t' => t'
  | .error _ => t

theorem binOk_of_ok {bare : Bool} {t t' : Tree} (h : binarizeAux bare t = .ok t') : binOk bare t = t' := by
  simp [binOk, h]

theorem binarizeAuxL_ok (bare : Bool) : ∀ (ks ks' : List Tree), binarizeAuxL bare ks = .ok ks' →
    ks' = ks.map (binOk bare) ∧ ∀ k ∈ ks, binarizeAux bare k = .ok (binOk bare k)
  | [], ks', h => by
    simp only [binarizeAuxL] at h; cases h; simp
  | t :: ts, ks', h => by
    rw [binarizeAuxL] at h
    cases h1 : binarizeAux bare t with
    | error e => simp [h1] at h
    | ok a =>
      cases h2 : binarizeAuxL bare ts with
      | error e => simp [h1, h2] at h
      | ok b =>
        simp only [h1, h2] at h
        cases h
        obtain ⟨hb, hall⟩ := binarizeAuxL_ok bare ts b h2
        refine ⟨by simp [binOk_of_ok h1, hb], ?_⟩
        intro k hk
        rcases List.mem_cons.1 hk with rfl | hk
        · rw [binOk_of_ok h1]; exact h1
        · exact hall k hk

theorem binarizeAuxL_of_all (bare : Bool) : ∀ (ks : List Tree),
    (∀ k ∈ ks, ∃ k', binarizeAux bare k = .ok k') → ∃ ks', binarizeAuxL bare ks = .ok ks'
  | [], _ => ⟨[], by simp [binarizeAuxL]⟩
  | t :: ts, h => by
    obtain ⟨a, ha⟩ := h t List.mem_cons_self
    obtain ⟨b, hb⟩ := binarizeAuxL_of_all bare ts (fun k hk => h k (List.mem_cons_of_mem _ hk))
    exact ⟨a :: b, by rw [binarizeAuxL]; simp only [ha, hb]⟩

/-- the two ways a constituent is binarized successfully -/
theorem binarizeAux_node_ok (bare : Bool) (f : Fields) (ks : List Tree) (t' : Tree)
    (h : binarizeAux bare (node f ks) = .ok t') :
    (∀ k ∈ ks, binarizeAux bare k = .ok (binOk bare k)) ∧
    ((ks.length ≤ 2 ∧ t' = node f (ks.map (binOk bare))) ∨
     (2 < ks.length ∧ ∃ two, BinOut (binFields bare f.label) (sortBy leftmost (ks.map (binOk bare))) two ∧
        t' = node f two)) := by
  rw [binarizeAux] at h
  cases h1 : binarizeAuxL bare ks with
  | error e => simp [h1] at h
  | ok ks' =>
    obtain ⟨rfl, hall⟩ := binarizeAuxL_ok bare ks ks' h1
    refine ⟨hall, ?_⟩
    simp only [h1] at h
    by_cases hl : (ks.map (binOk bare)).length ≤ 2
    · simp only [hl, if_true] at h
      cases h
      exact Or.inl ⟨by simpa using hl, rfl⟩
    · simp only [hl, if_false] at h
      split at h
      · cases h
      · split at h
        · cases h
        · rename_i two htwo
          cases h
          refine Or.inr ⟨by simpa using hl, two, ?_, rfl⟩
          exact binChain_out _ _ _ _ _ (by omega) htwo

theorem binarizeAux_fields (bare : Bool) (t t' : Tree) (h : binarizeAux bare t = .ok t') :
    t'.fields = t.fields := by
  cases t with
  | leaf n f => simp only [binarizeAux] at h; cases h; rfl
  | node f ks =>
    rcases (binarizeAux_node_ok bare f ks t' h).2 with ⟨_, rfl⟩ | ⟨_, two, _, rfl⟩ <;> rfl

/-- induction principle over successful runs of `binarizeAux` -/
theorem binarize_induct (bare : Bool) (P : Tree → Tree → Prop)
    (hleaf : ∀ n f, P (leaf n f) (leaf n f))
    (hsmall : ∀ f ks, (∀ k ∈ ks, binarizeAux bare k = .ok (binOk bare k)) → (∀ k ∈ ks, P k (binOk bare k)) →
      ks.length ≤ 2 → P (node f ks) (node f (ks.map (binOk bare))))
    (hbig : ∀ f ks two, (∀ k ∈ ks, binarizeAux bare k = .ok (binOk bare k)) → (∀ k ∈ ks, P k (binOk bare k)) →
      2 < ks.length → BinOut (binFields bare f.label) (sortBy leftmost (ks.map (binOk bare))) two →
      P (node f ks) (node f two)) :
    ∀ (t t' : Tree), binarizeAux bare t = .ok t' → P t t'
  | .leaf n f, t', h => by simp only [binarizeAux] at h; cases h; exact hleaf n f
  | .node f ks, t', h => by
    obtain ⟨hall, hcases⟩ := binarizeAux_node_ok bare f ks t' h
    have hP : ∀ k ∈ ks, P k (binOk bare k) := fun k hk =>
      binarize_induct bare P hleaf hsmall hbig k _ (hall k hk)
    rcases hcases with ⟨hl, rfl⟩ | ⟨hl, two, hout, rfl⟩
    · exact hsmall f ks hall hP hl
    · exact hbig f ks two hall hP hl hout
termination_by t => t
decreasing_by
  all_goals simp_wf
  all_goals (have := List.sizeOf_lt_of_mem hk; omega)

theorem binFields_label (bare : Bool) (l : Str) : ∃ r, (binFields bare l).label = '@' :: r :=
  ⟨_, rfl⟩

/-! ### leaf numbers, leftmost token -/

theorem binarize_leafNums_perm (bare : Bool) : ∀ (t t' : Tree), binarizeAux bare t = .ok t' →
    t'.leafNums.Perm t.leafNums := by
  refine binarize_induct bare (fun t t' => t'.leafNums.Perm t.leafNums) ?_ ?_ ?_
  · intro n f; exact List.Perm.refl _
  · intro f ks _ hP _
    rw [leafNums_node, leafNums_node, List.flatMap_map]
    exact Nav.perm_flatMap_of_forall _ _ ks hP
  · intro f ks two _ hP _ hout
    rw [leafNums_node, leafNums_node]
    refine (hout.flatMap_perm leafNums (fun inner => leafNums_node _ inner)).trans ?_
    refine (List.Perm.flatMap_right _ (sortBy_perm leftmost _)).trans ?_
    rw [List.flatMap_map]
    exact Nav.perm_flatMap_of_forall _ _ ks hP

theorem sortBy_id_perm (l l' : List Nat) (h : l.Perm l') : sortBy id l = sortBy id l' := by
  refine List.Perm.eq_of_pairwise (le := fun a b => a ≤ b) ?_ (sortBy_sorted id l) (sortBy_sorted id l')
    ((sortBy_perm id l).trans (h.trans (sortBy_perm id l').symm))
  intro a b _ _ h1 h2; exact Nat.le_antisymm h1 h2

theorem leftmost_of_perm (t t' : Tree) (h : t'.leafNums.Perm t.leafNums) : leftmost t' = leftmost t := by
  simp only [leftmost, Nav.yield_eq, sortBy_id_perm _ _ h]

mutual
theorem sortKids_leafNums : (t : Tree) → (sortKids t).leafNums.Perm t.leafNums
  | .leaf n f => by simp [sortKids]
  | .node f ks => by
    rw [sortKids, leafNums_node, leafNums_node]
    exact (List.Perm.flatMap_right _ (sortBy_perm leftmost _)).trans (sortKidsL_leafNums ks)
theorem sortKidsL_leafNums : (ts : List Tree) → ((sortKidsL ts).flatMap leafNums).Perm (ts.flatMap leafNums)
  | [] => by simp [sortKidsL]
  | t :: ts => by
    simp only [sortKidsL, List.flatMap_cons]
    exact (sortKids_leafNums t).append (sortKidsL_leafNums ts)
end

theorem leftmost_sortKids (t : Tree) : leftmost (sortKids t) = leftmost t :=
  leftmost_of_perm _ _ (sortKids_leafNums t)

/-! ### labels -/

/-- not an `@` label -/
def notAt (l : Str) : Bool := l.head? != some '@'

theorem consLabels_node_filter (p : Str → Bool) (f : Fields) (ks : List Tree) :
    (consLabels (node f ks)).filter p = [f.label].filter p ++ ks.flatMap (fun k => (consLabels k).filter p) := by
  rw [consLabels, consLabelsL_eq, ← List.filter_flatMap, ← List.filter_append]; rfl

theorem binarize_labels_filter (bare : Bool) : ∀ (t t' : Tree), binarizeAux bare t = .ok t' →
    ((consLabels t').filter notAt).Perm ((consLabels t).filter notAt) := by
  refine binarize_induct bare
    (fun t t' => ((consLabels t').filter notAt).Perm ((consLabels t).filter notAt)) ?_ ?_ ?_
  · intro n f; exact List.Perm.refl _
  · intro f ks _ hP _
    rw [consLabels_node_filter, consLabels_node_filter, List.flatMap_map]
    exact List.Perm.append_left _ (Nav.perm_flatMap_of_forall _ _ ks hP)
  · intro f ks two _ hP _ hout
    rw [consLabels_node_filter, consLabels_node_filter]
    refine List.Perm.append_left _ ?_
    refine (hout.flatMap_perm (fun k => (consLabels k).filter notAt) ?_).trans ?_
    · intro inner
      rw [consLabels_node_filter]
      simp [binFields, notAt]
    · refine (List.Perm.flatMap_right _ (sortBy_perm leftmost _)).trans ?_
      rw [List.flatMap_map]
      exact Nav.perm_flatMap_of_forall _ _ ks hP

/-! ### `noAtLabels`, `sibDistinct` at a node -/

theorem noAtLabels_node (f : Fields) (ks : List Tree) :
    noAtLabels (node f ks) = true ↔ notAt f.label = true ∧ ∀ k ∈ ks, noAtLabels k = true := by
  unfold noAtLabels
  rw [all_subtrees_node]
  simp [fields, notAt]

theorem nodupB_iff : ∀ l : List Nat, nodupB l = true ↔ l.Nodup
  | [] => by simp [nodupB]
  | a :: r => by simp [nodupB, nodupB_iff r]

theorem sibDistinct_node (f : Fields) (ks : List Tree) :
    sibDistinct (node f ks) = true ↔ (ks.map leftmost).Nodup ∧ ∀ k ∈ ks, sibDistinct k = true := by
  unfold sibDistinct
  rw [all_subtrees_node]
  simp [nodupB_iff]

mutual
theorem filter_notAt_of_noAt : (t : Tree) → noAtLabels t = true →
    (consLabels t).filter notAt = consLabels t
  | .leaf _ _, _ => by simp [consLabels]
  | .node f ks, h => by
    obtain ⟨h1, h2⟩ := (noAtLabels_node f ks).1 h
    simp only [consLabels, List.filter_cons, h1, if_true, filterL_notAt_of_noAt ks h2]
theorem filterL_notAt_of_noAt : (ts : List Tree) → (∀ k ∈ ts, noAtLabels k = true) →
    (consLabelsL ts).filter notAt = consLabelsL ts
  | [], _ => by simp [consLabelsL]
  | t :: ts, h => by
    simp only [consLabelsL, List.filter_append,
      filter_notAt_of_noAt t (h t List.mem_cons_self),
      filterL_notAt_of_noAt ts (fun k hk => h k (List.mem_cons_of_mem _ hk))]
end

/-! ### removing the `@` nodes -/

theorem binOk_fields (bare : Bool) (t : Tree) : (binOk bare t).fields = t.fields := by
  unfold binOk
  cases h : binarizeAux bare t with
  | error e => rfl
  | ok t' => exact binarizeAux_fields bare t t' h

theorem unbinNode_binFields (bare : Bool) (l : Str) (inner : List Tree) :
    unbinNode (node (binFields bare l) inner) = inner.flatMap unbinNode := by
  simp [unbinNode, isBinNode, binFields, unbinKids_eq]

theorem unbinNode_of_notAt (f : Fields) (ks : List Tree) (h : notAt f.label = true) :
    unbinNode (node f ks) = [unbinarize (node f ks)] := by
  have : isBinNode (node f ks) = false := by
    simp only [notAt, bne_iff_ne, ne_eq] at h
    simp [isBinNode, h]
  simp [unbinNode, this, unbinarize]

/-- what `unbinarize_binarize` needs of one tree -/
def UnbinOK (t t' : Tree) : Prop :=
  unbinNode t' = [unbinarize t'] ∧ sortKids (unbinarize t') = sortKids t

theorem sortKidsL_unbinKids_map (g : Tree → Tree) : ∀ (ks : List Tree),
    (∀ k ∈ ks, UnbinOK k (g k)) → sortKidsL (unbinKids (ks.map g)) = sortKidsL ks
  | [], _ => rfl
  | t :: ts, h => by
    obtain ⟨h1, h2⟩ := h t List.mem_cons_self
    have ih := sortKidsL_unbinKids_map g ts (fun k hk => h k (List.mem_cons_of_mem _ hk))
    simp only [List.map_cons, unbinKids, h1, List.singleton_append, sortKidsL, h2, ih]

theorem unbinarize_binarizeAux (bare : Bool) : ∀ (t t' : Tree), binarizeAux bare t = .ok t' →
    noAtLabels t = true → sibDistinct t = true → UnbinOK t t' := by
  refine binarize_induct bare
    (fun t t' => noAtLabels t = true → sibDistinct t = true → UnbinOK t t') ?_ ?_ ?_
  · intro n f _ _
    exact ⟨by simp [unbinNode, unbinarize], rfl⟩
  · intro f ks _ hP _ hat hsd
    obtain ⟨hat1, hat2⟩ := (noAtLabels_node f ks).1 hat
    obtain ⟨_, hsd2⟩ := (sibDistinct_node f ks).1 hsd
    have hX := sortKidsL_unbinKids_map (binOk bare) ks (fun k hk => hP k hk (hat2 k hk) (hsd2 k hk))
    refine ⟨unbinNode_of_notAt f _ hat1, ?_⟩
    simp only [unbinarize, sortKids, hX]
  · intro f ks two _ hP _ hout hat hsd
    obtain ⟨hat1, hat2⟩ := (noAtLabels_node f ks).1 hat
    obtain ⟨hsd1, hsd2⟩ := (sibDistinct_node f ks).1 hsd
    have hX := sortKidsL_unbinKids_map (binOk bare) ks (fun k hk => hP k hk (hat2 k hk) (hsd2 k hk))
    refine ⟨unbinNode_of_notAt f _ hat1, ?_⟩
    simp only [unbinarize, sortKids]
    congr 1
    have hp1 : (unbinKids two).Perm (unbinKids (ks.map (binOk bare))) := by
      rw [unbinKids_eq, unbinKids_eq]
      exact (hout.flatMap_perm unbinNode (unbinNode_binFields bare f.label)).trans
        (List.Perm.flatMap_right _ (sortBy_perm leftmost _))
    have hp2 : (sortKidsL ks).Perm (sortKidsL (unbinKids two)) := by
      rw [← hX, sortKidsL_eq, sortKidsL_eq]
      exact (hp1.map sortKids).symm
    have hnd : ((sortKidsL ks).map leftmost).Nodup := by
      have : (sortKidsL ks).map leftmost = ks.map leftmost := by
        rw [sortKidsL_eq, List.map_map]
        exact List.map_congr_left (fun k _ => leftmost_sortKids k)
      rw [this]; exact hsd1
    exact (sortBy_perm_eq leftmost _ _ hp2 hnd).symm

/-! ### acceptance / rejection -/

theorem binarizeAux_accepts (bare : Bool) : (t : Tree) →
    (∀ s ∈ t.subtrees, ∀ f ks, s = node f ks → 2 < ks.length →
      (∀ k ∈ ks, k.fields.head.isSome = true) ∧ ∃ k ∈ ks, k.fields.head = some true) →
    ∃ t', binarizeAux bare t = .ok t'
  | .leaf n f, _ => ⟨leaf n f, by simp [binarizeAux]⟩
  | .node f ks, h => by
    have hkids : ∀ k ∈ ks, ∃ k', binarizeAux bare k = .ok k' := fun k hk =>
      binarizeAux_accepts bare k (fun s hs => h s (mem_subtrees_of_kid f ks k s hk hs))
    obtain ⟨ks', h1⟩ := binarizeAuxL_of_all bare ks hkids
    obtain ⟨rfl, hall⟩ := binarizeAuxL_ok bare ks ks' h1
    rw [binarizeAux]
    simp only [h1]
    by_cases hl : (ks.map (binOk bare)).length ≤ 2
    · exact ⟨node f (ks.map (binOk bare)), by simp only [hl, if_true]⟩
    · simp only [hl, if_false]
      obtain ⟨hsome, k0, hk0, hhead⟩ := h (node f ks) (mem_subtrees_self _) f ks rfl (by simpa using hl)
      have hany : ((sortBy leftmost (ks.map (binOk bare))).any fun c => c.fields.head == some true) = true := by
        rw [List.any_eq_true]
        refine ⟨binOk bare k0, (mem_sortBy _ _ _).2 (List.mem_map_of_mem hk0), ?_⟩
        rw [binOk_fields, hhead]; simp
      have hss : ∀ k ∈ sortBy leftmost (ks.map (binOk bare)), k.fields.head.isSome = true := by
        intro k hk
        obtain ⟨k1, hk1, rfl⟩ := List.mem_map.1 ((mem_sortBy _ _ _).1 hk)
        rw [binOk_fields]; exact hsome k1 hk1
      obtain ⟨two, htwo⟩ := binChain_accepts (binFields bare f.label) (sortBy leftmost (ks.map (binOk bare))).length
        false _ hss
      exact ⟨node f two, by simp only [hany, htwo]; rfl⟩
termination_by t => t
decreasing_by
  all_goals simp_wf
  all_goals (have := List.sizeOf_lt_of_mem hk; omega)

theorem binarizeAux_rejects (bare : Bool) (f : Fields) (ks : List Tree) (h3 : 2 < ks.length)
    (hh : ∀ k ∈ ks, k.fields.head ≠ some true) : ∃ e, binarizeAux bare (node f ks) = .error e := by
  rw [binarizeAux]
  cases h1 : binarizeAuxL bare ks with
  | error e => exact ⟨e, rfl⟩
  | ok ks' =>
    obtain ⟨rfl, _⟩ := binarizeAuxL_ok bare ks ks' h1
    have hl : ¬ (ks.map (binOk bare)).length ≤ 2 := by simp; omega
    have hany : ((sortBy leftmost (ks.map (binOk bare))).any fun c => c.fields.head == some true) = false := by
      rw [List.any_eq_false]
      intro k hk
      obtain ⟨k1, hk1, rfl⟩ := List.mem_map.1 ((mem_sortBy _ _ _).1 hk)
      rw [binOk_fields]; simpa using hh k1 hk1
    exact ⟨.valueError, by simp only [hl, if_false, hany]; rfl⟩

end TT.Lemmas.Binarize
